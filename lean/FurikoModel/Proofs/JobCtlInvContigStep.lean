/-
`Inv4` (contiguous retry numbers) is preserved by every step (all actions, foreign pods included).
Core Lean only.
-/
import FurikoModel.Proofs.JobCtlInvContig
import FurikoModel.Proofs.JobCtlInvStabStep

set_option linter.unusedSimpArgs false
set_option linter.unusedVariables false

namespace Furiko.JobCtl
open Furiko Furiko.WQ Furiko.StatusLemmas Furiko.ParallelLemmas

/-- the Job object of an intermediate state of the pass: untouched, or a version written in this pass -/
def JobSame (s0 s : Sys) : Prop :=
  s.job = s0.job ∨ (∃ x, s.job = some x ∧ s0.rv < x.rv) ∨ s.job = none

structure PassFacts4 (j0 : JobObj) (s0 sp : Sys) (jo : JobObj) : Prop where
  frame : Frame s0 sp
  wf2 : WF2 j0 sp.d
  podsSp : PodsGood j0 sp
  goodJo : Good j0 sp.d jo.job
  contigJo : Contig j0 sp.d jo.job.status.tasks
  down0 : ∀ j, s0.job = some j → ∀ c ∈ s0.podCache, c.ownerUid = some j0.uid → PodDown s0.d j.job.status.tasks c
  rvJo : jo.rv ≤ s0.rv
  idCur : CachedIsCur jo (sync sp jo).1
  idCur0 : CachedIsCur0 jo s0 sp

theorem Inv4.jobGone {j0 : JobObj} {s s' : Sys} (h : Inv4 j0 s) (hg : JobGone s s') : Inv4 j0 s' := by
  have hseen : seenVers s' = seenVers s := by
    obtain ⟨x, hx⟩ := hg.jobEvs
    unfold seenVers
    rw [hg.static.jobCache, hx, upserts_append]
    simp [upserts]
  refine ⟨?_, ?_, ?_⟩
  · intro v hv
    rw [hg.static.d]
    rcases hv with hv | hv
    · rw [hg.job] at hv; cases hv
    · exact h.contig v (Or.inr (hseen ▸ hv))
  · intro j hj; rw [hg.job] at hj; cases hj
  · intro v hv j hj; rw [hg.job] at hj; cases hj

/-- a new version with the refs of the current one -/
theorem Inv4.jobWrite_same {j0 : JobObj} {s s' : Sys} {cur nj : JobObj} (h : Inv4 j0 s) (h2 : Inv2 j0 s)
    (hwf : WF2 j0 s.d) (hw : JobWrite s s' nj) (hcur : s.job = some cur) (hst : nj.job.status = cur.job.status) :
    Inv4 j0 s' := by
  refine h.jobWrite h2 hwf hw hcur ((h2.job cur hcur).of_status_eq hst) ?_ ?_
  · rw [hst]; exact h.contig cur (Or.inl hcur)
  · intro n hn; unfold refNames; rw [hst]; exact hn

theorem Inv4.micro {j0 jo : JobObj} {s0 sp s s' : Sys} (hb : Base j0 s) (h2 : Inv2 j0 s) (h4 : Inv4 j0 s)
    (hc : s.jobCache = some jo) (pf : PassFacts4 j0 s0 sp jo) (hd : s.d = sp.d) (hrv0 : s0.rv ≤ s.rv)
    (hji : JobSame s0 s) (hm : Micro jo sp s s') : Inv4 j0 s' ∧ JobSame s0 s' := by
  have hseen := mem_seenVers_cache hc
  have hjo := (hb.seenOK jo hseen).1
  have hwf : WF2 j0 s.d := hd ▸ pf.wf2
  have keep : ∀ {t : Sys}, t.job = s.job → JobSame s0 t := by
    intro t ht
    rcases hji with h | ⟨x, hx, hr⟩ | h
    · exact Or.inl (ht.trans h)
    · exact Or.inr (Or.inl ⟨x, ht.trans hx, hr⟩)
    · exact Or.inr (Or.inr (ht.trans h))
  cases hm with
  | frame hf => exact ⟨h4.frame hf, keep hf.job⟩
  | create idx retry hreq hcp =>
    rcases apiCreatePod_spec s jo idx retry with hs | hs
    · exact ⟨h4.frame hs.1, keep hs.1.job⟩
    · have ha := hs.1
      refine ⟨h4.podChange ha.static ha.job ha.jobEvs ?_, keep ha.job⟩
      have hnew : ∀ j, s.job = some j → (newPod jo idx retry (nowT s)).ownerUid = some j0.uid →
          PodDown s.d j.job.status.tasks (newPod jo idx retry (nowT s)) := by
        intro j hj _ idx' retry' hpi hri i h0 hi
        simp only [newPod, Option.some.injEq] at hpi hri
        subst hpi; subst hri
        have hf := createReq_facts hreq
        have hx := attempts_below_next (hd ▸ pf.contigJo) idx.hash i h0 (by rw [← hf.2.1]; exact hi)
        exact hasAttempt_mono hwf (h2.seen jo hseen).refs (h2.job j hj).refs (h4.le jo hseen j hj) hx
      intro p hp
      rw [ha.pods, ha.static.podCache, ha.podEvs] at hp
      rcases hp with hp | hp | hp
      · rcases List.mem_append.mp hp with hp | hp
        · exact Or.inl (Or.inl hp)
        · simp only [List.mem_singleton] at hp; subst hp; exact Or.inr hnew
      · exact Or.inl (Or.inr (Or.inl hp))
      · rcases List.mem_append.mp hp with hp | hp
        · exact Or.inl (Or.inr (Or.inr hp))
        · simp only [List.mem_singleton, PEv.upsert.injEq] at hp; subst hp; exact Or.inr hnew
  | delPod name force =>
    rcases apiDeletePod_spec s name force with hs | ⟨p, _, hs, _⟩ | ⟨p, _, _, _, hs⟩
    · exact ⟨h4.frame hs, keep hs.job⟩
    · refine ⟨h4.podChange hs.static hs.job hs.jobEvs ?_, keep hs.job⟩
      intro q hq
      rw [hs.pods, hs.static.podCache, hs.podEvs] at hq
      rcases hq with hq | hq | hq
      · exact Or.inl (Or.inl (mem_delPod hq).1)
      · exact Or.inl (Or.inr (Or.inl hq))
      · rcases List.mem_append.mp hq with hq | hq
        · exact Or.inl (Or.inr (Or.inr hq))
        · simp at hq
    · refine ⟨h4.podChange hs.static hs.job hs.jobEvs ?_, keep hs.job⟩
      have hold := (findPod_some hs.found).1
      have hnew : ∀ j, s.job = some j →
          ({ p with pod := { p.pod with deletionTimestamp := some (nowT s) } } : PodObj).ownerUid = some j0.uid →
          PodDown s.d j.job.status.tasks
          { p with pod := { p.pod with deletionTimestamp := some (nowT s) } } :=
        fun j hj ho => (h4.down j hj p (Or.inl hold) ho).transfer rfl rfl
      intro q hq
      rw [hs.pods, hs.static.podCache, hs.podEvs] at hq
      rcases hq with hq | hq | hq
      · rcases mem_setPod hq with rfl | hq
        · exact Or.inr hnew
        · exact Or.inl (Or.inl hq)
      · exact Or.inl (Or.inr (Or.inl hq))
      · rcases List.mem_append.mp hq with hq | hq
        · exact Or.inl (Or.inr (Or.inr hq))
        · simp only [List.mem_singleton, PEv.upsert.injEq] at hq; subst hq; exact Or.inr hnew
  | delJob =>
    rcases apiDeleteJob_spec s jo with hs | ⟨c, hc', _, _, hs⟩ | ⟨c, _, _, hs⟩
    · exact ⟨h4.frame hs, keep hs.job⟩
    · refine ⟨h4.jobWrite_same h2 hwf hs hc' rfl, Or.inr (Or.inl ⟨_, hs.job, ?_⟩)⟩
      show s0.rv < s.rv + 1
      omega
    · exact ⟨h4.jobGone hs, Or.inr (Or.inr hs.job)⟩
  | updJob hsync =>
    rcases apiUpdateJob_spec s jo { jo with job := (sync sp jo).2.1, finalizer := (sync sp jo).2.2.1 } with
      hs | ⟨c, hc', hrv, hs | hs⟩
    · exact ⟨h4.frame hs, keep hs.job⟩
    · refine ⟨h4.jobWrite_same h2 hwf hs.1 hc' rfl, Or.inr (Or.inl ⟨_, hs.1.job, ?_⟩)⟩
      show s0.rv < s.rv + 1
      omega
    · exact ⟨h4.jobGone hs.1, Or.inr (Or.inr hs.1.job)⟩
  | updStatus =>
    rcases apiUpdateJobStatus_spec s jo { jo with job := (sync sp jo).2.1 } with hs | ⟨c, hc', hrv, hs⟩
    · exact ⟨h4.frame hs, keep hs.job⟩
    · have : jo = c := hb.rvId c hc' jo hseen hrv.symm
      subst this
      -- the cached Job was the authoritative one when the pass started
      have hj0 : s0.job = some jo := by
        rcases hji with h | ⟨x, hx, hr⟩ | h
        · rw [← h]; exact hc'
        · rw [hc'] at hx; cases hx
          have := pf.rvJo
          omega
        · rw [hc'] at h; cases h
      have hdown : ∀ c ∈ sp.podCache, c.ownerUid = some j0.uid → PodDown sp.d jo.job.status.tasks c := by
        intro c hcm ho
        rw [pf.frame.d]
        exact pf.down0 jo hj0 c (pf.frame.podCache ▸ hcm) ho
      have hcontig := sync_contig sp jo pf.wf2 pf.podsSp hjo pf.goodJo pf.contigJo hdown
      have hgood := (sync_good sp jo pf.wf2 pf.podsSp hjo pf.goodJo).1
      have hle := (sync_spec sp jo sp (CreatePhase.refl _)).2
      refine ⟨h4.jobWrite h2 hwf hs hc' ?_ ?_ hle.names, Or.inr (Or.inl ⟨_, hs.job, ?_⟩)⟩
      · rw [hd]; exact hgood.of_status_eq rfl
      · rw [hd]; exact hcontig
      · show s0.rv < s.rv + 1
        omega
  | updStatusOn s1 hs1 hs1' hok =>
    rcases apiUpdateJobStatus_spec s { jo with rv := updatedRv s jo } { jo with job := (sync sp jo).2.1 } with
      hs | ⟨c, hc', hrv, hs⟩
    · exact ⟨h4.frame hs, keep hs.job⟩
    · -- the object `Update` produced: the cached Job (which the pass had found untouched) with new metadata
      have hcur := apiUpdateJob_ok_cur (hs1 ▸ pf.idCur) hok c (hs1' ▸ hc')
      have hj0 : s0.job = some jo := pf.idCur0 jo (by rw [← hs1]; exact hcur.2.2) rfl
      obtain ⟨r0, rfl⟩ : ∃ r0, c =
          specWrite jo { jo with job := (sync sp jo).2.1, finalizer := (sync sp jo).2.2.1 } r0 := ⟨_, hcur.1⟩
      have hdown : ∀ c ∈ sp.podCache, c.ownerUid = some j0.uid → PodDown sp.d jo.job.status.tasks c := by
        intro c hcm ho
        rw [pf.frame.d]
        exact pf.down0 jo hj0 c (pf.frame.podCache ▸ hcm) ho
      have hcontig := sync_contig sp jo pf.wf2 pf.podsSp hjo pf.goodJo pf.contigJo hdown
      have hgood := (sync_good sp jo pf.wf2 pf.podsSp hjo pf.goodJo).1
      have hle := (sync_spec sp jo sp (CreatePhase.refl _)).2
      refine ⟨h4.jobWrite h2 hwf hs hc' ?_ ?_ hle.names, Or.inr (Or.inl ⟨_, hs.job, ?_⟩)⟩
      · rw [hd]; exact hgood.of_status_eq rfl
      · rw [hd]; exact hcontig
      · show s0.rv < s.rv + 1
        omega

theorem Inv4.micros {j0 jo : JobObj} {s0 sp s s' : Sys} (hb : Base j0 s) (h2 : Inv2 j0 s) (h4 : Inv4 j0 s)
    (hc : s.jobCache = some jo) (pf : PassFacts4 j0 s0 sp jo) (hd : s.d = sp.d) (hrv0 : s0.rv ≤ s.rv)
    (hji : JobSame s0 s) (hm : Micros jo sp s s') : Inv4 j0 s' := by
  suffices h : Inv4 j0 s' ∧ JobSame s0 s' from h.1
  induction hm with
  | refl => exact ⟨h4, hji⟩
  | tail hms hm ih =>
    have hbm := hb.micros hc hms
    have h2m := Inv2.micros hb h2 hc pf.wf2 pf.podsSp pf.goodJo hd.symm hms
    exact Inv4.micro hbm.1 h2m ih.1 hbm.2 pf (hms.static.d.trans hd) (Nat.le_trans hrv0 hms.rv_le) ih.2 hm

theorem Inv4.afterRestart {j0 : JobObj} {s : Sys} (h : Inv4 j0 s) : Inv4 j0 (restart s) := by
  have hf : (restart s).job = s.job ∧ (restart s).pods = s.pods ∧ (restart s).d = s.d ∧
      seenVers (restart s) = s.job.toList ∧ (restart s).podCache = s.pods ∧ (restart s).podEvs = [] := by
    unfold restart
    cases hj : s.job <;> simp [seenVers, upserts, hj]
  obtain ⟨h1, h2, h3, h4, h5, h6⟩ := hf
  refine ⟨?_, ?_, ?_⟩
  · intro v hv
    rw [h3]
    rcases hv with hv | hv
    · exact h.contig v (Or.inl (h1 ▸ hv))
    · rw [h4] at hv
      cases hj : s.job with
      | none => simp [hj] at hv
      | some j => simp only [hj, Option.toList_some, List.mem_singleton] at hv; subst hv; exact h.contig v (Or.inl hj)
  · intro j hj p hp
    rw [h1] at hj; rw [h3]
    rw [h2, h5, h6] at hp
    rcases hp with hp | hp | hp
    · exact h.down j hj p (Or.inl hp)
    · exact h.down j hj p (Or.inl hp)
    · cases hp
  · intro v hv j hj
    rw [h1] at hj; rw [h4, hj] at hv
    simp only [Option.toList_some, List.mem_singleton] at hv
    subst hv; exact fun n hn => hn

theorem Inv4.init {j0 : JobObj} (hwf : WF j0) (clock : Int) (cfg : ExecConfig) (d : PIndex) :
    Inv4 j0 (initSys clock cfg d j0) := by
  have hc : Contig j0 d j0.job.status.tasks := by rw [hwf.noTasks]; intro r hr; cases hr
  unfold initSys userCreateJob
  refine ⟨?_, ?_, ?_⟩
  · intro v hv
    rcases hv with hv | hv
    · simp only [Option.some.injEq] at hv; subst hv; exact hc
    · simp only [seenVers, upserts, Option.toList_none, List.nil_append, List.filterMap_cons,
        List.filterMap_nil, List.mem_singleton] at hv
      subst hv; exact hc
  · intro j _ p hp
    rcases hp with hp | hp | hp
    · cases hp
    · cases hp
    · simp at hp
  · intro v hv j hj
    simp only [Option.some.injEq] at hj
    simp only [seenVers, upserts, Option.toList_none, List.nil_append, List.filterMap_cons, List.filterMap_nil,
      List.mem_singleton] at hv
    subst hv; subst hj
    exact fun n hn => hn

theorem Inv4.step {j0 : JobObj} {s : Sys} (hb : Base j0 s) (h2 : Inv2 j0 s) (h4 : Inv4 j0 s) (hwf : WF2 j0 s.d)
    (a : Action) (hal : Allowed j0 s a) : Inv4 j0 (JobCtl.step s a) := by
  cases a with
  | setFaults fs => exact h4.of_same rfl rfl (fun p hp => hp) (fun _ h => h)
  | work =>
    show Inv4 j0 (work s).1
    cases hc : s.jobCache with
    | none => exact h4.frame (work_frame s hc)
    | some jo =>
      obtain ⟨sp, hf, hm⟩ := work_micros s jo hc
      have hseen := mem_seenVers_cache hc
      have h2sp := h2.frame hf
      have hcsp : sp.jobCache = some jo := hf.jobCache.trans hc
      have pf : PassFacts4 j0 s sp jo :=
        ⟨hf, hf.d ▸ hwf, h2sp.pods, h2sp.seen jo (mem_seenVers_cache hcsp), hf.d ▸ h4.contig jo (Or.inr hseen),
          fun j hj c hcm => h4.down j hj c (Or.inr (Or.inl hcm)), (hb.seenOK jo hseen).2,
          cachedIsCur_sync (hb.frame hf) hcsp, cachedIsCur0_sync (hb.frame hf) hcsp hf⟩
      exact Inv4.micros (hb.frame hf) h2sp (h4.frame hf) hcsp pf rfl (by rw [hf.rv]; exact Nat.le_refl _)
        (Or.inl hf.job) hm
  | deliverJob =>
    show Inv4 j0 (deliverJob s)
    have := deliverJob_fields s
    exact h4.of_same this.1 this.2.2.2.1 (fun p hp => by
      rw [this.2.2.1, this.2.2.2.2.2.1, this.2.2.2.2.1] at hp; exact hp) (seenVers_deliverJob s)
  | deliverPod =>
    show Inv4 j0 (deliverPod s)
    have hf := deliverPod_fields s
    have hp := deliverPod_pods_side s
    refine h4.of_same hf.1 hf.2.2.2.1 ?_
      (by rw [seenVers_congr hf.2.2.2.2.2.1 hf.2.2.2.2.1]; exact fun _ h => h)
    intro p hpm
    rw [hf.2.2.1] at hpm
    rcases hpm with h | h | h
    · exact Or.inl h
    · rcases hp.1 p h with h' | h'
      · exact Or.inr (Or.inl h')
      · exact Or.inr (Or.inr h')
    · exact Or.inr (Or.inr (hp.2 p h))
  | resync => exact h4.frame (s' := resync s) (resync_frame s)
  | restart => exact h4.afterRestart
  | advance d => exact h4.of_same rfl rfl (fun p hp => hp) (fun _ h => h)
  | kubelet p =>
    show Inv4 j0 (setPodState s p)
    rcases setPodState_spec s p with hs | ⟨old, hs⟩
    · rw [hs]; exact h4
    · have hk : KubeletOK old p := by
        obtain ⟨o, ho, hk⟩ := (optSat_iff _ _).mp hal
        rw [hs.found] at ho; cases ho; exact hk
      have hold := (findPod_some hs.found).1
      have hnew : ∀ j, s.job = some j → p.ownerUid = some j0.uid → PodDown s.d j.job.status.tasks p :=
        fun j hj ho => (h4.down j hj old (Or.inl hold) (hk.1 ▸ ho)).transfer hk.2.2.2.2.2.2.2.1 hk.2.2.2.2.2.2.1
      refine h4.podChange hs.static hs.job hs.jobEvs ?_
      intro q hq
      rw [hs.pods, hs.static.podCache, hs.podEvs] at hq
      rcases hq with hq | hq | hq
      · rcases mem_setPod hq with rfl | hq
        · exact Or.inr hnew
        · exact Or.inl (Or.inl hq)
      · exact Or.inl (Or.inr (Or.inl hq))
      · rcases List.mem_append.mp hq with hq | hq
        · exact Or.inl (Or.inr (Or.inr hq))
        · simp only [List.mem_singleton, PEv.upsert.injEq] at hq; subst hq; exact Or.inr hnew
  | podGone n =>
    show Inv4 j0 (removePod s n)
    rcases removePod_spec s n with hs | ⟨p, _, hs⟩
    · rw [hs]; exact h4
    · refine h4.podChange hs.static hs.job hs.jobEvs ?_
      intro q hq
      rw [hs.pods, hs.static.podCache, hs.podEvs] at hq
      rcases hq with hq | hq | hq
      · exact Or.inl (Or.inl (mem_delPod hq).1)
      · exact Or.inl (Or.inr (Or.inl hq))
      · rcases List.mem_append.mp hq with hq | hq
        · exact Or.inl (Or.inr (Or.inr hq))
        · simp at hq
  | externalDelete n =>
    show Inv4 j0 (removePod s n)
    rcases removePod_spec s n with hs | ⟨p, _, hs⟩
    · rw [hs]; exact h4
    · refine h4.podChange hs.static hs.job hs.jobEvs ?_
      intro q hq
      rw [hs.pods, hs.static.podCache, hs.podEvs] at hq
      rcases hq with hq | hq | hq
      · exact Or.inl (Or.inl (mem_delPod hq).1)
      · exact Or.inl (Or.inr (Or.inl hq))
      · rcases List.mem_append.mp hq with hq | hq
        · exact Or.inl (Or.inr (Or.inr hq))
        · simp at hq
  | kill t =>
    show Inv4 j0 (mutateJobObj s _)
    rcases mutateJobObj_spec s (fun j => { j with job := { j.job with killTimestamp := some t } }) with hs | ⟨c, hc, hs⟩
    · rw [hs.2]; exact h4
    · exact h4.jobWrite_same h2 hwf hs hc rfl
  | userDelete =>
    show Inv4 j0 (userDeleteJob s)
    rcases userDeleteJob_spec s with hs | ⟨c, hc, _, _, hs⟩ | ⟨c, _, _, hs⟩
    · rw [hs]; exact h4
    · exact h4.jobWrite_same h2 hwf hs hc rfl
    · exact h4.jobGone hs
  | createForeign p =>
    show Inv4 j0 (createForeignPod s p)
    rcases createForeignPod_spec s p with hs | hs
    · rw [hs]; exact h4
    · -- the new pod is not controlled by the Job: nothing is claimed about it
      refine h4.podChange hs.static hs.job hs.jobEvs ?_
      intro q hq
      rw [hs.pods, hs.static.podCache, hs.podEvs] at hq
      rcases hq with hq | hq | hq
      · rcases List.mem_append.mp hq with hq | hq
        · exact Or.inl (Or.inl hq)
        · simp only [List.mem_singleton] at hq; subst hq; exact Or.inr (fun _ _ ho => absurd ho hal)
      · exact Or.inl (Or.inr (Or.inl hq))
      · rcases List.mem_append.mp hq with hq | hq
        · exact Or.inl (Or.inr (Or.inr hq))
        · simp only [List.mem_singleton, PEv.upsert.injEq] at hq; subst hq
          exact Or.inr (fun _ _ ho => absurd ho hal)

/-- `Inv4` holds in every reachable state (all actions allowed) -/
theorem inv4_of_reach {ok : Sys → Action → Prop} {j0 : JobObj} {s : Sys}
    (hr : Reach ok j0 s) (hwf : WF2 j0 s.d) : Inv4 j0 s := by
  induction hr with
  | init c cfg d hw => exact Inv4.init hw c cfg d
  | step a hr' hoka hal ih =>
    rw [step_d] at hwf
    exact (ih hwf).step (base_of_reach hr') (inv2_of_reach hr' hwf) hwf a hal

end Furiko.JobCtl
