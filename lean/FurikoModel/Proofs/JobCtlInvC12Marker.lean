/-
Deletion markers are kept (instance of the generic pass invariant, `Proofs/JobCtlInvC10Walk.lean`).

The pending-timeout reaper, the kill sweep, the force-delete step and the finalizer record on the ref of
a task they delete a `deletedStatus` marker (state Terminated, result Killed, with a reason).  `GetTaskRef`
carries the marker over on every refresh and replaces it only when the task itself reports a finish time
(then the task's own terminal status is stored there); `GenerateTaskRefs` turns it into the status of a
task that has vanished.  Invariant proved here, for every pass and hence every history:
* `MarkerOK`: a ref's `deletedStatus` is a `Terminated / Killed` marker unless the ref is finished;
* `MarkKeep ex r`: the ref `r` that became of `ex` keeps `ex`'s finish timestamp, and if `ex` carried a
  marker then `r` carries one with the same state and result, unless `r` is finished.
Core Lean only.
-/
import FurikoModel.Proofs.JobCtlInvC10Result

set_option linter.unusedSimpArgs false
set_option linter.unusedVariables false

namespace Furiko.JobCtl
open Furiko Furiko.WQ Furiko.JobCtlPlan

/-- the `deletedStatus` of the ref is a `Terminated / Killed` marker, unless the ref is finished -/
def MarkerOK (r : TaskRef) : Prop :=
  ∀ ds, r.deletedStatus = some ds → (ds.state = .terminated ∧ ds.result = .killed) ∨ r.finishTimestamp.isSome = true

/-- `r` is what became of `ex`: same name, finish timestamp kept, marker kept (state and result) unless
`r` is finished -/
def MarkKeep (ex r : TaskRef) : Prop :=
  r.name = ex.name ∧ (ex.finishTimestamp.isSome = true → r.finishTimestamp.isSome = true) ∧
  ∀ ds, ex.deletedStatus = some ds → ∃ ds', r.deletedStatus = some ds' ∧
    ((ds'.state = ds.state ∧ ds'.result = ds.result) ∨ r.finishTimestamp.isSome = true)

theorem MarkKeep.refl (r : TaskRef) : MarkKeep r r := ⟨rfl, id, fun ds h => ⟨ds, h, Or.inl ⟨rfl, rfl⟩⟩⟩

theorem MarkKeep.trans {a b c : TaskRef} (h1 : MarkKeep a b) (h2 : MarkKeep b c) : MarkKeep a c := by
  refine ⟨h2.1.trans h1.1, fun h => h2.2.1 (h1.2.1 h), ?_⟩
  intro ds hds
  obtain ⟨ds1, hb, hk1⟩ := h1.2.2 ds hds
  obtain ⟨ds2, hc, hk2⟩ := h2.2.2 ds1 hb
  refine ⟨ds2, hc, ?_⟩
  rcases hk2 with ⟨e1, e2⟩ | hfin
  · rcases hk1 with ⟨f1, f2⟩ | hfb
    · exact Or.inl ⟨e1.trans f1, e2.trans f2⟩
    · exact Or.inr (h2.2.1 hfb)
  · exact Or.inr hfin

/-- one rewrite of the ref list: names are kept, markers are fine, every new ref with an old name relates
to an old ref of that name -/
structure RefStep (B B' : List TaskRef) : Prop where
  names : ∀ b ∈ B, ∃ r ∈ B', r.name = b.name
  ok : ∀ r ∈ B', MarkerOK r
  keep : ∀ r ∈ B', (∃ b ∈ B, b.name = r.name) → ∃ b ∈ B, b.name = r.name ∧ MarkKeep b r

/-- the Job value's refs are what became of the refs `a` -/
structure Marked (a : List TaskRef) (rj : Job) : Prop where
  ok : ∀ r ∈ rj.status.tasks, MarkerOK r
  names : ∀ ex ∈ a, ∃ r ∈ rj.status.tasks, r.name = ex.name
  keep : ∀ r ∈ rj.status.tasks, (∃ ex ∈ a, ex.name = r.name) → ∃ ex ∈ a, ex.name = r.name ∧ MarkKeep ex r

theorem Marked.refl (rj : Job) (h : ∀ r ∈ rj.status.tasks, MarkerOK r) : Marked rj.status.tasks rj :=
  ⟨h, fun ex hex => ⟨ex, hex, rfl⟩, fun r hr _ => ⟨r, hr, rfl, MarkKeep.refl r⟩⟩

theorem Marked.step {a : List TaskRef} {rj rj' : Job} (h : Marked a rj) (hs : RefStep rj.status.tasks rj'.status.tasks) :
    Marked a rj' := by
  refine ⟨hs.ok, ?_, ?_⟩
  · intro ex hex
    obtain ⟨b, hb, hbn⟩ := h.names ex hex
    obtain ⟨r, hr, hrn⟩ := hs.names b hb
    exact ⟨r, hr, hrn.trans hbn⟩
  · intro r hr ⟨ex, hex, hexn⟩
    obtain ⟨b0, hb0, hb0n⟩ := h.names ex hex
    obtain ⟨b, hb, hbn, hk⟩ := hs.keep r hr ⟨b0, hb0, hb0n.trans hexn⟩
    obtain ⟨ex', hex', hexn', hk'⟩ := h.keep b hb ⟨ex, hex, hexn.trans hbn.symm⟩
    exact ⟨ex', hex', hexn'.trans hbn, hk'.trans hk⟩

theorem Marked.of_tasks {a : List TaskRef} {rj rj' : Job} (h : Marked a rj) (e : rj'.status.tasks = rj.status.tasks) :
    Marked a rj' := ⟨by rw [e]; exact h.ok, by rw [e]; exact h.names, by rw [e]; exact h.keep⟩

theorem Marked.trans {a : List TaskRef} {rj rj' : Job} (h1 : Marked a rj) (h2 : Marked rj.status.tasks rj') : Marked a rj' :=
  h1.step ⟨h2.names, h2.ok, h2.keep⟩

/-! ### the rewrites -/

theorem getTaskRef_some_marker (ex : TaskRef) (t : Task) :
    (getTaskRef (some ex) t).deletedStatus = ex.deletedStatus ∨
    ((getTaskRef (some ex) t).deletedStatus = some t.ref.status ∧ (getTaskRef (some ex) t).finishTimestamp.isSome = true) := by
  unfold getTaskRef
  simp only
  repeat' split
  all_goals simp_all

theorem getTaskRef_none_marker (t : Task) :
    (getTaskRef none t).deletedStatus = t.ref.deletedStatus ∨
    ((getTaskRef none t).deletedStatus = some t.ref.status ∧ (getTaskRef none t).finishTimestamp.isSome = true) := by
  unfold getTaskRef
  simp only
  split
  · right; simp_all
  · left; rfl

theorem lookupRef_of_mem {B : List TaskRef} {b : TaskRef} (hb : b ∈ B) : ∃ b', lookupRef B b.name = some b' := by
  unfold lookupRef
  have : (B.reverse.find? (fun r => r.name == b.name)).isSome = true := by
    rw [List.find?_isSome]
    exact ⟨b, List.mem_reverse.mpr hb, by simp⟩
  exact Option.isSome_iff_exists.mp this

theorem lostRef_deletedStatus (now : Time) (ex : TaskRef) : (lostRef now ex).deletedStatus = ex.deletedStatus := by
  unfold lostRef
  simp only
  repeat' split
  all_goals rfl

/-- what the refresh needs of a task: a pod task -/
def PodTaskLike (t : Task) : Prop := t.ref.name = t.name ∧ t.ref.deletedStatus = none

theorem refStep_refresh (now : Time) (B : List TaskRef) (tasks : List Task) (hB : ∀ b ∈ B, MarkerOK b)
    (ht : ∀ t ∈ tasks, PodTaskLike t) : RefStep B (generateTaskRefs now B tasks) := by
  refine ⟨?_, ?_, ?_⟩
  · intro b hb
    have := generateTaskRefs_names now B tasks (fun t h => (ht t h).1) b.name (List.mem_map_of_mem hb)
    obtain ⟨r, hr, hrn⟩ := List.mem_map.mp this
    exact ⟨r, hr, hrn⟩
  · intro r hr ds hds
    rcases mem_generateTaskRefs hr with ⟨t, htm, rfl⟩ | ⟨ex, hex, _, rfl⟩
    · cases he : lookupRef B t.name with
      | none =>
        rw [he] at hds
        rcases getTaskRef_none_marker t with h | ⟨_, hfin⟩
        · rw [h, (ht t htm).2] at hds; cases hds
        · exact Or.inr hfin
      | some b =>
        rw [he] at hds
        rcases getTaskRef_some_marker b t with h | ⟨_, hfin⟩
        · rw [h] at hds
          rcases hB b (lookupRef_some he).1 ds hds with hk | hf
          · exact Or.inl hk
          · exact Or.inr ((Furiko.Props.C11.getTaskRef_retains b t).2.2.2 hf)
        · exact Or.inr hfin
    · exact Or.inr (Furiko.Props.C11.lostRef_retains now ex).2.2.2.1
  · intro r hr ⟨b0, hb0, hb0n⟩
    rcases mem_generateTaskRefs hr with ⟨t, htm, rfl⟩ | ⟨ex, hex, _, rfl⟩
    · have hname : (getTaskRef (lookupRef B t.name) t).name = t.name := by
        rw [Furiko.StatusLemmas.getTaskRef_name]; exact (ht t htm).1
      rw [hname] at hb0n
      obtain ⟨b, he⟩ := lookupRef_of_mem hb0
      rw [hb0n] at he
      obtain ⟨hbm, hbn⟩ := lookupRef_some he
      refine ⟨b, hbm, by rw [hname]; exact hbn, ?_⟩
      rw [he]
      refine ⟨by rw [Furiko.StatusLemmas.getTaskRef_name, (ht t htm).1]; exact hbn.symm,
        (Furiko.Props.C11.getTaskRef_retains b t).2.2.2, ?_⟩
      intro ds hds
      rcases getTaskRef_some_marker b t with h | ⟨h, hfin⟩
      · exact ⟨ds, by rw [h]; exact hds, Or.inl ⟨rfl, rfl⟩⟩
      · exact ⟨_, h, Or.inr hfin⟩
    · refine ⟨ex, hex, (lostRef_fields now ex).1.symm, (lostRef_fields now ex).1, fun _ => (Furiko.Props.C11.lostRef_retains now ex).2.2.2.1, ?_⟩
      intro ds hds
      exact ⟨ds, by rw [lostRef_deletedStatus]; exact hds, Or.inl ⟨rfl, rfl⟩⟩

theorem refStep_map (B : List TaskRef) (g : TaskRef → TaskRef) (hB : ∀ b ∈ B, MarkerOK b)
    (hg : ∀ b, MarkerOK b → MarkerOK (g b) ∧ MarkKeep b (g b)) : RefStep B (B.map g) := by
  refine ⟨?_, ?_, ?_⟩
  · intro b hb
    exact ⟨g b, List.mem_map_of_mem hb, (hg b (hB b hb)).2.1⟩
  · intro r hr
    obtain ⟨b, hb, rfl⟩ := List.mem_map.mp hr
    exact (hg b (hB b hb)).1
  · intro r hr _
    obtain ⟨b, hb, rfl⟩ := List.mem_map.mp hr
    exact ⟨b, hb, (hg b (hB b hb)).2.1.symm, (hg b (hB b hb)).2⟩

theorem markFn_marker {f : TaskRef → TaskRef} (hf : MarkFn f) (b : TaskRef) (hb : MarkerOK b) :
    MarkerOK (f b) ∧ MarkKeep b (f b) := by
  obtain ⟨ds, he, hds⟩ := hf b
  rw [he]
  have hnew : (ds.state = .terminated ∧ ds.result = .killed) ∨ b.finishTimestamp.isSome = true := by
    rcases hds with h | ⟨ds0, h0, hs, hr⟩
    · exact Or.inl h
    · rcases hb ds0 h0 with ⟨k1, k2⟩ | hfin
      · exact Or.inl ⟨hs.trans k1, hr.trans k2⟩
      · exact Or.inr hfin
  refine ⟨?_, rfl, id, ?_⟩
  · intro ds' hds'
    simp only [Option.some.injEq] at hds'
    subst hds'
    exact hnew
  · intro ds0 h0
    refine ⟨ds, rfl, ?_⟩
    rcases hds with ⟨k1, k2⟩ | ⟨ds0', h0', hs, hr⟩
    · rcases hb ds0 h0 with ⟨m1, m2⟩ | hfin
      · exact Or.inl ⟨k1.trans m1.symm, k2.trans m2.symm⟩
      · exact Or.inr hfin
    · rw [h0] at h0'; cases h0'
      exact Or.inl ⟨hs, hr⟩

theorem marked_passInv (a : List TaskRef) : PassInv (Marked a) PodTaskLike where
  refresh := by
    intro now rj tasks hp ht
    exact hp.step (refStep_refresh now rj.status.tasks tasks hp.ok ht)
  status := by
    intro s key rj hp
    exact hp.of_tasks (syncJobStatusFromTaskRefs_tasks s key rj)
  mark := by
    intro rj names f hf hp
    refine hp.step (refStep_map _ _ hp.ok ?_)
    intro b hb
    split
    · exact markFn_marker hf b hb
    · exact ⟨hb, MarkKeep.refl b⟩
  ifNotSet := by
    intro rj name st h1 h2 hp
    refine hp.step (refStep_map _ _ hp.ok ?_)
    intro b hb
    split
    · rename_i hc
      simp only [Bool.and_eq_true, Option.isNone_iff_eq_none] at hc
      refine ⟨?_, rfl, id, ?_⟩
      · intro ds hds
        simp only [Option.some.injEq] at hds
        subst hds
        exact Or.inl ⟨h1, h2⟩
      · intro ds0 h0
        rw [hc.2] at h0; cases h0
    · exact ⟨hb, MarkKeep.refl b⟩
  adm := fun rj hp => hp.of_tasks rfl

theorem taskSrc_podTaskLike {s : Sys} {jo : JobObj} {t : Task} (h : TaskSrc s jo t) : PodTaskLike t := by
  obtain ⟨p, hpt, _, _⟩ := h
  obtain ⟨f1, f2, _, f4, _, _⟩ := podTask_fields hpt
  exact ⟨f2.trans f1.symm, f4⟩

/-- markers are fine in every authoritative status of every history (all actions) -/
theorem markerOK_of_reach {ok : Sys → Action → Prop} {j0 : JobObj} {s : Sys} (hr : Reach ok j0 s) :
    ∀ j, s.job = some j → ∀ r ∈ j.job.status.tasks, MarkerOK r := by
  induction hr with
  | init c cfg d hwf =>
    intro j hj
    unfold initSys userCreateJob at hj
    simp only [Option.some.injEq] at hj
    subst hj
    simp only [hwf.noTasks]
    intro r hr; cases hr
  | @step s1 a hr' _ hal ih =>
    intro j' hj'
    have hm := job_moves (base_of_reach hr') a hal
    cases hj : s1.job with
    | none => rw [hm.none_stays hj] at hj'; cases hj'
    | some j =>
      have := jobMoves_rel (fun x y => (∀ r ∈ x.status.tasks, MarkerOK r) → ∀ r ∈ y.status.tasks, MarkerOK r)
        (fun _ h => h) (fun _ _ _ h1 h2 h => h2 (h1 h))
        (fun x y e h => by rw [e]; exact h)
        (fun jo sp _ _ h =>
          (sync_passInv (marked_passInv jo.job.status.tasks) sp jo (fun t ht => taskSrc_podTaskLike ht)
            (Marked.refl jo.job h)).ok)
        (fun x y z h1 e h => by rw [e]; exact h1 h) hm j j' hj hj'
      exact this (ih j hj)

/-- one step: the authoritative refs after the step are what became of the refs before it -/
theorem marked_step {ok : Sys → Action → Prop} {j0 : JobObj} {s : Sys} (hr : Reach ok j0 s) (a : Action)
    (hal : Allowed j0 s a) (j j' : JobObj) (hj : s.job = some j) (hj' : (step s a).job = some j') :
    Marked j.job.status.tasks j'.job := by
  have hok := markerOK_of_reach hr j hj
  have := jobMoves_rel (fun x y => (∀ r ∈ x.status.tasks, MarkerOK r) → Marked x.status.tasks y)
    (fun x h => Marked.refl x h) (fun _ _ _ h1 h2 h => (h1 h).trans (h2 (h1 h).ok))
    (fun x y e h => (Marked.refl x h).of_tasks (by rw [e]))
    (fun jo sp _ _ h =>
      sync_passInv (marked_passInv jo.job.status.tasks) sp jo (fun t ht => taskSrc_podTaskLike ht)
        (Marked.refl jo.job h))
    (fun x y z h1 e h => (h1 h).of_tasks (by rw [e])) (job_moves (base_of_reach hr) a hal) j j' hj hj'
  exact this hok

/-- … and along every continuation of the history -/
theorem marked_steps {ok : Sys → Action → Prop} {j0 : JobObj} {s s' : Sys} (hr : Reach ok j0 s)
    (hs : Steps ok j0 s s') (j j' : JobObj) (hj : s.job = some j) (hj' : s'.job = some j') :
    Marked j.job.status.tasks j'.job := by
  have hok := markerOK_of_reach hr j hj
  have := steps_rel (ok := ok) (j0 := j0) (fun x y => (∀ r ∈ x.status.tasks, MarkerOK r) → Marked x.status.tasks y)
    (fun x h => Marked.refl x h) (fun _ _ _ h1 h2 h => (h1 h).trans (h2 (h1 h).ok))
    (fun s1 a _ hr1 _ hal j1 j1' h1 h1' _ => marked_step hr1 a hal j1 j1' h1 h1') hr hs j j' hj hj'
  exact this hok

end Furiko.JobCtl
