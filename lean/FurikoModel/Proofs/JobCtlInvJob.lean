/-
How the AUTHORITATIVE Job object changes in one step of the transition system (`JobMoves`), derived
from the base invariant (`rvId`: a status / spec write of the controller that passes the
resourceVersion check was computed from exactly the object it overwrites).  Core Lean only.
-/
import FurikoModel.Proofs.JobCtlInvBase
import FurikoModel.Proofs.JobCtlInvFin

set_option linter.unusedSimpArgs false
set_option linter.unusedVariables false

namespace Furiko.JobCtl
open Furiko Furiko.WQ

theorem Micro.rv_le {jo : JobObj} {sp s s' : Sys} (hm : Micro jo sp s s') : s.rv ≤ s'.rv := by
  cases hm with
  | frame hf => rw [hf.rv]; exact Nat.le_refl _
  | create idx retry _ _ =>
    rcases apiCreatePod_spec s jo idx retry with h | h
    · rw [h.1.rv]; exact Nat.le_refl _
    · rw [h.1.rv]; exact Nat.le_succ _
  | delPod name force =>
    rcases apiDeletePod_spec s name force with h | ⟨p, _, h, _⟩ | ⟨p, _, _, _, h⟩
    · rw [h.rv]; exact Nat.le_refl _
    · rw [h.rv]; exact Nat.le_refl _
    · rw [h.rv]; exact Nat.le_succ _
  | delJob =>
    rcases apiDeleteJob_spec s jo with h | ⟨c, _, _, _, h⟩ | ⟨c, _, _, h⟩
    · rw [h.rv]; exact Nat.le_refl _
    · rw [h.rv]; exact Nat.le_succ _
    · exact h.rv
  | updJob _ =>
    rcases apiUpdateJob_spec s jo { jo with job := (sync sp jo).2.1, finalizer := (sync sp jo).2.2.1 } with
      h | ⟨c, _, _, h | h⟩
    · rw [h.rv]; exact Nat.le_refl _
    · rw [h.1.rv]; exact Nat.le_succ _
    · exact h.1.rv
  | updStatus =>
    rcases apiUpdateJobStatus_spec s jo { jo with job := (sync sp jo).2.1 } with h | ⟨c, _, _, h⟩
    · rw [h.rv]; exact Nat.le_refl _
    · rw [h.rv]; exact Nat.le_succ _
  | updStatusOn s1 _ _ _ =>
    rcases apiUpdateJobStatus_spec s { jo with rv := updatedRv s jo } { jo with job := (sync sp jo).2.1 } with
      h | ⟨c, _, _, h⟩
    · rw [h.rv]; exact Nat.le_refl _
    · rw [h.rv]; exact Nat.le_succ _

theorem Micros.rv_le {jo : JobObj} {sp s s' : Sys} (hm : Micros jo sp s s') : s.rv ≤ s'.rv := by
  induction hm with
  | refl => exact Nat.le_refl _
  | tail _ hm ih => exact Nat.le_trans ih hm.rv_le

/-- One change of the authoritative Job object during action `a` taken in state `s0`.
`ctlSpec` / `ctlStatus` / `goneSpec`: the controller's `Update` / `UpdateStatus`, computed by `sync` in
the state `sp` the pass started in (`sp` = `s0` up to queue bookkeeping) from the cached Job `jo`, which
IS the object being overwritten.  Every new version carries a resourceVersion above `s0.rv`. -/
inductive JobMove (s0 : Sys) (a : Action) : Option JobObj → Option JobObj → Prop
  /-- the user deletes a Job that carries no finalizer -/
  | goneUser (cur : JobObj) : a = .userDelete → cur.finalizer = false → JobMove s0 a (some cur) none
  /-- TTL deletion (`DeleteJob`) of a Job that carries no finalizer -/
  | goneTTL (cur : JobObj) : a = .work → cur.finalizer = false → JobMove s0 a (some cur) none
  /-- the `Update` of a pass writes "no finalizer" over a Job that is being deleted: the object goes;
  that pass has only done bookkeeping before (`s0.job` is still the cached object) -/
  | goneSpec (jo : JobObj) (sp : Sys) : a = .work → s0.jobCache = some jo → Frame s0 sp → s0.job = some jo →
      jo.job.deletionTimestamp.isSome = true → (sync sp jo).2.2.1 = false → JobMove s0 a (some jo) none
  | delMark (cur : JobObj) (t : Time) (rv : Nat) : (a = .work ∨ a = .userDelete) →
      cur.finalizer = true → cur.job.deletionTimestamp = none → s0.rv < rv →
      JobMove s0 a (some cur) (some { cur with job := { cur.job with deletionTimestamp := some t }, rv := rv })
  | kill (cur : JobObj) (t : Time) (rv : Nat) : a = .kill t → s0.rv < rv →
      JobMove s0 a (some cur) (some { cur with job := { cur.job with killTimestamp := some t }, rv := rv })
  | ctlSpec (jo : JobObj) (sp : Sys) (rv : Nat) : a = .work → s0.jobCache = some jo → Frame s0 sp → s0.rv < rv →
      ¬ (jo.job.deletionTimestamp.isSome = true ∧ (sync sp jo).2.2.1 = false) →
      JobMove s0 a (some jo)
        (some (specWrite jo { jo with job := (sync sp jo).2.1, finalizer := (sync sp jo).2.2.1 } rv))
  | ctlStatus (jo : JobObj) (sp : Sys) (rv : Nat) : a = .work → s0.jobCache = some jo → Frame s0 sp → s0.rv < rv →
      JobMove s0 a (some jo) (some (statusWrite jo { jo with job := (sync sp jo).2.1 } rv))
  /-- the `UpdateStatus` of a pass that follows the `Update` of the same pass (`UpdateJobAndStatus`): it is
  written on top of the object that `Update` produced -/
  | ctlStatusOn (jo : JobObj) (sp : Sys) (rv0 rv : Nat) : a = .work → s0.jobCache = some jo → Frame s0 sp →
      s0.rv < rv →
      JobMove s0 a
        (some (specWrite jo { jo with job := (sync sp jo).2.1, finalizer := (sync sp jo).2.2.1 } rv0))
        (some (statusWrite (specWrite jo { jo with job := (sync sp jo).2.1, finalizer := (sync sp jo).2.2.1 } rv0)
          { jo with job := (sync sp jo).2.1 } rv))

inductive JobMoves (s0 : Sys) (a : Action) : Option JobObj → Option JobObj → Prop
  | refl (o : Option JobObj) : JobMoves s0 a o o
  | tail {o o' o'' : Option JobObj} : JobMoves s0 a o o' → JobMove s0 a o' o'' → JobMoves s0 a o o''

theorem JobMoves.single {s0 : Sys} {a : Action} {o o' : Option JobObj} (h : JobMove s0 a o o') :
    JobMoves s0 a o o' := .tail (.refl o) h

theorem JobMoves.trans {s0 : Sys} {a : Action} {o1 o2 o3 : Option JobObj} (h1 : JobMoves s0 a o1 o2)
    (h2 : JobMoves s0 a o2 o3) : JobMoves s0 a o1 o3 := by
  induction h2 with
  | refl => exact h1
  | tail _ hm ih => exact .tail ih hm

theorem JobMoves.of_eq {s0 : Sys} {a : Action} {o o' : Option JobObj} (h : o' = o) : JobMoves s0 a o o' := by
  subst h; exact .refl _

/-- a controller micro-step moves the Job object at most once -/
theorem jobMoves_micro {j0 jo : JobObj} {s0 sp s s' : Sys} (hb : Base j0 s) (hc : s.jobCache = some jo)
    (hc0 : s0.jobCache = some jo) (hsp : Frame s0 sp) (hrv0 : s0.rv ≤ s.rv)
    (hid : CachedIsCur jo (sync sp jo).1) (hm : Micro jo sp s s') :
    JobMoves s0 .work s.job s'.job := by
  have hseen := mem_seenVers_cache hc
  cases hm with
  | frame hf => exact .of_eq hf.job
  | create idx retry hreq _ =>
    rcases apiCreatePod_spec s jo idx retry with h | h
    · exact .of_eq h.1.job
    · exact .of_eq h.1.job
  | delPod name force =>
    rcases apiDeletePod_spec s name force with h | ⟨p, _, h, _⟩ | ⟨p, _, _, _, h⟩
    · exact .of_eq h.job
    · exact .of_eq h.job
    · exact .of_eq h.job
  | delJob =>
    rcases apiDeleteJob_spec s jo with h | ⟨c, hc', hf, hd, h⟩ | ⟨c, hc', hf, h⟩
    · exact .of_eq h.job
    · rw [hc', h.job]; exact .single (.delMark c _ _ (Or.inl rfl) hf hd (Nat.lt_succ_of_le hrv0))
    · rw [hc', h.job]; exact .single (.goneTTL c rfl hf)
  | updJob hs =>
    rcases apiUpdateJob_spec s jo { jo with job := (sync sp jo).2.1, finalizer := (sync sp jo).2.2.1 } with
      h | ⟨c, hc', hrv, h | h⟩
    · exact .of_eq h.job
    · have : jo = c := hb.rvId c hc' jo hseen hrv.symm
      subst this
      rw [hc', h.1.job]
      refine .single (.ctlSpec jo sp _ rfl hc0 hsp (Nat.lt_succ_of_le hrv0) ?_)
      intro hcon
      exact h.2 ⟨hcon.1, hcon.2⟩
    · have : jo = c := hb.rvId c hc' jo hseen hrv.symm
      subst this
      rw [hc', h.1.job]
      have hfin : (sync sp jo).2.2.1 = false := h.2.2
      -- the pass has only done bookkeeping so far: the object it overwrites is the one of `s0`
      have hfr : Frame sp s := by
        rcases sync_fin_deleted sp jo h.2.1 with hk | hk
        · rw [hs]
          refine hk.2 ?_
          rw [← hk.1]; exact hfin
        · rw [hs]; exact hk.2.2.2
      have hj0 : s0.job = some jo := by rw [← hsp.job, ← hfr.job]; exact hc'
      exact .single (.goneSpec jo sp rfl hc0 hsp hj0 h.2.1 hfin)
  | updStatus =>
    rcases apiUpdateJobStatus_spec s jo { jo with job := (sync sp jo).2.1 } with h | ⟨c, hc', hrv, h⟩
    · exact .of_eq h.job
    · have : jo = c := hb.rvId c hc' jo hseen hrv.symm
      subst this
      rw [hc', h.job]
      exact .single (.ctlStatus jo sp _ rfl hc0 hsp (Nat.lt_succ_of_le hrv0))
  | updStatusOn s1 hs1 hs hok =>
    rcases apiUpdateJobStatus_spec s { jo with rv := updatedRv s jo } { jo with job := (sync sp jo).2.1 } with
      h | ⟨c, hc', hrv, h⟩
    · exact .of_eq h.job
    · have hcs := (apiUpdateJob_ok_cur (hs1 ▸ hid) hok c (hs ▸ hc')).1
      rw [hc', h.job, hcs]
      exact .single (.ctlStatusOn jo sp _ _ rfl hc0 hsp (Nat.lt_succ_of_le hrv0))

theorem jobMoves_micros {j0 jo : JobObj} {s0 sp s s' : Sys} (hb : Base j0 s) (hc : s.jobCache = some jo)
    (hc0 : s0.jobCache = some jo) (hsp : Frame s0 sp) (hrv0 : s0.rv ≤ s.rv)
    (hid : CachedIsCur jo (sync sp jo).1) (hm : Micros jo sp s s') :
    JobMoves s0 .work s.job s'.job := by
  induction hm with
  | refl => exact .refl _
  | tail hms hm ih =>
    have := hb.micros hc hms
    exact ih.trans (jobMoves_micro this.1 this.2 hc0 hsp (Nat.le_trans hrv0 hms.rv_le) hid hm)

/-- whatever moved, the object is the one of `s0`, or a version written during the action, or gone -/
theorem JobMoves.same_or_newer {s0 : Sys} {a : Action} {o o' : Option JobObj} (h : JobMoves s0 a o o') :
    o' = o ∨ (∃ x, o' = some x ∧ s0.rv < x.rv) ∨ o' = none := by
  induction h with
  | refl => exact Or.inl rfl
  | tail _ hm _ =>
    cases hm with
    | goneUser => exact Or.inr (Or.inr rfl)
    | goneTTL => exact Or.inr (Or.inr rfl)
    | goneSpec => exact Or.inr (Or.inr rfl)
    | delMark cur t rv _ _ _ hrv => exact Or.inr (Or.inl ⟨_, rfl, hrv⟩)
    | kill cur t rv _ hrv => exact Or.inr (Or.inl ⟨_, rfl, hrv⟩)
    | ctlSpec jo sp rv _ _ _ hrv _ => exact Or.inr (Or.inl ⟨_, rfl, hrv⟩)
    | ctlStatus jo sp rv _ _ _ hrv => exact Or.inr (Or.inl ⟨_, rfl, hrv⟩)
    | ctlStatusOn jo sp rv0 rv _ _ _ hrv => exact Or.inr (Or.inl ⟨_, rfl, hrv⟩)

/-- if the metadata write of the pass that started in `sp` (= `s0` up to bookkeeping) passes the
resourceVersion check, the pass has not touched the Job object before: the object of `s0` is the cached Job -/
def CachedIsCur0 (jo : JobObj) (s0 sp : Sys) : Prop :=
  ∀ c, (sync sp jo).1.job = some c → c.rv = jo.rv → s0.job = some jo

theorem cachedIsCur0_sync {j0 jo : JobObj} {s0 sp : Sys} (hb : Base j0 sp) (hc : sp.jobCache = some jo)
    (hf : Frame s0 sp) : CachedIsCur0 jo s0 sp := by
  intro c hcj hrv
  have hid := cachedIsCur_sync hb hc
  have hcjo := hid c hcj hrv
  subst hcjo
  have hm := (sync_spec sp c sp (CreatePhase.refl _)).1
  have hmv := jobMoves_micros (s0 := sp) hb hc hc (Frame.refl sp) (Nat.le_refl _) hid hm
  have hjrv : c.rv ≤ sp.rv := (hb.seenOK c (mem_seenVers_cache hc)).2
  rcases hmv.same_or_newer with h | ⟨x, hx, hr⟩ | h
  · rw [← hf.job, ← h]; exact hcj
  · rw [hcj] at hx; cases hx; omega
  · rw [hcj] at h; cases h

/-- every step of the transition system moves the authoritative Job object by `JobMoves` -/
theorem job_moves {j0 : JobObj} {s : Sys} (hb : Base j0 s) (a : Action) (hal : Allowed j0 s a) :
    JobMoves s a s.job (step s a).job := by
  cases a with
  | setFaults fs => exact .refl _
  | work =>
    show JobMoves s .work s.job (work s).1.job
    cases hc : s.jobCache with
    | none => exact .of_eq (work_frame s hc).job
    | some jo =>
      obtain ⟨sp, hf, hm⟩ := work_micros s jo hc
      have := jobMoves_micros (hb.frame hf) (hf.jobCache.trans hc) hc hf (by rw [hf.rv]; exact Nat.le_refl _)
        (cachedIsCur_sync (hb.frame hf) (hf.jobCache.trans hc)) hm
      rw [hf.job] at this
      exact this
  | deliverJob => exact .of_eq (deliverJob_fields s).1
  | deliverPod => exact .of_eq (deliverPod_fields s).1
  | resync => exact .of_eq (resync_frame s).job
  | restart =>
    show JobMoves s .restart s.job (restart s).job
    apply JobMoves.of_eq
    unfold restart
    cases s.job <;> rfl
  | advance d => exact .refl _
  | kubelet p =>
    show JobMoves s _ s.job (setPodState s p).job
    rcases setPodState_spec s p with h | ⟨old, h⟩
    · rw [h]; exact .refl _
    · exact .of_eq h.job
  | podGone n =>
    show JobMoves s _ s.job (removePod s n).job
    rcases removePod_spec s n with h | ⟨p, _, h⟩
    · rw [h]; exact .refl _
    · exact .of_eq h.job
  | externalDelete n =>
    show JobMoves s _ s.job (removePod s n).job
    rcases removePod_spec s n with h | ⟨p, _, h⟩
    · rw [h]; exact .refl _
    · exact .of_eq h.job
  | kill t =>
    show JobMoves s _ s.job (mutateJobObj s _).job
    rcases mutateJobObj_spec s (fun j => { j with job := { j.job with killTimestamp := some t } }) with h | ⟨c, hc, h⟩
    · rw [h.2]; exact .refl _
    · rw [hc, h.job]; exact .single (.kill c t _ rfl (Nat.lt_succ_self _))
  | userDelete =>
    show JobMoves s _ s.job (userDeleteJob s).job
    rcases userDeleteJob_spec s with h | ⟨c, hc, hf, hd, h⟩ | ⟨c, hc, hf, h⟩
    · rw [h]; exact .refl _
    · rw [hc, h.job]; exact .single (.delMark c _ _ (Or.inr rfl) hf hd (Nat.lt_succ_self _))
    · rw [hc, h.job]; exact .single (.goneUser c rfl hf)
  | createForeign p =>
    show JobMoves s _ s.job (createForeignPod s p).job
    rcases createForeignPod_spec s p with h | h
    · rw [h]; exact .refl _
    · exact .of_eq h.job

/-- a removed Job never comes back -/
theorem JobMoves.none_stays {s0 : Sys} {a : Action} {o o' : Option JobObj} (h : JobMoves s0 a o o') (ho : o = none) :
    o' = none := by
  induction h with
  | refl => exact ho
  | tail _ hm ih =>
    have := ih
    cases hm with
    | goneUser => rfl
    | goneTTL => rfl
    | goneSpec => rfl
    | delMark => cases this
    | kill => cases this
    | ctlSpec => cases this
    | ctlStatus => cases this
    | ctlStatusOn => cases this

/-- A relation on Job values that is reflexive, transitive, unaffected by metadata / spec-only
writes that keep the status, and that every Job `sync` computes satisfies with respect to its input:
it holds between the authoritative Job before and after any step. -/
theorem jobMoves_rel {s0 : Sys} {a : Action} (R : Job → Job → Prop)
    (hrefl : ∀ x, R x x) (htrans : ∀ x y z, R x y → R y z → R x z)
    (hstatus : ∀ x y : Job, y.status = x.status → R x y)
    (hsync : ∀ (jo : JobObj) (sp : Sys), s0.jobCache = some jo → Frame s0 sp → R jo.job (sync sp jo).2.1)
    (hset : ∀ x y z : Job, R x y → z.status = y.status → R x z)
    {o o' : Option JobObj} (h : JobMoves s0 a o o') :
    ∀ j j', o = some j → o' = some j' → R j.job j'.job := by
  induction h with
  | refl => intro j j' h1 h2; rw [h1] at h2; cases h2; exact hrefl _
  | tail hms hm ih =>
    intro j j' h1 h2
    cases hm with
    | goneUser => cases h2
    | goneTTL => cases h2
    | goneSpec => cases h2
    | delMark cur t rv _ _ _ _ =>
      cases h2
      exact hset _ _ _ (ih j cur h1 rfl) rfl
    | kill cur t rv _ _ =>
      cases h2
      exact hset _ _ _ (ih j cur h1 rfl) rfl
    | ctlSpec jo sp rv _ hc hf _ _ =>
      cases h2
      exact hset _ _ _ (ih j jo h1 rfl) rfl
    | ctlStatus jo sp rv _ hc hf _ =>
      cases h2
      refine htrans _ _ _ (ih j jo h1 rfl) ?_
      exact hset _ _ _ (hsync jo sp hc hf) rfl
    | ctlStatusOn jo sp rv0 rv _ hc hf _ =>
      cases h2
      refine htrans _ _ _ (ih j _ h1 rfl) ?_
      -- the object `Update` produced carries the status of the cached Job
      refine htrans _ jo.job _ (hstatus _ _ rfl) ?_
      exact hset _ _ _ (hsync jo sp hc hf) rfl

/-- the step-wise version of `jobMoves_rel` for the authoritative Job of a reachable state -/
theorem step_rel {ok : Sys → Action → Prop} {j0 : JobObj} (R : Job → Job → Prop)
    (hrefl : ∀ x, R x x) (htrans : ∀ x y z, R x y → R y z → R x z)
    (hsync : ∀ (jo : JobObj) (sp : Sys), R jo.job (sync sp jo).2.1)
    (hset : ∀ x y z : Job, R x y → z.status = y.status → R x z)
    {s : Sys} (hr : Reach ok j0 s) (a : Action) (hal : Allowed j0 s a) :
    ∀ j j', s.job = some j → (step s a).job = some j' → R j.job j'.job :=
  jobMoves_rel R hrefl htrans (fun x y h => hset x x y (hrefl x) h) (fun jo sp _ _ => hsync jo sp) hset
    (job_moves (base_of_reach hr) a hal)

theorem step_job_none {ok : Sys → Action → Prop} {j0 : JobObj} {s : Sys} (hr : Reach ok j0 s) (a : Action)
    (hal : Allowed j0 s a) (h : s.job = none) : (step s a).job = none :=
  (job_moves (base_of_reach hr) a hal).none_stays h

/-- … and along any sequence of steps (a removed Job never comes back, so the Job existed throughout) -/
theorem steps_rel {ok : Sys → Action → Prop} {j0 : JobObj} (R : Job → Job → Prop)
    (hrefl : ∀ x, R x x) (htrans : ∀ x y z, R x y → R y z → R x z) {s s' : Sys}
    (hstep : ∀ s1 a, Steps ok j0 s s1 → Reach ok j0 s1 → ok s1 a → Allowed j0 s1 a → ∀ j j', s1.job = some j →
      (step s1 a).job = some j' → R j.job j'.job)
    (hr : Reach ok j0 s) (hs : Steps ok j0 s s') :
    ∀ j j', s.job = some j → s'.job = some j' → R j.job j'.job := by
  induction hs with
  | refl => intro j j' h1 h2; rw [h1] at h2; cases h2; exact hrefl _
  | step a hs' hok hal ih =>
    intro j j' h1 h2
    rename_i s''
    have hr'' := hr.steps hs'
    cases hj : s''.job with
    | none => rw [step_job_none hr'' a hal hj] at h2; cases h2
    | some j'' => exact htrans _ _ _ (ih j j'' h1 hj) (hstep s'' a hs' hr'' hok hal j'' j' hj h2)

end Furiko.JobCtl
