/-
Liveness of the job controller, part 1 (pure): the status `UpdateJobStatusFromTaskRefs` computes for a
SIMPLE Job — started, not parallel (one index: `parallel.GetDefaultIndex()`), no kill timestamp, no
admission error, not being deleted —, in terms of its refs: `Finished` exactly when every ref is
finished and either one succeeded (`Success`) or `maxAttempts` of them are recorded (`Failed`); the
computation is idempotent (`recompute_idem`).  Core Lean only.
-/
import FurikoModel.Proofs.JobCtlLive0
import FurikoModel.Proofs.JobCtlInvStabCond
import FurikoModel.Proofs.JobCtlPlanPass

set_option linter.unusedSimpArgs false
set_option linter.unusedVariables false

namespace Furiko.JobCtl.Live
open Furiko Furiko.JobCtl Furiko.WQ Furiko.StatusLemmas Furiko.JobCtlPlan

/-! ### the recomputed status -/

/-- `UpdateJobStatusFromTaskRefs` (the Job is returned as it is when the template is nil: panic) -/
def statusOf (now : Time) (d : PIndex) (rj : Job) : Job := (updateJobStatusFromTaskRefs now d rj).getD rj

/-- the Job value `updateTaskRefStatus` returns: `UpdateJobTaskRefs`, then `UpdateJobStatusFromTaskRefs` -/
def recompute (now : Time) (d : PIndex) (rj : Job) (T : List Task) : Job := statusOf now d (updateJobTaskRefs now rj T)

theorem syncJobStatus_snd' (s : Sys) (key : String) (rj : Job) :
    (syncJobStatusFromTaskRefs s key rj).2 = statusOf s.clock s.d rj := syncJobStatus_snd s key rj

theorem updateTaskRefStatus_snd (s : Sys) (key : String) (rj : Job) (T : List Task) :
    (updateTaskRefStatus s key rj T).2 = recompute s.clock s.d rj T := by
  unfold updateTaskRefStatus recompute
  exact syncJobStatus_snd s key _

/-- the spec side of a simple Job: template without parallelism, no kill timestamp, no admission error,
not being deleted, started -/
structure SimpleSpec (rj : Job) : Prop where
  tmpl : ∃ t, rj.template = some t ∧ t.parallelism = none
  kill : rj.killTimestamp = none
  adm : rj.admissionError = false
  del : rj.deletionTimestamp = none
  started : rj.status.startTime.isSome = true

theorem SimpleSpec.congr {a b : Job} (h : SimpleSpec a) (hs : SameSpec a b)
    (hst : b.status.startTime = a.status.startTime) : SimpleSpec b :=
  ⟨by rw [hs.template]; exact h.tmpl, by rw [hs.killTimestamp]; exact h.kill,
   by rw [hs.admissionError]; exact h.adm, by rw [hs.deletionTimestamp]; exact h.del, by rw [hst]; exact h.started⟩

theorem SimpleSpec.indexes {rj : Job} (h : SimpleSpec rj) (d : PIndex) : rj.indexes d = [d] := by
  obtain ⟨t, ht, hp⟩ := h.tmpl
  unfold Job.indexes Job.parallelism
  rw [ht]; simp [hp]

theorem SimpleSpec.strategy {rj : Job} (h : SimpleSpec rj) : rj.strategy = .allSuccessful := by
  obtain ⟨t, ht, hp⟩ := h.tmpl
  unfold Job.strategy Job.parallelism
  rw [ht]; simp [hp]

/-- explicit form of the recomputed status of a simple Job -/
theorem statusOf_simple (now : Time) (d : PIndex) (rj : Job) (h : SimpleSpec rj) :
    statusOf now d rj =
      { rj with status := { rj.status with
          condition := getCondition now d rj
          state := getJobStateFromCondition (getCondition now d rj)
          phase := getPhase now { rj with status := { rj.status with
            condition := getCondition now d rj
            state := getJobStateFromCondition (getCondition now d rj) } } } } := by
  obtain ⟨t, ht, hp⟩ := h.tmpl
  unfold statusOf updateJobStatusFromTaskRefs updateJobStatusFromTaskRefsWith
  rw [ht]
  simp only [Option.getD_some, statusBeforePhase, hp, deletionOverrides, h.del, Option.isSome_none,
    Bool.false_and, Bool.false_eq_true, ↓reduceIte]

theorem statusOf_sameSpec (now : Time) (d : PIndex) (rj : Job) :
    SameSpec rj (statusOf now d rj) ∧ (statusOf now d rj).status.tasks = rj.status.tasks ∧
    (statusOf now d rj).status.startTime = rj.status.startTime ∧
    (statusOf now d rj).status.createdTasks = rj.status.createdTasks ∧
    (statusOf now d rj).status.runningTasks = rj.status.runningTasks := by
  unfold statusOf
  cases hu : updateJobStatusFromTaskRefs now d rj with
  | none => exact ⟨SameSpec.refl _, rfl, rfl, rfl, rfl⟩
  | some nj =>
    simp only [Option.getD_some]
    refine ⟨(updateStatus_some _ _ _ _ hu).1, (updateStatus_some _ _ _ _ hu).2, ?_, ?_, ?_⟩
    all_goals
      unfold updateJobStatusFromTaskRefs updateJobStatusFromTaskRefsWith at hu
      cases ht : rj.template with
      | none => rw [ht] at hu; cases hu
      | some t =>
        rw [ht] at hu
        simp only [Option.some.injEq] at hu
        subst hu
        rfl

theorem recompute_sameSpec (now : Time) (d : PIndex) (rj : Job) (T : List Task) :
    SameSpec rj (recompute now d rj T) ∧
    (recompute now d rj T).status.tasks = generateTaskRefs now rj.status.tasks T ∧
    (recompute now d rj T).status.startTime = rj.status.startTime := by
  unfold recompute
  obtain ⟨h1, h2, h3, _, _⟩ := statusOf_sameSpec now d (updateJobTaskRefs now rj T)
  exact ⟨(updateJobTaskRefs_sameSpec now rj T).trans h1, h2, h3⟩

theorem SimpleSpec.statusOf {rj : Job} (h : SimpleSpec rj) (now : Time) (d : PIndex) :
    SimpleSpec (Live.statusOf now d rj) :=
  h.congr (statusOf_sameSpec now d rj).1 (statusOf_sameSpec now d rj).2.2.1

theorem SimpleSpec.recompute {rj : Job} (h : SimpleSpec rj) (now : Time) (d : PIndex) (T : List Task) :
    SimpleSpec (Live.recompute now d rj T) :=
  h.congr (recompute_sameSpec now d rj T).1 (recompute_sameSpec now d rj T).2.2

/-- without kill timestamp and admission error `GetCondition` does not read the clock -/
theorem getCondition_clock (now now' : Time) (d : PIndex) (rj : Job) (hk : rj.killTimestamp = none)
    (ha : rj.admissionError = false) : getCondition now d rj = getCondition now' d rj := by
  unfold getCondition
  simp only [ha, hk, isTimeSetAndEarlierOrEqual, Bool.false_eq_true, ↓reduceIte]

/-- without kill timestamp `GetPhase` reads neither the clock nor the stored phase and state -/
theorem getPhase_congr (now now' : Time) (a b : Job) (hk : a.killTimestamp = none) (hk' : b.killTimestamp = none)
    (hc : b.status.condition = a.status.condition) (ht : b.status.tasks = a.status.tasks)
    (hp : b.status.parallelStatus = a.status.parallelStatus) (hcr : b.status.createdTasks = a.status.createdTasks) :
    getPhase now' b = getPhase now a := by
  unfold getPhase
  simp only [hc, ht, hp, hcr, hk, hk', isTimeSetAndEarlierOrEqual, Bool.false_eq_true, ↓reduceIte]

/-- **the status computation is idempotent** on simple Jobs, whatever the clock readings -/
theorem statusOf_idem (now now' : Time) (d : PIndex) (rj : Job) (h : SimpleSpec rj) :
    statusOf now' d (statusOf now d rj) = statusOf now d rj := by
  have h' := h.statusOf now d
  have hcond : getCondition now' d (statusOf now d rj) = getCondition now d rj := by
    obtain ⟨hs, ht, hst, _, _⟩ := statusOf_sameSpec now d rj
    rw [getCondition_clock now' now d _ h'.kill h'.adm]
    exact getCondition_congr_fields now d rj _ h.adm hs.admissionError hst ht hs.killTimestamp hs.template hs.startPolicy
  rw [statusOf_simple now' d _ h', hcond]
  rw [statusOf_simple now d rj h]
  simp only
  congr 2
  exact getPhase_congr now now' _ _ h.kill h.kill rfl rfl rfl rfl

/-- recomputing from the recomputed Job changes nothing, provided `GenerateTaskRefs` is at its fixpoint -/
theorem recompute_idem (now now' : Time) (d : PIndex) (rj : Job) (T T' : List Task) (h : SimpleSpec rj)
    (hgen : generateTaskRefs now' (generateTaskRefs now rj.status.tasks T) T' = generateTaskRefs now rj.status.tasks T) :
    recompute now' d (recompute now d rj T) T' = recompute now d rj T := by
  have hX : SimpleSpec (updateJobTaskRefs now rj T) := h.congr (updateJobTaskRefs_sameSpec now rj T) rfl
  have hu : updateJobTaskRefs now' (recompute now d rj T) T' = recompute now d rj T := by
    unfold recompute
    rw [statusOf_simple now d _ hX]
    unfold updateJobTaskRefs
    simp only [hgen]
  unfold recompute at hu ⊢
  rw [hu]
  exact statusOf_idem now now' d _ hX

/-! ### one index: the summary and the condition in terms of the refs -/

/-- every ref belongs to the default index -/
def AllHash (d : PIndex) (L : List TaskRef) : Prop := ∀ r ∈ L, r.hash d = d.hash

def AnySucc (L : List TaskRef) : Prop := ∃ r ∈ L, r.status.result = .succeeded
def AllFin (L : List TaskRef) : Prop := ∀ r ∈ L, r.finishTimestamp.isSome = true

theorem tasksOfHash_all {d : PIndex} {L : List TaskRef} (h : AllHash d L) : tasksOfHash d L d.hash = L := by
  unfold tasksOfHash
  apply List.filter_eq_self.mpr
  intro r hr
  simp [h r hr]

theorem countP_terminal_of_allFin {L : List TaskRef} (h : AllFin L) : L.countP refTerminal = L.length := by
  rw [List.countP_eq_length]
  intro r hr
  exact h r hr

/-- the summary of a simple Job is complete exactly when a ref succeeded or `maxAttempts` refs finished -/
theorem simple_summary (d : PIndex) (rj : Job) (L : List TaskRef) (h : SimpleSpec rj) (hh : AllHash d L) :
    ((getParallelTaskSummary d rj L).successful = some true ↔ AnySucc L) ∧
    ((getParallelTaskSummary d rj L).successful = some false ↔
      ¬ AnySucc L ∧ ((L.countP refTerminal : Nat) : Int) ≥ rj.maxAttempts) ∧
    ((getParallelTaskSummary d rj L).complete = true ↔
      AnySucc L ∨ ((L.countP refTerminal : Nat) : Int) ≥ rj.maxAttempts) := by
  obtain ⟨h1, h2, h3, _⟩ := summary_iff d rj L
  have hs : Satisfied d rj L ↔ AnySucc L := by
    unfold Satisfied
    rw [h.strategy, h.indexes d]
    simp only [List.mem_singleton, forall_eq]
    unfold IndexSucceeded AnySucc
    constructor
    · rintro ⟨t, ht, _, hr⟩; exact ⟨t, ht, hr⟩
    · rintro ⟨t, ht, hr⟩; exact ⟨t, ht, hh t ht, hr⟩
  have hu : Unsatisfiable d rj L ↔ ¬ AnySucc L ∧ ((L.countP refTerminal : Nat) : Int) ≥ rj.maxAttempts := by
    unfold Unsatisfiable
    rw [h.strategy, h.indexes d]
    simp only [List.mem_singleton, exists_eq_left]
    unfold IndexExhausted
    rw [tasksOfHash_all hh]
    have : IndexSucceeded d L d ↔ AnySucc L := by
      unfold IndexSucceeded AnySucc
      constructor
      · rintro ⟨t, ht, _, hr⟩; exact ⟨t, ht, hr⟩
      · rintro ⟨t, ht, hr⟩; exact ⟨t, ht, hh t ht, hr⟩
    rw [this]
  refine ⟨h1.trans hs, h2.trans hu, ?_⟩
  rw [h3, hs, hu]
  constructor
  · rintro (h | h)
    · exact Or.inl h
    · exact Or.inr h.2
  · rintro (h | h)
    · exact Or.inl h
    · by_cases hx : AnySucc L
      · exact Or.inl hx
      · exact Or.inr ⟨hx, h⟩

/-- all indexes terminated ⇔ every ref is finished -/
theorem simple_terminated (d : PIndex) (rj : Job) (L : List TaskRef) (h : SimpleSpec rj) (hh : AllHash d L) :
    (getParallelStatusCounters (indexStatuses d rj L)).terminated ≥ ((rj.indexes d).length : Int) ↔ AllFin L := by
  rw [terminated_ge_iff, h.indexes d]
  simp only [List.mem_singleton, forall_eq]
  unfold IndexAllFinished AllFin
  constructor
  · intro hx r hr; exact hx r hr (hh r hr)
  · intro hx r hr _; exact hx r hr

/-- **the condition of a simple Job**: `Finished` exactly when every ref is finished and the summary is
complete; the result is `Success` when a ref succeeded and `Failed` otherwise -/
theorem simple_condition (now : Time) (d : PIndex) (rj : Job) (h : SimpleSpec rj) (hh : AllHash d rj.status.tasks) :
    (AllFin rj.status.tasks ∧
        (AnySucc rj.status.tasks ∨ ((rj.status.tasks.countP refTerminal : Nat) : Int) ≥ rj.maxAttempts) →
      ∃ f, (getCondition now d rj).finished = some f ∧ f.finishTimestamp = latestFinished rj.status.tasks ∧
        (AnySucc rj.status.tasks → f.result = .success) ∧ (¬ AnySucc rj.status.tasks → f.result = .failed)) ∧
    (¬ (AllFin rj.status.tasks ∧
        (AnySucc rj.status.tasks ∨ ((rj.status.tasks.countP refTerminal : Nat) : Int) ≥ rj.maxAttempts)) →
      (getCondition now d rj).finished = none) := by
  obtain ⟨s1, s2, s3⟩ := simple_summary d rj rj.status.tasks h hh
  have ht := simple_terminated d rj rj.status.tasks h hh
  have hstart : rj.status.startTime.isNone = false := by
    cases hs : rj.status.startTime with
    | none => have := h.started; rw [hs] at this; cases this
    | some _ => rfl
  unfold getCondition
  simp only [h.adm, hstart, h.kill, isTimeSetAndEarlierOrEqual, Bool.false_eq_true, ↓reduceIte, getParallelStatus]
  constructor
  · rintro ⟨hfin, hcomp⟩
    have hc : (getParallelTaskSummary d rj rj.status.tasks).complete = true := s3.mpr hcomp
    have hterm := ht.mpr hfin
    have hnlt : ¬ (getParallelStatusCounters (indexStatuses d rj rj.status.tasks)).terminated <
        ((rj.indexes d).length : Int) := by omega
    simp only [hc, Bool.not_true, Bool.false_eq_true, ↓reduceIte, hnlt]
    refine ⟨_, rfl, rfl, ?_, ?_⟩
    · intro hs
      simp only [finishedResult, h.kill, Option.isSome_none, Bool.false_eq_true, ↓reduceIte, s1.mpr hs]
    · intro hs
      have : (getParallelTaskSummary d rj rj.status.tasks).successful = some false := by
        apply s2.mpr
        rcases hcomp with hx | hx
        · exact absurd hx hs
        · exact ⟨hs, hx⟩
      simp only [finishedResult, h.kill, Option.isSome_none, Bool.false_eq_true, ↓reduceIte, this]
  · intro hn
    by_cases hc : (getParallelTaskSummary d rj rj.status.tasks).complete = true
    · have hfin : ¬ AllFin rj.status.tasks := fun hf => hn ⟨hf, s3.mp hc⟩
      have hlt : (getParallelStatusCounters (indexStatuses d rj rj.status.tasks)).terminated <
          ((rj.indexes d).length : Int) := by
        have : ¬ ((getParallelStatusCounters (indexStatuses d rj rj.status.tasks)).terminated ≥
            ((rj.indexes d).length : Int)) := fun hx => hfin (ht.mp hx)
        omega
      simp only [hc, Bool.not_true, Bool.false_eq_true, ↓reduceIte, hlt]
    · have hc' : (getParallelTaskSummary d rj rj.status.tasks).complete = false := by simpa using hc
      simp only [hc', Bool.not_false, ↓reduceIte]
      by_cases c1 : (getParallelStatusCounters (indexStatuses d rj rj.status.tasks)).created < ((rj.indexes d).length : Int)
      · simp only [c1, ↓reduceIte]
      · by_cases c2 : (getParallelStatusCounters (indexStatuses d rj rj.status.tasks)).retryBackoff > 0
        · simp only [c1, c2, ↓reduceIte]
        · by_cases c3 : (getParallelStatusCounters (indexStatuses d rj rj.status.tasks)).starting > 0
          · simp only [c1, c2, c3, ↓reduceIte]
          · simp only [c1, c2, c3, ↓reduceIte]

end Furiko.JobCtl.Live
