/-
Liveness of the job controller, part 6: the FAIR ENVIRONMENT as compositions of existing `Action`s of
`Proofs/JobCtlSys.lean` (every phase is a `Steps` path):
* `deliverAll`  — the informers deliver every pending watch event (Jobs first, then Pods);
* `sweep orc`   — the kubelet finishes every pod that is not finished yet, with the outcome the oracle
                  `orc : pod name → Outcome` dictates (Succeeded / Failed);
* `jump`        — while the Job is not finished, time passes until every armed timer of the work queue
                  has fired (`advance` to the latest deadline).
The caches follow the server: `PSync` / `JSync` ("cache + undelivered events = server") are kept by all
phases, so after `deliverAll` both caches equal the server.  Core Lean only.
-/
import FurikoModel.Proofs.JobCtlLive5
import FurikoModel.Proofs.RetryLemmas

set_option linter.unusedSimpArgs false
set_option linter.unusedVariables false

namespace Furiko.JobCtl.Live
open Furiko Furiko.JobCtl Furiko.WQ Furiko.StatusLemmas Furiko.JobCtlPlan

/-! ### iterating one action -/

def iter (a : Action) : Nat → Sys → Sys
  | 0, s => s
  | n + 1, s => iter a n (step s a)

theorem steps_iter {ok : Sys → Action → Prop} {j0 : JobObj} (a : Action) (hok : ∀ s, ok s a)
    (hal : ∀ s, Allowed j0 s a) : ∀ (n : Nat) (s0 s : Sys), Steps ok j0 s0 s → Steps ok j0 s0 (iter a n s)
  | 0, _, _, h => h
  | n + 1, s0, s, h => steps_iter a hok hal n s0 (step s a) (.step a h (hok s) (hal s))

/-! ### caches follow the server -/

def applyPEv (c : List PodObj) : PEv → List PodObj
  | .upsert p => setPod c p
  | .delete p => delPod c p.pod.name

def applyJEv (c : Option JobObj) : JEv → Option JobObj
  | .upsert j => some j
  | .delete _ => none

/-- pod cache + undelivered pod events = the pods on the server -/
def PSync (s : Sys) : Prop := s.podEvs.foldl applyPEv s.podCache = s.pods
/-- Job cache + undelivered Job events = the Job on the server -/
def JSync (s : Sys) : Prop := s.jobEvs.foldl applyJEv s.jobCache = s.job

theorem delPod_absent {l : List PodObj} {n : String} (h : findPod l n = none) : delPod l n = l := by
  unfold delPod
  apply List.filter_eq_self.mpr
  intro p hp
  have := findPod_none h p hp
  simpa using this

theorem podNotify_fields (s : Sys) (p : PodObj) :
    (podNotify s p).pods = s.pods ∧ (podNotify s p).podEvs = s.podEvs ∧ (podNotify s p).podCache = s.podCache ∧
    (podNotify s p).job = s.job ∧ (podNotify s p).jobEvs = s.jobEvs ∧ (podNotify s p).jobCache = s.jobCache ∧
    (podNotify s p).clock = s.clock ∧ (podNotify s p).d = s.d ∧ (podNotify s p).cfg = s.cfg ∧
    (podNotify s p).faults = s.faults ∧ (podNotify s p).rv = s.rv ∧ (podNotify s p).delRun = s.delRun := by
  unfold podNotify
  repeat' split
  all_goals exact ⟨rfl, rfl, rfl, rfl, rfl, rfl, rfl, rfl, rfl, rfl, rfl, rfl⟩

theorem deliverPod_psync (s : Sys) (h : PSync s) : PSync (deliverPod s) := by
  unfold PSync at *
  unfold deliverPod
  cases he : s.podEvs with
  | nil => simp only [he]; rw [he] at h; exact h
  | cons e rest =>
    rw [he] at h
    cases e with
    | upsert p =>
      simp only
      obtain ⟨h1, h2, h3, _⟩ := podNotify_fields { s with podEvs := rest, podCache := setPod s.podCache p } p
      rw [h1, h2, h3]
      exact h
    | delete p =>
      simp only
      cases hf : findPod s.podCache p.pod.name with
      | none =>
        simp only
        simp only [List.foldl_cons, applyPEv, delPod_absent hf] at h
        exact h
      | some old =>
        simp only
        obtain ⟨h1, h2, h3, _⟩ := podNotify_fields { s with podEvs := rest, podCache := delPod s.podCache p.pod.name } old
        rw [h1, h2, h3]
        exact h

theorem deliverJob_jsync (s : Sys) (h : JSync s) : JSync (deliverJob s) := by
  unfold JSync at *
  unfold deliverJob
  cases he : s.jobEvs with
  | nil => simp only [he]; rw [he] at h; exact h
  | cons e rest =>
    rw [he] at h
    cases e with
    | upsert j => simp only; exact h
    | delete j =>
      simp only
      cases hc : s.jobCache with
      | none => simp only; rw [hc] at h; exact h
      | some old => simp only; exact h

/-! ### the work queue under informer deliveries -/

/-- the queue only grew by ready keys: well-formedness, timers and requeue counters are kept -/
structure QGrow (q q' : WQ) : Prop where
  wf : Retry.WF q → Retry.WF q'
  delayed : q'.delayed = q.delayed
  requeues : q'.requeues = q.requeues
  mono : ∀ x ∈ q.queue, x ∈ q'.queue

theorem QGrow.refl (q : WQ) : QGrow q q := ⟨id, rfl, rfl, fun _ h => h⟩
theorem QGrow.trans {a b c : WQ} (h1 : QGrow a b) (h2 : QGrow b c) : QGrow a c :=
  ⟨fun h => h2.wf (h1.wf h), h2.delayed.trans h1.delayed, h2.requeues.trans h1.requeues,
   fun x hx => h2.mono x (h1.mono x hx)⟩

theorem add_delayed' (q : WQ) (k : String) : (q.add k).delayed = q.delayed := by
  unfold WQ.add; split
  · rfl
  · simp only; split <;> rfl

theorem add_requeues' (q : WQ) (k : String) : (q.add k).requeues = q.requeues := by
  unfold WQ.add; split
  · rfl
  · simp only; split <;> rfl

theorem QGrow.add (q : WQ) (k : String) : QGrow q (q.add k) :=
  ⟨fun h => h.add k, add_delayed' q k, add_requeues' q k, fun x hx => Retry.mem_queue_add_mono hx⟩

theorem podNotify_q (s : Sys) (p : PodObj) : QGrow s.q (podNotify s p).q := by
  unfold podNotify
  repeat' split
  all_goals first | exact QGrow.add _ _ | exact QGrow.refl _

theorem deliverPod_q (s : Sys) : QGrow s.q (deliverPod s).q := by
  unfold deliverPod
  cases s.podEvs with
  | nil => exact QGrow.refl _
  | cons e rest =>
    cases e with
    | upsert p => exact podNotify_q { s with podEvs := rest, podCache := setPod s.podCache p } p
    | delete p =>
      simp only
      cases findPod s.podCache p.pod.name with
      | none => exact QGrow.refl _
      | some old => exact podNotify_q { s with podEvs := rest, podCache := delPod s.podCache p.pod.name } old

theorem deliverJob_q (s : Sys) : QGrow s.q (deliverJob s).q := by
  unfold deliverJob
  cases s.jobEvs with
  | nil => exact QGrow.refl _
  | cons e rest =>
    cases e with
    | upsert j => simp only; exact QGrow.add _ _
    | delete j =>
      simp only
      cases s.jobCache with
      | none => exact QGrow.refl _
      | some old => simp only; exact QGrow.add _ _

/-! ### what a delivery leaves alone -/

/-- the server side, the clock, the configuration and the fault oracle are untouched -/
structure Srv (s s' : Sys) : Prop where
  job : s'.job = s.job
  pods : s'.pods = s.pods
  rv : s'.rv = s.rv
  clock : s'.clock = s.clock
  d : s'.d = s.d
  cfg : s'.cfg = s.cfg
  faults : s'.faults = s.faults

theorem Srv.refl (s : Sys) : Srv s s := ⟨rfl, rfl, rfl, rfl, rfl, rfl, rfl⟩
theorem Srv.trans {a b c : Sys} (h1 : Srv a b) (h2 : Srv b c) : Srv a c :=
  ⟨h2.job.trans h1.job, h2.pods.trans h1.pods, h2.rv.trans h1.rv, h2.clock.trans h1.clock, h2.d.trans h1.d,
   h2.cfg.trans h1.cfg, h2.faults.trans h1.faults⟩

theorem deliverPod_nil (s : Sys) (h : s.podEvs = []) : deliverPod s = s := by
  unfold deliverPod; rw [h]

theorem deliverPod_upsert (s : Sys) (p : PodObj) (rest : List PEv) (h : s.podEvs = .upsert p :: rest) :
    deliverPod s = podNotify { s with podEvs := rest, podCache := setPod s.podCache p } p := by
  unfold deliverPod; rw [h]

theorem deliverPod_delete_none (s : Sys) (p : PodObj) (rest : List PEv) (h : s.podEvs = .delete p :: rest)
    (hf : findPod s.podCache p.pod.name = none) : deliverPod s = { s with podEvs := rest } := by
  unfold deliverPod; rw [h]; simp only [hf]

theorem deliverPod_delete_some (s : Sys) (p old : PodObj) (rest : List PEv) (h : s.podEvs = .delete p :: rest)
    (hf : findPod s.podCache p.pod.name = some old) :
    deliverPod s = podNotify { s with podEvs := rest, podCache := delPod s.podCache p.pod.name } old := by
  unfold deliverPod; rw [h]; simp only [hf]

theorem deliverJob_nil (s : Sys) (h : s.jobEvs = []) : deliverJob s = s := by
  unfold deliverJob; rw [h]

theorem deliverJob_upsert (s : Sys) (j : JobObj) (rest : List JEv) (h : s.jobEvs = .upsert j :: rest) :
    deliverJob s = { s with jobEvs := rest, jobCache := some j, q := s.q.add (jobKey j) } := by
  unfold deliverJob; rw [h]

theorem deliverPod_srv (s : Sys) : Srv s (deliverPod s) ∧ (deliverPod s).jobCache = s.jobCache ∧
    (deliverPod s).jobEvs = s.jobEvs ∧ (deliverPod s).podEvs = s.podEvs.tail := by
  cases he : s.podEvs with
  | nil => rw [deliverPod_nil s he]; exact ⟨Srv.refl s, rfl, rfl, by rw [he]; rfl⟩
  | cons e rest =>
    cases e with
    | upsert p =>
      rw [deliverPod_upsert s p rest he]
      obtain ⟨h1, h2, h3, h4, h5, h6, h7, h8, h9, h10, h11, h12⟩ :=
        podNotify_fields { s with podEvs := rest, podCache := setPod s.podCache p } p
      exact ⟨⟨h4, h1, h11, h7, h8, h9, h10⟩, h6, h5, h2⟩
    | delete p =>
      cases hf : findPod s.podCache p.pod.name with
      | none =>
        rw [deliverPod_delete_none s p rest he hf]
        exact ⟨⟨rfl, rfl, rfl, rfl, rfl, rfl, rfl⟩, rfl, rfl, rfl⟩
      | some old =>
        rw [deliverPod_delete_some s p old rest he hf]
        obtain ⟨h1, h2, h3, h4, h5, h6, h7, h8, h9, h10, h11, h12⟩ :=
          podNotify_fields { s with podEvs := rest, podCache := delPod s.podCache p.pod.name } old
        exact ⟨⟨h4, h1, h11, h7, h8, h9, h10⟩, h6, h5, h2⟩

theorem deliverJob_srv (s : Sys) : Srv s (deliverJob s) ∧ (deliverJob s).podCache = s.podCache ∧
    (deliverJob s).podEvs = s.podEvs ∧ (deliverJob s).jobEvs = s.jobEvs.tail := by
  cases he : s.jobEvs with
  | nil => rw [deliverJob_nil s he]; exact ⟨Srv.refl s, rfl, rfl, by rw [he]; rfl⟩
  | cons e rest =>
    cases e with
    | upsert j =>
      rw [deliverJob_upsert s j rest he]
      exact ⟨⟨rfl, rfl, rfl, rfl, rfl, rfl, rfl⟩, rfl, rfl, rfl⟩
    | delete j =>
      unfold deliverJob
      rw [he]
      cases hc : s.jobCache with
      | none => exact ⟨⟨rfl, rfl, rfl, rfl, rfl, rfl, rfl⟩, rfl, rfl, rfl⟩
      | some old => exact ⟨⟨rfl, rfl, rfl, rfl, rfl, rfl, rfl⟩, rfl, rfl, rfl⟩

/-! ### `deliverAll` -/

/-- the informers deliver every pending watch event: Job events first, then Pod events -/
def deliverAll (s : Sys) : Sys := iter .deliverPod s.podEvs.length (iter .deliverJob s.jobEvs.length s)

theorem iter_deliverJob : ∀ (n : Nat) (s : Sys), s.jobEvs.length = n →
    (iter .deliverJob n s).jobEvs = [] ∧ Srv s (iter .deliverJob n s) ∧ QGrow s.q (iter .deliverJob n s).q ∧
    (iter .deliverJob n s).podCache = s.podCache ∧ (iter .deliverJob n s).podEvs = s.podEvs ∧
    (JSync s → JSync (iter .deliverJob n s))
  | 0, s, h => ⟨List.eq_nil_of_length_eq_zero h, Srv.refl s, QGrow.refl _, rfl, rfl, id⟩
  | n + 1, s, h => by
    obtain ⟨h1, h2, h3, h4⟩ := deliverJob_srv s
    have hl : (step s .deliverJob).jobEvs.length = n := by
      show (deliverJob s).jobEvs.length = n
      rw [h4, List.length_tail]; omega
    obtain ⟨i1, i2, i3, i4, i5, i6⟩ := iter_deliverJob n (step s .deliverJob) hl
    exact ⟨i1, h1.trans i2, (deliverJob_q s).trans i3, i4.trans h2, i5.trans h3,
      fun hj => i6 (deliverJob_jsync s hj)⟩

theorem iter_deliverPod : ∀ (n : Nat) (s : Sys), s.podEvs.length = n →
    (iter .deliverPod n s).podEvs = [] ∧ Srv s (iter .deliverPod n s) ∧ QGrow s.q (iter .deliverPod n s).q ∧
    (iter .deliverPod n s).jobCache = s.jobCache ∧ (iter .deliverPod n s).jobEvs = s.jobEvs ∧
    (PSync s → PSync (iter .deliverPod n s))
  | 0, s, h => ⟨List.eq_nil_of_length_eq_zero h, Srv.refl s, QGrow.refl _, rfl, rfl, id⟩
  | n + 1, s, h => by
    obtain ⟨h1, h2, h3, h4⟩ := deliverPod_srv s
    have hl : (step s .deliverPod).podEvs.length = n := by
      show (deliverPod s).podEvs.length = n
      rw [h4, List.length_tail]; omega
    obtain ⟨i1, i2, i3, i4, i5, i6⟩ := iter_deliverPod n (step s .deliverPod) hl
    exact ⟨i1, h1.trans i2, (deliverPod_q s).trans i3, i4.trans h2, i5.trans h3,
      fun hj => i6 (deliverPod_psync s hj)⟩

/-- after `deliverAll` nothing is undelivered and both caches equal the server -/
theorem deliverAll_spec (s : Sys) (hp : PSync s) (hj : JSync s) :
    (deliverAll s).jobEvs = [] ∧ (deliverAll s).podEvs = [] ∧ (deliverAll s).jobCache = s.job ∧
    (deliverAll s).podCache = s.pods ∧ Srv s (deliverAll s) ∧ QGrow s.q (deliverAll s).q := by
  unfold deliverAll
  obtain ⟨a1, a2, a3, a4, a5, a6⟩ := iter_deliverJob s.jobEvs.length s rfl
  obtain ⟨b1, b2, b3, b4, b5, b6⟩ := iter_deliverPod s.podEvs.length (iter .deliverJob s.jobEvs.length s)
    (by rw [a5])
  have hj' := a6 hj
  unfold JSync at hj'
  rw [a1] at hj'
  have hp1 : PSync (iter .deliverJob s.jobEvs.length s) := by
    unfold PSync at *
    rw [a5, a4, a2.pods]; exact hp
  have hp' := b6 hp1
  unfold PSync at hp'
  rw [b1] at hp'
  refine ⟨b5.trans a1, b1, ?_, ?_, a2.trans b2, a3.trans b3⟩
  · rw [b4]; simp only [List.foldl_nil] at hj'; rw [hj', a2.job]
  · simp only [List.foldl_nil] at hp'; rw [hp', b2.pods, a2.pods]

theorem deliverAll_steps {ok : Sys → Action → Prop} {j0 : JobObj} (hj : ∀ s, ok s .deliverJob)
    (hp : ∀ s, ok s .deliverPod) (s0 s : Sys) (h : Steps ok j0 s0 s) : Steps ok j0 s0 (deliverAll s) := by
  unfold deliverAll
  exact steps_iter .deliverPod hp (fun _ => trivial) _ s0 _
    (steps_iter .deliverJob hj (fun _ => trivial) _ s0 _ h)

/-- nothing pending: `deliverAll` is the identity -/
theorem deliverAll_idle (s : Sys) (h1 : s.jobEvs = []) (h2 : s.podEvs = []) : deliverAll s = s := by
  unfold deliverAll
  rw [h1, h2]
  rfl

end Furiko.JobCtl.Live
