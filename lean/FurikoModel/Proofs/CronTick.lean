/-
One tick of `CronWorker.Work`: key-wise view of `workLoop`.
Every iteration pops one key and changes only that key's (entry, counter, output) triple
(`kstep`); `workLoop_keywise` lifts any per-key invariant preserved by `kstep` to the loop.
-/
import FurikoModel.Proofs.CronSched

namespace Furiko.Cron
open Furiko

/-- schedule times requested for key `k`, in order -/
def outk (l : List (String × Int)) (k : String) : List Int :=
  (l.filter (fun p => p.1 = k)).map (fun p => p.2)

theorem outk_nil (k : String) : outk [] k = [] := rfl

theorem outk_append (a b : List (String × Int)) (k : String) :
    outk (a ++ b) k = outk a k ++ outk b k := by
  simp [outk]

/-! ### lookup / counters -/

theorem lookup_mem {l : List (String × JC)} {k : String} {jc : JC} (h : lookup l k = some jc) :
    (k, jc) ∈ l := by
  induction l with
  | nil => simp [lookup] at h
  | cons p t ih =>
    obtain ⟨k', v⟩ := p
    unfold lookup at h
    by_cases hk : k' = k
    · simp only [hk, if_true, Option.some.injEq] at h
      subst h; subst hk; simp
    · simp only [hk, if_false] at h
      exact List.mem_cons_of_mem _ (ih h)

theorem lookup_ok {l : List (String × JC)} (hl : ListerOK l) {k : String} {jc : JC}
    (h : lookup l k = some jc) : jc.key = k ∧ jc.SortedOK :=
  hl.1 (k, jc) (lookup_mem h)

theorem getCount_incCount (c : List (String × Nat)) (key k : String) :
    getCount (incCount c key) k = if k = key then getCount c k + 1 else getCount c k := by
  induction c with
  | nil =>
    by_cases hk : k = key
    · simp [incCount, getCount, hk]
    · have : ¬ key = k := fun h => hk h.symm
      simp [incCount, getCount, hk, this]
  | cons p t ih =>
    obtain ⟨k', n⟩ := p
    unfold incCount
    by_cases h1 : k' = key
    · simp only [h1, if_true]
      by_cases hk : k = key
      · simp [getCount, hk]
      · have : ¬ key = k := fun h => hk h.symm
        simp [getCount, hk, this]
    · simp only [h1, if_false]
      unfold getCount
      by_cases h2 : k' = k
      · have : ¬ k = key := fun h => h1 (h2.trans h)
        simp [h2, this]
      · simp only [h2, if_false]
        exact ih

/-! ### per-key state and step -/

structure KState where
  ent : Option Int
  cnt : Nat
  out : List Int

/-- entry left by the `Bump` inside `syncOne` (the key has just been popped) -/
def bumpEnt (jc : JC) (s : Int) : Option Int :=
  if jc.sched.enabled && !jc.sched.parseErr then jc.nextAfter s else none

/-- effect of one `Pop` + `syncOne` of key `k` (popped at `ts`) on that key's state -/
def kstep (ojc : Option JC) (nowS : Int) (cap : Int) (ts : Int) (s : KState) : KState :=
  match ojc with
  | none => ⟨none, s.cnt, s.out⟩
  | some jc =>
    if (s.cnt : Int) ≥ cap then ⟨bumpEnt jc nowS, s.cnt, s.out⟩
    else ⟨bumpEnt jc ts, s.cnt + 1, s.out ++ [ts]⟩

def view (heap : Heap.PQ) (counts : List (String × Nat)) (fired : List (String × Int))
    (k : String) : KState :=
  ⟨Heap.search heap k, getCount counts k, outk fired k⟩

theorem bumpEntry_none (jc : JC) (s : Int) : bumpEntry jc none s = bumpEnt jc s := by
  unfold bumpEntry bumpEnt
  cases jc.sched.enabled <;> cases jc.sched.parseErr <;> simp

/-- one loop iteration, key-wise -/
theorem syncOne_view {h1 : Heap.PQ} {lister : List (String × JC)} (hInv : Heap.Inv h1)
    (hL : ListerOK lister) (now : Int) (key : String) (ts : Int)
    (counts : List (String × Nat)) (cap : Int) (hpopped : Heap.search h1 key = none)
    (s0 : KState) (hs0 : s0.cnt = getCount counts key) (fired : List (String × Int))
    (hs0' : s0.out = outk fired key) :
    Heap.Inv (syncOne h1 lister now key ts counts cap).1 ∧
    ∀ k, view (syncOne h1 lister now key ts counts cap).1
            (syncOne h1 lister now key ts counts cap).2.1
            (fired ++ (syncOne h1 lister now key ts counts cap).2.2.toList) k =
      if k = key then kstep (lookup lister key) (floorSec now) cap ts s0
      else view h1 counts fired k := by
  unfold syncOne
  cases hlk : lookup lister key with
  | none =>
    refine ⟨hInv, fun k => ?_⟩
    by_cases hk : k = key
    · subst hk
      simp [view, kstep, hpopped, hs0, hs0']
    · simp [hk]
  | some jc =>
    obtain ⟨hkey, hsorted⟩ := lookup_ok hL hlk
    by_cases hcap : (getCount counts key : Int) ≥ cap
    · simp only [hcap, if_true]
      have hb := schedBump_spec hInv jc hsorted now
      refine ⟨hb.1, fun k => ?_⟩
      by_cases hk : k = key
      · subst hk
        have hcap' : (s0.cnt : Int) ≥ cap := by rw [hs0]; exact hcap
        simp only [view, hb.2, hkey, if_true, kstep, hcap', hpopped, bumpEntry_none]
        simp [hs0, hs0']
      · have : ¬ k = jc.key := by rw [hkey]; exact hk
        simp [view, hb.2, this, hk]
    · simp only [hcap, if_false]
      have hb := schedBump_spec hInv jc hsorted (ts * 1000000000)
      refine ⟨hb.1, fun k => ?_⟩
      by_cases hk : k = key
      · subst hk
        have hcap' : ¬ (s0.cnt : Int) ≥ cap := by rw [hs0]; exact hcap
        simp only [view, hb.2, hkey, if_true, kstep, hcap', if_false, hpopped, bumpEntry_none,
          floorSec_mul, getCount_incCount, outk_append]
        simp [hs0, hs0', outk]
      · have h1' : ¬ k = jc.key := by rw [hkey]; exact hk
        have h2 : ¬ key = k := fun h => hk h.symm
        simp [view, hb.2, h1', hk, getCount_incCount, outk, h2]

/-- Lifting of per-key invariants to the pop loop.  `P k` must be preserved by
the step of key `k` whenever `k`'s entry has arrived. -/
theorem workLoop_keywise {lister : List (String × JC)} {now : Int} {cap : Int}
    (hL : ListerOK lister) (P : String → KState → Prop)
    (hP : ∀ k s ts, P k s → s.ent = some ts → ts ≤ floorSec now →
      P k (kstep (lookup lister k) (floorSec now) cap ts s)) :
    ∀ (fuel : Nat) (heap : Heap.PQ) (counts : List (String × Nat))
      (acc : List (String × Int)),
      Heap.Inv heap → (∀ k, P k (view heap counts acc.reverse k)) →
      Heap.Inv (workLoop lister now cap fuel heap counts acc).1 ∧
      (∃ counts', ∀ k, P k (view (workLoop lister now cap fuel heap counts acc).1
          counts' (workLoop lister now cap fuel heap counts acc).2.1 k)) ∧
      ((workLoop lister now cap fuel heap counts acc).2.2 = true →
        ∀ k p, Heap.search (workLoop lister now cap fuel heap counts acc).1 k
          = some p → floorSec now < p) := by
  intro fuel
  induction fuel with
  | zero =>
    intro heap counts acc hInv hAll
    simp only [workLoop]
    exact ⟨hInv, ⟨counts, hAll⟩, fun h => by cases h⟩
  | succ fuel ih =>
    intro heap counts acc hInv hAll
    unfold workLoop
    cases hpop : schedPop heap now with
    | none =>
      refine ⟨hInv, ⟨counts, hAll⟩, fun _ k p hk => ?_⟩
      have := schedPop_none hInv hpop k p hk
      exact (floorSec_lt_iff _ _).2 this
    | some r =>
      obtain ⟨h1, key, ts⟩ := r
      obtain ⟨hsk, hts, _, hInv1, hs1⟩ := schedPop_some hInv hpop
      have hpopped : Heap.search h1 key = none := by rw [hs1]; simp
      have hts' : ts ≤ floorSec now := (le_floorSec_iff _ _).2 hts
      have hv := syncOne_view hInv1 hL now key ts counts cap hpopped
        (view heap counts acc.reverse key) rfl acc.reverse rfl
      simp only []
      apply ih
      · exact hv.1
      · intro k
        have hv2 := hv.2 k
        generalize syncOne h1 lister now key ts counts cap = r at hv2 ⊢
        obtain ⟨rh, rc, ro⟩ := r
        suffices h : P k (view rh rc (acc.reverse ++ ro.toList) k) by
          cases ro <;> simpa using h
        simp only [] at hv2
        rw [hv2]
        by_cases hk : k = key
        · subst hk
          simp only [if_true]
          exact hP k _ ts (hAll k) (by simp [view, hsk]) hts'
        · simp only [hk, if_false]
          have : view h1 counts acc.reverse k = view heap counts acc.reverse k := by
            simp [view, hs1, hk]
          rw [this]; exact hAll k

theorem refresh_nil (heap : Heap.PQ) (lister : List (String × JC)) (now : Int) (limit : Nat) :
    refresh heap lister [] now limit = (heap, []) := by
  cases limit <;> rfl

end Furiko.Cron
