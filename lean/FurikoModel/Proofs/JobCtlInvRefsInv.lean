/-
The "good refs" invariant over every reachable state (`Inv2`; ALL actions, foreign pods included —
since the repair of F22 no lookup reads a pod that is not controlled by the Job): every pod object
anywhere (server, pod cache, undelivered upserts) that is controlled by the Job is well-named; every
Job version anywhere has pairwise distinct, well-named refs and `createdTasks = |tasks|`.
Hypothesis `WF2`: the Job's index hashes are pairwise distinct and contain no `-`.  Core Lean only.
-/
import FurikoModel.Proofs.JobCtlInvRefsSync

set_option linter.unusedSimpArgs false
set_option linter.unusedVariables false

namespace Furiko.JobCtl
open Furiko Furiko.WQ

structure Inv2 (j0 : JobObj) (s : Sys) : Prop where
  job : ∀ j, s.job = some j → Good j0 s.d j.job
  seen : ∀ v ∈ seenVers s, Good j0 s.d v.job
  pods : PodsGood j0 s
  evs : ∀ p, PEv.upsert p ∈ s.podEvs → PodOK2 j0 s.d p

theorem Good.of_status_eq {j0 : JobObj} {d : PIndex} {a b : Job} (h : Good j0 d a) (e : b.status = a.status) :
    Good j0 d b := (GK.of_status h e).1

/-- objects and pod side unchanged, the set of visible versions does not grow -/
theorem Inv2.of_subset {j0 : JobObj} {s s' : Sys} (h : Inv2 j0 s) (hjob : s'.job = s.job) (hd : s'.d = s.d)
    (hpods : s'.pods = s.pods) (hcache : s'.podCache = s.podCache) (hevs : s'.podEvs = s.podEvs)
    (hsub : ∀ v ∈ seenVers s', v ∈ seenVers s) : Inv2 j0 s' := by
  refine ⟨?_, ?_, ⟨?_, ?_, ?_⟩, ?_⟩
  · intro j hj; rw [hjob] at hj; rw [hd]; exact h.job j hj
  · intro v hv; rw [hd]; exact h.seen v (hsub v hv)
  · rw [hpods, hd]; exact h.pods.pods
  · rw [hcache, hd]; exact h.pods.cache
  · rw [hcache]; exact h.pods.cacheNodup
  · rw [hevs, hd]; exact h.evs

theorem Inv2.frame {j0 : JobObj} {s s' : Sys} (h : Inv2 j0 s) (hf : Frame s s') : Inv2 j0 s' :=
  h.of_subset hf.job hf.d hf.pods hf.podCache hf.podEvs
    (by rw [seenVers_congr hf.jobCache hf.jobEvs]; exact fun _ h => h)

theorem Inv2.jobWrite {j0 : JobObj} {s s' : Sys} {nj : JobObj} (h : Inv2 j0 s) (hw : JobWrite s s' nj)
    (hg : Good j0 s.d nj.job) : Inv2 j0 s' := by
  have hseen : seenVers s' = seenVers s ++ [nj] := by
    unfold seenVers
    rw [hw.static.jobCache, hw.jobEvs, upserts_append, List.append_assoc]
    rfl
  have hd := hw.static.d
  refine ⟨?_, ?_, ⟨?_, ?_, ?_⟩, ?_⟩
  · intro j hj; rw [hw.job] at hj; cases hj; rw [hd]; exact hg
  · intro v hv; rw [hseen] at hv; rw [hd]
    rcases List.mem_append.mp hv with hv | hv
    · exact h.seen v hv
    · simp only [List.mem_singleton] at hv; subst hv; exact hg
  · rw [hw.pods, hd]; exact h.pods.pods
  · rw [hw.static.podCache, hd]; exact h.pods.cache
  · rw [hw.static.podCache]; exact h.pods.cacheNodup
  · rw [hw.podEvs, hd]; exact h.evs

theorem Inv2.jobGone {j0 : JobObj} {s s' : Sys} (h : Inv2 j0 s) (hg : JobGone s s') : Inv2 j0 s' := by
  have hseen : seenVers s' = seenVers s := by
    obtain ⟨x, hx⟩ := hg.jobEvs
    unfold seenVers
    rw [hg.static.jobCache, hx, upserts_append]
    simp [upserts]
  have hd := hg.static.d
  refine ⟨?_, ?_, ⟨?_, ?_, ?_⟩, ?_⟩
  · intro j hj; rw [hg.job] at hj; cases hj
  · intro v hv; rw [hseen] at hv; rw [hd]; exact h.seen v hv
  · rw [hg.pods, hd]; exact h.pods.pods
  · rw [hg.static.podCache, hd]; exact h.pods.cache
  · rw [hg.static.podCache]; exact h.pods.cacheNodup
  · rw [hg.podEvs, hd]; exact h.evs

/-- a change of the server's pods that leaves the Job side and the pod cache alone -/
theorem Inv2.podChange {j0 : JobObj} {s s' : Sys} (h : Inv2 j0 s) (hst : Static s s') (hjob : s'.job = s.job)
    (hjevs : s'.jobEvs = s.jobEvs) (hpods : ∀ p ∈ s'.pods, PodOK2 j0 s.d p)
    (hevs : ∀ p, PEv.upsert p ∈ s'.podEvs → PodOK2 j0 s.d p) : Inv2 j0 s' := by
  have hseen := seenVers_congr hst.jobCache hjevs
  have hd := hst.d
  refine ⟨?_, ?_, ⟨?_, ?_, ?_⟩, ?_⟩
  · intro j hj; rw [hjob] at hj; rw [hd]; exact h.job j hj
  · intro v hv; rw [hseen] at hv; rw [hd]; exact h.seen v hv
  · rw [hd]; exact hpods
  · rw [hst.podCache, hd]; exact h.pods.cache
  · rw [hst.podCache]; exact h.pods.cacheNodup
  · rw [hd]; exact hevs

theorem Inv2.podAdd {j0 : JobObj} {s s' : Sys} {p : PodObj} (h : Inv2 j0 s) (ha : PodAdd s s' p)
    (hp : PodOK2 j0 s.d p) : Inv2 j0 s' := by
  refine h.podChange ha.static ha.job ha.jobEvs ?_ ?_
  · intro q hq; rw [ha.pods] at hq
    rcases List.mem_append.mp hq with hq | hq
    · exact h.pods.pods q hq
    · simp only [List.mem_singleton] at hq; subst hq; exact hp
  · intro q hq; rw [ha.podEvs] at hq
    rcases List.mem_append.mp hq with hq | hq
    · exact h.evs q hq
    · simp only [List.mem_singleton, PEv.upsert.injEq] at hq; subst hq; exact hp

theorem Inv2.podSet {j0 : JobObj} {s s' : Sys} {old p : PodObj} (h : Inv2 j0 s) (hs : PodSet s s' old p)
    (hp : PodOK2 j0 s.d p) : Inv2 j0 s' := by
  refine h.podChange hs.static hs.job hs.jobEvs ?_ ?_
  · intro q hq; rw [hs.pods] at hq
    rcases mem_setPod hq with hq | hq
    · subst hq; exact hp
    · exact h.pods.pods q hq
  · intro q hq; rw [hs.podEvs] at hq
    rcases List.mem_append.mp hq with hq | hq
    · exact h.evs q hq
    · simp only [List.mem_singleton, PEv.upsert.injEq] at hq; subst hq; exact hp

theorem Inv2.podDel {j0 : JobObj} {s s' : Sys} {p : PodObj} (h : Inv2 j0 s) (hd : PodDel s s' p) : Inv2 j0 s' := by
  refine h.podChange hd.static hd.job hd.jobEvs ?_ ?_
  · intro q hq; rw [hd.pods] at hq; exact h.pods.pods q (mem_delPod hq).1
  · intro q hq; rw [hd.podEvs] at hq
    rcases List.mem_append.mp hq with hq | hq
    · exact h.evs q hq
    · simp at hq

/-! ### a pass -/

theorem Inv2.micro {j0 jo : JobObj} {sp s s' : Sys} (hb : Base j0 s) (h : Inv2 j0 s) (hc : s.jobCache = some jo)
    (hwf : WF2 j0 sp.d) (hpsp : PodsGood j0 sp) (hgsp : Good j0 sp.d jo.job) (hd : sp.d = s.d)
    (hm : Micro jo sp s s') : Inv2 j0 s' := by
  have hseen := mem_seenVers_cache hc
  have hjo := (hb.seenOK jo hseen).1
  cases hm with
  | frame hf => exact h.frame hf
  | create idx retry hreq _ =>
    rcases apiCreatePod_spec s jo idx retry with hs | hs
    · exact h.frame hs.1
    · exact h.podAdd hs.1 (newPod_good hjo hreq _)
  | delPod name force =>
    rcases apiDeletePod_spec s name force with hs | ⟨p, _, hs, _⟩ | ⟨p, _, _, _, hs⟩
    · exact h.frame hs
    · exact h.podDel hs
    · exact h.podSet hs ((h.pods.pods p (findPod_some hs.found).1).markDeleted _)
  | delJob =>
    rcases apiDeleteJob_spec s jo with hs | ⟨c, hc', _, _, hs⟩ | ⟨c, _, _, hs⟩
    · exact h.frame hs
    · exact h.jobWrite hs ((h.job c hc').of_status_eq rfl)
    · exact h.jobGone hs
  | updJob _ =>
    rcases apiUpdateJob_spec s jo { jo with job := (sync sp jo).2.1, finalizer := (sync sp jo).2.2.1 } with
      hs | ⟨c, hc', _, hs | hs⟩
    · exact h.frame hs
    · exact h.jobWrite hs.1 ((h.job c hc').of_status_eq rfl)
    · exact h.jobGone hs.1
  | updStatus =>
    rcases apiUpdateJobStatus_spec s jo { jo with job := (sync sp jo).2.1 } with hs | ⟨c, hc', _, hs⟩
    · exact h.frame hs
    · refine h.jobWrite hs ?_
      have := (sync_good sp jo hwf hpsp hjo hgsp).1
      rw [hd] at this
      exact this.of_status_eq rfl
  | updStatusOn s1 hs1 hs hok =>
    rcases apiUpdateJobStatus_spec s { jo with rv := updatedRv s jo } { jo with job := (sync sp jo).2.1 } with hs | ⟨c, hc', _, hs⟩
    · exact h.frame hs
    · refine h.jobWrite hs ?_
      have := (sync_good sp jo hwf hpsp hjo hgsp).1
      rw [hd] at this
      exact this.of_status_eq rfl

theorem Inv2.micros {j0 jo : JobObj} {sp s s' : Sys} (hb : Base j0 s) (h : Inv2 j0 s) (hc : s.jobCache = some jo)
    (hwf : WF2 j0 sp.d) (hpsp : PodsGood j0 sp) (hgsp : Good j0 sp.d jo.job) (hd : sp.d = s.d)
    (hm : Micros jo sp s s') : Inv2 j0 s' := by
  induction hm with
  | refl => exact h
  | tail hms hm ih =>
    have hbm := hb.micros hc hms
    exact Inv2.micro hbm.1 ih hbm.2 hwf hpsp hgsp (hd.trans hms.static.d.symm) hm

/-! ### every action -/

theorem step_d (s : Sys) (a : Action) : (step s a).d = s.d := by
  cases a with
  | setFaults fs => rfl
  | work =>
    show (work s).1.d = s.d
    cases hc : s.jobCache with
    | none => exact (work_frame s hc).d
    | some jo =>
      obtain ⟨sp, hf, hm⟩ := work_micros s jo hc
      exact hm.static.d.trans hf.d
  | deliverJob => exact (deliverJob_fields s).2.2.2.1
  | deliverPod => exact (deliverPod_fields s).2.2.2.1
  | resync => exact (resync_frame s).d
  | restart =>
    show (restart s).d = s.d
    unfold restart
    cases s.job <;> rfl
  | advance d => rfl
  | kubelet p =>
    show (setPodState s p).d = s.d
    unfold setPodState; split <;> rfl
  | podGone n =>
    show (removePod s n).d = s.d
    unfold removePod; split <;> rfl
  | externalDelete n =>
    show (removePod s n).d = s.d
    unfold removePod; split <;> rfl
  | kill t =>
    show (mutateJobObj s _).d = s.d
    unfold mutateJobObj; split <;> rfl
  | userDelete =>
    show (userDeleteJob s).d = s.d
    unfold userDeleteJob mutateJobObj
    split
    · rfl
    · split
      · split
        · rfl
        · split <;> rfl
      · rfl
  | createForeign p =>
    show (createForeignPod s p).d = s.d
    unfold createForeignPod; split <;> rfl

theorem PodOK2.kubelet {j0 : JobObj} {d : PIndex} {old p : PodObj} (h : PodOK2 j0 d old) (hk : KubeletOK old p) :
    PodOK2 j0 d p := by
  obtain ⟨k1, _, _, k4, k5, _, k7, k8, _, _⟩ := hk
  intro ho
  have h' := h (k1 ▸ ho)
  exact ⟨h'.1.transfer k4 k8 k7, by rw [k5]; exact h'.2⟩

theorem Inv2.afterDeliverPod {j0 : JobObj} {s : Sys} (h : Inv2 j0 s) : Inv2 j0 (deliverPod s) := by
  have hf := deliverPod_fields s
  have hseen := seenVers_congr hf.2.2.2.2.2.1 hf.2.2.2.2.1
  have hd := hf.2.2.2.1
  -- the pod side
  have hpod : (deliverPod s).pods = s.pods ∧ (∀ p ∈ (deliverPod s).podCache, PodOK2 j0 s.d p) ∧
      (podNames (deliverPod s).podCache).Nodup ∧ (∀ p, PEv.upsert p ∈ (deliverPod s).podEvs → PodOK2 j0 s.d p) := by
    unfold JobCtl.deliverPod
    cases he : s.podEvs with
    | nil => exact ⟨rfl, h.pods.cache, h.pods.cacheNodup, h.evs⟩
    | cons e rest =>
      have hrest : ∀ p, PEv.upsert p ∈ rest → PodOK2 j0 s.d p := fun p hp =>
        h.evs p (by rw [he]; exact List.mem_cons_of_mem _ hp)
      cases e with
      | upsert p =>
        simp only
        have hfr := podNotify_frame { s with podEvs := rest, podCache := setPod s.podCache p } p
        refine ⟨hfr.pods, ?_, ?_, ?_⟩
        · rw [hfr.podCache]
          intro q hq
          rcases mem_setPod hq with hq | hq
          · subst hq; exact h.evs q (by rw [he]; exact List.mem_cons_self)
          · exact h.pods.cache q hq
        · rw [hfr.podCache]; exact nodup_setPod p h.pods.cacheNodup
        · rw [hfr.podEvs]; exact hrest
      | delete p =>
        simp only
        cases hfp : findPod s.podCache p.pod.name with
        | none => exact ⟨rfl, h.pods.cache, h.pods.cacheNodup, hrest⟩
        | some old =>
          simp only
          have hfr := podNotify_frame { s with podEvs := rest, podCache := delPod s.podCache p.pod.name } old
          refine ⟨hfr.pods, ?_, ?_, ?_⟩
          · rw [hfr.podCache]
            intro q hq; exact h.pods.cache q (mem_delPod hq).1
          · rw [hfr.podCache]; exact nodup_delPod _ h.pods.cacheNodup
          · rw [hfr.podEvs]; exact hrest
  refine ⟨?_, ?_, ⟨?_, ?_, hpod.2.2.1⟩, ?_⟩
  · intro j hj; rw [hf.1] at hj; rw [hd]; exact h.job j hj
  · intro v hv; rw [hseen] at hv; rw [hd]; exact h.seen v hv
  · rw [hpod.1, hd]; exact h.pods.pods
  · rw [hd]; exact hpod.2.1
  · rw [hd]; exact hpod.2.2.2

theorem Inv2.afterRestart {j0 : JobObj} {s : Sys} (hb : Base j0 s) (h : Inv2 j0 s) : Inv2 j0 (restart s) := by
  have hf : (restart s).job = s.job ∧ (restart s).pods = s.pods ∧ (restart s).d = s.d ∧
      seenVers (restart s) = s.job.toList ∧ (restart s).podCache = s.pods ∧ (restart s).podEvs = [] := by
    unfold restart
    cases hj : s.job <;> simp [seenVers, upserts, hj]
  obtain ⟨h1, h2, h3, h4, h5, h6⟩ := hf
  refine ⟨?_, ?_, ⟨?_, ?_, ?_⟩, ?_⟩
  · intro j hj; rw [h1] at hj; rw [h3]; exact h.job j hj
  · intro v hv; rw [h4] at hv; rw [h3]
    cases hj : s.job with
    | none => simp [hj] at hv
    | some j => simp only [hj, Option.toList_some, List.mem_singleton] at hv; subst hv; exact h.job v hj
  · rw [h2, h3]; exact h.pods.pods
  · rw [h5, h3]; exact h.pods.pods
  · rw [h5]; exact hb.podsNodup
  · rw [h6]; intro p hp; cases hp

theorem Inv2.init {j0 : JobObj} (hwf : WF j0) (clock : Int) (cfg : ExecConfig) (d : PIndex) :
    Inv2 j0 (initSys clock cfg d j0) := by
  have hg : Good j0 d j0.job := by
    refine ⟨?_, ?_, ?_⟩
    · unfold refNames; rw [hwf.noTasks]; simp
    · rw [hwf.noTasks]; intro r hr; cases hr
    · rw [hwf.noTasks, hwf.noCreated]; rfl
  unfold initSys userCreateJob
  refine ⟨?_, ?_, ⟨?_, ?_, ?_⟩, ?_⟩
  · intro j hj
    simp only [Option.some.injEq] at hj; subst hj
    exact hg
  · intro v hv
    simp only [seenVers, upserts, Option.toList_none, List.nil_append, List.filterMap_cons,
      List.filterMap_nil, List.mem_singleton] at hv
    subst hv
    exact hg
  · intro p hp; cases hp
  · intro p hp; cases hp
  · simp [podNames]
  · intro p hp; simp at hp

theorem Inv2.step {j0 : JobObj} {s : Sys} (hb : Base j0 s) (h : Inv2 j0 s) (hwf : WF2 j0 s.d) (a : Action)
    (hal : Allowed j0 s a) : Inv2 j0 (step s a) := by
  cases a with
  | setFaults fs => exact h.of_subset rfl rfl rfl rfl rfl (fun _ h => h)
  | work =>
    show Inv2 j0 (work s).1
    cases hc : s.jobCache with
    | none => exact h.frame (work_frame s hc)
    | some jo =>
      obtain ⟨sp, hf, hm⟩ := work_micros s jo hc
      have hsp := h.frame hf
      have hcsp : sp.jobCache = some jo := hf.jobCache.trans hc
      exact Inv2.micros (hb.frame hf) hsp hcsp (hf.d ▸ hwf) hsp.pods (hsp.seen jo (mem_seenVers_cache hcsp)) rfl hm
  | deliverJob =>
    show Inv2 j0 (deliverJob s)
    have := deliverJob_fields s
    exact h.of_subset this.1 this.2.2.2.1 this.2.2.1 this.2.2.2.2.2.1 this.2.2.2.2.1 (seenVers_deliverJob s)
  | deliverPod => exact h.afterDeliverPod
  | resync => exact h.frame (s' := resync s) (resync_frame s)
  | restart => exact h.afterRestart hb
  | advance d => exact h.of_subset rfl rfl rfl rfl rfl (fun _ h => h)
  | kubelet p =>
    show Inv2 j0 (setPodState s p)
    rcases setPodState_spec s p with hs | ⟨old, hs⟩
    · rw [hs]; exact h
    · have hk : KubeletOK old p := by
        obtain ⟨o, ho, hk⟩ := (optSat_iff _ _).mp hal
        rw [hs.found] at ho; cases ho; exact hk
      exact h.podSet hs ((h.pods.pods old (findPod_some hs.found).1).kubelet hk)
  | podGone n =>
    show Inv2 j0 (removePod s n)
    rcases removePod_spec s n with hs | ⟨p, _, hs⟩
    · rw [hs]; exact h
    · exact h.podDel hs
  | externalDelete n =>
    show Inv2 j0 (removePod s n)
    rcases removePod_spec s n with hs | ⟨p, _, hs⟩
    · rw [hs]; exact h
    · exact h.podDel hs
  | kill t =>
    show Inv2 j0 (mutateJobObj s _)
    rcases mutateJobObj_spec s (fun j => { j with job := { j.job with killTimestamp := some t } }) with hs | ⟨c, hc, hs⟩
    · rw [hs.2]; exact h
    · exact h.jobWrite hs ((h.job c hc).of_status_eq rfl)
  | userDelete =>
    show Inv2 j0 (userDeleteJob s)
    rcases userDeleteJob_spec s with hs | ⟨c, hc, _, _, hs⟩ | ⟨c, _, _, hs⟩
    · rw [hs]; exact h
    · exact h.jobWrite hs ((h.job c hc).of_status_eq rfl)
    · exact h.jobGone hs
  | createForeign p =>
    -- a pod that is not controlled by the Job is unconstrained
    show Inv2 j0 (createForeignPod s p)
    rcases createForeignPod_spec s p with hs | hs
    · rw [hs]; exact h
    · exact h.podAdd hs (fun ho => absurd ho hal)

/-- `Inv2` holds in every reachable state (all actions allowed) -/
theorem inv2_of_reach {ok : Sys → Action → Prop} {j0 : JobObj} {s : Sys}
    (hr : Reach ok j0 s) (hwf : WF2 j0 s.d) : Inv2 j0 s := by
  induction hr with
  | init c cfg d hw => exact Inv2.init hw c cfg d
  | step a hr' hoka hal ih =>
    rw [step_d] at hwf
    exact (ih hwf).step (base_of_reach hr') hwf a hal

theorem steps_d {ok : Sys → Action → Prop} {j0 : JobObj} {s s' : Sys} (hs : Steps ok j0 s s') : s'.d = s.d := by
  induction hs with
  | refl => rfl
  | step a _ _ _ ih => rw [step_d]; exact ih

/-- what `sync` computes from the cached Job in a reachable state -/
theorem sync_good_of_reach {ok : Sys → Action → Prop} {j0 : JobObj} {s : Sys}
    (hr : Reach ok j0 s) (hwf : WF2 j0 s.d) (jo : JobObj) (sp : Sys) (hc : s.jobCache = some jo) (hf : Frame s sp) :
    Good j0 s.d jo.job ∧ GK j0 s.d jo.job (sync sp jo).2.1 := by
  have hi := (inv2_of_reach hr hwf).frame hf
  have hcsp : sp.jobCache = some jo := hf.jobCache.trans hc
  have hjo := ((base_of_reach hr).seenOK jo (mem_seenVers_cache hc)).1
  have hg := hi.seen jo (mem_seenVers_cache hcsp)
  have := sync_good sp jo (hf.d ▸ hwf) hi.pods hjo hg
  rw [hf.d] at this hg
  exact ⟨hg, this⟩

end Furiko.JobCtl
