/-
Liveness of the job controller, kill part 2: graceful pod deletes that succeed.  `markDts c N` gives
the pods named in `N` that are not being deleted yet the deletion timestamp `c`; a graceful
`apiDeletePod` without a pending fault marks exactly the pod it names (`apiDeletePod_graceful`), and
`deleteTasks` marks the pods of all its tasks (`deleteTasks_graceful`); caches stay in sync with the
server (`PSync`), no fault appears.  Core Lean only.
-/
import FurikoModel.Proofs.JobCtlLiveK1

set_option linter.unusedSimpArgs false
set_option linter.unusedVariables false

namespace Furiko.JobCtl.Live
open Furiko Furiko.JobCtl Furiko.WQ Furiko.StatusLemmas Furiko.JobCtlPlan

/-- the pod gets the deletion timestamp `c` if it is named in `N` and carries none yet -/
def markDts (c : Time) (N : List String) (p : PodObj) : PodObj :=
  if p.pod.name ∈ N ∧ p.pod.deletionTimestamp = none then { p with pod := { p.pod with deletionTimestamp := some c } } else p

theorem markDts_name (c : Time) (N : List String) (p : PodObj) : (markDts c N p).pod.name = p.pod.name := by
  unfold markDts; split <;> rfl

theorem markDts_nil (c : Time) (p : PodObj) : markDts c [] p = p := by
  unfold markDts; simp

theorem markDts_markDts (c : Time) (A B : List String) (p : PodObj) :
    markDts c B (markDts c A p) = markDts c (A ++ B) p := by
  unfold markDts
  by_cases hA : p.pod.name ∈ A
  · by_cases hd : p.pod.deletionTimestamp = none
    · simp [hA, hd]
    · simp [hA, hd]
  · by_cases hB : p.pod.name ∈ B
    · by_cases hd : p.pod.deletionTimestamp = none
      · simp [hA, hB, hd]
      · simp [hA, hB, hd]
    · simp [hA, hB]

theorem markDts_congr (c : Time) {A B : List String} (h : ∀ n, n ∈ A ↔ n ∈ B) (p : PodObj) : markDts c A p = markDts c B p := by
  unfold markDts; simp only [h p.pod.name]

theorem podNames_markDts (c : Time) (N : List String) (l : List PodObj) : podNames (l.map (markDts c N)) = podNames l := by
  unfold podNames
  rw [List.map_map]
  apply List.map_congr_left
  intro p _
  exact markDts_name c N p

/-- the effect of successful graceful deletes on the state: the pods named in `N` are marked, the caches
stay in sync, no fault appears, nothing else on the server changes -/
structure Marked (s s' : Sys) (N : List String) : Prop where
  pods : s'.pods = s.pods.map (markDts (nowT s) N)
  clock : s'.clock = s.clock
  d : s'.d = s.d
  cfg : s'.cfg = s.cfg
  job : s'.job = s.job
  jobEvs : s'.jobEvs = s.jobEvs
  jobCache : s'.jobCache = s.jobCache
  podCache : s'.podCache = s.podCache
  q : s'.q = s.q
  psync : PSync s → PSync s'
  nofault : NoFault s'
  evs : ∀ e ∈ s'.podEvs, e ∈ s.podEvs ∨
    ∃ p0 ∈ s.pods, ∃ p, e = PEv.upsert p ∧ p.ownerUid = p0.ownerUid ∧ p.ownerName = p0.ownerName

theorem markDts_owner (c : Time) (N : List String) (p : PodObj) :
    (markDts c N p).ownerUid = p.ownerUid ∧ (markDts c N p).ownerName = p.ownerName := by
  unfold markDts; split <;> exact ⟨rfl, rfl⟩

theorem Marked.refl (s : Sys) (h : NoFault s) : Marked s s [] :=
  ⟨by
    conv => lhs; rw [← List.map_id s.pods]
    apply List.map_congr_left
    intro p _
    exact (markDts_nil _ p).symm, rfl, rfl, rfl, rfl, rfl, rfl, rfl, rfl, id, h, fun e he => Or.inl he⟩

theorem Marked.trans {a b c : Sys} {A B : List String} (h1 : Marked a b A) (h2 : Marked b c B) : Marked a c (A ++ B) := by
  have hn : nowT b = nowT a := by unfold nowT nowSec; rw [h1.clock]
  refine ⟨?_, h2.clock.trans h1.clock, h2.d.trans h1.d, h2.cfg.trans h1.cfg, h2.job.trans h1.job,
    h2.jobEvs.trans h1.jobEvs, h2.jobCache.trans h1.jobCache, h2.podCache.trans h1.podCache, h2.q.trans h1.q,
    fun h => h2.psync (h1.psync h), h2.nofault, ?_⟩
  · rw [h2.pods, h1.pods, hn, List.map_map]
    apply List.map_congr_left
    intro p _
    exact markDts_markDts _ A B p
  · intro e he
    rcases h2.evs e he with h | ⟨p0, hp0, p, e1, e2, e3⟩
    · exact h1.evs e h
    · rw [h1.pods] at hp0
      obtain ⟨x, hx, rfl⟩ := List.mem_map.mp hp0
      obtain ⟨o1, o2⟩ := markDts_owner (nowT a) A x
      exact Or.inr ⟨x, hx, p, e1, e2.trans o1, e3.trans o2⟩

/-- one graceful pod delete with no fault pending -/
theorem apiDeletePod_graceful (s : Sys) (n : String) (hnf : NoFault s) (hnd : (podNames s.pods).Nodup) :
    (apiDeletePod s n false).2 = true ∧ Marked s (apiDeletePod s n false).1 [n] := by
  obtain ⟨f, fs, dr, he, hf⟩ := JobCtlPlan.apiDeletePod_eq s n false
  obtain ⟨hf1, hf2, hf3⟩ := hf hnf
  subst hf1
  subst hf2
  rw [he]
  unfold JobCtlPlan.delBody
  have hfail : isFailFault "" = false := by decide
  simp only [hfail, Bool.false_eq_true, ↓reduceIte]
  have hnf' : NoFault ({ s with faults := [], delRun := dr } : Sys) := ⟨rfl, hf3⟩
  have hid : ∀ (l : List PodObj), (∀ p ∈ l, p.pod.name = n → p.pod.deletionTimestamp ≠ none) →
      l = l.map (markDts (nowT s) [n]) := by
    intro l hl
    conv => lhs; rw [← List.map_id l]
    apply List.map_congr_left
    intro p hp
    unfold markDts
    by_cases hpn : p.pod.name = n
    · have := hl p hp hpn
      simp [hpn, this]
    · simp [hpn]
  cases hp : findPod s.pods n with
  | none =>
    simp only [log]
    refine ⟨trivial, ⟨?_, rfl, rfl, rfl, rfl, rfl, rfl, rfl, rfl, id, ⟨rfl, hf3⟩, fun e he => Or.inl he⟩⟩
    exact hid s.pods (fun p hp' hpn => absurd hpn (findPod_none hp p hp'))
  | some p =>
    have hpm := JobCtlPlan.findPod_some hp
    simp only [log, Bool.false_eq_true, ↓reduceIte]
    by_cases hdts : p.pod.deletionTimestamp.isSome = true
    · simp only [hdts, ↓reduceIte]
      refine ⟨by simp, ⟨?_, rfl, rfl, rfl, rfl, rfl, rfl, rfl, rfl, id, ⟨rfl, hf3⟩, fun e he => Or.inl he⟩⟩
      apply hid
      intro p' hp' hpn
      have : p' = p := by
        have h1 := findPod_of_mem_nodup hnd hp'
        rw [hpn, hp] at h1
        exact (Option.some.inj h1).symm
      rw [this]
      intro e; rw [e] at hdts; cases hdts
    · simp only [hdts, Bool.false_eq_true, ↓reduceIte]
      have hnone : p.pod.deletionTimestamp = none := by
        cases hx : p.pod.deletionTimestamp with
        | none => rfl
        | some _ => rw [hx] at hdts; simp at hdts
      refine ⟨by simp, ⟨?_, rfl, rfl, rfl, rfl, rfl, rfl, rfl, rfl, ?_, ⟨rfl, hf3⟩, ?_⟩⟩
      rotate_left 2
      · intro e he
        have he' : e ∈ s.podEvs ++ [PEv.upsert { p with pod := { p.pod with deletionTimestamp := some (secs (nowSec s)) } }] := he
        rcases List.mem_append.mp he' with h | h
        · exact Or.inl h
        · simp only [List.mem_singleton] at h
          exact Or.inr ⟨p, hpm.1, _, h, rfl, rfl⟩
      · show setPod s.pods _ = _
        unfold setPod
        have hany : s.pods.any (·.pod.name = p.pod.name) = true :=
          List.any_eq_true.mpr ⟨p, hpm.1, by simp⟩
        simp only [hany, ↓reduceIte]
        apply List.map_congr_left
        intro x hx
        unfold markDts
        by_cases hxn : x.pod.name = n
        · have : x = p := by
            have h1 := findPod_of_mem_nodup hnd hx
            rw [hxn, hp] at h1
            exact (Option.some.inj h1).symm
          subst this
          simp [hpm.2, hnone, nowT, nowSec]
        · have : ¬ x.pod.name = p.pod.name := by rw [hpm.2]; exact hxn
          simp [hxn, this]
      · intro hps
        unfold PSync at *
        show (s.podEvs ++ [PEv.upsert _]).foldl applyPEv s.podCache = setPod s.pods _
        rw [List.foldl_append, hps]
        rfl

/-- a fold of graceful deletes over a list of names -/
theorem delFold_graceful : ∀ (names : List String) (s : Sys) (b : Bool), NoFault s → (podNames s.pods).Nodup →
    (names.foldl (fun (acc : Sys × Bool) n => ((apiDeletePod acc.1 n false).1, acc.2 && (apiDeletePod acc.1 n false).2)) (s, b)).2 = b ∧
    Marked s (names.foldl (fun (acc : Sys × Bool) n => ((apiDeletePod acc.1 n false).1, acc.2 && (apiDeletePod acc.1 n false).2)) (s, b)).1 names
  | [], s, b, hnf, _ => ⟨rfl, Marked.refl s hnf⟩
  | n :: rest, s, b, hnf, hnd => by
    obtain ⟨hok, hm⟩ := apiDeletePod_graceful s n hnf hnd
    have hnd1 : (podNames (apiDeletePod s n false).1.pods).Nodup := by rw [hm.pods, podNames_markDts]; exact hnd
    obtain ⟨h1, h2⟩ := delFold_graceful rest (apiDeletePod s n false).1 (b && (apiDeletePod s n false).2) hm.nofault hnd1
    simp only [List.foldl_cons]
    refine ⟨by rw [h1, hok]; simp, ?_⟩
    exact hm.trans h2

/-- **`deleteTasks` (graceful) with no fault pending**, for tasks that are not being deleted yet: the pods of
all of them get the deletion timestamp -/
theorem deleteTasks_graceful (s : Sys) (tasks : List Task) (hnf : NoFault s) (hnd : (podNames s.pods).Nodup)
    (hdts : ∀ t ∈ tasks, t.deletionTimestamp = none) :
    (deleteTasks s tasks false).2 = true ∧ ∃ N, Marked s (deleteTasks s tasks false).1 N ∧ ∀ n, n ∈ N ↔ n ∈ tasks.map (·.name) := by
  unfold deleteTasks
  simp only
  rw [List.filter_eq_self.mpr (fun t ht => by simp [hdts t ht])]
  obtain ⟨h1, h2⟩ := delFold_graceful (List.foldl (fun acc n => deleteTasks.ins n acc) [] (tasks.map (·.name))) s true hnf hnd
  refine ⟨h1, _, h2, ?_⟩
  intro n
  rw [JobCtlPlan.mem_foldl_ins]
  simp

end Furiko.JobCtl.Live
