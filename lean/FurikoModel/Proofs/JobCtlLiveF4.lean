/-
Liveness of the job controller, force-delete part 4: one `work` step on a killed Job whose unfinished pods
are all being deleted and past the force-delete timeout (`work_force`): they are removed from the server;
the invariant after a pass and the deliveries (`kstate_after`); a pending delete event of a pod of the Job
makes the key ready (`deliverAll_ready_pod_delete`); time passing keeps the invariant (`adv_stage`).
Core Lean only.
-/
import FurikoModel.Proofs.JobCtlLiveF3
import FurikoModel.Proofs.JobCtlLiveD3

set_option linter.unusedSimpArgs false
set_option linter.unusedVariables false

namespace Furiko.JobCtl.Live
open Furiko Furiko.JobCtl Furiko.WQ Furiko.StatusLemmas Furiko.JobCtlPlan Furiko.Conv

/-- **one `work` step on a killed Job whose unfinished pods are all being deleted, past the force-delete
timeout** -/
theorem work_force {jo : JobObj} {kt : Time} {F0 : Int} {s : Sys} (h : KState jo kt F0 s)
    (hF : 0 < getForceDeleteTimeout s.cfg)
    (hforb : (jo.job.template.map (·.forbidTaskForceDeletion)).getD false = false)
    (hpods : ∀ p ∈ s.pods, (p.pod.isFinished = true ∧ p.pod.deletionTimestamp = none) ∨
      (p.pod.isFinished = false ∧ ∃ D, p.pod.deletionTimestamp = some D ∧ D + getForceDeleteTimeout s.cfg ≤ s.clock))
    (k : String) (rest : List String) (hq : (s.q.advance s.clock).queue = k :: rest) :
    ∃ jo' M, (work s).1.job = some jo' ∧ jo'.name = jo.name ∧ jo'.uid = jo.uid ∧ KillSpec jo'.job kt ∧
      jo'.job.ttlSecondsAfterFinished = jo.job.ttlSecondsAfterFinished ∧ jo'.job.template = jo.job.template ∧
      (∀ r ∈ jo'.job.status.tasks, ∀ f, r.finishTimestamp = some f → F0 ≤ f) ∧
      JSync (work s).1 ∧ PSync (work s).1 ∧ (work s).1.podCache = s.pods ∧ (work s).1.pods = s.pods.filter (keepPod M) ∧
      (∀ n, n ∈ M ↔ ∃ p ∈ s.pods, p.pod.name = n ∧ p.pod.isFinished = false) ∧
      (work s).1.clock = s.clock ∧ (work s).1.d = s.d ∧ (work s).1.cfg = s.cfg ∧ (work s).1.faults = [] ∧
      Retry.WF (work s).1.q ∧
      (∀ e ∈ (work s).1.podEvs, ∃ p0 ∈ s.pods, e = PEv.delete p0) ∧
      ((∀ p ∈ s.pods, p.pod.isFinished = true) →
        ∃ f, jo'.job.status.condition.finished = some f ∧ f.result = .killed) := by
  obtain ⟨e_pods, e_pc, e_clock, e_d, e_cfg, e_job, e_jc, e_jev, e_pev, e_q, hnf⟩ :=
    passStart_facts h.fresh (popQ (s.q.advance s.clock) k rest)
  have hsync_to : ∀ s' rjF, sync (passStart s (popQ (s.q.advance s.clock) k rest)) jo = (s', rjF, jo.finalizer, true, false) →
      rjF.admissionError = jo.job.admissionError → Frame (passStart s (popQ (s.q.advance s.clock) k rest)) s' → _ :=
    fun s' rjF => work_tail h.fresh h.wf k rest hq s' rjF
  generalize hspdef : passStart s (popQ (s.q.advance s.clock) k rest) = sp at *
  have hsp_cache : sp.podCache = sp.pods := by rw [e_pc, e_pods]
  have hsp_pods : KPods jo sp := ⟨by rw [e_pods]; exact h.pods.owned, by rw [e_pods]; exact h.pods.sane, by rw [e_pods]; exact h.pods.nodup⟩
  have hle : kt ≤ sp.clock := by rw [e_clock]; exact h.passed
  have hT : ∀ t ∈ killTasks sp jo, (isTaskFinished t = true ∧ t.deletionTimestamp = none) ∨
      (isTaskFinished t = false ∧ ∃ D, t.deletionTimestamp = some D ∧ D + getForceDeleteTimeout sp.cfg ≤ sp.clock) := by
    intro t ht
    obtain ⟨p, hp, _, _, hd, hfin⟩ := killTasks_facts hsp_cache hsp_pods ht
    rw [hfin, hd, e_cfg, e_clock]
    exact hpods p (by rw [← e_pods]; exact hp)
  have hTlb : ∀ t ∈ killTasks sp jo, ∀ f, t.ref.finishTimestamp = some f → F0 ≤ f := by
    intro t ht f hf
    obtain ⟨p, hp, hpt, _⟩ := killTasks_facts hsp_cache hsp_pods ht
    exact podTask_finish_lb hpt (Int.le_trans h.lbKill hle)
      (h.lbPods p (by rw [← e_pods]; exact hp)) f hf
  have hclk0 : F0 ≤ sp.clock := Int.le_trans h.lbKill hle
  obtain ⟨s6, rj5, M, h6, hfr6, hpods6, hevs6, hM, hk5, hs5, hlb5⟩ :=
    syncJobTasks_force sp jo kt h.spec hle hnf (by rw [e_cfg]; exact hF) hforb hT (killTasks_fn hsp_cache hsp_pods)
  have hrj5lb := hlb5 F0 h.lbRefs hTlb hclk0
  obtain ⟨s', hsync, hto⟩ := sync_tail sp s6 jo kt rj5 (killTasks sp jo) h.spec hle h6 hk5 hs5 hfr6.clock hfr6.d hfr6.cfg (by
    intro fin hfin
    have hlb := recompute_fin_lb F0 sp.clock sp.d rj5 (killTasks sp jo) kt hk5 hle h.lbKill hrj5lb hTlb fin hfin
    rw [e_clock, e_cfg]
    exact Int.lt_of_lt_of_le h.ttl (Int.add_le_add_right hlb _))
  have hrc := recompute_sameSpec sp.clock sp.d rj5 (killTasks sp jo)
  have hsF : SameSpec jo.job (recompute sp.clock sp.d rj5 (killTasks sp jo)) := hs5.trans hrc.1
  have hF' : KillSpec (recompute sp.clock sp.d rj5 (killTasks sp jo)) kt := hk5.recompute _ _ _
  have hst := hto.static
  obtain ⟨jo', w1, w2, w3, w4, w5, w6, w7, w8, w9, w10, w11, w12, w13, w14, w15⟩ :=
    hsync_to s' _ hsync hsF.admissionError (hfr6.trans (Frame.of_timers hto))
  have hMp : ∀ n, n ∈ M ↔ ∃ p ∈ s.pods, p.pod.name = n ∧ p.pod.isFinished = false := by
    intro n
    rw [hM]
    constructor
    · rintro ⟨t, ht, hn, hf⟩
      obtain ⟨p, hp, _, hname, _, hfin⟩ := killTasks_facts hsp_cache hsp_pods ht
      exact ⟨p, by rw [← e_pods]; exact hp, by rw [← hname]; exact hn, by rw [← hfin]; exact hf⟩
    · rintro ⟨p, hp, hn, hf⟩
      obtain ⟨t, ht, hpt⟩ := killTasks_cover hsp_cache hsp_pods (p := p) (by rw [e_pods]; exact hp)
      have hfld := podTask_fields hpt
      refine ⟨t, ht, by rw [hfld.1]; exact hn, ?_⟩
      unfold isTaskFinished
      rw [hfld.2.2.2.2.2.2.2 hf]; rfl
  refine ⟨jo', M, w1, w2, w3, ?_, by rw [w5], by rw [w5], ?_, w6, w7, w8, by rw [w9, hst.2.2.2.1, hpods6, e_pods], hMp,
    w11, w12, w13, w14, w15, ?_, ?_⟩
  · rw [w5]; exact ⟨h.spec.tmpl, h.spec.kill, h.spec.adm, h.spec.del, hF'.started⟩
  · rw [w5]
    show ∀ r ∈ (recompute sp.clock sp.d rj5 (killTasks sp jo)).status.tasks, _
    rw [hrc.2.1]
    exact gen_lb F0 sp.clock _ _ hrj5lb hTlb hclk0
  · intro e he
    rw [w10, hst.2.2.2.2.2.2.2.2.1] at he
    rcases hevs6 e he with h0 | ⟨p0, hp0, e1⟩
    · rw [e_pev] at h0; cases h0
    · exact ⟨p0, by rw [← e_pods]; exact hp0, e1⟩
  · intro hall
    have hTfin : ∀ t ∈ killTasks sp jo, t.ref.finishTimestamp.isSome = true := by
      intro t ht
      obtain ⟨p, hp, _, _, _, hfin⟩ := killTasks_facts hsp_cache hsp_pods ht
      have := hall p (by rw [← e_pods]; exact hp)
      rw [← hfin] at this
      exact this
    obtain ⟨f, hf1, hf2, _⟩ := recompute_killed sp.clock sp.d rj5 (killTasks sp jo) kt hk5 hle
      (gen_allFin sp.clock rj5.status.tasks (killTasks sp jo) hTfin)
    exact ⟨f, by rw [w5]; exact hf1, hf2⟩

/-- **the invariant after a pass and the deliveries**, from the facts a kill-mode `work` step leaves -/
theorem kstate_after {jo jo' : JobObj} {kt : Time} {F0 : Int} {s w : Sys} (h : KState jo kt F0 s)
    (hj : w.job = some jo') (hname : jo'.name = jo.name) (huid : jo'.uid = jo.uid) (hspec' : KillSpec jo'.job kt)
    (httl' : jo'.job.ttlSecondsAfterFinished = jo.job.ttlSecondsAfterFinished)
    (hlb' : ∀ r ∈ jo'.job.status.tasks, ∀ f, r.finishTimestamp = some f → F0 ≤ f)
    (hjs : JSync w) (hps : PSync w) (hclk : w.clock = s.clock) (hcfg : w.cfg = s.cfg) (hflt : w.faults = [])
    (hwf : Retry.WF w.q)
    (hpodsw : ∀ p' ∈ w.pods, ∃ p ∈ s.pods, p'.ownerUid = p.ownerUid ∧ p'.ownerName = p.ownerName ∧
      p'.jobLabel = p.jobLabel ∧ p'.pod.finishTimestamp = p.pod.finishTimestamp ∧
      p'.pod.creationTimestamp = p.pod.creationTimestamp ∧ (NoPanic p → NoPanic p'))
    (hnd : (podNames w.pods).Nodup) :
    KState jo' kt F0 (deliverAll w) ∧ (deliverAll w).pods = w.pods ∧ (deliverAll w).clock = s.clock ∧
    (deliverAll w).cfg = s.cfg ∧ QGrow w.q (deliverAll w).q := by
  obtain ⟨d1, d2, d3, d4, d5, d6⟩ := deliverAll_spec w hps hjs
  refine ⟨⟨?_, hspec', by rw [d5.clock, hclk]; exact h.passed, ?_, d6.wf hwf, h.lbKill, hlb', ?_, ?_⟩, d5.pods,
    by rw [d5.clock, hclk], by rw [d5.cfg, hcfg], d6⟩
  · exact ⟨by rw [d3, hj], by rw [d5.job, hj], by rw [d4, d5.pods], d1, d2, by rw [d5.faults]; exact hflt⟩
  · refine ⟨?_, ?_, by rw [d5.pods]; exact hnd⟩
    · intro p hp
      rw [d5.pods] at hp
      obtain ⟨p0, hp0, f1, f2, f3, _⟩ := hpodsw p hp
      rw [f1, f2, f3, huid, hname]; exact h.pods.owned p0 hp0
    · intro p hp
      rw [d5.pods] at hp
      obtain ⟨p0, hp0, _, _, _, _, f5, f6⟩ := hpodsw p hp
      exact ⟨f6 (h.pods.sane p0 hp0).1, by rw [f5]; exact (h.pods.sane p0 hp0).2⟩
  · intro p hp f hf
    rw [d5.pods] at hp
    obtain ⟨p0, hp0, _, _, _, f4, _⟩ := hpodsw p hp
    rw [f4] at hf
    exact h.lbPods p0 hp0 f hf
  · rw [d5.clock, hclk, d5.cfg, hcfg]
    have : getTTLAfterFinished jo'.job s.cfg = getTTLAfterFinished jo.job s.cfg := by
      unfold getTTLAfterFinished; rw [httl']
    rw [this]; exact h.ttl

/-- a pending delete event of a pod of the Job that is in the pod cache makes the key ready -/
theorem deliverAll_ready_pod_delete (s : Sys) (jo : JobObj) (p : PodObj) (rest : List PEv) (he : s.podEvs = .delete p :: rest)
    (hjs : JSync s) (hj : s.job = some jo) (hc : findPod s.podCache p.pod.name = some p)
    (hu : p.ownerUid = some jo.uid) (hn : p.ownerName = some jo.name)
    (hwf : Retry.WF s.q) : (deliverAll s).q.queue ≠ [] := by
  unfold deliverAll
  obtain ⟨a1, a2, a3, a4, a5, a6⟩ := iter_deliverJob s.jobEvs.length s rfl
  have hjc : (iter .deliverJob s.jobEvs.length s).jobCache = some jo := by
    have := a6 hjs
    unfold JSync at this
    rw [a1, a2.job, hj] at this
    exact this
  rw [he]
  show (iter .deliverPod rest.length (step (iter .deliverJob s.jobEvs.length s) .deliverPod)).q.queue ≠ []
  have hev : (iter .deliverJob s.jobEvs.length s).podEvs = .delete p :: rest := by rw [a5, he]
  have hwf1 : Retry.WF (iter .deliverJob s.jobEvs.length s).q := a3.wf hwf
  have h1 : jobKey jo ∈ (step (iter .deliverJob s.jobEvs.length s) .deliverPod).q.queue := by
    show jobKey jo ∈ (deliverPod (iter .deliverJob s.jobEvs.length s)).q.queue
    rw [deliverPod_delete_some _ p p rest hev (by rw [a4]; exact hc)]
    unfold podNotify
    simp only [hu, hn, hjc, and_self, decide_true, Bool.and_self, ↓reduceIte]
    exact Retry.mem_queue_add_self hwf1 _
  have hlen : (step (iter .deliverJob s.jobEvs.length s) .deliverPod).podEvs.length = rest.length := by
    show (deliverPod (iter .deliverJob s.jobEvs.length s)).podEvs.length = _
    rw [(deliverPod_srv _).2.2.2, hev]
    rfl
  obtain ⟨_, _, b3, _, _, _⟩ := iter_deliverPod rest.length _ hlen
  have := b3.mono _ h1
  intro hnil
  rw [hnil] at this
  cases this

/-- time passes: the invariant is kept as long as the TTL has not elapsed -/
theorem adv_stage {jo : JobObj} {kt : Time} {F0 : Int} {s : Sys} (h : KState jo kt F0 s) (adv : Nat)
    (httl : s.clock + adv < F0 + getTTLAfterFinished jo.job s.cfg) :
    KState jo kt F0 (step s (.advance adv)) :=
  ⟨⟨h.fresh.jobCache, h.fresh.job, h.fresh.podCache, h.fresh.jobEvs, h.fresh.podEvs, h.fresh.faults⟩, h.spec,
   Int.le_trans h.passed (by show s.clock ≤ s.clock + (adv : Int); omega), ⟨h.pods.owned, h.pods.sane, h.pods.nodup⟩, h.wf,
   h.lbKill, h.lbRefs, h.lbPods, httl⟩

end Furiko.JobCtl.Live
