/-
Liveness of the job controller, part 36: what the statements of `Props/C20Live.lean` are phrased with — the
oracle's verdict (`OracleVerdict`), the final states (`Final`) and `final_of`: a `Done` state that agrees with
the oracle is `Final` — and the example Job's spec facts.  Core Lean only.
-/
import FurikoModel.Proofs.JobCtlLive35
import FurikoModel.Proofs.JobCtlInvExamples

set_option linter.unusedVariables false
set_option linter.unusedSimpArgs false

namespace Furiko.JobCtl.Live
open Furiko Furiko.JobCtl

theorem fair_in_faultEnv : ∀ s a, fairEnv s a → faultEnv s a := fun _ a h => by cases a <;> first | exact h | trivial

/-- the verdict of the oracle on a Job named `name` with default-index hash `h` and `n` attempts, read off the
number `m` of recorded refs and the finished condition `f`: `Success` with the last recorded attempt the
first one the oracle lets succeed, or `Failed` with `n` attempts the oracle fails -/
def OracleVerdict (orc : String → Outcome) (name h : String) (n : Int) (m : Nat) (f : CondFinished) : Prop :=
  (f.result = .success ∧ 1 ≤ m ∧ orc (taskName name h ((m - 1 : Nat) : Int)) = .succeed ∧
    ∀ i : Nat, i + 1 < m → orc (taskName name h (i : Int)) = .fail) ∨
  (f.result = .failed ∧ (m : Int) = n ∧ ∀ i : Nat, i < m → orc (taskName name h (i : Int)) = .fail)

/-- what a final state looks like -/
structure Final (orc : String → Outcome) (j0 : JobObj) (s : Sys) : Prop where
  verdict : ∃ jo f, s.job = some jo ∧ jo.name = j0.name ∧ jo.job.status.condition.finished = some f ∧
    OracleVerdict orc j0.name s.d.hash j0.job.maxAttempts jo.job.status.tasks.length f ∧
    (∀ r ∈ jo.job.status.tasks, r.finishTimestamp.isSome = true)
  podsDone : ∀ p ∈ s.pods, p.pod.isFinished = true
  fresh : s.jobEvs = [] ∧ s.podEvs = [] ∧ s.jobCache = s.job ∧ s.podCache = s.pods ∧ s.faults = []

theorem final_of {ok : Sys → Action → Prop} {j0 jo : JobObj} {F0 : Int} {s : Sys} (orc : String → Outcome)
    (h : Canon ok j0 jo F0 s) (hd : Done jo s) (ht : Truth orc jo s) (hn : jo.name = j0.name) : Final orc j0 s := by
  obtain ⟨f, hf, hv⟩ := verdict orc h hd ht
  have hmax : jo.job.maxAttempts = j0.job.maxAttempts := maxAttempts_of_template h.ver.template
  refine ⟨⟨jo, f, h.fresh.job, hn, hf, ?_, hd.allFin⟩, hd.podsFin, h.fresh.jobEvs, h.fresh.podEvs,
    by rw [h.fresh.jobCache, h.fresh.job], h.fresh.podCache, h.fresh.faults⟩
  unfold OracleVerdict
  rw [← hn, ← hmax]
  exact hv

/-- the example Job of `JobCtlInvExamples` is a simple Job -/
theorem ex_spec : SimpleSpec Ex.job.job := ⟨⟨{ maxAttempts := some 2 }, rfl, rfl⟩, rfl, rfl, rfl, rfl⟩

/-- the example Job with the delete-dependents finalizer -/
def exJobF : JobObj := { Ex.job with finalizer := true }

theorem ex_specF : SimpleSpec exJobF.job := ⟨⟨{ maxAttempts := some 2 }, rfl, rfl⟩, rfl, rfl, rfl, rfl⟩
theorem ex_wfF : WF exJobF := ⟨rfl, rfl, rfl⟩

end Furiko.JobCtl.Live
