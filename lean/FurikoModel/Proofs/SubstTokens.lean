/-
Token view of templates and the lemmas that connect it to the string-level model of
`Model/Subst.lean`.  A *tame* template is `render T` for a token list `T` whose literal characters
are not `$` and whose variable names contain none of `$ { }`: every `$` of the string starts a
well-formed `${name}` reference.  On tame templates, with keys free of `$ { }` and values free of
`$`, the sequential `strings.ReplaceAll` fold equals a simultaneous token substitution.
-/
import FurikoModel.Model.Subst

namespace Furiko.SubstTokens
open Furiko.Options Furiko.Subst

inductive Tok where
  | lit (c : Char)
  | var (n : Str)
deriving DecidableEq, Repr

def Tok.render : Tok → Str
  | .lit c => [c]
  | .var n => mkPattern n

def render (T : List Tok) : Str := T.flatMap Tok.render

/-- no `$`, `{`, `}` -/
def cleanName (n : Str) : Bool := n.all fun c => c != '$' && c != '{' && c != '}'
def dollarFree (s : Str) : Bool := s.all fun c => c != '$'

def Tok.wf : Tok → Bool
  | .lit c => c != '$'
  | .var n => cleanName n

def wfToks (T : List Tok) : Bool := T.all Tok.wf

def lits (s : Str) : List Tok := s.map Tok.lit

@[simp] theorem render_nil : render [] = [] := rfl
@[simp] theorem render_cons (t : Tok) (T : List Tok) : render (t :: T) = t.render ++ render T := by
  simp [render]
@[simp] theorem render_append (A B : List Tok) : render (A ++ B) = render A ++ render B := by
  simp [render]
@[simp] theorem render_lits (s : Str) : render (lits s) = s := by
  induction s with
  | nil => rfl
  | cons c cs ih => simp [lits, Tok.render] at *; exact ih

theorem wfToks_append (A B : List Tok) : wfToks (A ++ B) = (wfToks A && wfToks B) := by
  simp [wfToks]

theorem wfToks_lits (s : Str) (h : dollarFree s = true) : wfToks (lits s) = true := by
  induction s with
  | nil => rfl
  | cons c cs ih =>
    simp [dollarFree, lits, wfToks, Tok.wf] at *
    exact ⟨h.1, fun a ha => by simpa using h.2 a ha⟩

theorem cleanName_cons (c : Char) (cs : Str) :
    cleanName (c :: cs) = true ↔ (c ≠ '$' ∧ c ≠ '{' ∧ c ≠ '}' ∧ cleanName cs = true) := by
  simp [cleanName, and_assoc]

theorem dollarFree_cons (c : Char) (cs : Str) :
    dollarFree (c :: cs) = true ↔ (c ≠ '$' ∧ dollarFree cs = true) := by
  simp [dollarFree]

theorem cleanName_dollarFree {n : Str} (h : cleanName n = true) : dollarFree n = true := by
  induction n with
  | nil => rfl
  | cons c cs ih =>
    rw [cleanName_cons] at h
    rw [dollarFree_cons]
    exact ⟨h.1, ih h.2.2.2⟩

/-! ### `replaceGo` -/

theorem replaceGo_skip (old new : Str) (xs rest : Str) :
    replaceGo old new xs.length (xs ++ rest) = replaceGo old new 0 rest := by
  induction xs with
  | nil => rfl
  | cons x xs ih => simpa [replaceGo] using ih

theorem isPrefixOf_self_append (a b : Str) : a.isPrefixOf (a ++ b) = true := by
  induction a with
  | nil => simp
  | cons x xs ih => simp [ih]

/-- an occurrence at the head is replaced and the scan continues behind it -/
theorem replaceGo_match (o : Char) (os new rest : Str) :
    replaceGo (o :: os) new 0 ((o :: os) ++ rest) = new ++ replaceGo (o :: os) new 0 rest := by
  have h : (o :: os).isPrefixOf (o :: (os ++ rest)) = true := isPrefixOf_self_append (o :: os) rest
  show replaceGo (o :: os) new 0 (o :: (os ++ rest)) = _
  rw [replaceGo, if_pos h]
  simp only [List.length_cons, Nat.add_sub_cancel]
  rw [replaceGo_skip]

/-- text without `$` in front of the scan position is copied when the pattern starts with `$` -/
theorem replaceGo_nodollar (q new pre rest : Str) (h : dollarFree pre = true) :
    replaceGo ('$' :: q) new 0 (pre ++ rest) = pre ++ replaceGo ('$' :: q) new 0 rest := by
  induction pre with
  | nil => rfl
  | cons c cs ih =>
    rw [dollarFree_cons] at h
    have hc : ('$' == c) = false := by
      simp; intro e; exact h.1 e.symm
    show replaceGo ('$' :: q) new 0 (c :: (cs ++ rest)) = _
    rw [replaceGo]
    simp only [List.isPrefixOf, hc, Bool.false_and]
    simp
    exact ih h.2

/-- `k}` is a prefix of `k'}…` only if `k = k'`, for names without `}` -/
theorem clean_prefix_eq (k k' rest : Str) (hk : cleanName k = true) (hk' : cleanName k' = true)
    (h : (k ++ ['}']).isPrefixOf (k' ++ '}' :: rest) = true) : k = k' := by
  induction k generalizing k' with
  | nil =>
    cases k' with
    | nil => rfl
    | cons c cs =>
      rw [cleanName_cons] at hk'
      simp [List.isPrefixOf] at h
      exact absurd h.symm hk'.2.2.1
  | cons a as ih =>
    rw [cleanName_cons] at hk
    cases k' with
    | nil =>
      simp [List.isPrefixOf] at h
      exact absurd h.1 hk.2.2.1
    | cons c cs =>
      rw [cleanName_cons] at hk'
      simp [List.isPrefixOf] at h
      rw [h.1, ih cs hk.2.2.2 hk'.2.2.2 (by simpa using h.2)]

/-! ### one `strings.ReplaceAll` on a tame template -/

/-- the effect of one map entry on a token -/
def sigma (k v : Str) : Tok → List Tok
  | .var n => if n = k then lits v else [.var n]
  | t => [t]

theorem dollarFree_append (a b : Str) : dollarFree (a ++ b) = (dollarFree a && dollarFree b) := by
  simp [dollarFree]

theorem replaceGo_render (k v : Str) (hk : cleanName k = true) (T : List Tok) (hT : wfToks T = true) :
    replaceGo (mkPattern k) v 0 (render T) = render (T.flatMap (sigma k v)) := by
  induction T with
  | nil => rfl
  | cons t T ih =>
    have hT' : wfToks T = true := by simp [wfToks] at hT ⊢; exact hT.2
    have ht : t.wf = true := by simp [wfToks] at hT; exact hT.1
    cases t with
    | lit c =>
      have hc : dollarFree [c] = true := by simpa [dollarFree, Tok.wf] using ht
      have := replaceGo_nodollar ('{' :: (k ++ ['}'])) v [c] (render T) hc
      simp only [mkPattern, render_cons, Tok.render, List.flatMap_cons, sigma, render_append] at *
      rw [this, ih hT']
      simp
    | var n =>
      have hn : cleanName n = true := by simpa [Tok.wf] using ht
      by_cases e : n = k
      · subst e
        have := replaceGo_match '$' ('{' :: (n ++ ['}'])) v (render T)
        simp only [mkPattern, render_cons, Tok.render, List.flatMap_cons, sigma, if_pos, render_append,
          render_lits] at *
        rw [this, ih hT']
      · have hpre : (mkPattern k).isPrefixOf ('$' :: '{' :: (n ++ '}' :: render T)) = false := by
          cases hp : (mkPattern k).isPrefixOf ('$' :: '{' :: (n ++ '}' :: render T)) with
          | false => rfl
          | true =>
            simp [mkPattern, List.isPrefixOf] at hp
            exact absurd (clean_prefix_eq k n (render T) hk hn (by simpa using hp)).symm e
        have hdf : dollarFree ('{' :: (n ++ ['}'])) = true := by
          rw [dollarFree_cons, dollarFree_append, cleanName_dollarFree hn]
          simp [dollarFree]
        have h2 := replaceGo_nodollar ('{' :: (k ++ ['}'])) v ('{' :: (n ++ ['}'])) (render T) hdf
        simp only [render_cons, Tok.render, List.flatMap_cons, sigma, if_neg e, render_append]
        have hshape : mkPattern n ++ render T = '$' :: '{' :: (n ++ '}' :: render T) := by
          simp [mkPattern]
        rw [hshape, replaceGo, hpre]
        simp only [mkPattern] at h2 ⊢
        have hs2 : '{' :: (n ++ '}' :: render T) = ('{' :: (n ++ ['}'])) ++ render T := by simp
        have ih' := ih hT'
        simp only [mkPattern] at ih'
        rw [hs2, h2, ih']
        simp

theorem wfToks_sigma (k v : Str) (hv : dollarFree v = true) (T : List Tok) (hT : wfToks T = true) :
    wfToks (T.flatMap (sigma k v)) = true := by
  induction T with
  | nil => rfl
  | cons t T ih =>
    have hT' : wfToks T = true := by simp [wfToks] at hT ⊢; exact hT.2
    have ht : t.wf = true := by simp [wfToks] at hT; exact hT.1
    rw [List.flatMap_cons, wfToks_append, ih hT', Bool.and_true]
    cases t with
    | lit c => simpa [sigma, wfToks] using ht
    | var n =>
      simp only [sigma]
      split
      · exact wfToks_lits v hv
      · simpa [wfToks] using ht

theorem mkPattern_ne_nil (k : Str) : (mkPattern k).isEmpty = false := rfl

theorem replaceAll_render (k v : Str) (hk : cleanName k = true) (T : List Tok) (hT : wfToks T = true) :
    replaceAll (render T) (mkPattern k) v = render (T.flatMap (sigma k v)) := by
  simp only [replaceAll, mkPattern_ne_nil, Bool.false_eq_true, if_false]
  exact replaceGo_render k v hk T hT

/-! ### a whole map, in any order -/

/-- simultaneous substitution of one map on a token -/
def rho (es : List (Str × Str)) : Tok → List Tok
  | .var n =>
    match lookupS n es with
    | some v => lits v
    | none => [.var n]
  | t => [t]

def keysClean (es : List (Str × Str)) : Bool := es.all fun e => cleanName e.1
def valuesDollarFree (es : List (Str × Str)) : Bool := es.all fun e => dollarFree e.2

theorem flatMap_rho_nil (T : List Tok) : T.flatMap (rho []) = T := by
  induction T with
  | nil => rfl
  | cons t T ih => cases t <;> simp [rho, lookupS, ih]

theorem lits_flatMap_rho (es : List (Str × Str)) (v : Str) : (lits v).flatMap (rho es) = lits v := by
  induction v with
  | nil => rfl
  | cons c cs ih => simp [lits, rho] at *; exact ih

theorem flatMap_sigma_rho (k v : Str) (es : List (Str × Str)) (T : List Tok) :
    (T.flatMap (sigma k v)).flatMap (rho es) = T.flatMap (rho ((k, v) :: es)) := by
  induction T with
  | nil => rfl
  | cons t T ih =>
    rw [List.flatMap_cons, List.flatMap_append, ih, List.flatMap_cons]
    congr 1
    cases t with
    | lit c => simp [sigma, rho]
    | var n =>
      by_cases e : n = k
      · subst e; simp [sigma, rho, lookupS, lits_flatMap_rho]
      · have e' : ¬ k = n := fun h => e h.symm
        simp [sigma, rho, lookupS, e, e']

theorem substFold_cons (k v : Str) (es : List (Str × Str)) (t : Str) :
    substFold ((k, v) :: es) t = substFold es (replaceAll t (mkPattern k) v) := by
  simp [substFold]

theorem wfToks_rho (es : List (Str × Str)) (hv : valuesDollarFree es = true) (T : List Tok)
    (hT : wfToks T = true) : wfToks (T.flatMap (rho es)) = true := by
  induction es generalizing T with
  | nil => rw [flatMap_rho_nil]; exact hT
  | cons e es ih =>
    obtain ⟨k, v⟩ := e
    have hv1 : dollarFree v = true := by simp [valuesDollarFree] at hv; exact hv.1
    have hv2 : valuesDollarFree es = true := by simp [valuesDollarFree] at hv ⊢; exact hv.2
    rw [← flatMap_sigma_rho]
    exact ih hv2 _ (wfToks_sigma k v hv1 T hT)

/-- the sequential fold over the entries, in the order given, is the simultaneous substitution -/
theorem substFold_render (es : List (Str × Str)) (hk : keysClean es = true)
    (hv : valuesDollarFree es = true) (T : List Tok) (hT : wfToks T = true) :
    substFold es (render T) = render (T.flatMap (rho es)) := by
  induction es generalizing T with
  | nil => rw [flatMap_rho_nil]; rfl
  | cons e es ih =>
    obtain ⟨k, v⟩ := e
    have hk1 : cleanName k = true := by simp [keysClean] at hk; exact hk.1
    have hk2 : keysClean es = true := by simp [keysClean] at hk ⊢; exact hk.2
    have hv1 : dollarFree v = true := by simp [valuesDollarFree] at hv; exact hv.1
    have hv2 : valuesDollarFree es = true := by simp [valuesDollarFree] at hv ⊢; exact hv.2
    rw [substFold_cons, replaceAll_render k v hk1 T hT, ih hk2 hv2 _ (wfToks_sigma k v hv1 T hT),
      flatMap_sigma_rho]

/-! ### permutations of a map's entries -/

def keys (es : List (Str × Str)) : List Str := es.map Prod.fst

theorem lookupS_some_of_mem {es : List (Str × Str)} (hnd : (keys es).Nodup) {n v : Str}
    (h : (n, v) ∈ es) : lookupS n es = some v := by
  induction es with
  | nil => cases h
  | cons e es ih =>
    obtain ⟨k, w⟩ := e
    simp only [keys, List.map_cons, List.nodup_cons] at hnd
    simp only [lookupS]
    cases List.mem_cons.mp h with
    | inl heq => cases heq; simp
    | inr hmem =>
      have : k ≠ n := by
        intro e; subst e
        exact hnd.1 (List.mem_map.mpr ⟨(k, v), hmem, rfl⟩)
      simp [this]; exact ih hnd.2 hmem

theorem mem_of_lookupS_some {es : List (Str × Str)} {n v : Str} (h : lookupS n es = some v) :
    (n, v) ∈ es := by
  induction es with
  | nil => cases h
  | cons e es ih =>
    obtain ⟨k, w⟩ := e
    simp only [lookupS] at h
    split at h
    · next e => cases h; subst e; exact List.mem_cons_self
    · exact List.mem_cons_of_mem _ (ih h)

theorem lookupS_perm {es es' : List (Str × Str)} (hp : es.Perm es') (hnd : (keys es).Nodup) (n : Str) :
    lookupS n es = lookupS n es' := by
  have hnd' : (keys es').Nodup := (hp.map Prod.fst).nodup_iff.mp hnd
  cases h : lookupS n es with
  | some v => exact (lookupS_some_of_mem hnd' (hp.mem_iff.mp (mem_of_lookupS_some h))).symm
  | none =>
    cases h' : lookupS n es' with
    | none => rfl
    | some v =>
      have := lookupS_some_of_mem hnd (hp.mem_iff.mpr (mem_of_lookupS_some h'))
      rw [h] at this; cases this

theorem rho_perm {es es' : List (Str × Str)} (hp : es.Perm es') (hnd : (keys es).Nodup) :
    rho es = rho es' := by
  funext t
  cases t with
  | lit c => rfl
  | var n => simp [rho, lookupS_perm hp hnd n]

theorem keysClean_perm {es es' : List (Str × Str)} (hp : es.Perm es') :
    keysClean es = keysClean es' := by
  simp only [keysClean]
  rw [Bool.eq_iff_iff]; simp only [List.all_eq_true]
  exact ⟨fun h x hx => h x (hp.mem_iff.mpr hx), fun h x hx => h x (hp.mem_iff.mp hx)⟩

theorem valuesDollarFree_perm {es es' : List (Str × Str)} (hp : es.Perm es') :
    valuesDollarFree es = valuesDollarFree es' := by
  simp only [valuesDollarFree]
  rw [Bool.eq_iff_iff]; simp only [List.all_eq_true]
  exact ⟨fun h x hx => h x (hp.mem_iff.mpr hx), fun h x hx => h x (hp.mem_iff.mp hx)⟩

/-! ### several maps, most important first -/

def firstBinding (n : Str) : List (List (Str × Str)) → Option Str
  | [] => none
  | m :: ms =>
    match lookupS n m with
    | some v => some v
    | none => firstBinding n ms

/-- every variable takes the value of the first map that binds it -/
def resolveVars (maps : List (List (Str × Str))) : Tok → List Tok
  | .var n =>
    match firstBinding n maps with
    | some v => lits v
    | none => [.var n]
  | t => [t]

theorem flatMap_resolveVars_nil (T : List Tok) : T.flatMap (resolveVars []) = T := by
  induction T with
  | nil => rfl
  | cons t T ih => cases t <;> simp [resolveVars, firstBinding, ih]

theorem lits_flatMap_resolveVars (maps : List (List (Str × Str))) (v : Str) :
    (lits v).flatMap (resolveVars maps) = lits v := by
  induction v with
  | nil => rfl
  | cons c cs ih => simp [lits, resolveVars] at *; exact ih

theorem flatMap_rho_resolveVars (m : List (Str × Str)) (ms : List (List (Str × Str))) (T : List Tok) :
    (T.flatMap (rho m)).flatMap (resolveVars ms) = T.flatMap (resolveVars (m :: ms)) := by
  induction T with
  | nil => rfl
  | cons t T ih =>
    rw [List.flatMap_cons, List.flatMap_append, ih, List.flatMap_cons]
    congr 1
    cases t with
    | lit c => simp [rho, resolveVars]
    | var n =>
      cases h : lookupS n m with
      | some v => simp [rho, resolveVars, firstBinding, h, lits_flatMap_resolveVars]
      | none => simp [rho, resolveVars, firstBinding, h]

def mapsOk (maps : List (List (Str × Str))) : Prop :=
  ∀ m ∈ maps, keysClean m = true ∧ valuesDollarFree m = true ∧ (keys m).Nodup

theorem leStr_refl (a : Str) : leStr a a = true := by
  induction a with
  | nil => rfl
  | cons c cs ih => simp [leStr, ih]

theorem sortByKey_perm (es : List (Str × Str)) : (sortByKey es).Perm es :=
  List.mergeSort_perm es _

/-- one `SubstituteVariables` call (either variant) on a tame template -/
theorem substituteVariables_render (sorted : Bool) (m : List (Str × Str)) (hk : keysClean m = true)
    (hv : valuesDollarFree m = true) (hnd : (keys m).Nodup) (T : List Tok) (hT : wfToks T = true) :
    substituteVariables sorted (render T) m = render (T.flatMap (rho m)) := by
  cases sorted with
  | false => exact substFold_render m hk hv T hT
  | true =>
    have hp := sortByKey_perm m
    simp only [substituteVariables, if_true]
    rw [substFold_render (sortByKey m) (by rw [keysClean_perm hp]; exact hk)
      (by rw [valuesDollarFree_perm hp]; exact hv) T hT]
    rw [rho_perm hp ((hp.map Prod.fst).nodup_iff.mpr hnd)]

theorem foldMaps_render (sorted : Bool) (maps : List (List (Str × Str))) (hm : mapsOk maps)
    (T : List Tok) (hT : wfToks T = true) :
    maps.foldl (fun t m => substituteVariables sorted t m) (render T) =
      render (T.flatMap (resolveVars maps)) ∧ wfToks (T.flatMap (resolveVars maps)) = true := by
  induction maps generalizing T with
  | nil => rw [flatMap_resolveVars_nil]; exact ⟨rfl, hT⟩
  | cons m ms ih =>
    obtain ⟨hk, hv, hnd⟩ := hm m List.mem_cons_self
    have hms : mapsOk ms := fun x hx => hm x (List.mem_cons_of_mem _ hx)
    rw [List.foldl_cons, substituteVariables_render sorted m hk hv hnd T hT]
    have := ih hms _ (wfToks_rho m hv T hT)
    rw [flatMap_rho_resolveVars] at this
    exact this

/-! ### `SubstituteEmptyStringForPrefixes` on a tame template -/

/-- a prefix (after `TrimSuffix(".")`) whose characters are all literal in the regexp and cannot
occur next to a variable's braces -/
def plainPrefix (p : Str) : Bool := p.all fun c => c != '.' && c != '$' && c != '{' && c != '}'

/-- `${n}` is a variable of prefix `p`: `p`, a dot, and a non-empty rest -/
def reservedBy (p n : Str) : Bool := (p ++ ['.']).isPrefixOf n && decide (p.length + 1 < n.length)

def keepTok (p : Str) : Tok → Bool
  | .var n => !reservedBy p n
  | .lit _ => true

theorem removeGo_skip (p xs rest : Str) : removeGo p xs.length (xs ++ rest) = removeGo p 0 rest := by
  induction xs with
  | nil => rfl
  | cons x xs ih => simpa [removeGo] using ih

theorem matchReserved_nodollar (p : Str) (c : Char) (s : Str) (h : c ≠ '$') :
    matchReserved p (c :: s) = none := by
  unfold matchReserved
  split
  · next heq => cases heq; exact absurd rfl h
  · rfl

theorem removeGo_nodollar (p pre rest : Str) (h : dollarFree pre = true) :
    removeGo p 0 (pre ++ rest) = pre ++ removeGo p 0 rest := by
  induction pre with
  | nil => rfl
  | cons c cs ih =>
    rw [dollarFree_cons] at h
    show removeGo p 0 (c :: (cs ++ rest)) = _
    rw [removeGo, matchReserved_nodollar p c _ h.1]
    simp [ih h.2]

theorem plainPrefix_cons (a : Char) (as : Str) :
    plainPrefix (a :: as) = true ↔ (a ≠ '.' ∧ a ≠ '$' ∧ a ≠ '{' ∧ a ≠ '}' ∧ plainPrefix as = true) := by
  simp [plainPrefix, and_assoc]

theorem matchAtoms_self (p x : Str) (hp : plainPrefix p = true) : matchAtoms p (p ++ x) = some x := by
  induction p with
  | nil => cases x <;> rfl
  | cons a as ih =>
    rw [plainPrefix_cons] at hp
    show matchAtoms (a :: as) (a :: (as ++ x)) = _
    rw [matchAtoms]
    simp [atomMatches, hp.1, ih hp.2.2.2.2]

/-- if the atoms of a plain prefix match at `n}…` and a dot follows, then `p.` is a prefix of `n` -/
theorem matchAtoms_dot (p n rest s2 : Str) (hp : plainPrefix p = true)
    (h : matchAtoms p (n ++ '}' :: rest) = some ('.' :: s2)) : (p ++ ['.']).isPrefixOf n = true := by
  induction p generalizing n with
  | nil =>
    cases n with
    | nil => simp [matchAtoms] at h
    | cons c cs =>
      simp [matchAtoms] at h
      simp [List.isPrefixOf, h.1]
  | cons a as ih =>
    rw [plainPrefix_cons] at hp
    cases n with
    | nil =>
      simp [matchAtoms, atomMatches, hp.1] at h
      exact absurd h.1 hp.2.2.2.1
    | cons c cs =>
      simp only [List.cons_append, matchAtoms, atomMatches, if_neg hp.1] at h
      split at h
      · next hac =>
        simp at hac
        simp [hac]
        exact List.isPrefixOf_iff_prefix.mp (ih cs hp.2.2.2.2 h)
      · cases h

theorem takeWhile_clean (r rest : Str) (hr : cleanName r = true) :
    (r ++ '}' :: rest).takeWhile (· != '}') = r := by
  induction r with
  | nil => simp
  | cons c cs ih =>
    rw [cleanName_cons] at hr
    simp [hr.2.2.1, ih hr.2.2.2]

theorem cleanName_append (a b : Str) : cleanName (a ++ b) = (cleanName a && cleanName b) := by
  simp [cleanName]

/-- the regexp at a variable token: it matches exactly the reserved names, and then the whole token -/
theorem matchReserved_var (p n rest : Str) (hp : plainPrefix p = true) (hn : cleanName n = true) :
    matchReserved p (mkPattern n ++ rest) = if reservedBy p n then some (n.length + 3) else none := by
  have hshape : mkPattern n ++ rest = '$' :: '{' :: (n ++ '}' :: rest) := by simp [mkPattern]
  rw [hshape]
  by_cases hpre : (p ++ ['.']).isPrefixOf n = true
  · obtain ⟨r, hr⟩ := List.isPrefixOf_iff_prefix.mp hpre
    subst hr
    have hrc : cleanName r = true := by
      rw [cleanName_append] at hn; simp at hn; exact hn.2
    have h1 : (p ++ ['.'] ++ r) ++ '}' :: rest = p ++ ('.' :: (r ++ '}' :: rest)) := by simp
    unfold matchReserved
    simp only [h1, matchAtoms_self p _ hp, takeWhile_clean r rest hrc]
    cases r with
    | nil => simp [reservedBy]
    | cons c cs =>
      simp [reservedBy]
      omega
  · have hres : reservedBy p n = false := by simp [reservedBy, hpre]
    rw [hres]
    unfold matchReserved
    simp only
    split
    · next s2 heq => exact absurd (matchAtoms_dot p n rest s2 hp heq) hpre
    · rfl

theorem removeGo_render (p : Str) (hp : plainPrefix p = true) (T : List Tok) (hT : wfToks T = true) :
    removeGo p 0 (render T) = render (T.filter (keepTok p)) := by
  induction T with
  | nil => rfl
  | cons t T ih =>
    have hT' : wfToks T = true := by simp [wfToks] at hT ⊢; exact hT.2
    have ht : t.wf = true := by simp [wfToks] at hT; exact hT.1
    cases t with
    | lit c =>
      have hc : dollarFree [c] = true := by simpa [dollarFree, Tok.wf] using ht
      have := removeGo_nodollar p [c] (render T) hc
      simp only [render_cons, Tok.render, List.filter_cons, keepTok, if_true] at *
      rw [this, ih hT']
    | var n =>
      have hn : cleanName n = true := by simpa [Tok.wf] using ht
      have hm := matchReserved_var p n (render T) hp hn
      have hshape : mkPattern n ++ render T = '$' :: ('{' :: (n ++ ['}']) ++ render T) := by
        simp [mkPattern]
      simp only [render_cons, Tok.render, List.filter_cons, keepTok]
      by_cases hr : reservedBy p n = true
      · rw [if_pos hr] at hm
        simp only [hr, Bool.not_true, Bool.false_eq_true, if_false]
        rw [hshape] at hm ⊢
        rw [removeGo, hm]
        have hlen : n.length + 3 - 1 = ('{' :: (n ++ ['}'])).length := by simp
        simp only
        rw [hlen, removeGo_skip, ih hT']
      · rw [if_neg hr] at hm
        have hr' : reservedBy p n = false := by simpa using hr
        simp only [hr', Bool.not_false, if_true, render_cons, Tok.render]
        rw [hshape] at hm ⊢
        rw [removeGo, hm]
        have hdf : dollarFree ('{' :: (n ++ ['}'])) = true := by
          rw [dollarFree_cons, dollarFree_append, cleanName_dollarFree hn]
          simp [dollarFree]
        simp only
        rw [removeGo_nodollar p _ _ hdf, ih hT']
        simp [mkPattern]

theorem wfToks_filter (f : Tok → Bool) (T : List Tok) (hT : wfToks T = true) :
    wfToks (T.filter f) = true := by
  simp [wfToks] at *
  intro t ht; exact Or.inr (hT t ht)

/-- a token survives the cleanup of all prefixes -/
def keepAll (ps : List Str) (t : Tok) : Bool := ps.all fun p => keepTok (trimSuffixDot p) t

theorem removePrefixes_render (ps : List Str) (hps : ∀ p ∈ ps, plainPrefix (trimSuffixDot p) = true)
    (T : List Tok) (hT : wfToks T = true) :
    substituteEmptyStringForPrefixes (render T) ps = render (T.filter (keepAll ps)) := by
  induction ps generalizing T with
  | nil =>
    have : T.filter (keepAll []) = T := List.filter_eq_self.mpr (fun t _ => by simp [keepAll])
    rw [this]; rfl
  | cons p ps ih =>
    have hp := hps p List.mem_cons_self
    have hps' : ∀ q ∈ ps, plainPrefix (trimSuffixDot q) = true := fun q hq => hps q (List.mem_cons_of_mem _ hq)
    have h1 : substituteEmptyStringForPrefixes (render T) (p :: ps) =
        substituteEmptyStringForPrefixes (removeGo (trimSuffixDot p) 0 (render T)) ps := by
      simp [substituteEmptyStringForPrefixes, removeForPrefix]
    rw [h1, removeGo_render _ hp T hT, ih hps' _ (wfToks_filter _ T hT), List.filter_filter]
    congr 1
    apply List.filter_congr
    intro t _
    simp [keepAll, Bool.and_comm]

/-- the result of the whole pipeline on one token -/
def resolveTok (maps : List (List (Str × Str))) (prefixes : List Str) : Tok → List Tok
  | .lit c => [.lit c]
  | .var n =>
    match firstBinding n maps with
    | some v => lits v
    | none => if prefixes.any (fun p => reservedBy (trimSuffixDot p) n) then [] else [.var n]

theorem filter_keepAll_lits (ps : List Str) (v : Str) : (lits v).filter (keepAll ps) = lits v := by
  induction v with
  | nil => rfl
  | cons c cs ih =>
    have : keepAll ps (Tok.lit c) = true := by simp [keepAll, keepTok]
    simp only [lits, List.map_cons, List.filter_cons, this, if_true] at *
    rw [ih]

theorem filter_resolveVars (maps : List (List (Str × Str))) (ps : List Str) (T : List Tok) :
    (T.flatMap (resolveVars maps)).filter (keepAll ps) = T.flatMap (resolveTok maps ps) := by
  induction T with
  | nil => rfl
  | cons t T ih =>
    rw [List.flatMap_cons, List.filter_append, ih, List.flatMap_cons]
    congr 1
    cases t with
    | lit c => simp [resolveVars, resolveTok, keepAll, keepTok]
    | var n =>
      cases h : firstBinding n maps with
      | some v => simp [resolveVars, resolveTok, h, filter_keepAll_lits]
      | none =>
        simp only [resolveVars, resolveTok, h, List.filter_cons, List.filter_nil]
        by_cases hk : keepAll ps (Tok.var n) = true
        · have : (ps.any fun p => reservedBy (trimSuffixDot p) n) = false := by
            simp [keepAll, keepTok] at hk
            simpa using hk
          simp [hk, this]
        · have : (ps.any fun p => reservedBy (trimSuffixDot p) n) = true := by
            simp [keepAll, keepTok] at hk
            simpa using hk
          simp [hk, this]

/-- `SubstituteVariableMaps` on a tame template -/
theorem substituteVariableMaps_render (sorted : Bool) (maps : List (List (Str × Str))) (ps : List Str)
    (hm : mapsOk maps) (hps : ∀ p ∈ ps, plainPrefix (trimSuffixDot p) = true)
    (T : List Tok) (hT : wfToks T = true) :
    substituteVariableMaps sorted (render T) maps ps = render (T.flatMap (resolveTok maps ps)) := by
  obtain ⟨h1, h2⟩ := foldMaps_render sorted maps hm T hT
  simp only [substituteVariableMaps]
  rw [h1, removePrefixes_render ps hps _ h2, filter_resolveVars]

/-! ### sorted key order -/

theorem leStr_total (a b : Str) : (leStr a b || leStr b a) = true := by
  induction a generalizing b with
  | nil => simp [leStr]
  | cons x xs ih =>
    cases b with
    | nil => simp [leStr]
    | cons y ys =>
      simp only [leStr]
      by_cases h1 : x.toNat < y.toNat
      · simp [h1]
      · by_cases h2 : y.toNat < x.toNat
        · simp [h1, h2]
        · simp [h1, h2]; simpa using ih ys

theorem leStr_trans (a b c : Str) (h1 : leStr a b = true) (h2 : leStr b c = true) : leStr a c = true := by
  induction a generalizing b c with
  | nil => simp [leStr]
  | cons x xs ih =>
    cases b with
    | nil => simp [leStr] at h1
    | cons y ys =>
      cases c with
      | nil => simp [leStr] at h2
      | cons z zs =>
        simp only [leStr] at h1 h2 ⊢
        by_cases hxy : x.toNat < y.toNat
        · by_cases hyz : y.toNat < z.toNat
          · have : x.toNat < z.toNat := by omega
            simp [this]
          · by_cases hzy : z.toNat < y.toNat
            · simp [hyz, hzy] at h2
            · have : x.toNat < z.toNat := by omega
              simp [this]
        · by_cases hyx : y.toNat < x.toNat
          · simp [hxy, hyx] at h1
          · simp only [hxy, hyx, if_false] at h1
            by_cases hyz : y.toNat < z.toNat
            · have : x.toNat < z.toNat := by omega
              simp [this]
            · by_cases hzy : z.toNat < y.toNat
              · simp [hyz, hzy] at h2
              · simp only [hyz, hzy, if_false] at h2
                have e1 : ¬ x.toNat < z.toNat := by omega
                have e2 : ¬ z.toNat < x.toNat := by omega
                simp only [e1, e2, if_false]
                exact ih ys zs h1 h2

theorem leStr_antisymm (a b : Str) (h1 : leStr a b = true) (h2 : leStr b a = true) : a = b := by
  induction a generalizing b with
  | nil => cases b with
    | nil => rfl
    | cons y ys => simp [leStr] at h2
  | cons x xs ih =>
    cases b with
    | nil => simp [leStr] at h1
    | cons y ys =>
      simp only [leStr] at h1 h2
      by_cases hxy : x.toNat < y.toNat
      · have : ¬ y.toNat < x.toNat := by omega
        simp [hxy, this] at h2
      · by_cases hyx : y.toNat < x.toNat
        · simp [hxy, hyx] at h1
        · simp only [hxy, hyx, if_false] at h1 h2
          have : x = y := Char.toNat_inj.mp (by omega)
          rw [this, ih ys h1 h2]

/-- the sorted entry list does not depend on the order in which the map was enumerated -/
theorem sortByKey_perm_eq {es es' : List (Str × Str)} (hp : es.Perm es') (hnd : (keys es).Nodup) :
    sortByKey es = sortByKey es' := by
  have p1 : (sortByKey es).Perm (sortByKey es') :=
    (sortByKey_perm es).trans (hp.trans (sortByKey_perm es').symm)
  have s1 := List.pairwise_mergeSort (le := fun (a b : Str × Str) => leStr a.1 b.1)
    (fun a b c => leStr_trans a.1 b.1 c.1) (fun a b => leStr_total a.1 b.1) es
  have s2 := List.pairwise_mergeSort (le := fun (a b : Str × Str) => leStr a.1 b.1)
    (fun a b c => leStr_trans a.1 b.1 c.1) (fun a b => leStr_total a.1 b.1) es'
  refine List.Perm.eq_of_pairwise ?_ s1 s2 p1
  intro a b ha hb hab hba
  have hk : a.1 = b.1 := leStr_antisymm _ _ hab hba
  have ha' : a ∈ es := (sortByKey_perm es).mem_iff.mp ha
  have hb' : b ∈ es := hp.mem_iff.mpr ((sortByKey_perm es').mem_iff.mp hb)
  obtain ⟨ak, av⟩ := a
  obtain ⟨bk, bv⟩ := b
  simp only at hk; subst hk
  have := lookupS_some_of_mem hnd ha'
  rw [lookupS_some_of_mem hnd hb'] at this
  cases this; rfl

/-! ### `MergeSubstitutions` -/

theorem lookupS_mapInsert (m : List (Str × Str)) (k v n : Str) :
    lookupS n (mapInsert m k v) = if k = n then some v else lookupS n m := by
  induction m with
  | nil => simp [mapInsert, lookupS]
  | cons e m ih =>
    obtain ⟨k', v'⟩ := e
    simp only [mapInsert]
    by_cases h : k' = k
    · subst h
      by_cases h2 : k' = n <;> simp [lookupS, h2]
    · simp only [if_neg h, lookupS, ih]
      by_cases h2 : k' = n
      · have : ¬ k = n := fun e => h (h2.trans e.symm)
        simp [h2, this]
      · simp [h2]

theorem lookupS_none_of_not_mem {es : List (Str × Str)} {n : Str} (h : n ∉ keys es) :
    lookupS n es = none := by
  induction es with
  | nil => rfl
  | cons e es ih =>
    obtain ⟨k, v⟩ := e
    simp only [keys, List.map_cons, List.mem_cons, not_or] at h
    have : ¬ k = n := fun e => h.1 e.symm
    simp only [lookupS, if_neg this]
    exact ih h.2

/-- pouring map `e` over `acc` (the inner loop of `MergeSubstitutions`): `e` wins -/
theorem lookupS_pour (e acc : List (Str × Str)) (hnd : (keys e).Nodup) (n : Str) :
    lookupS n (e.foldl (fun acc x => mapInsert acc x.1 x.2) acc) =
      (lookupS n e).orElse fun _ => lookupS n acc := by
  induction e generalizing acc with
  | nil => simp [lookupS]
  | cons x es ih =>
    obtain ⟨k, v⟩ := x
    simp only [keys, List.map_cons, List.nodup_cons] at hnd
    rw [List.foldl_cons, ih _ hnd.2, lookupS_mapInsert]
    by_cases h : k = n
    · subst h
      have : lookupS k es = none := lookupS_none_of_not_mem hnd.1
      simp [lookupS, this]
    · simp [lookupS, h]

theorem lookupS_merge_two (lo hi : List (Str × Str)) (hl : (keys lo).Nodup) (hh : (keys hi).Nodup) (n : Str) :
    lookupS n (mergeSubstitutions [lo, hi]) = (lookupS n hi).orElse fun _ => lookupS n lo := by
  simp only [mergeSubstitutions, List.foldl_cons, List.foldl_nil]
  rw [lookupS_pour hi _ hh, lookupS_pour lo [] hl]
  cases lookupS n lo <;> simp [lookupS]

theorem keys_mapInsert (m : List (Str × Str)) (k v : Str) :
    keys (mapInsert m k v) = if k ∈ keys m then keys m else keys m ++ [k] := by
  induction m with
  | nil => simp [mapInsert, keys]
  | cons e m ih =>
    obtain ⟨k', v'⟩ := e
    simp only [mapInsert]
    by_cases hk : k' = k
    · subst hk; simp [keys]
    · have hk' : ¬ k = k' := fun e => hk e.symm
      have ih' : List.map Prod.fst (mapInsert m k v) =
          if k ∈ List.map Prod.fst m then List.map Prod.fst m else List.map Prod.fst m ++ [k] := ih
      simp only [if_neg hk, keys, List.map_cons, List.mem_cons, hk', false_or, ih']
      split <;> simp

/-- the keys of a merge result are distinct whenever the accumulator's were -/
theorem keys_mapInsert_nodup (m : List (Str × Str)) (k v : Str) (h : (keys m).Nodup) :
    (keys (mapInsert m k v)).Nodup := by
  rw [keys_mapInsert]
  split
  · exact h
  · next hk =>
    rw [List.nodup_append]
    refine ⟨h, by simp, ?_⟩
    intro a ha b hb
    simp at hb; subst hb
    intro e; subst e; exact hk ha

theorem keys_pour_nodup (e acc : List (Str × Str)) (h : (keys acc).Nodup) :
    (keys (e.foldl (fun acc x => mapInsert acc x.1 x.2) acc)).Nodup := by
  induction e generalizing acc with
  | nil => exact h
  | cons x es ih => exact ih _ (keys_mapInsert_nodup acc x.1 x.2 h)

theorem keys_merge_nodup (maps : List (List (Str × Str))) : (keys (mergeSubstitutions maps)).Nodup := by
  unfold mergeSubstitutions
  suffices ∀ acc : List (Str × Str), (keys acc).Nodup →
      (keys (maps.foldl (fun acc m => m.foldl (fun acc e => mapInsert acc e.1 e.2) acc) acc)).Nodup from
    this [] (by simp [keys])
  induction maps with
  | nil => intro acc h; exact h
  | cons m ms ih => intro acc h; exact ih _ (keys_pour_nodup m acc h)

end Furiko.SubstTokens
