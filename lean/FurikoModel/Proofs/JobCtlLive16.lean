/-
Liveness of the job controller, part 16: the refs a pass of a fair round records, as a list
(`after_found`: the recorded refs refreshed; `after_snoc`: plus the ref of the next attempt), and the
FINAL states (`Done`).  Core Lean only.
-/
import FurikoModel.Proofs.JobCtlLive15

set_option linter.unusedSimpArgs false
set_option linter.unusedVariables false

namespace Furiko.JobCtl.Live
open Furiko Furiko.JobCtl Furiko.WQ Furiko.StatusLemmas Furiko.JobCtlPlan Furiko.Conv Furiko.ParallelLemmas

/-- the Job is finished with the result its refs imply, every attempt and pod is over and recorded, and
the recorded status is what every further pass computes -/
structure Done (jo : JobObj) (s : Sys) : Prop where
  fin : ∃ f, jo.job.status.condition.finished = some f ∧
    (AnySucc jo.job.status.tasks → f.result = .success) ∧ (¬ AnySucc jo.job.status.tasks → f.result = .failed)
  allFin : AllFin jo.job.status.tasks
  complete : AnySucc jo.job.status.tasks ∨ (jo.job.status.tasks.length : Int) ≥ jo.job.maxAttempts
  podsFin : ∀ p ∈ s.pods, p.pod.isFinished = true
  recorded : ∀ p ∈ s.pods, p.pod.name ∈ refNames jo.job
  /-- whatever the clock `c` of a further pass (it reads the pods at ITS clock: a pod that does not tell
  when it finished is read with finish time `c`, and the first recorded finish time is kept) -/
  stable : ∀ c, recompute c s.d jo.job (foundTasks ({ s with clock := c } : Sys) jo) = jo.job

section
variable {ok : Sys → Action → Prop} {j0 jo : JobObj} {F0 : Int} {s : Sys}

/-- the refreshed refs as a list -/
theorem after_found (h : PState ok j0 jo F0 s) (L : List TaskRef) (hp : L.Perm (jo.job.status.tasks.map (refP s))) :
    L.length = jo.job.status.tasks.length ∧
    (L.map (·.retryIndex)).Perm ((List.range L.length).map (fun i : Nat => (i : Int))) ∧
    (∀ n, n ∈ L.map (·.name) ↔ n ∈ refNames jo.job) ∧
    AllFin L ∧ (∀ g ∈ L, ∀ f, g.finishTimestamp = some f → F0 ≤ f) ∧ AllHash s.d L ∧
    ((∀ r ∈ jo.job.status.tasks, Dead r) →
      (∀ g ∈ L, Dead g) ∧ latestFinishTime s.d L s.d.hash = latestFinishTime s.d jo.job.status.tasks s.d.hash) ∧
    ((∀ r ∈ jo.job.status.tasks, Dead r ∨ LiveRef r) → ∀ g ∈ L, Dead g ∨ g.status.result = .succeeded) := by
  have hlen : L.length = jo.job.status.tasks.length := by rw [hp.length_eq, List.length_map]
  have hmem : ∀ g ∈ L, ∃ r ∈ jo.job.status.tasks, g = refP s r := by
    intro g hg
    obtain ⟨r, hr, e⟩ := List.mem_map.mp (hp.mem_iff.mp hg)
    exact ⟨r, hr, e.symm⟩
  have hretry : (jo.job.status.tasks.map (refP s)).map (·.retryIndex) = jo.job.status.tasks.map (·.retryIndex) := by
    rw [List.map_map]
    apply List.map_congr_left
    intro r hr
    exact (h.refP_facts hr).2.1
  have hname : (jo.job.status.tasks.map (refP s)).map (·.name) = jo.job.status.tasks.map (·.name) := by
    rw [List.map_map]
    apply List.map_congr_left
    intro r hr
    exact (h.refP_facts hr).2.2.1
  have hhash : AllHash s.d L := by
    intro g hg
    obtain ⟨r, hr, rfl⟩ := hmem g hg
    exact h.refP_hash hr
  refine ⟨hlen, ?_, ?_, ?_, ?_, hhash, ?_, ?_⟩
  · rw [hlen]
    exact ((hp.map _).trans (by rw [hretry])).trans h.canon.retries
  · intro n
    have := (hp.map (·.name)).mem_iff (a := n)
    rw [hname] at this
    exact this
  · intro g hg
    obtain ⟨r, hr, rfl⟩ := hmem g hg
    exact (h.refP_facts hr).1
  · intro g hg f hf
    obtain ⟨r, hr, rfl⟩ := hmem g hg
    exact (h.refP_facts hr).2.2.2.1 f hf
  · intro hdead
    refine ⟨?_, ?_⟩
    · intro g hg
      obtain ⟨r, hr, rfl⟩ := hmem g hg
      exact ((h.refP_facts hr).2.2.2.2.1 (hdead r hr)).1
    · unfold latestFinishTime
      rw [tasksOfHash_all hhash, tasksOfHash_all h.canon.allHash]
      have hfin : (jo.job.status.tasks.map (refP s)).map (·.finishTimestamp) =
          jo.job.status.tasks.map (·.finishTimestamp) := by
        rw [List.map_map]
        apply List.map_congr_left
        intro r hr
        exact ((h.refP_facts hr).2.2.2.2.1 (hdead r hr)).2
      have hpf := hp.map (·.finishTimestamp)
      rw [hfin] at hpf
      exact foldl_latest_congr _ _ _ (fun x hx => hpf.mem_iff.mp hx) (fun x hx => hpf.mem_iff.mpr hx)
  · intro hshape g hg
    obtain ⟨r, hr, rfl⟩ := hmem g hg
    rcases hshape r hr with hd | hl
    · exact Or.inl ((h.refP_facts hr).2.2.2.2.1 hd).1
    · exact (h.refP_facts hr).2.2.2.2.2 hl

/-- the refreshed refs plus the ref of the next attempt -/
theorem after_snoc (h : PState ok j0 jo F0 s) (L : List TaskRef) (x : TaskRef)
    (hp : L.Perm (jo.job.status.tasks.map (refP s) ++ [x]))
    (hxr : x.retryIndex = jo.job.status.tasks.length)
    (hxh : x.hash s.d = s.d.hash) (hxlb : ∀ f, x.finishTimestamp = some f → F0 ≤ f) :
    L.length = jo.job.status.tasks.length + 1 ∧
    (L.map (·.retryIndex)).Perm ((List.range L.length).map (fun i : Nat => (i : Int))) ∧
    (∀ n, n ∈ L.map (·.name) ↔ n ∈ refNames jo.job ∨ n = x.name) ∧
    (∀ g ∈ L, ∀ f, g.finishTimestamp = some f → F0 ≤ f) ∧ AllHash s.d L ∧
    (∀ g ∈ L, (∃ r ∈ jo.job.status.tasks, g = refP s r) ∨ g = x) ∧ x ∈ L := by
  have hlen : L.length = jo.job.status.tasks.length + 1 := by
    rw [hp.length_eq, List.length_append, List.length_map]; rfl
  have hmem : ∀ g ∈ L, (∃ r ∈ jo.job.status.tasks, g = refP s r) ∨ g = x := by
    intro g hg
    rcases List.mem_append.mp (hp.mem_iff.mp hg) with hg' | hg'
    · obtain ⟨r, hr, e⟩ := List.mem_map.mp hg'
      exact Or.inl ⟨r, hr, e.symm⟩
    · exact Or.inr (by simpa using hg')
  have hretry : (jo.job.status.tasks.map (refP s)).map (·.retryIndex) = jo.job.status.tasks.map (·.retryIndex) := by
    rw [List.map_map]
    apply List.map_congr_left
    intro r hr
    exact (h.refP_facts hr).2.1
  have hname : (jo.job.status.tasks.map (refP s)).map (·.name) = jo.job.status.tasks.map (·.name) := by
    rw [List.map_map]
    apply List.map_congr_left
    intro r hr
    exact (h.refP_facts hr).2.2.1
  refine ⟨hlen, ?_, ?_, ?_, ?_, hmem, hp.mem_iff.mpr (by simp)⟩
  · rw [hlen, List.range_succ, List.map_append]
    have h1 := hp.map (·.retryIndex)
    rw [List.map_append, hretry] at h1
    refine h1.trans ?_
    simp only [List.map_cons, List.map_nil, hxr]
    exact List.Perm.append_right _ h.canon.retries
  · intro n
    have := (hp.map (·.name)).mem_iff (a := n)
    rw [List.map_append, hname] at this
    rw [this]
    simp only [List.mem_append, List.map_cons, List.map_nil, List.mem_singleton]
    rfl
  · intro g hg f hf
    rcases hmem g hg with ⟨r, hr, rfl⟩ | rfl
    · exact (h.refP_facts hr).2.2.2.1 f hf
    · exact hxlb f hf
  · intro g hg
    rcases hmem g hg with ⟨r, hr, rfl⟩ | rfl
    · exact h.refP_hash hr
    · exact hxh

theorem found_mem (h : PState ok j0 jo F0 s) (L : List TaskRef) (hp : L.Perm (jo.job.status.tasks.map (refP s))) :
    ∀ g ∈ L, ∃ r ∈ jo.job.status.tasks, g = refP s r := by
  intro g hg
  obtain ⟨r, hr, e⟩ := List.mem_map.mp (hp.mem_iff.mp hg)
  exact ⟨r, hr, e.symm⟩

end

/-- how the refs and the pods of the state `w` after the controller half of a round come from the state `s`
the pass started in: every ref is a recorded ref refreshed against the (finished) pods, or the ref of
the task of the next attempt — which the server shows afterwards —, and at most that attempt's pod was
created -/
def RefsStep (s : Sys) (jo jo' : JobObj) (w : Sys) : Prop :=
  (∀ g ∈ jo'.job.status.tasks, (∃ r ∈ jo.job.status.tasks, g = refP s r) ∨
    (∃ t, g = getTaskRef none t ∧ lookTask w t.name = some t ∧
      t.name = taskName jo.name s.d.hash jo.job.status.tasks.length ∧ ∀ r ∈ jo.job.status.tasks, Dead r)) ∧
  (w.pods = s.pods ∨ w.pods = s.pods ++ [newPod jo s.d jo.job.status.tasks.length (nowT s)])

end Furiko.JobCtl.Live
