/-
Liveness of the job controller, delete part 3: the invariant `DState` of the rounds of a Job that is being
deleted and carries the finalizer, and one `work` step in it when no pod is being deleted yet: while pods
are left every pod gets the deletion timestamp and the Job stays (`work_delete_keep`); when no pod is
left the object is removed from the server (`work_delete_drop`).  Core Lean only.
-/
import FurikoModel.Proofs.JobCtlLiveD2
import FurikoModel.Proofs.JobCtlLive29

set_option linter.unusedSimpArgs false
set_option linter.unusedVariables false

namespace Furiko.JobCtl.Live
open Furiko Furiko.JobCtl Furiko.WQ Furiko.StatusLemmas Furiko.JobCtlPlan Furiko.Conv

/-- the state between two rounds of a Job being deleted: caches and server agree, nothing undelivered, no
fault pending; the Job carries a deletion timestamp and the finalizer; every pod is a readable task of it -/
structure DState (jo : JobObj) (s : Sys) : Prop where
  fresh : Fresh jo s
  del : jo.job.deletionTimestamp.isSome = true
  fz : jo.finalizer = true
  pods : KPods jo s
  wf : Retry.WF s.q

/-- the Job object and its pods are gone from the server and from the caches, nothing is in flight -/
structure Gone (s : Sys) : Prop where
  job : s.job = none
  jobCache : s.jobCache = none
  pods : s.pods = []
  podCache : s.podCache = []
  jobEvs : s.jobEvs = []
  podEvs : s.podEvs = []
  faults : s.faults = []

/-- what the pass-start state looks like -/
theorem passStart_facts {jo : JobObj} {s : Sys} (hf : Fresh jo s) (q1 : WQ) :
    (passStart s q1).pods = s.pods ∧ (passStart s q1).podCache = s.pods ∧ (passStart s q1).clock = s.clock ∧
    (passStart s q1).d = s.d ∧ (passStart s q1).cfg = s.cfg ∧ (passStart s q1).job = some jo ∧
    (passStart s q1).jobCache = some jo ∧ (passStart s q1).jobEvs = [] ∧ (passStart s q1).podEvs = [] ∧
    (passStart s q1).q = q1 ∧ NoFault (passStart s q1) :=
  ⟨rfl, hf.podCache, rfl, rfl, rfl, hf.job, hf.jobCache, hf.jobEvs, hf.podEvs, rfl, ⟨hf.faults, fun f h => by cases h⟩⟩

/-- **one `work` step on a Job being deleted, pods left**: every pod gets the deletion timestamp -/
theorem work_delete_keep {jo : JobObj} {s : Sys} (h : DState jo s)
    (hnodel : ∀ p ∈ s.pods, p.pod.deletionTimestamp = none) (hne : s.pods ≠ []) (k : String) (rest : List String)
    (hq : (s.q.advance s.clock).queue = k :: rest) :
    ∃ jo' N, (work s).1.job = some jo' ∧ jo'.name = jo.name ∧ jo'.uid = jo.uid ∧ jo'.finalizer = true ∧
      jo'.job.deletionTimestamp = jo.job.deletionTimestamp ∧
      JSync (work s).1 ∧ PSync (work s).1 ∧ (work s).1.podCache = s.pods ∧
      (work s).1.pods = s.pods.map (markDts (nowT s) N) ∧ (∀ n, n ∈ N ↔ ∃ p ∈ s.pods, p.pod.name = n) ∧
      (work s).1.faults = [] ∧ Retry.WF (work s).1.q ∧ (work s).1.clock = s.clock ∧
      (∀ e ∈ (work s).1.podEvs, ∃ p0 ∈ s.pods, ∃ p, e = PEv.upsert p ∧ p.ownerUid = p0.ownerUid ∧
        p.ownerName = p0.ownerName) := by
  obtain ⟨a1, _, _, _, _, _, _⟩ := Retry.advance_facts s.q s.clock h.wf
  obtain ⟨e_pods, e_pc, e_clock, e_d, e_cfg, e_job, e_jc, e_jev, e_pev, e_q, hnf⟩ :=
    passStart_facts h.fresh (popQ (s.q.advance s.clock) k rest)
  generalize hspdef : passStart s (popQ (s.q.advance s.clock) k rest) = sp at *
  have hsp_pods : KPods jo sp := ⟨by rw [e_pods]; exact h.pods.owned, by rw [e_pods]; exact h.pods.sane, by rw [e_pods]; exact h.pods.nodup⟩
  obtain ⟨s', rjF, fz, nt, N, hsync, hm, hN, hfz, hadm⟩ := sync_delete sp jo h.del h.fz hnf (by rw [e_pc, e_pods]) hsp_pods
    (by rw [e_pods]; exact hnodel)
  have hfz' : fz = true := hfz.mpr (by rw [e_pods]; exact hne)
  subst hfz'
  have hnf' : NoFault s' := hm.nofault hnf
  have hj' : s'.job = some jo := hm.job.trans e_job
  have hone := syncOne_delete_keep sp jo s' rjF nt e_jc h.fz hsync hadm hnf' hj'
  have hjev' : s'.jobEvs = [] := hm.jobEvs.trans e_jev
  have hY : ∃ Y, syncOne sp = (Y, true) ∧ Y.pods = s'.pods ∧ Y.podEvs = s'.podEvs ∧ Y.podCache = s'.podCache ∧
      Y.jobCache = s'.jobCache ∧ Y.q = s'.q ∧ Y.clock = s'.clock ∧ Y.faults = s'.faults ∧
      ((Y.job = some jo ∧ Y.jobEvs = []) ∨
       (Y.job = some (written jo rjF (s'.rv + 1)) ∧ Y.jobEvs = [.upsert (written jo rjF (s'.rv + 1))])) := by
    rw [hone]
    by_cases hd : (decide (rjF.status ≠ jo.job.status) || nt) = true
    · rw [if_pos hd]
      by_cases hs : rjF.status = jo.job.status
      · rw [if_pos hs]
        exact ⟨_, rfl, rfl, rfl, rfl, rfl, rfl, rfl, rfl, Or.inl ⟨hj', hjev'⟩⟩
      · rw [if_neg hs]
        refine ⟨_, rfl, rfl, rfl, rfl, rfl, rfl, rfl, rfl, Or.inr ⟨rfl, ?_⟩⟩
        show s'.jobEvs ++ _ = _
        rw [hjev']; rfl
    · rw [if_neg hd]
      exact ⟨_, rfl, rfl, rfl, rfl, rfl, rfl, rfl, rfl, Or.inl ⟨hj', hjev'⟩⟩
  obtain ⟨Y, hYe, y1, y2, y3, y4, y5, y6, y7, y8⟩ := hY
  have hg := get_cons hq
  rw [work_some s k _ hg, hspdef, hYe]
  simp only [if_true]
  have hps' : PSync s' := hm.psync (by unfold PSync; rw [e_pev, e_pc, e_pods]; rfl)
  have hqok := queue_after_ok (qs := Y.q) a1 hq (by rw [y5, hm.queue, e_q]; rfl) (by rw [y5, hm.dirty, e_q]; rfl)
    (by rw [y5, hm.processing, e_q]; rfl)
  have hnowT : nowT sp = nowT s := by unfold nowT nowSec; rw [e_clock]
  have hjc : Y.jobCache = some jo := by rw [y4, hm.jobCache, e_jc]
  have hcommon : PSync Y ∧ Y.podCache = s.pods ∧ Y.pods = s.pods.map (markDts (nowT s) N) ∧
      (∀ n, n ∈ N ↔ ∃ p ∈ s.pods, p.pod.name = n) ∧ Y.faults = [] ∧ Y.clock = s.clock ∧
      (∀ e ∈ Y.podEvs, ∃ p0 ∈ s.pods, ∃ p, e = PEv.upsert p ∧ p.ownerUid = p0.ownerUid ∧ p.ownerName = p0.ownerName) := by
    refine ⟨?_, by rw [y3, hm.podCache, e_pc], by rw [y1, hm.pods, e_pods, hnowT], ?_, by rw [y7]; exact hnf'.1,
      by rw [y6, hm.clock, e_clock], ?_⟩
    · unfold PSync; rw [y2, y3, y1]; exact hps'
    · intro n; rw [hN, e_pods]
    · intro e he
      rw [y2] at he
      rcases hm.evs e he with h0 | ⟨p0, hp0, p, e1, e2, e3⟩
      · rw [e_pev] at h0; cases h0
      · exact ⟨p0, by rw [← e_pods]; exact hp0, p, e1, e2, e3⟩
  obtain ⟨c1, c2, c3, c4, c5, c6, c7⟩ := hcommon
  rcases y8 with ⟨hj, hje⟩ | ⟨hj, hje⟩
  · refine ⟨jo, N, hj, rfl, rfl, h.fz, rfl, ?_, c1, c2, c3, c4, c5, hqok.1, c6, c7⟩
    unfold JSync
    show Y.jobEvs.foldl applyJEv Y.jobCache = Y.job
    rw [hje, hjc, hj]; rfl
  · refine ⟨written jo rjF (s'.rv + 1), N, hj, rfl, rfl, h.fz, rfl, ?_, c1, c2, c3, c4, c5, hqok.1, c6, c7⟩
    unfold JSync
    show Y.jobEvs.foldl applyJEv Y.jobCache = Y.job
    rw [hje, hjc, hj]; rfl

/-- **one `work` step on a Job being deleted, no pod left**: the finalizer is dropped and the object removed -/
theorem work_delete_drop {jo : JobObj} {s : Sys} (h : DState jo s) (hnil : s.pods = []) (k : String) (rest : List String)
    (hq : (s.q.advance s.clock).queue = k :: rest) :
    (work s).1.job = none ∧ JSync (work s).1 ∧ PSync (work s).1 ∧ (work s).1.pods = [] ∧
    (work s).1.faults = [] ∧ Retry.WF (work s).1.q := by
  obtain ⟨a1, _, _, _, _, _, _⟩ := Retry.advance_facts s.q s.clock h.wf
  obtain ⟨e_pods, e_pc, e_clock, e_d, e_cfg, e_job, e_jc, e_jev, e_pev, e_q, hnf⟩ :=
    passStart_facts h.fresh (popQ (s.q.advance s.clock) k rest)
  generalize hspdef : passStart s (popQ (s.q.advance s.clock) k rest) = sp at *
  have hsp_pods : KPods jo sp := ⟨by rw [e_pods]; exact h.pods.owned, by rw [e_pods]; exact h.pods.sane, by rw [e_pods]; exact h.pods.nodup⟩
  obtain ⟨s', rjF, fz, nt, N, hsync, hm, hN, hfz, hadm⟩ := sync_delete sp jo h.del h.fz hnf (by rw [e_pc, e_pods]) hsp_pods
    (by rw [e_pods, hnil]; intro p hp; cases hp)
  have hfz' : fz = false := by
    cases fz with
    | false => rfl
    | true => exact absurd (by rw [e_pods]; exact hnil) (hfz.mp rfl)
  subst hfz'
  have hnf' : NoFault s' := hm.nofault hnf
  have hj' : s'.job = some jo := hm.job.trans e_job
  have hone := syncOne_delete_drop sp jo s' rjF nt e_jc h.fz h.del hsync hnf' hj'
  have hjev' : s'.jobEvs = [] := hm.jobEvs.trans e_jev
  have hpods' : s'.pods = [] := by rw [hm.pods, e_pods, hnil]; rfl
  have hps' : PSync s' := hm.psync (by unfold PSync; rw [e_pev, e_pc, e_pods]; rfl)
  have hY : ∃ Y b, syncOne sp = (Y, b) ∧ Y.pods = s'.pods ∧ Y.podEvs = s'.podEvs ∧ Y.podCache = s'.podCache ∧
      Y.jobCache = s'.jobCache ∧ Y.q = s'.q ∧ Y.clock = s'.clock ∧ Y.faults = s'.faults ∧ Y.job = none ∧
      ∃ nj, Y.jobEvs = [.delete nj] := by
    rw [hone]
    by_cases hd : (decide (rjF.status ≠ jo.job.status) || nt) = true
    · rw [if_pos hd]
      refine ⟨_, _, rfl, rfl, rfl, rfl, rfl, rfl, rfl, rfl, rfl, droppedObj jo rjF (s'.rv + 1), ?_⟩
      show s'.jobEvs ++ _ = _
      rw [hjev']; rfl
    · rw [if_neg hd]
      refine ⟨_, _, rfl, rfl, rfl, rfl, rfl, rfl, rfl, rfl, rfl, droppedObj jo rjF (s'.rv + 1), ?_⟩
      show s'.jobEvs ++ _ = _
      rw [hjev']; rfl
  obtain ⟨Y, b, hYe, y1, y2, y3, y4, y5, y6, y7, y8, nj, y9⟩ := hY
  have hg := get_cons hq
  rw [work_some s k _ hg, hspdef, hYe]
  have hjc : Y.jobCache = some jo := by rw [y4, hm.jobCache, e_jc]
  have hjs : Y.jobEvs.foldl applyJEv Y.jobCache = Y.job := by rw [y9, hjc, y8]; rfl
  have hpsY : Y.podEvs.foldl applyPEv Y.podCache = Y.pods := by rw [y2, y3, y1]; exact hps'
  cases b with
  | true =>
    have hqok := queue_after_ok (qs := Y.q) a1 hq (by rw [y5, hm.queue, e_q]; rfl) (by rw [y5, hm.dirty, e_q]; rfl)
      (by rw [y5, hm.processing, e_q]; rfl)
    simp only [if_true]
    exact ⟨y8, hjs, hpsY, by rw [y1]; exact hpods', by rw [y7]; exact hnf'.1, hqok.1⟩
  | false =>
    have hqerr := queue_after_err (qs := Y.q) Y.clock a1 hq (by rw [y5, hm.queue, e_q]; rfl) (by rw [y5, hm.dirty, e_q]; rfl)
      (by rw [y5, hm.processing, e_q]; rfl)
    simp only [Bool.false_eq_true, if_false]
    exact ⟨y8, hjs, hpsY, by rw [y1]; exact hpods', by rw [y7]; exact hnf'.1, hqerr.1⟩

end Furiko.JobCtl.Live
