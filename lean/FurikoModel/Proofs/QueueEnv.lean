/-
The envelope for C05–C07: the actions the environment and the controller may take (`Act`,
`step`, `Allowed`), reachability, and the definitions used by the global invariant.

Assumptions encoded in `Allowed` (everything else is outside the envelope and is exhibited as a
witness in `Props/C05.lean`):
* E-FreshName   a Job is created under a name that occurs nowhere in the system any more
                (API objects, undelivered events, cache, pending notifications, independent queue);
* E-Unstarted   a Job is created unstarted, not terminal, without the admission-error annotation;
* E-OwnerLabel  `label = some uid` ↔ the Job has `ownerUid = some uid` and `ownerName = some n` for a
                JobConfig `n` with that uid;
* E-Policy      `hasPolicy = false → startAfter = none` (startAfter lives inside the start policy);
* E-NoUnfinish  the only external status mutation is `terminal := true`;
* E-SpecEdit    the only external spec mutation is `editStartAfter`: the user sets, clears,
                postpones or advances `startAfter` of a Job that has a start policy and is
                authoritatively not started (what the validating webhook admits);
* E-ErrNotApplied  injected faults are `err`, `conflict`, `timeout` (a failed write was not applied);
* no external start of a Job (only the queue controller sets `startTime`).

Assumptions encoded in `step` itself, through `Act.restart` = `Model/Queue.restart` (each excludes
histories C05 quantifies over; witnesses `Props/C05` §(g), known findings F27, F28):
* E-FreshInitialList  a starting process's caches are the server's CURRENT state and every
                      undelivered event is dropped (reality: the initial LIST may be any state the
                      server went through since the old cache — `Model/Queue.restartStaleWin kj kc w`);
* E-QuiescentRecover  `Store.Recover` recounts atomically (reality: events reach the cache between
                      the handler registration and the lister read — the `w` of `restartStaleWin`).
There is no relist action (`Model/Queue.relist`; a watch outage only shows as delivery lag here), so
E-FinalizerPresent (known finding F35) never comes into play inside `Reachable`.
-/
import FurikoModel.Proofs.QueueBasic
import FurikoModel.Proofs.QueueWQ

set_option linter.unusedSimpArgs false
set_option linter.unusedVariables false

namespace Furiko.Queue
open Furiko.WQ

/-! ### actions -/

inductive Act where
  | addJC (jc : JCV)
  | addJob (j : JobV)
  | finishJob (name : String)         -- job controller: phase becomes terminal
  | markRejected (name : String)      -- job controller: rejected Job → AdmissionError (terminal)
  | removeJob (name : String)
  /-- the user edits `spec.startPolicy.startAfter` of a not-yet-started Job with a start policy -/
  | editStartAfter (name : String) (t : Option Int)
  | setMaxConc (name : String) (m : Int)
  | tick (d : Int)
  | deliverJob | deliverJC | notifyStore | notifyCtrl | resync
  | fault (f : String)
  | workConfig | workIndependent
  | restart

/-- the only external status mutation inside the envelope -/
def finish (j : JobV) : JobV := { j with terminal := true }

def step (s : Sys) : Act → Sys
  | .addJC jc => userAddJC s jc
  | .addJob j => userAddJob s j
  | .finishJob n => mutateJob s n finish
  | .markRejected n => mutateJob s n finish
  | .removeJob n => removeJob s n
  | .editStartAfter n t => editStartAfter s n t
  | .setMaxConc n m => setMaxConc s n m
  | .tick d => { s with clock := s.clock + d }
  | .deliverJob => deliverJob s
  | .deliverJC => deliverJC s
  | .notifyStore => notifyStore s
  | .notifyCtrl => notifyCtrl s
  | .resync => resync s
  | .fault f => { s with faults := s.faults ++ [f] }
  | .workConfig => (workConfig s).1
  | .workIndependent => (workIndependent s).1
  | .restart => restart s

def Ev.job : Ev → JobV
  | .add j => j
  | .update j => j
  | .delete j => j

def Note.jobs : Note → List JobV
  | .add j => [j]
  | .update o n => [o, n]
  | .delete j => [j]

/-- `j` is a Job version present somewhere in the system -/
def Ver (s : Sys) (j : JobV) : Prop :=
  j ∈ s.jobs ∨ j ∈ s.jobCache ∨ (∃ e ∈ s.jobEvs, e.job = j) ∨
    (∃ n ∈ s.storeQ, j ∈ n.jobs) ∨ (∃ n ∈ s.ctrlQ, j ∈ n.jobs)

/-- E-FreshName -/
def FreshName (s : Sys) (n : String) : Prop :=
  (∀ j, Ver s j → j.name ≠ n) ∧ (∀ k ∈ s.indQ.keys, keyName k ≠ n)

/-- E-OwnerLabel -/
def OwnerLabelOK (jcs : List JCV) (j : JobV) : Prop :=
  ∀ uid, j.label = some uid ↔
    (j.ownerUid = some uid ∧ ∃ jc ∈ jcs, jc.uid = uid ∧ j.ownerName = some jc.name)

def okFault (f : String) : Prop := f = "err" ∨ f = "conflict" ∨ f = "timeout"

def Allowed (s : Sys) : Act → Prop
  | .addJC jc => ¬ (∃ x ∈ s.jcs, x.name = jc.name)
  | .addJob j =>
      FreshName s j.name ∧ j.startTime = none ∧ j.terminal = false ∧ j.admErr = false ∧
      OwnerLabelOK s.jcs j ∧ (j.hasPolicy = false → j.startAfter = none)
  | .markRejected n => ∃ j, findJob s.jobs n = some j ∧ j.admErr = true
  | .tick d => 0 ≤ d
  | .fault f => okFault f
  | _ => True

/-- well-formed Job version (what the invariant needs of E-OwnerLabel and E-Policy) -/
def wfJob (j : JobV) : Prop :=
  (j.ownerName = none → j.label = none) ∧ (j.hasPolicy = false → j.startAfter = none)

/-- the authoritative (API server) part of a state is sane: names are unique, resourceVersions are
bounded by the counter, stored Jobs are well-formed. Nothing is assumed about caches, queues,
counter. -/
def ApiOK (s : Sys) : Prop :=
  (names s.jobs).Nodup ∧ (∀ j ∈ s.jobs, j.rv ≤ s.rv) ∧ (∀ j ∈ s.jobs, wfJob j)

/-- Reachable states: start from ANY state whose API part is sane by a (re)start of the controller
process (`restart`: caches relisted, queues dropped, counter recounted), then take allowed steps.
The empty initial system is `restart {}` (`reachable_init`). -/
inductive Reachable : Sys → Prop
  | boot (s : Sys) : ApiOK s → Reachable (restart s)
  | step (s : Sys) (a : Act) : Reachable s → Allowed s a → Reachable (step s a)

/-! ### the pipeline: events still to be delivered, notes still to be run -/

/-- the note `deliverJob` produces for an event against a cache -/
def noteOf (cache : List JobV) : Ev → Option Note
  | .add j => some (match findJob cache j.name with | some old => .update old j | none => .add j)
  | .update j => some (match findJob cache j.name with | some old => .update old j | none => .add j)
  | .delete j => match findJob cache j.name with | none => none | some old => some (.delete old)

def applyEv (cache : List JobV) : Ev → List JobV
  | .add j => setJob cache j
  | .update j => setJob cache j
  | .delete j => match findJob cache j.name with | none => cache | some _ => delJob cache j.name

def applyEvs (cache : List JobV) (evs : List Ev) : List JobV := evs.foldl applyEv cache

/-- the notes the undelivered events will produce -/
def futureNotes (cache : List JobV) : List Ev → List Note
  | [] => []
  | e :: rest => (noteOf cache e).toList ++ futureNotes (applyEv cache e) rest

/-- everything the store handler has still to see -/
def pending (s : Sys) : List Note := s.storeQ ++ futureNotes s.jobCache s.jobEvs

/-- a pending note never re-activates a finished Job -/
def goodNote : Note → Prop
  | .add _ => True
  | .update o n => o.terminal = true → n.terminal = true
  | .delete _ => True

/-- the whole spec/metadata part of a Job version (what a controller write leaves unchanged) -/
def sameSpec (a b : JobV) : Prop :=
  a.label = b.label ∧ a.ownerName = b.ownerName ∧ a.ownerUid = b.ownerUid ∧ a.created = b.created ∧
  a.hasPolicy = b.hasPolicy ∧ a.policy = b.policy ∧ a.startAfter = b.startAfter

/-- the parts of a Job that never change over its life: everything in `sameSpec` except
`startAfter`, which the user may edit while the Job is not started (`Act.editStartAfter`) -/
def sameFixed (a b : JobV) : Prop :=
  a.label = b.label ∧ a.ownerName = b.ownerName ∧ a.ownerUid = b.ownerUid ∧ a.created = b.created ∧
  a.hasPolicy = b.hasPolicy ∧ a.policy = b.policy

/-- the global invariant -/
structure Inv (s : Sys) : Prop where
  jobsNodup : (names s.jobs).Nodup
  cacheNodup : (names s.jobCache).Nodup
  /-- delivering all events turns the cache into the authoritative list -/
  pipe : applyEvs s.jobCache s.jobEvs = s.jobs
  /-- counter + what the store will still add/subtract = true number of active Jobs -/
  ctr : ∀ uid, getCtr s.counter uid + sumDelta (pending s) uid = actCount s.jobs uid
  good : ∀ n ∈ pending s, goodNote n
  verWf : ∀ j, Ver s j → wfJob j
  verRv : ∀ j, Ver s j → j.rv ≤ s.rv
  /-- per name the spec (but for `startAfter`) is fixed and (name, rv) identifies the version -/
  verFn : ∀ j1 j2, Ver s j1 → Ver s j2 → j1.name = j2.name →
            sameFixed j1 j2 ∧ (j1.rv = j2.rv → j1 = j2)
  /-- keys of the independent queue only name unlabelled Jobs -/
  ind : ∀ k ∈ s.indQ.keys, ∀ j, Ver s j → j.name = keyName k → j.label = none
  faultsOk : ∀ f ∈ s.faults, okFault f

end Furiko.Queue
