/-
The controller `Context` around the cron worker (`Ctl`: worker + `loadedConfigs`, finding F24):
the transition system of everything that reaches the cron controller after `CronWorker.Init`
(ticks, the informer's add notifications for the JobConfigs that existed at boot, runtime
add / update / delete events), and the reduction of a boot sequence — ticks interleaved in any
way with late initial adds — to the plain tick sequence of Proofs/CronRunWork.lean.
-/
import FurikoModel.Proofs.CronRunWork

namespace Furiko.Cron
open Furiko

/-! ### the record -/

theorem lookupUid_forget (l : List (String × String)) (k k' : String) :
    lookupUid (forget l k) k' = if k' = k then none else lookupUid l k' := by
  induction l with
  | nil => simp [forget, lookupUid]
  | cons p rest ih =>
    obtain ⟨k0, u0⟩ := p
    unfold forget at ih ⊢
    by_cases h0 : k0 = k
    · subst h0
      simp only [List.filter_cons, ne_eq, not_true_eq_false, decide_false, Bool.false_eq_true,
        if_false]
      rw [ih]
      by_cases hk : k' = k0
      · simp [hk]
      · have : ¬ k0 = k' := fun h => hk h.symm
        simp [hk, lookupUid, this]
    · simp only [List.filter_cons, ne_eq, h0, not_false_eq_true, decide_true, if_true]
      by_cases hk : k' = k
      · subst hk
        simp only [lookupUid, h0, if_false]
        rw [ih]; simp
      · simp only [lookupUid]
        by_cases h1 : k0 = k'
        · simp [h1, hk]
        · simp only [h1, if_false]; rw [ih]

theorem lookupUid_forget_self (l : List (String × String)) (k : String) :
    lookupUid (forget l k) k = none := by
  rw [lookupUid_forget]; simp

theorem lookupUid_forget_ne (l : List (String × String)) {k k' : String} (h : k' ≠ k) :
    lookupUid (forget l k) k' = lookupUid l k' := by
  rw [lookupUid_forget]; simp [h]

/-- forgetting only ever removes entries -/
theorem lookupUid_forget_some {l : List (String × String)} {k k' u : String}
    (h : lookupUid (forget l k) k' = some u) : lookupUid l k' = some u := by
  rw [lookupUid_forget] at h
  by_cases hk : k' = k
  · simp [hk] at h
  · simpa [hk] using h

/-- what `Init` records for a loaded JobConfig (distinct keys): its own UID -/
theorem lookupUid_recordLoaded {jcs : List JC} (hnd : (jcs.map (fun jc => jc.key)).Nodup)
    {jc : JC} (hjc : jc ∈ jcs) : lookupUid (recordLoaded jcs) jc.key = some jc.uid := by
  induction jcs with
  | nil => cases hjc
  | cons a rest ih =>
    simp only [List.map_cons, List.nodup_cons] at hnd
    rcases List.mem_cons.1 hjc with rfl | hmem
    · simp [recordLoaded, lookupUid]
    · have hne : jc.key ≠ a.key := by
        intro h
        exact hnd.1 (List.mem_map.2 ⟨jc, hmem, h⟩)
      have hne' : ¬ a.key = jc.key := fun h => hne h.symm
      simp only [recordLoaded, lookupUid, hne', if_false]
      rw [lookupUid_forget_ne _ hne]
      exact ih hnd.2 hmem

/-- … and nothing for a key that was not loaded -/
theorem lookupUid_recordLoaded_none {jcs : List JC} {k : String}
    (hk : ∀ jc ∈ jcs, jc.key ≠ k) : lookupUid (recordLoaded jcs) k = none := by
  induction jcs with
  | nil => rfl
  | cons a rest ih =>
    have h1 : ¬ a.key = k := hk a (List.mem_cons_self ..)
    simp only [recordLoaded, lookupUid, h1, if_false]
    rw [lookupUid_forget_ne _ (fun h => h1 h.symm)]
    exact ih (fun jc hjc => hk jc (List.mem_cons_of_mem _ hjc))

/-! ### `handleAdd` -/

/-- the add of a recorded JobConfig with the recorded UID: the worker (heap, lister, channel) is
left alone, the record is forgotten -/
theorem handleAdd_loaded {c : Ctl} {jc : JC} (h : lookupUid c.loaded jc.key = some jc.uid) :
    handleAdd c jc true true = { c with loaded := forget c.loaded jc.key } := by
  simp [handleAdd, takeLoaded, h]

/-- any other add (key not recorded, or recorded with another UID) flushes; the record of the key
is gone either way -/
theorem handleAdd_not_loaded {c : Ctl} {jc : JC} (h : lookupUid c.loaded jc.key ≠ some jc.uid) :
    handleAdd c jc true true =
      { worker := { c.worker with chan := c.worker.chan ++ [jc] },
        loaded := forget c.loaded jc.key } := by
  have : (lookupUid c.loaded jc.key == some jc.uid) = false := by
    cases hb : lookupUid c.loaded jc.key == some jc.uid with
    | false => rfl
    | true => exact absurd (eq_of_beq hb) h
  simp [handleAdd, takeLoaded, this]

/-- the shape before the repair: every add flushes -/
theorem handleAdd_old_shape (c : Ctl) (jc : JC) :
    handleAdd c jc true false = { c with worker := { c.worker with chan := c.worker.chan ++ [jc] } } := by
  simp [handleAdd]

/-! ### the transition system after `Init` -/

inductive CtlAct where
  /-- one `CronWorker.Work()` at the clock reading `now` -/
  | tick (now : Int)
  /-- the informer's add notification for a JobConfig that existed when the handler joined -/
  | initialAdd (jc : JC)
  /-- runtime events (cache applied, handler run) -/
  | add (jc : JC)
  | update (old new : JC)
  | delete (jc : JC)

/-- which shapes the source has: handler registrations and the three F24 shapes
(`Generated/Facts.lean`) -/
structure Shapes where
  regAdd    : Bool
  regUpdate : Bool
  regDelete : Bool
  takes     : Bool
  forgets   : Bool

/-- everything registered, `handleAdd` consults the record, `handleDelete` forgets it -/
def Shapes.fixed : Shapes := ⟨true, true, true, true, true⟩

def ctlStep (sh : Shapes) (cap : Int) (flushLimit fuel : Nat) (c : Ctl) :
    CtlAct → Ctl × Option (List (String × Int) × Bool)
  | .tick now => ((ctlWork c now cap flushLimit fuel).1,
      some ((ctlWork c now cap flushLimit fuel).2.1, (ctlWork c now cap flushLimit fuel).2.2))
  | .initialAdd jc => (ctlInitialAdd c jc sh.regAdd sh.takes, none)
  | .add jc => (ctlAdd c jc sh.regAdd sh.takes, none)
  | .update old new => (ctlUpdate c old new sh.regUpdate, none)
  | .delete jc => (ctlDelete c jc sh.regDelete sh.forgets, none)

/-- run a history; returns the final state, the request list of every tick, and whether every
tick's pop loop ended by itself -/
def ctlRun (sh : Shapes) (cap : Int) (flushLimit fuel : Nat) :
    Ctl → List CtlAct → Ctl × List (List (String × Int)) × Bool
  | c, [] => (c, [], true)
  | c, a :: rest =>
    match (ctlStep sh cap flushLimit fuel c a).2 with
    | none => ctlRun sh cap flushLimit fuel (ctlStep sh cap flushLimit fuel c a).1 rest
    | some (fired, done) =>
      ((ctlRun sh cap flushLimit fuel (ctlStep sh cap flushLimit fuel c a).1 rest).1,
       fired :: (ctlRun sh cap flushLimit fuel (ctlStep sh cap flushLimit fuel c a).1 rest).2.1,
       done && (ctlRun sh cap flushLimit fuel (ctlStep sh cap flushLimit fuel c a).1 rest).2.2)

/-- `handleAdd` leaves the record alone or forgets the key of the added object -/
theorem handleAdd_loaded_cases (c : Ctl) (jc : JC) (reg takes : Bool) :
    (handleAdd c jc reg takes).loaded = c.loaded ∨
    (handleAdd c jc reg takes).loaded = forget c.loaded jc.key := by
  unfold handleAdd takeLoaded
  cases reg
  · simp
  · cases takes
    · simp
    · cases lookupUid c.loaded jc.key == some jc.uid <;> simp

/-- the record only ever shrinks: whatever is recorded for a key after a step was recorded before -/
theorem ctlStep_loaded_shrinks (sh : Shapes) (cap : Int) (flushLimit fuel : Nat) (c : Ctl)
    (a : CtlAct) {k u : String}
    (h : lookupUid (ctlStep sh cap flushLimit fuel c a).1.loaded k = some u) :
    lookupUid c.loaded k = some u := by
  cases a with
  | tick now => exact h
  | initialAdd jc =>
    simp only [ctlStep, ctlInitialAdd] at h
    rcases handleAdd_loaded_cases c jc sh.regAdd sh.takes with he | he
    · rw [he] at h; exact h
    · rw [he] at h; exact lookupUid_forget_some h
  | add jc =>
    simp only [ctlStep, ctlAdd] at h
    rcases handleAdd_loaded_cases
      { c with worker := { c.worker with lister := listerSet c.worker.lister jc.key jc } }
      jc sh.regAdd sh.takes with he | he
    · rw [he] at h; exact h
    · rw [he] at h; exact lookupUid_forget_some h
  | update old new => exact h
  | delete jc =>
    simp only [ctlStep, ctlDelete] at h
    split at h
    · exact lookupUid_forget_some h
    · exact h

theorem ctlRun_loaded_shrinks (sh : Shapes) (cap : Int) (flushLimit fuel : Nat) :
    ∀ (acts : List CtlAct) (c : Ctl) {k u : String},
      lookupUid (ctlRun sh cap flushLimit fuel c acts).1.loaded k = some u →
      lookupUid c.loaded k = some u := by
  intro acts
  induction acts with
  | nil => intro c k u h; exact h
  | cons a rest ih =>
    intro c k u h
    apply ctlStep_loaded_shrinks sh cap flushLimit fuel c a
    unfold ctlRun at h
    split at h
    · exact ih _ h
    · exact ih _ h

/-! ### boot sequences: ticks interleaved with late initial adds -/

def CtlAct.isBoot : CtlAct → Bool
  | .tick _ => true
  | .initialAdd _ => true
  | _ => false

def ticksOf : List CtlAct → List Int
  | [] => []
  | .tick now :: rest => now :: ticksOf rest
  | _ :: rest => ticksOf rest

def initialAddsOf : List CtlAct → List JC
  | [] => []
  | .initialAdd jc :: rest => jc :: initialAddsOf rest
  | _ :: rest => initialAddsOf rest

/-- The informer's contract for the boot: `acts` consists of ticks and initial adds only; every
initial add carries a JobConfig that `Init` loaded (`jcs`: the very object, hence its key and UID),
and each JobConfig is notified at most once (one add per existing object per registration). -/
structure BootOK (jcs : List JC) (acts : List CtlAct) : Prop where
  boot   : ∀ a ∈ acts, a.isBoot = true
  loaded : ∀ jc ∈ initialAddsOf acts, jc ∈ jcs
  once   : (initialAddsOf acts).Pairwise (fun a b => a.key ≠ b.key)

/-- the state `CronWorker.Init` leaves behind (repaired shape: the record is written) -/
def bootCtl (jcs : List JC) (pq : Heap.PQ) : Ctl :=
  { worker := ⟨pq, jcs.map (fun jc => (jc.key, jc)), []⟩, loaded := recordLoaded jcs }

theorem ctlInit_eq_bootCtl {jcs : List JC} {cfg dflt now : Int} {pq : Heap.PQ}
    (h : schedNew jcs cfg dflt now = some pq) :
    ctlInit jcs cfg dflt now true = some (bootCtl jcs pq) := by
  simp [ctlInit, h, bootCtl]

/-- **Late initial adds are invisible.**  From any state whose record holds every JobConfig that is
still to be notified (with its UID), a sequence of ticks interleaved in ANY way with those
notifications requests exactly what the ticks alone request, ends in the same worker state, and
has consumed exactly the notified records. -/
theorem ctlRun_boot (cap : Int) (flushLimit fuel : Nat) :
    ∀ (acts : List CtlAct) (c : Ctl),
      (∀ a ∈ acts, a.isBoot = true) →
      (∀ jc ∈ initialAddsOf acts, lookupUid c.loaded jc.key = some jc.uid) →
      (initialAddsOf acts).Pairwise (fun a b => a.key ≠ b.key) →
      (ctlRun Shapes.fixed cap flushLimit fuel c acts).1.worker
        = (runTicks cap flushLimit fuel c.worker (ticksOf acts)).1 ∧
      (ctlRun Shapes.fixed cap flushLimit fuel c acts).2
        = (runTicks cap flushLimit fuel c.worker (ticksOf acts)).2 ∧
      (ctlRun Shapes.fixed cap flushLimit fuel c acts).1.loaded
        = (initialAddsOf acts).foldl (fun l jc => forget l jc.key) c.loaded := by
  intro acts
  induction acts with
  | nil => intro c _ _ _; exact ⟨rfl, rfl, rfl⟩
  | cons a rest ih =>
    intro c hb hl ho
    have hbr : ∀ a ∈ rest, a.isBoot = true := fun x hx => hb x (List.mem_cons_of_mem _ hx)
    cases a with
    | tick now =>
      have ih' := ih (ctlWork c now cap flushLimit fuel).1 hbr hl ho
      have hw : (ctlWork c now cap flushLimit fuel).1.worker = (work c.worker now cap flushLimit fuel).1 := rfl
      have hlo : (ctlWork c now cap flushLimit fuel).1.loaded = c.loaded := rfl
      rw [hw, hlo] at ih'
      simp only [ctlRun, ctlStep, ticksOf, runTicks, initialAddsOf]
      refine ⟨ih'.1, ?_, ih'.2.2⟩
      have h2 := ih'.2.1
      have hf : (ctlWork c now cap flushLimit fuel).2.1 = (work c.worker now cap flushLimit fuel).2.1 := rfl
      have hd : (ctlWork c now cap flushLimit fuel).2.2 = (work c.worker now cap flushLimit fuel).2.2 := rfl
      rw [hf, hd]
      rw [Prod.ext_iff] at h2 ⊢
      exact ⟨by simp only; rw [h2.1], by simp only; rw [h2.2]⟩
    | initialAdd jc =>
      have hjc : lookupUid c.loaded jc.key = some jc.uid := hl jc (List.mem_cons_self ..)
      have hstep : ctlInitialAdd c jc true true = { c with loaded := forget c.loaded jc.key } :=
        handleAdd_loaded hjc
      simp only [initialAddsOf, List.pairwise_cons] at ho
      have hl' : ∀ jc' ∈ initialAddsOf rest,
          lookupUid ({ c with loaded := forget c.loaded jc.key } : Ctl).loaded jc'.key
            = some jc'.uid := by
        intro jc' hm
        have hne : jc'.key ≠ jc.key := fun h => ho.1 jc' hm h.symm
        show lookupUid (forget c.loaded jc.key) jc'.key = some jc'.uid
        rw [lookupUid_forget_ne _ hne]
        exact hl jc' (List.mem_cons_of_mem _ hm)
      have ih' := ih { c with loaded := forget c.loaded jc.key } hbr hl' ho.2
      simp only [ctlRun, ctlStep, Shapes.fixed, ticksOf, initialAddsOf, List.foldl_cons]
      rw [hstep]
      exact ih'
    | add jc => exact absurd (hb _ (List.mem_cons_self ..)) (by simp [CtlAct.isBoot])
    | update o n => exact absurd (hb _ (List.mem_cons_self ..)) (by simp [CtlAct.isBoot])
    | delete jc => exact absurd (hb _ (List.mem_cons_self ..)) (by simp [CtlAct.isBoot])

/-- the same, from the state `Init` leaves behind -/
theorem ctlRun_bootCtl (cap : Int) (flushLimit fuel : Nat) {jcs : List JC} (pq : Heap.PQ)
    (hnd : (jcs.map (fun jc => jc.key)).Nodup) {acts : List CtlAct} (hok : BootOK jcs acts) :
    (ctlRun Shapes.fixed cap flushLimit fuel (bootCtl jcs pq) acts).1.worker
      = (runTicks cap flushLimit fuel ⟨pq, jcs.map (fun jc => (jc.key, jc)), []⟩ (ticksOf acts)).1 ∧
    (ctlRun Shapes.fixed cap flushLimit fuel (bootCtl jcs pq) acts).2
      = (runTicks cap flushLimit fuel ⟨pq, jcs.map (fun jc => (jc.key, jc)), []⟩ (ticksOf acts)).2 :=
  have h := ctlRun_boot cap flushLimit fuel acts (bootCtl jcs pq) hok.boot
    (fun jc hjc => lookupUid_recordLoaded hnd (hok.loaded jc hjc)) hok.once
  ⟨h.1, h.2.1⟩

end Furiko.Cron
