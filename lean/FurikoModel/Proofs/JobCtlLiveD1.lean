/-
Liveness of the job controller, delete part 1: `handleFinishFinalizer` on a Job that is being deleted and
carries the finalizer, no fault pending, caches = server, every pod a task of the Job and none being deleted
yet (`handleFinalizer_delete`): while a pod is left, EVERY pod (finished or not) is gracefully deleted and
the finalizer is kept; when no pod is left the finalizer is dropped.  Core Lean only.
-/
import FurikoModel.Proofs.JobCtlLiveK9

set_option linter.unusedSimpArgs false
set_option linter.unusedVariables false

namespace Furiko.JobCtl.Live
open Furiko Furiko.JobCtl Furiko.WQ Furiko.StatusLemmas Furiko.JobCtlPlan

theorem getTaskForRefConfirmed_fresh {jo : JobObj} {s : Sys} (hc : s.podCache = s.pods)
    (hown : ∀ p ∈ s.pods, p.ownerUid = some jo.uid) (r : TaskRef) :
    getTaskForRefConfirmed s jo r = lookTask s r.name := by
  unfold getTaskForRefConfirmed
  rw [getTaskForRef_fresh hc hown r]
  cases hl : lookTask s r.name with
  | some t => rfl
  | none =>
    simp only
    unfold liveGetTask isControlledByJob
    unfold lookTask at hl
    cases hp : findPod s.pods r.name with
    | none => rfl
    | some p =>
      have ho := hown p (findPod_some hp).1
      rw [hp] at hl
      simp only [Option.bind_some] at hl
      simp only [ho, decide_true, Bool.not_true, Bool.false_eq_true, ↓reduceIte]
      exact hl

/-- in a fresh state whose pods are all the Job's, the finalizer's task list is the one of a kill pass -/
theorem finalizerTasks_eq {jo : JobObj} {s : Sys} (hc : s.podCache = s.pods)
    (hown : ∀ p ∈ s.pods, p.ownerUid = some jo.uid) (rj : Job) :
    finalizerTasks s jo rj = killTasks s { jo with job := rj } := by
  unfold finalizerTasks killTasks tasksForRefsConfirmed
  rw [tasksForRefs_fresh (jo := { jo with job := rj }) hc hown]
  congr 1
  congr 1
  funext r
  exact getTaskForRefConfirmed_fresh hc hown r

theorem updDeleted_sameSpec (rj : Job) (n : String) (st : TaskStatus) :
    SameSpec rj (updateTaskRefDeletedStatusIfNotSet rj n st) := ⟨rfl, rfl, rfl, rfl, rfl, rfl⟩

theorem foldl_updDeleted_sameSpec (st : TaskStatus) : ∀ (tasks : List Task) (rj : Job),
    SameSpec rj (tasks.foldl (fun acc t => updateTaskRefDeletedStatusIfNotSet acc t.name st) rj)
  | [], rj => SameSpec.refl rj
  | t :: rest, rj => by
    simp only [List.foldl_cons]
    exact (updDeleted_sameSpec rj t.name st).trans (foldl_updDeleted_sameSpec st rest _)

/-- **`handleFinishFinalizer` of a Job being deleted** -/
theorem handleFinalizer_delete (s : Sys) (jo : JobObj) (rj : Job) (hdel : rj.deletionTimestamp.isSome = true)
    (hnf : NoFault s) (hc : s.podCache = s.pods) (hp : KPods jo s)
    (hnodel : ∀ p ∈ s.pods, p.pod.deletionTimestamp = none) :
    ∃ s' rj' fz N, handleFinalizer s jo rj true = (s', some (rj', fz)) ∧ MarkedT (jobKey jo) s s' N ∧
      (∀ n, n ∈ N ↔ ∃ p ∈ s.pods, p.pod.name = n) ∧ (fz = true ↔ s.pods ≠ []) ∧ SameSpec rj rj' := by
  have hp' : KPods { jo with job := rj } s := ⟨hp.owned, hp.sane, hp.nodup⟩
  have hT : finalizerTasks s jo rj = killTasks s { jo with job := rj } :=
    finalizerTasks_eq hc (fun p h => (hp.owned p h).1) rj
  unfold handleFinalizer
  have h1 : rj.deletionTimestamp.isNone = false := by
    cases hx : rj.deletionTimestamp with
    | none => rw [hx] at hdel; cases hdel
    | some _ => rfl
  simp only [h1, Bool.false_eq_true, ↓reduceIte, Bool.not_true, hT]
  by_cases hempty : (killTasks s { jo with job := rj }).isEmpty = true
  · -- no pod left
    simp only [hempty, Bool.not_true, Bool.false_eq_true, ↓reduceIte]
    have hnil : s.pods = [] := by
      cases hps : s.pods with
      | nil => rfl
      | cons p r =>
        obtain ⟨t, ht, _⟩ := killTasks_cover hc hp' (p := p) (by rw [hps]; exact List.mem_cons_self)
        rw [List.isEmpty_iff.mp hempty] at ht; cases ht
    have hU1 := updateTaskRefStatus_fst s (jobKey jo) rj []
    have hU2 := updateTaskRefStatus_snd s (jobKey jo) rj []
    generalize hU : updateTaskRefStatus s (jobKey jo) rj [] = U at hU1 hU2
    obtain ⟨s1, rj1⟩ := U
    simp only at hU1 hU2
    refine ⟨s1, rj1, false, [], rfl, MarkedT.of_timers hU1, ?_, ?_, ?_⟩
    · intro n
      rw [hnil]
      constructor
      · intro h; cases h
      · rintro ⟨p, hp0, _⟩; cases hp0
    · rw [hnil]; simp
    · rw [hU2]; exact (recompute_sameSpec s.clock s.d rj []).1
  · simp only [hempty, Bool.not_false, ↓reduceIte]
    have hne : s.pods ≠ [] := by
      intro hnil
      apply hempty
      apply List.isEmpty_iff.mpr
      cases hk : killTasks s { jo with job := rj } with
      | nil => rfl
      | cons t r =>
        obtain ⟨p, hpm, _⟩ := killTasks_mem hc hp' (t := t) (by rw [hk]; exact List.mem_cons_self)
        rw [hnil] at hpm; cases hpm
    have hU1 := updateTaskRefStatus_fst s (jobKey jo)
      ((killTasks s { jo with job := rj }).foldl (fun acc t => updateTaskRefDeletedStatusIfNotSet acc t.name
        { state := .terminated, result := .killed, reason := "JobDeleted" }) rj) (killTasks s { jo with job := rj })
    have hU2 := updateTaskRefStatus_snd s (jobKey jo)
      ((killTasks s { jo with job := rj }).foldl (fun acc t => updateTaskRefDeletedStatusIfNotSet acc t.name
        { state := .terminated, result := .killed, reason := "JobDeleted" }) rj) (killTasks s { jo with job := rj })
    generalize hU : updateTaskRefStatus s (jobKey jo)
      ((killTasks s { jo with job := rj }).foldl (fun acc t => updateTaskRefDeletedStatusIfNotSet acc t.name
        { state := .terminated, result := .killed, reason := "JobDeleted" }) rj) (killTasks s { jo with job := rj }) = U at hU1 hU2
    obtain ⟨s1, rj1⟩ := U
    simp only at hU1 hU2
    have hst := hU1.static
    have hnf1 : NoFault s1 := ⟨by rw [hst.2.2.2.2.2.2.2.2.2.2.1]; exact hnf.1, by rw [hst.2.2.2.2.2.2.2.2.2.2.2.1]; exact hnf.2⟩
    have hnd1 : (podNames s1.pods).Nodup := by rw [hst.2.2.2.1]; exact hp.nodup
    have hdts : ∀ t ∈ killTasks s { jo with job := rj }, t.deletionTimestamp = none := by
      intro t ht
      obtain ⟨p, hpm, _, _, hd, _⟩ := killTasks_facts hc hp' ht
      rw [hd]; exact hnodel p hpm
    obtain ⟨hok, N, hm, hN⟩ := deleteTasks_graceful s1 (killTasks s { jo with job := rj }) hnf1 hnd1 hdts
    generalize hD : deleteTasks s1 (killTasks s { jo with job := rj }) false = D at hok hm
    obtain ⟨s2, ok⟩ := D
    simp only at hok hm
    subst hok
    simp only [↓reduceIte]
    refine ⟨s2, rj1, true, N, rfl, ((MarkedT.of_timers hU1).trans (MarkedT.of_marked hm)).congr (fun n => by simp), ?_,
      by simp [hne], ?_⟩
    · intro n
      rw [hN]
      constructor
      · intro hn
        obtain ⟨t, ht, rfl⟩ := List.mem_map.mp hn
        obtain ⟨p, hpm, _, hname, _⟩ := killTasks_facts hc hp' ht
        exact ⟨p, hpm, hname.symm⟩
      · rintro ⟨p, hpm, rfl⟩
        obtain ⟨t, ht, hpt⟩ := killTasks_cover hc hp' hpm
        exact List.mem_map.mpr ⟨t, ht, (podTask_fields hpt).1⟩
    · rw [hU2]
      exact (foldl_updDeleted_sameSpec _ _ rj).trans (recompute_sameSpec s.clock s.d _ _).1

end Furiko.JobCtl.Live
