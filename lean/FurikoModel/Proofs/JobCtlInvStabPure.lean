/-
Pure lemmas for the stability theorems (`finished_stays_finished`, `result_and_finishTime_stable`):
the semantic invariant `RS` of a recorded ref, the relation `Froz` ("finished refs are frozen"), and
their preservation by `GetTaskRef` / `GenerateTaskRefs` / the deletion markers, under the hypothesis
`Hyp` that a task found for a finished ref reports a finish time itself.  Core Lean only.
-/
import FurikoModel.Proofs.JobCtlInvRefsInv

set_option linter.unusedSimpArgs false
set_option linter.unusedVariables false

namespace Furiko.JobCtl
open Furiko Furiko.WQ Furiko.StatusLemmas

/-- what the recorded status of a ref means -/
structure RS (r : TaskRef) : Prop where
  succFin : r.status.result = .succeeded → r.finishTimestamp.isSome = true
  finFinal : r.finishTimestamp.isSome = true → isFinalTaskState r.status.state = true
  dsIff : r.finishTimestamp.isSome = true → ∀ x, r.deletedStatus = some x →
    (x.result = .succeeded ↔ r.status.result = .succeeded)
  dsSome : r.finishTimestamp.isSome = true → r.status.result = .succeeded → r.deletedStatus.isSome = true
  dsFinal : ∀ x, r.deletedStatus = some x → isFinalTaskState x.state = true

/-- `RS` only reads status, finish timestamp and deleted status -/
theorem RS.congr {a b : TaskRef} (h : RS a) (h1 : b.status = a.status) (h2 : b.finishTimestamp = a.finishTimestamp)
    (h3 : b.deletedStatus = a.deletedStatus) : RS b :=
  ⟨by rw [h1, h2]; exact h.succFin, by rw [h1, h2]; exact h.finFinal, by rw [h1, h2, h3]; exact h.dsIff,
   by rw [h1, h2, h3]; exact h.dsSome, by rw [h3]; exact h.dsFinal⟩

/-- what a task read from a pod of the Job reports -/
structure TaskSem (t : Task) : Prop where
  succFin : t.ref.status.result = .succeeded → t.ref.finishTimestamp.isSome = true
  finFinal : t.ref.finishTimestamp.isSome = true → isFinalTaskState t.ref.status.state = true
  noDs : t.ref.deletedStatus = none

theorem podTask_sem {now : Time} {p : PodObj} {t : Task} (hc : p.pod.creationTimestamp.isSome = true)
    (h : podTask now p = some t) : TaskSem t := by
  unfold podTask Pod.task at h
  cases hr : p.pod.taskRef now with
  | none => simp [hr] at h
  | some r =>
    simp only [hr, Option.some.injEq] at h
    subst h
    unfold Pod.taskRef at hr
    cases hf : p.pod.finishTimestamp with
    | none => simp [hf] at hr
    | some fin =>
      simp only [hf, Option.some.injEq] at hr
      subst hr
      -- a finish time is reported exactly by finished pods
      have hfin : fin.isSome = true → p.pod.isFinished = true := by
        intro hfs
        unfold Pod.finishTimestamp at hf
        by_cases hpf : p.pod.isFinished = true
        · exact hpf
        · simp only [hpf, Bool.not_false, ↓reduceIte, Option.some.injEq] at hf
          subst hf; cases hfs
      have hfin' : p.pod.isFinished = true → fin.isSome = true := by
        intro hpf
        unfold Pod.finishTimestamp at hf
        simp only [hpf, Bool.not_true, Bool.false_eq_true, ↓reduceIte] at hf
        split at hf
        · simp only [Option.some.injEq] at hf; subst hf; rfl
        · split at hf
          · split at hf
            · simp only [Option.some.injEq] at hf; subst hf; rfl
            · cases hf
          · split at hf
            · simp only [Option.some.injEq] at hf; subst hf; rfl
            · simp only [Option.some.injEq] at hf; subst hf; exact hc
      refine ⟨?_, ?_, rfl⟩
      · intro hres
        show (Pod.recordedFinish now p.pod fin).isSome = true
        rw [Pod.recordedFinish_isSome]
        apply hfin'
        simp only at hres
        unfold Pod.result at hres
        unfold Pod.isFinished
        split at hres
        · cases hres
        · split at hres
          · rename_i hph; simp [hph]
          · cases hres
          · cases hres
      · intro hfs
        have hpf := hfin ((Pod.recordedFinish_isSome now p.pod fin) ▸ hfs)
        show isFinalTaskState p.pod.state = true
        unfold Pod.state
        simp only [hpf, Bool.not_true, Bool.and_false, Bool.false_eq_true, ↓reduceIte]
        unfold Pod.isFinished at hpf
        cases hph : p.pod.phase <;> simp_all [isFinalTaskState]

/-! ### `GetTaskRef` field by field -/

theorem getTaskRef_some_frozen (ex : TaskRef) (t : Task) (h1 : ex.finishTimestamp.isSome = true)
    (h2 : t.ref.finishTimestamp.isSome = true) (h3 : isFinalTaskState ex.status.state = true) :
    (getTaskRef (some ex) t).status = ex.status ∧ (getTaskRef (some ex) t).finishTimestamp = ex.finishTimestamp ∧
    (getTaskRef (some ex) t).deletedStatus = ex.deletedStatus :=
  Furiko.Props.C11.getTaskRef_final_kept ex t h1 h3 h2

theorem getTaskRef_some_fresh (ex : TaskRef) (t : Task) (h1 : ex.finishTimestamp.isSome = false)
    (h2 : t.ref.finishTimestamp.isSome = true) :
    (getTaskRef (some ex) t).status = t.ref.status ∧
    (getTaskRef (some ex) t).finishTimestamp = t.ref.finishTimestamp ∧
    (getTaskRef (some ex) t).deletedStatus = some t.ref.status := by
  unfold getTaskRef
  cases hf : t.ref.finishTimestamp with
  | none => simp [hf] at h2
  | some f => cases hr : t.ref.runningTimestamp <;> simp [hf, hr, h1]

theorem getTaskRef_some_unfinished (ex : TaskRef) (t : Task) (h2 : t.ref.finishTimestamp.isSome = false) :
    (getTaskRef (some ex) t).status = t.ref.status ∧
    (getTaskRef (some ex) t).finishTimestamp = ex.finishTimestamp ∧
    (getTaskRef (some ex) t).deletedStatus = ex.deletedStatus := by
  unfold getTaskRef
  cases hf : t.ref.finishTimestamp with
  | some f => simp [hf] at h2
  | none => cases hr : t.ref.runningTimestamp <;> simp [hf, hr]

theorem getTaskRef_none_fields (t : Task) :
    (getTaskRef none t).status = t.ref.status ∧ (getTaskRef none t).finishTimestamp = t.ref.finishTimestamp ∧
    (getTaskRef none t).deletedStatus =
      (if t.ref.finishTimestamp.isSome = true then some t.ref.status else t.ref.deletedStatus) := by
  unfold getTaskRef
  simp only
  split <;> simp_all

/-- `RS` of the refreshed ref, when a finished existing ref only ever meets a finished task -/
theorem getTaskRef_rs (e : Option TaskRef) (t : Task) (ht : TaskSem t) (he : ∀ ex, e = some ex → RS ex)
    (hyp : ∀ ex, e = some ex → ex.finishTimestamp.isSome = true → t.ref.finishTimestamp.isSome = true) :
    RS (getTaskRef e t) := by
  cases e with
  | none =>
    obtain ⟨h1, h2, h3⟩ := getTaskRef_none_fields t
    refine ⟨by rw [h1, h2]; exact ht.succFin, by rw [h1, h2]; exact ht.finFinal, ?_, ?_, ?_⟩
    · intro hf x hx
      rw [h2] at hf
      rw [h3, if_pos hf] at hx
      simp only [Option.some.injEq] at hx; subst hx
      rw [h1]
    · intro hf _
      rw [h2] at hf
      rw [h3, if_pos hf]; rfl
    · intro x hx
      rw [h3] at hx
      split at hx
      · rename_i hf
        simp only [Option.some.injEq] at hx; subst hx
        exact ht.finFinal hf
      · rw [ht.noDs] at hx; cases hx
  | some ex =>
    have hex := he ex rfl
    by_cases htf : t.ref.finishTimestamp.isSome = true
    · by_cases hexf : ex.finishTimestamp.isSome = true
      · obtain ⟨h1, h2, h3⟩ := getTaskRef_some_frozen ex t hexf htf (hex.finFinal hexf)
        exact hex.congr h1 h2 h3
      · obtain ⟨h1, h2, h3⟩ := getTaskRef_some_fresh ex t (by simpa using hexf) htf
        refine ⟨by rw [h1, h2]; exact ht.succFin, by rw [h1, h2]; exact ht.finFinal, ?_, ?_, ?_⟩
        · intro _ x hx
          rw [h3] at hx; simp only [Option.some.injEq] at hx; subst hx; rw [h1]
        · intro _ _; rw [h3]; rfl
        · intro x hx
          rw [h3] at hx; simp only [Option.some.injEq] at hx; subst hx
          exact ht.finFinal htf
    · have hexf : ¬ ex.finishTimestamp.isSome = true := fun h => htf (hyp ex rfl h)
      obtain ⟨h1, h2, h3⟩ := getTaskRef_some_unfinished ex t (by simpa using htf)
      refine ⟨?_, ?_, ?_, ?_, ?_⟩
      · intro hres; rw [h1] at hres; exact absurd (ht.succFin hres) htf
      · intro hf; rw [h2] at hf; exact absurd hf hexf
      · intro hf; rw [h2] at hf; exact absurd hf hexf
      · intro hf; rw [h2] at hf; exact absurd hf hexf
      · intro x hx; rw [h3] at hx; exact hex.dsFinal x hx

/-- `ex` finished ⇒ the refreshed ref has the same finish time and the same "succeeded" -/
def FrozRef (ex r : TaskRef) : Prop :=
  r.name = ex.name ∧ r.finishTimestamp = ex.finishTimestamp ∧
  (r.status.result = .succeeded ↔ ex.status.result = .succeeded)

theorem getTaskRef_froz (ex : TaskRef) (t : Task) (hex : RS ex) (hn : t.ref.name = ex.name)
    (hexf : ex.finishTimestamp.isSome = true) (htf : t.ref.finishTimestamp.isSome = true) :
    FrozRef ex (getTaskRef (some ex) t) := by
  obtain ⟨h1, h2, _⟩ := getTaskRef_some_frozen ex t hexf htf (hex.finFinal hexf)
  exact ⟨by rw [getTaskRef_name]; exact hn, h2, by rw [h1]⟩

theorem lostRef_rs (now : Time) (ex : TaskRef) (hex : RS ex) : RS (lostRef now ex) := by
  unfold lostRef
  cases hd : ex.deletedStatus with
  | some ds =>
    have hdsf := hex.dsFinal ds hd
    cases hf : ex.finishTimestamp with
    | none =>
      simp only [Option.isNone_none, ↓reduceIte]
      refine ⟨fun _ => rfl, fun _ => hdsf, ?_, ?_, ?_⟩
      · intro _ x hx
        simp only [hd, Option.some.injEq] at hx; subst hx; rfl
      · intro _ _; simp [hd]
      · intro x hx; simp only [hd, Option.some.injEq] at hx; subst hx; exact hdsf
    | some f =>
      simp only [Option.isNone_some, Bool.false_eq_true, ↓reduceIte]
      refine ⟨fun _ => by simp [hf], fun _ => hdsf, ?_, ?_, ?_⟩
      · intro _ x hx
        simp only [hd, Option.some.injEq] at hx; subst hx; rfl
      · intro _ _; simp [hd]
      · intro x hx; simp only [hd, Option.some.injEq] at hx; subst hx; exact hdsf
  | none =>
    cases hf : ex.finishTimestamp with
    | none =>
      simp only [Option.isNone_none, ↓reduceIte]
      refine ⟨fun _ => rfl, fun _ => by simp [isFinalTaskState], ?_, ?_, ?_⟩
      · intro _ x hx; simp [hd] at hx
      · intro _ hres
        exfalso
        have := hex.succFin hres
        rw [hf] at this; cases this
      · intro x hx; simp [hd] at hx
    | some f =>
      simp only [Option.isNone_some, Bool.false_eq_true, ↓reduceIte]
      refine ⟨fun _ => by simp [hf], fun _ => by simp [isFinalTaskState], ?_, ?_, ?_⟩
      · intro _ x hx; simp [hd] at hx
      · intro _ hres
        have := hex.dsSome (by rw [hf]; rfl) hres
        rw [hd] at this; cases this
      · intro x hx; simp [hd] at hx

theorem lostRef_froz (now : Time) (ex : TaskRef) (hex : RS ex) (hexf : ex.finishTimestamp.isSome = true) :
    FrozRef ex (lostRef now ex) := by
  refine ⟨(lostRef_fields now ex).1, ?_, ?_⟩
  · have := (Furiko.Props.C11.lostRef_retains now ex).2.2.1
    rw [this, if_pos hexf]
  · unfold lostRef
    cases hd : ex.deletedStatus with
    | some ds =>
      simp only
      have := hex.dsIff hexf ds hd
      cases hf : ex.finishTimestamp <;> simp_all
    | none => cases hf : ex.finishTimestamp <;> simp_all

/-! ### lists of refs -/

/-- a task found for a finished ref reports a finish time -/
def Hyp (tasks : List Task) (refs : List TaskRef) : Prop :=
  ∀ t ∈ tasks, ∀ ex ∈ refs, ex.name = t.name → ex.finishTimestamp.isSome = true → t.ref.finishTimestamp.isSome = true

/-- every finished ref of `a` is still in `b`, frozen -/
def Froz (a b : List TaskRef) : Prop :=
  ∀ ex ∈ a, ex.finishTimestamp.isSome = true → ∃ r ∈ b, FrozRef ex r

theorem Froz.refl (a : List TaskRef) : Froz a a := fun ex h _ => ⟨ex, h, rfl, rfl, Iff.rfl⟩

theorem Froz.trans {a b c : List TaskRef} (h1 : Froz a b) (h2 : Froz b c) : Froz a c := by
  intro ex hex hf
  obtain ⟨r, hr, k1⟩ := h1 ex hex hf
  obtain ⟨r', hr', k2⟩ := h2 r hr (by rw [k1.2.1]; exact hf)
  exact ⟨r', hr', k2.1.trans k1.1, k2.2.1.trans k1.2.1, k2.2.2.trans k1.2.2⟩

theorem Froz.of_map {a : List TaskRef} (f : TaskRef → TaskRef)
    (hf : ∀ r, (f r).name = r.name ∧ (f r).finishTimestamp = r.finishTimestamp ∧ (f r).status = r.status) :
    Froz a (a.map f) := fun ex h _ =>
  ⟨f ex, List.mem_map_of_mem h, (hf ex).1, (hf ex).2.1, by rw [(hf ex).2.2]⟩

theorem lookupRef_mem {existing : List TaskRef} {n : String} {ex : TaskRef} (h : lookupRef existing n = some ex) :
    ex ∈ existing ∧ ex.name = n := by
  unfold lookupRef at h
  have h1 := List.mem_of_find?_eq_some h
  have h2 := List.find?_some h
  exact ⟨List.mem_reverse.mp h1, by simpa using h2⟩

theorem generateTaskRefs_rs (now : Time) (existing : List TaskRef) (tasks : List Task)
    (hex : ∀ r ∈ existing, RS r) (hts : ∀ t ∈ tasks, TaskSem t) (hyp : Hyp tasks existing) :
    ∀ r ∈ generateTaskRefs now existing tasks, RS r := by
  intro r hr
  rcases mem_generateTaskRefs hr with ⟨t, ht, rfl⟩ | ⟨ex, hexm, _, rfl⟩
  · refine getTaskRef_rs _ t (hts t ht) ?_ ?_
    · intro ex he; exact hex ex (lookupRef_mem he).1
    · intro ex he hf; exact hyp t ht ex (lookupRef_mem he).1 (lookupRef_mem he).2 hf
  · exact lostRef_rs now ex (hex ex hexm)

theorem generateTaskRefs_froz (now : Time) (existing : List TaskRef) (tasks : List Task)
    (hnd : (existing.map (·.name)).Nodup) (hex : ∀ r ∈ existing, RS r) (hok : ∀ t ∈ tasks, TaskOK t)
    (hyp : Hyp tasks existing) : Froz existing (generateTaskRefs now existing tasks) := by
  intro ex hexm hf
  have hm := Furiko.Props.C11.generateTaskRefs_members now existing tasks
  by_cases hin : ex.name ∈ tasks.map (·.name)
  · obtain ⟨t, ht, htn⟩ := List.mem_map.mp hin
    refine ⟨getTaskRef (lookupRef existing t.name) t, hm.2.1 t ht, ?_⟩
    rw [htn, lookupRef_of_nodup existing hnd ex hexm]
    exact getTaskRef_froz ex t (hex ex hexm) (by rw [hok t ht]; exact htn) hf (hyp t ht ex hexm htn.symm hf)
  · exact ⟨lostRef now ex, hm.1 ex hexm hin, lostRef_froz now ex (hex ex hexm) hf⟩

/-- the hypothesis `Hyp` survives the refresh -/
theorem generateTaskRefs_hyp (now : Time) (existing : List TaskRef) (tasks : List Task)
    (htn : (tasks.map (·.name)).Nodup) (hok : ∀ t ∈ tasks, TaskOK t) (hyp : Hyp tasks existing) :
    Hyp tasks (generateTaskRefs now existing tasks) := by
  intro t ht r hr hname hf
  rcases mem_generateTaskRefs hr with ⟨t', ht', rfl⟩ | ⟨ex, hexm, hnot, rfl⟩
  · -- the refreshed ref of `t'`; names are distinct, so `t' = t`
    have hn' : t'.name = t.name := by
      rw [← hname, getTaskRef_name, hok t' ht']
    have : t' = t := inj_on_of_nodup_map htn ht' ht hn'
    subst this
    by_cases htf : t'.ref.finishTimestamp.isSome = true
    · exact htf
    · exfalso
      cases hl : lookupRef existing t'.name with
      | none =>
        rw [hl, (getTaskRef_none_fields t').2.1] at hf
        exact htf hf
      | some ex =>
        rw [hl, (getTaskRef_some_unfinished ex t' (by simpa using htf)).2.1] at hf
        exact htf (hyp t' ht' ex (lookupRef_mem hl).1 (lookupRef_mem hl).2 hf)
  · exfalso
    apply hnot
    rw [(lostRef_fields now ex).1] at hname
    exact List.mem_map.mpr ⟨t, ht, hname.symm⟩

end Furiko.JobCtl
