/-
Concrete data used by the non-vacuity `example`s in Props/*.lean, with direct (sorry-free)
proofs of the heap invariant for the literal heaps involved.
-/
import FurikoModel.Proofs.CronFlush

namespace Furiko.Cron.Ex
open Furiko Furiko.Cron

theorem new_singleton_eq (k : String) (p : Int) :
    Heap.new [(k, p)] = ⟨#[⟨k, p, 0⟩], Heap.setName (fun _ => none) k 0⟩ := by
  simp [Heap.new, Heap.new.build, Heap.heapInit, Heap.PQ.len]
  rfl

theorem inv_new_singleton (k : String) (p : Int) : Heap.Inv (Heap.new [(k, p)]) := by
  rw [new_singleton_eq]
  refine ⟨⟨fun i hi => ?_, fun k' i h => ?_⟩, fun i hi hpos => ?_⟩
  · have : i = 0 := by simpa using hi
    subst this
    simp [Heap.setName]
  · simp only [Heap.setName] at h
    by_cases hk : k' = k
    · simp [hk] at h; subst h; simp [hk]
    · simp [hk] at h
  · have : i = 0 := by simpa using hi
    omega

theorem search_new_singleton (k : String) (p : Int) (k' : String) :
    Heap.search (Heap.new [(k, p)]) k' = if k' = k then some p else none := by
  rw [new_singleton_eq]
  simp only [Heap.search, Heap.PQ.search, Heap.setName]
  by_cases hk : k' = k <;> simp [hk]

theorem inv_empty : Heap.Inv (Heap.new []) := by
  have : Heap.new [] = ⟨#[], fun _ => none⟩ := by
    simp [Heap.new, Heap.new.build, Heap.heapInit, Heap.PQ.len]
    rfl
  rw [this]
  refine ⟨⟨fun i hi => ?_, fun k' i h => ?_⟩, fun i hi hpos => ?_⟩
  · simp at hi
  · simp at h
  · simp at hi

/-- two expressions (`10,20,30,…` and `15,30`), window closes at 100 -/
def jcA : JC :=
  { key := "a"
    sched := { enabled := true, parseErr := false, exprs := [[10, 20, 30, 40], [15, 30]],
               notBefore := none, notAfter := some 100, lastUpdated := none, specId := 0 }
    lastScheduled := none }

/-- entry 10 for key "a"; lister knows "a" -/
def w0 : Worker := { heap := Heap.new [("a", 10)], lister := [("a", jcA)], chan := [] }

theorem w0_inv : Heap.Inv w0.heap := inv_new_singleton _ _

theorem jcA_sorted : jcA.SortedOK := by
  intro l hl
  simp only [jcA, List.mem_cons, List.not_mem_nil, or_false] at hl
  rcases hl with rfl | rfl <;> (unfold SortedStrict; decide)

theorem w0_lister : ListerOK w0.lister := by
  refine ⟨fun p hp => ?_, by decide⟩
  simp only [w0, List.mem_singleton] at hp
  subst hp
  exact ⟨rfl, jcA_sorted⟩

/-- matches every second 1..60 -/
def jcEvery : JC :=
  { key := "e"
    sched := { enabled := true, parseErr := false,
               exprs := [[1,2,3,4,5,6,7,8,9,10,11,12,13,14,15,16,17,18,19,20,21,22,23,24,25,26,27,
                          28,29,30,31,32,33,34,35,36,37,38,39,40,41,42,43,44,45,46,47,48,49,50,51,
                          52,53,54,55,56,57,58,59,60]],
               notBefore := none, notAfter := none, lastUpdated := none, specId := 0 }
    lastScheduled := none }

def wEvery : Worker := { heap := Heap.new [("e", 1)], lister := [("e", jcEvery)], chan := [] }

/-- `jcA` restricted to the window [12, 35]: matching in-window times are 15, 20, 30 -/
def jcW : JC :=
  { jcA with sched := { jcA.sched with notBefore := some 12, notAfter := some 35, specId := 3 } }

/-- key "a" under `jcW`, entry 15 (what a Bump before 12 s produces) -/
def wW : Worker := { heap := Heap.new [("a", 15)], lister := [("a", jcW)], chan := [] }

theorem wW_inv : Heap.Inv wW.heap := inv_new_singleton _ _

theorem wW_lister : ListerOK wW.lister := by
  refine ⟨fun p hp => ?_, by decide⟩
  simp only [wW, List.mem_singleton] at hp
  subst hp
  exact ⟨rfl, jcA_sorted⟩

/-! data for C03 -/

/-- `jcA` with a new spec matching only 50 and 60 -/
def jcNew : JC :=
  { jcA with sched := { jcA.sched with exprs := [[50, 60]], specId := 1 } }

/-- `w0` after the informer delivered the update `jcA → jcNew` -/
def wUpd : Worker := onUpdate w0 jcA jcNew true

theorem jcNew_sorted : ∀ l ∈ jcNew.sched.exprs, SortedStrict l := by
  intro l hl
  simp only [jcNew, List.mem_singleton] at hl
  subst hl; unfold SortedStrict; decide

theorem wUpd_lister : ListerOK wUpd.lister := by
  have : wUpd.lister = listerSet w0.lister jcNew.key jcNew := rfl
  rw [this]
  exact listerOK_set w0_lister jcNew_sorted

/-- `jcA` disabled -/
def jcDis : JC := { jcA with sched := { jcA.sched with enabled := false, specId := 2 } }
def wDis : Worker := onUpdate w0 jcA jcDis true

/-- a second JobConfig "b" matching every 5 s -/
def jcB : JC :=
  { key := "b"
    sched := { enabled := true, parseErr := false, exprs := [[5, 10, 15, 20, 25, 30]],
               notBefore := none, notAfter := none, lastUpdated := none, specId := 7 }
    lastScheduled := none }

theorem jcB_sorted : ∀ l ∈ jcB.sched.exprs, SortedStrict l := by
  intro l hl
  simp only [jcB, List.mem_singleton] at hl
  subst hl; unfold SortedStrict; decide

end Furiko.Cron.Ex
