/-
From "finished refs are frozen and no name is added" to "same per-index status and same latest
finish time" (the inputs of `getCondition_finKey_congr`).  Core Lean only.
-/
import FurikoModel.Proofs.JobCtlInvStabCond

set_option linter.unusedSimpArgs false
set_option linter.unusedVariables false

namespace Furiko.JobCtl
open Furiko Furiko.WQ Furiko.StatusLemmas

theorem eq_of_same_name {l : List TaskRef} (hnd : (l.map (·.name)).Nodup) {x y : TaskRef} (hx : x ∈ l) (hy : y ∈ l)
    (h : x.name = y.name) : x = y := inj_on_of_nodup_map hnd hx hy h

/-- `b` has exactly the names of `a`, and every ref of `a` is finished and frozen in `b` -/
structure SameFinished (j0 : JobObj) (d : PIndex) (a b : Job) : Prop where
  ga : Good j0 d a
  gb : Good j0 d b
  sub1 : ∀ n ∈ refNames a, n ∈ refNames b
  sub2 : ∀ n ∈ refNames b, n ∈ refNames a
  froz : Froz a.status.tasks b.status.tasks
  allFin : ∀ r ∈ a.status.tasks, r.finishTimestamp.isSome = true

theorem SameFinished.to {j0 : JobObj} {d : PIndex} {a b : Job} (h : SameFinished j0 d a b) :
    ∀ ex ∈ a.status.tasks, ∃ r ∈ b.status.tasks, FrozRef ex r :=
  fun ex hex => h.froz ex hex (h.allFin ex hex)

theorem SameFinished.from {j0 : JobObj} {d : PIndex} {a b : Job} (h : SameFinished j0 d a b) :
    ∀ r ∈ b.status.tasks, ∃ ex ∈ a.status.tasks, FrozRef ex r := by
  intro r hr
  obtain ⟨ex, hex, hn⟩ := List.mem_map.mp (h.sub2 r.name (List.mem_map_of_mem hr))
  obtain ⟨r', hr', hfz⟩ := h.to ex hex
  have : r' = r := eq_of_same_name h.gb.nodup hr' hr (hfz.1.trans hn)
  subst this
  exact ⟨ex, hex, hfz⟩

theorem SameFinished.allFin' {j0 : JobObj} {d : PIndex} {a b : Job} (h : SameFinished j0 d a b) :
    ∀ r ∈ b.status.tasks, r.finishTimestamp.isSome = true := by
  intro r hr
  obtain ⟨ex, hex, hfz⟩ := h.from r hr
  rw [hfz.2.1]; exact h.allFin ex hex

theorem length_filter_le_of_names {j0 : JobObj} {d : PIndex} (hwf : WF2 j0 d) {A B : List TaskRef}
    (hA : (A.map (·.name)).Nodup) (hAok : ∀ r ∈ A, RefOK j0 d r) (hBok : ∀ r ∈ B, RefOK j0 d r)
    (hto : ∀ ex ∈ A, ∃ r ∈ B, r.name = ex.name) (h : String) :
    (tasksOfHash d A h).length ≤ (tasksOfHash d B h).length := by
  have hsub : ∀ n ∈ (tasksOfHash d A h).map (·.name), n ∈ (tasksOfHash d B h).map (·.name) := by
    intro n hn
    obtain ⟨ex, hex, rfl⟩ := List.mem_map.mp hn
    have hex' := (mem_tasksOfHash d A h ex).mp hex
    obtain ⟨r, hr, hrn⟩ := hto ex hex'.1
    have hh := (RefOK.same_name hwf (hBok r hr) (hAok ex hex'.1) hrn).1
    exact List.mem_map.mpr ⟨r, (mem_tasksOfHash d B h r).mpr ⟨hr, hh.trans hex'.2⟩, hrn⟩
  have hnd : ((tasksOfHash d A h).map (·.name)).Nodup := by
    unfold tasksOfHash
    exact (List.filter_sublist.map _).nodup hA
  have := hnd.length_le_of_subset (fun n hn => hsub n hn)
  simpa using this

theorem any_succ_of_names {j0 : JobObj} {d : PIndex} (hwf : WF2 j0 d) {A B : List TaskRef}
    (hAok : ∀ r ∈ A, RefOK j0 d r) (hBok : ∀ r ∈ B, RefOK j0 d r)
    (hto : ∀ ex ∈ A, ∃ r ∈ B, r.name = ex.name ∧ (ex.status.result = .succeeded → r.status.result = .succeeded))
    (h : String) (hany : (tasksOfHash d A h).any refSucceeded = true) : (tasksOfHash d B h).any refSucceeded = true := by
  obtain ⟨ex, hex, hs⟩ := List.any_eq_true.mp hany
  have hex' := (mem_tasksOfHash d A h ex).mp hex
  obtain ⟨r, hr, hrn, hsucc⟩ := hto ex hex'.1
  have hh := (RefOK.same_name hwf (hBok r hr) (hAok ex hex'.1) hrn).1
  refine List.any_eq_true.mpr ⟨r, (mem_tasksOfHash d B h r).mpr ⟨hr, hh.trans hex'.2⟩, ?_⟩
  unfold refSucceeded at hs ⊢
  simp only [beq_iff_eq] at hs ⊢
  exact hsucc hs

/-- the inputs of `getCondition_finKey_congr` -/
theorem SameFinished.view {j0 : JobObj} {d : PIndex} (hwf : WF2 j0 d) {a b : Job} (h : SameFinished j0 d a b)
    (m : Int) :
    (∀ i : PIndex, getIndexStatus i i.hash (tasksOfHash d b.status.tasks i.hash) m =
      getIndexStatus i i.hash (tasksOfHash d a.status.tasks i.hash) m) ∧
    latestFinished b.status.tasks = latestFinished a.status.tasks := by
  have hto := h.to
  have hfrom := h.from
  constructor
  · intro i
    apply getIndexStatus_congr
    · intro r hr; exact h.allFin' r ((mem_tasksOfHash d _ _ r).mp hr).1
    · intro r hr; exact h.allFin r ((mem_tasksOfHash d _ _ r).mp hr).1
    · apply Nat.le_antisymm
      · exact length_filter_le_of_names hwf h.gb.nodup h.gb.refs h.ga.refs
          (fun r hr => by obtain ⟨ex, hex, hfz⟩ := hfrom r hr; exact ⟨ex, hex, hfz.1.symm⟩) i.hash
      · exact length_filter_le_of_names hwf h.ga.nodup h.ga.refs h.gb.refs
          (fun ex hex => by obtain ⟨r, hr, hfz⟩ := hto ex hex; exact ⟨r, hr, hfz.1⟩) i.hash
    · rw [Bool.eq_iff_iff]
      constructor
      · exact any_succ_of_names hwf h.gb.refs h.ga.refs
          (fun r hr => by obtain ⟨ex, hex, hfz⟩ := hfrom r hr; exact ⟨ex, hex, hfz.1.symm, hfz.2.2.mp⟩) i.hash
      · exact any_succ_of_names hwf h.ga.refs h.gb.refs
          (fun ex hex => by obtain ⟨r, hr, hfz⟩ := hto ex hex; exact ⟨r, hr, hfz.1, hfz.2.2.mpr⟩) i.hash
  · apply latestFinished_congr
    · intro x hx
      obtain ⟨r, hr, rfl⟩ := List.mem_map.mp hx
      obtain ⟨ex, hex, hfz⟩ := hfrom r hr
      exact List.mem_map.mpr ⟨ex, hex, hfz.2.1.symm⟩
    · intro x hx
      obtain ⟨ex, hex, rfl⟩ := List.mem_map.mp hx
      obtain ⟨r, hr, hfz⟩ := hto ex hex
      exact List.mem_map.mpr ⟨r, hr, hfz.2.1⟩

/-- with no kill timestamp (and no admission error) the clock reading does not matter -/
theorem getCondition_now_irrel (now now' : Time) (d : PIndex) (rj : Job) (ha : rj.admissionError = false)
    (hk : rj.killTimestamp = none) : getCondition now d rj = getCondition now' d rj := by
  unfold getCondition
  simp only [ha, hk, isTimeSetAndEarlierOrEqual, Bool.false_eq_true, ↓reduceIte]

end Furiko.JobCtl
