/-
Liveness of the job controller, delete part 4: CONVERGENCE OF A DELETE.  One round `roundK` (cooperative
kubelet) from a `DState` whose key is ready (`roundK_delete`): while pods are left they all get the deletion
timestamp, the Job stays and its key is ready again; when none is left the Job object is removed.
`delete_core`: at most two rounds reach `Gone` — Job object and pods removed from server and caches —
which further rounds keep (`gone_stable`).  `delete_stage`: the user deleting a Job that carries the
finalizer, in any state of the fair rounds of a single-task Job, leads to a `DState`.  Core Lean only.
-/
import FurikoModel.Proofs.JobCtlLiveD3

set_option linter.unusedSimpArgs false
set_option linter.unusedVariables false

namespace Furiko.JobCtl.Live
open Furiko Furiko.JobCtl Furiko.WQ Furiko.StatusLemmas Furiko.JobCtlPlan Furiko.Conv

/-- the environment half of a kill / delete round from a fresh state -/
theorem envK_fresh {jo : JobObj} {s : Sys} (hf : Fresh jo s) (hnd : (podNames s.pods).Nodup) (hwf : Retry.WF s.q) :
    Fresh jo (envK s) ∧ (envK s).pods = s.pods.filter stays ∧ (∀ x ∈ s.q.queue, x ∈ (envK s).q.queue) ∧
    Retry.WF (envK s).q ∧ (envK s).clock = s.clock := by
  have hidle : deliverAll s = s := deliverAll_idle s hf.jobEvs hf.podEvs
  have hps : PSync s := by unfold PSync; rw [hf.podEvs, hf.podCache]; rfl
  obtain ⟨w1, w2, w3, w4, w5, w6, w7, w8, w9, w10, w11⟩ := reap_spec s hnd
  have hjs : JSync (reap s) := by
    unfold JSync; rw [w3, w4, w2, hf.jobEvs, hf.jobCache, hf.job]; rfl
  obtain ⟨d1, d2, d3, d4, d5, d6⟩ := deliverAll_spec (reap s) (w11 hps) hjs
  have he : envK s = deliverAll (reap s) := by unfold envK; rw [hidle]
  have hq : QGrow s.q (envK s).q := by rw [he, ← w10]; exact d6
  refine ⟨?_, by rw [he, d5.pods, w1], hq.mono, hq.wf hwf, by rw [he, d5.clock, w6]⟩
  exact ⟨by rw [he, d3, w2]; exact hf.job, by rw [he, d5.job, w2]; exact hf.job, by rw [he, d4, d5.pods],
    by rw [he]; exact d1, by rw [he]; exact d2, by rw [he, d5.faults, w9]; exact hf.faults⟩

theorem stays_none {p : PodObj} (h : stays p = true) : p.pod.deletionTimestamp = none := by
  unfold stays at h
  cases hd : p.pod.deletionTimestamp with
  | none => rfl
  | some _ => rw [hd] at h; cases h

/-- **one round of a Job being deleted** -/
theorem roundK_delete {jo : JobObj} {s : Sys} (h : DState jo s) (hq : s.q.queue ≠ []) :
    (s.pods.filter stays ≠ [] → ∃ jo', DState jo' (roundK s) ∧ jo'.name = jo.name ∧
      (∀ p ∈ (roundK s).pods, p.pod.deletionTimestamp.isSome = true) ∧ (roundK s).q.queue ≠ [] ∧
      (∀ p' ∈ (roundK s).pods, ∃ p ∈ s.pods, p.pod.name = p'.pod.name)) ∧
    (s.pods.filter stays = [] → Gone (roundK s)) := by
  obtain ⟨hf1, hpods1, hqmono, hwf1, hclock1⟩ := envK_fresh h.fresh h.pods.nodup h.wf
  have hsub : ∀ p ∈ (envK s).pods, p ∈ s.pods := by
    intro p hp; rw [hpods1] at hp; exact (List.mem_filter.mp hp).1
  have h1 : DState jo (envK s) := ⟨hf1, h.del, h.fz,
    ⟨fun p hp => h.pods.owned p (hsub p hp), fun p hp => h.pods.sane p (hsub p hp),
      by rw [hpods1]; exact podNames_filter_nodup _ h.pods.nodup⟩, hwf1⟩
  have hnodel : ∀ p ∈ (envK s).pods, p.pod.deletionTimestamp = none := by
    intro p hp
    rw [hpods1] at hp
    exact stays_none (List.mem_filter.mp hp).2
  obtain ⟨a1, _, _, _, a5, _, _⟩ := Retry.advance_facts (envK s).q (envK s).clock h1.wf
  obtain ⟨k, rest, hqk⟩ : ∃ k rest, ((envK s).q.advance (envK s).clock).queue = k :: rest := by
    cases hqq : s.q.queue with
    | nil => exact absurd hqq hq
    | cons x r =>
      have hx := a5 x (hqmono x (by rw [hqq]; exact List.mem_cons_self))
      cases hqa : ((envK s).q.advance (envK s).clock).queue with
      | nil => rw [hqa] at hx; cases hx
      | cons k rest => exact ⟨k, rest, rfl⟩
  have hround : roundK s = deliverAll (work (envK s)).1 := rfl
  constructor
  · intro hne
    have hne1 : (envK s).pods ≠ [] := by rw [hpods1]; exact hne
    obtain ⟨jo', N, hj, hname, huid, hfz', hdel', hjs, hps, hpc, hpodsw, hN, hflt, hwf, hclk, hevs⟩ :=
      work_delete_keep h1 hnodel hne1 k rest hqk
    obtain ⟨d1, d2, d3, d4, d5, d6⟩ := deliverAll_spec (work (envK s)).1 hps hjs
    have hpodsR : (roundK s).pods = (envK s).pods.map (markDts (nowT (envK s)) N) := by rw [hround, d5.pods, hpodsw]
    have hmark : ∀ p ∈ (envK s).pods, (markDts (nowT (envK s)) N p).pod.deletionTimestamp.isSome = true := by
      intro p hp
      have hn : p.pod.name ∈ N := (hN p.pod.name).mpr ⟨p, hp, rfl⟩
      unfold markDts
      simp [hn, hnodel p hp]
    refine ⟨jo', ⟨?_, by rw [hdel']; exact h.del, hfz', ?_, d6.wf hwf⟩, hname, ?_, ?_, ?_⟩
    · exact ⟨by rw [hround, d3, hj], by rw [hround, d5.job, hj], by rw [hround, d4, d5.pods], by rw [hround]; exact d1,
        by rw [hround]; exact d2, by rw [hround, d5.faults]; exact hflt⟩
    · refine ⟨?_, ?_, ?_⟩
      · intro p hp
        rw [hpodsR] at hp
        obtain ⟨p0, hp0, rfl⟩ := List.mem_map.mp hp
        obtain ⟨f1, f2, f3, _⟩ := markDts_fields (nowT (envK s)) N p0
        rw [f1, f2, f3, huid, hname]; exact h1.pods.owned p0 hp0
      · intro p hp
        rw [hpodsR] at hp
        obtain ⟨p0, hp0, rfl⟩ := List.mem_map.mp hp
        obtain ⟨_, _, _, _, _, _, f7, f8⟩ := markDts_fields (nowT (envK s)) N p0
        exact ⟨f8 (h1.pods.sane p0 hp0).1, by rw [f7]; exact (h1.pods.sane p0 hp0).2⟩
      · rw [hpodsR, podNames_markDts]; exact h1.pods.nodup
    · intro p hp
      rw [hpodsR] at hp
      obtain ⟨p0, hp0, rfl⟩ := List.mem_map.mp hp
      exact hmark p0 hp0
    · -- a pod was marked: a pod event is pending
      obtain ⟨p, hp1⟩ : ∃ p, p ∈ (envK s).pods := by
        cases hl : (envK s).pods with
        | nil => exact absurd hl hne1
        | cons p r => exact ⟨p, List.mem_cons_self⟩
      have hne' : (work (envK s)).1.podEvs ≠ [] := by
        intro hnil
        have hsync := hps
        unfold PSync at hsync
        rw [hnil, hpc, hpodsw] at hsync
        have := map_eq_self _ _ hsync.symm p hp1
        have hm := hmark p hp1
        rw [this, hnodel p hp1] at hm
        cases hm
      cases hev : (work (envK s)).1.podEvs with
      | nil => exact absurd hev hne'
      | cons e rest' =>
        obtain ⟨p0, hp0, pe, e1, e2, e3⟩ := hevs e (by rw [hev]; exact List.mem_cons_self)
        subst e1
        have ho := h1.pods.owned p0 hp0
        rw [hround]
        exact deliverAll_ready_pod _ jo' pe rest' hev hjs hj (by rw [e2, huid]; exact ho.1) (by rw [e3, hname]; exact ho.2.1) hwf
    · intro p' hp'
      rw [hpodsR] at hp'
      obtain ⟨p0, hp0, rfl⟩ := List.mem_map.mp hp'
      exact ⟨p0, hsub p0 hp0, (markDts_fields (nowT (envK s)) N p0).2.2.2.1.symm⟩
  · intro hnil
    have hnil1 : (envK s).pods = [] := by rw [hpods1]; exact hnil
    obtain ⟨hj, hjs, hps, hpodsw, hflt, hwf⟩ := work_delete_drop h1 hnil1 k rest hqk
    obtain ⟨d1, d2, d3, d4, d5, d6⟩ := deliverAll_spec (work (envK s)).1 hps hjs
    exact ⟨by rw [hround, d5.job, hj], by rw [hround, d3, hj], by rw [hround, d5.pods, hpodsw],
      by rw [hround, d4, hpodsw], by rw [hround]; exact d1, by rw [hround]; exact d2, by rw [hround, d5.faults]; exact hflt⟩

/-- **a delete converges within two rounds** -/
theorem delete_core {jo : JobObj} {s : Sys} (h : DState jo s) (hq : s.q.queue ≠ []) :
    ∃ k, 1 ≤ k ∧ k ≤ 2 ∧ Gone (roundKN k s) := by
  obtain ⟨hA, hB⟩ := roundK_delete h hq
  by_cases hne : s.pods.filter stays = []
  · exact ⟨1, Nat.le_refl _, by omega, hB hne⟩
  · obtain ⟨jo1, h1, _, hall, hq1, _⟩ := hA hne
    obtain ⟨_, hB1⟩ := roundK_delete h1 hq1
    refine ⟨2, by omega, Nat.le_refl _, hB1 ?_⟩
    apply List.filter_eq_nil_iff.mpr
    intro p hp
    have := hall p hp
    unfold stays
    cases hd : p.pod.deletionTimestamp with
    | none => rw [hd] at this; cases this
    | some _ => simp

/-- nothing left: a pass, if one runs, finds the Job gone from the cache and does nothing -/
theorem work_gone {s : Sys} (h : Gone s) : Gone (work s).1 := by
  cases hg : (s.q.advance s.clock).get with
  | none =>
    rw [work_none s hg]
    exact ⟨h.job, h.jobCache, h.pods, h.podCache, h.jobEvs, h.podEvs, h.faults⟩
  | some kq =>
    obtain ⟨k, q1⟩ := kq
    have hone : syncOne (passStart s q1) = (passStart s q1, true) := by
      unfold syncOne
      have : (passStart s q1).jobCache = none := h.jobCache
      simp only [this]
    rw [work_some s k q1 hg, hone]
    exact ⟨h.job, h.jobCache, h.pods, h.podCache, h.jobEvs, h.podEvs, h.faults⟩

theorem gone_stable {s : Sys} (h : Gone s) : Gone (roundK s) := by
  have hidle : deliverAll s = s := deliverAll_idle s h.jobEvs h.podEvs
  have hreap : reap s = s := by unfold reap; rw [h.pods]; rfl
  have h1 : roundK s = deliverAll (work s).1 := by
    unfold roundK
    rw [hidle, hreap, hidle]
    rfl
  have hw := work_gone h
  rw [h1, deliverAll_idle _ hw.jobEvs hw.podEvs]
  exact hw

theorem gone_forever {s : Sys} (h : Gone s) : ∀ n, Gone (roundKN n s)
  | 0 => h
  | n + 1 => gone_forever (gone_stable h) n

/-! ### the user deletes the Job during the run of a single-task Job -/

/-- the state once the user's delete has reached the controller's cache -/
def deleteAt (s : Sys) : Sys := deliverAll (step s .userDelete)

/-- the Job with the deletion timestamp, as the server stores it -/
def deletedObj (jo : JobObj) (t : Time) (rv : Nat) : JobObj :=
  { jo with job := { jo.job with deletionTimestamp := some t }, rv := rv }

def afterDelete (s : Sys) (jo : JobObj) : Sys :=
  { s with rv := s.rv + 1, job := some (deletedObj jo (nowT s) (s.rv + 1)),
           jobEvs := s.jobEvs ++ [.upsert (deletedObj jo (nowT s) (s.rv + 1))] }

theorem deleteAt_steps {ok : Sys → Action → Prop} {j0 : JobObj} (hj : ∀ s, ok s .deliverJob) (hp : ∀ s, ok s .deliverPod)
    (hk : ∀ s, ok s .userDelete) (s0 s : Sys) (h : Steps ok j0 s0 s) : Steps ok j0 s0 (deleteAt s) :=
  deliverAll_steps hj hp s0 _ (.step _ h (hk _) trivial)

/-- **the user's delete of a Job that carries the finalizer, in a state of the fair rounds**, gives a `DState`
with the key ready -/
theorem delete_stage {ok : Sys → Action → Prop} {j0 jo : JobObj} {F0 : Int} {s : Sys} (h : Canon ok j0 jo F0 s)
    (hfz : jo.finalizer = true) :
    DState (deletedObj jo (nowT s) (s.rv + 1)) (deleteAt s) ∧ (deleteAt s).q.queue ≠ [] ∧ (deleteAt s).pods = s.pods := by
  have hstep : step s .userDelete = afterDelete s jo := by
    show userDeleteJob s = _
    unfold userDeleteJob
    rw [h.fresh.job]
    simp only [hfz, ↓reduceIte, h.spec.del, Option.isSome_none, Bool.false_eq_true]
    unfold mutateJobObj
    rw [h.fresh.job]
    rfl
  have hev : (step s .userDelete).jobEvs = [.upsert (deletedObj jo (nowT s) (s.rv + 1))] := by
    rw [hstep]; show s.jobEvs ++ _ = _; rw [h.fresh.jobEvs]; rfl
  have hps : PSync (step s .userDelete) := by
    rw [hstep]; unfold PSync
    show s.podEvs.foldl applyPEv s.podCache = s.pods
    rw [h.fresh.podEvs, h.fresh.podCache]; rfl
  have hjs : JSync (step s .userDelete) := by
    unfold JSync
    rw [hev, hstep]
    rfl
  have hwf0 : Retry.WF (step s .userDelete).q := by rw [hstep]; exact h.wf
  obtain ⟨d1, d2, d3, d4, d5, d6⟩ := deliverAll_spec (step s .userDelete) hps hjs
  have hjob : (step s .userDelete).job = some (deletedObj jo (nowT s) (s.rv + 1)) := by rw [hstep]; rfl
  have hpods0 : (step s .userDelete).pods = s.pods := by rw [hstep]; rfl
  have hflt0 : (step s .userDelete).faults = s.faults := by rw [hstep]; rfl
  have hpods : (deleteAt s).pods = s.pods := by unfold deleteAt; rw [d5.pods, hpods0]
  refine ⟨⟨?_, rfl, hfz, ?_, d6.wf hwf0⟩, deliverAll_ready _ _ [] hev hwf0, hpods⟩
  · unfold deleteAt
    exact ⟨by rw [d3, hjob], by rw [d5.job, hjob], by rw [d4, d5.pods], d1, d2, by rw [d5.faults, hflt0]; exact h.fresh.faults⟩
  · refine ⟨?_, ?_, ?_⟩
    · intro p hp; rw [hpods] at hp; exact h.pods.owned p hp
    · intro p hp; rw [hpods] at hp; exact h.pods.sane p hp
    · rw [hpods]; exact h.pods.nodup

end Furiko.JobCtl.Live
