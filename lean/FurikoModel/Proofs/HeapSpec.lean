/-
Interface theorems of the heap model: the wrapper refines a finite map `name ⇀ priority`
(`Heap.search`), and `peek`/`pop` yield an entry of minimal priority.
Statements are fixed; proofs live here.  Used by Proofs/CronTick.lean and Props/C01.lean.
-/
import FurikoModel.Model.Heap

namespace Furiko.Heap

/-- bookkeeping invariant of `priorityQueue`: `names` is exactly the inverse of position, and
every item's `index` field is its position. -/
def WF (pq : PQ) : Prop :=
  (∀ i, (h : i < pq.queue.size) → (pq.queue[i]).index = i ∧ pq.names (pq.queue[i]).name = some i) ∧
  (∀ k i, pq.names k = some i → ∃ h : i < pq.queue.size, (pq.queue[i]).name = k)

/-- min-heap order on the array: every non-root is at least its parent. -/
def HeapOrd (pq : PQ) : Prop :=
  ∀ i, (h : i < pq.queue.size) → 0 < i →
    (pq.queue[(i - 1) / 2]'(by omega)).prio ≤ (pq.queue[i]).prio

def Inv (pq : PQ) : Prop := WF pq ∧ HeapOrd pq

def lookupItems : List (String × Int) → String → Option Int
  | [], _ => none
  | (n, p) :: rest, k => if k = n then some p else lookupItems rest k

theorem inv_new (items : List (String × Int)) (hnd : (items.map Prod.fst).Nodup) :
    Inv (new items) := by sorry

theorem search_new (items : List (String × Int)) (hnd : (items.map Prod.fst).Nodup) (k : String) :
    search (new items) k = lookupItems items k := by sorry

theorem inv_push {pq : PQ} (h : Inv pq) (n : String) (p : Int) (hfresh : search pq n = none) :
    Inv (push pq n p) := by sorry

theorem search_push {pq : PQ} (h : Inv pq) (n : String) (p : Int) (hfresh : search pq n = none)
    (k : String) : search (push pq n p) k = if k = n then some p else search pq k := by sorry

theorem update_miss {pq : PQ} (n : String) (p : Int) (hmiss : search pq n = none) (h : Inv pq) :
    update pq n p = (pq, false) := by sorry

theorem inv_update {pq : PQ} (h : Inv pq) (n : String) (p : Int) : Inv (update pq n p).1 := by sorry

theorem search_update {pq : PQ} (h : Inv pq) (n : String) (p : Int) (hk : search pq n ≠ none)
    (k : String) : search (update pq n p).1 k = if k = n then some p else search pq k := by sorry

theorem inv_delete {pq : PQ} (h : Inv pq) (n : String) : Inv (delete pq n).1 := by sorry

theorem search_delete {pq : PQ} (h : Inv pq) (n : String) (k : String) :
    search (delete pq n).1 k = if k = n then none else search pq k := by sorry

theorem peek_none_iff {pq : PQ} (h : Inv pq) : peek pq = none ↔ ∀ k, search pq k = none := by sorry

theorem peek_min {pq : PQ} (h : Inv pq) {it : Item} (hp : peek pq = some it) :
    search pq it.name = some it.prio ∧ ∀ k p, search pq k = some p → it.prio ≤ p := by sorry

theorem pop_spec {pq : PQ} (h : Inv pq) {it : Item} (hp : peek pq = some it) :
    ∃ pq' it', pop pq = some (pq', it') ∧ it'.name = it.name ∧ it'.prio = it.prio ∧ Inv pq' ∧
      ∀ k, search pq' k = if k = it.name then none else search pq k := by sorry

theorem pop_none_iff {pq : PQ} : pop pq = none ↔ peek pq = none := by sorry

end Furiko.Heap
