/-
Interface theorems of the heap model: the wrapper refines a finite map `name ⇀ priority`
(`Heap.search`), and `peek`/`pop` yield an entry of minimal priority.
Statements are fixed; proofs live here.  Used by Proofs/CronTick.lean and Props/C01.lean.
-/
import FurikoModel.Model.Heap
import FurikoModel.Proofs.HeapLemmasOps

namespace Furiko.Heap

/-- bookkeeping invariant of `priorityQueue`: `names` is exactly the inverse of position, and
every item's `index` field is its position. -/
def WF (pq : PQ) : Prop :=
  (∀ i, (h : i < pq.queue.size) → (pq.queue[i]).index = i ∧ pq.names (pq.queue[i]).name = some i) ∧
  (∀ k i, pq.names k = some i → ∃ h : i < pq.queue.size, (pq.queue[i]).name = k)

/-- min-heap order on the array: every non-root is at least its parent. -/
def HeapOrd (pq : PQ) : Prop :=
  ∀ i, (h : i < pq.queue.size) → 0 < i →
    (pq.queue[(i - 1) / 2]'(by omega)).prio ≤ (pq.queue[i]).prio

def Inv (pq : PQ) : Prop := WF pq ∧ HeapOrd pq

def lookupItems : List (String × Int) → String → Option Int
  | [], _ => none
  | (n, p) :: rest, k => if k = n then some p else lookupItems rest k

/-! ### bridges to the `[i]!`-phrased helper lemmas (Proofs/HeapLemmas*.lean) -/

theorem wf_iff (pq : PQ) : WF pq ↔ WF' pq := by
  constructor
  · rintro ⟨h1, h2⟩
    refine ⟨fun i hi => ?_, fun k i hk => ?_⟩
    · rw [getElem!_pos pq.queue i hi]; exact h1 i hi
    · obtain ⟨hi, hn⟩ := h2 k i hk
      rw [getElem!_pos pq.queue i hi]; exact ⟨hi, hn⟩
  · rintro ⟨h1, h2⟩
    refine ⟨fun i hi => ?_, fun k i hk => ?_⟩
    · have := h1 i hi
      rw [getElem!_pos pq.queue i hi] at this; exact this
    · obtain ⟨hi, hn⟩ := h2 k i hk
      rw [getElem!_pos pq.queue i hi] at hn; exact ⟨hi, hn⟩

theorem heapOrd_iff (pq : PQ) : HeapOrd pq ↔ HeapFrom pq 0 pq.queue.size := by
  constructor
  · intro h m hm0 hm _
    have := h m hm hm0
    unfold prio
    rw [getElem!_pos pq.queue m hm, getElem!_pos pq.queue ((m - 1) / 2) (by omega)]
    exact this
  · intro h m hm hm0
    have := h m hm0 hm (Nat.zero_le _)
    unfold prio at this
    rw [getElem!_pos pq.queue m hm, getElem!_pos pq.queue ((m - 1) / 2) (by omega)] at this
    exact this

theorem inv_iff (pq : PQ) : Inv pq ↔ Inv' pq := by
  unfold Inv Inv'; rw [wf_iff, heapOrd_iff]

theorem search_none_iff (pq : PQ) (k : String) : search pq k = none ↔ pq.names k = none := by
  rw [search_eq]; cases pq.names k <;> simp

theorem lookupItems_not_mem (l : List (String × Int)) (k : String) (h : k ∉ l.map Prod.fst) :
    lookupItems l k = none := by
  induction l with
  | nil => rfl
  | cons hd tl ih =>
    obtain ⟨n, p⟩ := hd
    simp only [List.map_cons, List.mem_cons, not_or] at h
    unfold lookupItems
    rw [if_neg h.1]
    exact ih h.2

theorem lookupItems_cons (n : String) (p : Int) (rest : List (String × Int)) (k : String) :
    lookupItems ((n, p) :: rest) k = if k = n then some p else lookupItems rest k := rfl

theorem build_spec (l : List (String × Int)) : ∀ (a : PQ), WF' a → (l.map Prod.fst).Nodup →
    (∀ x, x ∈ l.map Prod.fst → a.names x = none) →
    WF' (new.build l a.queue.size a) ∧
      ∀ k, search (new.build l a.queue.size a) k = (lookupItems l k).or (search a k) := by
  induction l with
  | nil =>
    intro a h _ _
    exact ⟨h, fun k => rfl⟩
  | cons hd tl ih =>
    intro a h hnd hfresh
    obtain ⟨nm, p⟩ := hd
    simp only [List.map_cons, List.nodup_cons] at hnd
    have hnm : a.names nm = none := hfresh nm (by simp)
    have hwf := pushRaw_wf h nm p hnm
    rw [build_cons, ← pushRaw_size a nm p]
    have hfresh' : ∀ x, x ∈ tl.map Prod.fst → (a.pushRaw nm p).names x = none := by
      intro x hx
      rw [pushRaw_names, if_neg (by rintro rfl; exact hnd.1 hx)]
      exact hfresh x (by simp only [List.map_cons, List.mem_cons]; exact Or.inr hx)
    obtain ⟨h1, h2⟩ := ih (a.pushRaw nm p) hwf hnd.2 hfresh'
    refine ⟨h1, fun k => ?_⟩
    rw [h2 k, pushRaw_search h, lookupItems_cons nm p tl k]
    by_cases e : k = nm
    · rw [if_pos e, if_pos e, e, lookupItems_not_mem tl nm hnd.1]; rfl
    · rw [if_neg e, if_neg e]

theorem new_spec (items : List (String × Int)) (hnd : (items.map Prod.fst).Nodup) :
    Inv' (new items) ∧ ∀ k, search (new items) k = lookupItems items k := by
  obtain ⟨h1, h2⟩ := build_spec items default default_wf hnd (fun _ _ => rfl)
  rw [default_size] at h1 h2
  obtain ⟨h3, h4⟩ := heapInit_spec h1
  rw [new_eq]
  refine ⟨h3, fun k => ?_⟩
  rw [h4 k, h2 k, default_search, Option.or_none]

theorem update_some {pq : PQ} (hwf : WF' pq) (n : String) (p : Int) (idx : Nat)
    (hk : pq.names n = some idx) : update pq n p = (heapFix (setPrio pq idx p) idx, true) := by
  have hidx : (pq.queue[idx]!).index.toNat = idx := by
    rw [(hwf.1 idx (hwf.2 n idx hk).1).1]; rfl
  unfold update
  rw [hk]
  simp only [hidx]
  rfl

theorem update_none {pq : PQ} (n : String) (p : Int) (hk : pq.names n = none) :
    update pq n p = (pq, false) := by
  unfold update; rw [hk]

theorem delete_some {pq : PQ} (hwf : WF' pq) (n : String) (idx : Nat)
    (hk : pq.names n = some idx) : delete pq n = ((heapRemove pq idx).1, true) := by
  have hidx : (pq.queue[idx]!).index.toNat = idx := by
    rw [(hwf.1 idx (hwf.2 n idx hk).1).1]; rfl
  unfold delete
  rw [hk]
  simp only [hidx]

theorem delete_none {pq : PQ} (n : String) (hk : pq.names n = none) :
    delete pq n = (pq, false) := by
  unfold delete; rw [hk]

theorem update_spec {pq : PQ} (h : Inv' pq) (n : String) (p : Int) :
    Inv' (update pq n p).1 ∧
      (pq.names n ≠ none → ∀ k, search (update pq n p).1 k = if k = n then some p else search pq k) := by
  rcases Option.eq_none_or_eq_some (pq.names n) with hk | ⟨idx, hk⟩
  · rw [update_none n p hk]; exact ⟨h, fun c => absurd hk c⟩
  · rw [update_some h.1 n p idx hk]
    obtain ⟨h1, h2⟩ := heapFix_setPrio_spec h n idx p hk
    exact ⟨h1, fun _ => h2⟩

theorem delete_spec {pq : PQ} (h : Inv' pq) (n : String) :
    Inv' (delete pq n).1 ∧ ∀ k, search (delete pq n).1 k = if k = n then none else search pq k := by
  rcases Option.eq_none_or_eq_some (pq.names n) with hk | ⟨idx, hk⟩
  · rw [delete_none n hk]
    refine ⟨h, fun k => ?_⟩
    split
    · next e => rw [e]; exact (search_none_iff pq n).2 hk
    · rfl
  · rw [delete_some h.1 n idx hk]
    obtain ⟨hi, hname⟩ := h.1.2 n idx hk
    obtain ⟨h1, h2⟩ := heapRemove_spec h idx hi
    rw [hname] at h2
    exact ⟨h1, h2⟩


theorem inv_new (items : List (String × Int)) (hnd : (items.map Prod.fst).Nodup) :
    Inv (new items) := by
  exact (inv_iff _).2 (new_spec items hnd).1

theorem search_new (items : List (String × Int)) (hnd : (items.map Prod.fst).Nodup) (k : String) :
    search (new items) k = lookupItems items k := by
  exact (new_spec items hnd).2 k

theorem inv_push {pq : PQ} (h : Inv pq) (n : String) (p : Int) (hfresh : search pq n = none) :
    Inv (push pq n p) := by
  exact (inv_iff _).2 (heapPush_spec ((inv_iff _).1 h) n p ((search_none_iff pq n).1 hfresh)).1

theorem search_push {pq : PQ} (h : Inv pq) (n : String) (p : Int) (hfresh : search pq n = none)
    (k : String) : search (push pq n p) k = if k = n then some p else search pq k := by
  exact (heapPush_spec ((inv_iff _).1 h) n p ((search_none_iff pq n).1 hfresh)).2 k

theorem update_miss {pq : PQ} (n : String) (p : Int) (hmiss : search pq n = none) (h : Inv pq) :
    update pq n p = (pq, false) := by
  have _ := h
  exact update_none n p ((search_none_iff pq n).1 hmiss)

theorem inv_update {pq : PQ} (h : Inv pq) (n : String) (p : Int) : Inv (update pq n p).1 := by
  exact (inv_iff _).2 (update_spec ((inv_iff _).1 h) n p).1

theorem search_update {pq : PQ} (h : Inv pq) (n : String) (p : Int) (hk : search pq n ≠ none)
    (k : String) : search (update pq n p).1 k = if k = n then some p else search pq k := by
  exact (update_spec ((inv_iff _).1 h) n p).2 (fun c => hk ((search_none_iff pq n).2 c)) k

theorem inv_delete {pq : PQ} (h : Inv pq) (n : String) : Inv (delete pq n).1 := by
  exact (inv_iff _).2 (delete_spec ((inv_iff _).1 h) n).1

theorem search_delete {pq : PQ} (h : Inv pq) (n : String) (k : String) :
    search (delete pq n).1 k = if k = n then none else search pq k := by
  exact (delete_spec ((inv_iff _).1 h) n).2 k

theorem peek_eq_some {pq : PQ} {it : Item} (hp : peek pq = some it) :
    0 < pq.queue.size ∧ it = pq.queue[0]! := by
  unfold peek PQ.len at hp
  split at hp
  · cases hp
  · exact ⟨by omega, (Option.some.inj hp).symm⟩

theorem peek_none {pq : PQ} : peek pq = none ↔ pq.queue.size = 0 := by
  unfold peek PQ.len
  split
  · exact ⟨fun _ => (by omega), fun _ => rfl⟩
  · exact ⟨fun h => (by cases h), fun h => (by omega)⟩

theorem peek_none_iff {pq : PQ} (h : Inv pq) : peek pq = none ↔ ∀ k, search pq k = none := by
  have hwf := ((inv_iff _).1 h).1
  rw [peek_none]
  constructor
  · intro h0 k
    rw [search_none_iff]
    rcases Option.eq_none_or_eq_some (pq.names k) with hk | ⟨m, hk⟩
    · exact hk
    · have := (hwf.2 k m hk).1; omega
  · intro hall
    refine Nat.eq_zero_of_not_pos (fun hpos => ?_)
    have h1 := (hwf.1 0 hpos).2
    have h2 := (search_none_iff pq _).1 (hall (pq.queue[0]!).name)
    rw [h1] at h2; cases h2

theorem peek_min {pq : PQ} (h : Inv pq) {it : Item} (hp : peek pq = some it) :
    search pq it.name = some it.prio ∧ ∀ k p, search pq k = some p → it.prio ≤ p := by
  obtain ⟨hwf, ho⟩ := (inv_iff _).1 h
  obtain ⟨hpos, rfl⟩ := peek_eq_some hp
  constructor
  · rw [search_eq, (hwf.1 0 hpos).2]; rfl
  · intro k p hk
    rw [search_eq] at hk
    rcases Option.eq_none_or_eq_some (pq.names k) with hn | ⟨m, hn⟩
    · rw [hn] at hk; cases hk
    · rw [hn] at hk
      have : prio pq m = p := Option.some.inj hk
      rw [← this]
      exact ho.root_le m (hwf.2 k m hn).1

theorem pop_spec {pq : PQ} (h : Inv pq) {it : Item} (hp : peek pq = some it) :
    ∃ pq' it', pop pq = some (pq', it') ∧ it'.name = it.name ∧ it'.prio = it.prio ∧ Inv pq' ∧
      ∀ k, search pq' k = if k = it.name then none else search pq k := by
  have h' := (inv_iff _).1 h
  obtain ⟨hpos, rfl⟩ := peek_eq_some hp
  obtain ⟨h1, h2, h3⟩ := heapPop_spec h' hpos
  refine ⟨(heapPop pq).1, (heapPop pq).2, ?_, ?_, ?_, (inv_iff _).2 h1, h3⟩
  · unfold pop PQ.len
    rw [if_neg (by omega)]
  · rw [h2]
  · rw [h2]

theorem pop_none_iff {pq : PQ} : pop pq = none ↔ peek pq = none := by
  rw [peek_none]
  unfold pop PQ.len
  split
  · exact ⟨fun _ => (by assumption), fun _ => rfl⟩
  · exact ⟨fun h => (by cases h), fun h => (by omega)⟩

end Furiko.Heap
