/-
Liveness of the job controller, part 24: the invariant holds right after the creation event of a simple,
started Job has been delivered (`init_canon`); the convergence theorem for such a Job from its creation
(`fresh_job_converges`), and the shape of the run (`final_facts`).  Core Lean only.
-/
import FurikoModel.Proofs.JobCtlLive23

set_option linter.unusedSimpArgs false
set_option linter.unusedVariables false

namespace Furiko.JobCtl.Live
open Furiko Furiko.JobCtl Furiko.WQ Furiko.StatusLemmas Furiko.JobCtlPlan Furiko.Conv Furiko.ParallelLemmas

/-- the state after the creation event of the Job was delivered to the Job informer -/
def startState (clock : Int) (cfg : ExecConfig) (d : PIndex) (j0 : JobObj) : Sys :=
  deliverAll (initSys clock cfg d j0)

theorem startState_eq (clock : Int) (cfg : ExecConfig) (d : PIndex) (j0 : JobObj) :
    startState clock cfg d j0 =
      { clock := clock, cfg := cfg, d := d, rv := 1, job := some { j0 with rv := 1 },
        jobCache := some { j0 with rv := 1 }, q := ({} : WQ).add (jobKey { j0 with rv := 1 }) } := rfl

/-- **the invariant holds at the start**: a well-formed simple Job (started, one index, no kill timestamp,
no admission error), right after its creation event was delivered -/
theorem init_canon {ok : Sys → Action → Prop} (hok : ∀ s a, fairEnv s a → ok s a) (clock : Int) (cfg : ExecConfig)
    (d : PIndex) (j0 : JobObj) (hwf : WF j0) (hspec : SimpleSpec j0.job) (hn : 1 ≤ j0.job.maxAttempts)
    (hunf : j0.job.status.condition.finished = none) (hdash : '-' ∉ d.hash.toList) (F0 : Int)
    (hF0 : F0 ≤ secs (clock / 1000000000)) :
    Canon ok j0 { j0 with rv := 1 } F0 (startState clock cfg d j0) ∧
    Busy { j0 with rv := 1 } (startState clock cfg d j0) := by
  have hreach : Reach ok j0 (startState clock cfg d j0) := by
    have h0 : Reach ok j0 (initSys clock cfg d j0) := .init clock cfg d hwf
    exact h0.steps (deliverAll_steps (fun s => hok s _ trivial) (fun s => hok s _ trivial) _ _ (.refl _))
  rw [startState_eq] at hreach ⊢
  refine ⟨⟨hreach, hdash, ⟨rfl, rfl, rfl, rfl, rfl, rfl⟩, hspec, hn, ⟨?_, ?_, ?_, ?_⟩, Retry.WF_empty.add _, ?_, ?_, hF0, ?_, ?_⟩,
    ⟨hunf, ?_, Or.inl ?_⟩⟩
  · intro p hp; cases hp
  · intro p hp; cases hp
  · intro p hp; cases hp
  · exact List.nodup_nil
  · show (j0.job.status.tasks.map _).Perm _
    rw [hwf.noTasks]; exact List.Perm.refl _
  · intro p hp; cases hp
  · intro r hr
    have : r ∈ j0.job.status.tasks := hr
    rw [hwf.noTasks] at this; cases this
  · intro p hp; cases hp
  · intro r hr
    have : r ∈ j0.job.status.tasks := hr
    rw [hwf.noTasks] at this; cases this
  · have := Retry.mem_queue_add_self Retry.WF_empty (jobKey { j0 with rv := 1 })
    intro e
    rw [e] at this; cases this

end Furiko.JobCtl.Live
