/-
Preservation of the global invariant `Inv` (Proofs/QueueEnv.lean): building blocks.
-/
import FurikoModel.Proofs.QueueEnv

set_option linter.unusedSimpArgs false
set_option linter.unusedVariables false

namespace Furiko.Queue
open Furiko.WQ

/-! ### pipeline algebra -/

theorem applyEvs_append (cache : List JobV) (evs : List Ev) (e : Ev) :
    applyEvs cache (evs ++ [e]) = applyEv (applyEvs cache evs) e := by
  simp [applyEvs]

theorem futureNotes_append (cache : List JobV) (evs : List Ev) (e : Ev) :
    futureNotes cache (evs ++ [e])
      = futureNotes cache evs ++ (noteOf (applyEvs cache evs) e).toList := by
  induction evs generalizing cache with
  | nil => simp [futureNotes, applyEvs]
  | cons x rest ih =>
    simp only [List.cons_append, futureNotes, ih, applyEvs, List.foldl_cons, List.append_assoc]

theorem deliverJob_eq {s : Sys} {e : Ev} {rest : List Ev} (h : s.jobEvs = e :: rest) :
    deliverJob s = { s with jobEvs := rest, jobCache := applyEv s.jobCache e,
                            storeQ := s.storeQ ++ (noteOf s.jobCache e).toList,
                            ctrlQ := s.ctrlQ ++ (noteOf s.jobCache e).toList } := by
  unfold deliverJob
  rw [h]
  cases e with
  | add j =>
    simp only [noteOf, applyEv, Option.toList_some]
    cases hf : findJob s.jobCache j.name <;> rfl
  | update j =>
    simp only [noteOf, applyEv, Option.toList_some]
    cases hf : findJob s.jobCache j.name <;> rfl
  | delete j =>
    simp only [noteOf, applyEv]
    cases hf : findJob s.jobCache j.name with
    | none => simp
    | some old => simp

theorem pending_deliver {s : Sys} {e : Ev} {rest : List Ev} (h : s.jobEvs = e :: rest) :
    pending (deliverJob s) = pending s := by
  rw [deliverJob_eq h]
  simp only [pending, h, futureNotes, List.append_assoc]

/-! ### the delta identity -/

/-- +1 exactly for an unstarted → active transition (the one `OnUpdate` does not count) -/
def bonus (cur nj : JobV) : Int := if (!cur.isStarted && nj.isActive) = true then 1 else 0

theorem delta_identity (cur nj : JobV) (uid : String) (hl : cur.label = nj.label)
    (hterm : cur.terminal = true → nj.terminal = true) :
    ((actInd nj uid : Nat) : Int) - (actInd cur uid : Nat)
      = if cur.label = some uid then updDelta cur nj + bonus cur nj else 0 := by
  unfold actInd updDelta bonus JobV.isActive JobV.isStarted
  rw [← hl]
  by_cases hlab : cur.label = some uid
  · simp only [hlab, decide_true, Bool.true_and, if_true]
    cases h1 : cur.startTime.isSome <;> cases h2 : nj.startTime.isSome <;>
      cases h3 : cur.terminal <;> cases h4 : nj.terminal <;> simp_all
  · simp [hlab]

theorem noteDelta_nonpos {n : Note} (h : goodNote n) (uid : String) : noteDelta n uid ≤ 0 := by
  cases n with
  | add j => simp [noteDelta]
  | update o n =>
    simp only [noteDelta]
    split
    · simp only [goodNote] at h
      unfold updDelta JobV.isActive JobV.isStarted
      cases h1 : o.startTime.isSome <;> cases h2 : n.startTime.isSome <;>
        cases h3 : o.terminal <;> cases h4 : n.terminal <;> simp_all
    · omega
  | delete j =>
    simp only [noteDelta, delDelta]
    split
    · split <;> omega
    · omega

theorem sumDelta_nonpos {l : List Note} (h : ∀ n ∈ l, goodNote n) (uid : String) :
    sumDelta l uid ≤ 0 := by
  induction l with
  | nil => simp
  | cons n rest ih =>
    have h1 := noteDelta_nonpos (h n (by simp)) uid
    have h2 := ih (fun m hm => h m (by simp [hm]))
    simp only [sumDelta_cons]; omega

/-! ### `sameSpec` -/

theorem sameSpec_refl (a : JobV) : sameSpec a a := by simp [sameSpec]

theorem sameSpec_symm {a b : JobV} (h : sameSpec a b) : sameSpec b a := by
  obtain ⟨h1, h2, h3, h4, h5, h6, h7⟩ := h
  exact ⟨h1.symm, h2.symm, h3.symm, h4.symm, h5.symm, h6.symm, h7.symm⟩

theorem sameSpec_trans {a b c : JobV} (h : sameSpec a b) (h' : sameSpec b c) : sameSpec a c := by
  obtain ⟨h1, h2, h3, h4, h5, h6, h7⟩ := h
  obtain ⟨g1, g2, g3, g4, g5, g6, g7⟩ := h'
  exact ⟨h1.trans g1, h2.trans g2, h3.trans g3, h4.trans g4, h5.trans g5, h6.trans g6, h7.trans g7⟩

theorem wfJob_of_sameSpec {a b : JobV} (h : sameSpec a b) (hw : wfJob a) : wfJob b := by
  obtain ⟨h1, h2, h3, h4, h5, h6, h7⟩ := h
  unfold wfJob at *
  rw [← h1, ← h2, ← h5, ← h7]; exact hw

theorem sameFixed_refl (a : JobV) : sameFixed a a := by simp [sameFixed]

theorem sameFixed_symm {a b : JobV} (h : sameFixed a b) : sameFixed b a := by
  obtain ⟨h1, h2, h3, h4, h5, h6⟩ := h
  exact ⟨h1.symm, h2.symm, h3.symm, h4.symm, h5.symm, h6.symm⟩

theorem sameFixed_trans {a b c : JobV} (h : sameFixed a b) (h' : sameFixed b c) : sameFixed a c := by
  obtain ⟨h1, h2, h3, h4, h5, h6⟩ := h
  obtain ⟨g1, g2, g3, g4, g5, g6⟩ := h'
  exact ⟨h1.trans g1, h2.trans g2, h3.trans g3, h4.trans g4, h5.trans g5, h6.trans g6⟩

theorem sameSpec.fixed {a b : JobV} (h : sameSpec a b) : sameFixed a b := by
  obtain ⟨h1, h2, h3, h4, h5, h6, _⟩ := h
  exact ⟨h1, h2, h3, h4, h5, h6⟩

/-! ### immediate consequences of the invariant -/

/-- `counter_upper` on the invariant -/
theorem Inv.counter_upper {s : Sys} (h : Inv s) (uid : String) :
    (actCount s.jobs uid : Int) ≤ getCtr s.counter uid := by
  have h1 := h.ctr uid
  have h2 := sumDelta_nonpos h.good uid
  omega

theorem Inv.quiescent_exact {s : Sys} (h : Inv s) (hev : s.jobEvs = []) (hsq : s.storeQ = [])
    (uid : String) : getCtr s.counter uid = actCount s.jobs uid := by
  have h1 := h.ctr uid
  simp only [pending, hev, hsq, futureNotes, List.append_nil, sumDelta_nil] at h1
  omega

/-- a cached version with the authoritative resourceVersion is the authoritative version -/
theorem Inv.cached_eq_cur {s : Sys} (h : Inv s) {j cur : JobV} (hj : j ∈ s.jobCache)
    (hcur : findJob s.jobs j.name = some cur) (hrv : cur.rv = j.rv) : cur = j := by
  have hv1 : Ver s cur := Or.inl (findJob_some_mem hcur)
  have hv2 : Ver s j := Or.inr (Or.inl hj)
  exact (h.verFn cur j hv1 hv2 (findJob_some_name hcur)).2 hrv

/-! ### frame: states that agree on the relevant fields -/

/-- `Inv` only reads `rv`, `jobs`, `jobEvs`, `jobCache`, `storeQ`, `ctrlQ`, `counter` (pointwise),
`indQ.keys`, `faults`. -/
theorem Inv_congr {s s' : Sys} (h : Inv s)
    (e_rv : s.rv ≤ s'.rv) (e_jobs : s'.jobs = s.jobs) (e_evs : s'.jobEvs = s.jobEvs)
    (e_cache : s'.jobCache = s.jobCache) (e_sq : s'.storeQ = s.storeQ)
    (e_cq : ∀ n ∈ s'.ctrlQ, n ∈ s.ctrlQ)
    (e_ctr : ∀ uid, getCtr s'.counter uid = getCtr s.counter uid)
    (e_ind : ∀ k ∈ s'.indQ.keys, ∀ j, Ver s j → j.name = keyName k → j.label = none)
    (e_faults : ∀ f ∈ s'.faults, f ∈ s.faults ∨ okFault f) : Inv s' := by
  have hver : ∀ j, Ver s' j → Ver s j := by
    intro j hj; unfold Ver at hj ⊢; rw [e_jobs, e_evs, e_cache, e_sq] at hj
    rcases hj with hj | hj | hj | hj | ⟨n, hn, hnj⟩
    · exact Or.inl hj
    · exact Or.inr (Or.inl hj)
    · exact Or.inr (Or.inr (Or.inl hj))
    · exact Or.inr (Or.inr (Or.inr (Or.inl hj)))
    · exact Or.inr (Or.inr (Or.inr (Or.inr ⟨n, e_cq n hn, hnj⟩)))
  have hpend : pending s' = pending s := by unfold pending; rw [e_sq, e_cache, e_evs]
  refine ⟨?_, ?_, ?_, ?_, ?_, ?_, ?_, ?_, ?_, ?_⟩
  · rw [e_jobs]; exact h.jobsNodup
  · rw [e_cache]; exact h.cacheNodup
  · rw [e_cache, e_evs, e_jobs]; exact h.pipe
  · intro uid; rw [e_ctr, hpend, e_jobs]; exact h.ctr uid
  · rw [hpend]; exact h.good
  · intro j hj; exact h.verWf j (hver j hj)
  · intro j hj; exact Nat.le_trans (h.verRv j (hver j hj)) e_rv
  · intro j1 j2 h1 h2; exact h.verFn j1 j2 (hver j1 h1) (hver j2 h2)
  · intro k hk j hj hn; exact e_ind k hk j (hver j hj) hn
  · intro f hf
    rcases e_faults f hf with hf | hf
    · exact h.faultsOk f hf
    · exact hf

/-- the `e_ind` side condition of `Inv_congr` when no new key appears -/
theorem Inv.ind_of_sub {s : Sys} (h : Inv s) {keys : List String}
    (hsub : ∀ k ∈ keys, k ∈ s.indQ.keys) :
    ∀ k ∈ keys, ∀ j, Ver s j → j.name = keyName k → j.label = none :=
  fun k hk => h.ind k (hsub k hk)

/-! ### an authoritative update `cur → nj` (finish, start write, reject write) -/

theorem Inv_update' {s s' : Sys} (h : Inv s) {cur nj : JobV}
    (hcur : findJob s.jobs nj.name = some cur)
    (hspec : sameFixed cur nj) (hwf : wfJob nj) (hrv : nj.rv = s.rv + 1)
    (hterm : cur.terminal = true → nj.terminal = true)
    (e_rv : s'.rv = s.rv + 1) (e_jobs : s'.jobs = setJob s.jobs nj)
    (e_evs : s'.jobEvs = s.jobEvs ++ [.update nj])
    (e_cache : s'.jobCache = s.jobCache) (e_sq : s'.storeQ = s.storeQ) (e_cq : s'.ctrlQ = s.ctrlQ)
    (e_ctr : ∀ uid, getCtr s'.counter uid
        = getCtr s.counter uid + (if cur.label = some uid then bonus cur nj else 0))
    (e_ind : s'.indQ = s.indQ) (e_faults : ∀ f ∈ s'.faults, f ∈ s.faults) : Inv s' := by
  have hcurmem : cur ∈ s.jobs := findJob_some_mem hcur
  have hcurname : cur.name = nj.name := findJob_some_name hcur
  have hvcur : Ver s cur := Or.inl hcurmem
  have hver : ∀ j, Ver s' j → Ver s j ∨ j = nj := by
    intro j hj
    unfold Ver at hj ⊢
    rw [e_jobs, e_evs, e_cache, e_sq, e_cq] at hj
    rcases hj with hj | hj | ⟨e, he, hej⟩ | hj | hj
    · rcases mem_setJob hj with hj | hj
      · exact Or.inl (Or.inl hj)
      · exact Or.inr hj
    · exact Or.inl (Or.inr (Or.inl hj))
    · rcases List.mem_append.mp he with he | he
      · exact Or.inl (Or.inr (Or.inr (Or.inl ⟨e, he, hej⟩)))
      · simp only [List.mem_singleton] at he; subst he; exact Or.inr hej.symm
    · exact Or.inl (Or.inr (Or.inr (Or.inr (Or.inl hj))))
    · exact Or.inl (Or.inr (Or.inr (Or.inr (Or.inr hj))))
  have hnote : noteOf s.jobs (.update nj) = some (.update cur nj) := by
    simp only [noteOf, hcur]
  have hpend : pending s' = pending s ++ [.update cur nj] := by
    unfold pending
    rw [e_sq, e_cache, e_evs, futureNotes_append, h.pipe, hnote]
    simp
  have hspecnj : ∀ j, Ver s j → j.name = nj.name → sameFixed j nj := by
    intro j hj hn
    exact sameFixed_trans (h.verFn j cur hj hvcur (hn.trans hcurname.symm)).1 hspec
  refine ⟨?_, ?_, ?_, ?_, ?_, ?_, ?_, ?_, ?_, ?_⟩
  · rw [e_jobs]; exact nodup_names_setJob h.jobsNodup
  · rw [e_cache]; exact h.cacheNodup
  · rw [e_cache, e_evs, applyEvs_append, h.pipe, e_jobs]; rfl
  · intro uid
    rw [e_ctr, hpend, sumDelta_append, e_jobs]
    have h1 := h.ctr uid
    have h2 := actCount_setJob uid h.jobsNodup hcur
    have h3 := delta_identity cur nj uid hspec.1 hterm
    simp only [sumDelta_cons, sumDelta_nil, noteDelta]
    split at h3 <;> simp_all <;> omega
  · rw [hpend]
    intro n hn
    rcases List.mem_append.mp hn with hn | hn
    · exact h.good n hn
    · simp only [List.mem_singleton] at hn; subst hn; exact hterm
  · intro j hj
    rcases hver j hj with hj | rfl
    · exact h.verWf j hj
    · exact hwf
  · intro j hj
    rw [e_rv]
    rcases hver j hj with hj | rfl
    · exact Nat.le_succ_of_le (h.verRv j hj)
    · omega
  · intro j1 j2 h1 h2 hn
    rcases hver j1 h1 with h1 | rfl <;> rcases hver j2 h2 with h2 | rfl
    · exact h.verFn j1 j2 h1 h2 hn
    · refine ⟨hspecnj j1 h1 hn, fun hr => ?_⟩
      have := h.verRv j1 h1; omega
    · refine ⟨sameFixed_symm (hspecnj j2 h2 hn.symm), fun hr => ?_⟩
      have := h.verRv j2 h2; omega
    · exact ⟨sameFixed_refl _, fun _ => rfl⟩
  · intro k hk j hj hn
    rw [e_ind] at hk
    rcases hver j hj with hj | rfl
    · exact h.ind k hk j hj hn
    · rw [← hspec.1]; exact h.ind k hk cur hvcur (hcurname.trans hn)
  · intro f hf; exact h.faultsOk f (e_faults f hf)

/-- the same for a write that leaves the whole spec (incl. `startAfter`) unchanged: finish, start
write, reject write -/
theorem Inv_update {s s' : Sys} (h : Inv s) {cur nj : JobV}
    (hcur : findJob s.jobs nj.name = some cur)
    (hspec : sameSpec cur nj) (hrv : nj.rv = s.rv + 1)
    (hterm : cur.terminal = true → nj.terminal = true)
    (e_rv : s'.rv = s.rv + 1) (e_jobs : s'.jobs = setJob s.jobs nj)
    (e_evs : s'.jobEvs = s.jobEvs ++ [.update nj])
    (e_cache : s'.jobCache = s.jobCache) (e_sq : s'.storeQ = s.storeQ) (e_cq : s'.ctrlQ = s.ctrlQ)
    (e_ctr : ∀ uid, getCtr s'.counter uid
        = getCtr s.counter uid + (if cur.label = some uid then bonus cur nj else 0))
    (e_ind : s'.indQ = s.indQ) (e_faults : ∀ f ∈ s'.faults, f ∈ s.faults) : Inv s' :=
  Inv_update' h hcur hspec.fixed
    (wfJob_of_sameSpec hspec (h.verWf cur (Or.inl (findJob_some_mem hcur)))) hrv hterm
    e_rv e_jobs e_evs e_cache e_sq e_cq e_ctr e_ind e_faults

/-! ### creation of a fresh Job -/

theorem Inv_add {s s' : Sys} (h : Inv s) {nj : JobV}
    (hfresh : FreshName s nj.name) (hwf : wfJob nj) (hrv : nj.rv = s.rv + 1)
    (hinact : nj.isActive = false)
    (e_rv : s'.rv = s.rv + 1) (e_jobs : s'.jobs = s.jobs ++ [nj])
    (e_evs : s'.jobEvs = s.jobEvs ++ [.add nj])
    (e_cache : s'.jobCache = s.jobCache) (e_sq : s'.storeQ = s.storeQ) (e_cq : s'.ctrlQ = s.ctrlQ)
    (e_ctr : s'.counter = s.counter) (e_ind : s'.indQ = s.indQ) (e_faults : s'.faults = s.faults) :
    Inv s' := by
  have hnone : findJob s.jobs nj.name = none :=
    findJob_none_iff.mpr (fun j hj => hfresh.1 j (Or.inl hj))
  have hset : setJob s.jobs nj = s.jobs ++ [nj] := by
    unfold setJob
    have : ¬ s.jobs.any (·.name = nj.name) = true := by
      simp only [List.any_eq_true, decide_eq_true_eq, not_exists, not_and]
      exact fun j hj => hfresh.1 j (Or.inl hj)
    rw [if_neg this]
  have hver : ∀ j, Ver s' j → Ver s j ∨ j = nj := by
    intro j hj
    unfold Ver at hj ⊢
    rw [e_jobs, e_evs, e_cache, e_sq, e_cq] at hj
    rcases hj with hj | hj | ⟨e, he, hej⟩ | hj | hj
    · rcases List.mem_append.mp hj with hj | hj
      · exact Or.inl (Or.inl hj)
      · simp only [List.mem_singleton] at hj; exact Or.inr hj
    · exact Or.inl (Or.inr (Or.inl hj))
    · rcases List.mem_append.mp he with he | he
      · exact Or.inl (Or.inr (Or.inr (Or.inl ⟨e, he, hej⟩)))
      · simp only [List.mem_singleton] at he; subst he; exact Or.inr hej.symm
    · exact Or.inl (Or.inr (Or.inr (Or.inr (Or.inl hj))))
    · exact Or.inl (Or.inr (Or.inr (Or.inr (Or.inr hj))))
  have hnote : noteOf s.jobs (.add nj) = some (.add nj) := by
    simp only [noteOf, hnone]
  have hpend : pending s' = pending s ++ [.add nj] := by
    unfold pending
    rw [e_sq, e_cache, e_evs, futureNotes_append, h.pipe, hnote]
    simp
  refine ⟨?_, ?_, ?_, ?_, ?_, ?_, ?_, ?_, ?_, ?_⟩
  · rw [e_jobs, ← hset]; exact nodup_names_setJob h.jobsNodup
  · rw [e_cache]; exact h.cacheNodup
  · rw [e_cache, e_evs, applyEvs_append, h.pipe, e_jobs, ← hset]; rfl
  · intro uid
    rw [e_ctr, hpend, sumDelta_append, e_jobs, actCount_append]
    have h1 := h.ctr uid
    have : actInd nj uid = 0 := by simp [actInd, hinact]
    simp only [sumDelta_cons, sumDelta_nil, noteDelta, actCount_cons, actCount_nil, this]
    omega
  · rw [hpend]
    intro n hn
    rcases List.mem_append.mp hn with hn | hn
    · exact h.good n hn
    · simp only [List.mem_singleton] at hn; subst hn; trivial
  · intro j hj
    rcases hver j hj with hj | rfl
    · exact h.verWf j hj
    · exact hwf
  · intro j hj
    rw [e_rv]
    rcases hver j hj with hj | rfl
    · exact Nat.le_succ_of_le (h.verRv j hj)
    · omega
  · intro j1 j2 h1 h2 hn
    rcases hver j1 h1 with h1 | rfl <;> rcases hver j2 h2 with h2 | rfl
    · exact h.verFn j1 j2 h1 h2 hn
    · exact absurd hn (hfresh.1 j1 h1)
    · exact absurd hn.symm (hfresh.1 j2 h2)
    · exact ⟨sameFixed_refl _, fun _ => rfl⟩
  · intro k hk j hj hn
    rw [e_ind] at hk
    rcases hver j hj with hj | rfl
    · exact h.ind k hk j hj hn
    · exact absurd hn.symm (hfresh.2 k hk)
  · rw [e_faults]; exact h.faultsOk

/-! ### deletion -/

theorem Inv_remove {s s' : Sys} (h : Inv s) {cur : JobV} {n : String}
    (hcur : findJob s.jobs n = some cur)
    (e_rv : s'.rv = s.rv) (e_jobs : s'.jobs = delJob s.jobs n)
    (e_evs : s'.jobEvs = s.jobEvs ++ [.delete cur])
    (e_cache : s'.jobCache = s.jobCache) (e_sq : s'.storeQ = s.storeQ) (e_cq : s'.ctrlQ = s.ctrlQ)
    (e_ctr : s'.counter = s.counter) (e_ind : s'.indQ = s.indQ) (e_faults : s'.faults = s.faults) :
    Inv s' := by
  have hcurmem : cur ∈ s.jobs := findJob_some_mem hcur
  have hcurname : cur.name = n := findJob_some_name hcur
  have hver : ∀ j, Ver s' j → Ver s j := by
    intro j hj
    unfold Ver at hj ⊢
    rw [e_jobs, e_evs, e_cache, e_sq, e_cq] at hj
    rcases hj with hj | hj | ⟨e, he, hej⟩ | hj | hj
    · exact Or.inl (mem_delJob hj)
    · exact Or.inr (Or.inl hj)
    · rcases List.mem_append.mp he with he | he
      · exact Or.inr (Or.inr (Or.inl ⟨e, he, hej⟩))
      · simp only [List.mem_singleton] at he; subst he
        simp only [Ev.job] at hej; subst hej; exact Or.inl hcurmem
    · exact Or.inr (Or.inr (Or.inr (Or.inl hj)))
    · exact Or.inr (Or.inr (Or.inr (Or.inr hj)))
  have hnote : noteOf s.jobs (.delete cur) = some (.delete cur) := by
    simp only [noteOf, hcurname, hcur]
  have happ : applyEv s.jobs (.delete cur) = delJob s.jobs n := by
    simp only [applyEv, hcurname, hcur]
  have hpend : pending s' = pending s ++ [.delete cur] := by
    unfold pending
    rw [e_sq, e_cache, e_evs, futureNotes_append, h.pipe, hnote]
    simp
  refine ⟨?_, ?_, ?_, ?_, ?_, ?_, ?_, ?_, ?_, ?_⟩
  · rw [e_jobs]; exact nodup_names_delJob h.jobsNodup
  · rw [e_cache]; exact h.cacheNodup
  · rw [e_cache, e_evs, applyEvs_append, h.pipe, e_jobs, happ]
  · intro uid
    rw [e_ctr, hpend, sumDelta_append, e_jobs]
    have h1 := h.ctr uid
    have h2 := actCount_delJob uid h.jobsNodup hcur
    simp only [sumDelta_cons, sumDelta_nil, noteDelta, delDelta]
    unfold actInd at h2
    by_cases hl : cur.label = some uid <;> by_cases ha : cur.isActive = true <;>
      simp_all <;> omega
  · rw [hpend]
    intro m hm
    rcases List.mem_append.mp hm with hm | hm
    · exact h.good m hm
    · simp only [List.mem_singleton] at hm; subst hm; trivial
  · intro j hj; exact h.verWf j (hver j hj)
  · intro j hj; rw [e_rv]; exact h.verRv j (hver j hj)
  · intro j1 j2 h1 h2; exact h.verFn j1 j2 (hver j1 h1) (hver j2 h2)
  · intro k hk j hj hn; rw [e_ind] at hk; exact h.ind k hk j (hver j hj) hn
  · rw [e_faults]; exact h.faultsOk

end Furiko.Queue
