/-
Helper lemmas for Proofs/HeapSpec.lean: the min-heap order is restored by `up` / `down`.
Only priorities matter here, so no `WF'` hypotheses are needed.
-/
import FurikoModel.Proofs.HeapLemmas

namespace Furiko.Heap

/-- heap order on `[0,n)` for all links whose parent is `≥ lo`. -/
def HeapFrom (pq : PQ) (lo n : Nat) : Prop :=
  ∀ m, 0 < m → m < n → lo ≤ (m - 1) / 2 → prio pq ((m - 1) / 2) ≤ prio pq m

/-- heap order (parents `≥ lo`) except for links from `i` to its children, plus bridging. -/
def DownInv (pq : PQ) (i lo n : Nat) : Prop :=
  (∀ m, 0 < m → m < n → lo ≤ (m - 1) / 2 → (m - 1) / 2 ≠ i → prio pq ((m - 1) / 2) ≤ prio pq m) ∧
  (∀ m, 0 < m → m < n → (m - 1) / 2 = i → 0 < i → lo ≤ (i - 1) / 2 →
    prio pq ((i - 1) / 2) ≤ prio pq m)

/-- heap order except for the link from `j` to its parent, plus bridging. -/
def UpInv (pq : PQ) (j n : Nat) : Prop :=
  (∀ m, 0 < m → m < n → m ≠ j → prio pq ((m - 1) / 2) ≤ prio pq m) ∧
  (∀ m, 0 < m → m < n → (m - 1) / 2 = j → 0 < j → prio pq ((j - 1) / 2) ≤ prio pq m)

theorem DownInv.done {pq : PQ} {i lo n : Nat} (h : DownInv pq i lo n)
    (hc : ∀ m, 0 < m → m < n → (m - 1) / 2 = i → prio pq i ≤ prio pq m) : HeapFrom pq lo n := by
  intro m h0 hm hlo
  by_cases e : (m - 1) / 2 = i
  · rw [e]; exact hc m h0 hm e
  · exact h.1 m h0 hm hlo e

theorem DownInv.swap {pq : PQ} {i j lo n : Nat} (h : DownInv pq i lo n) (hn : n ≤ pq.queue.size)
    (hjn : j < n) (hj : j = 2 * i + 1 ∨ j = 2 * i + 2) (hlt : prio pq j < prio pq i)
    (h1 : prio pq j ≤ prio pq (2 * i + 1)) (h2 : 2 * i + 2 < n → prio pq j ≤ prio pq (2 * i + 2)) :
    DownInv (pq.swap i j) j lo n := by
  have hi' : i < pq.queue.size := by omega
  have hj' : j < pq.queue.size := by omega
  constructor
  · intro m h0 hm hlo hne
    rw [swap_prio pq i j _ hi' hj', swap_prio pq i j _ hi' hj', if_neg hne]
    by_cases e1 : m = j
    · have : (m - 1) / 2 = i := by omega
      rw [if_pos this, if_pos e1]; omega
    · rw [if_neg e1]
      by_cases e2 : m = i
      · have : (m - 1) / 2 ≠ i := by omega
        rw [if_neg this, if_pos e2]
        have := h.2 j (by omega) hjn (by omega) (by omega) (by omega)
        rw [← e2] at this
        exact this
      · rw [if_neg e2]
        by_cases e3 : (m - 1) / 2 = i
        · rw [if_pos e3]
          have : m = 2 * i + 1 ∨ m = 2 * i + 2 := by omega
          rcases this with rfl | rfl
          · exact h1
          · exact h2 hm
        · rw [if_neg e3]
          exact h.1 m h0 hm hlo e3
  · intro m h0 hm hp hj0 hlo
    have e : (j - 1) / 2 = i := by omega
    have hmi : m ≠ i := by omega
    have hmj : m ≠ j := by omega
    have hij : i ≠ j := by omega
    rw [swap_prio pq i j _ hi' hj', swap_prio pq i j _ hi' hj', e, if_neg hij, if_pos rfl,
      if_neg hmj, if_neg hmi]
    have := h.1 m h0 hm (by omega) (by omega)
    rw [hp] at this
    exact this

theorem downLoop_heap {lo n : Nat} (fuel : Nat) : ∀ {pq : PQ} (i : Nat), n ≤ pq.queue.size →
    n ≤ fuel + i → DownInv pq i lo n → HeapFrom (downLoop pq i n fuel).1 lo n := by
  induction fuel with
  | zero =>
    intro pq i _ hf h
    exact h.done (fun m h0 hm e => by omega)
  | succ fuel ih =>
    intro pq i hn hf h
    rw [downLoop_succ]
    split
    · exact h.done (fun m h0 hm e => by omega)
    · next hj1 =>
      obtain ⟨hc, hcn, hc1, hc2⟩ := child_spec pq i n (by omega)
      generalize child pq i n = j at *
      split
      · next hl =>
        simp only [less_eq, Bool.not_eq_eq_eq_not, Bool.not_true, decide_eq_false_iff_not,
          Int.not_lt] at hl
        refine h.done (fun m h0 hm e => ?_)
        have : m = 2 * i + 1 ∨ m = 2 * i + 2 := by omega
        rcases this with rfl | rfl
        · omega
        · have := hc2 hm; omega
      · next hl =>
        simp only [less_eq, Bool.not_eq_eq_eq_not, Bool.not_true, decide_eq_false_iff_not,
          Int.not_lt, Int.not_le] at hl
        exact ih j (by rw [swap_size]; exact hn) (by omega) (h.swap hn hcn hc hl hc1 hc2)

theorem down_heap {lo n : Nat} {pq : PQ} (i : Nat) (hn : n ≤ pq.queue.size)
    (h : DownInv pq i lo n) : HeapFrom (down pq i n).1 lo n :=
  downLoop_heap n i hn (by omega) h

/-- if `i` is already `≤` its children, `down` does nothing. -/
theorem downLoop_noop {pq : PQ} {i n : Nat} (fuel : Nat)
    (hc : ∀ m, 0 < m → m < n → (m - 1) / 2 = i → prio pq i ≤ prio pq m) :
    downLoop pq i n fuel = (pq, i) := by
  cases fuel with
  | zero => rfl
  | succ fuel =>
    rw [downLoop_succ]
    split
    · rfl
    · next hj1 =>
      obtain ⟨hj, hjn, -, -⟩ := child_spec pq i n (by omega)
      have := hc (child pq i n) (by omega) hjn (by omega)
      have hl : pq.less (child pq i n) i = false := by
        rw [less_eq]; simp only [decide_eq_false_iff_not, Int.not_lt]; exact this
      rw [hl]; rfl

/-! ### up -/

theorem UpInv.done {pq : PQ} {j n : Nat} (h : UpInv pq j n)
    (hc : j = 0 ∨ prio pq ((j - 1) / 2) ≤ prio pq j) : HeapFrom pq 0 n := by
  intro m h0 hm _
  by_cases e : m = j
  · subst e
    rcases hc with hc | hc
    · omega
    · exact hc
  · exact h.1 m h0 hm e

theorem HeapFrom.upInv {pq : PQ} {n : Nat} (h : HeapFrom pq 0 n) (j : Nat) : UpInv pq j n := by
  refine ⟨fun m h0 hm _ => h m h0 hm (Nat.zero_le _), fun m h0 hm e hj => ?_⟩
  have a1 := h m h0 hm (Nat.zero_le _)
  have a2 := h j hj (by omega) (Nat.zero_le _)
  rw [e] at a1
  omega

theorem UpInv.swap {pq : PQ} {j n : Nat} (h : UpInv pq j n) (hn : n ≤ pq.queue.size)
    (hjn : j < n) (hj0 : 0 < j) (hlt : prio pq j < prio pq ((j - 1) / 2)) :
    UpInv (pq.swap ((j - 1) / 2) j) ((j - 1) / 2) n := by
  generalize hi : (j - 1) / 2 = i at *
  have hi' : i < pq.queue.size := by omega
  have hj' : j < pq.queue.size := by omega
  have hij : i ≠ j := by omega
  constructor
  · intro m h0 hm hmi
    rw [swap_prio pq i j _ hi' hj', swap_prio pq i j _ hi' hj']
    by_cases e1 : m = j
    · subst e1
      rw [hi, if_neg hij, if_pos rfl, if_pos rfl]; omega
    · rw [if_neg e1, if_neg hmi]
      by_cases e2 : (m - 1) / 2 = j
      · rw [if_pos e2]
        have := h.2 m h0 hm e2 hj0
        rw [hi] at this; exact this
      · rw [if_neg e2]
        have := h.1 m h0 hm e1
        by_cases e3 : (m - 1) / 2 = i
        · rw [if_pos e3]; rw [e3] at this; omega
        · rw [if_neg e3]; exact this
  · intro m h0 hm hp hi0
    have n1 : (i - 1) / 2 ≠ i := by omega
    have n2 : (i - 1) / 2 ≠ j := by omega
    have a1 := h.1 i hi0 (by omega) hij
    rw [swap_prio pq i j _ hi' hj', swap_prio pq i j _ hi' hj', if_neg n2, if_neg n1]
    by_cases e1 : m = j
    · rw [if_pos e1]; exact a1
    · have : m ≠ i := by omega
      rw [if_neg e1, if_neg this]
      have := h.1 m h0 hm e1
      rw [hp] at this; omega

theorem up_heap {n : Nat} (fuel : Nat) : ∀ {pq : PQ} (j : Nat), n ≤ pq.queue.size → j < n →
    j + 1 ≤ fuel → UpInv pq j n → HeapFrom (up pq j fuel) 0 n := by
  induction fuel with
  | zero => intro pq j _ _ hf _; omega
  | succ fuel ih =>
    intro pq j hn hjn hf h
    unfold up
    simp only
    split
    · next c =>
      simp only [less_eq, Bool.or_eq_true, beq_iff_eq, Bool.not_eq_eq_eq_not, Bool.not_true,
        decide_eq_false_iff_not, Int.not_lt] at c
      refine h.done ?_
      rcases c with c | c
      · left; omega
      · right; exact c
    · next c =>
      simp only [less_eq, Bool.or_eq_true, beq_iff_eq, Bool.not_eq_eq_eq_not, Bool.not_true,
        decide_eq_false_iff_not, Int.not_lt, not_or, Int.not_le] at c
      exact ih _ (by rw [swap_size]; exact hn) (by omega) (by omega)
        (h.swap hn hjn (by omega) c.2)

/-! ### the common body of `Fix` / `Remove` -/

def fixN (pq : PQ) (i n : Nat) : PQ :=
  let r := down pq i n
  if !r.2 then up r.1 i (i + 1) else r.1

theorem heapFix_eq (pq : PQ) (i : Nat) : heapFix pq i = fixN pq i pq.len := rfl

theorem heapRemove_eq (pq : PQ) (i : Nat) :
    heapRemove pq i =
      (if pq.len - 1 != i then fixN (pq.swap i (pq.len - 1)) i (pq.len - 1) else pq).popRaw := rfl

theorem fixN_step {n : Nat} {a : PQ} (i : Nat) (h : WF' a) (hi : i < n) (hn : n ≤ a.queue.size) :
    Step n a (fixN a i n) := by
  have s1 := down_step i h hn
  unfold fixN
  simp only
  split
  · exact s1.trans (up_step _ i s1.1 hi (by rw [s1.2.1]; exact hn))
  · exact s1

theorem downLoop_size (n fuel : Nat) : ∀ (pq : PQ) (i : Nat),
    (downLoop pq i n fuel).1.queue.size = pq.queue.size := by
  induction fuel with
  | zero => intro pq i; rfl
  | succ fuel ih =>
    intro pq i
    rw [downLoop_succ]
    split
    · rfl
    · split
      · rfl
      · rw [ih, swap_size]

/-- heap order except for all links touching `i`, plus bridging. -/
def FixInv (pq : PQ) (i n : Nat) : Prop :=
  (∀ m, 0 < m → m < n → m ≠ i → (m - 1) / 2 ≠ i → prio pq ((m - 1) / 2) ≤ prio pq m) ∧
  (∀ m, 0 < m → m < n → (m - 1) / 2 = i → 0 < i → prio pq ((i - 1) / 2) ≤ prio pq m)

theorem fixN_heap {n : Nat} {pq : PQ} (i : Nat) (hn : n ≤ pq.queue.size) (hi : i < n)
    (h : FixInv pq i n) : HeapFrom (fixN pq i n) 0 n := by
  by_cases hc : i = 0 ∨ prio pq ((i - 1) / 2) ≤ prio pq i
  · have hd : DownInv pq i 0 n := by
      refine ⟨fun m h0 hm _ hp => ?_, fun m h0 hm hp hi0 _ => h.2 m h0 hm hp hi0⟩
      by_cases e : m = i
      · subst e
        rcases hc with hc | hc
        · omega
        · exact hc
      · exact h.1 m h0 hm e hp
    have hh := down_heap i hn hd
    unfold fixN
    simp only
    split
    · exact up_heap _ i (by unfold down; rw [downLoop_size]; exact hn) hi (Nat.le_refl _)
        (hh.upInv i)
    · exact hh
  · have hi0 : 0 < i := by omega
    have hlt : prio pq i < prio pq ((i - 1) / 2) := by omega
    have hch : ∀ m, 0 < m → m < n → (m - 1) / 2 = i → prio pq i ≤ prio pq m := by
      intro m h0 hm hp
      have := h.2 m h0 hm hp hi0; omega
    have e : fixN pq i n = up pq i (i + 1) := by
      unfold fixN down
      rw [downLoop_noop n hch]
      simp
    rw [e]
    refine up_heap _ i hn hi (Nat.le_refl _) ⟨fun m h0 hm hmi => ?_, fun m h0 hm hp _ => h.2 m h0 hm hp hi0⟩
    by_cases e : (m - 1) / 2 = i
    · rw [e]; exact hch m h0 hm e
    · exact h.1 m h0 hm hmi e

end Furiko.Heap
