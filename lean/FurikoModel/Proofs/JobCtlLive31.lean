/-
Liveness of the job controller, part 31: what the state after ANY pass that wrote the recomputed status
looks like (`core_*`: the case lemmas of parts 17–21 for an arbitrary state `w` with the `PassOut`
facts, without the variant), and what it looks like after a pass that wrote nothing (`unwritten`) —
the two outcomes of a pass under faults.  Core Lean only.
-/
import FurikoModel.Proofs.JobCtlLive30

set_option linter.unusedSimpArgs false
set_option linter.unusedVariables false

namespace Furiko.JobCtl.Live
open Furiko Furiko.JobCtl Furiko.WQ Furiko.StatusLemmas Furiko.JobCtlPlan Furiko.Conv Furiko.ParallelLemmas

section
variable {ok : Sys → Action → Prop} {j0 jo : JobObj} {F0 : Int} {s : Sys}

/-- the summary is complete and the status was written -/
theorem core_complete (hok : ∀ s a, fairEnv s a → ok s a) (h : PState ok j0 jo F0 s) (w : Sys)
    (hstepsw : Steps ok j0 s w)
    (hcomp : (getParallelTaskSummary s.d jo.job
      (generateTaskRefs s.clock jo.job.status.tasks (foundTasks s jo))).complete = true)
    (hpo : PassOut jo s w (recompute s.clock s.d jo.job (foundTasks s jo)).status []) :
    ∃ jo', jo'.name = jo.name ∧ Canon ok j0 jo' F0 (deliverAll w) ∧ Done jo' (deliverAll w) ∧
      (deliverAll w).clock = s.clock ∧
      jo'.job.ttlSecondsAfterFinished = jo.job.ttlSecondsAfterFinished ∧ (deliverAll w).cfg = s.cfg ∧
      RefsStep s jo jo' (deliverAll w) := by
  have hc := h.canon
  obtain ⟨a1, a2, a3, a4, a5, a6, a7, a8⟩ := after_found h _ (gen_found h)
  obtain ⟨_, _, s3⟩ := simple_summary s.d jo.job _ hc.spec a6
  have hcomp' := s3.mp hcomp
  have hrec : ∀ p ∈ s.pods, p.pod.name ∈ refNames jo.job := by
    intro p hp
    rcases hc.unrec p hp with hx | ⟨_, hlt, hdead⟩
    · exact hx
    · exfalso
      obtain ⟨hd1, _⟩ := a7 hdead
      obtain ⟨b1, b2, _⟩ := allDead_facts hd1
      rcases hcomp' with hx | hx
      · exact b1 hx
      · rw [countP_terminal_of_allFin b2, a1] at hx; omega
  have hsame := recompute_sameSpec s.clock s.d jo.job (foundTasks s jo)
  obtain ⟨jo', hjob, hname, _, hcan, _, hclk, hpods, hd, hcfgw⟩ := canon_after_gen hok h w hstepsw _ [] hpo hsame.2.2
    (Or.inl rfl) (by rw [hsame.2.1]; exact a2)
    (by
      intro p hp
      rw [List.append_nil] at hp
      left
      rw [hsame.2.1]
      exact (a3 _).mpr (hrec p hp))
    (by rw [hsame.2.1]; exact a5)
  have hrs : RefsStep s jo jo' (deliverAll w) := by
    refine ⟨?_, Or.inl (by rw [hpods, List.append_nil])⟩
    intro g hg
    have : jo'.job.status.tasks = generateTaskRefs s.clock jo.job.status.tasks (foundTasks s jo) := by
      rw [hjob]; exact hsame.2.1
    rw [this] at hg
    exact Or.inl (found_mem h _ (gen_found h) g hg)
  refine ⟨jo', hname, hcan, ?_, hclk, by rw [hjob], hcfgw, hrs⟩
  have hjo' : jo'.job = recompute s.clock s.d jo.job (foundTasks s jo) := by
    rw [hjob]
    exact (eq_of_sameSpec hsame.1).symm
  exact done_after h (foundTasks s jo) h.consistent (fun t ht => (h.found_facts t ht).1) _ jo' hjo'
    (by rw [hpods, List.append_nil]) hd a6 a4 hcomp' (fun p hp => (a3 _).mpr (hrec p hp))

/-- not complete, nothing created, the refreshed refs were written: the Job is unfinished, all recorded
attempts are dead -/
theorem core_refreshed (hok : ∀ s a, fairEnv s a → ok s a) (h : PState ok j0 jo F0 s) (w : Sys)
    (hstepsw : Steps ok j0 s w) (hshape : ∀ r ∈ jo.job.status.tasks, Dead r ∨ LiveRef r)
    (hc' : (getParallelTaskSummary s.d jo.job
      (generateTaskRefs s.clock jo.job.status.tasks (foundTasks s jo))).complete = false)
    (hpo : PassOut jo s w (recompute s.clock s.d jo.job (foundTasks s jo)).status [])
    (harmed : (deliverAll w).q.queue ≠ [] ∨ (deliverAll w).q.delayed ≠ []) :
    ∃ jo', jo'.name = jo.name ∧ Canon ok j0 jo' F0 (deliverAll w) ∧ Busy jo' (deliverAll w) ∧
      (deliverAll w).clock = s.clock ∧
      jo'.job.ttlSecondsAfterFinished = jo.job.ttlSecondsAfterFinished ∧ (deliverAll w).cfg = s.cfg ∧
      RefsStep s jo jo' (deliverAll w) := by
  have hc := h.canon
  obtain ⟨a1, a2, a3, a4, a5, a6, a7, a8⟩ := after_found h _ (gen_found h)
  obtain ⟨hdeadL, hlt, hnfin⟩ := notcomplete_facts h hshape hc'
  have hsame := recompute_sameSpec s.clock s.d jo.job (foundTasks s jo)
  obtain ⟨jo', hjob, hname, _, hcan, hqg, hclk, hpods, hd, hcfgw⟩ := canon_after_gen hok h w hstepsw _ [] hpo hsame.2.2
    (Or.inl rfl) (by rw [hsame.2.1]; exact a2)
    (by
      intro p hp
      rw [List.append_nil] at hp
      rw [hsame.2.1, a1]
      rcases hc.unrec p hp with hx | ⟨hn, hl, _⟩
      · exact Or.inl ((a3 _).mpr hx)
      · exact Or.inr ⟨hn, hl, hdeadL⟩)
    (by rw [hsame.2.1]; exact a5)
  have htasks : jo'.job.status.tasks = generateTaskRefs s.clock jo.job.status.tasks (foundTasks s jo) := by
    rw [hjob]; exact hsame.2.1
  have hrs : RefsStep s jo jo' (deliverAll w) := by
    refine ⟨?_, Or.inl (by rw [hpods, List.append_nil])⟩
    intro g hg
    rw [htasks] at hg
    exact Or.inl (found_mem h _ (gen_found h) g hg)
  refine ⟨jo', hname, hcan, ⟨?_, ?_, harmed⟩, hclk, by rw [hjob], hcfgw, hrs⟩
  · rw [hjob]
    exact (recompute_condition s.clock s.d jo.job (foundTasks s jo) hc.spec a6).2 hnfin
  · intro r hr
    rw [htasks] at hr
    exact Or.inl (hdeadL r hr)

/-- not complete, the next attempt was created and recorded -/
theorem core_created (hok : ∀ s a, fairEnv s a → ok s a) (h : PState ok j0 jo F0 s) (w : Sys)
    (hstepsw : Steps ok j0 s w) (hshape : ∀ r ∈ jo.job.status.tasks, Dead r ∨ LiveRef r)
    (hc' : (getParallelTaskSummary s.d jo.job
      (generateTaskRefs s.clock jo.job.status.tasks (foundTasks s jo))).complete = false)
    (hf : jo.job.status.tasks.any refActiveOrSuccessful = false)
    (hfree : findPod s.pods (taskName jo.name s.d.hash jo.job.status.tasks.length) = none)
    (hpo : PassOut jo s w (recompute s.clock s.d jo.job
      (foundTasks s jo ++ [newTask jo s.d jo.job.status.tasks.length (nowT s)])).status
      [newPod jo s.d jo.job.status.tasks.length (nowT s)])
    (harmed : (deliverAll w).q.queue ≠ [] ∨ (deliverAll w).q.delayed ≠ []) :
    ∃ jo', jo'.name = jo.name ∧ Canon ok j0 jo' F0 (deliverAll w) ∧ Busy jo' (deliverAll w) ∧
      (deliverAll w).clock = s.clock ∧
      jo'.job.ttlSecondsAfterFinished = jo.job.ttlSecondsAfterFinished ∧ (deliverAll w).cfg = s.cfg ∧
      RefsStep s jo jo' (deliverAll w) := by
  have hc := h.canon
  obtain ⟨hdeadL, hlt, hnfin⟩ := notcomplete_facts h hshape hc'
  have hdead := allDead_of_notfound hshape hf
  let nt : Task := newTask jo s.d jo.job.status.tasks.length (nowT s)
  have hntname : nt.name = taskName jo.name s.d.hash jo.job.status.tasks.length := rfl
  have hntfresh : nt.name ∉ refNames jo.job := hc.freshName
  have hntgood : TaskGood nt := ⟨rfl, (fun hx => by cases hx), (fun hx => by cases hx), rfl⟩
  have hperm := gen_snoc h nt hntgood.ok hntfresh
  have hxlive : LiveRef (getTaskRef none nt) := new_getTaskRef_unfinished hntgood rfl
  obtain ⟨b1, b2, b3, b4, b5, b6, b7⟩ := after_snoc h _ (getTaskRef none nt) hperm
    (by rw [(getTaskRef_fields none nt).2.2.1]; rfl)
    (by unfold TaskRef.hash TaskRef.index; rw [(getTaskRef_fields none nt).2.1]; rfl)
    (by intro f hf'; rw [hxlive.unfin] at hf'; cases hf')
  have hsame := recompute_sameSpec s.clock s.d jo.job (foundTasks s jo ++ [nt])
  have hxname : (getTaskRef none nt).name = taskName jo.name s.d.hash jo.job.status.tasks.length :=
    (getTaskRef_fields none nt).1
  obtain ⟨jo', hjob, hname, _, hcan, hqg, hclk, hpods, hd, hcfgw⟩ := canon_after_gen hok h w hstepsw _
    [newPod jo s.d jo.job.status.tasks.length (nowT s)] hpo hsame.2.2 (Or.inr ⟨rfl, hfree⟩)
    (by rw [hsame.2.1]; exact b2)
    (by
      intro p hp
      rw [hsame.2.1]
      left
      rcases List.mem_append.mp hp with hp | hp
      · rcases hc.unrec p hp with hx | ⟨hn, _, _⟩
        · exact (b3 _).mpr (Or.inl hx)
        · exact absurd hn (findPod_none hfree p hp)
      · simp only [List.mem_singleton] at hp; subst hp
        exact (b3 _).mpr (Or.inr hxname.symm))
    (by rw [hsame.2.1]; exact b4)
  have htasks : jo'.job.status.tasks = generateTaskRefs s.clock jo.job.status.tasks (foundTasks s jo ++ [nt]) := by
    rw [hjob]; exact hsame.2.1
  have hnotAllFin : ¬ AllFin (generateTaskRefs s.clock jo.job.status.tasks (foundTasks s jo ++ [nt])) := by
    intro hx
    have := hx _ b7
    rw [hxlive.unfin] at this; cases this
  have hrs : RefsStep s jo jo' (deliverAll w) := by
    refine ⟨?_, Or.inr hpods⟩
    intro g hg
    rw [htasks] at hg
    rcases b6 g hg with hx | rfl
    · exact Or.inl hx
    · refine Or.inr ⟨nt, rfl, ?_, hntname, hdead⟩
      unfold lookTask
      rw [hpods, hntname]
      have := findPod_append_fresh s.pods (newPod jo s.d jo.job.status.tasks.length (nowT s)) hfree
      rw [show (newPod jo s.d jo.job.status.tasks.length (nowT s)).pod.name =
        taskName jo.name s.d.hash jo.job.status.tasks.length from rfl] at this
      rw [this]
      exact podTask_newPod jo s.d _ (nowT s)
  refine ⟨jo', hname, hcan, ⟨?_, ?_, harmed⟩, hclk, by rw [hjob], hcfgw, hrs⟩
  · rw [hjob]
    exact (recompute_condition s.clock s.d jo.job _ hc.spec b5).2 (fun hx => hnotAllFin hx.1)
  · intro r hr
    rw [htasks] at hr
    rcases b6 r hr with ⟨r0, hr0, rfl⟩ | rfl
    · exact Or.inl ((h.refP_facts hr0).2.2.2.2.1 (hdead r0 hr0)).1
    · exact Or.inr hxlive

/-- not complete, the task of the next attempt was adopted and recorded with its outcome -/
theorem core_adopted (hok : ∀ s a, fairEnv s a → ok s a) (h : PState ok j0 jo F0 s) (w : Sys)
    (hstepsw : Steps ok j0 s w) (hshape : ∀ r ∈ jo.job.status.tasks, Dead r ∨ LiveRef r)
    (hc' : (getParallelTaskSummary s.d jo.job
      (generateTaskRefs s.clock jo.job.status.tasks (foundTasks s jo))).complete = false)
    (hf : jo.job.status.tasks.any refActiveOrSuccessful = false) (p : PodObj) (t : Task)
    (htaken : findPod s.pods (taskName jo.name s.d.hash jo.job.status.tasks.length) = some p)
    (ht : podTask s.clock p = some t)
    (hpo : PassOut jo s w (recompute s.clock s.d jo.job (foundTasks s jo ++ [t])).status [])
    (harmed : (deliverAll w).q.queue ≠ [] ∨ (deliverAll w).q.delayed ≠ []) :
    ∃ jo', jo'.name = jo.name ∧ Canon ok j0 jo' F0 (deliverAll w) ∧ (Busy jo' (deliverAll w) ∨ Done jo' (deliverAll w)) ∧
      (deliverAll w).clock = s.clock ∧
      jo'.job.ttlSecondsAfterFinished = jo.job.ttlSecondsAfterFinished ∧ (deliverAll w).cfg = s.cfg ∧
      RefsStep s jo jo' (deliverAll w) := by
  have hc := h.canon
  obtain ⟨hdeadL, hlt, hnfin⟩ := notcomplete_facts h hshape hc'
  have hdead := allDead_of_notfound hshape hf
  have hpm := findPod_some htaken
  have hlook : lookTask s (taskName jo.name s.d.hash jo.job.status.tasks.length) = some t := by
    unfold lookTask; rw [htaken]; exact ht
  obtain ⟨tg, tfin, tdel, tlb, _⟩ := h.task_facts hlook
  have htname : t.name = taskName jo.name s.d.hash jo.job.status.tasks.length := lookTask_name hlook
  have htfresh : t.name ∉ refNames jo.job := by rw [htname]; exact hc.freshName
  have htT : t.name ∉ (foundTasks s jo).map (·.name) := by
    intro hm
    obtain ⟨t', ht', hn'⟩ := List.mem_map.mp hm
    obtain ⟨r, hr, hrt⟩ := List.mem_filterMap.mp ht'
    apply htfresh
    rw [← hn', lookTask_name hrt]
    exact List.mem_map.mpr ⟨r, hr, rfl⟩
  have hperm := gen_snoc h t tg.ok htfresh
  obtain ⟨x1, x2, x3⟩ := new_getTaskRef_finished tg tfin
  have hxr : (getTaskRef none t).retryIndex = (jo.job.status.tasks.length : Int) := by
    rw [(getTaskRef_fields none t).2.2.1, (podTask_index ht).2]
    obtain ⟨retry, hn, _, hri⟩ := hc.podName hpm.1
    rw [hri]
    rw [hpm.2] at hn
    exact ((taskName_inj hc.nodash hc.nodash hn).2).symm
  have hxh : (getTaskRef none t).hash s.d = s.d.hash := by
    unfold TaskRef.hash TaskRef.index
    rw [(getTaskRef_fields none t).2.1, (podTask_index ht).1]
    obtain ⟨_, _, hpi, _⟩ := hc.podName hpm.1
    rw [hpi]; rfl
  obtain ⟨b1, b2, b3, b4, b5, b6, b7⟩ := after_snoc h _ (getTaskRef none t) hperm hxr hxh
    (by intro f hf'; rw [(getTaskRef_none_fields t).2.1] at hf'; exact tlb f hf')
  have hsame := recompute_sameSpec s.clock s.d jo.job (foundTasks s jo ++ [t])
  have hxname : (getTaskRef none t).name = taskName jo.name s.d.hash jo.job.status.tasks.length := by
    rw [(getTaskRef_fields none t).1, tg.ok, htname]
  have hrec : ∀ q ∈ s.pods, q.pod.name ∈ (generateTaskRefs s.clock jo.job.status.tasks (foundTasks s jo ++ [t])).map (·.name) := by
    intro q hq'
    rcases hc.unrec q hq' with hx | ⟨hn, _, _⟩
    · exact (b3 _).mpr (Or.inl hx)
    · exact (b3 _).mpr (Or.inr (by rw [hn, hxname]))
  obtain ⟨jo', hjob, hname, _, hcan, hqg, hclk, hpods, hd, hcfgw⟩ := canon_after_gen hok h w hstepsw _ [] hpo hsame.2.2
    (Or.inl rfl) (by rw [hsame.2.1]; exact b2)
    (by
      intro q hq'
      rw [List.append_nil] at hq'
      rw [hsame.2.1]
      exact Or.inl (hrec q hq'))
    (by rw [hsame.2.1]; exact b4)
  have htasks : jo'.job.status.tasks = generateTaskRefs s.clock jo.job.status.tasks (foundTasks s jo ++ [t]) := by
    rw [hjob]; exact hsame.2.1
  have hallfin : AllFin (generateTaskRefs s.clock jo.job.status.tasks (foundTasks s jo ++ [t])) := by
    intro g hg
    rcases b6 g hg with ⟨r0, hr0, rfl⟩ | rfl
    · exact (h.refP_facts hr0).1
    · exact x1
  have hcons : Consistent s jo.job.status.tasks (foundTasks s jo ++ [t]) :=
    h.consistent.snoc t (by rw [htname]; exact hlook) htT
  have hrs : RefsStep s jo jo' (deliverAll w) := by
    refine ⟨?_, Or.inl (by rw [hpods, List.append_nil])⟩
    intro g hg
    rw [htasks] at hg
    rcases b6 g hg with hx | rfl
    · exact Or.inl hx
    · refine Or.inr ⟨t, rfl, ?_, htname, hdead⟩
      unfold lookTask
      rw [hpods, List.append_nil, htname, hclk]
      exact hlook
  refine ⟨jo', hname, hcan, ?_, hclk, by rw [hjob], hcfgw, hrs⟩
  by_cases hdecided : t.ref.status.result = .succeeded ∨ (jo.job.status.tasks.length : Int) + 1 ≥ jo.job.maxAttempts
  · right
    have hjo' : jo'.job = recompute s.clock s.d jo.job (foundTasks s jo ++ [t]) := by
      rw [hjob]; exact (eq_of_sameSpec hsame.1).symm
    refine done_after h (foundTasks s jo ++ [t]) hcons ?_ _ jo' hjo' (by rw [hpods, List.append_nil]) hd b5 hallfin ?_ hrec
    · intro t' ht'
      rcases List.mem_append.mp ht' with ht' | ht'
      · exact (h.found_facts t' ht').1
      · simp only [List.mem_singleton] at ht'; subst ht'; exact tg
    · rcases hdecided with hs | hn
      · exact Or.inl ⟨_, b7, by rw [x2]; exact hs⟩
      · right
        rw [countP_terminal_of_allFin hallfin, b1]
        omega
  · left
    have hns : t.ref.status.result ≠ .succeeded := fun e => hdecided (Or.inl e)
    have hlt2 : (jo.job.status.tasks.length : Int) + 1 < jo.job.maxAttempts := by
      have : ¬ ((jo.job.status.tasks.length : Int) + 1 ≥ jo.job.maxAttempts) := fun e => hdecided (Or.inr e)
      omega
    have hdeadNew : ∀ g ∈ generateTaskRefs s.clock jo.job.status.tasks (foundTasks s jo ++ [t]), Dead g := by
      intro g hg
      rcases b6 g hg with ⟨r0, hr0, rfl⟩ | rfl
      · exact ((h.refP_facts hr0).2.2.2.2.1 (hdead r0 hr0)).1
      · exact x3 hns
    have hnocomp : ¬ (AllFin (generateTaskRefs s.clock jo.job.status.tasks (foundTasks s jo ++ [t])) ∧
        (AnySucc (generateTaskRefs s.clock jo.job.status.tasks (foundTasks s jo ++ [t])) ∨
          (((generateTaskRefs s.clock jo.job.status.tasks (foundTasks s jo ++ [t])).countP refTerminal : Nat) : Int) ≥
            jo.job.maxAttempts)) := by
      rintro ⟨_, hx | hx⟩
      · exact (allDead_facts hdeadNew).1 hx
      · rw [countP_terminal_of_allFin hallfin, b1] at hx
        omega
    refine ⟨?_, ?_, harmed⟩
    · rw [hjob]
      exact (recompute_condition s.clock s.d jo.job _ hc.spec b5).2 hnocomp
    · intro r hr
      rw [htasks] at hr
      exact Or.inl (hdeadNew r hr)

end

end Furiko.JobCtl.Live
