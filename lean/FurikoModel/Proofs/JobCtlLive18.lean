/-
Liveness of the job controller, part 18: the controller half of a fair round, cases "not complete, no
creation request" (`case_noreq`: the outcome of the live attempt is recorded, the Job waits for its
retry) and "not complete, the request is not due" (`case_notdue`: the retry timer is armed at or after
the request's earliest time), with the variant going down (`muP`: the variant at pass time).  Core Lean
only.
-/
import FurikoModel.Proofs.JobCtlLive17

set_option linter.unusedSimpArgs false
set_option linter.unusedVariables false

namespace Furiko.JobCtl.Live
open Furiko Furiko.JobCtl Furiko.WQ Furiko.StatusLemmas Furiko.JobCtlPlan Furiko.Conv Furiko.ParallelLemmas

/-- the variant, read at pass time (after the clock jump every armed timer is due) -/
def muP (jo : JobObj) (s : Sys) : Nat :=
  if jo.job.status.tasks.all (fun r => r.finishTimestamp.isSome) then
    3 * (jo.job.maxAttempts - jo.job.status.tasks.length).toNat + 2 -
      (if DueReq s.clock (theReq s.d jo.job).earliest then 1 else 0)
  else 3 * (jo.job.maxAttempts - jo.job.status.tasks.length).toNat + 3

theorem all_fin_of_allFin {L : List TaskRef} (h : AllFin L) : L.all (fun r => r.finishTimestamp.isSome) = true := by
  rw [List.all_eq_true]; exact h

/-- the variant of a state whose refs are all finished -/
theorem mu_allFin (jo : JobObj) (s : Sys) (h : AllFin jo.job.status.tasks) :
    mu jo s = 3 * (jo.job.maxAttempts - jo.job.status.tasks.length).toNat + 2 -
      (if dueOrArmed s (theReq s.d jo.job).earliest then 1 else 0) := by
  unfold mu; rw [all_fin_of_allFin h]; rfl

section
variable {ok : Sys → Action → Prop} {j0 jo : JobObj} {F0 : Int} {s : Sys}

/-- without a complete summary the refreshed refs are all dead and fewer than `maxAttempts` -/
theorem notcomplete_facts (h : PState ok j0 jo F0 s) (hshape : ∀ r ∈ jo.job.status.tasks, Dead r ∨ LiveRef r)
    (hc' : (getParallelTaskSummary s.d jo.job
      (generateTaskRefs s.clock jo.job.status.tasks (foundTasks s jo))).complete = false) :
    (∀ g ∈ generateTaskRefs s.clock jo.job.status.tasks (foundTasks s jo), Dead g) ∧
    (jo.job.status.tasks.length : Int) < jo.job.maxAttempts ∧
    ¬ (AllFin (generateTaskRefs s.clock jo.job.status.tasks (foundTasks s jo)) ∧
        (AnySucc (generateTaskRefs s.clock jo.job.status.tasks (foundTasks s jo)) ∨
          (((generateTaskRefs s.clock jo.job.status.tasks (foundTasks s jo)).countP refTerminal : Nat) : Int) ≥
            jo.job.maxAttempts)) := by
  obtain ⟨a1, a2, a3, a4, a5, a6, a7, a8⟩ := after_found h _ (gen_found h)
  obtain ⟨_, _, s3⟩ := simple_summary s.d jo.job _ h.canon.spec a6
  have hn : ¬ (AnySucc (generateTaskRefs s.clock jo.job.status.tasks (foundTasks s jo)) ∨
      (((generateTaskRefs s.clock jo.job.status.tasks (foundTasks s jo)).countP refTerminal : Nat) : Int) ≥
        jo.job.maxAttempts) := by
    intro hx
    rw [s3.mpr hx] at hc'; cases hc'
  refine ⟨?_, ?_, fun hx => hn hx.2⟩
  · intro g hg
    rcases a8 hshape g hg with hd | hs
    · exact hd
    · exact absurd (Or.inl ⟨g, hg, hs⟩) hn
  · have : ¬ ((((generateTaskRefs s.clock jo.job.status.tasks (foundTasks s jo)).countP refTerminal : Nat) : Int) ≥
        jo.job.maxAttempts) := fun hx => hn (Or.inr hx)
    rw [countP_terminal_of_allFin a4, a1] at this
    omega

/-- **not complete, no creation request**: the refs are refreshed (the live attempt is recorded as over),
the Job is still unfinished, all its recorded attempts are dead -/
theorem case_noreq (hok : ∀ s a, fairEnv s a → ok s a) (h : PState ok j0 jo F0 s) (k : String) (rest : List String)
    (hq : (s.q.advance s.clock).queue = k :: rest) (hclockT : s.clock < F0 + getTTLAfterFinished jo.job s.cfg)
    (hshape : ∀ r ∈ jo.job.status.tasks, Dead r ∨ LiveRef r)
    (hc' : (getParallelTaskSummary s.d jo.job
      (generateTaskRefs s.clock jo.job.status.tasks (foundTasks s jo))).complete = false)
    (hfound : jo.job.status.tasks.any refActiveOrSuccessful = true) :
    ∃ jo', jo'.name = jo.name ∧ Canon ok j0 jo' F0 (deliverAll (work s).1) ∧ Busy jo' (deliverAll (work s).1) ∧
      mu jo' (deliverAll (work s).1) < muP jo s ∧ (deliverAll (work s).1).clock = s.clock ∧
      jo'.job.ttlSecondsAfterFinished = jo.job.ttlSecondsAfterFinished ∧ (deliverAll (work s).1).cfg = s.cfg ∧
      RefsStep s jo jo' (deliverAll (work s).1) := by
  have hc := h.canon
  obtain ⟨a1, a2, a3, a4, a5, a6, a7, a8⟩ := after_found h _ (gen_found h)
  obtain ⟨hdead, hlt, hnfin⟩ := notcomplete_facts h hshape hc'
  -- a live ref is recorded
  obtain ⟨r0, hr0, hact⟩ := List.any_eq_true.mp hfound
  have hlive : LiveRef r0 := by
    rcases hshape r0 hr0 with hd | hl
    · rw [hd.not_activeOrSuccessful] at hact; cases hact
    · exact hl
  have hcreate : syncCreateTasks (passStart s (popQ (s.q.advance s.clock) k rest)) jo jo.job (foundTasks s jo) =
      ((updateTaskRefStatus (passStart s (popQ (s.q.advance s.clock) k rest)) (jobKey jo) jo.job (foundTasks s jo)).1,
        some (recompute s.clock s.d jo.job (foundTasks s jo), foundTasks s jo)) := by
    rw [syncCreateTasks_noreq (passStart s (popQ (s.q.advance s.clock) k rest)) jo (foundTasks s jo) hc.spec hc'
      (Or.inl hfound), updateTaskRefStatus_snd]
    rfl
  obtain ⟨s', _, _, hpo, _, _⟩ := pass_uniform h k rest hq _ _ [] _ (foundTasks s jo) (CreateOut.refl _)
    (updateTaskRefStatus_fst _ (jobKey jo) jo.job (foundTasks s jo)) hcreate (Or.inr rfl) h.consistent.nodup
    (fun t ht => ⟨(h.found_facts t ht).1, (h.found_facts t ht).2.2⟩)
    (fun pt _ _ t ht => Or.inl (h.found_facts t ht).2.1) a6 a5 hclockT (by simp)
  have hsame := recompute_sameSpec s.clock s.d jo.job (foundTasks s jo)
  obtain ⟨jo', hjob, hname, _, hcan, hqg, hclk, hpods, hd, hcfgw⟩ := canon_after hok h _ [] hpo hsame.2.2 (Or.inl rfl)
    (by rw [hsame.2.1]; exact a2)
    (by
      intro p hp
      rw [List.append_nil] at hp
      rw [hsame.2.1]
      rcases hc.unrec p hp with hx | ⟨_, _, hall⟩
      · exact Or.inl ((a3 _).mpr hx)
      · exact absurd hlive ((hall r0 hr0).not_live))
    (by rw [hsame.2.1]; exact a5)
  have htasks : jo'.job.status.tasks = generateTaskRefs s.clock jo.job.status.tasks (foundTasks s jo) := by
    rw [hjob]; exact hsame.2.1
  have hmax : jo'.job.maxAttempts = jo.job.maxAttempts := by rw [hjob]; rfl
  -- the status changed: the live ref is finished now
  have hne : (recompute s.clock s.d jo.job (foundTasks s jo)).status ≠ jo.job.status := by
    intro e
    have : generateTaskRefs s.clock jo.job.status.tasks (foundTasks s jo) = jo.job.status.tasks := by
      rw [← hsame.2.1, e]
    have := a4 r0 (by rw [this]; exact hr0)
    rw [hlive.unfin] at this; cases this
  obtain ⟨j, restE, hev⟩ := hpo.wrote hne
  have hrs : RefsStep s jo jo' (deliverAll (work s).1) := by
    refine ⟨?_, Or.inl (by rw [hpods, List.append_nil])⟩
    intro g hg
    rw [htasks] at hg
    exact Or.inl (found_mem h _ (gen_found h) g hg)
  refine ⟨jo', hname, hcan, ⟨?_, ?_, Or.inl (deliverAll_ready _ j restE hev hpo.wf)⟩, ?_, hclk, by rw [hjob], hcfgw, hrs⟩
  · rw [hjob]
    exact (recompute_condition s.clock s.d jo.job (foundTasks s jo) hc.spec a6).2 hnfin
  · intro r hr
    rw [htasks] at hr
    exact Or.inl (hdead r hr)
  · have hfin' : AllFin jo'.job.status.tasks := by rw [htasks]; exact a4
    rw [mu_allFin jo' _ hfin', htasks, a1, hmax]
    unfold muP
    have : jo.job.status.tasks.all (fun r => r.finishTimestamp.isSome) = false := by
      cases hx : jo.job.status.tasks.all (fun r => r.finishTimestamp.isSome) with
      | false => rfl
      | true =>
        have := List.all_eq_true.mp hx r0 hr0
        rw [hlive.unfin] at this; cases this
    rw [this]
    simp only [Bool.false_eq_true, ↓reduceIte]
    omega

end

end Furiko.JobCtl.Live
