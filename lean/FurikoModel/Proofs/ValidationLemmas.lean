/- Helper lemmas about `Model/Validation.lean` used by `Props/C17.lean`. -/
import FurikoModel.Model.Validation
import FurikoModel.Proofs.OptionsLemmas

namespace Furiko.ValidationLemmas
open Furiko Furiko.Validation

/-! ### small facts -/

theorem length_pos_iff (s : String) : s.length > 0 ↔ s ≠ "" := by
  rw [gt_iff_lt, Nat.pos_iff_ne_zero, Ne, String.length_eq_zero_iff]

theorem append_eq_nil {α : Type} {a b : List α} : a ++ b = [] ↔ a = [] ∧ b = [] := List.append_eq_nil_iff

/-! ### schedule: validator side -/

/-- all cron lines of a loop parse -/
theorem validateCronExpressions_nil (E : Env) (path : String) (es : List String) (i : Nat)
    (h : validateCronExpressions E path es i = []) :
    ∀ l ∈ es, (newParserFromConfig E.cfg).parse E.P l Facts.valCronHashID = .ok := by
  induction es generalizing i with
  | nil => intro l hl; cases hl
  | cons e rest ih =>
    simp only [validateCronExpressions, append_eq_nil] at h
    intro l hl
    rcases List.mem_cons.mp hl with rfl | hl
    · have h1 := h.1
      unfold validateCronExpression at h1
      split at h1
      · assumption
      · cases h1
    · exact ih (i + 1) h.2 l hl

/-- what an accepted cron schedule guarantees -/
structure CronAccepted (E : Env) (c : CronSchedule) : Prop where
  lines : ∀ l ∈ validatedLines c, (newParserFromConfig E.cfg).parse E.P l Facts.valCronHashID = .ok
  one : expressionFields c = 1
  tz : c.timezone ≠ "" → E.parseTz c.timezone = true

theorem validateCronSchedule_nil (E : Env) (c : CronSchedule) (path : String)
    (h : validateCronSchedule E c path = []) : CronAccepted E c := by
  unfold validateCronSchedule at h
  simp only [append_eq_nil] at h
  obtain ⟨⟨⟨h1, h2⟩, h3⟩, h4⟩ := h
  refine ⟨?_, ?_, ?_⟩
  · intro l hl
    unfold validatedLines at hl
    rcases List.mem_append.mp hl with hl | hl
    · split at hl
      · rename_i hpos
        simp only [List.mem_singleton] at hl
        subst hl
        rw [if_pos hpos] at h1
        unfold validateCronExpression at h1
        split at h1
        · assumption
        · cases h1
      · cases hl
    · by_cases hpos : c.expressions.length > 0
      · rw [if_pos hpos] at h2
        exact validateCronExpressions_nil E path c.expressions 0 h2 l hl
      · have : c.expressions = [] := by
          cases hc : c.expressions with
          | nil => rfl
          | cons a b => simp [hc] at hpos
        rw [this] at hl; cases hl
  · by_cases h0 : expressionFields c = 0
    · rw [if_pos h0] at h3; cases h3
    · rw [if_neg h0] at h3
      by_cases h1' : expressionFields c > 1
      · rw [if_pos h1'] at h3; cases h3
      · omega
  · intro hne
    have hpos : c.timezone.length > 0 := (length_pos_iff _).mpr hne
    rw [if_pos hpos] at h4
    unfold validateTimezone at h4
    split at h4
    · assumption
    · cases h4

/-- the lines the scheduler parses are among the lines the validator parsed -/
theorem getExpressions_subset (c : CronSchedule) : ∀ l ∈ getExpressions c, l ∈ validatedLines c := by
  intro l hl
  unfold getExpressions at hl
  unfold validatedLines
  split at hl
  · rename_i hne
    simp only [List.mem_singleton] at hl
    subst hl
    have : c.expression.length > 0 := (length_pos_iff _).mpr hne
    simp [this]
  · split at hl
    · exact List.mem_append.mpr (Or.inr hl)
    · cases hl

/-- library contract: the verdict does not depend on the hash id -/
def ParseHashIndependent (P : ParseFn) : Prop :=
  ∀ (p : Parser) (id₁ id₂ : String) (line : String), P p (some id₁) line = P p (some id₂) line

theorem parse_hash_irrelevant (P : ParseFn) (hP : ParseHashIndependent P) (p : Parser) (l id₁ id₂ : String) :
    p.parse P l id₁ = p.parse P l id₂ := by
  unfold Parser.parse
  split
  · exact hP p id₁ id₂ l
  · rfl

theorem newExpression_ok (P : ParseFn) (p : Parser) (id : String) (ls : List String)
    (h : ∀ l ∈ ls, p.parse P l id = .ok) : newExpression P p id ls = .ok := by
  induction ls with
  | nil => rfl
  | cons l rest ih =>
    unfold newExpression
    rw [h l (List.mem_cons_self ..)]
    exact ih (fun x hx => h x (List.mem_cons_of_mem _ hx))

/-- the first line that does not parse decides -/
theorem newExpression_not_ok (P : ParseFn) (p : Parser) (id : String) (ls : List String) (l : String)
    (hl : l ∈ ls) (h : p.parse P l id ≠ .ok) : newExpression P p id ls ≠ .ok := by
  induction ls with
  | nil => cases hl
  | cons x rest ih =>
    unfold newExpression
    rcases List.mem_cons.mp hl with rfl | hl
    · cases hx : Parser.parse P p l id with
      | ok => exact absurd hx h
      | err => simp
      | panic => simp
    · cases hx : Parser.parse P p x id with
      | ok => simpa using ih hl
      | err => simp
      | panic => simp

/-! ### the JobConfig validator: decomposition of acceptance -/

theorem validateJobConfig_some_nil (E : Env) (jc : JobConfig) (h : validateJobConfig E jc = some []) :
    cronPanics E jc = false ∧
    validateMaxLength jc.name Facts.valJobConfigNameMaxLen "metadata.name" = [] ∧
    validateJobTemplateSpec E.hash jc.template "spec.template.spec" = [] ∧
    validateConcurrencySpec jc.concurrency "spec.concurrency" = [] ∧
    validateScheduleSpec E jc.schedule "spec.schedule" = [] ∧
    validateOptionSpec jc.option "spec.option" = [] := by
  unfold validateJobConfig at h
  split at h
  · cases h
  · rename_i hp
    have herrs : validateJobConfigErrs E jc = [] := by
      by_cases hl : (Facts.valJobConfigScheduleRecheck && (validateJobConfigErrs E jc).length == 0) = true
      · simp only [Bool.and_eq_true, beq_iff_eq] at hl
        exact List.length_eq_zero_iff.mp hl.2
      · simp only [hl, Bool.false_eq_true, ↓reduceIte, Option.some.injEq] at h
        exact h
    unfold validateJobConfigErrs validateJobConfigSpec at herrs
    simp only [append_eq_nil] at herrs
    obtain ⟨h1, ⟨⟨h2, h3⟩, h4⟩, h5⟩ := herrs
    exact ⟨by simpa using hp, h1, h2, h3, h4, h5⟩

/-- since fix d9dad79 (`Facts.valJobConfigScheduleRecheck`): an admitted JobConfig also passed the
scheduler-style parse -/
theorem validateJobConfig_recheck (E : Env) (jc : JobConfig) (hfix : Facts.valJobConfigScheduleRecheck = true)
    (h : validateJobConfig E jc = some []) :
    validateCronScheduleForJobConfig E jc "spec.schedule.cron" = some [] := by
  have herrs : validateJobConfigErrs E jc = [] := by
    obtain ⟨_, h1, h2, h3, h4, h5⟩ := validateJobConfig_some_nil E jc h
    unfold validateJobConfigErrs validateJobConfigSpec
    simp [h1, h2, h3, h4, h5]
  unfold validateJobConfig at h
  split at h
  · cases h
  · simpa [hfix, herrs] using h

/-- what the scheduler-style parse guarantees for a named JobConfig with a cron schedule -/
theorem recheck_newExpression_ok (E : Env) (jc : JobConfig) (s : Schedule) (c : CronSchedule)
    (hs : jc.schedule = some s) (hc : s.cron = some c) (hname : jc.name ≠ "")
    (h : validateCronScheduleForJobConfig E jc "spec.schedule.cron" = some []) :
    newExpression E.P (newParserFromConfig E.cfg) jc.key (getExpressions c) = .ok := by
  unfold validateCronScheduleForJobConfig at h
  simp only [hs, hc, hname, ↓reduceIte] at h
  cases hx : newExpression E.P (newParserFromConfig E.cfg) jc.key (getExpressions c) with
  | ok => rfl
  | err => rw [hx] at h; simp at h
  | panic => rw [hx] at h; simp at h

/-! ### scheduler side -/

theorem scheduleLoad_ok_iff (E : Env) (jcs : List JobConfig) :
    scheduleLoad E jcs = .ok ↔
      ∀ jc ∈ jcs, parseCronAndTimezone E jc = .ok ∨ parseCronAndTimezone E jc = .skip := by
  induction jcs with
  | nil => simp [scheduleLoad]
  | cons jc rest ih =>
    unfold scheduleLoad
    cases hp : parseCronAndTimezone E jc <;> simp [ih, hp]

theorem scheduleLoad_error_of_mem (E : Env) (jcs : List JobConfig) (bad : JobConfig) (hm : bad ∈ jcs)
    (hbad : parseCronAndTimezone E bad = .error)
    (hnp : ∀ jc ∈ jcs, parseCronAndTimezone E jc ≠ .panic) : scheduleLoad E jcs = .error := by
  induction jcs with
  | nil => cases hm
  | cons jc rest ih =>
    unfold scheduleLoad
    rcases List.mem_cons.mp hm with rfl | hm
    · rw [hbad]
    · have hj := hnp jc (List.mem_cons_self ..)
      have hr := ih hm (fun x hx => hnp x (List.mem_cons_of_mem _ hx))
      cases hp : parseCronAndTimezone E jc <;> simp_all

/-! ### options -/

theorem validateOptionsLoop_nil (path : String) (seen : List Options.Str) (opts : List Options.Opt) (i : Nat)
    (h : validateOptionsLoop path seen opts i = []) : ∀ o ∈ opts, Options.validateOption o = 0 := by
  induction opts generalizing seen i with
  | nil => intro o ho; cases ho
  | cons o rest ih =>
    unfold validateOptionsLoop at h
    simp only at h
    split at h
    · cases h
    · rw [append_eq_nil] at h
      intro x hx
      rcases List.mem_cons.mp hx with rfl | hx
      · have := h.1
        cases hv : Options.validateOption x with
        | zero => rfl
        | succ n => rw [hv] at this; simp [List.replicate] at this
      · exact ih _ _ h.2 x hx

/-- an accepted option has a default that evaluates -/
theorem evaluateOptionDefault_of_accepted (o : Options.Opt) (h : Options.validateOption o = 0) :
    ∃ s, Options.evaluateOptionDefault o = some s := by
  unfold Options.validateOption at h
  unfold Options.evaluateOptionDefault
  cases ht : o.type with
  | bool =>
    rw [ht] at h
    simp only [Options.validateOptionType] at h
    have hb : Options.validateBoolCfg o.bool = 0 := by omega
    unfold Options.validateBoolCfg at hb
    simp only at hb
    split at hb
    · cases hb
    · split at hb
      · cases hb
      · rename_i _ hc
        simp only [Bool.not_eq_true] at hc
        simp only [Options.evaluateDefaultBool]
        exact OptionsLemmas.formatValue_of_valid _ _ (by simpa using hc)
  | string => exact ⟨_, rfl⟩
  | select => exact ⟨_, rfl⟩
  | multi => exact ⟨_, rfl⟩
  | date => exact ⟨_, rfl⟩
  | unknown e =>
    rw [ht] at h
    cases e <;> simp [Options.validateOptionType] at h

theorem makeDefaultOptions_fold (opts : List Options.Opt)
    (h : ∀ o ∈ opts, ∃ s, Options.evaluateOptionDefault o = some s) (m : List (Options.Str × Options.Str)) :
    ∃ r, opts.foldl (fun (acc : Option (List (Options.Str × Options.Str))) o =>
      match acc with
      | none => none
      | some m =>
        match Options.evaluateOptionDefault o with
        | none => none
        | some v => some (Options.mapInsert m (Options.optionVariableName o) v)) (some m) = some r := by
  induction opts generalizing m with
  | nil => exact ⟨m, rfl⟩
  | cons o rest ih =>
    obtain ⟨s, hs⟩ := h o (List.mem_cons_self ..)
    simp only [List.foldl_cons, hs]
    exact ih (fun x hx => h x (List.mem_cons_of_mem _ hx)) _

theorem makeDefaultOptions_of_accepted (spec : Option (List Options.Opt)) (path : String)
    (h : validateOptionSpec spec path = []) : ∃ r, Options.makeDefaultOptions spec = some r := by
  cases spec with
  | none => exact ⟨[], rfl⟩
  | some opts =>
    unfold validateOptionSpec at h
    have hall := validateOptionsLoop_nil path [] opts 0 h
    unfold Options.makeDefaultOptions
    exact makeDefaultOptions_fold opts (fun o ho => evaluateOptionDefault_of_accepted o (hall o ho)) []

/-! ### template validation does not depend on the path -/

/-- path-free acceptance of a job template -/
def templateOk (hash : Indexes.Index → String) (t : JobTemplate) : Prop :=
  (∃ p, t.pod = some p ∧ p.k8sValid = true ∧ p.restartAlways = false) ∧
  (∀ sp, t.parallelism = some sp → Indexes.validateParallelismSpecFixed hash sp = []) ∧
  (∀ v, t.pendingTimeout = some v → 0 ≤ v) ∧
  (∀ v, t.maxAttempts = some v → boundChecks Facts.valMaxAttemptsChecks v "" = []) ∧
  (∀ v, t.retryDelay = some v → 0 ≤ v)

theorem boundChecks_nil_path (checks : List (String × Int)) (v : Int) (p q : String) :
    boundChecks checks v p = [] ↔ boundChecks checks v q = [] := by
  unfold boundChecks
  induction checks with
  | nil => simp
  | cons c rest ih =>
    simp only [List.filterMap_cons]
    by_cases hb : boundRejects c.1 v c.2 = true
    · simp [hb]
    · simp [hb, ih]

theorem validateNonnegative_nil (v : Int) (p : String) : validateNonnegative v p = [] ↔ 0 ≤ v := by
  unfold validateNonnegative
  split
  · constructor
    · intro h; cases h
    · intro h; omega
  · constructor
    · intro _; omega
    · intro _; rfl

theorem validateJobTemplateSpec_nil_iff (hash : Indexes.Index → String) (t : JobTemplate) (path : String) :
    validateJobTemplateSpec hash t path = [] ↔ templateOk hash t := by
  unfold validateJobTemplateSpec templateOk
  simp only [append_eq_nil]
  constructor
  · rintro ⟨⟨⟨⟨h1, h2⟩, h3⟩, h4⟩, h5⟩
    refine ⟨?_, ?_, ?_, ?_, ?_⟩
    · unfold validateTaskTemplate at h1
      cases hp : t.pod with
      | none => rw [hp] at h1; cases h1
      | some p =>
        rw [hp] at h1
        simp only [validatePodTemplate, append_eq_nil] at h1
        refine ⟨p, rfl, ?_, ?_⟩
        · by_cases hk : p.k8sValid = true
          · exact hk
          · have := h1.1; simp [hk] at this
        · by_cases hk : p.restartAlways = true
          · have := h1.2; simp [hk] at this
          · simpa using hk
    · intro sp hsp
      rw [hsp] at h2
      simp only [validateParallelism, List.map_eq_nil_iff] at h2
      exact h2
    · intro v hv; rw [hv] at h3; exact (validateNonnegative_nil _ _).mp h3
    · intro v hv; rw [hv] at h4
      exact (boundChecks_nil_path _ _ _ _).mp h4
    · intro v hv; rw [hv] at h5; exact (validateNonnegative_nil _ _).mp h5
  · rintro ⟨⟨p, hp, hk, ha⟩, h2, h3, h4, h5⟩
    refine ⟨⟨⟨⟨?_, ?_⟩, ?_⟩, ?_⟩, ?_⟩
    · simp [validateTaskTemplate, hp, validatePodTemplate, hk, ha]
    · cases hsp : t.parallelism with
      | none => rfl
      | some sp => simp [validateParallelism, h2 sp hsp]
    · cases hv : t.pendingTimeout with
      | none => rfl
      | some v => exact (validateNonnegative_nil _ _).mpr (h3 v hv)
    · cases hv : t.maxAttempts with
      | none => rfl
      | some v => exact (boundChecks_nil_path _ _ _ _).mp (h4 v hv)
    · cases hv : t.retryDelay with
      | none => rfl
      | some v => exact (validateNonnegative_nil _ _).mpr (h5 v hv)

/-! ### immutability: one listed field at a time -/

theorem specImmutable_of_nil (old new : Job) (path : String) (fp : String × String)
    (hfp : fp ∈ Facts.valJobSpecImmutable)
    (h : (Facts.valJobSpecImmutable.filterMap fun fp =>
      if specFieldEq fp.1 old new then none else some (⟨path ++ "." ++ fp.2, .invalid⟩ : FErr)) = []) :
    specFieldEq fp.1 old new = true := by
  have := List.filterMap_eq_nil_iff.mp h fp hfp
  by_cases hc : specFieldEq fp.1 old new = true
  · exact hc
  · simp [hc] at this

theorem templateImmutable_of_nil (old new : JobTemplate) (path : String) (fp : String × String)
    (hfp : fp ∈ Facts.valJobTemplateImmutable)
    (h : validateJobTemplateSpecImmutable old new path = []) :
    templateFieldEq fp.1 old new = true := by
  unfold validateJobTemplateSpecImmutable at h
  have := List.filterMap_eq_nil_iff.mp h fp hfp
  by_cases hc : templateFieldEq fp.1 old new = true
  · exact hc
  · simp [hc] at this

end Furiko.ValidationLemmas
