/-
Plan-level lemmas, fourth part: the whole pass.  Which handler each API call of `syncJobTasks`,
`sync` and `syncOne` comes from (`TaskCallOrigin`, `SyncCallOrigin`), and which stages a pass that
returns without error went through.  Core Lean only.
-/
import FurikoModel.Proofs.JobCtlPlanHandlers
import FurikoModel.Proofs.JobCtlPlanCreate

namespace Furiko.JobCtlPlan
open Furiko Furiko.JobCtl Furiko.WQ

theorem newCalls_trans {s s1 s2 : Sys} {l1 l2 : List Call} (h1 : Ext s s1 l1) (h2 : Ext s1 s2 l2) :
    newCalls s s2 = newCalls s s1 ++ newCalls s1 s2 := by
  rw [(h1.trans h2).newCalls, h1.newCalls, h2.newCalls]

/-- the task list `syncJobTasks` starts from: the tasks of the cached refs found by
`getTaskForRef` (pod cache, or a live GET when the cache misses an unfinished ref or is stale) -/
def tasks0 (s : Sys) (jo : JobObj) (rj : Job) : List Task := tasksForRefs s jo rj.status.tasks

/-- the status recomputation leaves the task list alone -/
theorem syncJobStatus_tasks (s : Sys) (key : String) (rj : Job) :
    (syncJobStatusFromTaskRefs s key rj).2.status.tasks = rj.status.tasks := by
  unfold syncJobStatusFromTaskRefs
  cases hu : updateJobStatusFromTaskRefs s.clock s.d rj with
  | none => rfl
  | some newRj =>
    have : newRj.status.tasks = rj.status.tasks := by
      unfold updateJobStatusFromTaskRefs updateJobStatusFromTaskRefsWith at hu
      cases ht : rj.template with
      | none => simp [ht] at hu
      | some t =>
        simp only [ht, Option.some.injEq] at hu
        subst hu
        simp [statusBeforePhase]
    simp only
    split
    · split
      · split <;> exact this
      · exact this
    · exact this

/-- the refs `updateTaskRefStatus` records: `GenerateTaskRefs` of the recorded refs and the tasks -/
theorem updateTaskRefStatus_tasks (s : Sys) (key : String) (rj : Job) (tasks : List Task) :
    (updateTaskRefStatus s key rj tasks).2.status.tasks = generateTaskRefs s.clock rj.status.tasks tasks := by
  unfold updateTaskRefStatus
  rw [syncJobStatus_tasks]
  rfl

/-- the creation of one task leaves the status of the working Job alone (it may add the admission error) -/
theorem syncCreateTask_status (s : Sys) (jo : JobObj) (rj : Job) (tasks : List Task) (idx : PIndex) (retry : Int)
    (rj1 : Job) (tasks1 : List Task) (h : (syncCreateTask s jo rj tasks idx retry).2 = some (rj1, tasks1)) :
    rj1.status = rj.status := by
  unfold syncCreateTask at h
  generalize apiCreatePod s jo idx retry = r at h
  obtain ⟨s1, cr⟩ := r
  cases cr with
  | ok p =>
    simp only at h
    cases hp : podTask s.clock p with
    | none => simp [hp] at h
    | some t => simp only [hp, Option.map_some, Option.some.injEq, Prod.mk.injEq] at h; rw [← h.1]
  | err => simp at h
  | «exists» =>
    simp only at h
    cases hf : findPod s1.podCache (taskName jo.name idx.hash retry) with
    | none => simp [hf] at h
    | some p =>
      simp only [hf] at h
      by_cases ho : p.ownerUid = some jo.uid
      · simp only [ho, if_true] at h
        cases hp : podTask s.clock p with
        | none => simp [hp] at h
        | some t => simp only [hp, Option.map_some, Option.some.injEq, Prod.mk.injEq] at h; rw [← h.1]
      · simp only [ho, if_false, Option.some.injEq, Prod.mk.injEq] at h
        rw [← h.1]

theorem createLoop_status (jo : JobObj) : ∀ (reqs : List CreationRequest) (s : Sys) (rj : Job) (tasks : List Task)
    (minE : Option Time) (rj' : Job) (tasks' : List Task) (minE' : Option Time),
    (createLoop jo reqs s rj tasks minE).2 = some (rj', tasks', minE') → rj'.status = rj.status
  | [], s, rj, tasks, minE, rj', tasks', minE', h => by
    rw [createLoop.eq_def] at h
    simp only [Option.some.injEq, Prod.mk.injEq] at h
    rw [← h.1]
  | r :: rest, s, rj, tasks, minE, rj', tasks', minE', h => by
    rw [createLoop_cons] at h
    split at h
    · exact createLoop_status jo rest s rj tasks _ rj' tasks' minE' h
    · generalize hc : syncCreateTask s jo rj tasks r.index r.retryIndex = c at h
      obtain ⟨s1, o⟩ := c
      cases o with
      | none => simp at h
      | some pr =>
        obtain ⟨rj1, tasks1⟩ := pr
        simp only at h
        have h1 := syncCreateTask_status s jo rj tasks r.index r.retryIndex rj1 tasks1 (by rw [hc])
        exact (createLoop_status jo rest s1 rj1 tasks1 _ rj' tasks' minE' h).trans h1

/-- the refs of the Job the creation step hands on: the cached ones, or — when the step went through its
creation loop — `GenerateTaskRefs` of the cached ones and the task list it hands on -/
theorem syncCreateTasks_tasks (s : Sys) (jo : JobObj) (rj : Job) (tasks : List Task) (s1 : Sys) (rj1 : Job)
    (tasks1 : List Task) (h : syncCreateTasks s jo rj tasks = (s1, some (rj1, tasks1))) :
    rj1.status.tasks = rj.status.tasks ∨ rj1.status.tasks = generateTaskRefs s.clock rj.status.tasks tasks1 := by
  rw [syncCreateTasks_eq] at h
  split at h
  · simp only [Prod.mk.injEq, Option.some.injEq] at h; rw [← h.2.1]; exact Or.inl rfl
  · split at h
    · simp only [Prod.mk.injEq, Option.some.injEq] at h; rw [← h.2.1]; exact Or.inl rfl
    · cases hreqs : computeMissingIndexesForCreation s.d rj (rj.indexes s.d) with
      | none => simp [hreqs] at h
      | some reqs =>
        simp only [hreqs] at h
        obtain ⟨lc, ec, _⟩ := createLoop_ext jo reqs s rj tasks none
        have hst := createLoop_status jo reqs s rj tasks none
        generalize createLoop jo reqs s rj tasks none = cl at h ec hst
        obtain ⟨sc, o⟩ := cl
        cases o with
        | none => simp at h
        | some tr =>
          obtain ⟨rjL, tasksL, minE⟩ := tr
          simp only [Prod.mk.injEq, Option.some.injEq] at h
          obtain ⟨_, hrj, htk⟩ := h
          right
          rw [← hrj, ← htk, updateTaskRefStatus_tasks, hst rjL tasksL minE rfl]
          have : (armMin sc (jobKey jo) minE).clock = s.clock := by
            have := ec.clock
            simp only at this
            cases minE <;> exact this
          rw [this]

/-- where a call issued by `syncJobTasks s jo rj` comes from.  `tasks1` is the task list after the
creation step; the state `s'` and Job `rj'` a later handler runs on keep the clock, configuration
and caches of `s` (`Ext`), the spec of `rj` (`SpecLe`: only the admission-error annotation may
have been added, by the creation step) and differ from the Job after creation only in status. -/
inductive TaskCallOrigin (s : Sys) (jo : JobObj) (rj : Job) (c : Call) : Prop
  | create : c ∈ newCalls s (syncCreateTasks s jo rj (tasks0 s jo rj)).1 → TaskCallOrigin s jo rj c
  | pending (s1 : Sys) (rj1 : Job) (tasks1 : List Task) (s' : Sys) (rj' : Job) (l : List Call) :
      syncCreateTasks s jo rj (tasks0 s jo rj) = (s1, some (rj1, tasks1)) → Ext s s' l → SpecLe rj rj1 →
      SameSpec rj1 rj' → rj'.status.tasks = generateTaskRefs s.clock rj1.status.tasks tasks1 →
      c ∈ newCalls s' (handlePendingTasks s' jo rj' tasks1).1 → TaskCallOrigin s jo rj c
  | kill (s1 : Sys) (rj1 : Job) (tasks1 : List Task) (s' : Sys) (rj' : Job) (l : List Call) :
      syncCreateTasks s jo rj (tasks0 s jo rj) = (s1, some (rj1, tasks1)) → Ext s s' l → SpecLe rj rj1 →
      SameSpec rj1 rj' → c ∈ newCalls s' (handleKillJob s' jo rj' tasks1).1 → TaskCallOrigin s jo rj c
  | force (s1 : Sys) (rj1 : Job) (tasks1 : List Task) (s' : Sys) (rj' : Job) (l : List Call) :
      syncCreateTasks s jo rj (tasks0 s jo rj) = (s1, some (rj1, tasks1)) → Ext s s' l → SpecLe rj rj1 →
      SameSpec rj1 rj' → c ∈ newCalls s' (handleForceDelete s' jo rj' tasks1).1 → TaskCallOrigin s jo rj c

theorem handlePending_sameSpec (s : Sys) (jo : JobObj) (rj : Job) (tasks : List Task) (rj' : Job)
    (h : (handlePendingTasks s jo rj tasks).2 = some rj') : SameSpec rj rj' := by
  obtain ⟨l, _, _, hoff, hon⟩ := handlePendingTasks_ext s jo rj tasks
  cases hT : getPendingTimeout rj s.cfg with
  | none => rw [hoff (Or.inl hT)] at h; cases h; exact SameSpec.refl _
  | some T =>
    by_cases hle : T ≤ 0
    · rw [hoff (Or.inr ⟨T, hT, hle⟩)] at h; cases h; exact SameSpec.refl _
    · obtain ⟨_, _, hm, _⟩ := hon T hT (by omega)
      rw [hm rj' h]; exact pendMark_sameSpec _ _ _ _

theorem handlePending_parallelStatus (s : Sys) (jo : JobObj) (rj : Job) (tasks : List Task) (rj' : Job)
    (h : (handlePendingTasks s jo rj tasks).2 = some rj') :
    rj'.status.parallelStatus = rj.status.parallelStatus := by
  obtain ⟨l, _, _, hoff, hon⟩ := handlePendingTasks_ext s jo rj tasks
  cases hT : getPendingTimeout rj s.cfg with
  | none => rw [hoff (Or.inl hT)] at h; cases h; rfl
  | some T =>
    by_cases hle : T ≤ 0
    · rw [hoff (Or.inr ⟨T, hT, hle⟩)] at h; cases h; rfl
    · obtain ⟨_, _, hm, _⟩ := hon T hT (by omega)
      rw [hm rj' h]; rfl

theorem handleKill_sameSpec (s : Sys) (jo : JobObj) (rj : Job) (tasks : List Task) (rj' : Job)
    (h : (handleKillJob s jo rj tasks).2 = some rj') : SameSpec rj rj' := by
  obtain ⟨l, _, _, _, hon⟩ := handleKillJob_ext s jo rj tasks
  by_cases hk : shouldKillJob s.clock rj = true
  · rw [(hon hk).2.1 rj' h]; exact killMark_sameSpec _ _
  · rw [handleKillJob_not s jo rj tasks (by simpa using hk)] at h; cases h; exact SameSpec.refl _

theorem handleForce_sameSpec (s : Sys) (jo : JobObj) (rj : Job) (tasks : List Task) (rj' : Job)
    (h : (handleForceDelete s jo rj tasks).2 = some rj') : SameSpec rj rj' := by
  obtain ⟨l, _, _, hoff, hon⟩ := handleForceDelete_ext s jo rj tasks
  by_cases hle : getForceDeleteTimeout s.cfg ≤ 0
  · rw [hoff (Or.inl hle)] at h; cases h; exact SameSpec.refl _
  · by_cases hfb : forbidsForce rj = true
    · rw [hoff (Or.inr hfb)] at h; cases h; exact SameSpec.refl _
    · rcases (hon (by omega) (by simpa using hfb)).2.2 rj' h with rfl | rfl
      · exact SameSpec.refl _
      · exact forceMark_sameSpec _ _ _ _

/-- the stages of a `syncJobTasks` pass that returned without error, and its calls stage by stage -/
theorem syncJobTasks_success (s : Sys) (jo : JobObj) (rj rjOut : Job)
    (h : (syncJobTasks s jo rj).2 = some rjOut) :
    ∃ s1 rj1 tasks1 s2 rj2 s3 rj3 s4 rj4 s5 rj5,
      syncCreateTasks s jo rj (tasks0 s jo rj) = (s1, some (rj1, tasks1)) ∧
      updateTaskRefStatus s1 (jobKey jo) rj1 tasks1 = (s2, rj2) ∧
      handlePendingTasks s2 jo rj2 tasks1 = (s3, some rj3) ∧
      handleKillJob s3 jo rj3 tasks1 = (s4, some rj4) ∧
      handleForceDelete s4 jo rj4 tasks1 = (s5, some rj5) ∧
      syncJobTasks s jo rj = ((updateTaskRefStatus s5 (jobKey jo) rj5 tasks1).1, some (updateTaskRefStatus s5 (jobKey jo) rj5 tasks1).2) ∧
      newCalls s (syncJobTasks s jo rj).1 = newCalls s s1 ++ (newCalls s2 s3 ++ (newCalls s3 s4 ++ newCalls s4 s5)) ∧
      (∃ l, Ext s s2 l) ∧ (∃ l, Ext s s3 l) ∧ (∃ l, Ext s s4 l) ∧
      SpecLe rj rj1 ∧ SameSpec rj1 rj2 ∧ SameSpec rj1 rj3 ∧ SameSpec rj1 rj4 ∧
      rj3.status.parallelStatus = rj2.status.parallelStatus := by
  unfold syncJobTasks at h ⊢
  simp only at h ⊢
  obtain ⟨lc, ec, _, _, _, hcres⟩ := syncCreateTasks_ext s jo rj (tasksForRefs s jo rj.status.tasks)
  generalize hcr : syncCreateTasks s jo rj (tasksForRefs s jo rj.status.tasks) = cr at *
  obtain ⟨s1, o1⟩ := cr
  cases o1 with
  | none => cases h
  | some p1 =>
    obtain ⟨rj1, tasks1⟩ := p1
    simp only at h ⊢ ec hcres
    obtain ⟨hle, _⟩ := hcres rj1 tasks1 rfl
    obtain ⟨e2, hs2, _⟩ := updateTaskRefStatus_ext s1 (jobKey jo) rj1 tasks1
    generalize hu2 : updateTaskRefStatus s1 (jobKey jo) rj1 tasks1 = u2 at *
    obtain ⟨s2, rj2⟩ := u2
    simp only at h ⊢ e2 hs2
    obtain ⟨lp, ep, _⟩ := handlePendingTasks_ext s2 jo rj2 tasks1
    have hsp := handlePending_sameSpec s2 jo rj2 tasks1
    have hpp := handlePending_parallelStatus s2 jo rj2 tasks1
    generalize hr3 : handlePendingTasks s2 jo rj2 tasks1 = r3 at *
    obtain ⟨s3, o3⟩ := r3
    cases o3 with
    | none => cases h
    | some rj3 =>
      simp only at h ⊢ ep hsp hpp
      obtain ⟨lk, ek, _⟩ := handleKillJob_ext s3 jo rj3 tasks1
      have hsk := handleKill_sameSpec s3 jo rj3 tasks1
      generalize hr4 : handleKillJob s3 jo rj3 tasks1 = r4 at *
      obtain ⟨s4, o4⟩ := r4
      cases o4 with
      | none => cases h
      | some rj4 =>
        simp only at h ⊢ ek hsk
        obtain ⟨lf, ef, _⟩ := handleForceDelete_ext s4 jo rj4 tasks1
        generalize hr5 : handleForceDelete s4 jo rj4 tasks1 = r5 at *
        obtain ⟨s5, o5⟩ := r5
        cases o5 with
        | none => cases h
        | some rj5 =>
          simp only at h ⊢ ef
          obtain ⟨e6, _, _⟩ := updateTaskRefStatus_ext s5 (jobKey jo) rj5 tasks1
          refine ⟨s1, rj1, tasks1, s2, rj2, s3, rj3, s4, rj4, s5, rj5, hcr, hu2, hr3, hr4, hr5, rfl, ?_,
            ⟨_, ec.trans e2⟩, ⟨_, (ec.trans e2).trans ep⟩, ⟨_, ((ec.trans e2).trans ep).trans ek⟩,
            hle, hs2, hs2.trans (hsp rj3 rfl), (hs2.trans (hsp rj3 rfl)).trans (hsk rj4 rfl), hpp rj3 rfl⟩
          have := (((((ec.trans e2).trans ep).trans ek).trans ef).trans e6).newCalls
          rw [this, ec.newCalls, ep.newCalls, ek.newCalls, ef.newCalls]
          simp

/-- every call of a `syncJobTasks` pass (successful or not) comes from the creation step or from
one of the three deleting handlers, run on a state/Job with the same clock, configuration, caches
and spec -/
theorem syncJobTasks_origin (s : Sys) (jo : JobObj) (rj : Job) :
    (∃ l, Ext s (syncJobTasks s jo rj).1 l) ∧
    ∀ c ∈ newCalls s (syncJobTasks s jo rj).1, TaskCallOrigin s jo rj c := by
  unfold syncJobTasks
  simp only
  obtain ⟨lc, ec, _, _, _, hcres⟩ := syncCreateTasks_ext s jo rj (tasksForRefs s jo rj.status.tasks)
  have hcreate : ∀ c ∈ lc, TaskCallOrigin s jo rj c := fun c hc => .create (by
    show c ∈ newCalls s (syncCreateTasks s jo rj (tasksForRefs s jo rj.status.tasks)).1
    rw [ec.newCalls]; exact hc)
  generalize hcr : syncCreateTasks s jo rj (tasksForRefs s jo rj.status.tasks) = cr at *
  obtain ⟨s1, o1⟩ := cr
  cases o1 with
  | none =>
    simp only at ec ⊢
    exact ⟨⟨_, ec⟩, fun c hc => hcreate c (by rwa [ec.newCalls] at hc)⟩
  | some p1 =>
    obtain ⟨rj1, tasks1⟩ := p1
    simp only at ec hcres ⊢
    obtain ⟨hle, _⟩ := hcres rj1 tasks1 rfl
    obtain ⟨e2, hs2, _⟩ := updateTaskRefStatus_ext s1 (jobKey jo) rj1 tasks1
    have ht2 := updateTaskRefStatus_tasks s1 (jobKey jo) rj1 tasks1
    rw [ec.clock] at ht2
    generalize updateTaskRefStatus s1 (jobKey jo) rj1 tasks1 = u2 at *
    obtain ⟨s2, rj2⟩ := u2
    simp only at e2 hs2 ht2 ⊢
    obtain ⟨lp, ep, _⟩ := handlePendingTasks_ext s2 jo rj2 tasks1
    have hsp := handlePending_sameSpec s2 jo rj2 tasks1
    have hpend : ∀ c ∈ lp, TaskCallOrigin s jo rj c := fun c hc =>
      .pending s1 rj1 tasks1 s2 rj2 _ hcr (ec.trans e2) hle hs2 ht2 (by rw [ep.newCalls]; exact hc)
    generalize handlePendingTasks s2 jo rj2 tasks1 = r3 at *
    obtain ⟨s3, o3⟩ := r3
    have e03 := (ec.trans e2).trans ep
    cases o3 with
    | none =>
      simp only at e03 ⊢
      refine ⟨⟨_, e03⟩, fun c hc => ?_⟩
      rw [e03.newCalls] at hc
      simp only [List.append_nil, List.mem_append] at hc
      rcases hc with h | h
      · exact hcreate c h
      · exact hpend c h
    | some rj3 =>
      simp only at ep hsp e03 ⊢
      obtain ⟨lk, ek, _⟩ := handleKillJob_ext s3 jo rj3 tasks1
      have hsk := handleKill_sameSpec s3 jo rj3 tasks1
      have hs3 := hs2.trans (hsp rj3 rfl)
      have hkill : ∀ c ∈ lk, TaskCallOrigin s jo rj c := fun c hc =>
        .kill s1 rj1 tasks1 s3 rj3 _ hcr e03 hle hs3 (by rw [ek.newCalls]; exact hc)
      generalize handleKillJob s3 jo rj3 tasks1 = r4 at *
      obtain ⟨s4, o4⟩ := r4
      have e04 := e03.trans ek
      cases o4 with
      | none =>
        simp only at e04 ⊢
        refine ⟨⟨_, e04⟩, fun c hc => ?_⟩
        rw [e04.newCalls] at hc
        simp only [List.append_nil, List.mem_append] at hc
        rcases hc with (h | h) | h
        · exact hcreate c h
        · exact hpend c h
        · exact hkill c h
      | some rj4 =>
        simp only at ek hsk e04 ⊢
        obtain ⟨lf, ef, _⟩ := handleForceDelete_ext s4 jo rj4 tasks1
        have hs4 := hs3.trans (hsk rj4 rfl)
        have hforce : ∀ c ∈ lf, TaskCallOrigin s jo rj c := fun c hc =>
          .force s1 rj1 tasks1 s4 rj4 _ hcr e04 hle hs4 (by rw [ef.newCalls]; exact hc)
        generalize handleForceDelete s4 jo rj4 tasks1 = r5 at *
        obtain ⟨s5, o5⟩ := r5
        have e05 := e04.trans ef
        have hall : ∀ c ∈ (lc ++ [] ++ lp ++ lk ++ lf), TaskCallOrigin s jo rj c := by
          intro c hc
          simp only [List.append_nil, List.mem_append] at hc
          rcases hc with ((h | h) | h) | h
          · exact hcreate c h
          · exact hpend c h
          · exact hkill c h
          · exact hforce c h
        cases o5 with
        | none =>
          simp only at e05 ⊢
          refine ⟨⟨_, e05⟩, fun c hc => ?_⟩
          rw [e05.newCalls] at hc
          exact hall c hc
        | some rj5 =>
          simp only at ef e05 ⊢
          obtain ⟨e6, _, _⟩ := updateTaskRefStatus_ext s5 (jobKey jo) rj5 tasks1
          refine ⟨⟨_, e05.trans e6⟩, fun c hc => ?_⟩
          rw [(e05.trans e6).newCalls, List.append_nil] at hc
          exact hall c hc

/-- the Job a successful `syncJobTasks` returns has the spec of the input (admission error may
have been added) -/
theorem syncJobTasks_specLe (s : Sys) (jo : JobObj) (rj rjOut : Job)
    (h : (syncJobTasks s jo rj).2 = some rjOut) : SpecLe rj rjOut := by
  obtain ⟨s1, rj1, tasks1, s2, rj2, s3, rj3, s4, rj4, s5, rj5, _, _, _, _, h5, heq, _, _, _, _, hle, _, _, hs4, _⟩ :=
    syncJobTasks_success s jo rj rjOut h
  rw [heq] at h
  simp only [Option.some.injEq] at h
  subst h
  have hf := handleForce_sameSpec s4 jo rj4 tasks1 rj5 (by rw [h5])
  obtain ⟨_, hs6, _⟩ := updateTaskRefStatus_ext s5 (jobKey jo) rj5 tasks1
  exact hle.trans ((hs4.trans hf).trans hs6).le

/-- where a call issued by `sync s jo` comes from -/
inductive SyncCallOrigin (s : Sys) (jo : JobObj) (c : Call) : Prop
  | tasks : isStarted jo.job = true → isDeleted jo.job = false → TaskCallOrigin s jo jo.job c →
      SyncCallOrigin s jo c
  | ttl (s' : Sys) (rj' : Job) (l : List Call) : Ext s s' l → SpecLe jo.job rj' →
      c ∈ newCalls s' (handleTTL s' jo rj').1 → SyncCallOrigin s jo c
  | finalizer (s' : Sys) (rj' : Job) (l : List Call) : Ext s s' l → SpecLe jo.job rj' →
      c ∈ newCalls s' (handleFinalizer s' jo rj' jo.finalizer).1 → SyncCallOrigin s jo c

/-- the first stage of `sync` -/
def syncTasksStage (s : Sys) (jo : JobObj) : Sys × Option Job :=
  if isStarted jo.job && !isDeleted jo.job then syncJobTasks s jo jo.job else (s, some jo.job)

theorem sync_eq (s : Sys) (jo : JobObj) :
    sync s jo =
      match (syncTasksStage s jo).2 with
      | none => ((syncTasksStage s jo).1, jo.job, jo.finalizer, false, false)
      | some rj1 =>
        let s1 := (syncTasksStage s jo).1
        let null2 := statusHasNullTime s1 rj1
        let u := syncJobStatusFromTaskRefs s1 (jobKey jo) rj1
        match (handleTTL u.1 jo u.2).2 with
        | false => ((handleTTL u.1 jo u.2).1, u.2, jo.finalizer, false, null2)
        | true =>
          let s3 := (handleTTL u.1 jo u.2).1
          let null3 := match finalizerStatusInput s3 jo u.2 jo.finalizer with
            | some inp => statusHasNullTime s3 inp
            | none => null2
          match (handleFinalizer s3 jo u.2 jo.finalizer).2 with
          | none => ((handleFinalizer s3 jo u.2 jo.finalizer).1, u.2, jo.finalizer, false, null2)
          | some (rj3, fin) => ((handleFinalizer s3 jo u.2 jo.finalizer).1, rj3, fin, true, null3) := by
  unfold sync syncTasksStage
  simp only
  generalize (if (isStarted jo.job && !isDeleted jo.job) = true then syncJobTasks s jo jo.job else (s, some jo.job)) = st
  obtain ⟨s1, o⟩ := st
  cases o with
  | none => rfl
  | some rj1 =>
    simp only
    generalize syncJobStatusFromTaskRefs s1 (jobKey jo) rj1 = u
    obtain ⟨s2, rj2⟩ := u
    simp only
    generalize handleTTL s2 jo rj2 = r
    obtain ⟨s3, b⟩ := r
    cases b with
    | false => rfl
    | true =>
      simp only
      generalize handleFinalizer s3 jo rj2 jo.finalizer = f
      obtain ⟨s4, o4⟩ := f
      cases o4 with
      | none => rfl
      | some pr => rfl

theorem syncTasksStage_ext (s : Sys) (jo : JobObj) :
    (∃ l, Ext s (syncTasksStage s jo).1 l) ∧
    (∀ c ∈ newCalls s (syncTasksStage s jo).1, SyncCallOrigin s jo c) ∧
    (∀ rj1, (syncTasksStage s jo).2 = some rj1 → SpecLe jo.job rj1) := by
  unfold syncTasksStage
  by_cases hc : (isStarted jo.job && !isDeleted jo.job) = true
  · rw [if_pos hc]
    simp only [Bool.and_eq_true, Bool.not_eq_true'] at hc
    obtain ⟨he, ho⟩ := syncJobTasks_origin s jo jo.job
    exact ⟨he, fun c h => .tasks hc.1 hc.2 (ho c h), fun rj1 h => syncJobTasks_specLe s jo jo.job rj1 h⟩
  · rw [if_neg hc]
    refine ⟨⟨[], Ext.refl s⟩, ?_, ?_⟩
    · intro c h
      rw [(Ext.refl s).newCalls] at h; cases h
    · intro rj1 h
      cases h; exact SpecLe.refl _

/-- every call of `sync` comes from the task stage (only for a started, not-deleting Job), from
the TTL step or from the finalizer step -/
theorem sync_origin (s : Sys) (jo : JobObj) :
    (∃ l, Ext s (sync s jo).1 l) ∧ ∀ c ∈ newCalls s (sync s jo).1, SyncCallOrigin s jo c := by
  rw [sync_eq]
  obtain ⟨⟨l1, e1⟩, ho1, hsp1⟩ := syncTasksStage_ext s jo
  generalize syncTasksStage s jo = st at *
  obtain ⟨s1, o⟩ := st
  cases o with
  | none => exact ⟨⟨l1, e1⟩, ho1⟩
  | some rj1 =>
    simp only at e1 ho1 hsp1 ⊢
    have hle1 := hsp1 rj1 rfl
    obtain ⟨e2, hs2, _, _⟩ := syncJobStatus_ext s1 (jobKey jo) rj1
    generalize syncJobStatusFromTaskRefs s1 (jobKey jo) rj1 = u at *
    obtain ⟨s2, rj2⟩ := u
    simp only at e2 hs2 ⊢
    have hle2 : SpecLe jo.job rj2 := hle1.trans hs2.le
    obtain ⟨lt, et, _, _, _⟩ := handleTTL_ext s2 jo rj2
    have e02 := e1.trans e2
    have httl : ∀ c ∈ lt, SyncCallOrigin s jo c := fun c hc =>
      .ttl s2 rj2 _ e02 hle2 (by rw [et.newCalls]; exact hc)
    have h1 : ∀ c ∈ l1, SyncCallOrigin s jo c := fun c hc => ho1 c (by rw [e1.newCalls]; exact hc)
    generalize handleTTL s2 jo rj2 = r at *
    obtain ⟨s3, b⟩ := r
    have e03 := e02.trans et
    cases b with
    | false =>
      simp only at e03 ⊢
      refine ⟨⟨_, e03⟩, fun c hc => ?_⟩
      rw [e03.newCalls] at hc
      simp only [List.append_nil, List.mem_append] at hc
      rcases hc with h | h
      · exact h1 c h
      · exact httl c h
    | true =>
      simp only at et e03 ⊢
      obtain ⟨lf, ef, _⟩ := handleFinalizer_ext s3 jo rj2 jo.finalizer
      have hfin : ∀ c ∈ lf, SyncCallOrigin s jo c := fun c hc =>
        .finalizer s3 rj2 _ e03 hle2 (by rw [ef.newCalls]; exact hc)
      generalize handleFinalizer s3 jo rj2 jo.finalizer = f at *
      obtain ⟨s4, o4⟩ := f
      have e04 := e03.trans ef
      have hall : ∀ c ∈ newCalls s s4, SyncCallOrigin s jo c := by
        intro c hc
        rw [e04.newCalls] at hc
        simp only [List.append_nil, List.mem_append] at hc
        rcases hc with (h | h) | h
        · exact h1 c h
        · exact httl c h
        · exact hfin c h
      cases o4 with
      | none => exact ⟨⟨_, e04⟩, hall⟩
      | some pr => exact ⟨⟨_, e04⟩, hall⟩

/-- the steps of `sync` after the task stage (status refresh, TTL step, finalizer step) only
extend the state the task stage left: in particular every timer armed so far is still armed -/
theorem sync_ext_after_tasks (s : Sys) (jo : JobObj) : ∃ l, Ext (syncTasksStage s jo).1 (sync s jo).1 l := by
  rw [sync_eq]
  generalize syncTasksStage s jo = st at *
  obtain ⟨s1, o⟩ := st
  cases o with
  | none => exact ⟨[], Ext.refl _⟩
  | some rj1 =>
    simp only
    obtain ⟨e2, _⟩ := syncJobStatus_ext s1 (jobKey jo) rj1
    generalize syncJobStatusFromTaskRefs s1 (jobKey jo) rj1 = u at *
    obtain ⟨s2, rj2⟩ := u
    simp only at e2 ⊢
    obtain ⟨lt, et, _⟩ := handleTTL_ext s2 jo rj2
    generalize handleTTL s2 jo rj2 = r at *
    obtain ⟨s3, b⟩ := r
    cases b with
    | false => exact ⟨_, e2.trans et⟩
    | true =>
      simp only at et ⊢
      obtain ⟨lf, ef, _⟩ := handleFinalizer_ext s3 jo rj2 jo.finalizer
      generalize handleFinalizer s3 jo rj2 jo.finalizer = f at *
      obtain ⟨s4, o4⟩ := f
      cases o4 with
      | none => exact ⟨_, (e2.trans et).trans ef⟩
      | some pr => exact ⟨_, (e2.trans et).trans ef⟩

/-- … and likewise the steps of `sync` after the TTL step: the state `handleTTL` left is only
extended by the finalizer step -/
theorem sync_ext_after_ttl (s : Sys) (jo : JobObj) (rj1 : Job) (h1 : (syncTasksStage s jo).2 = some rj1) :
    ∃ l, Ext (handleTTL (syncJobStatusFromTaskRefs (syncTasksStage s jo).1 (jobKey jo) rj1).1 jo
        (syncJobStatusFromTaskRefs (syncTasksStage s jo).1 (jobKey jo) rj1).2).1 (sync s jo).1 l := by
  rw [sync_eq]
  generalize syncTasksStage s jo = st at *
  obtain ⟨s1, o⟩ := st
  cases h1
  simp only
  generalize syncJobStatusFromTaskRefs s1 (jobKey jo) rj1 = u at *
  obtain ⟨s2, rj2⟩ := u
  simp only
  generalize handleTTL s2 jo rj2 = r at *
  obtain ⟨s3, b⟩ := r
  cases b with
  | false => exact ⟨[], Ext.refl _⟩
  | true =>
    simp only
    obtain ⟨lf, ef, _⟩ := handleFinalizer_ext s3 jo rj2 jo.finalizer
    generalize handleFinalizer s3 jo rj2 jo.finalizer = f at *
    obtain ⟨s4, o4⟩ := f
    cases o4 with
    | none => exact ⟨_, ef⟩
    | some pr => exact ⟨_, ef⟩

/-- every call of `SyncOne` comes from `sync` on the cached Job, or is one of the two final Job
writes (`Update`, `UpdateStatus`) -/
theorem statusBase_name (s : Sys) (jo : JobObj) (b : Bool) : (statusBase s jo b).name = jo.name := by
  unfold statusBase; cases b <;> rfl

theorem syncOne_origin (s : Sys) :
    (∃ l, Ext s (syncOne s).1 l) ∧
    ∀ c ∈ newCalls s (syncOne s).1, ∃ jo, s.jobCache = some jo ∧
      (SyncCallOrigin s jo c ∨ (c.verb = "update" ∧ c.res = "jobs" ∧ c.name = jo.name)) := by
  unfold syncOne
  cases hj : s.jobCache with
  | none =>
    refine ⟨⟨[], Ext.refl s⟩, fun c hc => ?_⟩
    rw [(Ext.refl s).newCalls] at hc; cases hc
  | some jo =>
    simp only
    obtain ⟨⟨l1, e1⟩, ho⟩ := sync_origin s jo
    have h1 : ∀ c ∈ l1, ∃ jo', some jo = some jo' ∧
        (SyncCallOrigin s jo' c ∨ (c.verb = "update" ∧ c.res = "jobs" ∧ c.name = jo'.name)) :=
      fun c hc => ⟨jo, rfl, Or.inl (ho c (by rw [e1.newCalls]; exact hc))⟩
    generalize sync s jo = r at *
    obtain ⟨s1, newJob, newFin, syncOk, nullTime⟩ := r
    simp only at e1 ⊢
    -- first write
    have hw1 : ∃ l2, Ext s1 (if (newJob.admissionError ≠ jo.job.admissionError || newFin ≠ jo.finalizer) = true then
          apiUpdateJob s1 jo { jo with job := newJob, finalizer := newFin } else (s1, true)).1 l2 ∧
        ∀ c ∈ l2, c.verb = "update" ∧ c.res = "jobs" ∧ c.name = jo.name := by
      split
      · obtain ⟨c, e, hv, hr, hn, _⟩ := apiUpdateJob_ext s1 jo { jo with job := newJob, finalizer := newFin }
        exact ⟨[c], e, fun c' hc' => by rw [List.mem_singleton.mp hc']; exact ⟨hv, hr, hn⟩⟩
      · exact ⟨[], Ext.refl s1, by simp⟩
    obtain ⟨l2, e2, hu2⟩ := hw1
    generalize (if (newJob.admissionError ≠ jo.job.admissionError || newFin ≠ jo.finalizer) = true then
          apiUpdateJob s1 jo { jo with job := newJob, finalizer := newFin } else (s1, true)) = w1 at *
    obtain ⟨s2, ok1⟩ := w1
    simp only at e2 ⊢
    have e02 := e1.trans e2
    have h2 : ∀ c ∈ l2, ∃ jo', some jo = some jo' ∧
        (SyncCallOrigin s jo' c ∨ (c.verb = "update" ∧ c.res = "jobs" ∧ c.name = jo'.name)) :=
      fun c hc => ⟨jo, rfl, Or.inr (hu2 c hc)⟩
    cases ok1 with
    | false =>
      simp only [Bool.not_false, if_true]
      refine ⟨⟨_, e02⟩, fun c hc => ?_⟩
      rw [e02.newCalls] at hc
      rcases List.mem_append.mp hc with h | h
      · exact h1 c h
      · exact h2 c h
    | true =>
      simp only [Bool.not_true, Bool.false_eq_true, if_false]
      have hw2 : ∃ l3, Ext s2 (if (decide (newJob.status ≠ jo.job.status) || nullTime) = true then
            apiUpdateJobStatus s2 (statusBase s2 jo (newJob.admissionError ≠ jo.job.admissionError || newFin ≠ jo.finalizer))
              { jo with job := newJob } else (s2, true)).1 l3 ∧
          ∀ c ∈ l3, c.verb = "update" ∧ c.res = "jobs" ∧ c.name = jo.name := by
        split
        · obtain ⟨c, e, hv, hr, hn, _⟩ := apiUpdateJobStatus_ext s2
            (statusBase s2 jo (newJob.admissionError ≠ jo.job.admissionError || newFin ≠ jo.finalizer))
            { jo with job := newJob }
          exact ⟨[c], e, fun c' hc' => by rw [List.mem_singleton.mp hc']; exact ⟨hv, hr, hn.trans (statusBase_name _ _ _)⟩⟩
        · exact ⟨[], Ext.refl s2, by simp⟩
      obtain ⟨l3, e3, hu3⟩ := hw2
      generalize (if (decide (newJob.status ≠ jo.job.status) || nullTime) = true then
            apiUpdateJobStatus s2 (statusBase s2 jo (newJob.admissionError ≠ jo.job.admissionError || newFin ≠ jo.finalizer))
              { jo with job := newJob } else (s2, true)) = w2 at *
      obtain ⟨s3, ok2⟩ := w2
      simp only at e3 ⊢
      have e03 := e02.trans e3
      have hall : ∀ c ∈ newCalls s s3, ∃ jo', some jo = some jo' ∧
          (SyncCallOrigin s jo' c ∨ (c.verb = "update" ∧ c.res = "jobs" ∧ c.name = jo'.name)) := by
        intro c hc
        rw [e03.newCalls] at hc
        simp only [List.mem_append] at hc
        rcases hc with (h | h) | h
        · exact h1 c h
        · exact h2 c h
        · exact ⟨jo, rfl, Or.inr (hu3 c h)⟩
      cases ok2 with
      | false => exact ⟨⟨_, e03⟩, hall⟩
      | true => exact ⟨⟨_, e03⟩, hall⟩

end Furiko.JobCtlPlan
