/-
Lemmas about `Model/Str.lean`: decimal rendering and parsing are inverse, rendered integers
contain no separator characters, `splitOn`/`join` laws.  Core Lean only.
-/
import FurikoModel.Model.Str

namespace Furiko.Str

/-! ### digits -/

theorem digitVal_digitChar : ∀ d : Nat, d < 10 → digitVal (Nat.digitChar d) = some d := by
  intro d h
  have : ∀ d : Fin 10, digitVal (Nat.digitChar d.val) = some d.val := by decide
  exact this ⟨d, h⟩

theorem digitVal_isSome_of_isDigit {c : Char} (h : c.isDigit = true) : (digitVal c).isSome = true := by
  unfold digitVal
  have h' : ('0' ≤ c ∧ c ≤ '9') := by
    simp only [Char.isDigit, Bool.and_eq_true, decide_eq_true_eq] at h
    exact ⟨h.1, h.2⟩
  simp [h']

/-- a digit character is none of the characters the codecs treat specially -/
theorem ne_of_isDigit {c x : Char} (h : c.isDigit = true) (hx : x.isDigit = false) : c ≠ x := by
  intro e; subst e; simp [h] at hx

theorem natDigits_isDigit {n : Nat} {c : Char} (h : c ∈ natDigits n) : c.isDigit = true :=
  Nat.isDigit_of_mem_toDigits (by decide) (by decide) h

theorem natDigits_ne_nil (n : Nat) : natDigits n ≠ [] := Nat.toDigits_ne_nil

theorem natDigits_eq (n : Nat) :
    natDigits n = if n < 10 then [Nat.digitChar n] else natDigits (n / 10) ++ [Nat.digitChar (n % 10)] :=
  Nat.toDigits_eq_if (by decide)

theorem parseDigitsFrom_append_single (l : Str) (c : Char) (acc : Nat) :
    parseDigitsFrom acc (l ++ [c]) =
      (parseDigitsFrom acc l).bind (fun a => (digitVal c).map (fun d => a * 10 + d)) := by
  induction l generalizing acc with
  | nil =>
    simp only [List.nil_append, parseDigitsFrom]
    cases digitVal c <;> simp
  | cons x xs ih =>
    simp only [List.cons_append, parseDigitsFrom]
    cases digitVal x with
    | none => simp
    | some d => simp [ih]

theorem parseDigits_natDigits (n : Nat) : parseDigits (natDigits n) = some n := by
  induction n using Nat.strongRecOn with
  | _ n ih =>
    rw [natDigits_eq]
    by_cases h : n < 10
    · simp only [h, if_true, parseDigits, parseDigitsFrom, digitVal_digitChar n h]
      simp
    · have hlt : n / 10 < n := by omega
      have := ih (n / 10) hlt
      simp only [h, if_false, parseDigits] at this ⊢
      rw [parseDigitsFrom_append_single, this, digitVal_digitChar _ (by omega)]
      simp only [Option.bind_some, Option.map_some, Option.some.injEq]
      omega

theorem natDigits_injective {a b : Nat} (h : natDigits a = natDigits b) : a = b := by
  have := parseDigits_natDigits a
  rw [h, parseDigits_natDigits] at this
  exact (Option.some.inj this).symm

/-! ### showInt / atoi -/

theorem natDigits_cons (n : Nat) : ∃ c rest, natDigits n = c :: rest ∧ c.isDigit = true := by
  cases h : natDigits n with
  | nil => exact absurd h (natDigits_ne_nil n)
  | cons c rest => exact ⟨c, rest, rfl, natDigits_isDigit (by rw [h]; simp)⟩

theorem signSplit_digits (n : Nat) : signSplit (natDigits n) = some (false, natDigits n) := by
  obtain ⟨c, rest, h, hd⟩ := natDigits_cons n
  rw [h]
  have h1 : c ≠ '-' := ne_of_isDigit hd (by decide)
  have h2 : c ≠ '+' := ne_of_isDigit hd (by decide)
  simp [signSplit, h1, h2]

theorem signSplit_neg_digits (n : Nat) : signSplit ('-' :: natDigits n) = some (true, natDigits n) := by
  have := natDigits_ne_nil n
  simp [signSplit, this]

/-- decimal rendering followed by sign-and-digits parsing is the identity, for every integer -/
theorem atoiU_showInt (t : Int) : atoiU (showInt t) = some t := by
  unfold atoiU showInt
  by_cases h : t < 0
  · simp only [h, if_true, signSplit_neg_digits, parseDigits_natDigits]
    have : -((t.natAbs : Nat) : Int) = t := by omega
    simp [this]
  · simp only [h, if_false, signSplit_digits, parseDigits_natDigits]
    have : ((t.natAbs : Nat) : Int) = t := by omega
    simp [this]

theorem atoi_showInt {t : Int} (h : InInt64 t) : atoi (showInt t) = some t := by
  simp [atoi, atoiU_showInt, h]

theorem atoi_showInt_out_of_range {t : Int} (h : ¬ InInt64 t) : atoi (showInt t) = none := by
  simp [atoi, atoiU_showInt, h]

theorem showInt_injective {a b : Int} (h : showInt a = showInt b) : a = b := by
  have := atoiU_showInt a
  rw [h, atoiU_showInt] at this
  exact (Option.some.inj this).symm

/-- a rendered integer contains no character that is neither a digit nor `-` -/
theorem not_mem_showInt {x : Char} (t : Int) (hx : x.isDigit = false) (hm : x ≠ '-') : x ∉ showInt t := by
  unfold showInt
  intro hmem
  have aux : x ∉ natDigits t.natAbs := fun hin => ne_of_isDigit (natDigits_isDigit hin) hx rfl
  split at hmem
  · rcases List.mem_cons.mp hmem with e | e
    · exact hm e
    · exact aux e
  · exact aux hmem

/-! ### splitOn / join -/

theorem splitOn_ne_nil (sep : Char) (s : Str) : splitOn sep s ≠ [] := by
  induction s with
  | nil => simp [splitOn]
  | cons c cs ih =>
    unfold splitOn
    by_cases h : c = sep
    · simp [h]
    · simp only [h, if_false]
      split <;> simp

theorem splitOn_of_not_mem {sep : Char} {s : Str} (h : sep ∉ s) : splitOn sep s = [s] := by
  induction s with
  | nil => rfl
  | cons c cs ih =>
    have hc : c ≠ sep := fun e => h (by simp [e])
    have hcs : sep ∉ cs := fun e => h (List.mem_cons_of_mem _ e)
    unfold splitOn
    simp [hc, ih hcs]

theorem splitOn_append_sep (sep : Char) (a b : Str) :
    splitOn sep (a ++ sep :: b) = splitOn sep a ++ splitOn sep b := by
  induction a with
  | nil => simp [splitOn]
  | cons c cs ih =>
    by_cases h : c = sep
    · simp only [List.cons_append]
      rw [splitOn, splitOn.eq_2]
      simp [h, ih]
    · simp only [List.cons_append]
      rw [splitOn, splitOn.eq_2]
      simp only [h, if_false, ih]
      cases hs : splitOn sep cs with
      | nil => exact absurd hs (splitOn_ne_nil sep cs)
      | cons t ts => simp

theorem join_splitOn (sep : Char) (s : Str) : join sep (splitOn sep s) = s := by
  induction s with
  | nil => rfl
  | cons c cs ih =>
    unfold splitOn
    cases hs : splitOn sep cs with
    | nil => exact absurd hs (splitOn_ne_nil sep cs)
    | cons t ts =>
      rw [hs] at ih
      by_cases h : c = sep
      · simp only [h, if_true, join, List.nil_append, ih]
      · simp only [h, if_false]
        cases ts with
        | nil => simp only [join] at ih ⊢; rw [ih]
        | cons b r => simp only [join, List.cons_append] at ih ⊢; rw [ih]

/-- splitting `k ++ sep :: d` when `d` has no separator: the tokens of `k`, then `d` -/
theorem splitOn_snoc_token {sep : Char} (k d : Str) (hd : sep ∉ d) :
    splitOn sep (k ++ sep :: d) = splitOn sep k ++ [d] := by
  rw [splitOn_append_sep, splitOn_of_not_mem hd]

end Furiko.Str
