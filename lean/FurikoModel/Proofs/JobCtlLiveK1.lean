/-
Liveness of the job controller, kill part 1 (pure): the status `UpdateJobStatusFromTaskRefs` computes
for a started Job whose kill timestamp has passed (any template, parallel or not; no admission error,
not being deleted): `Finished` with result `Killed` as soon as every recorded ref is finished, and the
computation is idempotent at every clock reading at or after the kill timestamp (`statusOf_idem_k`,
`recompute_idem_k`).  Core Lean only.
-/
import FurikoModel.Proofs.JobCtlLive35

set_option linter.unusedSimpArgs false
set_option linter.unusedVariables false

namespace Furiko.JobCtl.Live
open Furiko Furiko.JobCtl Furiko.WQ Furiko.StatusLemmas Furiko.JobCtlPlan

/-- the spec side of a started Job that is to be killed: a template, a kill timestamp, no admission error,
not being deleted -/
structure KillSpec (rj : Job) (kt : Time) : Prop where
  tmpl : rj.template.isSome = true
  kill : rj.killTimestamp = some kt
  adm : rj.admissionError = false
  del : rj.deletionTimestamp = none
  started : rj.status.startTime.isSome = true

theorem KillSpec.congr {a b : Job} {kt : Time} (h : KillSpec a kt) (hs : SameSpec a b)
    (hst : b.status.startTime = a.status.startTime) : KillSpec b kt :=
  ⟨by rw [hs.template]; exact h.tmpl, by rw [hs.killTimestamp]; exact h.kill,
   by rw [hs.admissionError]; exact h.adm, by rw [hs.deletionTimestamp]; exact h.del, by rw [hst]; exact h.started⟩

theorem KillSpec.statusOf {rj : Job} {kt : Time} (h : KillSpec rj kt) (now : Time) (d : PIndex) :
    KillSpec (Live.statusOf now d rj) kt :=
  h.congr (statusOf_sameSpec now d rj).1 (statusOf_sameSpec now d rj).2.2.1

theorem KillSpec.recompute {rj : Job} {kt : Time} (h : KillSpec rj kt) (now : Time) (d : PIndex) (T : List Task) :
    KillSpec (Live.recompute now d rj T) kt :=
  h.congr (recompute_sameSpec now d rj T).1 (recompute_sameSpec now d rj T).2.2

theorem passed_true {now kt : Time} (h : kt ≤ now) : isTimeSetAndEarlierOrEqual now (some kt) = true := by
  unfold isTimeSetAndEarlierOrEqual
  by_cases hlt : kt < now
  · simp [hlt]
  · have : kt = now := Int.le_antisymm h (Int.not_lt.mp hlt)
    simp [this]

/-- the condition of a Job whose kill timestamp has passed: `Finished`/`Killed` when every index is
terminated, "deleting tasks" otherwise -/
theorem getCondition_killed (now : Time) (d : PIndex) (rj : Job) (kt : Time) (h : KillSpec rj kt) (hk : kt ≤ now) :
    getCondition now d rj =
      if (getParallelStatusCounters (getParallelStatus d rj rj.status.tasks).indexes).terminated ≥ ((rj.indexes d).length : Int) then
        { finished := some {
            latestCreationTimestamp := latestCreated rj.status.tasks
            latestRunningTimestamp := latestRunning rj.status.tasks
            finishTimestamp := if (latestFinished rj.status.tasks).isSome then latestFinished rj.status.tasks else rj.killTimestamp
            result := .killed } }
      else { waiting := some .deletingTasks } := by
  have hstart : rj.status.startTime.isNone = false := by
    cases hs : rj.status.startTime with
    | none => have := h.started; rw [hs] at this; cases this
    | some _ => rfl
  unfold getCondition
  simp only [h.adm, hstart, h.kill, passed_true hk, Bool.false_eq_true, ↓reduceIte]

/-- … in particular it does not depend on the clock reading, once the kill timestamp has passed -/
theorem getCondition_clock_k (now now' : Time) (d : PIndex) (rj : Job) (kt : Time) (h : KillSpec rj kt)
    (hk : kt ≤ now) (hk' : kt ≤ now') : getCondition now d rj = getCondition now' d rj := by
  rw [getCondition_killed now d rj kt h hk, getCondition_killed now' d rj kt h hk']

/-- every ref finished: every index is terminated -/
theorem terminated_of_allFin (d : PIndex) (rj : Job) (h : AllFin rj.status.tasks) :
    (getParallelStatusCounters (getParallelStatus d rj rj.status.tasks).indexes).terminated ≥ ((rj.indexes d).length : Int) := by
  show (getParallelStatusCounters (indexStatuses d rj rj.status.tasks)).terminated ≥ _
  rw [terminated_ge_iff]
  intro i _ r hr _
  exact h r hr

/-- **killed and every ref finished: `Finished` with result `Killed`** -/
theorem killed_finished (now : Time) (d : PIndex) (rj : Job) (kt : Time) (h : KillSpec rj kt) (hk : kt ≤ now)
    (hfin : AllFin rj.status.tasks) :
    ∃ f, (getCondition now d rj).finished = some f ∧ f.result = .killed ∧
      f.finishTimestamp = (if (latestFinished rj.status.tasks).isSome then latestFinished rj.status.tasks else some kt) := by
  rw [getCondition_killed now d rj kt h hk, if_pos (terminated_of_allFin d rj hfin)]
  exact ⟨_, rfl, rfl, by rw [h.kill]⟩

/-! ### the recomputed status -/

theorem getParallelStatus_congr (d : PIndex) {a b : Job} (ht : b.template = a.template) (ts : List TaskRef) :
    getParallelStatus d b ts = getParallelStatus d a ts := by
  have hi : b.indexes d = a.indexes d := indexes_of_template ht d
  have hm : b.maxAttempts = a.maxAttempts := maxAttempts_of_template ht
  have hstrat : b.strategy = a.strategy := by unfold Job.strategy Job.parallelism; rw [ht]
  unfold getParallelStatus getParallelTaskSummary indexStatuses
  rw [hi, hm, hstrat]

/-- explicit form of the recomputed status of a Job that is not being deleted -/
theorem statusOf_live (now : Time) (d : PIndex) (rj : Job) (t : Template) (ht : rj.template = some t)
    (hdel : rj.deletionTimestamp = none) :
    statusOf now d rj =
      { rj with status := { rj.status with
          parallelStatus := (match t.parallelism with
            | some _ => some (getParallelStatus d rj rj.status.tasks)
            | none => rj.status.parallelStatus)
          condition := getCondition now d rj
          state := getJobStateFromCondition (getCondition now d rj)
          phase := getPhase now { rj with status := { rj.status with
            parallelStatus := (match t.parallelism with
              | some _ => some (getParallelStatus d rj rj.status.tasks)
              | none => rj.status.parallelStatus)
            condition := getCondition now d rj
            state := getJobStateFromCondition (getCondition now d rj) } } } } := by
  cases rj with
  | mk tm k ttl sp adm dts st =>
    simp only at ht hdel
    subst ht
    subst hdel
    unfold statusOf updateJobStatusFromTaskRefs updateJobStatusFromTaskRefsWith
    simp only [Option.getD_some, statusBeforePhase, deletionOverrides, Option.isSome_none,
      Bool.false_and, Bool.false_eq_true, ↓reduceIte]
    cases t.parallelism <;> rfl

/-- with the kill timestamp passed `GetPhase` reads neither the clock nor the stored phase and state -/
theorem getPhase_congr_k (now now' : Time) (a b : Job) (kt : Time) (hk : a.killTimestamp = some kt)
    (hk' : b.killTimestamp = some kt) (hle : kt ≤ now) (hle' : kt ≤ now')
    (hc : b.status.condition = a.status.condition) (ht : b.status.tasks = a.status.tasks)
    (hp : b.status.parallelStatus = a.status.parallelStatus) (hcr : b.status.createdTasks = a.status.createdTasks) :
    getPhase now' b = getPhase now a := by
  unfold getPhase
  simp only [hc, ht, hp, hcr, hk, hk', passed_true hle, passed_true hle']

/-- **the status computation is idempotent** on a killed Job, at all clock readings after the kill timestamp -/
theorem statusOf_idem_k (now now' : Time) (d : PIndex) (rj : Job) (kt : Time) (h : KillSpec rj kt)
    (hk : kt ≤ now) (hk' : kt ≤ now') : statusOf now' d (statusOf now d rj) = statusOf now d rj := by
  have h' := h.statusOf now d
  obtain ⟨t, ht⟩ : ∃ t, rj.template = some t := by
    cases hx : rj.template with
    | none => have := h.tmpl; rw [hx] at this; cases this
    | some t => exact ⟨t, rfl⟩
  obtain ⟨hs, htasks, hst, _, _⟩ := statusOf_sameSpec now d rj
  have ht' : (statusOf now d rj).template = some t := by rw [hs.template]; exact ht
  have hcond : getCondition now' d (statusOf now d rj) = getCondition now d rj := by
    rw [← getCondition_clock_k now now' d _ kt h' hk hk']
    exact getCondition_congr_fields now d rj _ h.adm hs.admissionError hst htasks hs.killTimestamp hs.template hs.startPolicy
  have hps : getParallelStatus d (statusOf now d rj) (statusOf now d rj).status.tasks =
      getParallelStatus d rj rj.status.tasks := by
    rw [htasks]; exact getParallelStatus_congr d hs.template _
  rw [statusOf_live now' d _ t ht' h'.del, hcond, hps]
  rw [statusOf_live now d rj t ht h.del]
  cases hp : t.parallelism with
  | none =>
    simp only
    congr 2
    exact getPhase_congr_k now now' _ _ kt h.kill h.kill hk hk' rfl rfl rfl rfl
  | some sp =>
    simp only
    congr 2
    exact getPhase_congr_k now now' _ _ kt h.kill h.kill hk hk' rfl rfl rfl rfl

/-- recomputing from the recomputed Job changes nothing, provided `GenerateTaskRefs` is at its fixpoint -/
theorem recompute_idem_k (now now' : Time) (d : PIndex) (rj : Job) (T T' : List Task) (kt : Time) (h : KillSpec rj kt)
    (hk : kt ≤ now) (hk' : kt ≤ now')
    (hgen : generateTaskRefs now' (generateTaskRefs now rj.status.tasks T) T' = generateTaskRefs now rj.status.tasks T) :
    recompute now' d (recompute now d rj T) T' = recompute now d rj T := by
  have hX : KillSpec (updateJobTaskRefs now rj T) kt := h.congr (updateJobTaskRefs_sameSpec now rj T) rfl
  obtain ⟨t, ht⟩ : ∃ t, (updateJobTaskRefs now rj T).template = some t := by
    cases hx : (updateJobTaskRefs now rj T).template with
    | none => have := hX.tmpl; rw [hx] at this; cases this
    | some t => exact ⟨t, rfl⟩
  have hu : updateJobTaskRefs now' (recompute now d rj T) T' = recompute now d rj T := by
    unfold recompute
    rw [statusOf_live now d _ t ht hX.del]
    unfold updateJobTaskRefs
    simp only [hgen]
  unfold recompute at hu ⊢
  rw [hu]
  exact statusOf_idem_k now now' d _ kt hX hk hk'

/-- **a killed Job whose refs are all finished after the refresh is recomputed `Finished`/`Killed`** -/
theorem recompute_killed (now : Time) (d : PIndex) (rj : Job) (T : List Task) (kt : Time) (h : KillSpec rj kt)
    (hk : kt ≤ now) (hfin : AllFin (generateTaskRefs now rj.status.tasks T)) :
    ∃ f, (recompute now d rj T).status.condition.finished = some f ∧ f.result = .killed ∧
      f.finishTimestamp = (if (latestFinished (generateTaskRefs now rj.status.tasks T)).isSome
        then latestFinished (generateTaskRefs now rj.status.tasks T) else some kt) := by
  have hX : KillSpec (updateJobTaskRefs now rj T) kt := h.congr (updateJobTaskRefs_sameSpec now rj T) rfl
  obtain ⟨t, ht⟩ : ∃ t, (updateJobTaskRefs now rj T).template = some t := by
    cases hx : (updateJobTaskRefs now rj T).template with
    | none => have := hX.tmpl; rw [hx] at this; cases this
    | some t => exact ⟨t, rfl⟩
  have hcondEq : (recompute now d rj T).status.condition = getCondition now d (updateJobTaskRefs now rj T) := by
    unfold recompute
    rw [statusOf_live now d _ t ht hX.del]
  rw [hcondEq]
  exact killed_finished now d (updateJobTaskRefs now rj T) kt hX hk hfin

end Furiko.JobCtl.Live
