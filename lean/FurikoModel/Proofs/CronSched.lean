/-
Map-level specifications of the `Schedule` operations (`schedDelete`, `schedBump`, `schedPop`)
derived from the heap interface theorems of Proofs/HeapSpec.lean.
-/
import FurikoModel.Proofs.CronLemmas

namespace Furiko.Cron
open Furiko

theorem schedDelete_inv {pq : Heap.PQ} (h : Heap.Inv pq) (key : String) :
    Heap.Inv (schedDelete pq key) := Heap.inv_delete h key

theorem schedDelete_search {pq : Heap.PQ} (h : Heap.Inv pq) (key k : String) :
    Heap.search (schedDelete pq key) k = if k = key then none else Heap.search pq k :=
  Heap.search_delete h key k

/-- the entry `Bump(jc, from)` leaves for `jc.key`, given the old entry `old` -/
def bumpEntry (jc : JC) (old : Option Int) (s : Int) : Option Int :=
  if !jc.sched.enabled then none
  else if jc.sched.parseErr then old
  else jc.nextAfter s

theorem schedBump_spec {pq : Heap.PQ} (h : Heap.Inv pq) (jc : JC) (hs : jc.SortedOK)
    (fromNs : Int) :
    Heap.Inv (schedBump pq jc fromNs).1 ∧
    ∀ k, Heap.search (schedBump pq jc fromNs).1 k =
      if k = jc.key then bumpEntry jc (Heap.search pq jc.key) (floorSec fromNs)
      else Heap.search pq k := by
  unfold schedBump bumpEntry
  by_cases hen : jc.sched.enabled = true
  · by_cases hpe : jc.sched.parseErr = true
    · simp only [hen, hpe, Bool.not_true, Bool.false_eq_true, if_false, if_true]
      refine ⟨h, fun k => ?_⟩
      by_cases hk : k = jc.key
      · simp [hk]
      · simp [hk]
    · simp only [hen, hpe, Bool.not_true, Bool.false_eq_true, if_false]
      rw [getNext_eq_nextAfter]
      cases hn : jc.nextAfter (floorSec fromNs) with
      | none =>
        exact ⟨schedDelete_inv h _, fun k => schedDelete_search h _ k⟩
      | some n =>
        have hgt : n * 1000000000 > fromNs :=
          getNext_after (JC.nxt_spec hs) _ _ _ _ (by rw [getNext_eq_nextAfter]; exact hn)
        simp only [hgt, decide_true, Bool.not_true, Bool.false_eq_true, if_false]
        cases hsr : Heap.search pq jc.key with
        | some p =>
          have hne : Heap.search pq jc.key ≠ none := by rw [hsr]; simp
          exact ⟨Heap.inv_update h _ _, fun k => Heap.search_update h _ _ hne k⟩
        | none =>
          exact ⟨Heap.inv_push h _ _ hsr, fun k => Heap.search_push h _ _ hsr k⟩
  · have hen' : jc.sched.enabled = false := by simpa using hen
    simp only [hen', Bool.not_false, if_true]
    exact ⟨schedDelete_inv h _, fun k => schedDelete_search h _ k⟩

theorem schedPop_some {pq pq' : Heap.PQ} {key : String} {ts nowNs : Int} (h : Heap.Inv pq)
    (hp : schedPop pq nowNs = some (pq', key, ts)) :
    Heap.search pq key = some ts ∧ ts * 1000000000 ≤ nowNs ∧
    (∀ k p, Heap.search pq k = some p → ts ≤ p) ∧ Heap.Inv pq' ∧
    ∀ k, Heap.search pq' k = if k = key then none else Heap.search pq k := by
  unfold schedPop at hp
  cases hpk : Heap.peek pq with
  | none => simp [hpk] at hp
  | some item =>
    simp only [hpk] at hp
    by_cases hgt : item.prio * 1000000000 > nowNs
    · simp [hgt] at hp
    · simp only [hgt, if_false] at hp
      obtain ⟨pq1, it', hpop, _, _, hinv, hsr⟩ := Heap.pop_spec h hpk
      simp only [hpop, Option.some.injEq, Prod.mk.injEq] at hp
      obtain ⟨rfl, rfl, rfl⟩ := hp
      have hm := Heap.peek_min h hpk
      exact ⟨hm.1, by omega, hm.2, hinv, hsr⟩

theorem schedPop_none {pq : Heap.PQ} {nowNs : Int} (h : Heap.Inv pq)
    (hp : schedPop pq nowNs = none) :
    ∀ k p, Heap.search pq k = some p → p * 1000000000 > nowNs := by
  intro k p hk
  unfold schedPop at hp
  cases hpk : Heap.peek pq with
  | none =>
    have := (Heap.peek_none_iff h).1 hpk k
    rw [this] at hk; cases hk
  | some item =>
    simp only [hpk] at hp
    by_cases hgt : item.prio * 1000000000 > nowNs
    · have := (Heap.peek_min h hpk).2 k p hk
      omega
    · simp only [hgt, if_false] at hp
      obtain ⟨pq1, it', hpop, _⟩ := Heap.pop_spec h hpk
      simp [hpop] at hp

/-- conversely `schedPop` succeeds as soon as some entry has arrived -/
theorem schedPop_isSome {pq : Heap.PQ} {nowNs : Int} (h : Heap.Inv pq) {k : String} {p : Int}
    (hk : Heap.search pq k = some p) (hp : p * 1000000000 ≤ nowNs) :
    (schedPop pq nowNs).isSome := by
  cases hs : schedPop pq nowNs with
  | some _ => rfl
  | none => have := schedPop_none h hs k p hk; omega

end Furiko.Cron
