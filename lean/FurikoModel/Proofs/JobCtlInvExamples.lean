/-
Concrete reachable states of the job-controller transition system, used by the `example`s that
show the hypotheses of the history theorems are satisfiable.  Core Lean only.
-/
import FurikoModel.Proofs.JobCtlInvRefsInv
import FurikoModel.Proofs.JobCtlInvGone
import FurikoModel.Proofs.JobCtlInvStabThm

namespace Furiko.JobCtl.Ex
open Furiko Furiko.JobCtl

/-- a started Job: one (default) index, two attempts, TTL 1000 s, with the finalizer -/
def job : JobObj :=
  { name := "job", uid := "u", finalizer := true, rv := 0
    job := { template := some { maxAttempts := some 2 }, ttlSecondsAfterFinished := some 1000,
             status := { startTime := some 0 } } }

def d : PIndex := { hash := "h" }

/-- the authoritative Job of a state (for examples) -/
def jobOf (s : Sys) : JobObj := s.job.getD default
/-- the cached Job of a state (for examples) -/
def cachedOf (s : Sys) : JobObj := s.jobCache.getD default

/-- right after creation -/
def s0 : Sys := initSys 0 {} d job

theorem wf_job : WF job := by decide +kernel

theorem s0_reach (ok : Sys → Action → Prop) : Reach ok job s0 := .init 0 {} d wf_job

/-- the Job event is delivered, the first pass creates pod `job-h-0` and records it, the status
update is delivered to the Job cache; the pod's creation event is still undelivered -/
def runA : List Action := [.deliverJob, .work, .deliverJob]
def sA : Sys := runActs s0 runA

theorem sA_reach : Reach anyAction job sA := reach_run (s0_reach _) runA (by decide +kernel)
theorem sA_reach_lag : Reach lagOnly job sA := reach_run (s0_reach _) runA (by decide +kernel)

/-- the pod of `sA` -/
def podA : PodObj := (findPod sA.pods "job-h-0").getD default

/-- … reported Succeeded by the kubelet -/
def podSucceeded : PodObj := { podA with pod := { podA.pod with phase := .succeeded } }

/-- … the kubelet reports the pod Succeeded and the next pass (live GET: the pod is not in the pod
cache yet) records it: the Job is Finished / Success -/
def runB : List Action := [.kubelet podSucceeded, .work]
def sB : Sys := runActs sA runB

theorem sB_reach : Reach anyAction job sB := reach_run sA_reach runB (by decide +kernel)
theorem sB_reach_lag : Reach lagOnly job sB := reach_run sA_reach_lag runB (by decide +kernel)

/-- … then the status update and the pod's OLD creation event are delivered, and a pass runs -/
def runC : List Action := [.deliverJob, .deliverPod, .work]
def sC : Sys := runActs sB runC

theorem sC_reach : Reach anyAction job sC := reach_run sB_reach runC (by decide +kernel)
theorem sA_reach_nf : Reach noForeign job sA := reach_run (s0_reach _) runA (by decide +kernel)
theorem sB_reach_nf : Reach noForeign job sB := reach_run sA_reach_nf runB (by decide +kernel)
theorem sC_reach_nf : Reach noForeign job sC := reach_run sB_reach_nf runC (by decide +kernel)
theorem sA_reach_st : Reach stabChecked job sA := reach_run (s0_reach _) runA (by decide +kernel)
theorem sB_reach_st : Reach stabChecked job sB := reach_run sA_reach_st runB (by decide +kernel)
theorem sB_sC_st : Steps stabChecked job sB sC := steps_run sB runC (by decide +kernel)
theorem sA_reach_stF : Reach stabCheckedF job sA := reach_run (s0_reach _) runA (by decide +kernel)
theorem sB_reach_stF : Reach stabCheckedF job sB := reach_run sA_reach_stF runB (by decide +kernel)
theorem sB_sC_stF : Steps stabCheckedF job sB sC := steps_run sB runC (by decide +kernel)
theorem wf3_job : WF3 job := ⟨by decide, by decide, by decide, by decide⟩
theorem sB_sC_lag : Steps lagOnly job sB sC := steps_run sB runC (by decide +kernel)

/-- … and one more delivery + pass: a second pod is created -/
def runD : List Action := [.deliverJob, .work]
def sD : Sys := runActs sC runD
theorem sD_reach_lag : Reach lagOnly job sD := reach_run (sB_reach_lag.steps sB_sC_lag) runD (by decide +kernel)

/-- the same Job with a single attempt -/
def job1 : JobObj := { job with job := { job.job with template := some { maxAttempts := some 1 } } }
def t0 : Sys := initSys 0 {} d job1
def tB : Sys := runActs t0 (runA ++ runB)
def tC : Sys := runActs tB runC
theorem tB_reach_lag : Reach lagOnly job1 tB := reach_run (.init 0 {} d (by decide +kernel)) (runA ++ runB) (by decide +kernel)
theorem tB_tC_lag : Steps lagOnly job1 tB tC := steps_run tB runC (by decide +kernel)

/-! #### a pod that vanishes while its events are undelivered -/

def withPhase (p : PodObj) (ph : PodPhase) (fin : Option Time := none) : PodObj :=
  { p with pod := { p.pod with phase := ph, containers := match fin with
      | some f => [{ terminated := some { finishedAt := some f } }]
      | none => [] } }

def tA : Sys := runActs t0 runA
/-- the pod succeeds and is removed from the server; the pass sees neither the cache entry nor the
object: the ref is recorded lost, the single-attempt Job is Finished / Failed -/
def runL : List Action :=
  [.kubelet (withPhase ((findPod tA.pods "job-h-0").getD default) .succeeded), .externalDelete "job-h-0", .work]
def tL : Sys := runActs tA runL
theorem t0_reach : Reach lagAndLoss job1 t0 := .init 0 {} d (by decide +kernel)
theorem tA_reach : Reach lagAndLoss job1 tA := reach_run t0_reach runA (by decide +kernel)
theorem tL_reach : Reach lagAndLoss job1 tL := reach_run tA_reach runL (by decide +kernel)
/-- … then the pod's old events (creation, Succeeded) reach the cache and a pass runs -/
def runM : List Action := [.deliverJob, .deliverPod, .deliverPod, .work]
def tM : Sys := runActs tL runM
theorem tL_tM : Steps lagAndLoss job1 tL tM := steps_run tL runM (by decide +kernel)

/-- two indexes, two attempts, retry delay 10 s -/
def job2 : JobObj :=
  { name := "job", uid := "u", finalizer := true, rv := 0
    job := { template := some { maxAttempts := some 2, retryDelaySeconds := some 10,
                                parallelism := some { indexes := [{ hash := "a" }, { hash := "b" }] } },
             ttlSecondsAfterFinished := some 1000, status := { startTime := some 0 } } }
def u0 : Sys := initSys 0 {} d job2
def sec (n : Nat) : Nat := n * 1000000000
def runU1 : List Action := [.deliverJob, .work, .deliverJob, .deliverPod, .deliverPod]
def u1 : Sys := runActs u0 runU1
def podU (s : Sys) (n : String) : PodObj := (findPod s.pods n).getD default
/-- both first attempts fail (a-0 at 0 s — its pod does not tell when, the pass that observes it at
0 s records its own clock (F30 repaired) —, b-0 at 5 s), are recorded; at 10 s the retry a-1 is due
(b-1 only at 15 s), created and recorded -/
def runU2 : List Action :=
  [.kubelet (withPhase (podU u1 "job-a-0") .failed), .deliverPod, .work, .deliverJob, .advance (sec 5),
   .kubelet (withPhase (podU u1 "job-b-0") .failed (some (secs 5))), .deliverPod, .work, .deliverJob,
   .advance (sec 5), .work, .deliverJob]
def u2 : Sys := runActs u1 runU2
/-- a-1 succeeds and vanishes before any of its events is delivered; the pass records it lost:
index a has two finished, unsuccessful attempts (Failed), the Job is Finished / Failed -/
def runU3 : List Action := [.kubelet (withPhase (podU u2 "job-a-1") .succeeded), .externalDelete "job-a-1", .work]
def u3 : Sys := runActs u2 runU3
theorem u0_reach : Reach lagAndLoss job2 u0 := .init 0 {} d (by decide +kernel)
theorem u1_reach : Reach lagAndLoss job2 u1 := reach_run u0_reach runU1 (by decide +kernel)
theorem u2_reach : Reach lagAndLoss job2 u2 := reach_run u1_reach runU2 (by decide +kernel)
theorem u3_reach : Reach lagAndLoss job2 u3 := reach_run u2_reach runU3 (by decide +kernel)
/-- … then a-1's old events reach the cache and a pass runs -/
def runU4 : List Action := [.deliverJob, .deliverPod, .deliverPod, .work]
def u4 : Sys := runActs u3 runU4
theorem u3_u4 : Steps lagAndLoss job2 u3 u4 := steps_run u3 runU4 (by decide +kernel)

/-! #### a task name that is created twice (stale Job cache + vanished pod) -/

/-- the first pass creates `job-h-0` and writes the status (the Job cache keeps the version without
refs); the pod's creation event is delivered -/
def runV1 : List Action := [.deliverJob, .work, .deliverPod]
/-- the pod succeeds (delivered to the pod cache) and vanishes from the server; a pass on the STALE
cached Job (no refs) creates `job-h-0` again — its status write conflicts; then the Job cache catches up
and a pass reads the OLD incarnation (Succeeded) from the pod cache: Job Finished / Success -/
def runV2 (s : Sys) : List Action :=
  [.kubelet (withPhase ((findPod s.pods "job-h-0").getD default) .succeeded), .deliverPod,
   .externalDelete "job-h-0", .work, .deliverJob, .work]
/-- the pod cache catches up with the second incarnation (alive) and a pass runs -/
def runV3 : List Action := [.deliverPod, .deliverPod, .deliverJob, .work]

def v1 : Sys := runActs t0 runV1
def v2 : Sys := runActs v1 (runV2 v1)
def v3 : Sys := runActs v2 runV3
theorem v1_reach : Reach lagAndLoss job1 v1 := reach_run t0_reach runV1 (by decide +kernel)
theorem v2_reach : Reach lagAndLoss job1 v2 := reach_run v1_reach (runV2 v1) (by decide +kernel)
theorem v2_v3 : Steps lagAndLoss job1 v2 v3 := steps_run v2 runV3 (by decide +kernel)

/-- the same with two attempts -/
def w1 : Sys := runActs s0 runV1
def w2 : Sys := runActs w1 (runV2 w1)
def w3 : Sys := runActs w2 runV3
theorem w1_reach : Reach lagAndLoss job w1 := reach_run (s0_reach _) runV1 (by decide +kernel)
theorem w2_reach : Reach lagAndLoss job w2 := reach_run w1_reach (runV2 w1) (by decide +kernel)
theorem w2_w3 : Steps lagAndLoss job w2 w3 := steps_run w2 runV3 (by decide +kernel)

/-! #### a foreign pod on the name of a recorded task -/

/-- a pod that is NOT controlled by the Job, reports Succeeded, and is called `job-h-0` -/
def foreignPod : PodObj :=
  { pod := { name := "job-h-0", creationTimestamp := some 0, phase := .succeeded }, ownerUid := some "other-uid",
    ownerName := some "other" }
/-- from `sA` (task `job-h-0` recorded, its pod alive): the pod vanishes, the foreign pod takes its name,
the three pod events are delivered, a pass runs -/
def runX : List Action :=
  [.externalDelete "job-h-0", .createForeign foreignPod, .deliverPod, .deliverPod, .deliverPod, .work]
def sX : Sys := runActs sA runX
theorem sX_reach : Reach anyAction job sX := reach_run sA_reach runX (by decide +kernel)

/-- the same on the one-attempt Job `job1` (from `tA`: task `job-h-0` recorded, its pod alive) -/
def tX : Sys := runActs tA runX
theorem tX_reach : Reach anyAction job1 tX := reach_run (tA_reach.mono (fun _ _ _ => trivial)) runX (by decide +kernel)

/-! #### a STALE foreign pod in the pod cache (a cache miss since the repair of F22) -/

/-- a pod without owner called `job-h-0` -/
def foreignEarly : PodObj := { pod := { name := "job-h-0", creationTimestamp := some 0 } }
/-- the foreign pod exists before the Job's first pass and reaches the pod cache; it is removed from the
server (deletion event undelivered); the first pass creates and records the Job's own `job-h-0`; the
status update is delivered; the next pass runs -/
def runY : List Action :=
  [.createForeign foreignEarly, .deliverPod, .externalDelete "job-h-0", .deliverJob, .work, .deliverJob, .work]
def tY : Sys := runActs t0 runY
theorem tY_reach : Reach anyAction job1 tY := reach_run (t0_reach.mono (fun _ _ _ => trivial)) runY (by decide +kernel)

/-! #### a delete issued from a STALE pod-cache copy hits a foreign pod (deletes are by name) -/

/-- from `sA`: the Job's own `job-h-0` reaches the pod cache; it vanishes from the server and a foreign
pod takes its name (both events undelivered); the user deletes the Job; the finalizer pass runs -/
def runZ : List Action :=
  [.deliverPod, .externalDelete "job-h-0", .createForeign foreignPod, .userDelete, .deliverJob, .work]
def sZ : Sys := runActs sA runZ
theorem sZ_reach : Reach anyAction job sZ := reach_run sA_reach runZ (by decide +kernel)

theorem wf2_job : WF2 job d := ⟨by decide +kernel, by decide +kernel⟩
theorem wf2_job2 : WF2 job2 d := ⟨by decide +kernel, by decide +kernel⟩

/-- from the finished state `sB`: the user deletes the Job, the events are delivered, a pass runs -/
def runE : List Action := [.userDelete, .deliverJob, .deliverJob, .work]
def sE : Sys := runActs sB runE
theorem sE_reach : Reach anyAction job sE := reach_run sB_reach runE (by decide +kernel)

/-- … the kubelet removes the pod, its four events are delivered, a pass runs: the state BEFORE that pass -/
def runF : List Action := [.podGone "job-h-0", .deliverPod, .deliverPod, .deliverPod, .deliverPod]
def sF : Sys := runActs sE runF
theorem sF_reach : Reach anyAction job sF := reach_run sE_reach runF (by decide +kernel)

/-! #### a task that was created but not recorded, and the Job is deleted before the retry (F-C20-1) -/

/-- the first pass creates `job-h-0`, the status update that records it conflicts (pass fails, retry
pending); the pod's creation event reaches the pod cache; the user deletes the Job; the finalizer
pass runs on the Job whose status lists nothing -/
def runG : List Action := [.deliverJob, .setFaults ["", "conflict"], .work, .deliverPod, .userDelete, .deliverJob, .work]
def sG : Sys := runActs s0 runG
theorem sG_reach : Reach anyAction job sG := reach_run (s0_reach _) runG (by decide +kernel)

/-- … the kubelet removes the pod, the events are delivered: the state BEFORE the next pass -/
def runH : List Action := [.podGone "job-h-0", .deliverPod, .deliverPod, .deliverJob]
def sH : Sys := runActs sG runH
theorem sH_reach : Reach anyAction job sH := reach_run sG_reach runH (by decide +kernel)

theorem sA_sC : Steps anyAction job sA sC := by
  have h1 : Steps anyAction job sA (runActs sA (runB ++ runC)) := steps_run _ _ (by decide +kernel)
  rw [runActs_append] at h1
  exact h1

end Furiko.JobCtl.Ex
