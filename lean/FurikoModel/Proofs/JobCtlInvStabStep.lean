/-
`Inv3` is preserved by every step of histories inside the envelope `stabEnv` (no foreign pods, no user
kill / delete, `E-NoStaleCopyOnCreate`), hence holds in every reachable state.  Core Lean only.
-/
import FurikoModel.Proofs.JobCtlInvStabInv

set_option linter.unusedSimpArgs false
set_option linter.unusedVariables false

namespace Furiko.JobCtl
open Furiko Furiko.WQ

/-- a pod of an intermediate state of the pass either stands for a pod that existed when the pass
started (and is finished if that one was), or carries a name that was fresh then -/
def PassPods (s0 sp s : Sys) : Prop :=
  ∀ q ∈ s.pods, (∃ q0 ∈ sp.pods, q0.pod.name = q.pod.name ∧ (q0.pod.isFinished = true → q.pod.isFinished = true)) ∨
    FreshName s0 q.pod.name

/-- what is fixed during the pass that starts in `sp` (= `s0` up to queue bookkeeping) on cached Job `jo` -/
structure PassFacts (j0 : JobObj) (s0 sp : Sys) (jo : JobObj) : Prop where
  frame : Frame s0 sp
  env : ∀ idx retry, CreateReq s0.d jo idx retry → taskName jo.name idx.hash retry ∉ podNames s0.pods →
    FreshName s0 (taskName jo.name idx.hash retry)
  res : SyncRes j0 sp.d sp.pods (passNames sp jo) jo.job (sync sp jo).2.1
  coh : Coh sp.d (sync sp jo).2.1
  leJo : ∀ j, s0.job = some j → ∀ n ∈ refNames jo.job, n ∈ refNames j.job
  verJo : VerOK3 sp.d jo
  wf2 : WF2 j0 sp.d
  podsSp : PodsGood j0 sp
  goodJo : Good j0 sp.d jo.job

theorem Inv3G.micro {j0 jo : JobObj} {s0 sp s s' : Sys} (hb : Base j0 s) (h2 : Inv2 j0 s) (h3 : Inv3G s)
    (hc : s.jobCache = some jo) (pf : PassFacts j0 s0 sp jo) (hd : s.d = sp.d) (hcache : s.podCache = sp.podCache)
    (hjn : s0.job = none → s.job = none) (hpp : PassPods s0 sp s) (hid : CachedIsCur jo (sync sp jo).1)
    (hm : Micro jo sp s s') :
    Inv3G s' ∧ PassPods s0 sp s' ∧ (s0.job = none → s'.job = none) := by
  have hseen := mem_seenVers_cache hc
  have hjo := (hb.seenOK jo hseen).1
  have hb' : Base j0 s' := hb.micro hc hm
  have hle := (sync_spec sp jo sp (CreatePhase.refl _)).2
  cases hm with
  | frame hf =>
    refine ⟨fun hj => (h3 (by rw [← hf.job]; exact hj)).frame hf, ?_, fun h0 => hf.job.trans (hjn h0)⟩
    intro q hq; rw [hf.pods] at hq; exact hpp q hq
  | create idx retry hreq hcp =>
    rcases apiCreatePod_spec s jo idx retry with hs | hs
    · refine ⟨fun hj => (h3 (by rw [← hs.1.job]; exact hj)).frame hs.1, ?_, fun h0 => hs.1.job.trans (hjn h0)⟩
      intro q hq; rw [hs.1.pods] at hq; exact hpp q hq
    · have ha := hs.1
      -- the name is new on the server, hence (envelope) fresh
      have hnot : taskName jo.name idx.hash retry ∉ podNames s.pods :=
        (findPod_eq_none_iff _ _).mp ha.fresh
      have hfresh0 : FreshName s0 (taskName jo.name idx.hash retry) := by
        refine pf.env idx retry (by rw [← pf.frame.d, ← hd]; exact hreq) ?_
        intro hmem
        exact hnot (hcp.sup _ (by rw [pf.frame.pods]; exact hmem))
      have hfresh : FreshName s (newPod jo idx retry (nowT s)).pod.name := by
        show FreshName s (taskName jo.name idx.hash retry)
        refine ⟨?_, ?_, ?_⟩
        · intro j hj
          exact hfresh0.1 j (by rw [← pf.frame.job, ← hcp.job]; exact hj)
        · rw [hcache, pf.frame.podCache]; exact hfresh0.2.1
        · intro hmem
          rcases hcp.evs _ hmem with h | h
          · rw [pf.frame.podEvs] at h; exact hfresh0.2.2 h
          · exact hnot h
      refine ⟨fun hj => (h3 (by rw [← ha.job]; exact hj)).podAdd ha (by rw [← ha.job]; exact hj) rfl hfresh, ?_,
        fun h0 => ha.job.trans (hjn h0)⟩
      intro q hq
      rw [ha.pods] at hq
      rcases List.mem_append.mp hq with hq | hq
      · exact hpp q hq
      · simp only [List.mem_singleton] at hq; subst hq; exact Or.inr hfresh0
  | delPod name force =>
    rcases apiDeletePod_spec s name force with hs | ⟨p, _, hs, _⟩ | ⟨p, _, _, _, hs⟩
    · refine ⟨fun hj => (h3 (by rw [← hs.job]; exact hj)).frame hs, ?_, fun h0 => hs.job.trans (hjn h0)⟩
      intro q hq; rw [hs.pods] at hq; exact hpp q hq
    · refine ⟨fun hj => (h3 (by rw [← hs.job]; exact hj)).podDel hs, ?_, fun h0 => hs.job.trans (hjn h0)⟩
      intro q hq; rw [hs.pods] at hq; exact hpp q (mem_delPod hq).1
    · refine ⟨fun hj => (h3 (by rw [← hs.job]; exact hj)).podSet hs hb'.podsNodup (fun h => h), ?_,
        fun h0 => hs.job.trans (hjn h0)⟩
      intro q hq
      rw [hs.pods] at hq
      rcases mem_setPod hq with rfl | hq
      · exact hpp p (findPod_some hs.found).1
      · exact hpp q hq
  | delJob =>
    rcases apiDeleteJob_spec s jo with hs | ⟨c, hc', _, _, hs⟩ | ⟨c, _, _, hs⟩
    · refine ⟨fun hj => (h3 (by rw [← hs.job]; exact hj)).frame hs, ?_, fun h0 => hs.job.trans (hjn h0)⟩
      intro q hq; rw [hs.pods] at hq; exact hpp q hq
    · have h3' := h3 (by rw [hc']; rfl)
      have hcv : c ∈ allVers s := by unfold allVers; rw [hc']; simp
      have hv := h3'.ver c hcv
      refine ⟨fun _ => h3'.jobWrite hs hc' ⟨hv.rs, hv.noKill, hv.noAdm, coh_of_deleted rfl⟩
        (h3'.fin c hcv) (fun n hn => hn), ?_, fun h0 => by rw [hjn h0] at hc'; cases hc'⟩
      intro q hq; rw [hs.pods] at hq; exact hpp q hq
    · refine ⟨fun hj => (by rw [hs.job] at hj; cases hj), ?_, fun _ => hs.job⟩
      intro q hq; rw [hs.pods] at hq; exact hpp q hq
  | updJob hsync =>
    rcases apiUpdateJob_spec s jo { jo with job := (sync sp jo).2.1, finalizer := (sync sp jo).2.2.1 } with
      hs | ⟨c, hc', hrv, hs | hs⟩
    · refine ⟨fun hj => (h3 (by rw [← hs.job]; exact hj)).frame hs, ?_, fun h0 => hs.job.trans (hjn h0)⟩
      intro q hq; rw [hs.pods] at hq; exact hpp q hq
    · have : jo = c := hb.rvId c hc' jo hseen hrv.symm
      subst this
      have h3' := h3 (by rw [hc']; rfl)
      have hcv : jo ∈ allVers s := by unfold allVers; rw [hc']; simp
      have hv := h3'.ver jo hcv
      refine ⟨fun _ => h3'.jobWrite hs.1 hc' ⟨hv.rs, ?_, ?_, ?_⟩ (h3'.fin jo hcv) (fun n hn => hn), ?_,
        fun h0 => by rw [hjn h0] at hc'; cases hc'⟩
      · show (sync sp jo).2.1.killTimestamp = none
        rw [hle.kill]; exact hv.noKill
      · show (sync sp jo).2.1.admissionError = false
        rw [pf.res.adm]; exact hv.noAdm
      · refine hv.coh.congr hv.noAdm ?_ rfl ?_ ?_ ?_ rfl
        · show (sync sp jo).2.1.admissionError = _; exact pf.res.adm
        · show (sync sp jo).2.1.killTimestamp = _; exact hle.kill
        · show (sync sp jo).2.1.template = _; exact hle.template
        · show (sync sp jo).2.1.startPolicy = _; exact hle.startPolicy
      · intro q hq; rw [hs.1.pods] at hq; exact hpp q hq
    · refine ⟨fun hj => (by rw [hs.1.job] at hj; cases hj), ?_, fun _ => hs.1.job⟩
      intro q hq; rw [hs.1.pods] at hq; exact hpp q hq
  | updStatus =>
    rcases apiUpdateJobStatus_spec s jo { jo with job := (sync sp jo).2.1 } with hs | ⟨c, hc', hrv, hs⟩
    · refine ⟨fun hj => (h3 (by rw [← hs.job]; exact hj)).frame hs, ?_, fun h0 => hs.job.trans (hjn h0)⟩
      intro q hq; rw [hs.pods] at hq; exact hpp q hq
    · have : jo = c := hb.rvId c hc' jo hseen hrv.symm
      subst this
      have h3' := h3 (by rw [hc']; rfl)
      have hcv : jo ∈ allVers s := by unfold allVers; rw [hc']; simp
      have hv := h3'.ver jo hcv
      -- the Job existed when the pass started
      obtain ⟨j0', hj0'⟩ : ∃ j, s0.job = some j := by
        cases h0 : s0.job with
        | none => rw [hjn h0] at hc'; cases hc'
        | some j => exact ⟨j, rfl⟩
      refine ⟨fun _ => h3'.jobWrite hs hc' ⟨?_, hv.noKill, hv.noAdm, ?_⟩ ?_ ?_, ?_,
        fun h0 => by rw [hjn h0] at hc'; cases hc'⟩
      · exact pf.res.rs
      · rw [hd]
        refine pf.coh.congr ?_ ?_ rfl ?_ ?_ ?_ ?_
        · rw [pf.res.adm]; exact hv.noAdm
        · show jo.job.admissionError = _; exact pf.res.adm.symm
        · show jo.job.killTimestamp = _; exact hle.kill.symm
        · show jo.job.template = _; exact hle.template.symm
        · show jo.job.startPolicy = _; exact hle.startPolicy.symm
        · show jo.job.deletionTimestamp = _; exact hle.del.symm
      · -- a finished ref of the computed status: its pod is finished or gone
        intro r hr hf q hq hqn
        have hr' : r ∈ (sync sp jo).2.1.status.tasks := hr
        rcases hpp q hq with ⟨q0, hq0, hn0, hmono⟩ | hfr
        · exact hmono (pf.res.fin r hr' hf q0 hq0 (hn0.trans hqn))
        · exfalso
          have hsrc := pf.res.src r hr' hf
          unfold passNames at hsrc
          rw [← hqn] at hsrc
          rcases List.mem_append.mp hsrc with h | h
          · exact hfr.1 j0' hj0' (pf.leJo j0' hj0' _ h)
          · rw [pf.frame.podCache] at h; exact hfr.2.1 h
      · exact hle.names
      · intro q hq; rw [hs.pods] at hq; exact hpp q hq
  | updStatusOn s1 hs1 hs1' hok =>
    rcases apiUpdateJobStatus_spec s { jo with rv := updatedRv s jo } { jo with job := (sync sp jo).2.1 } with
      hs | ⟨c, hc', hrv, hs⟩
    · refine ⟨fun hj => (h3 (by rw [← hs.job]; exact hj)).frame hs, ?_, fun h0 => hs.job.trans (hjn h0)⟩
      intro q hq; rw [hs.pods] at hq; exact hpp q hq
    · -- the object `Update` produced: the cached Job with the computed metadata
      have hcs := (apiUpdateJob_ok_cur (hs1 ▸ hid) hok c (hs1' ▸ hc')).1
      obtain ⟨r0, rfl⟩ : ∃ r0, c =
          specWrite jo { jo with job := (sync sp jo).2.1, finalizer := (sync sp jo).2.2.1 } r0 := ⟨_, hcs⟩
      have h3' := h3 (by rw [hc']; rfl)
      have hcv : specWrite jo { jo with job := (sync sp jo).2.1, finalizer := (sync sp jo).2.2.1 } r0 ∈ allVers s := by
        unfold allVers; rw [hc']; simp
      have hv := h3'.ver _ hcv
      obtain ⟨j0', hj0'⟩ : ∃ j, s0.job = some j := by
        cases h0 : s0.job with
        | none => rw [hjn h0] at hc'; cases hc'
        | some j => exact ⟨j, rfl⟩
      refine ⟨fun _ => h3'.jobWrite hs hc' ⟨?_, hv.noKill, hv.noAdm, ?_⟩ ?_ ?_, ?_,
        fun h0 => by rw [hjn h0] at hc'; cases hc'⟩
      · exact pf.res.rs
      · rw [hd]
        refine pf.coh.congr ?_ rfl rfl rfl rfl rfl ?_
        · exact hv.noAdm
        · show jo.job.deletionTimestamp = _; exact hle.del.symm
      · intro r hr hf q hq hqn
        have hr' : r ∈ (sync sp jo).2.1.status.tasks := hr
        rcases hpp q hq with ⟨q0, hq0, hn0, hmono⟩ | hfr
        · exact hmono (pf.res.fin r hr' hf q0 hq0 (hn0.trans hqn))
        · exfalso
          have hsrc := pf.res.src r hr' hf
          unfold passNames at hsrc
          rw [← hqn] at hsrc
          rcases List.mem_append.mp hsrc with h | h
          · exact hfr.1 j0' hj0' (pf.leJo j0' hj0' _ h)
          · rw [pf.frame.podCache] at h; exact hfr.2.1 h
      · exact hle.names
      · intro q hq; rw [hs.pods] at hq; exact hpp q hq

theorem Inv3G.micros {j0 jo : JobObj} {s0 sp s s' : Sys} (hb : Base j0 s) (h2 : Inv2 j0 s) (h3 : Inv3G s)
    (hc : s.jobCache = some jo) (pf : PassFacts j0 s0 sp jo) (hd : s.d = sp.d) (hcache : s.podCache = sp.podCache)
    (hjn : s0.job = none → s.job = none) (hpp : PassPods s0 sp s) (hid : CachedIsCur jo (sync sp jo).1)
    (hm : Micros jo sp s s') :
    Inv3G s' := by
  suffices h : Inv3G s' ∧ PassPods s0 sp s' ∧ (s0.job = none → s'.job = none) from h.1
  induction hm with
  | refl => exact ⟨h3, hpp, hjn⟩
  | tail hms hm ih =>
    have hbm := hb.micros hc hms
    have h2m := Inv2.micros hb h2 hc pf.wf2 pf.podsSp pf.goodJo hd.symm hms
    exact Inv3G.micro hbm.1 h2m ih.1 hbm.2 pf (hms.static.d.trans hd) (hms.static.podCache.trans hcache)
      ih.2.2 ih.2.1 hid hm

/-! ### a whole pass -/

theorem canCreateTask_of {rj : Job} (hk : rj.killTimestamp = none) (ha : rj.admissionError = false) :
    canCreateTask rj = true := by
  unfold canCreateTask; simp [hk, ha]

theorem passFacts_of_inv {j0 jo : JobObj} {s sp : Sys} (hb : Base j0 s) (h2 : Inv2 j0 s) (ho : Owned j0 s) (h3 : Inv3 s)
    (hwf : WF2 j0 s.d) (hwf3 : WF3 j0) (hc : s.jobCache = some jo) (hf : Frame s sp)
    (henv : NoStale s) : PassFacts j0 s sp jo := by
  have hseen := mem_seenVers_cache hc
  have hjo := (hb.seenOK jo hseen).1
  have hall : jo ∈ allVers s := List.mem_append_right _ hseen
  have hv := h3.ver jo hall
  have h2sp := h2.frame hf
  have hcsp : sp.jobCache = some jo := hf.jobCache.trans hc
  have hg : Good j0 sp.d jo.job := h2sp.seen jo (mem_seenVers_cache hcsp)
  have ctx : PassCtx j0 sp := ⟨h2sp.pods, ho.frame hf, by rw [hf.pods]; exact hb.podsNodup, by
    intro c hcm hfin
    rw [hf.pods]
    exact h3.lin c (Or.inl (hf.podCache ▸ hcm)) hfin⟩
  have hfin : ∀ r ∈ jo.job.status.tasks, r.finishTimestamp.isSome = true → PodFinIn sp.pods r.name := by
    intro r hr hfn; rw [hf.pods]; exact h3.fin jo hall r hr hfn
  have hres := sync_res sp jo ctx (hf.d ▸ hwf) hjo hg hv.rs hfin (canCreateTask_of hv.noKill hv.noAdm)
    (hf.d ▸ hv.coh) hv.noAdm (by rw [hjo.template]; exact hwf3.tmpl)
  exact ⟨hf, fun idx retry hreq hn => henv jo idx retry hc hreq hn, hres.1, hres.2.2.1,
    fun j hj => h3.le jo hseen j hj, ⟨hv.rs, hv.noKill, hv.noAdm, hf.d ▸ hv.coh⟩, hf.d ▸ hwf, h2sp.pods, hg⟩

theorem deliverPod_pods_side (s : Sys) :
    (∀ c ∈ (deliverPod s).podCache, c ∈ s.podCache ∨ PEv.upsert c ∈ s.podEvs) ∧
    (∀ c, PEv.upsert c ∈ (deliverPod s).podEvs → PEv.upsert c ∈ s.podEvs) := by
  unfold deliverPod
  cases he : s.podEvs with
  | nil => exact ⟨fun c hc => Or.inl hc, fun c hc => by rw [he] at hc; exact hc⟩
  | cons e rest =>
    cases e with
    | upsert p =>
      simp only
      have hfr := podNotify_frame { s with podEvs := rest, podCache := setPod s.podCache p } p
      refine ⟨?_, ?_⟩
      · intro c hc
        rw [hfr.podCache] at hc
        rcases mem_setPod hc with rfl | hc
        · exact Or.inr List.mem_cons_self
        · exact Or.inl hc
      · intro c hc
        rw [hfr.podEvs] at hc
        exact List.mem_cons_of_mem _ hc
    | delete p =>
      simp only
      cases hfp : findPod s.podCache p.pod.name with
      | none => exact ⟨fun c hc => Or.inl hc, fun c hc => List.mem_cons_of_mem _ hc⟩
      | some old =>
        simp only
        have hfr := podNotify_frame { s with podEvs := rest, podCache := delPod s.podCache p.pod.name } old
        refine ⟨?_, ?_⟩
        · intro c hc
          rw [hfr.podCache] at hc
          exact Or.inl (mem_delPod hc).1
        · intro c hc
          rw [hfr.podEvs] at hc
          exact List.mem_cons_of_mem _ hc

theorem Inv3.afterRestart {j0 : JobObj} {s : Sys} (hb : Base j0 s) (h : Inv3 s) : Inv3 (restart s) := by
  have hf : (restart s).job = s.job ∧ (restart s).pods = s.pods ∧ (restart s).d = s.d ∧
      seenVers (restart s) = s.job.toList ∧ (restart s).podCache = s.pods ∧ (restart s).podEvs = [] := by
    unfold restart
    cases hj : s.job <;> simp [seenVers, upserts, hj]
  obtain ⟨h1, h2, h3, h4, h5, h6⟩ := hf
  have hall : ∀ v ∈ allVers (restart s), v ∈ allVers s := by
    intro v hv
    unfold allVers at hv ⊢
    rw [h1, h4] at hv
    exact List.mem_append_left _ (by simpa using hv)
  refine ⟨?_, ?_, ?_, ?_⟩
  · intro v hv; rw [h3]; exact h.ver v (hall v hv)
  · intro v hv r hr hfn; rw [h2]; exact h.fin v (hall v hv) r hr hfn
  · intro c hc hfn
    rw [h5, h6] at hc
    rw [h2]
    rcases hc with hc | hc
    · exact podFinIn_of_mem hb.podsNodup hc hfn
    · cases hc
  · intro v hv j hj
    rw [h1] at hj; rw [h4, hj] at hv
    simp only [Option.toList_some, List.mem_singleton] at hv
    subst hv; exact fun n hn => hn

theorem Inv3G.init {j0 : JobObj} (hwf : WF j0) (hwf3 : WF3 j0) (clock : Int) (cfg : ExecConfig) (d : PIndex) :
    Inv3G (initSys clock cfg d j0) := by
  intro _
  have hv : VerOK3 d { j0 with rv := 0 + 1 } := by
    refine ⟨?_, hwf3.noKill, hwf3.noAdm, ?_⟩
    · intro r hr
      have : r ∈ j0.job.status.tasks := hr
      rw [hwf.noTasks] at this; cases this
    · intro _ f hf
      have : j0.job.status.condition.finished = some f := hf
      rw [hwf3.notFinished] at this; cases this
  unfold initSys userCreateJob
  refine ⟨?_, ?_, ?_, ?_⟩
  · intro v hv'
    simp only [allVers, seenVers, upserts, Option.toList_some, Option.toList_none, List.nil_append,
      List.filterMap_cons, List.filterMap_nil, List.singleton_append, List.mem_cons, List.mem_singleton,
      List.not_mem_nil, or_false, or_self] at hv'
    subst hv'
    exact hv
  · intro v hv' r hr
    simp only [allVers, seenVers, upserts, Option.toList_some, Option.toList_none, List.nil_append,
      List.filterMap_cons, List.filterMap_nil, List.singleton_append, List.mem_cons, List.mem_singleton,
      List.not_mem_nil, or_false, or_self] at hv'
    subst hv'
    have : r ∈ j0.job.status.tasks := hr
    rw [hwf.noTasks] at this; cases this
  · intro c hc
    rcases hc with hc | hc
    · cases hc
    · simp at hc
  · intro v hv' j hj
    simp only [Option.some.injEq] at hj
    simp only [seenVers, upserts, Option.toList_none, List.nil_append, List.filterMap_cons, List.filterMap_nil,
      List.mem_singleton] at hv'
    subst hv'; subst hj
    exact fun n hn => hn

theorem Inv3G.step {j0 : JobObj} {s : Sys} (hb : Base j0 s) (h2 : Inv2 j0 s) (ho : Owned j0 s) (h3 : Inv3G s) (hwf : WF2 j0 s.d)
    (hwf3 : WF3 j0) (a : Action) (henv : stabEnv s a) (hal : Allowed j0 s a) : Inv3G (JobCtl.step s a) := by
  intro hj'
  -- the Job existed before the step
  have hj : s.job.isSome = true := by
    cases hjs : s.job with
    | none =>
      have := (job_moves hb a hal).none_stays hjs
      rw [this] at hj'; cases hj'
    | some j => rfl
  have h3' := h3 hj
  have hb' : Base j0 (JobCtl.step s a) := hb.step a hal
  cases a with
  | setFaults fs => exact h3'.of_same rfl rfl rfl (fun c hc => Or.inl hc) (fun c hc => hc) (fun _ h => h)
  | work =>
    show Inv3 (work s).1
    cases hget : (s.q.advance s.clock).get with
    | none => exact h3'.frame (work_idle s hget)
    | some kq =>
    have hns : NoStale s := henv.2.2 rfl hj (by rw [hget]; rfl)
    cases hc : s.jobCache with
    | none => exact h3'.frame (work_frame s hc)
    | some jo =>
      obtain ⟨sp, hf, hm⟩ := work_micros s jo hc
      have pf := passFacts_of_inv hb h2 ho h3' hwf hwf3 hc hf hns
      have hcsp : sp.jobCache = some jo := hf.jobCache.trans hc
      refine Inv3G.micros (hb.frame hf) (h2.frame hf) (fun _ => h3'.frame hf) hcsp pf rfl rfl
        (fun h0 => hf.job.trans h0) ?_ (cachedIsCur_sync (hb.frame hf) hcsp) hm hj'
      intro q hq
      exact Or.inl ⟨q, hq, rfl, fun h => h⟩
  | deliverJob =>
    show Inv3 (deliverJob s)
    have := deliverJob_fields s
    exact h3'.of_same this.1 this.2.2.2.1 this.2.2.1 (fun c hc => Or.inl (this.2.2.2.2.2.1 ▸ hc))
      (fun c hc => this.2.2.2.2.1 ▸ hc) (seenVers_deliverJob s)
  | deliverPod =>
    show Inv3 (deliverPod s)
    have hf := deliverPod_fields s
    have hp := deliverPod_pods_side s
    exact h3'.of_same hf.1 hf.2.2.2.1 hf.2.2.1 hp.1 hp.2
      (by rw [seenVers_congr hf.2.2.2.2.2.1 hf.2.2.2.2.1]; exact fun _ h => h)
  | resync => exact h3'.frame (s' := resync s) (resync_frame s)
  | restart => exact h3'.afterRestart hb
  | advance d => exact h3'.of_same rfl rfl rfl (fun c hc => Or.inl hc) (fun c hc => hc) (fun _ h => h)
  | kubelet p =>
    show Inv3 (setPodState s p)
    rcases setPodState_spec s p with hs | ⟨old, hs⟩
    · rw [hs]; exact h3'
    · have hk : KubeletOK old p := by
        obtain ⟨o, ho, hk⟩ := (optSat_iff _ _).mp hal
        rw [hs.found] at ho; cases ho; exact hk
      refine h3'.podSet hs hb'.podsNodup ?_
      intro hfin
      have := hk.2.2.2.2.2.2.2.2.2 hfin
      rw [this]; exact hfin
  | podGone n =>
    show Inv3 (removePod s n)
    rcases removePod_spec s n with hs | ⟨p, _, hs⟩
    · rw [hs]; exact h3'
    · exact h3'.podDel hs
  | externalDelete n =>
    show Inv3 (removePod s n)
    rcases removePod_spec s n with hs | ⟨p, _, hs⟩
    · rw [hs]; exact h3'
    · exact h3'.podDel hs
  | kill t => exact absurd henv.2.1 (by simp [noUserEdit])
  | userDelete => exact absurd henv.2.1 (by simp [noUserEdit])
  | createForeign p => exact absurd henv.1 (by simp [noForeign])

/-- `Inv3` holds in every state reachable inside the envelope (while the Job object exists) -/
theorem inv3_of_reach {ok : Sys → Action → Prop} (hok : ∀ s a, ok s a → stabEnv s a) {j0 : JobObj} {s : Sys}
    (hr : Reach ok j0 s) (hwf : WF2 j0 s.d) (hwf3 : WF3 j0) : Inv3G s := by
  induction hr with
  | init c cfg d hw => exact Inv3G.init hw hwf3 c cfg d
  | step a hr' hoka hal ih =>
    rw [step_d] at hwf
    have henv := hok _ a hoka
    exact (ih hwf).step (base_of_reach hr') (inv2_of_reach hr' hwf) (owned_of_reach (fun s a h => (hok s a h).1) hr') hwf hwf3 a henv hal

end Furiko.JobCtl
