/-
Liveness of the job controller, part 10: one `work` step (`reconciler.Controller.work`: pop a key,
`SyncOne`, forget, done) around a pass on a simple Job that returns the recomputed status — the state
afterwards, field by field (`PassOut`): the authoritative Job carries the new status (one status update
if it differs from the cached one), the created pod (if any) is on the server, caches and undelivered
events are in sync with the server, the work queue is well-formed again with exactly the timers the pass
armed.  Core Lean only.
-/
import FurikoModel.Proofs.JobCtlLive9
import FurikoModel.Proofs.ConvLemmasJob

set_option linter.unusedSimpArgs false
set_option linter.unusedVariables false

namespace Furiko.JobCtl.Live
open Furiko Furiko.JobCtl Furiko.WQ Furiko.StatusLemmas Furiko.JobCtlPlan Furiko.Conv

/-- the state after the creation stage of a pass: the pass-start state plus the created pods (none or
one), call log aside -/
structure CreateOut (sp s1 : Sys) (created : List PodObj) : Prop where
  clock : s1.clock = sp.clock
  d : s1.d = sp.d
  cfg : s1.cfg = sp.cfg
  job : s1.job = sp.job
  jobEvs : s1.jobEvs = sp.jobEvs
  jobCache : s1.jobCache = sp.jobCache
  podCache : s1.podCache = sp.podCache
  q : s1.q = sp.q
  faults : s1.faults = sp.faults
  delRun : s1.delRun = sp.delRun
  pods : s1.pods = sp.pods ++ created
  podEvs : s1.podEvs = sp.podEvs ++ created.map PEv.upsert

theorem CreateOut.refl (sp : Sys) : CreateOut sp sp [] :=
  ⟨rfl, rfl, rfl, rfl, rfl, rfl, rfl, rfl, rfl, rfl, by simp, by simp⟩

theorem createOut_exists (sp : Sys) (jo : JobObj) (m : Int) : CreateOut sp (afterExists sp jo m) [] :=
  ⟨rfl, rfl, rfl, rfl, rfl, rfl, rfl, rfl, rfl, rfl, by simp [afterExists], by simp [afterExists]⟩

theorem createOut_create (sp : Sys) (jo : JobObj) (m : Int) :
    CreateOut sp (afterCreate sp jo m) [newPod jo sp.d m (nowT sp)] :=
  ⟨rfl, rfl, rfl, rfl, rfl, rfl, rfl, rfl, rfl, rfl, rfl, rfl⟩

/-- what a `work` step leaves behind -/
structure PassOut (jo : JobObj) (s w : Sys) (newStatus : JobStatus) (created : List PodObj) : Prop where
  job : ∃ jo', w.job = some jo' ∧ jo'.name = jo.name ∧ jo'.uid = jo.uid ∧ jo'.finalizer = jo.finalizer ∧
    jo'.job = { jo.job with status := newStatus }
  jsync : JSync w
  psync : PSync w
  pods : w.pods = s.pods ++ created
  clock : w.clock = s.clock
  d : w.d = s.d
  cfg : w.cfg = s.cfg
  faults : w.faults = []
  wf : Retry.WF w.q
  wrote : newStatus ≠ jo.job.status → ∃ j rest, w.jobEvs = .upsert j :: rest

/-- the state right after the status update of a pass succeeded -/
def afterStatus (s : Sys) (jo : JobObj) (rjF : Job) : Sys :=
  { s with rv := s.rv + 1, job := some (written jo rjF (s.rv + 1)),
           jobEvs := s.jobEvs ++ [.upsert (written jo rjF (s.rv + 1))],
           calls := s.calls ++ [⟨"update", "jobs", jo.name, "ok", true, false⟩] }

/-- the queue after `Get` popped `k` -/
def popQ (q : WQ) (k : String) (rest : List String) : WQ :=
  { q with queue := rest, processing := k :: q.processing, dirty := q.dirty.erase k }

theorem get_cons {q : WQ} {k : String} {rest : List String} (h : q.queue = k :: rest) :
    q.get = some (k, popQ q k rest) := by
  unfold WQ.get popQ; rw [h]

/-- the queue after an ok pass that only armed timers -/
theorem queue_after_ok {q qs : WQ} {k : String} {rest : List String} (hwf : Retry.WF q) (hq : q.queue = k :: rest)
    (h1 : qs.queue = rest) (h2 : qs.dirty = q.dirty.erase k) (h3 : qs.processing = k :: q.processing) :
    Retry.WF ((qs.forget k).done k) ∧ ((qs.forget k).done k).delayed = qs.delayed ∧
    ((qs.forget k).done k).queue = rest := by
  have hke : k ∉ q.dirty.erase k := fun hm => ((List.Nodup.mem_erase_iff hwf.nodup).mp hm).1 rfl
  have hproc : (qs.forget k).processing = [k] := by show qs.processing = [k]; rw [h3, hwf.idle]
  have hdirty : k ∉ (qs.forget k).dirty := by show k ∉ qs.dirty; rw [h2]; exact hke
  rw [Retry.done_clean hproc hdirty]
  refine ⟨⟨rfl, ?_, ?_⟩, rfl, h1⟩
  · show qs.dirty.Nodup; rw [h2]; exact hwf.nodup.erase k
  · intro x hx
    have hx' : x ∈ q.dirty.erase k := by
      have : x ∈ qs.dirty := hx
      rw [h2] at this; exact this
    have hx'' := (List.Nodup.mem_erase_iff hwf.nodup).mp hx'
    have := hwf.dirty x hx''.2
    rw [hq] at this
    show x ∈ qs.queue
    rw [h1]
    rcases List.mem_cons.mp this with rfl | this
    · exact absurd rfl hx''.1
    · exact this

/-- **one `work` step** around a pass that returned the recomputed Job `rjF` without error -/
theorem work_out (s : Sys) (jo : JobObj) (k : String) (rest : List String) (X s' : Sys) (rjF : Job)
    (created : List PodObj) (hfresh : Fresh jo s) (hwf : Retry.WF (s.q.advance s.clock))
    (hq : (s.q.advance s.clock).queue = k :: rest)
    (hX : CreateOut (passStart s (popQ (s.q.advance s.clock) k rest)) X created)
    (hto : TimersOnly (jobKey jo) X s')
    (hsync : sync (passStart s (popQ (s.q.advance s.clock) k rest)) jo =
        (s', rjF, jo.finalizer, true, false))
    (hspec : rjF = { jo.job with status := rjF.status })
    (hps : (created.map PEv.upsert).foldl applyPEv s.pods = s.pods ++ created) :
    PassOut jo s (work s).1 rjF.status created ∧ (work s).1.q.delayed = s'.q.delayed ∧ (work s).1.q.queue = rest ∧
    (rjF.status = jo.job.status → (work s).1.job = some jo ∧ (work s).1.rv = s'.rv ∧ (work s).1.jobEvs = [] ∧
      (work s).1.calls = s'.calls ∧ (work s).1.podEvs = created.map PEv.upsert) := by
  have hg := get_cons hq
  rw [work_some s k _ hg]
  have hst := hto.static
  obtain ⟨qq, hs'eq, tq1, tq2, tq3, tq4, tq5, tq6⟩ := hto
  have hadm : rjF.admissionError = jo.job.admissionError := by rw [hspec]
  have hcache : (passStart s (popQ (s.q.advance s.clock) k rest)).jobCache = some jo :=
    hfresh.jobCache
  have hone := syncOne_simple _ jo s' rjF hcache hsync hadm
  -- fields of s'
  have hs'job : s'.job = some jo := by rw [hst.2.2.2.2.2.1, hX.job]; exact hfresh.job
  have hs'faults : s'.faults = [] := by rw [hst.2.2.2.2.2.2.2.2.2.2.1, hX.faults]; exact hfresh.faults
  have hs'del : s'.delRun = none := by rw [hst.2.2.2.2.2.2.2.2.2.2.2.1, hX.delRun]; rfl
  have hs'pods : s'.pods = s.pods ++ created := by rw [hst.2.2.2.1, hX.pods]; rfl
  have hs'podEvs : s'.podEvs = created.map PEv.upsert := by
    rw [hst.2.2.2.2.2.2.2.2.1, hX.podEvs]
    show s.podEvs ++ _ = _
    rw [hfresh.podEvs]; rfl
  have hs'jobEvs : s'.jobEvs = [] := by rw [hst.2.2.2.2.2.2.2.1, hX.jobEvs]; exact hfresh.jobEvs
  have hs'jc : s'.jobCache = some jo := by rw [hst.2.2.2.2.2.2.1, hX.jobCache]; exact hfresh.jobCache
  have hs'pc : s'.podCache = s.pods := by rw [hst.2.2.2.2.1, hX.podCache]; exact hfresh.podCache
  have hs'clock : s'.clock = s.clock := by rw [hst.1, hX.clock]; rfl
  have hs'd : s'.d = s.d := by rw [hst.2.1, hX.d]; rfl
  have hs'cfg : s'.cfg = s.cfg := by rw [hst.2.2.1, hX.cfg]; rfl
  -- the queue of s'
  have hqs : s'.q = qq := by rw [hs'eq]
  have hXq : X.q = (popQ (s.q.advance s.clock) k rest) := hX.q
  have hq1 : s'.q.queue = rest := by rw [hqs, tq1, hXq]; rfl
  have hq2 : s'.q.dirty = (s.q.advance s.clock).dirty.erase k := by rw [hqs, tq2, hXq]; rfl
  have hq3 : s'.q.processing = k :: (s.q.advance s.clock).processing := by rw [hqs, tq3, hXq]; rfl
  obtain ⟨qa, qb, qc⟩ := queue_after_ok hwf hq hq1 hq2 hq3
  have hpsync : s'.podEvs.foldl applyPEv s'.podCache = s'.pods := by rw [hs'podEvs, hs'pc, hs'pods]; exact hps
  by_cases hd : rjF.status = jo.job.status
  · -- no write
    have hone' : syncOne (passStart s (popQ (s.q.advance s.clock) k rest)) = (s', true) := by
      rw [hone]; simp [hd]
    simp only [hone', if_true]
    refine ⟨⟨⟨jo, hs'job, rfl, rfl, rfl, by rw [hd]⟩, ?_, hpsync, hs'pods, hs'clock, hs'd, hs'cfg, hs'faults, qa, ?_⟩, qb, qc,
      fun _ => ⟨hs'job, trivial, hs'jobEvs, trivial, hs'podEvs⟩⟩
    · show s'.jobEvs.foldl applyJEv s'.jobCache = s'.job
      rw [hs'jobEvs, hs'jc, hs'job]; rfl
    · intro hne; exact absurd hd hne
  · have hq' : Quiet s' := ⟨hs'faults, hs'del⟩
    have hup := apiUpdateJobStatus_fresh s' jo rjF hq' hs'job hd
    have hone' : syncOne (passStart s (popQ (s.q.advance s.clock) k rest)) = (afterStatus s' jo rjF, true) := by
      rw [hone]
      simp only [ne_eq, hd, not_false_eq_true, ↓reduceIte, hup, afterStatus]
    simp only [hone', if_true]
    refine ⟨⟨⟨written jo rjF (s'.rv + 1), rfl, rfl, rfl, rfl, rfl⟩, ?_, hpsync, hs'pods, hs'clock, hs'd, hs'cfg,
      hs'faults, qa, ?_⟩, qb, qc, fun e => absurd e hd⟩
    · show (s'.jobEvs ++ [JEv.upsert (written jo rjF (s'.rv + 1))]).foldl applyJEv s'.jobCache = _
      rw [hs'jobEvs]; rfl
    · intro _
      exact ⟨written jo rjF (s'.rv + 1), [], by show s'.jobEvs ++ _ = _; rw [hs'jobEvs]; rfl⟩

end Furiko.JobCtl.Live
