/-
Liveness of the job controller, part 29: one `work` step UNDER ANY FAULT LIST, with the unconsumed faults
dropped afterwards (`dropFaults`): whatever `SyncOne` returned, if the state it left is the pass-start state
plus "created pods, status possibly written" (`PassEnd`), the state after the step has the `PassOut`
facts; a pass that reported an error leaves its key with a back-off timer.  Core Lean only.
-/
import FurikoModel.Proofs.JobCtlLive28

set_option linter.unusedSimpArgs false
set_option linter.unusedVariables false

namespace Furiko.JobCtl.Live
open Furiko Furiko.JobCtl Furiko.WQ Furiko.StatusLemmas Furiko.JobCtlPlan Furiko.Conv

/-- calls succeed again: the unconsumed faults are dropped (`Action.setFaults []`) -/
def dropFaults (s : Sys) : Sys := { s with faults := [] }

theorem dropFaults_step (s : Sys) : dropFaults s = step s (.setFaults []) := rfl

/-- the state `SyncOne` left: the pass-start state, the created pods, the status `st` on the server (either the
cached one, nothing written, or written by a status update of this pass), timers -/
structure PassEnd (jo : JobObj) (s Y : Sys) (k : String) (rest : List String) (st : JobStatus)
    (created : List PodObj) : Prop where
  job : (st = jo.job.status ∧ Y.job = some jo ∧ Y.jobEvs = []) ∨
    (∃ j, Y.job = some j ∧ Y.jobEvs = [.upsert j] ∧ j.name = jo.name ∧ j.uid = jo.uid ∧
      j.finalizer = jo.finalizer ∧ j.job = { jo.job with status := st })
  jobCache : Y.jobCache = some jo
  pods : Y.pods = s.pods ++ created
  podEvs : Y.podEvs = created.map PEv.upsert
  podCache : Y.podCache = s.pods
  clock : Y.clock = s.clock
  d : Y.d = s.d
  cfg : Y.cfg = s.cfg
  queue : Y.q.queue = rest
  dirty : Y.q.dirty = (s.q.advance s.clock).dirty.erase k
  processing : Y.q.processing = k :: (s.q.advance s.clock).processing

/-- the queue after a pass that reported an error: well-formed, the key has a back-off timer -/
theorem queue_after_err {q qs : WQ} {k : String} {rest : List String} (now : Int) (hwf : Retry.WF q)
    (hq : q.queue = k :: rest) (h1 : qs.queue = rest) (h2 : qs.dirty = q.dirty.erase k)
    (h3 : qs.processing = k :: q.processing) :
    Retry.WF ((qs.addRateLimited k now).done k) ∧ ((qs.addRateLimited k now).done k).delayed ≠ [] := by
  have hke : k ∉ q.dirty.erase k := fun hm => ((List.Nodup.mem_erase_iff hwf.nodup).mp hm).1 rfl
  have hproc : (qs.addRateLimited k now).processing = [k] := by show qs.processing = [k]; rw [h3, hwf.idle]
  have hdirty : k ∉ (qs.addRateLimited k now).dirty := by show k ∉ qs.dirty; rw [h2]; exact hke
  rw [Retry.done_clean hproc hdirty]
  refine ⟨⟨rfl, ?_, ?_⟩, ?_⟩
  · show qs.dirty.Nodup; rw [h2]; exact hwf.nodup.erase k
  · intro x hx
    have hx' : x ∈ q.dirty.erase k := by
      have : x ∈ qs.dirty := hx
      rw [h2] at this; exact this
    have hx'' := (List.Nodup.mem_erase_iff hwf.nodup).mp hx'
    have := hwf.dirty x hx''.2
    rw [hq] at this
    show x ∈ qs.queue
    rw [h1]
    rcases List.mem_cons.mp this with rfl | this
    · exact absurd rfl hx''.1
    · exact this
  · show setDelayed qs.delayed k _ ≠ []
    obtain ⟨dl, hm, _⟩ := setDelayed_self qs.delayed k (now + 5000000 * ((2 ^ (if numRequeues qs.requeues k > 6 then 6 else numRequeues qs.requeues k) : Nat) : Int))
    intro e
    rw [e] at hm; cases hm

/-- **one `work` step under any fault list**, given what `SyncOne` left -/
theorem work_end (s : Sys) (jo : JobObj) (k : String) (rest : List String) (Y : Sys) (b : Bool) (st : JobStatus)
    (created : List PodObj) (hwf : Retry.WF (s.q.advance s.clock)) (hq : (s.q.advance s.clock).queue = k :: rest)
    (hone : syncOne (passStart s (popQ (s.q.advance s.clock) k rest)) = (Y, b))
    (hY : PassEnd jo s Y k rest st created)
    (hps : (created.map PEv.upsert).foldl applyPEv s.pods = s.pods ++ created) :
    PassOut jo s (dropFaults (work s).1) st created ∧ (b = false → (dropFaults (work s).1).q.delayed ≠ []) ∧
    (b = true → (dropFaults (work s).1).q.delayed = Y.q.delayed) := by
  have hg := get_cons hq
  rw [work_some s k _ hg, hone]
  have hjob : ∃ jo', Y.job = some jo' ∧ jo'.name = jo.name ∧ jo'.uid = jo.uid ∧ jo'.finalizer = jo.finalizer ∧
      jo'.job = { jo.job with status := st } := by
    rcases hY.job with ⟨e1, e2, _⟩ | ⟨j, e1, _, e3, e4, e5, e6⟩
    · exact ⟨jo, e2, rfl, rfl, rfl, by rw [e1]⟩
    · exact ⟨j, e1, e3, e4, e5, e6⟩
  have hjs : Y.jobEvs.foldl applyJEv Y.jobCache = Y.job := by
    rcases hY.job with ⟨_, e2, e3⟩ | ⟨j, e1, e2, _⟩
    · rw [e3, hY.jobCache, e2]; rfl
    · rw [e2, e1]; rfl
  have hpsync : Y.podEvs.foldl applyPEv Y.podCache = Y.pods := by rw [hY.podEvs, hY.podCache, hY.pods]; exact hps
  have hwrote : st ≠ jo.job.status → ∃ j rest', Y.jobEvs = .upsert j :: rest' := by
    intro hne
    rcases hY.job with ⟨e1, _⟩ | ⟨j, _, e2, _⟩
    · exact absurd e1 hne
    · exact ⟨j, [], e2⟩
  cases b with
  | true =>
    obtain ⟨qa, qb, qc⟩ := queue_after_ok hwf hq hY.queue hY.dirty hY.processing
    simp only [if_true]
    exact ⟨⟨hjob, hjs, hpsync, hY.pods, hY.clock, hY.d, hY.cfg, rfl, qa, hwrote⟩, (fun hx => by cases hx), fun _ => qb⟩
  | false =>
    obtain ⟨qa, qb⟩ := queue_after_err Y.clock hwf hq hY.queue hY.dirty hY.processing
    simp only [Bool.false_eq_true, if_false]
    exact ⟨⟨hjob, hjs, hpsync, hY.pods, hY.clock, hY.d, hY.cfg, rfl, qa, hwrote⟩, (fun _ => qb), (fun hx => by cases hx)⟩

end Furiko.JobCtl.Live
