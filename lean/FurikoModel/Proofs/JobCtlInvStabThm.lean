/-
The core of the stability theorems: a pass on a cached Job whose stored condition is `Finished` with
result / finish time `k` (Job not being deleted, no kill timestamp, no admission error) computes a
status whose condition is `Finished` with the same `k`.  Core Lean only.
-/
import FurikoModel.Proofs.JobCtlInvStabStep

set_option linter.unusedSimpArgs false
set_option linter.unusedVariables false

namespace Furiko.JobCtl
open Furiko Furiko.WQ Furiko.StatusLemmas Furiko.ConditionLemmas

theorem finKey_some {c : Condition} {k : JobResult × Option Time} (h : finKey c = some k) :
    ∃ f, c.finished = some f ∧ k = (f.result, f.finishTimestamp) := by
  unfold finKey at h
  cases hf : c.finished with
  | none => simp [hf] at h
  | some f => simp only [hf, Option.map_some, Option.some.injEq] at h; exact ⟨f, rfl, h.symm⟩

/-- a `Finished` condition computed without kill timestamp / admission error: every ref is finished and
the summary is complete -/
theorem finished_all_refs {j0 : JobObj} {d : PIndex} {now : Time} {rj : Job} {k : JobResult × Option Time}
    (hg : Good j0 d rj) (htm : rj.template = j0.job.template) (ha : rj.admissionError = false)
    (hk : rj.killTimestamp = none) (h : finKey (getCondition now d rj) = some k) :
    (∀ r ∈ rj.status.tasks, r.finishTimestamp.isSome = true) ∧
    (getParallelTaskSummary d rj rj.status.tasks).complete = true := by
  obtain ⟨f, hf, _⟩ := finKey_some h
  rcases getCondition_finished now d rj f hf with h1 | h1
  · rw [ha] at h1; cases h1.1
  · obtain ⟨_, _, hterm, hres⟩ := h1
    have hkill : isTimeSetAndEarlierOrEqual now rj.killTimestamp = false := by rw [hk]; rfl
    rcases hres with h2 | h2
    · rw [hkill] at h2; cases h2.1
    · refine ⟨?_, h2.2.1⟩
      have hall := (terminated_ge_iff d rj rj.status.tasks).mp hterm
      intro r hr
      obtain ⟨⟨i, hi, hp, _⟩, _⟩ := hg.refs r hr
      have hi' : i ∈ rj.indexes d := by rw [indexes_of_template htm]; exact hi
      refine hall i hi' r hr ?_
      unfold TaskRef.hash TaskRef.index
      rw [hp]; rfl

theorem getParallelTaskSummary_congr (d : PIndex) (job : Job) (a b : List TaskRef)
    (h : ∀ i : PIndex, getIndexStatus i i.hash (tasksOfHash d b i.hash) job.maxAttempts =
      getIndexStatus i i.hash (tasksOfHash d a i.hash) job.maxAttempts) :
    getParallelTaskSummary d job b = getParallelTaskSummary d job a := by
  have : indexStatuses d job b = indexStatuses d job a := by
    unfold indexStatuses
    apply List.map_congr_left
    intro i _
    exact h i
  unfold getParallelTaskSummary
  rw [this]

/-- One pass keeps a `Finished` condition's result and finish time. -/
theorem stable_sync {j0 jo : JobObj} {sp : Sys} (ctx : PassCtx j0 sp) (hwf : WF2 j0 sp.d) (hjo : VerOK j0 jo)
    (hg : Good j0 sp.d jo.job) (hv : VerOK3 sp.d jo)
    (hfin : ∀ r ∈ jo.job.status.tasks, r.finishTimestamp.isSome = true → PodFinIn sp.pods r.name)
    (htm : j0.job.template.isSome = true) (hnd : jo.job.deletionTimestamp = none) (hnu : NoUnrec sp jo)
    (k : JobResult × Option Time) (hk : finKey jo.job.status.condition = some k) :
    finKey (sync sp jo).2.1.status.condition = some k := by
  have htm' : jo.job.template.isSome = true := by rw [hjo.template]; exact htm
  obtain ⟨f, hf, hkf⟩ := finKey_some hk
  obtain ⟨hstart, t, hcomp⟩ := hv.coh hnd f hf
  rw [← hkf] at hcomp
  have hcan := canCreateTask_of hv.noKill hv.noAdm
  obtain ⟨hres, hnames, _, hcond⟩ := sync_res sp jo ctx hwf hjo hg hv.rs hfin hcan hv.coh hv.noAdm htm'
  have hle := (sync_spec sp jo sp (CreatePhase.refl _)).2
  rcases hcond with heq | hcond
  · rw [heq]; exact hk
  · have hdel : (sync sp jo).2.1.deletionTimestamp = none := by rw [hle.del]; exact hnd
    rw [hcond hdel]
    -- all recorded refs are finished and the summary is complete
    obtain ⟨hallfin, hcomplete⟩ := finished_all_refs hg hjo.template hv.noAdm hv.noKill hcomp
    -- the refreshed refs of the completion check are complete too
    have htf := tasksForRefs_good (jo := jo) ctx.pods hjo.uid jo.job.status.tasks hg.nodup
    have hN0 : ∀ r ∈ jo.job.status.tasks, r.name ∈ passNames sp jo :=
      fun r hr => List.mem_append_left _ (List.mem_map_of_mem hr)
    have hsem := tasksForRefs_refsOK (jo := jo) ctx hjo.uid (passNames sp jo) jo.job.status.tasks hg.nodup hv.rs hfin hN0
    have hu := updateJobTaskRefs_g3 sp.clock jo.job hg hsem.2 htf.1 hsem.1
    have hsame0 : SameFinished j0 sp.d jo.job (updateJobTaskRefs sp.clock jo.job (tasksForRefs sp jo jo.job.status.tasks)) :=
      ⟨hg, hu.good, generateTaskRefs_names sp.clock _ _ (fun t ht => (htf.1.ok t ht).1), by
        intro n hn
        rcases hu.names n hn with h | h
        · exact h
        · exact htf.2 n h, hu.froz, hallfin⟩
    have hcomplete0 : (getParallelTaskSummary sp.d jo.job (generateTaskRefs sp.clock jo.job.status.tasks
        (tasksForRefs sp jo jo.job.status.tasks))).complete = true := by
      have := getParallelTaskSummary_congr sp.d jo.job jo.job.status.tasks
        (generateTaskRefs sp.clock jo.job.status.tasks (tasksForRefs sp jo jo.job.status.tasks))
        (hsame0.view hwf jo.job.maxAttempts).1
      rw [this]; exact hcomplete
    -- hence no name was added, and every finished ref is frozen
    have hsame : SameFinished j0 sp.d jo.job (sync sp jo).2.1 :=
      ⟨hg, hres.good, hle.names, (hnames (Or.inl ⟨hcomplete0, hnu⟩)).1 hnd, hres.froz, hallfin⟩
    have hview := hsame.view hwf jo.job.maxAttempts
    have hkey := getCondition_finKey_congr sp.clock sp.d jo.job (sync sp jo).2.1 hv.noAdm
      (by rw [hres.adm]; exact hv.noAdm) hstart hle.startTime hle.kill hle.template
      (fun i _ => hview.1 i) hview.2
    rw [hkey, getCondition_now_irrel sp.clock t sp.d jo.job hv.noAdm hv.noKill]
    exact hcomp

/-! ### the step and history forms -/

/-- what the stability clauses compare: the Job is not being deleted and its stored condition is
`Finished` with result / finish time `k` -/
def StableFrom (j j' : JobObj) : Prop :=
  j'.job.deletionTimestamp = none →
    j.job.deletionTimestamp = none ∧
    ∀ k, finKey j.job.status.condition = some k → finKey j'.job.status.condition = some k

theorem stable_moves {j0 : JobObj} {s : Sys} {a : Action} (hb : Base j0 s) (h2 : Inv2 j0 s) (ho : Owned j0 s) (h3 : Inv3G s)
    (hwf : WF2 j0 s.d) (hwf3 : WF3 j0) (henv : stabEnvF s a) (j : JobObj) (hj : s.job = some j)
    {o : Option JobObj} (hm : JobMoves s a (some j) o) : ∀ y, o = some y → StableFrom j y := by
  have h3' := h3 (by rw [hj]; rfl)
  suffices hgen : ∀ src o, JobMoves s a src o → src = some j → ∀ y, o = some y → StableFrom j y from
    hgen _ _ hm rfl
  intro src o hm
  induction hm with
  | refl => intro hsrc y hy; rw [hsrc] at hy; cases hy; exact fun hd => ⟨hd, fun k hk => hk⟩
  | tail hms hmv ih =>
    intro hsrc y hy
    cases hmv with
    | goneUser => cases hy
    | goneTTL => cases hy
    | goneSpec => cases hy
    | delMark cur t rv _ _ _ _ => cases hy; intro hd; cases hd
    | kill cur t rv ha _ => subst ha; exact absurd henv.1.2.1 (by simp [noUserEdit])
    | ctlSpec jo sp rv _ hc hf _ _ =>
      cases hy
      intro hd
      exact ih hsrc jo rfl hd
    | ctlStatus jo sp rv ha hc hf _ =>
      cases hy
      intro hd
      have hjd : jo.job.deletionTimestamp = none := hd
      obtain ⟨hjd0, hkeys⟩ := ih hsrc jo rfl hjd
      refine ⟨hjd0, ?_⟩
      intro k hk
      have hk' := hkeys k hk
      -- the invariants at the start of the pass
      have hseen := mem_seenVers_cache hc
      have hjo := (hb.seenOK jo hseen).1
      have hall : jo ∈ allVers s := List.mem_append_right _ hseen
      have hv := h3'.ver jo hall
      have h2sp := h2.frame hf
      have hcsp : sp.jobCache = some jo := hf.jobCache.trans hc
      have hg : Good j0 sp.d jo.job := h2sp.seen jo (mem_seenVers_cache hcsp)
      have ctx : PassCtx j0 sp := ⟨h2sp.pods, ho.frame hf, by rw [hf.pods]; exact hb.podsNodup, by
        intro c hcm hfin
        rw [hf.pods]
        exact h3'.lin c (Or.inl (hf.podCache ▸ hcm)) hfin⟩
      have hfin : ∀ r ∈ jo.job.status.tasks, r.finishTimestamp.isSome = true → PodFinIn sp.pods r.name := by
        intro r hr hfn; rw [hf.pods]; exact h3'.fin jo hall r hr hfn
      have hnu : NoUnrec sp jo := by
        obtain ⟨f, hff, _⟩ := finKey_some hk'
        have := henv.2 ha jo hc (by rw [hff]; rfl)
        intro p hp
        have h' := this p (hf.podCache ▸ hp)
        rw [← hf.clock] at h'; exact h'
      exact stable_sync ctx (hf.d ▸ hwf) hjo hg ⟨hv.rs, hv.noKill, hv.noAdm, hf.d ▸ hv.coh⟩ hfin hwf3.tmpl hjd hnu k hk'
    | ctlStatusOn jo sp rv0 rv ha hc hf _ =>
      cases hy
      intro hd
      have hjd : jo.job.deletionTimestamp = none := hd
      obtain ⟨hjd0, hkeys0⟩ := ih hsrc _ rfl hjd
      -- the object `Update` produced carries the status of the cached Job
      have hkeys : ∀ k, finKey j.job.status.condition = some k → finKey jo.job.status.condition = some k := hkeys0
      refine ⟨hjd0, ?_⟩
      intro k hk
      have hk' := hkeys k hk
      -- the invariants at the start of the pass
      have hseen := mem_seenVers_cache hc
      have hjo := (hb.seenOK jo hseen).1
      have hall : jo ∈ allVers s := List.mem_append_right _ hseen
      have hv := h3'.ver jo hall
      have h2sp := h2.frame hf
      have hcsp : sp.jobCache = some jo := hf.jobCache.trans hc
      have hg : Good j0 sp.d jo.job := h2sp.seen jo (mem_seenVers_cache hcsp)
      have ctx : PassCtx j0 sp := ⟨h2sp.pods, ho.frame hf, by rw [hf.pods]; exact hb.podsNodup, by
        intro c hcm hfin
        rw [hf.pods]
        exact h3'.lin c (Or.inl (hf.podCache ▸ hcm)) hfin⟩
      have hfin : ∀ r ∈ jo.job.status.tasks, r.finishTimestamp.isSome = true → PodFinIn sp.pods r.name := by
        intro r hr hfn; rw [hf.pods]; exact h3'.fin jo hall r hr hfn
      have hnu : NoUnrec sp jo := by
        obtain ⟨f, hff, _⟩ := finKey_some hk'
        have := henv.2 ha jo hc (by rw [hff]; rfl)
        intro p hp
        have h' := this p (hf.podCache ▸ hp)
        rw [← hf.clock] at h'; exact h'
      exact stable_sync ctx (hf.d ▸ hwf) hjo hg ⟨hv.rs, hv.noKill, hv.noAdm, hf.d ▸ hv.coh⟩ hfin hwf3.tmpl hjd hnu k hk'

/-- one step inside the envelope: a non-deleted Job that is `Finished` with result / finish time `k`
is, after the step (if the object still exists and is not being deleted), `Finished` with the same `k` -/
theorem stable_step {ok : Sys → Action → Prop} (hok : ∀ s a, ok s a → stabEnvF s a) {j0 : JobObj} {s : Sys}
    (hr : Reach ok j0 s) (hwf : WF2 j0 s.d) (hwf3 : WF3 j0) (a : Action) (hoka : ok s a) (hal : Allowed j0 s a)
    (j j' : JobObj) (hj : s.job = some j) (hj' : (step s a).job = some j') : StableFrom j j' := by
  have hb := base_of_reach hr
  have h2 := inv2_of_reach hr hwf
  have ho := owned_of_reach (fun s a h => (hok s a h).1.1) hr
  have h3 := inv3_of_reach (fun s a h => (hok s a h).1) hr hwf hwf3
  have hm := job_moves hb a hal
  rw [hj] at hm
  exact stable_moves hb h2 ho h3 hwf hwf3 (hok s a hoka) j hj hm j' hj'

/-- … and along every continuation of the history inside the envelope -/
theorem stable_steps {ok : Sys → Action → Prop} (hok : ∀ s a, ok s a → stabEnvF s a) {j0 : JobObj} {s s' : Sys}
    (hr : Reach ok j0 s) (hwf : WF2 j0 s.d) (hwf3 : WF3 j0) (hs : Steps ok j0 s s') :
    ∀ j j', s.job = some j → s'.job = some j' → StableFrom j j' := by
  induction hs with
  | refl => intro j j' h1 h2; rw [h1] at h2; cases h2; exact fun hd => ⟨hd, fun k hk => hk⟩
  | step a hs' hoka hal ih =>
    intro j j' h1 h2
    rename_i s''
    have hr'' := hr.steps hs'
    cases hj : s''.job with
    | none => rw [step_job_none hr'' a hal hj] at h2; cases h2
    | some j'' =>
      have hstep := stable_step hok hr'' (by rw [steps_d hs']; exact hwf) hwf3 a hoka hal j'' j' hj h2
      intro hd
      obtain ⟨hd'', hk''⟩ := hstep hd
      obtain ⟨hd0, hk0⟩ := ih j j'' h1 hj hd''
      exact ⟨hd0, fun k hk => hk'' k (hk0 k hk)⟩

/-! ### a decidable form of the envelope (for concrete histories) -/

def freshNameB (s : Sys) (n : String) : Bool :=
  !((match s.job with
      | some j => refNames j.job
      | none => []).contains n) && !((podNames s.podCache).contains n) && !((podEvNames s.podEvs).contains n)

theorem freshName_of_b {s : Sys} {n : String} (h : freshNameB s n = true) : FreshName s n := by
  unfold freshNameB at h
  simp only [Bool.and_eq_true, Bool.not_eq_true', ← Bool.not_eq_true, List.contains_iff_mem] at h
  refine ⟨?_, h.1.2, h.2⟩
  intro j hj hm
  rw [hj] at h
  exact h.1.1 hm

/-- every creation request computed from the cached Job names a pod that is on the server or fresh -/
def noStaleCheck (s : Sys) : Bool :=
  match s.jobCache with
  | none => true
  | some jo =>
    match computeMissingIndexesForCreation s.d jo.job (jo.job.indexes s.d) with
    | none => true
    | some reqs => reqs.all (fun r =>
        (podNames s.pods).contains (taskName jo.name r.index.hash r.retryIndex) ||
        freshNameB s (taskName jo.name r.index.hash r.retryIndex))

theorem noStale_of_check {s : Sys} (h : noStaleCheck s = true) : noStaleCopyOnCreate s .work := by
  intro _ _ _ jo idx retry hc hreq hn
  obtain ⟨_, _, _, reqs, e, hreqs, hmem⟩ := hreq
  unfold noStaleCheck at h
  simp only [hc, hreqs, List.all_eq_true, Bool.or_eq_true] at h
  rcases h _ hmem with h' | h'
  · rw [List.contains_iff_mem] at h'; exact absurd h' hn
  · exact freshName_of_b h'

/-- the pod cache holds no unrecorded task of a cached Job that is recorded `Finished` -/
def noUnrecCheck (s : Sys) : Bool :=
  match s.jobCache with
  | none => true
  | some jo =>
    !jo.job.status.condition.finished.isSome ||
      s.podCache.all (fun p =>
        !(decide (p.jobLabel = some jo.uid) && decide (p.ownerUid = some jo.uid) &&
          !(jo.job.status.tasks.any (·.name = p.pod.name))) || (podTask s.clock p).isNone)

theorem noUnrec_of_check {s : Sys} (h : noUnrecCheck s = true) : noUnrecordedWhenFinished s .work := by
  intro _ jo hc hfin p hp hl ho hn
  unfold noUnrecCheck at h
  simp only [hc, hfin, Bool.not_true, Bool.false_or, List.all_eq_true] at h
  have hp' := h p hp
  have hcond : (decide (p.jobLabel = some jo.uid) && decide (p.ownerUid = some jo.uid) &&
      !(jo.job.status.tasks.any (·.name = p.pod.name))) = true := by
    simp only [Bool.and_eq_true, decide_eq_true_eq, Bool.not_eq_true', List.any_eq_false]
    exact ⟨⟨hl, ho⟩, fun r hr => by simpa using hn r hr⟩
  rw [hcond] at hp'
  simpa using hp'

/-- the decidable filter: no foreign pod, no user kill / delete, and before every pass `noStaleCheck` -/
def stabChecked (s : Sys) (a : Action) : Prop :=
  noForeign s a ∧ noUserEdit s a ∧ (a = .work → noStaleCheck s = true)

/-- … and `noUnrecCheck`: the decidable form of `stabEnvF` -/
def stabCheckedF (s : Sys) (a : Action) : Prop := stabChecked s a ∧ (a = .work → noUnrecCheck s = true)

instance (s : Sys) (a : Action) : Decidable (stabChecked s a) := by unfold stabChecked; infer_instance

theorem stabEnv_of_checked (s : Sys) (a : Action) (h : stabChecked s a) : stabEnv s a := by
  refine ⟨h.1, h.2.1, ?_⟩
  cases a with
  | work => exact noStale_of_check (h.2.2 rfl)
  | _ => intro hw; cases hw

instance (s : Sys) (a : Action) : Decidable (stabCheckedF s a) := by unfold stabCheckedF; infer_instance

theorem stabEnvF_of_checked (s : Sys) (a : Action) (h : stabCheckedF s a) : stabEnvF s a := by
  refine ⟨stabEnv_of_checked s a h.1, ?_⟩
  cases a with
  | work => exact noUnrec_of_check (h.2 rfl)
  | _ => intro hw; cases hw

end Furiko.JobCtl
