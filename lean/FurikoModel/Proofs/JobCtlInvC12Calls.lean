/-
The API calls issued in a step of the transition system, and why (history level).

* only a controller pass (`work`) issues calls; every other action leaves the call log alone
  (`calls_only_in_work`); the pass resets the log, so `(step s .work).calls` is exactly what that pass
  issued (`work_calls`);
* the clock never goes backwards along `Steps` (`steps_clock_le`);
* `pod_delete_why` / `job_delete_why` / `create_why`: every pod delete, Job delete and pod create of a
  pass is justified against the state the pass STARTS in (its clock, configuration and cached Job) —
  the pass-level theorems of `Proofs/JobCtlPlanPass.lean` transported to `step`.
Core Lean only.
-/
import FurikoModel.Proofs.JobCtlInvBase
import FurikoModel.Proofs.JobCtlPlanPass

set_option linter.unusedSimpArgs false
set_option linter.unusedVariables false

namespace Furiko.JobCtl
open Furiko Furiko.WQ Furiko.JobCtlPlan

/-! ### who issues calls -/

theorem podNotify_calls (s : Sys) (p : PodObj) : (podNotify s p).calls = s.calls := by
  unfold podNotify
  split
  · split <;> rfl
  · rfl

theorem foldl_podNotify_calls : ∀ (l : List PodObj) (a : Sys), (l.foldl podNotify a).calls = a.calls := by
  intro l
  induction l with
  | nil => intro a; rfl
  | cons p rest ih => intro a; exact (ih _).trans (podNotify_calls a p)

/-- no action other than a controller pass touches the call log -/
theorem calls_only_in_work (s : Sys) (a : Action) (h : a ≠ .work) : (step s a).calls = s.calls := by
  cases a with
  | work => exact absurd rfl h
  | setFaults fs => rfl
  | deliverJob =>
    show (deliverJob s).calls = s.calls
    unfold deliverJob
    split
    · rfl
    · rfl
    · split <;> rfl
  | deliverPod =>
    show (deliverPod s).calls = s.calls
    unfold deliverPod
    split
    · rfl
    · exact podNotify_calls _ _
    · split
      · rfl
      · exact podNotify_calls _ _
  | resync =>
    show (resync s).calls = s.calls
    unfold resync
    cases s.jobCache with
    | none => exact foldl_podNotify_calls _ _
    | some j => exact foldl_podNotify_calls _ _
  | restart =>
    show (restart s).calls = s.calls
    unfold restart
    cases s.job <;> rfl
  | advance d => rfl
  | kubelet p =>
    show (setPodState s p).calls = s.calls
    unfold setPodState
    split <;> rfl
  | podGone n =>
    show (removePod s n).calls = s.calls
    unfold removePod
    split <;> rfl
  | externalDelete n =>
    show (removePod s n).calls = s.calls
    unfold removePod
    split <;> rfl
  | kill t =>
    show (mutateJobObj s _).calls = s.calls
    unfold mutateJobObj
    split <;> rfl
  | userDelete =>
    show (userDeleteJob s).calls = s.calls
    unfold userDeleteJob
    split
    · rfl
    · split
      · split
        · rfl
        · unfold mutateJobObj
          split <;> rfl
      · rfl
  | createForeign p =>
    show (createForeignPod s p).calls = s.calls
    unfold createForeignPod
    split <;> rfl

/-- the state in which the `SyncOne` of a pass that popped a key runs: queue popped, call log empty -/
def passEntry (s : Sys) (q1 : WQ) : Sys := { s with q := q1, calls := [], delRun := none }

/-- what a pass sees of the state it starts in -/
structure PassView (s sp : Sys) : Prop where
  clock : sp.clock = s.clock
  cfg : sp.cfg = s.cfg
  d : sp.d = s.d
  job : sp.job = s.job
  pods : sp.pods = s.pods
  jobCache : sp.jobCache = s.jobCache
  podCache : sp.podCache = s.podCache
  calls : sp.calls = []

theorem passEntry_view (s : Sys) (q1 : WQ) : PassView s (passEntry s q1) := ⟨rfl, rfl, rfl, rfl, rfl, rfl, rfl, rfl⟩

/-- the call log after a pass is exactly what its `SyncOne` issued (nothing for an idle pass) -/
theorem work_calls (s : Sys) :
    ((s.q.advance s.clock).get = none ∧ (work s).1.calls = []) ∨
    ∃ k q1, (s.q.advance s.clock).get = some (k, q1) ∧
      (work s).1.calls = newCalls (passEntry s q1) (syncOne (passEntry s q1)).1 := by
  unfold work
  simp only
  cases hg : (s.q.advance s.clock).get with
  | none => exact Or.inl ⟨rfl, rfl⟩
  | some v =>
    obtain ⟨k, q1⟩ := v
    refine Or.inr ⟨k, q1, rfl, ?_⟩
    simp only
    show (syncOne (passEntry s q1)).1.calls = _
    unfold newCalls passEntry
    simp

/-- every call of a step comes from `sync` on the cached Job, run in a state that shows the pass the
clock, configuration, caches and server objects of `s`, or is one of the two final Job writes -/
theorem step_call_origin (s : Sys) (c : Call) (hc : c ∈ (step s .work).calls) :
    ∃ sp jo, PassView s sp ∧ s.jobCache = some jo ∧
      (SyncCallOrigin sp jo c ∨ (c.verb = "update" ∧ c.res = "jobs" ∧ c.name = jo.name)) := by
  change c ∈ (work s).1.calls at hc
  rcases work_calls s with ⟨_, h⟩ | ⟨k, q1, _, h⟩
  · rw [h] at hc; cases hc
  · rw [h] at hc
    obtain ⟨jo, hjo, ho⟩ := (syncOne_origin (passEntry s q1)).2 c hc
    exact ⟨passEntry s q1, jo, passEntry_view s q1, hjo, ho⟩

/-! ### the clock -/

theorem step_clock (s : Sys) (a : Action) : s.clock ≤ (step s a).clock := by
  have same : (step s a).clock = s.clock → s.clock ≤ (step s a).clock := fun h => by rw [h]; exact Int.le_refl _
  cases a with
  | setFaults fs => exact same rfl
  | work =>
    apply same
    show (work s).1.clock = s.clock
    cases hc : s.jobCache with
    | none => exact (work_frame s hc).clock
    | some jo =>
      obtain ⟨sp, hf, hm⟩ := work_micros s jo hc
      exact hm.static.clock.trans hf.clock
  | deliverJob => exact same (deliverJob_fields s).2.2.2.2.2.2.1
  | deliverPod => exact same (deliverPod_fields s).2.2.2.2.2.2.1
  | resync => exact same (resync_frame s).clock
  | restart =>
    apply same
    show (restart s).clock = s.clock
    unfold restart
    cases s.job <;> rfl
  | advance d =>
    show s.clock ≤ s.clock + (d : Int)
    omega
  | kubelet p =>
    apply same
    show (setPodState s p).clock = s.clock
    unfold setPodState
    split <;> rfl
  | podGone n =>
    apply same
    show (removePod s n).clock = s.clock
    unfold removePod
    split <;> rfl
  | externalDelete n =>
    apply same
    show (removePod s n).clock = s.clock
    unfold removePod
    split <;> rfl
  | kill t =>
    apply same
    show (mutateJobObj s _).clock = s.clock
    unfold mutateJobObj
    split <;> rfl
  | userDelete =>
    apply same
    show (userDeleteJob s).clock = s.clock
    rcases userDeleteJob_spec s with h' | ⟨c, _, _, _, h'⟩ | ⟨c, _, _, h'⟩
    · rw [h']
    · exact h'.static.clock
    · exact h'.static.clock
  | createForeign p =>
    apply same
    show (createForeignPod s p).clock = s.clock
    unfold createForeignPod
    split <;> rfl

/-- the clock never goes backwards along a history -/
theorem steps_clock_le {ok : Sys → Action → Prop} {j0 : JobObj} {s s' : Sys} (hs : Steps ok j0 s s') :
    s.clock ≤ s'.clock := by
  induction hs with
  | refl => exact Int.le_refl _
  | step a _ _ _ ih => exact Int.le_trans ih (step_clock _ a)

theorem lookupRef_some' {existing : List TaskRef} {n : String} {ex : TaskRef} (h : lookupRef existing n = some ex) :
    ex ∈ existing ∧ ex.name = n := by
  unfold lookupRef at h
  exact ⟨List.mem_reverse.mp (List.mem_of_find?_eq_some h), by simpa using List.find?_some h⟩

theorem lookupRef_of_mem' {B : List TaskRef} {b : TaskRef} (hb : b ∈ B) : ∃ b', lookupRef B b.name = some b' := by
  unfold lookupRef
  cases h : B.reverse.find? (fun r => r.name == b.name) with
  | some b' => exact ⟨b', rfl⟩
  | none =>
    exfalso
    have := List.find?_eq_none.mp h b (List.mem_reverse.mpr hb)
    simp at this

/-- a running timestamp in what `GetTaskRef` records comes from the task or from the ref recorded before -/
theorem getTaskRef_running_src (e : Option TaskRef) (t : Task) (v : Time)
    (h : (getTaskRef e t).runningTimestamp = some v) :
    t.ref.runningTimestamp = some v ∨ ∃ ex, e = some ex ∧ ex.runningTimestamp = some v := by
  unfold getTaskRef at h
  cases e with
  | none =>
    simp only at h
    split at h <;> exact Or.inl h
  | some ex =>
    simp only at h
    cases hr : t.ref.runningTimestamp with
    | some w =>
      left
      repeat' split at h
      all_goals simp_all
    | none =>
      right
      refine ⟨ex, rfl, ?_⟩
      repeat' split at h
      all_goals simp_all

/-- … and likewise a finish timestamp -/
theorem getTaskRef_finish_src (e : Option TaskRef) (t : Task) (v : Time)
    (h : (getTaskRef e t).finishTimestamp = some v) :
    t.ref.finishTimestamp = some v ∨ ∃ ex, e = some ex ∧ ex.finishTimestamp = some v := by
  unfold getTaskRef at h
  cases e with
  | none =>
    simp only at h
    split at h <;> exact Or.inl h
  | some ex =>
    simp only at h
    cases hf : t.ref.finishTimestamp with
    | some w =>
      cases hxf : ex.finishTimestamp with
      | none =>
        left
        repeat' split at h
        all_goals simp_all
      | some u =>
        by_cases hfinal : isFinalTaskState ex.status.state = true
        · right
          refine ⟨ex, rfl, ?_⟩
          repeat' split at h
          all_goals simp_all
        · left
          repeat' split at h
          all_goals simp_all
    | none =>
      right
      refine ⟨ex, rfl, ?_⟩
      repeat' split at h
      all_goals simp_all

/-! ### why a pod delete was issued -/

/-- the reason of a pod delete of a pass, against the clock / configuration `s` and the cached Job `jo`
the pass started with; `t` is the task the delete was issued for -/
inductive PodDeleteWhy (s : Sys) (jo : JobObj) (c : Call) (t : Task) : Prop
  /-- pending timeout `T > 0` reached for a task `t` that is not being deleted and that NEITHER the recorded
  ref NOR the live pod shows to have begun running (repair of F32: the step judges a task by the ref recorded
  in the Job's status): `t'` is the task the pass read from the pod `p'` (controlled by the Job) under that
  name — its own ref, which since the repair also reads `LastTerminationState`, reports no running and no
  finish timestamp, and its `creation + T ≤ clock` — and the ref the cached Job records under that name, if
  any, shows neither timestamp -/
  | pendingTimeout (T : Int) (t' : Task) (p' : PodObj) : c.force = false → isStarted jo.job = true →
      jo.job.deletionTimestamp = none → getPendingTimeout jo.job s.cfg = some T → 0 < T →
      t.deletionTimestamp = none →
      t'.name = c.name → podTask s.clock p' = some t' → p'.ownerUid = some jo.uid →
      t'.ref.runningTimestamp = none → t'.ref.finishTimestamp = none →
      (t'.ref.creationTimestamp.getD zeroTime : Int) + T ≤ s.clock →
      (∀ e, lookupRef jo.job.status.tasks c.name = some e → e.runningTimestamp = none ∧ e.finishTimestamp = none) →
      PodDeleteWhy s jo c t
  /-- kill sweep: the cached Job's kill timestamp has passed -/
  | killPassed (k : Int) : c.force = false → isStarted jo.job = true → jo.job.deletionTimestamp = none →
      isTaskFinished t = false → t.deletionTimestamp = none →
      jo.job.killTimestamp = some k → k ≤ s.clock → PodDeleteWhy s jo c t
  /-- kill sweep: the completion strategy is decided against continuing, or the Job was refused
  (admission error), on a Job value `rj'` of the pass that has the cached Job's kill timestamp and template -/
  | decided (rj' : Job) : c.force = false → isStarted jo.job = true → jo.job.deletionTimestamp = none →
      isTaskFinished t = false → t.deletionTimestamp = none →
      rj'.killTimestamp = jo.job.killTimestamp → rj'.template = jo.job.template →
      (shouldKillJobForParallel rj' = true ∨ rj'.admissionError = true) → PodDeleteWhy s jo c t
  /-- force deletion: timeout `F > 0`, not forbidden by the Job, deletion timestamp `+ F` reached -/
  | forceDelete (dts : Int) : c.force = true → isStarted jo.job = true → jo.job.deletionTimestamp = none →
      0 < getForceDeleteTimeout s.cfg → forbidsForce jo.job = false →
      t.deletionTimestamp = some dts → dts + getForceDeleteTimeout s.cfg ≤ s.clock → PodDeleteWhy s jo c t
  /-- finalizer sweep: the cached Job is being deleted and carries the finalizer -/
  | finalizer : c.force = false → jo.job.deletionTimestamp.isSome = true → jo.finalizer = true →
      PodDeleteWhy s jo c t

/-- every pod delete issued in a step is for a task read from a pod controlled by the cached Job, and has
one of the five reasons of `PodDeleteWhy`, evaluated against the state the step starts in -/
theorem pod_delete_why (s : Sys) (c : Call) (hc : c ∈ (step s .work).calls) (hv : c.verb = "delete")
    (hres : c.res = "pods") :
    ∃ jo t p, s.jobCache = some jo ∧ t.name = c.name ∧ podTask s.clock p = some t ∧ p.ownerUid = some jo.uid ∧
      PodDeleteWhy s jo c t := by
  obtain ⟨sp, jo, hview, hjo, ho⟩ := step_call_origin s c hc
  refine ⟨jo, ?_⟩
  rcases ho with ho | ⟨hu, _, _⟩
  · cases ho with
    | tasks hst hdel hto =>
      have hnd : jo.job.deletionTimestamp = none := by
        unfold isDeleted at hdel
        cases h : jo.job.deletionTimestamp with
        | none => rfl
        | some x => rw [h] at hdel; cases hdel
      obtain ⟨_, s1, rj1, tasks1, hcr, hle, t, ht, hn, hreason⟩ := taskOrigin_delete sp jo jo.job c hto hv
      have hown : ∃ p, podTask sp.clock p = some t ∧ p.ownerUid = some jo.uid := by
        rcases syncCreateTasks_members sp jo jo.job _ s1 rj1 tasks1 hcr t ht with h0 | h1
        · unfold tasks0 tasksForRefs at h0
          obtain ⟨ex, _, hg⟩ := List.mem_filterMap.mp h0
          obtain ⟨p, _, hpt, hpo⟩ := getTaskForRef_owned hg
          exact ⟨p, hpt, hpo⟩
        · exact h1
      obtain ⟨p, hpt, hpo⟩ := hown
      rw [hview.clock] at hpt
      refine ⟨t, p, hjo, hn, hpt, hpo, ?_⟩
      cases hreason with
      | pendingTimeout T rj2 hf hT hpos hts hp hd hdt =>
        have hown1 : ∀ x ∈ tasks1, ∃ p, podTask sp.clock p = some x ∧ p.ownerUid = some jo.uid := by
          intro x hx
          rcases syncCreateTasks_members sp jo jo.job _ s1 rj1 tasks1 hcr x hx with h0 | h1
          · unfold tasks0 tasksForRefs at h0
            obtain ⟨ex, _, hg⟩ := List.mem_filterMap.mp h0
            obtain ⟨p, _, hpt, hpo⟩ := getTaskForRef_owned hg
            exact ⟨p, hpt, hpo⟩
          · exact h1
        have hok1 : ∀ x ∈ tasks1, x.ref.name = x.name := by
          intro x hx
          obtain ⟨p, hpt, _⟩ := hown1 x hx
          exact (podTask_ok hpt).1
        obtain ⟨t', ht', hn', hr', hf', hc', hrec⟩ := pending_judged sp.clock rj1.status.tasks tasks1 rj2 t hok1 hts ht hp
        obtain ⟨p', hpt', hpo'⟩ := hown1 t' ht'
        rw [hview.clock] at hpt'
        unfold pendDeadline at hd
        rw [hc'] at hd
        refine .pendingTimeout T t' p' hf hst hnd (by rw [← hview.cfg]; exact hT) hpos hdt (hn'.trans hn) hpt' hpo' hr' hf'
          (by rw [← hview.clock]; exact hd) ?_
        -- the ref the CACHED Job records under that name
        intro e he
        rw [← hn] at he
        rcases syncCreateTasks_tasks sp jo jo.job _ s1 rj1 tasks1 hcr with h1 | h1
        · exact hrec e (by rw [h1]; exact he)
        · -- the creation step refreshed the refs itself: the refreshed ref of that name shows at least
          -- what the cached one shows
          obtain ⟨f1, f2⟩ : (getTaskRef (lookupRef jo.job.status.tasks t'.name) t').runningTimestamp = none ∧
              (getTaskRef (lookupRef jo.job.status.tasks t'.name) t').finishTimestamp = none := by
            have hm : getTaskRef (lookupRef jo.job.status.tasks t'.name) t' ∈ rj1.status.tasks := by
              rw [h1]; unfold generateTaskRefs
              rw [StatusLemmas.mem_sortTaskRefs]
              exact List.mem_append_left _ (List.mem_map.mpr ⟨t', ht', rfl⟩)
            obtain ⟨b, hb⟩ := lookupRef_of_mem' hm
            have hbn : b.name = t.name := by
              have := (lookupRef_some' hb).2
              rw [this, StatusLemmas.getTaskRef_name, hok1 t' ht', hn']
            have hb' : lookupRef rj1.status.tasks t.name = some b := by
              rw [StatusLemmas.getTaskRef_name, hok1 t' ht', hn'] at hb; exact hb
            obtain ⟨hbr, hbf⟩ := hrec b hb'
            -- `b` is itself a refreshed ref of that name
            have hbm := (lookupRef_some' hb).1
            rw [h1] at hbm
            unfold generateTaskRefs at hbm
            rw [StatusLemmas.mem_sortTaskRefs] at hbm
            rcases List.mem_append.mp hbm with h | h
            · obtain ⟨t'', ht'', rfl⟩ := List.mem_map.mp h
              rw [StatusLemmas.getTaskRef_name, hok1 t'' ht''] at hbn
              obtain ⟨s1', s2'⟩ := getTaskRef_sub (lookupRef jo.job.status.tasks t''.name) t''
              -- both refreshed refs are built on the same cached ref; the verdict needs the cached one only
              have c1 := (s2' hbr).2
              have c2 := (s1' hbf).2
              rw [hbn, ← hn'] at c1 c2
              constructor
              · cases hx : (getTaskRef (lookupRef jo.job.status.tasks t'.name) t').runningTimestamp with
                | none => rfl
                | some v =>
                  exfalso
                  have := getTaskRef_running_src (lookupRef jo.job.status.tasks t'.name) t' v hx
                  rcases this with h' | ⟨e', he', h'⟩
                  · rw [hr'] at h'; cases h'
                  · rw [c1 e' he'] at h'; cases h'
              · cases hx : (getTaskRef (lookupRef jo.job.status.tasks t'.name) t').finishTimestamp with
                | none => rfl
                | some v =>
                  exfalso
                  have := getTaskRef_finish_src (lookupRef jo.job.status.tasks t'.name) t' v hx
                  rcases this with h' | ⟨e', he', h'⟩
                  · rw [hf'] at h'; cases h'
                  · rw [c2 e' he'] at h'; cases h'
            · exfalso
              obtain ⟨e0, he0, rfl⟩ := List.mem_map.mp h
              have hnot := (List.mem_filter.mp he0).2
              have hname : (lostRef sp.clock e0).name = e0.name := by
                unfold lostRef
                cases e0.finishTimestamp <;> cases e0.deletedStatus <;> rfl
              rw [hname] at hbn
              simp only [Bool.not_eq_true', ← Bool.not_eq_true] at hnot
              rw [List.contains_iff_mem] at hnot
              exact hnot (List.mem_map.mpr ⟨t, ht, hbn.symm⟩)
          obtain ⟨s3, s4⟩ := getTaskRef_sub (lookupRef jo.job.status.tasks t'.name) t'
          rw [hn'] at s3 s4 f1 f2
          exact ⟨(s4 f1).2 e he, (s3 f2).2 e he⟩
      | kill rj' hf hfin hdt hss hk =>
        have hkt : rj'.killTimestamp = jo.job.killTimestamp := hss.killTimestamp.trans hle.killTimestamp
        have htm : rj'.template = jo.job.template := hss.template.trans hle.template
        rcases (shouldKillJob_iff sp.clock rj').mp hk with ⟨k, hkk, hkle⟩ | h | h
        · exact .killPassed k hf hst hnd hfin hdt (by rw [← hkt]; exact hkk) (by rw [← hview.clock]; exact hkle)
        · exact .decided rj' hf hst hnd hfin hdt hkt htm (Or.inl h)
        · exact .decided rj' hf hst hnd hfin hdt hkt htm (Or.inr h)
      | forceDelete dts hft hpos hfb hdt hd =>
        exact .forceDelete dts hft hst hnd (by rw [← hview.cfg]; exact hpos) hfb hdt
          (by rw [← hview.cfg, ← hview.clock]; exact hd)
    | ttl s' rj' l _ _ h =>
      exfalso
      obtain ⟨l', e, _, _, hall⟩ := handleTTL_ext s' jo rj'
      rw [e.newCalls] at h
      rw [(hall c h).2.1] at hres; simp at hres
    | finalizer s' rj' l e hle h =>
      obtain ⟨l', e', hall, _⟩ := handleFinalizer_ext s' jo rj' jo.finalizer
      rw [e'.newCalls] at h
      obtain ⟨_, _, hf, hdts, hfz, t, ht, hn, _⟩ := hall c h
      have hown : ∃ p, podTask s'.clock p = some t ∧ p.ownerUid = some jo.uid := by
        rcases (mem_finalizerTasks s' jo rj' t).mp ht with h0 | ⟨p, _, hpt, _, hpo, _⟩
        · unfold tasksForRefsConfirmed at h0
          obtain ⟨ex, _, hg⟩ := List.mem_filterMap.mp h0
          obtain ⟨p, _, hpt, hpo⟩ := getTaskForRefConfirmed_owned hg
          exact ⟨p, hpt, hpo⟩
        · exact ⟨p, hpt, hpo⟩
      obtain ⟨p, hpt, hpo⟩ := hown
      rw [e.clock, hview.clock] at hpt
      exact ⟨t, p, hjo, hn, hpt, hpo, .finalizer hf (by rw [← hle.deletionTimestamp]; exact hdts) hfz⟩
  · rw [hu] at hv; simp at hv

/-- every Job delete issued in a step is the TTL deletion: the cached Job is not being deleted, and the
Job value `rj'` the pass has just refreshed (same spec) is finished with `finish + effective TTL ≤ clock` -/
theorem job_delete_why (s : Sys) (c : Call) (hc : c ∈ (step s .work).calls) (hv : c.verb = "delete")
    (hres : c.res = "jobs") :
    ∃ jo rj' fin, s.jobCache = some jo ∧ c.name = jo.name ∧ jo.job.deletionTimestamp = none ∧
      SpecLe jo.job rj' ∧ rj'.status.condition.finished = some fin ∧
      fin.finishTimestamp.getD zeroTime + getTTLAfterFinished jo.job s.cfg ≤ s.clock := by
  obtain ⟨sp, jo, hview, hjo, ho⟩ := step_call_origin s c hc
  rcases ho with ho | ⟨hu, _, _⟩
  · cases ho with
    | tasks hst hdel hto =>
      exfalso
      have := (taskOrigin_verb sp jo jo.job c hto).1
      rw [hres] at this; simp at this
    | ttl s' rj' l e hle h =>
      obtain ⟨l', e', _, _, hall⟩ := handleTTL_ext s' jo rj'
      rw [e'.newCalls] at h
      obtain ⟨_, _, hn, hnd, fin, hfin, hexp⟩ := hall c h
      have hnd' : jo.job.deletionTimestamp = none := by
        unfold isDeleted at hnd
        rw [hle.deletionTimestamp] at hnd
        cases h' : jo.job.deletionTimestamp with
        | none => rfl
        | some x => rw [h'] at hnd; cases hnd
      have httl : getTTLAfterFinished rj' s'.cfg = getTTLAfterFinished jo.job s.cfg := by
        unfold getTTLAfterFinished
        rw [hle.ttl, e.cfg, hview.cfg]
      refine ⟨jo, rj', fin, hjo, hn, hnd', hle, hfin, ?_⟩
      rw [httl, e.clock, hview.clock] at hexp
      exact Int.not_lt.mp hexp
    | finalizer s' rj' l e hle h =>
      exfalso
      obtain ⟨l', e', hall, _⟩ := handleFinalizer_ext s' jo rj' jo.finalizer
      rw [e'.newCalls] at h
      rw [(hall c h).2.1] at hres; simp at hres
  · rw [hu] at hv; simp at hv

/-- every pod create issued in a step: the cached Job is started, not being deleted, carries no kill
timestamp and no admission error, and the call is for a due request of
`ComputeMissingIndexesForCreation` on the cached refs -/
theorem create_why (s : Sys) (c : Call) (hc : c ∈ (step s .work).calls) (hv : c.verb = "create") :
    ∃ jo, s.jobCache = some jo ∧ c.res = "pods" ∧ isStarted jo.job = true ∧ jo.job.deletionTimestamp = none ∧
      jo.job.killTimestamp = none ∧ jo.job.admissionError = false ∧
      ∃ reqs, computeMissingIndexesForCreation s.d jo.job (jo.job.indexes s.d) = some reqs ∧
        ∃ r ∈ reqs, c.name = taskName jo.name r.index.hash r.retryIndex ∧ reqDueNow s.clock r := by
  obtain ⟨sp, jo, hview, hjo, ho⟩ := step_call_origin s c hc
  rcases ho with ho | ⟨hu, _, _⟩
  · obtain ⟨hst, hdel, hto⟩ := syncOrigin_create sp jo c ho hv
    obtain ⟨hr, hcan, _, reqs, hreqs, r, hrm, hn, hdue⟩ := taskOrigin_create sp jo jo.job c hto hv
    have hnd : jo.job.deletionTimestamp = none := by
      unfold isDeleted at hdel
      cases h : jo.job.deletionTimestamp with
      | none => rfl
      | some x => rw [h] at hdel; cases hdel
    have hk : jo.job.killTimestamp = none ∧ jo.job.admissionError = false := by
      unfold canCreateTask at hcan
      cases hk : jo.job.killTimestamp with
      | some k => simp [hk] at hcan
      | none =>
        cases ha : jo.job.admissionError with
        | true => simp [hk, ha] at hcan
        | false => exact ⟨rfl, rfl⟩
    refine ⟨jo, hjo, hr, hst, hnd, hk.1, hk.2, reqs, ?_, r, hrm, hn, ?_⟩
    · rw [← hview.d]; exact hreqs
    · rw [← hview.clock]; exact hdue
  · rw [hu] at hv; simp at hv

end Furiko.JobCtl
