/- Helper lemmas about `Model/ParallelStatus.lean` (used by Props/C08, C10, C12). Core Lean only. -/
import FurikoModel.Model.ParallelStatus
namespace Furiko.ParallelLemmas
open Furiko

-- ---------------------------------------------------------------- hashesIdx

theorem hashesIdxFrom_not_mem (h : String) : ∀ (l : List PIndex) (pos acc : Nat),
    h ∉ l.map (·.hash) → hashesIdxFrom h l pos acc = acc
  | [], _, _, _ => rfl
  | i :: rest, pos, acc, hn => by
    simp only [List.map_cons, List.mem_cons, not_or] at hn
    have hne : (i.hash == h) = false := by
      simp only [beq_eq_false_iff_ne, ne_eq]
      exact fun e => hn.1 e.symm
    simp only [hashesIdxFrom, hne]
    exact hashesIdxFrom_not_mem h rest (pos + 1) acc hn.2

theorem hashesIdxFrom_last (h : String) (i : PIndex) (l2 : List PIndex) (hi : i.hash = h)
    (hn : h ∉ l2.map (·.hash)) : ∀ (l1 : List PIndex) (pos acc : Nat),
    hashesIdxFrom h (l1 ++ i :: l2) pos acc = pos + l1.length
  | [], pos, acc => by
    simp only [List.nil_append, hashesIdxFrom, hi, beq_self_eq_true, if_true, List.length_nil, Nat.add_zero]
    exact hashesIdxFrom_not_mem h l2 (pos + 1) pos hn
  | a :: l1, pos, acc => by
    simp only [List.cons_append, hashesIdxFrom, List.length_cons]
    rw [hashesIdxFrom_last h i l2 hi hn l1 (pos + 1)]
    omega

/-- hashes of the index list pairwise distinct (DESIGN §6/C08 `NoCollision`, cf. C14) -/
def NoCollision (indexes : List PIndex) : Prop := (indexes.map (·.hash)).Nodup

instance (indexes : List PIndex) : Decidable (NoCollision indexes) := by
  unfold NoCollision; infer_instance

theorem hashesIdx_getElem (indexes : List PIndex) (hnc : NoCollision indexes) (k : Nat) (hk : k < indexes.length) :
    hashesIdx indexes indexes[k].hash = k := by
  have hsplit : indexes = indexes.take k ++ indexes[k] :: indexes.drop (k + 1) := by
    rw [List.getElem_cons_drop hk, List.take_append_drop]
  have hn : indexes[k].hash ∉ (indexes.drop (k + 1)).map (·.hash) := by
    unfold NoCollision at hnc
    rw [hsplit, List.map_append, List.map_cons, List.nodup_append] at hnc
    exact (List.nodup_cons.mp hnc.2.1).1
  unfold hashesIdx
  have := hashesIdxFrom_last indexes[k].hash indexes[k] (indexes.drop (k + 1)) rfl hn (indexes.take k) 0 0
  rw [← hsplit] at this
  rw [this, List.length_take]
  omega

theorem getElem_hash_inj (indexes : List PIndex) (hnc : NoCollision indexes) (k q : Nat)
    (hk : k < indexes.length) (hq : q < indexes.length) (he : indexes[k].hash = indexes[q].hash) : k = q := by
  have h1 := hashesIdx_getElem indexes hnc k hk
  have h2 := hashesIdx_getElem indexes hnc q hq
  rw [he] at h1
  omega

-- ---------------------------------------------------------------- missingFrom

/-- the request `ComputeMissingIndexesForCreation` builds for index `i` -/
def mkReq (d : PIndex) (job : Job) (i : PIndex) : CreationRequest :=
  { index := i, retryIndex := nextRetryIndex d job.status.tasks i.hash,
    earliest := latestFinishTime d job.status.tasks i.hash + job.retryDelay }

theorem mem_missingFrom (d : PIndex) (job : Job) (indexes : List PIndex) :
    ∀ (rest : List PIndex) (p : Nat) (r : CreationRequest),
      r ∈ missingFrom d job indexes rest p ↔
        ∃ k, ∃ hk : k < rest.length,
          foundAt d indexes job.status.tasks (p + k) = false ∧
          nextRetryIndex d job.status.tasks rest[k].hash < job.maxAttempts ∧
          r = mkReq d job rest[k]
  | [], p, r => by simp [missingFrom]
  | i :: rest, p, r => by
    have ih := mem_missingFrom d job indexes rest (p + 1) r
    constructor
    · intro h
      unfold missingFrom at h
      simp only at h
      split at h
      · obtain ⟨k, hk, h1, h2, h3⟩ := ih.mp h
        exact ⟨k + 1, by simp; omega, by rw [← h1]; congr 1; omega, by simpa using h2, by simpa using h3⟩
      · split at h
        · obtain ⟨k, hk, h1, h2, h3⟩ := ih.mp h
          exact ⟨k + 1, by simp; omega, by rw [← h1]; congr 1; omega, by simpa using h2, by simpa using h3⟩
        · rename_i hf hm
          rcases List.mem_cons.mp h with h | h
          · exact ⟨0, by simp, by simpa using hf, by simp only [List.getElem_cons_zero]; omega, by simpa [mkReq] using h⟩
          · obtain ⟨k, hk, h1, h2, h3⟩ := ih.mp h
            exact ⟨k + 1, by simp; omega, by rw [← h1]; congr 1; omega, by simpa using h2, by simpa using h3⟩
    · rintro ⟨k, hk, h1, h2, h3⟩
      unfold missingFrom
      simp only
      cases k with
      | zero =>
        simp only [Nat.add_zero] at h1
        simp only [List.getElem_cons_zero] at h2 h3
        rw [if_neg (by simp [h1]), if_neg (by omega)]
        exact List.mem_cons.mpr (Or.inl (by simpa [mkReq] using h3))
      | succ k =>
        have hk' : k < rest.length := by simpa using hk
        have hin : r ∈ missingFrom d job indexes rest (p + 1) :=
          ih.mpr ⟨k, hk', by rw [← h1]; congr 1; omega, by simpa using h2, by simpa using h3⟩
        split
        · exact hin
        · split
          · exact hin
          · exact List.mem_cons_of_mem _ hin

-- ---------------------------------------------------------------- folds

/-- `max(acc, x+1)` fold of `nextRetryIndex` on plain integers -/
def maxSucc (l : List Int) : Int := l.foldl (fun acc x => if acc < x + 1 then x + 1 else acc) 0

theorem foldl_maxSucc_ge (l : List Int) : ∀ (a : Int),
    a ≤ l.foldl (fun acc x => if acc < x + 1 then x + 1 else acc) a ∧
    (∀ x ∈ l, x + 1 ≤ l.foldl (fun acc x => if acc < x + 1 then x + 1 else acc) a) := by
  induction l with
  | nil => intro a; simp
  | cons y ys ih =>
    intro a
    simp only [List.foldl_cons, List.mem_cons]
    have h := ih (if a < y + 1 then y + 1 else a)
    refine ⟨?_, ?_⟩
    · have := h.1; split at this <;> omega
    · intro x hx
      rcases hx with rfl | hx
      · have := h.1; split at this <;> omega
      · exact h.2 x hx

theorem foldl_maxSucc_attained (l : List Int) : ∀ (a : Int),
    l.foldl (fun acc x => if acc < x + 1 then x + 1 else acc) a = a ∨
    ∃ x ∈ l, l.foldl (fun acc x => if acc < x + 1 then x + 1 else acc) a = x + 1 := by
  induction l with
  | nil => intro a; simp
  | cons y ys ih =>
    intro a
    simp only [List.foldl_cons, List.mem_cons]
    rcases ih (if a < y + 1 then y + 1 else a) with h | ⟨x, hx, h⟩
    · by_cases hc : a < y + 1
      · right; exact ⟨y, Or.inl rfl, by rw [h, if_pos hc]⟩
      · left; rw [h, if_neg hc]
    · right; exact ⟨x, Or.inr hx, h⟩

theorem nextRetryIndex_eq_maxSucc (d : PIndex) (tasks : List TaskRef) (h : String) :
    nextRetryIndex d tasks h = maxSucc ((tasksOfHash d tasks h).map (·.retryIndex)) := by
  unfold nextRetryIndex maxSucc
  rw [List.foldl_map]
  rfl

/-- pigeonhole: a duplicate-free list of naturals below `n` has at most `n` elements -/
theorem nodup_lt_length_le : ∀ (n : Nat) (l : List Nat), l.Nodup → (∀ x ∈ l, x < n) → l.length ≤ n := by
  intro n
  induction n with
  | zero =>
    intro l _ h
    cases l with
    | nil => simp
    | cons a _ => exact absurd (h a (List.mem_cons_self ..)) (Nat.not_lt_zero _)
  | succ n ih =>
    intro l hnd h
    have h1 : (l.erase n).length ≤ n := by
      apply ih _ (hnd.erase n)
      intro x hx
      have := (hnd.mem_erase_iff).mp hx
      have := h x this.2
      omega
    by_cases hm : n ∈ l
    · rw [List.length_erase_of_mem hm] at h1; omega
    · rw [List.erase_of_not_mem hm] at h1; omega

theorem maxSucc_eq_length (l : List Int) (hnd : l.Nodup) (hr : ∀ x ∈ l, 0 ≤ x ∧ x < l.length) :
    maxSucc l = l.length := by
  have hge := foldl_maxSucc_ge l 0
  have hat := foldl_maxSucc_attained l 0
  -- upper bound from attainment
  have hub : maxSucc l ≤ l.length := by
    unfold maxSucc
    rcases hat with h | ⟨x, hx, h⟩
    · rw [h]; omega
    · rw [h]; have := (hr x hx).2; omega
  -- lower bound from pigeonhole on the naturals `x.toNat`
  have hlb : (l.length : Int) ≤ maxSucc l := by
    have hnd' : (l.map Int.toNat).Nodup := by
      unfold List.Nodup at *
      rw [List.pairwise_map]
      refine List.Pairwise.imp_of_mem ?_ hnd
      intro a b ha hb hab hc
      have := (hr a ha).1; have := (hr b hb).1
      omega
    have hlt : ∀ x ∈ l.map Int.toNat, x < (maxSucc l).toNat := by
      intro x hx
      obtain ⟨y, hy, rfl⟩ := List.mem_map.mp hx
      have := hge.2 y hy
      have := (hr y hy).1
      unfold maxSucc
      omega
    have := nodup_lt_length_le _ _ hnd' hlt
    rw [List.length_map] at this
    have h0 : 0 ≤ maxSucc l := hge.1
    omega
  omega

theorem latestStep_none (a : Int) (t : TaskRef) (h : t.finishTimestamp = none) : latestStep a t = a := by
  unfold latestStep; rw [h]

theorem latestStep_some (a : Int) (t : TaskRef) (f : Int) (h : t.finishTimestamp = some f) :
    latestStep a t = if a < f then f else a := by
  unfold latestStep; rw [h]

/-- the `latestFinishTimeByIndex` fold dominates its start value and every finish time -/
theorem foldl_latest_ge (l : List TaskRef) : ∀ (a : Int),
    a ≤ l.foldl latestStep a ∧
    (∀ t ∈ l, ∀ f, t.finishTimestamp = some f →
      f ≤ l.foldl latestStep a) := by
  induction l with
  | nil => intro a; simp
  | cons y ys ih =>
    intro a
    simp only [List.foldl_cons, List.mem_cons]
    cases hy : y.finishTimestamp with
    | none =>
      rw [latestStep_none a y hy]
      have h := ih a
      refine ⟨h.1, ?_⟩
      intro t ht f hf
      rcases ht with rfl | ht
      · rw [hy] at hf; cases hf
      · exact h.2 t ht f hf
    | some g =>
      rw [latestStep_some a y g hy]
      by_cases hc : a < g
      · rw [if_pos hc]
        have h := ih g
        refine ⟨by have := h.1; omega, ?_⟩
        intro t ht f hf
        rcases ht with rfl | ht
        · rw [hy] at hf; cases hf; exact h.1
        · exact h.2 t ht f hf
      · rw [if_neg hc]
        have h := ih a
        refine ⟨h.1, ?_⟩
        intro t ht f hf
        rcases ht with rfl | ht
        · rw [hy] at hf; cases hf; exact Int.le_trans (by omega) h.1
        · exact h.2 t ht f hf

theorem foldl_latest_none (l : List TaskRef) (hn : ∀ t ∈ l, t.finishTimestamp = none) : ∀ (a : Int),
    l.foldl latestStep a = a := by
  induction l with
  | nil => intro a; rfl
  | cons y ys ih =>
    intro a
    simp only [List.foldl_cons]
    rw [latestStep_none a y (hn y (List.mem_cons_self ..))]
    exact ih (fun t ht => hn t (List.mem_cons_of_mem _ ht)) a

end Furiko.ParallelLemmas
