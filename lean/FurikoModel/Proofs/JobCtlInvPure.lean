/-
Pure-layer facts used by the history invariants of the job controller: what every transformation
that `Reconciler.sync` applies to the Job value keeps (`JobLe`), and list lemmas about the pod store
(`findPod` / `setPod` / `delPod`).  Core Lean only.
-/
import FurikoModel.Proofs.JobCtlSys
import FurikoModel.Proofs.ConditionLemmas
import FurikoModel.Props.C11

set_option linter.unusedSimpArgs false
set_option linter.unusedVariables false

namespace Furiko.JobCtl
open Furiko Furiko.WQ Furiko.StatusLemmas Furiko.ConditionLemmas

/-! ### the pod store -/

def podNames (l : List PodObj) : List String := l.map (·.pod.name)

/-- names carried by pod watch events -/
def podEvNames (l : List PEv) : List String :=
  l.map (fun e => match e with
    | .upsert p => p.pod.name
    | .delete p => p.pod.name)

theorem findPod_some {l : List PodObj} {n : String} {p : PodObj} (h : findPod l n = some p) :
    p ∈ l ∧ p.pod.name = n := by
  unfold findPod at h
  have := List.find?_some h
  exact ⟨List.mem_of_find?_eq_some h, by simpa using this⟩

theorem findPod_none {l : List PodObj} {n : String} (h : findPod l n = none) :
    ∀ p ∈ l, p.pod.name ≠ n := by
  unfold findPod at h
  intro p hp
  have := List.find?_eq_none.mp h p hp
  simpa using this

theorem findPod_isSome_iff (l : List PodObj) (n : String) :
    (findPod l n).isSome = true ↔ n ∈ podNames l := by
  unfold findPod podNames
  rw [List.find?_isSome]
  simp only [decide_eq_true_eq, List.mem_map]

theorem findPod_eq_none_iff (l : List PodObj) (n : String) :
    findPod l n = none ↔ n ∉ podNames l := by
  rw [← findPod_isSome_iff]
  cases findPod l n <;> simp

theorem findPod_of_mem_nodup {l : List PodObj} (hnd : (podNames l).Nodup) {p : PodObj} (hp : p ∈ l) :
    findPod l p.pod.name = some p := by
  induction l with
  | nil => cases hp
  | cons x rest ih =>
    unfold podNames at hnd
    simp only [List.map_cons, List.nodup_cons] at hnd
    unfold findPod
    rw [List.find?_cons]
    by_cases hx : x.pod.name = p.pod.name
    · simp only [hx, decide_true]
      rcases List.mem_cons.mp hp with rfl | hr
      · rfl
      · exact absurd (List.mem_map.mpr ⟨p, hr, hx.symm⟩) hnd.1
    · simp only [hx, decide_false]
      rcases List.mem_cons.mp hp with rfl | hr
      · exact absurd rfl hx
      · exact ih hnd.2 hr

theorem mem_setPod {l : List PodObj} {p q : PodObj} (h : q ∈ setPod l p) : q = p ∨ q ∈ l := by
  unfold setPod at h
  split at h
  · obtain ⟨x, hx, rfl⟩ := List.mem_map.mp h
    split
    · exact Or.inl rfl
    · exact Or.inr hx
  · rcases List.mem_append.mp h with h | h
    · exact Or.inr h
    · exact Or.inl (by simpa using h)

theorem podNames_setPod_of_mem {l : List PodObj} {p : PodObj} (h : p.pod.name ∈ podNames l) :
    podNames (setPod l p) = podNames l := by
  unfold setPod
  have : l.any (·.pod.name = p.pod.name) = true := by
    obtain ⟨x, hx, hn⟩ := List.mem_map.mp h
    exact List.any_eq_true.mpr ⟨x, hx, by simpa using hn⟩
  rw [if_pos this]
  unfold podNames
  rw [List.map_map]
  apply List.map_congr_left
  intro x _
  simp only [Function.comp]
  split
  · rename_i hx; exact hx.symm
  · rfl

theorem podNames_setPod_of_not_mem {l : List PodObj} {p : PodObj} (h : p.pod.name ∉ podNames l) :
    podNames (setPod l p) = podNames l ++ [p.pod.name] := by
  unfold setPod
  have : ¬ l.any (·.pod.name = p.pod.name) = true := by
    intro ha
    obtain ⟨x, hx, hn⟩ := List.any_eq_true.mp ha
    exact h (List.mem_map.mpr ⟨x, hx, by simpa using hn⟩)
  rw [if_neg this]
  simp [podNames]

theorem nodup_setPod {l : List PodObj} (p : PodObj) (hnd : (podNames l).Nodup) :
    (podNames (setPod l p)).Nodup := by
  by_cases h : p.pod.name ∈ podNames l
  · rw [podNames_setPod_of_mem h]; exact hnd
  · rw [podNames_setPod_of_not_mem h]
    rw [List.nodup_append]
    refine ⟨hnd, by simp, ?_⟩
    intro a ha b hb
    simp only [List.mem_singleton] at hb
    subst hb
    intro he; subst he; exact h ha

theorem mem_delPod {l : List PodObj} {n : String} {q : PodObj} (h : q ∈ delPod l n) :
    q ∈ l ∧ q.pod.name ≠ n := by
  unfold delPod at h
  have := List.mem_filter.mp h
  exact ⟨this.1, by simpa using this.2⟩

theorem nodup_delPod {l : List PodObj} (n : String) (hnd : (podNames l).Nodup) :
    (podNames (delPod l n)).Nodup := by
  unfold podNames delPod at *
  exact (List.filter_sublist.map _).nodup hnd

theorem nodup_append_pod {l : List PodObj} {p : PodObj} (hnd : (podNames l).Nodup)
    (h : findPod l p.pod.name = none) : (podNames (l ++ [p])).Nodup := by
  have hn := (findPod_eq_none_iff l p.pod.name).mp h
  unfold podNames at *
  rw [List.map_append, List.nodup_append]
  refine ⟨hnd, by simp, ?_⟩
  intro a ha b hb
  simp only [List.map_cons, List.map_nil, List.mem_singleton] at hb
  subst hb
  intro he; subst he; exact hn ha

/-! ### tasks built from pods -/

/-- `GetTaskRef().Name` of a task is its `GetName()` (true for every `PodTask`) -/
def TaskOK (t : Task) : Prop := t.ref.name = t.name

/-- the finish time `GetTaskRef` records is set exactly when `GetFinishTimestamp` is: the
observation time only replaces a fallback value -/
theorem _root_.Furiko.Pod.recordedFinish_isSome (now : Time) (p : Pod) (fin : Option Time) :
    (p.recordedFinish now fin).isSome = fin.isSome := by
  unfold Pod.recordedFinish
  split
  · rename_i h
    simp only [Bool.and_eq_true] at h
    rw [h.1]; rfl
  · rfl

theorem _root_.Furiko.Pod.recordedFinish_none (now : Time) (p : Pod) : p.recordedFinish now none = none := by
  simp [Pod.recordedFinish]

/-- a Pod that tells when it finished is recorded with that time: the clock is irrelevant -/
theorem _root_.Furiko.Pod.recordedFinish_of_reported {now : Time} {p : Pod} (fin : Option Time)
    (h : p.hasFinishTimestamp = true) : p.recordedFinish now fin = fin := by
  simp [Pod.recordedFinish, h]

/-- the recorded finish time is what the Pod reports, or the observation time -/
theorem _root_.Furiko.Pod.recordedFinish_cases (now : Time) (p : Pod) (fin : Option Time) :
    p.recordedFinish now fin = fin ∨
      (p.recordedFinish now fin = some now ∧ fin.isSome = true ∧ p.hasFinishTimestamp = false) := by
  unfold Pod.recordedFinish
  split
  · rename_i h
    simp only [Bool.and_eq_true, Bool.not_eq_true'] at h
    exact Or.inr ⟨rfl, h.1, h.2⟩
  · exact Or.inl rfl

theorem _root_.Furiko.Pod.recordedFinish_some {now : Time} {p : Pod} {fin : Option Time} {f : Time}
    (h : p.recordedFinish now fin = some f) : fin = some f ∨ f = now := by
  unfold Pod.recordedFinish at h
  split at h
  · exact Or.inr (Option.some.inj h).symm
  · exact Or.inl h

theorem podTask_ok {now : Time} {p : PodObj} {t : Task} (h : podTask now p = some t) : TaskOK t ∧ t.name = p.pod.name := by
  unfold podTask Pod.task at h
  cases hr : p.pod.taskRef now with
  | none => simp [hr] at h
  | some r =>
    simp only [hr, Option.some.injEq] at h
    subst h
    unfold Pod.taskRef at hr
    cases hf : p.pod.finishTimestamp with
    | none => simp [hf] at hr
    | some fin =>
      simp only [hf, Option.some.injEq] at hr
      subst hr
      exact ⟨rfl, rfl⟩

/-! ### what `sync` keeps of the Job value -/

def refNames (j : Job) : List String := j.status.tasks.map (·.name)

/-- `b` can be what `sync` turns `a` into: the spec is untouched except that the admission-error
annotation may be added, the start time is kept, and no task name is dropped from the status. -/
structure JobLe (a b : Job) : Prop where
  template : b.template = a.template
  kill : b.killTimestamp = a.killTimestamp
  ttl : b.ttlSecondsAfterFinished = a.ttlSecondsAfterFinished
  startPolicy : b.startPolicy = a.startPolicy
  del : b.deletionTimestamp = a.deletionTimestamp
  adm : a.admissionError = true → b.admissionError = true
  startTime : b.status.startTime = a.status.startTime
  names : ∀ n ∈ refNames a, n ∈ refNames b

theorem JobLe.refl (a : Job) : JobLe a a := ⟨rfl, rfl, rfl, rfl, rfl, id, rfl, fun _ h => h⟩

theorem JobLe.trans {a b c : Job} (h1 : JobLe a b) (h2 : JobLe b c) : JobLe a c :=
  ⟨h2.template.trans h1.template, h2.kill.trans h1.kill, h2.ttl.trans h1.ttl,
   h2.startPolicy.trans h1.startPolicy, h2.del.trans h1.del, fun h => h2.adm (h1.adm h),
   h2.startTime.trans h1.startTime, fun n h => h2.names n (h1.names n h)⟩

/-- every name of an existing ref is a name of the refreshed list -/
theorem generateTaskRefs_names (now : Time) (existing : List TaskRef) (tasks : List Task)
    (htask : ∀ t ∈ tasks, TaskOK t) :
    ∀ n ∈ existing.map (·.name), n ∈ (generateTaskRefs now existing tasks).map (·.name) := by
  intro n hn
  obtain ⟨ex, hex, rfl⟩ := List.mem_map.mp hn
  have hm := Furiko.Props.C11.generateTaskRefs_members now existing tasks
  by_cases hin : ex.name ∈ tasks.map (·.name)
  · obtain ⟨t, ht, htn⟩ := List.mem_map.mp hin
    refine List.mem_map.mpr ⟨getTaskRef (lookupRef existing t.name) t, hm.2.1 t ht, ?_⟩
    rw [getTaskRef_name, htask t ht, htn]
  · refine List.mem_map.mpr ⟨lostRef now ex, hm.1 ex hex hin, ?_⟩
    exact (Furiko.Props.C11.lostRef_retains now ex).1

theorem updateJobTaskRefs_le (now : Time) (rj : Job) (tasks : List Task) (htask : ∀ t ∈ tasks, TaskOK t) :
    JobLe rj (updateJobTaskRefs now rj tasks) :=
  ⟨rfl, rfl, rfl, rfl, rfl, id, rfl, generateTaskRefs_names now rj.status.tasks tasks htask⟩

theorem updateJobStatusFromTaskRefs_le {now : Time} {d : PIndex} {rj nj : Job}
    (h : updateJobStatusFromTaskRefs now d rj = some nj) : JobLe rj nj := by
  unfold updateJobStatusFromTaskRefs updateJobStatusFromTaskRefsWith at h
  cases ht : rj.template with
  | none => simp [ht] at h
  | some t =>
    simp only [ht, Option.some.injEq] at h
    subst h
    refine ⟨ht.symm, rfl, rfl, rfl, rfl, id, ?_, ?_⟩
    · simp [statusBeforePhase]
    · intro n hn; simpa [refNames, statusBeforePhase] using hn

theorem markDeleted_le (rj : Job) (names : List String) (f : TaskRef → TaskRef)
    (hf : ∀ r, (f r).name = r.name) : JobLe rj (markDeleted rj names f) := by
  refine ⟨rfl, rfl, rfl, rfl, rfl, id, rfl, ?_⟩
  intro n hn
  unfold refNames markDeleted at *
  simp only [List.map_map]
  obtain ⟨r, hr, rfl⟩ := List.mem_map.mp hn
  refine List.mem_map.mpr ⟨r, hr, ?_⟩
  simp only [Function.comp]
  split
  · exact hf r
  · rfl

theorem updateTaskRefDeletedStatusIfNotSet_le (rj : Job) (name : String) (st : TaskStatus) :
    JobLe rj (updateTaskRefDeletedStatusIfNotSet rj name st) := by
  refine ⟨rfl, rfl, rfl, rfl, rfl, id, rfl, ?_⟩
  intro n hn
  unfold refNames updateTaskRefDeletedStatusIfNotSet at *
  simp only [List.map_map]
  obtain ⟨r, hr, rfl⟩ := List.mem_map.mp hn
  refine List.mem_map.mpr ⟨r, hr, ?_⟩
  simp only [Function.comp]
  split <;> rfl

theorem foldl_deletedStatus_le (st : TaskStatus) (tasks : List Task) : ∀ (rj : Job),
    JobLe rj (tasks.foldl (fun acc t => updateTaskRefDeletedStatusIfNotSet acc t.name st) rj) := by
  induction tasks with
  | nil => intro rj; exact JobLe.refl rj
  | cons t rest ih =>
    intro rj
    exact (updateTaskRefDeletedStatusIfNotSet_le rj t.name st).trans (ih _)

theorem adm_le (rj : Job) : JobLe rj { rj with admissionError := true } :=
  ⟨rfl, rfl, rfl, rfl, rfl, fun _ => rfl, rfl, fun _ h => h⟩

end Furiko.JobCtl
