/-
The invariant behind the stability theorems (`Inv3`), over every state reachable in histories
* without foreign pods, without user kill / delete,
* inside the envelope `E-NoStaleCopyOnCreate`: a controller pass never has a creation request for a
  task name that is not on the server but is still remembered — listed in the authoritative status, or
  present in the pod cache or in an undelivered pod watch event,
for a Job created without kill timestamp / admission error, with a template, not finished (`WF3`), and
index hashes pairwise distinct and free of `-` (`WF2`).  Core Lean only.
-/
import FurikoModel.Proofs.JobCtlInvStabPass

set_option linter.unusedSimpArgs false
set_option linter.unusedVariables false

namespace Furiko.JobCtl
open Furiko Furiko.WQ

/-- the name is unknown to the authoritative status and to the pod informer -/
def FreshName (s : Sys) (n : String) : Prop :=
  (∀ j, s.job = some j → n ∉ refNames j.job) ∧ n ∉ podNames s.podCache ∧ n ∉ podEvNames s.podEvs

/-- no creation request computed from the cached Job names a task that is absent from the server but
still remembered -/
def NoStale (s : Sys) : Prop :=
  ∀ jo idx retry, s.jobCache = some jo → CreateReq s.d jo idx retry →
    taskName jo.name idx.hash retry ∉ podNames s.pods → FreshName s (taskName jo.name idx.hash retry)

/-- `E-NoStaleCopyOnCreate` (guard of `work` steps): evaluated when a pass starts that actually pops a key
(the queue is not empty) while the Job object exists — exactly what `checkNoStaleCopy` of
`harness/eng/jobctl.go` evaluates -/
def noStaleCopyOnCreate (s : Sys) (a : Action) : Prop :=
  a = .work → s.job.isSome = true → ((s.q.advance s.clock).get).isSome = true → NoStale s

/-- `E-NoUnrecordedWhenFinished` (guard of `work` steps; needed since the repair of F23): when a pass
starts on a cached Job that is recorded `Finished`, the pod cache holds no UNRECORDED task of the Job
(a pod it created while the status write recording it failed).  Since the repair a complete summary
adopts such a task, so a Job that was written `Finished` while an unrecorded task of it was still
invisible (status-write fault AND pod-informer lag AND completion through other tasks) is un-finished
again when the pod reaches the cache; before the repair the task was never stopped instead. -/
def noUnrecordedWhenFinished (s : Sys) (a : Action) : Prop :=
  a = .work → ∀ jo, s.jobCache = some jo → jo.job.status.condition.finished.isSome = true → NoUnrec s jo

/-- the filter of the invariants behind the stability theorems (`Inv3`, one live task per index) -/
def stabEnv (s : Sys) (a : Action) : Prop := noForeign s a ∧ noUserEdit s a ∧ noStaleCopyOnCreate s a

/-- the filter of the stability theorems proper ("Finished stays Finished, with the same result and
finish time"): `stabEnv` plus `E-NoUnrecordedWhenFinished` -/
def stabEnvF (s : Sys) (a : Action) : Prop := stabEnv s a ∧ noUnrecordedWhenFinished s a

structure WF3 (j0 : JobObj) : Prop where
  noKill : j0.job.killTimestamp = none
  noAdm : j0.job.admissionError = false
  tmpl : j0.job.template.isSome = true
  notFinished : j0.job.status.condition.finished = none

def allVers (s : Sys) : List JobObj := s.job.toList ++ seenVers s

structure VerOK3 (d : PIndex) (v : JobObj) : Prop where
  rs : ∀ r ∈ v.job.status.tasks, RS r
  noKill : v.job.killTimestamp = none
  noAdm : v.job.admissionError = false
  coh : Coh d v.job

structure Inv3 (s : Sys) : Prop where
  ver : ∀ v ∈ allVers s, VerOK3 s.d v
  fin : ∀ v ∈ allVers s, ∀ r ∈ v.job.status.tasks, r.finishTimestamp.isSome = true → PodFinIn s.pods r.name
  lin : ∀ c, (c ∈ s.podCache ∨ PEv.upsert c ∈ s.podEvs) → c.pod.isFinished = true → PodFinIn s.pods c.pod.name
  le : ∀ v ∈ seenVers s, ∀ j, s.job = some j → ∀ n ∈ refNames v.job, n ∈ refNames j.job

/-- … as long as the Job object exists -/
def Inv3G (s : Sys) : Prop := s.job.isSome = true → Inv3 s

/-! ### pods -/

theorem PodFinIn.of_subset {P P' : List PodObj} {n : String} (h : PodFinIn P n) (hsub : ∀ q ∈ P', q ∈ P) :
    PodFinIn P' n := fun q hq hn => h q (hsub q hq) hn

theorem mem_setPod_self {l : List PodObj} {p : PodObj} (h : p.pod.name ∈ podNames l) : p ∈ setPod l p := by
  unfold setPod
  obtain ⟨x, hx, hn⟩ := List.mem_map.mp h
  have : l.any (·.pod.name = p.pod.name) = true := List.any_eq_true.mpr ⟨x, hx, by simpa using hn⟩
  rw [if_pos this]
  exact List.mem_map.mpr ⟨x, hx, by simp [hn]⟩

/-- replacing `old` by `p` (same name; finishedness only grows) -/
theorem PodFinIn.setPod {P : List PodObj} {n : String} {old p : PodObj} (h : PodFinIn P n) (hold : old ∈ P)
    (hn : old.pod.name = p.pod.name) (hmono : old.pod.isFinished = true → p.pod.isFinished = true) :
    PodFinIn (setPod P p) n := by
  intro q hq hqn
  rcases mem_setPod hq with rfl | hq'
  · exact hmono (h old hold (hn.trans hqn))
  · exact h q hq' hqn

/-! ### coherence is about the status and a few spec fields -/

theorem Coh.congr {d : PIndex} {a b : Job} (h : Coh d a) (ha : a.admissionError = false)
    (hadm : b.admissionError = a.admissionError) (hst : b.status = a.status) (hkill : b.killTimestamp = a.killTimestamp)
    (htmpl : b.template = a.template) (hsp : b.startPolicy = a.startPolicy)
    (hdel : b.deletionTimestamp = a.deletionTimestamp) : Coh d b := by
  intro hd f hf
  rw [hdel] at hd
  rw [hst] at hf
  obtain ⟨h1, t, h2⟩ := h hd f hf
  refine ⟨by rw [hst]; exact h1, t, ?_⟩
  rw [getCondition_congr_fields t d a b ha hadm (by rw [hst]) (by rw [hst]) hkill htmpl hsp]
  exact h2

/-! ### the invariant along steps that leave job and pods alone -/

theorem allVers_subset {s s' : Sys} (hjob : s'.job = s.job) (hsub : ∀ v ∈ seenVers s', v ∈ seenVers s) :
    ∀ v ∈ allVers s', v ∈ allVers s := by
  intro v hv
  unfold allVers at hv ⊢
  rw [hjob] at hv
  rcases List.mem_append.mp hv with h | h
  · exact List.mem_append_left _ h
  · exact List.mem_append_right _ (hsub v h)

theorem Inv3.of_same {s s' : Sys} (h : Inv3 s) (hjob : s'.job = s.job) (hd : s'.d = s.d) (hpods : s'.pods = s.pods)
    (hcache : ∀ c ∈ s'.podCache, c ∈ s.podCache ∨ PEv.upsert c ∈ s.podEvs)
    (hevs : ∀ c, PEv.upsert c ∈ s'.podEvs → PEv.upsert c ∈ s.podEvs)
    (hsub : ∀ v ∈ seenVers s', v ∈ seenVers s) : Inv3 s' := by
  have hall := allVers_subset hjob hsub
  refine ⟨?_, ?_, ?_, ?_⟩
  · intro v hv; rw [hd]; exact h.ver v (hall v hv)
  · intro v hv r hr hf; rw [hpods]; exact h.fin v (hall v hv) r hr hf
  · intro c hc hf
    rw [hpods]
    rcases hc with hc | hc
    · exact h.lin c (hcache c hc) hf
    · exact h.lin c (Or.inr (hevs c hc)) hf
  · intro v hv j hj; rw [hjob] at hj; exact h.le v (hsub v hv) j hj

theorem Inv3.frame {s s' : Sys} (h : Inv3 s) (hf : Frame s s') : Inv3 s' :=
  h.of_same hf.job hf.d hf.pods (fun c hc => Or.inl (hf.podCache ▸ hc)) (fun c hc => hf.podEvs ▸ hc)
    (by rw [seenVers_congr hf.jobCache hf.jobEvs]; exact fun _ h => h)

/-! ### pod effects -/

/-- a change of the server's pods that only shrinks them or replaces a pod by a version that is
finished if the old one was; new upsert events carry pods that are on the server -/
theorem Inv3.podChange {s s' : Sys} (h : Inv3 s) (hst : Static s s') (hjob : s'.job = s.job)
    (hjevs : s'.jobEvs = s.jobEvs)
    (hfin : ∀ n, PodFinIn s.pods n → PodFinIn s'.pods n)
    (hevs : ∀ c, PEv.upsert c ∈ s'.podEvs → PEv.upsert c ∈ s.podEvs ∨
      (c.pod.isFinished = true → PodFinIn s'.pods c.pod.name)) : Inv3 s' := by
  have hseen := seenVers_congr hst.jobCache hjevs
  have hall : allVers s' = allVers s := by unfold allVers; rw [hjob, hseen]
  refine ⟨?_, ?_, ?_, ?_⟩
  · intro v hv; rw [hall] at hv; rw [hst.d]; exact h.ver v hv
  · intro v hv r hr hf; rw [hall] at hv; exact hfin _ (h.fin v hv r hr hf)
  · intro c hc hf
    rcases hc with hc | hc
    · rw [hst.podCache] at hc; exact hfin _ (h.lin c (Or.inl hc) hf)
    · rcases hevs c hc with h' | h'
      · exact hfin _ (h.lin c (Or.inr h') hf)
      · exact h' hf
  · intro v hv j hj; rw [hseen] at hv; rw [hjob] at hj; exact h.le v hv j hj

theorem Inv3.podSet {s s' : Sys} {old p : PodObj} (h : Inv3 s) (hs : PodSet s s' old p)
    (hnd' : (podNames s'.pods).Nodup) (hmono : old.pod.isFinished = true → p.pod.isFinished = true) : Inv3 s' := by
  have hold := findPod_some hs.found
  refine h.podChange hs.static hs.job hs.jobEvs ?_ ?_
  · intro n hn
    rw [hs.pods]
    exact hn.setPod hold.1 hold.2 hmono
  · intro c hc
    rw [hs.podEvs] at hc
    rcases List.mem_append.mp hc with hc | hc
    · exact Or.inl hc
    · simp only [List.mem_singleton, PEv.upsert.injEq] at hc
      subst hc
      right
      intro hf
      have hmem : c ∈ s'.pods := by
        rw [hs.pods]
        exact mem_setPod_self (List.mem_map.mpr ⟨old, hold.1, hold.2⟩)
      exact podFinIn_of_mem hnd' hmem hf

theorem Inv3.podDel {s s' : Sys} {p : PodObj} (h : Inv3 s) (hd : PodDel s s' p) : Inv3 s' := by
  refine h.podChange hd.static hd.job hd.jobEvs ?_ ?_
  · intro n hn
    rw [hd.pods]
    exact hn.of_subset (fun q hq => (mem_delPod hq).1)
  · intro c hc
    rw [hd.podEvs] at hc
    rcases List.mem_append.mp hc with hc | hc
    · exact Or.inl hc
    · simp at hc

/-- a new, unfinished pod under a fresh name -/
theorem Inv3.podAdd {s s' : Sys} {p : PodObj} (h : Inv3 s) (ha : PodAdd s s' p) (hjs : s.job.isSome = true)
    (hunf : p.pod.isFinished = false) (hfresh : FreshName s p.pod.name) : Inv3 s' := by
  have hseen := seenVers_congr ha.static.jobCache ha.jobEvs
  have hall : allVers s' = allVers s := by unfold allVers; rw [ha.job, hseen]
  obtain ⟨j, hj⟩ := Option.isSome_iff_exists.mp hjs
  -- no version lists the fresh name
  have hnot : ∀ v ∈ allVers s, p.pod.name ∉ refNames v.job := by
    intro v hv hmem
    unfold allVers at hv
    rcases List.mem_append.mp hv with hv | hv
    · rw [hj] at hv
      simp only [Option.toList_some, List.mem_singleton] at hv
      subst hv
      exact hfresh.1 v hj hmem
    · exact hfresh.1 j hj (h.le v hv j hj _ hmem)
  have hstep : ∀ n, n ≠ p.pod.name → PodFinIn s.pods n → PodFinIn s'.pods n := by
    intro n hne hn q hq hqn
    rw [ha.pods] at hq
    rcases List.mem_append.mp hq with hq | hq
    · exact hn q hq hqn
    · simp only [List.mem_singleton] at hq; subst hq; exact absurd hqn.symm hne
  refine ⟨?_, ?_, ?_, ?_⟩
  · intro v hv; rw [hall] at hv; rw [ha.static.d]; exact h.ver v hv
  · intro v hv r hr hf
    rw [hall] at hv
    refine hstep _ ?_ (h.fin v hv r hr hf)
    intro he
    exact hnot v hv (he ▸ List.mem_map_of_mem hr)
  · intro c hc hf
    rcases hc with hc | hc
    · rw [ha.static.podCache] at hc
      refine hstep _ ?_ (h.lin c (Or.inl hc) hf)
      intro he
      exact hfresh.2.1 (he ▸ List.mem_map_of_mem hc)
    · rw [ha.podEvs] at hc
      rcases List.mem_append.mp hc with hc | hc
      · refine hstep _ ?_ (h.lin c (Or.inr hc) hf)
        intro he
        apply hfresh.2.2
        unfold podEvNames
        exact List.mem_map.mpr ⟨PEv.upsert c, hc, he⟩
      · simp only [List.mem_singleton, PEv.upsert.injEq] at hc
        subst hc
        rw [hunf] at hf; cases hf
  · intro v hv j' hj'; rw [hseen] at hv; rw [ha.job] at hj'; exact h.le v hv j' hj'

/-! ### job effects -/

theorem Inv3.jobWrite {s s' : Sys} {cur nj : JobObj} (h : Inv3 s) (hw : JobWrite s s' nj) (hcur : s.job = some cur)
    (hver : VerOK3 s.d nj)
    (hfin : ∀ r ∈ nj.job.status.tasks, r.finishTimestamp.isSome = true → PodFinIn s.pods r.name)
    (hnames : ∀ n ∈ refNames cur.job, n ∈ refNames nj.job) : Inv3 s' := by
  have hseen : seenVers s' = seenVers s ++ [nj] := by
    unfold seenVers
    rw [hw.static.jobCache, hw.jobEvs, upserts_append, List.append_assoc]
    rfl
  have hall : ∀ v ∈ allVers s', v = nj ∨ v ∈ seenVers s := by
    intro v hv
    unfold allVers at hv
    rw [hw.job, hseen] at hv
    simp only [Option.toList_some, List.singleton_append, List.mem_cons, List.mem_append, List.mem_singleton,
      List.not_mem_nil, or_false] at hv
    rcases hv with h1 | h1 | h1
    · exact Or.inl h1
    · exact Or.inr h1
    · exact Or.inl h1
  have hold : ∀ v ∈ seenVers s, v ∈ allVers s := fun v hv => List.mem_append_right _ hv
  refine ⟨?_, ?_, ?_, ?_⟩
  · intro v hv
    rw [hw.static.d]
    rcases hall v hv with rfl | h1
    · exact hver
    · exact h.ver v (hold v h1)
  · intro v hv r hr hf
    rw [hw.pods]
    rcases hall v hv with rfl | h1
    · exact hfin r hr hf
    · exact h.fin v (hold v h1) r hr hf
  · intro c hc hf
    rw [hw.pods]
    rw [hw.static.podCache, hw.podEvs] at hc
    exact h.lin c hc hf
  · intro v hv j hj
    rw [hw.job] at hj; cases hj
    rw [hseen] at hv
    rcases List.mem_append.mp hv with h1 | h1
    · intro n hn; exact hnames n (h.le v h1 cur hcur n hn)
    · simp only [List.mem_singleton] at h1; subst h1; exact fun n hn => hn

end Furiko.JobCtl
