/-
Liveness of the job controller, kill part 3: the handlers of a pass on a Job whose kill timestamp has
passed, with no fault pending and no listed task being deleted yet: `handlePendingTasks` gracefully
deletes some unfinished tasks, `handleKillJob` all of them (`handleKill_sweep`),
`handleForceDeleteKillingTasks` none; together (`syncJobTasks_kill`): every unfinished listed task's pod
gets the deletion timestamp, nothing else changes on the server, the Job value handed on is the
recomputed status of a Job with the same spec and the same ref names.  Core Lean only.
-/
import FurikoModel.Proofs.JobCtlLiveK2

set_option linter.unusedSimpArgs false
set_option linter.unusedVariables false

namespace Furiko.JobCtl.Live
open Furiko Furiko.JobCtl Furiko.WQ Furiko.StatusLemmas Furiko.JobCtlPlan

/-- pods marked, timers of `key` armed -/
structure MarkedT (key : String) (s s' : Sys) (N : List String) : Prop where
  pods : s'.pods = s.pods.map (markDts (nowT s) N)
  clock : s'.clock = s.clock
  d : s'.d = s.d
  cfg : s'.cfg = s.cfg
  job : s'.job = s.job
  jobEvs : s'.jobEvs = s.jobEvs
  jobCache : s'.jobCache = s.jobCache
  podCache : s'.podCache = s.podCache
  queue : s'.q.queue = s.q.queue
  dirty : s'.q.dirty = s.q.dirty
  processing : s'.q.processing = s.q.processing
  delayedNew : ∀ e ∈ s'.q.delayed, e ∈ s.q.delayed ∨ e.1 = key
  delayedMono : ∀ e ∈ s.q.delayed, ∃ e' ∈ s'.q.delayed, e'.1 = e.1 ∧ e'.2 ≤ e.2
  psync : PSync s → PSync s'
  nofault : NoFault s → NoFault s'
  evs : ∀ e ∈ s'.podEvs, e ∈ s.podEvs ∨
    ∃ p0 ∈ s.pods, ∃ p, e = PEv.upsert p ∧ p.ownerUid = p0.ownerUid ∧ p.ownerName = p0.ownerName

theorem MarkedT.refl (key : String) (s : Sys) : MarkedT key s s [] :=
  ⟨by
    conv => lhs; rw [← List.map_id s.pods]
    apply List.map_congr_left
    intro p _
    exact (markDts_nil _ p).symm, rfl, rfl, rfl, rfl, rfl, rfl, rfl, rfl, rfl, rfl, fun e h => Or.inl h,
    fun e h => ⟨e, h, rfl, Int.le_refl _⟩, id, id, fun e he => Or.inl he⟩

theorem MarkedT.trans {key : String} {a b c : Sys} {A B : List String} (h1 : MarkedT key a b A) (h2 : MarkedT key b c B) :
    MarkedT key a c (A ++ B) := by
  have hn : nowT b = nowT a := by unfold nowT nowSec; rw [h1.clock]
  refine ⟨?_, h2.clock.trans h1.clock, h2.d.trans h1.d, h2.cfg.trans h1.cfg, h2.job.trans h1.job,
    h2.jobEvs.trans h1.jobEvs, h2.jobCache.trans h1.jobCache, h2.podCache.trans h1.podCache,
    h2.queue.trans h1.queue, h2.dirty.trans h1.dirty, h2.processing.trans h1.processing, ?_, ?_,
    fun h => h2.psync (h1.psync h), fun h => h2.nofault (h1.nofault h), ?_⟩
  rotate_right
  · intro e he
    rcases h2.evs e he with h | ⟨p0, hp0, p, e1, e2, e3⟩
    · exact h1.evs e h
    · rw [h1.pods] at hp0
      obtain ⟨x, hx, rfl⟩ := List.mem_map.mp hp0
      obtain ⟨o1, o2⟩ := markDts_owner (nowT a) A x
      exact Or.inr ⟨x, hx, p, e1, e2.trans o1, e3.trans o2⟩
  · rw [h2.pods, h1.pods, hn, List.map_map]
    apply List.map_congr_left
    intro p _
    exact markDts_markDts _ A B p
  · intro e he
    rcases h2.delayedNew e he with h | h
    · exact h1.delayedNew e h
    · exact Or.inr h
  · intro e he
    obtain ⟨e', he', hk, hd⟩ := h1.delayedMono e he
    obtain ⟨e'', he'', hk', hd'⟩ := h2.delayedMono e' he'
    exact ⟨e'', he'', hk'.trans hk, Int.le_trans hd' hd⟩

theorem MarkedT.of_marked {key : String} {s s' : Sys} {N : List String} (h : Marked s s' N) : MarkedT key s s' N :=
  ⟨h.pods, h.clock, h.d, h.cfg, h.job, h.jobEvs, h.jobCache, h.podCache, by rw [h.q], by rw [h.q], by rw [h.q],
   fun e he => Or.inl (by rw [← h.q]; exact he), fun e he => ⟨e, by rw [h.q]; exact he, rfl, Int.le_refl _⟩,
   h.psync, fun _ => h.nofault, h.evs⟩

theorem MarkedT.of_timers {key : String} {s s' : Sys} (h : TimersOnly key s s') : MarkedT key s s' [] := by
  obtain ⟨q', e, t1, t2, t3, _, t5, t6⟩ := h
  subst e
  refine ⟨?_, rfl, rfl, rfl, rfl, rfl, rfl, rfl, t1, t2, t3, t5, t6, id, id, fun e he => Or.inl he⟩
  show s.pods = _
  conv => lhs; rw [← List.map_id s.pods]
  apply List.map_congr_left
  intro p _
  exact (markDts_nil _ p).symm

theorem MarkedT.congr {key : String} {s s' : Sys} {A B : List String} (h : MarkedT key s s' A) (hAB : ∀ n, n ∈ A ↔ n ∈ B) :
    MarkedT key s s' B :=
  ⟨by rw [h.pods]; exact List.map_congr_left (fun p _ => markDts_congr _ hAB p), h.clock, h.d, h.cfg, h.job, h.jobEvs,
   h.jobCache, h.podCache, h.queue, h.dirty, h.processing, h.delayedNew, h.delayedMono, h.psync, h.nofault, h.evs⟩

/-! ### `handleKillJob` -/

/-- `handleKillJob` once the kill timestamp has passed, no fault pending, no listed task being deleted: all
unfinished listed tasks are gracefully deleted; the Job handed on has the same spec and ref names -/
theorem handleKill_sweep (s : Sys) (jo : JobObj) (rj : Job) (tasks : List Task) (kt : Time)
    (hk : rj.killTimestamp = some kt) (hle : kt ≤ s.clock) (hnf : NoFault s) (hnd : (podNames s.pods).Nodup)
    (hdts : ∀ t ∈ tasks, t.deletionTimestamp = none) :
    ∃ s' rj' N, handleKillJob s jo rj tasks = (s', some rj') ∧ MarkedT (jobKey jo) s s' N ∧
      (∀ n, n ∈ N ↔ ∃ t ∈ tasks, t.name = n ∧ isTaskFinished t = false) ∧ SameSpec rj rj' ∧
      rj'.status.tasks.map (·.finishTimestamp) = rj.status.tasks.map (·.finishTimestamp) ∧ rj'.status.startTime = rj.status.startTime ∧
      ((∀ t ∈ tasks, isTaskFinished t = true) → s' = s ∧ rj' = rj) := by
  have hshould : shouldKillJob s.clock rj = true := by
    unfold shouldKillJob; rw [hk, passed_true hle]; rfl
  unfold handleKillJob
  simp only [hshould, Bool.not_true, Bool.false_eq_true, ↓reduceIte]
  by_cases hempty : (tasks.filter (fun t => !isTaskFinished t && t.deletionTimestamp.isNone)).isEmpty = true
  · rw [if_pos hempty]
    refine ⟨s, rj, [], rfl, MarkedT.refl _ s, ?_, SameSpec.refl rj, rfl, rfl, fun _ => ⟨rfl, rfl⟩⟩
    intro n
    constructor
    · intro h; cases h
    · rintro ⟨t, ht, _, hf⟩
      exfalso
      have hnil := List.isEmpty_iff.mp hempty
      have : t ∈ tasks.filter (fun t => !isTaskFinished t && t.deletionTimestamp.isNone) := by
        rw [List.mem_filter]; exact ⟨ht, by simp [hf, hdts t ht]⟩
      rw [hnil] at this; cases this
  · rw [if_neg hempty]
    obtain ⟨hok, N, hm, hN⟩ := deleteTasks_graceful s (tasks.filter (fun t => !isTaskFinished t && t.deletionTimestamp.isNone))
      hnf hnd (fun t ht => hdts t (List.mem_filter.mp ht).1)
    simp only [hok, ↓reduceIte]
    refine ⟨_, _, N, rfl, MarkedT.of_marked hm, ?_, markDeleted_sameSpec _ _ _, ?_, rfl, ?_⟩
    · intro n
      rw [hN]
      simp only [List.mem_map, List.mem_filter]
      constructor
      · rintro ⟨t, ⟨ht, hc⟩, rfl⟩
        refine ⟨t, ht, rfl, ?_⟩
        cases hf : isTaskFinished t <;> simp_all
      · rintro ⟨t, ht, rfl, hf⟩
        exact ⟨t, ⟨ht, by simp [hf, hdts t ht]⟩, rfl⟩
    · unfold markDeleted
      simp only [List.map_map]
      apply List.map_congr_left
      intro r _
      simp only [Function.comp]
      split <;> rfl
    · intro hall
      exfalso
      apply hempty
      apply List.isEmpty_iff.mpr
      apply List.filter_eq_nil_iff.mpr
      intro t ht
      simp [hall t ht]

/-! ### `handlePendingTasks` -/

theorem pendFold_gen (key : String) (pt : Int) (g : Task → TaskRef) : ∀ (tasks : List Task) (s : Sys) (acc : List Task),
    ∃ s' nd, tasks.foldl (fun (acc : Sys × List Task) (t : Task) =>
        let ref := g t
        if ref.finishTimestamp.isSome then acc
        else if ref.runningTimestamp.isSome then acc
        else
          let deadline := ref.creationTimestamp.getD zeroTime + pt
          if deadline > acc.1.clock then (enqueueAfter acc.1 key deadline, acc.2)
          else if t.deletionTimestamp.isSome then acc
          else (acc.1, acc.2 ++ [t])) (s, acc) = (s', acc ++ nd) ∧ TimersOnly key s s' ∧
      (∀ t ∈ nd, t ∈ tasks ∧ (g t).finishTimestamp.isSome = false) ∧
      ((∀ t ∈ tasks, (g t).finishTimestamp.isSome = true) → s' = s ∧ nd = [])
  | [], s, acc => ⟨s, [], by simp, TimersOnly.refl key s, (fun t h => by cases h), fun _ => ⟨rfl, rfl⟩⟩
  | t :: rest, s, acc => by
    simp only [List.foldl_cons]
    by_cases h1 : (g t).finishTimestamp.isSome = true
    · simp only [h1, ↓reduceIte]
      obtain ⟨s', nd, e, hto, hnd, hex⟩ := pendFold_gen key pt g rest s acc
      exact ⟨s', nd, e, hto, fun x hx => ⟨List.mem_cons_of_mem _ (hnd x hx).1, (hnd x hx).2⟩,
        fun hall => hex (fun t' ht' => hall t' (List.mem_cons_of_mem _ ht'))⟩
    · simp only [h1, Bool.false_eq_true, ↓reduceIte]
      have hex0 : ∀ {P : Prop}, (∀ t' ∈ t :: rest, (g t').finishTimestamp.isSome = true) → P :=
        fun hall => absurd (hall t List.mem_cons_self) h1
      by_cases h2 : (g t).runningTimestamp.isSome = true
      · simp only [h2, ↓reduceIte]
        obtain ⟨s', nd, e, hto, hnd, _⟩ := pendFold_gen key pt g rest s acc
        exact ⟨s', nd, e, hto, fun x hx => ⟨List.mem_cons_of_mem _ (hnd x hx).1, (hnd x hx).2⟩, fun hall => hex0 hall⟩
      · simp only [h2, Bool.false_eq_true, ↓reduceIte]
        by_cases h3 : (g t).creationTimestamp.getD zeroTime + pt > s.clock
        · simp only [h3, ↓reduceIte]
          obtain ⟨s', nd, e, hto, hnd, _⟩ := pendFold_gen key pt g rest (enqueueAfter s key _) acc
          exact ⟨s', nd, e, (enqueueAfter_timersOnly s key _).trans hto,
            fun x hx => ⟨List.mem_cons_of_mem _ (hnd x hx).1, (hnd x hx).2⟩, fun hall => hex0 hall⟩
        · simp only [h3, ↓reduceIte]
          by_cases h4 : t.deletionTimestamp.isSome = true
          · simp only [h4, ↓reduceIte]
            obtain ⟨s', nd, e, hto, hnd, _⟩ := pendFold_gen key pt g rest s acc
            exact ⟨s', nd, e, hto, fun x hx => ⟨List.mem_cons_of_mem _ (hnd x hx).1, (hnd x hx).2⟩, fun hall => hex0 hall⟩
          · simp only [h4, Bool.false_eq_true, ↓reduceIte]
            obtain ⟨s', nd, e, hto, hnd, _⟩ := pendFold_gen key pt g rest s (acc ++ [t])
            refine ⟨s', t :: nd, by rw [e]; simp, hto, ?_, fun hall => hex0 hall⟩
            intro x hx
            rcases List.mem_cons.mp hx with rfl | hx
            · exact ⟨List.mem_cons_self, by simpa using h1⟩
            · exact ⟨List.mem_cons_of_mem _ (hnd x hx).1, (hnd x hx).2⟩

theorem markDeleted_names (rj : Job) (names : List String) (f : TaskRef → TaskRef)
    (hf : ∀ r, (f r).finishTimestamp = r.finishTimestamp) :
    (markDeleted rj names f).status.tasks.map (·.finishTimestamp) = rj.status.tasks.map (·.finishTimestamp) := by
  unfold markDeleted
  simp only [List.map_map]
  apply List.map_congr_left
  intro r _
  simp only [Function.comp]
  split
  · exact hf r
  · rfl

/-- `handlePendingTasks`, no fault pending, no listed task being deleted: some unfinished listed tasks are
gracefully deleted -/
theorem handlePending_kill (s : Sys) (jo : JobObj) (rj : Job) (tasks : List Task) (hnf : NoFault s)
    (hnd : (podNames s.pods).Nodup) (hdts : ∀ t ∈ tasks, t.deletionTimestamp = none)
    (hT : TasksFn tasks) (now : Time) (ex : List TaskRef) (hrj : rj.status.tasks = generateTaskRefs now ex tasks) :
    ∃ s' rj' N, handlePendingTasks s jo rj tasks = (s', some rj') ∧ MarkedT (jobKey jo) s s' N ∧
      (∀ n, n ∈ N → ∃ t ∈ tasks, t.name = n ∧ isTaskFinished t = false) ∧ SameSpec rj rj' ∧
      rj'.status.tasks.map (·.finishTimestamp) = rj.status.tasks.map (·.finishTimestamp) ∧ rj'.status.startTime = rj.status.startTime ∧
      ((∀ t ∈ tasks, isTaskFinished t = true) → s' = s ∧ rj' = rj) := by
  have hquiet : ∃ s' rj' N, (s, some rj) = ((s', some rj') : Sys × Option Job) ∧ MarkedT (jobKey jo) s s' N ∧
      (∀ n, n ∈ N → ∃ t ∈ tasks, t.name = n ∧ isTaskFinished t = false) ∧ SameSpec rj rj' ∧
      rj'.status.tasks.map (·.finishTimestamp) = rj.status.tasks.map (·.finishTimestamp) ∧ rj'.status.startTime = rj.status.startTime ∧
      ((∀ t ∈ tasks, isTaskFinished t = true) → s' = s ∧ rj' = rj) :=
    ⟨s, rj, [], rfl, MarkedT.refl _ s, (fun n h => by cases h), SameSpec.refl rj, rfl, rfl, fun _ => ⟨rfl, rfl⟩⟩
  have hdom : ∀ t ∈ tasks, t.ref.finishTimestamp.isSome = true → (pendRef rj t).finishTimestamp.isSome = true :=
    fun t ht => by
      have := (getTaskRef_dom (lookupRef ex t.name) t).1
      rw [← pendRef_refreshed hT rj now ex hrj t ht] at this
      exact this
  unfold handlePendingTasks
  cases hp : getPendingTimeout rj s.cfg with
  | none => exact hquiet
  | some pt =>
    simp only
    by_cases h0 : pt ≤ 0
    · rw [if_pos h0]; exact hquiet
    · rw [if_neg h0]
      obtain ⟨s1, nd, e, hto, hndm, hex⟩ := pendFold_gen (jobKey jo) pt (pendRef rj) tasks s []
      rw [e]
      simp only [List.nil_append]
      have hst := hto.static
      by_cases hempty : nd.isEmpty = true
      · simp only [hempty, ↓reduceIte]
        refine ⟨s1, rj, [], rfl, MarkedT.of_timers hto, (fun n h => by cases h), SameSpec.refl rj, rfl, rfl, ?_⟩
        intro hall
        exact ⟨(hex (fun t ht => hdom t ht (hall t ht))).1, rfl⟩
      · simp only [hempty, Bool.false_eq_true, ↓reduceIte]
        have hnf1 : NoFault s1 := ⟨by rw [hst.2.2.2.2.2.2.2.2.2.2.1]; exact hnf.1, by rw [hst.2.2.2.2.2.2.2.2.2.2.2.1]; exact hnf.2⟩
        have hnd1 : (podNames s1.pods).Nodup := by rw [hst.2.2.2.1]; exact hnd
        obtain ⟨hok, N, hm, hN⟩ := deleteTasks_graceful s1 nd hnf1 hnd1 (fun t ht => hdts t (hndm t ht).1)
        simp only [hok, ↓reduceIte]
        refine ⟨_, _, N, rfl, ((MarkedT.of_timers hto).trans (MarkedT.of_marked hm)).congr (fun n => by simp), ?_,
          markDeleted_sameSpec _ _ _, markDeleted_names _ _ _ (fun r => rfl), rfl, ?_⟩
        · intro n hn
          rw [hN] at hn
          obtain ⟨t, ht, rfl⟩ := List.mem_map.mp hn
          refine ⟨t, (hndm t ht).1, rfl, ?_⟩
          unfold isTaskFinished
          cases hfin : t.ref.finishTimestamp.isSome with
          | false => rfl
          | true =>
            have := hdom t (hndm t ht).1 hfin
            rw [(hndm t ht).2] at this; cases this
        · intro hall
          exfalso
          have := (hex (fun t ht => hdom t ht (hall t ht))).2
          rw [this] at hempty
          exact hempty rfl

end Furiko.JobCtl.Live
