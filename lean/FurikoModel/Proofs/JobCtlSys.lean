/-
The transition system of the job controller and its environment for ONE Job, over the executable
model `Model/JobCtl.lean` (which is validated against the Go code by the `jobctl` engine).

* `Action` / `step` : the labelled steps (one controller pass, informer deliveries, resync, process
  restart, clock advance, fault oracle, kubelet, external pod deletion, user kill / delete, foreign
  pods).  `step` only calls the model's own functions.
* `Allowed j0 s a` : the guard of an action in a state (kubelet contract of DESIGN §3, foreign pods
  are not controlled by the Job).
* `Reach ok j0 s` : `s` is reachable from the creation of the well-formed Job `j0` by allowed actions
  that satisfy the action filter `ok` (theorems that exclude an action class say so through `ok`).
* `Steps ok j0 s s'` : `s'` is reachable from `s` in that way.

Envelopes built into the model's API operations: `E-API` (name uniqueness, optimistic concurrency on
`rv`, status subresource, finalizers) and `E-ErrNotApplied` (an `err`/`timeout`/`conflict` fault has no
effect on the server); the fifth fault kind `applied-err` (applied but reported as an error) IS covered
(the adversary may put any strings in the fault list).  `E-SingleLeader`: one controller, `work` is
atomic with respect to the other actions (no informer delivery in the middle of a pass).
Core Lean only.
-/
import FurikoModel.Model.JobCtl

namespace Furiko.JobCtl
open Furiko Furiko.WQ

/-! ### the kubelet contract -/

/-- progress rank of a pod phase: `""` < Pending < Running/Unknown < Succeeded/Failed -/
def phaseRank : PodPhase → Nat
  | .other => 0
  | .pending => 1
  | .running => 2
  | .unknown => 2
  | .succeeded => 3
  | .failed => 3

/-- The kubelet contract (DESIGN §3, `E-PodTerminalImmutable`) for a status write that replaces pod
`p` by `p'`: identity (name, owner, labels, creation / deletion timestamps, retry and parallel index)
is kept, the phase only moves forward, and a terminal pod is not changed at all. -/
def KubeletOK (p p' : PodObj) : Prop :=
  p'.ownerUid = p.ownerUid ∧ p'.ownerName = p.ownerName ∧ p'.jobLabel = p.jobLabel ∧
  p'.pod.name = p.pod.name ∧ p'.pod.creationTimestamp = p.pod.creationTimestamp ∧
  p'.pod.deletionTimestamp = p.pod.deletionTimestamp ∧ p'.pod.retryIndex = p.pod.retryIndex ∧
  p'.pod.parallelIndex = p.pod.parallelIndex ∧
  phaseRank p.pod.phase ≤ phaseRank p'.pod.phase ∧
  (p.pod.isFinished = true → p' = p)

instance (p p' : PodObj) : Decidable (KubeletOK p p') := by unfold KubeletOK; infer_instance

/-! ### actions -/

inductive Action where
  /-- the adversary replaces the fault oracle (any list, consumed by the following passes) -/
  | setFaults (fs : List String)
  /-- one pass of `reconciler.Controller.work` (pop a key, `SyncOne`, requeue) -/
  | work
  | deliverJob
  | deliverPod
  | resync
  /-- crash + restart of the controller process -/
  | restart
  /-- the clock advances by `d ≥ 0` nanoseconds (`E-MonotoneClock`) -/
  | advance (d : Nat)
  /-- kubelet status write (guard: `KubeletOK`) -/
  | kubelet (p : PodObj)
  /-- the kubelet finishes terminating a pod that carries a deletion timestamp -/
  | podGone (name : String)
  /-- the pod object vanishes whatever its state (node lost + GC, manual delete) -/
  | externalDelete (name : String)
  /-- the user sets `spec.killTimestamp` -/
  | kill (t : Time)
  /-- the user deletes the Job -/
  | userDelete
  /-- somebody creates a pod that is not controlled by the Job (guard: owner uid ≠ the Job's uid) -/
  | createForeign (p : PodObj)
  deriving Repr, Inhabited, DecidableEq

def step (s : Sys) : Action → Sys
  | .setFaults fs => { s with faults := fs }
  | .work => (work s).1
  | .deliverJob => deliverJob s
  | .deliverPod => deliverPod s
  | .resync => resync s
  | .restart => restart s
  | .advance d => { s with clock := s.clock + d }
  | .kubelet p => setPodState s p
  | .podGone n => removePod s n
  | .externalDelete n => removePod s n
  | .kill t => mutateJobObj s (fun j => { j with job := { j.job with killTimestamp := some t } })
  | .userDelete => userDeleteJob s
  | .createForeign p => createForeignPod s p

/-- the option holds a value satisfying `P` -/
def OptSat {α : Type} (o : Option α) (P : α → Prop) : Prop :=
  match o with
  | some a => P a
  | none => False

instance {α : Type} (o : Option α) (P : α → Prop) [DecidablePred P] : Decidable (OptSat o P) := by
  cases o <;> unfold OptSat <;> infer_instance

theorem optSat_iff {α : Type} (o : Option α) (P : α → Prop) : OptSat o P ↔ ∃ a, o = some a ∧ P a := by
  cases o <;> simp [OptSat]

/-- guard of an action -/
def Allowed (j0 : JobObj) (s : Sys) : Action → Prop
  | .kubelet p => OptSat (findPod s.pods p.pod.name) (fun old => KubeletOK old p)
  | .podGone n => OptSat (findPod s.pods n) (fun old => old.pod.deletionTimestamp.isSome = true)
  | .createForeign p => p.ownerUid ≠ some j0.uid
  | _ => True

instance (j0 : JobObj) (s : Sys) (a : Action) : Decidable (Allowed j0 s a) := by
  cases a <;> unfold Allowed <;> infer_instance

/-! ### well-formed initial Job, reachability -/

/-- The Job as the user (or the JobConfig controller) creates it: no task recorded yet, counters
zero, not being deleted. Everything else (template, parallelism, kill timestamp, TTL, start time set
or not, finalizer, any condition) is arbitrary. -/
structure WF (j0 : JobObj) : Prop where
  noTasks : j0.job.status.tasks = []
  noCreated : j0.job.status.createdTasks = 0
  notDeleted : j0.job.deletionTimestamp = none

instance (j0 : JobObj) : Decidable (WF j0) :=
  if h : j0.job.status.tasks = [] ∧ j0.job.status.createdTasks = 0 ∧ j0.job.deletionTimestamp = none
  then isTrue ⟨h.1, h.2.1, h.2.2⟩ else isFalse (fun w => h ⟨w.1, w.2, w.3⟩)

/-- the state right after the Job was created (empty caches, the creation event undelivered) -/
def initSys (clock : Int) (cfg : ExecConfig) (d : PIndex) (j0 : JobObj) : Sys :=
  userCreateJob { clock := clock, cfg := cfg, d := d } j0

/-- states reachable by allowed actions satisfying the filter `ok` -/
inductive Reach (ok : Sys → Action → Prop) (j0 : JobObj) : Sys → Prop
  | init (clock : Int) (cfg : ExecConfig) (d : PIndex) (hwf : WF j0) : Reach ok j0 (initSys clock cfg d j0)
  | step {s : Sys} (a : Action) : Reach ok j0 s → ok s a → Allowed j0 s a → Reach ok j0 (step s a)

/-- `s'` is reachable from `s` -/
inductive Steps (ok : Sys → Action → Prop) (j0 : JobObj) : Sys → Sys → Prop
  | refl (s : Sys) : Steps ok j0 s s
  | step {s s' : Sys} (a : Action) : Steps ok j0 s s' → ok s' a → Allowed j0 s' a → Steps ok j0 s (step s' a)

theorem Reach.mono {ok ok' : Sys → Action → Prop} (h : ∀ s a, ok s a → ok' s a) {j0 : JobObj} {s : Sys}
    (hr : Reach ok j0 s) : Reach ok' j0 s := by
  induction hr with
  | init c cfg d hwf => exact .init c cfg d hwf
  | step a _ hok hal ih => exact .step a ih (h _ a hok) hal

theorem Steps.mono {ok ok' : Sys → Action → Prop} (h : ∀ s a, ok s a → ok' s a) {j0 : JobObj} {s s' : Sys}
    (hr : Steps ok j0 s s') : Steps ok' j0 s s' := by
  induction hr with
  | refl => exact .refl _
  | step a _ hok hal ih => exact .step a ih (h _ a hok) hal

theorem Reach.steps {ok : Sys → Action → Prop} {j0 : JobObj} {s s' : Sys}
    (hr : Reach ok j0 s) (hs : Steps ok j0 s s') : Reach ok j0 s' := by
  induction hs with
  | refl => exact hr
  | step a _ hok hal ih => exact .step a ih hok hal

/-- every action -/
def anyAction : Sys → Action → Prop := fun _ _ => True
instance (s : Sys) (a : Action) : Decidable (anyAction s a) := isTrue trivial

/-! ### action filters used by the theorems -/

/-- only controller passes, informer deliveries and kubelet progress: no fault, no restart, no clock
advance, no external deletion, no user kill / delete, no foreign pod -/
def lagOnly (_ : Sys) (a : Action) : Prop :=
  match a with
  | .work | .deliverJob | .deliverPod | .kubelet _ => True
  | _ => False

instance (s : Sys) (a : Action) : Decidable (lagOnly s a) := by cases a <;> unfold lagOnly <;> infer_instance

/-- `lagOnly` plus pods vanishing from the server and the clock advancing -/
def lagAndLoss (_ : Sys) (a : Action) : Prop :=
  match a with
  | .work | .deliverJob | .deliverPod | .kubelet _ | .externalDelete _ | .advance _ => True
  | _ => False

instance (s : Sys) (a : Action) : Decidable (lagAndLoss s a) := by cases a <;> unfold lagAndLoss <;> infer_instance

/-- no foreign pod is ever created -/
def noForeign (_ : Sys) (a : Action) : Prop :=
  match a with
  | .createForeign _ => False
  | _ => True

instance (s : Sys) (a : Action) : Decidable (noForeign s a) := by cases a <;> unfold noForeign <;> infer_instance

/-- the user neither sets a kill timestamp nor deletes the Job -/
def noUserEdit (_ : Sys) (a : Action) : Prop :=
  match a with
  | .kill _ | .userDelete => False
  | _ => True

instance (s : Sys) (a : Action) : Decidable (noUserEdit s a) := by cases a <;> unfold noUserEdit <;> infer_instance

/-- no pod object vanishes other than by the kubelet completing a deletion the API recorded -/
def noExternalDelete (_ : Sys) (a : Action) : Prop :=
  match a with
  | .externalDelete _ => False
  | _ => True

instance (s : Sys) (a : Action) : Decidable (noExternalDelete s a) := by cases a <;> unfold noExternalDelete <;> infer_instance

/-! ### running a concrete history (for the examples) -/

def runActs (s : Sys) (acts : List Action) : Sys := acts.foldl step s

/-- every action of the history passes the filter and is allowed where it is taken -/
def AllowedAll (ok : Sys → Action → Prop) (j0 : JobObj) (s : Sys) : List Action → Prop
  | [] => True
  | a :: rest => ok s a ∧ Allowed j0 s a ∧ AllowedAll ok j0 (step s a) rest

def decAllowedAll (ok : Sys → Action → Prop) [∀ s a, Decidable (ok s a)] (j0 : JobObj) :
    (s : Sys) → (acts : List Action) → Decidable (AllowedAll ok j0 s acts)
  | _, [] => isTrue trivial
  | s, a :: rest =>
    have := decAllowedAll ok j0 (step s a) rest
    (inferInstance : Decidable (ok s a ∧ Allowed j0 s a ∧ AllowedAll ok j0 (step s a) rest))

instance (ok : Sys → Action → Prop) [∀ s a, Decidable (ok s a)] (j0 : JobObj) (s : Sys) (acts : List Action) :
    Decidable (AllowedAll ok j0 s acts) := decAllowedAll ok j0 s acts

theorem steps_run {ok : Sys → Action → Prop} {j0 : JobObj} (s : Sys) (acts : List Action)
    (ha : AllowedAll ok j0 s acts) : Steps ok j0 s (runActs s acts) := by
  suffices h : ∀ s0 s, Steps ok j0 s0 s → AllowedAll ok j0 s acts → Steps ok j0 s0 (runActs s acts) from
    h s s (.refl s) ha
  clear ha
  induction acts with
  | nil => intro s0 s hs _; exact hs
  | cons a rest ih =>
    intro s0 s hs ha
    exact ih s0 (step s a) (Steps.step a hs ha.1 ha.2.1) ha.2.2

theorem runActs_append (s : Sys) (a b : List Action) : runActs s (a ++ b) = runActs (runActs s a) b := by
  unfold runActs; rw [List.foldl_append]

theorem Steps.trans {ok : Sys → Action → Prop} {j0 : JobObj} {a b c : Sys} (h1 : Steps ok j0 a b)
    (h2 : Steps ok j0 b c) : Steps ok j0 a c := by
  induction h2 with
  | refl => exact h1
  | step x _ hok hal ih => exact .step x ih hok hal

theorem reach_run {ok : Sys → Action → Prop} {j0 : JobObj} {s : Sys} (hr : Reach ok j0 s) (acts : List Action)
    (ha : AllowedAll ok j0 s acts) : Reach ok j0 (runActs s acts) :=
  hr.steps (steps_run s acts ha)

end Furiko.JobCtl
