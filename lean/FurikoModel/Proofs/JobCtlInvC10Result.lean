/-
Instances of the generic pass invariant (`Proofs/JobCtlInvC10Walk.lean`):

* `SuccJust`: a ref that carries the result `Succeeded` — in its `status` or in its `deletedStatus`, which
  `GetTaskRef` fills from the task's terminal status and `GenerateTaskRefs` turns back into the status of
  a vanished task — is justified: it carried it before the pass, or the pass read that result from a
  pod controlled by the Job (pod cache or server);
* `CountersOK`: `createdTasks = |tasks|`, `runningTasks = |{running ∧ ¬ finished}|`.
Plus `jobMoves_rel_work`: `jobMoves_rel` whose `sync` clause may use that the step is a controller pass.
Core Lean only.
-/
import FurikoModel.Proofs.JobCtlInvC10Walk

set_option linter.unusedSimpArgs false
set_option linter.unusedVariables false

namespace Furiko.JobCtl
open Furiko Furiko.WQ Furiko.JobCtlPlan

/-! ### what a pod task shows -/

theorem podTask_fields {now : Time} {p : PodObj} {t : Task} (h : podTask now p = some t) :
    t.name = p.pod.name ∧ t.ref.name = p.pod.name ∧ t.ref.status.result = p.pod.result ∧
    t.ref.deletedStatus = none ∧ t.ref.creationTimestamp = p.pod.creationTimestamp ∧
    t.deletionTimestamp = p.pod.deletionTimestamp := by
  unfold podTask Pod.task at h
  cases hr : p.pod.taskRef now with
  | none => simp [hr] at h
  | some r =>
    simp only [hr, Option.some.injEq] at h
    subst h
    unfold Pod.taskRef at hr
    cases hf : p.pod.finishTimestamp with
    | none => simp [hf] at hr
    | some fin =>
      simp only [hf, Option.some.injEq] at hr
      subst hr
      exact ⟨rfl, rfl, rfl, rfl, rfl, rfl⟩

theorem newPod_result (jo : JobObj) (idx : PIndex) (retry : Int) (tm : Time) :
    (newPod jo idx retry tm).pod.result = .none := by
  unfold newPod Pod.result Pod.isOOMKilled
  simp

/-! ### `jobMoves_rel` for a controller pass -/

/-- `jobMoves_rel`, with the `sync` clause only for a controller pass -/
theorem jobMoves_rel_work {s0 : Sys} {a : Action} (R : Job → Job → Prop)
    (hrefl : ∀ x, R x x) (htrans : ∀ x y z, R x y → R y z → R x z)
    (hsync : ∀ (jo : JobObj) (sp : Sys), a = .work → s0.jobCache = some jo → Frame s0 sp → R jo.job (sync sp jo).2.1)
    (hset : ∀ x y z : Job, R x y → z.status = y.status → R x z)
    {o o' : Option JobObj} (h : JobMoves s0 a o o') :
    ∀ j j', o = some j → o' = some j' → R j.job j'.job := by
  induction h with
  | refl => intro j j' h1 h2; rw [h1] at h2; cases h2; exact hrefl _
  | tail hms hm ih =>
    intro j j' h1 h2
    cases hm with
    | goneUser => cases h2
    | goneTTL => cases h2
    | goneSpec => cases h2
    | delMark cur t rv _ _ _ _ =>
      cases h2
      exact hset _ _ _ (ih j cur h1 rfl) rfl
    | kill cur t rv _ _ =>
      cases h2
      exact hset _ _ _ (ih j cur h1 rfl) rfl
    | ctlSpec jo sp rv _ hc hf _ _ =>
      cases h2
      exact hset _ _ _ (ih j jo h1 rfl) rfl
    | ctlStatus jo sp rv ha hc hf _ =>
      cases h2
      refine htrans _ _ _ (ih j jo h1 rfl) ?_
      exact hset _ _ _ (hsync jo sp ha hc hf) rfl
    | ctlStatusOn jo sp rv0 rv ha hc hf _ =>
      cases h2
      refine htrans _ _ _ (ih j _ h1 rfl) ?_
      -- the object `Update` produced carries the status of the cached Job
      refine htrans _ jo.job _ (hset _ _ _ (hrefl _) rfl) ?_
      exact hset _ _ _ (hsync jo sp ha hc hf) rfl

/-! ### recorded `Succeeded` results -/

/-- the ref says `Succeeded`: as its status, or as the terminal status kept in `deletedStatus` -/
def SuccMark (r : TaskRef) : Prop :=
  r.status.result = .succeeded ∨ ∃ ds, r.deletedStatus = some ds ∧ ds.result = .succeeded

instance (r : TaskRef) : Decidable (SuccMark r) := by
  unfold SuccMark
  cases h : r.deletedStatus with
  | none => exact decidable_of_iff (r.status.result = .succeeded) (by simp)
  | some ds => exact decidable_of_iff (r.status.result = .succeeded ∨ ds.result = .succeeded) (by simp)

/-- every `Succeeded` mark of the Job value is justified (`J` of the ref's name) -/
def SuccJust (J : String → Prop) (rj : Job) : Prop := ∀ r ∈ rj.status.tasks, SuccMark r → J r.name

/-- what the refresh needs of a task: a pod task (`GetTaskRef().Name = GetName()`, no deleted status of its
own) whose `Succeeded` result, if it reports one, is justified -/
def SuccTask (J : String → Prop) (t : Task) : Prop :=
  t.ref.name = t.name ∧ t.ref.deletedStatus = none ∧ (t.ref.status.result = .succeeded → J t.name)

theorem getTaskRef_status_cases (ex : TaskRef) (t : Task) :
    ((getTaskRef (some ex) t).status = t.ref.status ∨ (getTaskRef (some ex) t).status = ex.status) ∧
    ((getTaskRef (some ex) t).deletedStatus = ex.deletedStatus ∨
     (getTaskRef (some ex) t).deletedStatus = some t.ref.status) := by
  unfold getTaskRef
  simp only
  repeat' split
  all_goals simp

theorem getTaskRef_none_cases (t : Task) :
    (getTaskRef none t).status = t.ref.status ∧
    ((getTaskRef none t).deletedStatus = t.ref.deletedStatus ∨ (getTaskRef none t).deletedStatus = some t.ref.status) := by
  unfold getTaskRef
  simp only
  split <;> simp

theorem lookupRef_some {existing : List TaskRef} {n : String} {ex : TaskRef} (h : lookupRef existing n = some ex) :
    ex ∈ existing ∧ ex.name = n := by
  unfold lookupRef at h
  exact ⟨List.mem_reverse.mp (List.mem_of_find?_eq_some h), by simpa using List.find?_some h⟩

theorem getTaskRef_succMark (e : Option TaskRef) (t : Task) (hd : t.ref.deletedStatus = none)
    (h : SuccMark (getTaskRef e t)) : t.ref.status.result = .succeeded ∨ ∃ ex, e = some ex ∧ SuccMark ex := by
  cases e with
  | none =>
    obtain ⟨h1, h2⟩ := getTaskRef_none_cases t
    rcases h with h | ⟨ds, hds, hr⟩
    · rw [h1] at h; exact Or.inl h
    · rcases h2 with h2 | h2
      · rw [h2, hd] at hds; cases hds
      · rw [h2] at hds; cases hds; exact Or.inl hr
  | some ex =>
    obtain ⟨h1, h2⟩ := getTaskRef_status_cases ex t
    rcases h with h | ⟨ds, hds, hr⟩
    · rcases h1 with h1 | h1
      · rw [h1] at h; exact Or.inl h
      · rw [h1] at h; exact Or.inr ⟨ex, rfl, Or.inl h⟩
    · rcases h2 with h2 | h2
      · rw [h2] at hds; exact Or.inr ⟨ex, rfl, Or.inr ⟨ds, hds, hr⟩⟩
      · rw [h2] at hds; cases hds; exact Or.inl hr

theorem lostRef_succMark (now : Time) (ex : TaskRef) (h : SuccMark (lostRef now ex)) : SuccMark ex := by
  have hds : (lostRef now ex).deletedStatus = ex.deletedStatus := by
    unfold lostRef
    simp only
    repeat' split
    all_goals rfl
  have hnone : ex.deletedStatus = none → (lostRef now ex).status.result = ex.status.result := by
    intro hd
    unfold lostRef
    rw [hd]
    simp only
    split <;> rfl
  have hsome : ∀ ds, ex.deletedStatus = some ds → (lostRef now ex).status = ds := by
    intro ds hd
    unfold lostRef
    rw [hd]
  rcases h with h | ⟨ds, hd, hr⟩
  · cases hd : ex.deletedStatus with
    | none => rw [hnone hd] at h; exact Or.inl h
    | some ds0 => rw [hsome ds0 hd] at h; exact Or.inr ⟨ds0, hd, h⟩
  · rw [hds] at hd; exact Or.inr ⟨ds, hd, hr⟩

theorem markFn_succMark {f : TaskRef → TaskRef} (hf : MarkFn f) (r : TaskRef) :
    (f r).name = r.name ∧ (SuccMark (f r) → SuccMark r) := by
  obtain ⟨ds, he, hds⟩ := hf r
  rw [he]
  refine ⟨rfl, ?_⟩
  rintro (h | ⟨ds', hds', hr⟩)
  · exact Or.inl h
  · simp only [Option.some.injEq] at hds'
    subst hds'
    rcases hds with ⟨_, hk⟩ | ⟨ds0, h0, _, hres⟩
    · rw [hk] at hr; cases hr
    · exact Or.inr ⟨ds0, h0, by rw [← hres]; exact hr⟩

theorem succJust_passInv (J : String → Prop) : PassInv (SuccJust J) (SuccTask J) where
  refresh := by
    intro now rj tasks hp ht r hr hs
    change r ∈ generateTaskRefs now rj.status.tasks tasks at hr
    rcases mem_generateTaskRefs hr with ⟨t, htm, rfl⟩ | ⟨ex, hex, _, rfl⟩
    · obtain ⟨hn, hd, hj⟩ := ht t htm
      rw [Furiko.StatusLemmas.getTaskRef_name, hn]
      rcases getTaskRef_succMark _ t hd hs with h | ⟨ex, he, hsx⟩
      · exact hj h
      · obtain ⟨hmem, hname⟩ := lookupRef_some he
        rw [← hname]; exact hp ex hmem hsx
    · rw [(lostRef_fields now ex).1]
      exact hp ex hex (lostRef_succMark now ex hs)
  status := by
    intro s key rj hp r hr hs
    rw [syncJobStatusFromTaskRefs_tasks] at hr
    exact hp r hr hs
  mark := by
    intro rj names f hf hp r hr hs
    unfold markDeleted at hr
    simp only at hr
    obtain ⟨r0, hr0, rfl⟩ := List.mem_map.mp hr
    split at hs
    · rename_i hc
      simp only [hc, ↓reduceIte]
      rw [(markFn_succMark hf r0).1]
      exact hp r0 hr0 ((markFn_succMark hf r0).2 hs)
    · rename_i hc
      simp only [hc]
      exact hp r0 hr0 hs
  ifNotSet := by
    intro rj name st _ h2 hp r hr hs
    unfold updateTaskRefDeletedStatusIfNotSet at hr
    simp only at hr
    obtain ⟨r0, hr0, rfl⟩ := List.mem_map.mp hr
    split at hs
    · rename_i hc
      simp only [hc, ↓reduceIte]
      refine hp r0 hr0 ?_
      rcases hs with h | ⟨ds, hds, hres⟩
      · exact Or.inl h
      · simp only [Option.some.injEq] at hds
        subst hds
        rw [h2] at hres; cases hres
    · rename_i hc
      simp only [hc]
      exact hp r0 hr0 hs
  adm := fun rj hp => hp

/-! ### the task counters -/

/-- `createdTasks` is the number of refs, `runningTasks` the number of refs that are running and not
finished (`UpdateJobTaskRefs`) -/
def CountersOK (rj : Job) : Prop :=
  rj.status.createdTasks = rj.status.tasks.length ∧
  rj.status.runningTasks = ((rj.status.tasks.filter refIsRunning).length : Nat)

theorem filter_map_length_of_eq {α : Type} (p : α → Bool) (g : α → α) (hg : ∀ x, p (g x) = p x) :
    ∀ l : List α, ((l.map g).filter p).length = (l.filter p).length := by
  intro l
  induction l with
  | nil => rfl
  | cons x rest ih =>
    simp only [List.map_cons, List.filter_cons, hg x]
    split
    · simp only [List.length_cons, ih]
    · exact ih

theorem syncJobStatus_counters (s : Sys) (key : String) (rj : Job) :
    (syncJobStatusFromTaskRefs s key rj).2.status.createdTasks = rj.status.createdTasks ∧
    (syncJobStatusFromTaskRefs s key rj).2.status.runningTasks = rj.status.runningTasks := by
  rw [syncJobStatus_snd]
  unfold updateJobStatusFromTaskRefs updateJobStatusFromTaskRefsWith
  cases rj.template with
  | none => exact ⟨rfl, rfl⟩
  | some t => exact ⟨rfl, rfl⟩

theorem countersOK_passInv : PassInv CountersOK (fun _ => True) where
  refresh := fun now rj tasks _ _ => ⟨rfl, rfl⟩
  status := by
    intro s key rj hp
    obtain ⟨h1, h2⟩ := syncJobStatus_counters s key rj
    unfold CountersOK
    rw [h1, h2, syncJobStatusFromTaskRefs_tasks]
    exact hp
  mark := by
    intro rj names f hf hp
    unfold CountersOK markDeleted
    simp only [List.length_map]
    refine ⟨hp.1, ?_⟩
    rw [filter_map_length_of_eq refIsRunning]
    · exact hp.2
    · intro r
      split
      · obtain ⟨ds, he, _⟩ := hf r
        rw [he]; rfl
      · rfl
  ifNotSet := by
    intro rj name st _ _ hp
    unfold CountersOK updateTaskRefDeletedStatusIfNotSet
    simp only [List.length_map]
    refine ⟨hp.1, ?_⟩
    rw [filter_map_length_of_eq refIsRunning]
    · exact hp.2
    · intro r
      split <;> rfl
  adm := fun rj hp => hp

/-- `CountersOK` of the authoritative Job is an invariant of every history (all actions), for a Job
created with `runningTasks = 0` -/
theorem countersOK_of_reach {ok : Sys → Action → Prop} {j0 : JobObj} {s : Sys} (hr : Reach ok j0 s)
    (hrun : j0.job.status.runningTasks = 0) : ∀ j, s.job = some j → CountersOK j.job := by
  induction hr with
  | init c cfg d hwf =>
    intro j hj
    unfold initSys userCreateJob at hj
    simp only [Option.some.injEq] at hj
    subst hj
    unfold CountersOK
    simp only [hwf.noTasks, hwf.noCreated, hrun]
    exact ⟨rfl, rfl⟩
  | @step s1 a hr' _ hal ih =>
    intro j' hj'
    have hm := job_moves (base_of_reach hr') a hal
    cases hj : s1.job with
    | none => rw [hm.none_stays hj] at hj'; cases hj'
    | some j =>
      have := jobMoves_rel (fun x y => CountersOK x → CountersOK y) (fun _ h => h) (fun _ _ _ h1 h2 h => h2 (h1 h))
        (fun x y e h => by unfold CountersOK at *; rw [e]; exact h)
        (fun jo sp _ _ h => sync_passInv countersOK_passInv sp jo (fun _ _ => trivial) h)
        (fun x y z h1 e h => by
          have := h1 h
          unfold CountersOK at *; rw [e]; exact this) hm j j' hj hj'
      exact this (ih j hj)

end Furiko.JobCtl
