/-
One live task per index (histories inside the envelope `stabEnv`): when a controller pass creates a pod
for an index, every pod of that index on the server is finished; hence at most one unfinished pod per
index exists at any time.  Core Lean only.
-/
import FurikoModel.Proofs.JobCtlInvContigStep
import FurikoModel.Proofs.JobCtlInvStabThm
import FurikoModel.Proofs.JobCtlInvCreate

set_option linter.unusedSimpArgs false
set_option linter.unusedVariables false

namespace Furiko.JobCtl
open Furiko Furiko.WQ Furiko.StatusLemmas Furiko.ParallelLemmas

/-- the index hash a pod is labelled with -/
def podHash (p : PodObj) : Option String := p.pod.parallelIndex.map (·.hash)

/-- The creation guard, on the server's pods: if a creation request `(idx, retry)` of the cached Job
names a pod that is not on the server, then (inside the envelope) every pod of index `idx` that IS on the
server is finished. -/
theorem create_guard {j0 jo : JobObj} {s : Sys} (hb : Base j0 s) (h2 : Inv2 j0 s) (ho : Owned j0 s) (h3 : Inv3 s) (h4 : Inv4 j0 s)
    (hwf : WF2 j0 s.d) (hc : s.jobCache = some jo) (j : JobObj) (hj : s.job = some j)
    (henv : NoStale s) (idx : PIndex) (retry : Int) (hreq : CreateReq s.d jo idx retry)
    (hnew : taskName jo.name idx.hash retry ∉ podNames s.pods) :
    ∀ q ∈ s.pods, podHash q = some idx.hash → q.pod.isFinished = true := by
  intro q hq hqh
  have hseen := mem_seenVers_cache hc
  have hjo := (hb.seenOK jo hseen).1
  have hsound := createReq_sound hreq (by rw [indexes_of_template hjo.template]; exact hwf.noCollision)
  have hidx : idx ∈ j0.job.indexes s.d := by rw [← indexes_of_template hjo.template]; exact hsound.2.2.2.1
  have hretry := hsound.2.2.2.2.2.1
  -- the new name is fresh: in particular not recorded in the authoritative status
  have hfresh := henv jo idx retry hc hreq hnew
  -- the pod `q`
  obtain ⟨⟨qi, qr, hqi, hq0, _, hqname, hqpi, hqri⟩, _⟩ := h2.pods.pods q hq (ho.pods q hq)
  have hqhash : qi.hash = idx.hash := by
    unfold podHash at hqh
    rw [hqpi] at hqh
    simpa using hqh
  have hdown := h4.down j hj q (Or.inl hq) (ho.pods q hq) qi qr hqpi hqri
  -- its retry number is below the requested one
  have hlt : qr < retry := by
    by_cases hle : qr < retry
    · exact hle
    · exfalso
      by_cases heq : qr = retry
      · apply hnew
        rw [hjo.name, ← hqhash, ← heq, ← hqname]
        exact List.mem_map_of_mem hq
      · have hx := hdown retry hsound.2.2.2.2.2.2.1 (by omega)
        obtain ⟨r, hr, hrh, hrr⟩ := hx
        obtain ⟨⟨ri, hri, hrpi, hrname⟩, _⟩ := (h2.job j hj).refs r hr
        have : ri.hash = qi.hash := by
          unfold TaskRef.hash TaskRef.index at hrh; rw [hrpi] at hrh; exact hrh
        apply hfresh.1 j hj
        refine List.mem_map.mpr ⟨r, hr, ?_⟩
        rw [hrname, hjo.name, this, hqhash, hrr]
  -- so it is recorded in the cached status, where every ref of the index is finished
  have hcontig := h4.contig jo (Or.inr hseen)
  have hx := attempts_below_next hcontig idx.hash qr hq0 (by rw [← hretry]; exact hlt)
  obtain ⟨ex, hex, hexh, hexr⟩ := hx
  have hexfin := (hsound.2.2.2.2.1 ex hex hexh).1
  obtain ⟨⟨ei, hei, hepi, hename⟩, _⟩ := (h2.seen jo hseen).refs ex hex
  have heh : ei.hash = idx.hash := by
    unfold TaskRef.hash TaskRef.index at hexh; rw [hepi] at hexh; exact hexh
  have hnameq : q.pod.name = ex.name := by rw [hqname, hename, heh, hqhash, hexr]
  exact h3.fin jo (List.mem_append_right _ hseen) ex hex hexfin q hq hnameq

/-! ### the pods after a pass, relative to those before -/

/-- a pod after (part of) a pass stands for a pod that was there before — same name and index, finished if
that one was — or was created in this pass for a request of the cached Job -/
def PodsFrom (jo : JobObj) (s s' : Sys) : Prop :=
  ∀ q' ∈ s'.pods,
    (∃ q ∈ s.pods, q.pod.name = q'.pod.name ∧ q.pod.parallelIndex = q'.pod.parallelIndex ∧
      (q.pod.isFinished = true → q'.pod.isFinished = true)) ∨
    (q'.pod.name ∉ podNames s.pods ∧ ∃ idx retry, CreateReq s.d jo idx retry ∧
      q'.pod.name = taskName jo.name idx.hash retry ∧ q'.pod.parallelIndex = some idx)

theorem PodsFrom.micro {jo : JobObj} {sp s s' : Sys} (h : PodsFrom jo sp s) (hd : s.d = sp.d)
    (hm : Micro jo sp s s') : PodsFrom jo sp s' := by
  cases hm with
  | frame hf => intro q hq; rw [hf.pods] at hq; exact h q hq
  | create idx retry hreq hcp =>
    rcases apiCreatePod_spec s jo idx retry with hs | hs
    · intro q hq; rw [hs.1.pods] at hq; exact h q hq
    · intro q hq
      rw [hs.1.pods] at hq
      rcases List.mem_append.mp hq with hq | hq
      · exact h q hq
      · simp only [List.mem_singleton] at hq
        subst hq
        right
        refine ⟨?_, idx, retry, hd ▸ hreq, rfl, rfl⟩
        intro hmem
        exact (findPod_eq_none_iff _ _).mp hs.1.fresh (hcp.sup _ hmem)
  | delPod name force =>
    rcases apiDeletePod_spec s name force with hs | ⟨p, _, hs, _⟩ | ⟨p, _, _, _, hs⟩
    · intro q hq; rw [hs.pods] at hq; exact h q hq
    · intro q hq; rw [hs.pods] at hq; exact h q (mem_delPod hq).1
    · intro q hq
      rw [hs.pods] at hq
      rcases mem_setPod hq with rfl | hq
      · exact h p (findPod_some hs.found).1
      · exact h q hq
  | delJob =>
    rcases apiDeleteJob_spec s jo with hs | ⟨c, _, _, _, hs⟩ | ⟨c, _, _, hs⟩
    · intro q hq; rw [hs.pods] at hq; exact h q hq
    · intro q hq; rw [hs.pods] at hq; exact h q hq
    · intro q hq; rw [hs.pods] at hq; exact h q hq
  | updJob _ => intro q hq; rw [apiUpdateJob_pods] at hq; exact h q hq
  | updStatus => intro q hq; rw [apiUpdateJobStatus_pods] at hq; exact h q hq
  | updStatusOn s1 hs1 hs hok => intro q hq; rw [apiUpdateJobStatus_pods] at hq; exact h q hq

theorem PodsFrom.micros {jo : JobObj} {sp s s' : Sys} (h : PodsFrom jo sp s) (hd : s.d = sp.d)
    (hm : Micros jo sp s s') : PodsFrom jo sp s' := by
  induction hm with
  | refl => exact h
  | tail hms hm ih => exact ih.micro (hms.static.d.trans hd) hm

theorem podsFrom_work (s : Sys) (jo : JobObj) (hc : s.jobCache = some jo) : PodsFrom jo s (work s).1 := by
  obtain ⟨sp, hf, hm⟩ := work_micros s jo hc
  have h0 : PodsFrom jo sp sp := fun q hq => Or.inl ⟨q, hq, rfl, rfl, fun h => h⟩
  have := h0.micros rfl hm
  intro q hq
  rcases this q hq with ⟨q0, hq0, h1, h2, h3⟩ | ⟨h1, idx, retry, hreq, h2, h3⟩
  · exact Or.inl ⟨q0, hf.pods ▸ hq0, h1, h2, h3⟩
  · exact Or.inr ⟨hf.pods ▸ h1, idx, retry, hf.d ▸ hreq, h2, h3⟩

/-! ### at most one unfinished pod per index -/

/-- two unfinished pods of the same index on the server are the same pod -/
def OneLive (s : Sys) : Prop :=
  ∀ p ∈ s.pods, ∀ q ∈ s.pods, p.pod.isFinished = false → q.pod.isFinished = false →
    podHash p = podHash q → podHash p ≠ none → p.pod.name = q.pod.name

theorem OneLive.work {j0 : JobObj} {s : Sys} (hb : Base j0 s) (h2 : Inv2 j0 s) (ho : Owned j0 s) (h3 : Inv3 s) (h4 : Inv4 j0 s)
    (hwf : WF2 j0 s.d) (j : JobObj) (hj : s.job = some j) (henv : NoStale s) (h : OneLive s) :
    OneLive (work s).1 := by
  cases hc : s.jobCache with
  | none => intro p hp q hq; rw [(work_frame s hc).pods] at hp hq; exact h p hp q hq
  | some jo =>
    have hfrom := podsFrom_work s jo hc
    -- a created pod excludes any other unfinished pod of its index among the old ones
    have guard : ∀ idx retry, CreateReq s.d jo idx retry → taskName jo.name idx.hash retry ∉ podNames s.pods →
        ∀ q ∈ s.pods, podHash q = some idx.hash → q.pod.isFinished = true :=
      fun idx retry hreq hnew => create_guard hb h2 ho h3 h4 hwf hc j hj henv idx retry hreq hnew
    have newOld : ∀ p q : PodObj, p.pod.isFinished = false → q.pod.isFinished = false → podHash p = podHash q →
        (p.pod.name ∉ podNames s.pods ∧ ∃ idx retry, CreateReq s.d jo idx retry ∧
          p.pod.name = taskName jo.name idx.hash retry ∧ p.pod.parallelIndex = some idx) →
        (∃ q0 ∈ s.pods, q0.pod.name = q.pod.name ∧ q0.pod.parallelIndex = q.pod.parallelIndex ∧
          (q0.pod.isFinished = true → q.pod.isFinished = true)) → False := by
      intro p q hpf hqf hh ⟨hpn, idx, retry, hreq, hpname, hppi⟩ ⟨q0, hq0, _, hq0pi, hq0f⟩
      have hq0h : podHash q0 = some idx.hash := by
        unfold podHash at hh ⊢
        rw [hq0pi, ← hh, hppi]; rfl
      have := hq0f (guard idx retry hreq (hpname ▸ hpn) q0 hq0 hq0h)
      rw [hqf] at this; cases this
    intro p hp q hq hpf hqf hh hne
    rcases hfrom p hp with ⟨p0, hp0, hp0n, hp0pi, hp0f⟩ | hpnew
    · rcases hfrom q hq with ⟨q0, hq0, hq0n, hq0pi, hq0f⟩ | hqnew
      · have hp0u : p0.pod.isFinished = false := by
          cases hx : p0.pod.isFinished with
          | false => rfl
          | true => rw [hp0f hx] at hpf; cases hpf
        have hq0u : q0.pod.isFinished = false := by
          cases hx : q0.pod.isFinished with
          | false => rfl
          | true => rw [hq0f hx] at hqf; cases hqf
        have hh0 : podHash p0 = podHash q0 := by unfold podHash at hh ⊢; rw [hp0pi, hq0pi]; exact hh
        have hne0 : podHash p0 ≠ none := by unfold podHash at hne ⊢; rw [hp0pi]; exact hne
        rw [← hp0n, ← hq0n]
        exact h p0 hp0 q0 hq0 hp0u hq0u hh0 hne0
      · exact (newOld q p hqf hpf hh.symm hqnew ⟨p0, hp0, hp0n, hp0pi, hp0f⟩).elim
    · rcases hfrom q hq with hqold | hqnew
      · exact (newOld p q hpf hqf hh hpnew hqold).elim
      · obtain ⟨_, i1, r1, hreq1, hn1, hpi1⟩ := hpnew
        obtain ⟨_, i2, r2, hreq2, hn2, hpi2⟩ := hqnew
        have hheq : i1.hash = i2.hash := by
          unfold podHash at hh
          rw [hpi1, hpi2] at hh
          simpa using hh
        have e1 := (createReq_facts hreq1).2.1
        have e2 := (createReq_facts hreq2).2.1
        rw [hn1, hn2, e1, e2, hheq]

/-- … in every state reachable inside the envelope in which the Job object exists -/
def OneLiveG (s : Sys) : Prop := s.job.isSome = true → OneLive s

theorem OneLive.of_pods {s s' : Sys} (h : OneLive s)
    (hsub : ∀ q' ∈ s'.pods, ∃ q ∈ s.pods, q.pod.name = q'.pod.name ∧ q.pod.parallelIndex = q'.pod.parallelIndex ∧
      (q.pod.isFinished = true → q'.pod.isFinished = true)) : OneLive s' := by
  intro p hp q hq hpf hqf hh hne
  obtain ⟨p0, hp0, hp0n, hp0pi, hp0f⟩ := hsub p hp
  obtain ⟨q0, hq0, hq0n, hq0pi, hq0f⟩ := hsub q hq
  have hp0u : p0.pod.isFinished = false := by
    cases hx : p0.pod.isFinished with
    | false => rfl
    | true => rw [hp0f hx] at hpf; cases hpf
  have hq0u : q0.pod.isFinished = false := by
    cases hx : q0.pod.isFinished with
    | false => rfl
    | true => rw [hq0f hx] at hqf; cases hqf
  rw [← hp0n, ← hq0n]
  refine h p0 hp0 q0 hq0 hp0u hq0u ?_ ?_
  · unfold podHash at hh ⊢; rw [hp0pi, hq0pi]; exact hh
  · unfold podHash at hne ⊢; rw [hp0pi]; exact hne

theorem OneLiveG.step {j0 : JobObj} {s : Sys} (hb : Base j0 s) (h2 : Inv2 j0 s) (ho : Owned j0 s) (h3 : Inv3G s) (h4 : Inv4 j0 s)
    (hwf : WF2 j0 s.d) (h : OneLiveG s) (a : Action) (henv : stabEnv s a) (hal : Allowed j0 s a) :
    OneLiveG (JobCtl.step s a) := by
  intro hj'
  have hj : s.job.isSome = true := by
    cases hjs : s.job with
    | none =>
      have := (job_moves hb a hal).none_stays hjs
      rw [this] at hj'; cases hj'
    | some j => rfl
  have h' := h hj
  obtain ⟨j, hjj⟩ := Option.isSome_iff_exists.mp hj
  have same : ∀ {t : Sys}, t.pods = s.pods → OneLive t := by
    intro t ht p hp q hq
    rw [ht] at hp hq
    exact h' p hp q hq
  cases a with
  | setFaults fs => exact same rfl
  | work =>
    cases hget : (s.q.advance s.clock).get with
    | none => exact same (work_idle s hget).pods
    | some kq => exact OneLive.work hb h2 ho (h3 hj) h4 hwf j hjj (henv.2.2 rfl hj (by rw [hget]; rfl)) h'
  | deliverJob => exact same (deliverJob_fields s).2.2.1
  | deliverPod => exact same (deliverPod_fields s).2.2.1
  | resync => exact same (resync_frame s).pods
  | restart =>
    refine same ?_
    show (restart s).pods = s.pods
    unfold restart; cases s.job <;> rfl
  | advance d => exact same rfl
  | kubelet p =>
    show OneLive (setPodState s p)
    rcases setPodState_spec s p with hs | ⟨old, hs⟩
    · rw [hs]; exact h'
    · have hk : KubeletOK old p := by
        obtain ⟨o, ho, hk⟩ := (optSat_iff _ _).mp hal
        rw [hs.found] at ho; cases ho; exact hk
      have hold := findPod_some hs.found
      refine h'.of_pods ?_
      intro q hq
      rw [hs.pods] at hq
      rcases mem_setPod hq with rfl | hq
      · refine ⟨old, hold.1, hold.2, hk.2.2.2.2.2.2.2.1.symm, ?_⟩
        intro hf
        have := hk.2.2.2.2.2.2.2.2.2 hf
        rw [this]; exact hf
      · exact ⟨q, hq, rfl, rfl, fun hf => hf⟩
  | podGone n =>
    show OneLive (removePod s n)
    rcases removePod_spec s n with hs | ⟨p, _, hs⟩
    · rw [hs]; exact h'
    · refine h'.of_pods ?_
      intro q hq
      rw [hs.pods] at hq
      exact ⟨q, (mem_delPod hq).1, rfl, rfl, fun hf => hf⟩
  | externalDelete n =>
    show OneLive (removePod s n)
    rcases removePod_spec s n with hs | ⟨p, _, hs⟩
    · rw [hs]; exact h'
    · refine h'.of_pods ?_
      intro q hq
      rw [hs.pods] at hq
      exact ⟨q, (mem_delPod hq).1, rfl, rfl, fun hf => hf⟩
  | kill t => exact absurd henv.2.1 (by simp [noUserEdit])
  | userDelete => exact absurd henv.2.1 (by simp [noUserEdit])
  | createForeign p => exact absurd henv.1 (by simp [noForeign])

theorem oneLive_of_reach {ok : Sys → Action → Prop} (hok : ∀ s a, ok s a → stabEnv s a) {j0 : JobObj} {s : Sys}
    (hr : Reach ok j0 s) (hwf : WF2 j0 s.d) (hwf3 : WF3 j0) : OneLiveG s := by
  induction hr with
  | init c cfg d hw => intro _ p hp; cases hp
  | step a hr' hoka hal ih =>
    rw [step_d] at hwf
    have hnf : ∀ s a, ok s a → noForeign s a := fun s a h => (hok s a h).1
    exact OneLiveG.step (base_of_reach hr') (inv2_of_reach hr' hwf) (owned_of_reach hnf hr')
      (inv3_of_reach hok hr' hwf hwf3) (inv4_of_reach hr' hwf) hwf (ih hwf) a (hok _ a hoka) hal

end Furiko.JobCtl
