/-
Liveness of the job controller, part 8: what becomes of one recorded ref when the refs are refreshed
(`GenerateTaskRefs`) while every pod of the Job is finished.
* a DEAD ref (finished, final state, no success recorded anywhere in it) stays dead, with the same finish
  time — whether its pod is still there or not;
* a LIVE ref (unfinished, no deletion marker) becomes finished: dead, or succeeded when its pod did;
* the ref of a task that was not recorded yet is live when the task is unfinished, and finished (dead or
  succeeded) when the task is.
Core Lean only.
-/
import FurikoModel.Proofs.JobCtlLive7

set_option linter.unusedSimpArgs false
set_option linter.unusedVariables false

namespace Furiko.JobCtl.Live
open Furiko Furiko.JobCtl Furiko.WQ Furiko.StatusLemmas Furiko.JobCtlPlan

/-- a recorded attempt that is over and did not succeed -/
structure Dead (r : TaskRef) : Prop where
  fin : r.finishTimestamp.isSome = true
  nosucc : r.status.result ≠ .succeeded
  final : isFinalTaskState r.status.state = true
  ds : ∀ x, r.deletedStatus = some x → x.result ≠ .succeeded ∧ isFinalTaskState x.state = true

/-- a recorded attempt that is not over -/
structure LiveRef (r : TaskRef) : Prop where
  unfin : r.finishTimestamp = none
  nods : r.deletedStatus = none
  nosucc : r.status.result ≠ .succeeded

/-- a recorded attempt that succeeded -/
structure SuccRef (r : TaskRef) : Prop where
  fin : r.finishTimestamp.isSome = true
  succ : r.status.result = .succeeded

/-- what a task read from a pod reports (`TaskSem` of the stability proofs plus the name) -/
structure TaskGood (t : Task) : Prop where
  ok : TaskOK t
  succFin : t.ref.status.result = .succeeded → t.ref.finishTimestamp.isSome = true
  finFinal : t.ref.finishTimestamp.isSome = true → isFinalTaskState t.ref.status.state = true
  noDs : t.ref.deletedStatus = none

theorem TaskGood.final {t : Task} (h : TaskGood t) : TaskFinal t := h.finFinal

theorem podTask_taskGood {now : Time} {p : PodObj} {t : Task} (hc : p.pod.creationTimestamp.isSome = true)
    (h : podTask now p = some t) : TaskGood t := by
  have hs := podTask_sem hc h
  exact ⟨(podTask_ok h).1, hs.succFin, hs.finFinal, hs.noDs⟩

/-! ### dead refs stay dead -/

theorem dead_getTaskRef {r : TaskRef} {t : Task} (hd : Dead r) (hf : t.ref.finishTimestamp.isSome = true) :
    Dead (getTaskRef (some r) t) ∧ (getTaskRef (some r) t).finishTimestamp = r.finishTimestamp := by
  obtain ⟨h1, h2, h3⟩ := getTaskRef_some_frozen r t hd.fin hf hd.final
  refine ⟨⟨by rw [h2]; exact hd.fin, by rw [h1]; exact hd.nosucc, by rw [h1]; exact hd.final, ?_⟩, h2⟩
  rw [h3]; exact hd.ds

theorem dead_lostRef {r : TaskRef} (now : Time) (hd : Dead r) :
    Dead (lostRef now r) ∧ (lostRef now r).finishTimestamp = r.finishTimestamp := by
  unfold lostRef
  cases hf : r.finishTimestamp with
  | none => have := hd.fin; rw [hf] at this; cases this
  | some f =>
    cases hds : r.deletedStatus with
    | none =>
      simp only [Option.isNone_some, Bool.false_eq_true, ↓reduceIte]
      refine ⟨⟨by rw [hf]; rfl, hd.nosucc, by simp [isFinalTaskState], ?_⟩, hf⟩
      intro x hx; rw [hds] at hx; cases hx
    | some x =>
      simp only [Option.isNone_some, Bool.false_eq_true, ↓reduceIte]
      have hx := hd.ds x hds
      refine ⟨⟨by rw [hf]; rfl, hx.1, hx.2, ?_⟩, hf⟩
      intro y hy; rw [hds] at hy; cases hy; exact hx

/-! ### live refs end -/

theorem live_getTaskRef {r : TaskRef} {t : Task} (hl : LiveRef r) (ht : TaskGood t)
    (hf : t.ref.finishTimestamp.isSome = true) :
    (getTaskRef (some r) t).finishTimestamp.isSome = true ∧
    (getTaskRef (some r) t).status = t.ref.status ∧
    (t.ref.status.result ≠ .succeeded → Dead (getTaskRef (some r) t)) := by
  obtain ⟨h1, h2, h3⟩ := getTaskRef_some_fresh r t (by rw [hl.unfin]; rfl) hf
  refine ⟨by rw [h2]; exact hf, h1, ?_⟩
  intro hns
  refine ⟨by rw [h2]; exact hf, by rw [h1]; exact hns, by rw [h1]; exact ht.finFinal hf, ?_⟩
  intro x hx
  rw [h3] at hx
  cases hx
  exact ⟨hns, ht.finFinal hf⟩

theorem live_lostRef {r : TaskRef} (now : Time) (hl : LiveRef r) : Dead (lostRef now r) := by
  unfold lostRef
  simp only [hl.unfin, Option.isNone_none, ↓reduceIte, hl.nods]
  refine ⟨rfl, hl.nosucc, by simp [isFinalTaskState], ?_⟩
  intro x hx; cases hx

/-- a live ref whose task is still unfinished stays live -/
theorem live_getTaskRef_unfinished {r : TaskRef} {t : Task} (hl : LiveRef r) (ht : TaskGood t)
    (hf : t.ref.finishTimestamp = none) : LiveRef (getTaskRef (some r) t) := by
  obtain ⟨h1, h2, h3⟩ := getTaskRef_some_unfinished r t (by rw [hf]; rfl)
  refine ⟨by rw [h2]; exact hl.unfin, by rw [h3]; exact hl.nods, ?_⟩
  rw [h1]
  intro hs
  have := ht.succFin hs
  rw [hf] at this; cases this

/-! ### refs of tasks that were not recorded -/

theorem new_getTaskRef_unfinished {t : Task} (ht : TaskGood t) (hf : t.ref.finishTimestamp = none) :
    LiveRef (getTaskRef none t) := by
  obtain ⟨h1, h2, h3⟩ := getTaskRef_none_fields t
  refine ⟨by rw [h2]; exact hf, ?_, ?_⟩
  · rw [h3, hf]; simp [ht.noDs]
  · rw [h1]
    intro hs
    have := ht.succFin hs
    rw [hf] at this; cases this

theorem new_getTaskRef_finished {t : Task} (ht : TaskGood t) (hf : t.ref.finishTimestamp.isSome = true) :
    (getTaskRef none t).finishTimestamp.isSome = true ∧ (getTaskRef none t).status = t.ref.status ∧
    (t.ref.status.result ≠ .succeeded → Dead (getTaskRef none t)) := by
  obtain ⟨h1, h2, h3⟩ := getTaskRef_none_fields t
  refine ⟨by rw [h2]; exact hf, h1, ?_⟩
  intro hns
  refine ⟨by rw [h2]; exact hf, by rw [h1]; exact hns, by rw [h1]; exact ht.finFinal hf, ?_⟩
  intro x hx
  rw [h3, if_pos hf] at hx
  cases hx
  exact ⟨hns, ht.finFinal hf⟩

theorem Dead.not_activeOrSuccessful {r : TaskRef} (h : Dead r) : refActiveOrSuccessful r = false := by
  unfold refActiveOrSuccessful
  cases hf : r.finishTimestamp with
  | none => have := h.fin; rw [hf] at this; cases this
  | some f =>
    have := h.nosucc
    cases hr : r.status.result <;> simp_all

theorem LiveRef.activeOrSuccessful {r : TaskRef} (h : LiveRef r) : refActiveOrSuccessful r = true := by
  unfold refActiveOrSuccessful
  simp [h.unfin]

theorem Dead.not_live {r : TaskRef} (h : Dead r) (hl : LiveRef r) : False := by
  have := h.fin; rw [hl.unfin] at this; cases this

/-- when every ref is dead no attempt is recorded as successful and every one as finished -/
theorem allDead_facts {L : List TaskRef} (h : ∀ r ∈ L, Dead r) : ¬ AnySucc L ∧ AllFin L ∧
    L.any refActiveOrSuccessful = false := by
  refine ⟨?_, fun r hr => (h r hr).fin, ?_⟩
  · rintro ⟨r, hr, hs⟩; exact (h r hr).nosucc hs
  · cases ha : L.any refActiveOrSuccessful with
    | false => rfl
    | true =>
      obtain ⟨r, hr, hx⟩ := List.any_eq_true.mp ha
      rw [(h r hr).not_activeOrSuccessful] at hx; cases hx

end Furiko.JobCtl.Live
