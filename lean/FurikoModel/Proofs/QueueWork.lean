/-
The worker steps (`syncConfig`, `workConfig`, `syncIndependent`, `workIndependent`) in terms of
`Pass`; timers armed by a pass; the quiet pass; draining the controller's notification queue.
-/
import FurikoModel.Proofs.QueueRun

set_option linter.unusedSimpArgs false
set_option linter.unusedVariables false

namespace Furiko.Queue
open Furiko.WQ

/-! ### `syncConfig` / `workConfig` -/

theorem syncConfig_eq (s : Sys) (name : String) :
    syncConfig s name =
      match findJC s.jcCache name with
      | none => (s, true)
      | some jc => passLoop jc (listQueued s.jobCache jc) s (getCtr s.counter jc.uid) := by
  unfold syncConfig
  cases findJC s.jcCache name with
  | none => rfl
  | some jc =>
    simp only
    split
    · rename_i h
      simp only [List.isEmpty_iff] at h
      rw [h]; rfl
    · rfl

theorem syncConfig_Pass {s : Sys} {name : String} {jc : JCV}
    (hjc : findJC s.jcCache name = some jc) :
    ∃ cs, Pass jc (listQueued s.jobCache jc) s (getCtr s.counter jc.uid) cs
      (syncConfig s name).1 (syncConfig s name).2 := by
  rw [syncConfig_eq, hjc]
  exact passLoop_Pass _ _ _ _

/-- the state a per-config pass starts from: timers fired, key taken, call log reset -/
def cfgPre (s : Sys) (q1 : WQ) : Sys := { s with cfgQ := q1, calls := [] }

/-- bookkeeping of the work queue after the pass -/
def cfgPost (s1 : Sys) (k : String) (ok : Bool) : Sys :=
  { s1 with cfgQ := (if ok then s1.cfgQ.forget k else s1.cfgQ.addRateLimited k s1.clock).done k }

theorem workConfig_idle {s : Sys} (hg : (s.cfgQ.advance s.clock).get = none) :
    workConfig s = ({ s with cfgQ := s.cfgQ.advance s.clock, calls := [] }, "idle") := by
  unfold workConfig
  simp only [hg]

theorem workConfig_get {s : Sys} {k : String} {q1 : WQ}
    (hg : (s.cfgQ.advance s.clock).get = some (k, q1)) :
    workConfig s = (cfgPost (syncConfig (cfgPre s q1) (keyName k)).1 k
        (syncConfig (cfgPre s q1) (keyName k)).2,
      if (syncConfig (cfgPre s q1) (keyName k)).2 then "ok" else "err") := by
  unfold workConfig
  simp only [hg]
  rfl

theorem workConfig_noJC {s : Sys} {k : String} {q1 : WQ}
    (hg : (s.cfgQ.advance s.clock).get = some (k, q1))
    (hjc : findJC s.jcCache (keyName k) = none) :
    workConfig s = (cfgPost (cfgPre s q1) k true, "ok") := by
  rw [workConfig_get hg, syncConfig_eq]
  have : findJC (cfgPre s q1).jcCache (keyName k) = none := hjc
  rw [this]; rfl

/-- a worker step that found its JobConfig is a `Pass` from `cfgPre` followed by `cfgPost` -/
theorem workConfig_Pass {s : Sys} {k : String} {q1 : WQ} {jc : JCV}
    (hg : (s.cfgQ.advance s.clock).get = some (k, q1))
    (hjc : findJC s.jcCache (keyName k) = some jc) :
    ∃ s1 ok, Pass jc (listQueued s.jobCache jc) (cfgPre s q1) (getCtr s.counter jc.uid)
        s1.calls s1 ok ∧
      workConfig s = (cfgPost s1 k ok, if ok then "ok" else "err") := by
  have hjc' : findJC (cfgPre s q1).jcCache (keyName k) = some jc := hjc
  obtain ⟨cs, hp⟩ := syncConfig_Pass hjc'
  have hc : (syncConfig (cfgPre s q1) (keyName k)).1.calls = [] ++ cs := hp.calls
  rw [List.nil_append] at hc
  refine ⟨_, _, ?_, workConfig_get hg⟩
  rw [hc]; exact hp

/-- either the step logged nothing and did not fail, or it was a pass -/
theorem workConfig_cases (s : Sys) :
    ((workConfig s).1.calls = [] ∧ (workConfig s).2 ≠ "err" ∧ (workConfig s).1.jobs = s.jobs) ∨
    ∃ k q1 jc, (s.cfgQ.advance s.clock).get = some (k, q1) ∧
      findJC s.jcCache (keyName k) = some jc := by
  cases hg : (s.cfgQ.advance s.clock).get with
  | none => left; rw [workConfig_idle hg]; exact ⟨rfl, by simp, rfl⟩
  | some p =>
    obtain ⟨k, q1⟩ := p
    cases hjc : findJC s.jcCache (keyName k) with
    | none => left; rw [workConfig_noJC hg hjc]; exact ⟨rfl, by simp, rfl⟩
    | some jc => right; exact ⟨k, q1, jc, rfl, hjc⟩

/-- the `Run` of a worker step: its whole call log, from the cached queued Jobs -/
theorem workConfig_Run (s : Sys) :
    ((workConfig s).1.calls = [] ∧ (workConfig s).2 ≠ "err" ∧ (workConfig s).1.jobs = s.jobs) ∨
    ∃ jc ok acf, Run jc s.clock (listQueued s.jobCache jc) (getCtr s.counter jc.uid)
        (workConfig s).1.calls ok acf ∧ (workConfig s).2 = (if ok then "ok" else "err") ∧
        acf = getCtr (workConfig s).1.counter jc.uid ∧
        (∀ c ∈ (workConfig s).1.calls, c.res = "ok" → Written (workConfig s).1 c) ∧
        (workConfig s).1.clock = s.clock := by
  rcases workConfig_cases s with h | ⟨k, q1, jc, hg, hjc⟩
  · exact Or.inl h
  · right
    obtain ⟨s1, ok, hp, hw⟩ := workConfig_Pass hg hjc
    obtain ⟨acf, hr, hc⟩ := hp.toRun
    rw [hw]
    exact ⟨jc, ok, acf, hr, rfl, hc rfl, hp.ok_written, hp.frame.clock⟩

/-! ### timers armed by a pass -/

theorem HasDeadline.weaken {d : List (String × Int)} {k : String} {b b' : Int}
    (h : HasDeadline d k b) (hle : b ≤ b') : HasDeadline d k b' := by
  obtain ⟨d', hm, hd⟩ := h
  exact ⟨d', hm, Int.le_trans hd hle⟩

/-- an ok pass has called `AddAfter` for every Job it deferred -/
theorem Pass.deferred_deadline {jc : JCV} {rjs : List JobV} {s : Sys} {ac : Int} {cs : List Call}
    {s' : Sys} {ok : Bool} (h : Pass jc rjs s ac cs s' ok) : ok = true →
    ∀ j ∈ rjs, j.hasPolicy = true → startAfterLater j s.clock = true →
      HasDeadline s'.cfgQ.delayed ("ns/" ++ jc.name)
        (max (s.clock + 1000000000) ((j.startAfter.getD 0) * 1000000000)) := by
  induction h with
  | nil => simp
  | @defer j rest s ac cs s' ok h1 h2 hp ih =>
    intro hok x hx hx1 hx2
    rcases List.mem_cons.mp hx with rfl | hx
    · apply hp.deadline_mono
      exact HasDeadline.weaken (hasDeadline_addAfter_self s.cfgQ _ _ _) (by split <;> omega)
    · exact ih hok x hx hx1 hx2
  | @wait j rest s ac cs s' ok h1 h2 _ _ hp ih =>
    intro hok x hx hx1 hx2
    rcases List.mem_cons.mp hx with rfl | hx
    · rw [h2] at hx2; cases hx2
    · exact ih hok x hx hx1 hx2
  | rejectFail => intro h; cases h
  | @rejectOk j rest s ac cs s' ok cur h1 h2 _ _ _ _ _ _ hp ih =>
    intro hok x hx hx1 hx2
    rcases List.mem_cons.mp hx with rfl | hx
    · rw [h2] at hx2; cases hx2
    · exact ih hok x hx hx1 hx2
  | rejectLost => intro h; cases h
  | @rejectNoop j rest s ac cs s' ok cur h1 h2 _ _ _ _ _ _ _ hp ih =>
    intro hok x hx hx1 hx2
    rcases List.mem_cons.mp hx with rfl | hx
    · rw [h2] at hx2; cases hx2
    · exact ih hok x hx hx1 hx2
  | rejectNoopLost => intro h; cases h
  | casFail => intro h; cases h
  | startFail => intro h; cases h
  | @startOk j rest s ac cs s' ok cur hv _ _ _ _ _ hp ih =>
    intro hok x hx hx1 hx2
    rcases List.mem_cons.mp hx with rfl | hx
    · exact absurd ⟨hx1, hx2⟩ hv.1
    · exact ih hok x hx hx1 hx2
  | startLost => intro h; cases h

theorem startAfterLater_some {j : JobV} {clock : Int} (h : startAfterLater j clock = true) :
    ∃ t, j.startAfter = some t ∧ t * 1000000000 > clock := by
  unfold startAfterLater at h
  split at h
  · rename_i t ht; exact ⟨t, ht, by simpa using h⟩
  · cases h

theorem delayed_done (q : WQ) (k : String) : (q.done k).delayed = q.delayed := by
  unfold WQ.done; simp only; split <;> rfl

theorem cfgPost_delayed_ok (s1 : Sys) (k : String) :
    (cfgPost s1 k true).cfgQ.delayed = s1.cfgQ.delayed := by
  simp [cfgPost, delayed_done, WQ.forget]

theorem cfgPost_delayed_err (s1 : Sys) (k : String) :
    HasDeadline (cfgPost s1 k false).cfgQ.delayed k (s1.clock + 320000000) := by
  simp only [cfgPost, Bool.false_eq_true, if_false, delayed_done]
  exact hasDeadline_addRateLimited_self _ _ _

/-! ### the quiet pass -/

theorem not_faultBlocks_of_nil {s : Sys} (h : s.faults = []) : ¬ faultBlocks s := by
  unfold faultBlocks nextFault; rw [h]; decide

theorem nextFault_of_nil {s : Sys} (h : s.faults = []) : nextFault s = "" := by
  unfold nextFault; rw [h]; rfl

theorem not_writeRefused {s : Sys} {j cur : JobV} (hf : s.faults = [])
    (hc : findJob s.jobs j.name = some cur) (hrv : cur.rv = j.rv) : ¬ writeRefused s j := by
  intro h
  rcases h with h | h | ⟨c, h1, h2⟩
  · exact not_faultBlocks_of_nil hf h
  · rw [hc] at h; cases h
  · rw [hc] at h1; cases h1; exact h2 hrv

/-- without faults, with an accurate counter argument and cached versions matching the
authoritative ones, a pass cannot fail -/
theorem Pass.quiet {jc : JCV} {rjs : List JobV} {s : Sys} {ac : Int} {cs : List Call}
    {s' : Sys} {ok : Bool} (h : Pass jc rjs s ac cs s' ok) :
    s.faults = [] → ac = getCtr s.counter jc.uid → (rjs.map (·.name)).Nodup →
    (∀ j ∈ rjs, ∃ cur, findJob s.jobs j.name = some cur ∧ cur.rv = j.rv) → ok = true := by
  induction h with
  | nil => intros; rfl
  | defer _ _ _ ih =>
    intro hf hac hnd hcur
    simp only [List.map_cons, List.nodup_cons] at hnd
    exact ih hf hac hnd.2 (fun x hx => hcur x (List.mem_cons_of_mem _ hx))
  | wait _ _ _ _ _ ih =>
    intro hf hac hnd hcur
    simp only [List.map_cons, List.nodup_cons] at hnd
    exact ih hf hac hnd.2 (fun x hx => hcur x (List.mem_cons_of_mem _ hx))
  | @rejectFail j rest s ac res _ _ _ _ _ hwhy =>
    intro hf hac hnd hcur
    obtain ⟨cur, hc, hrv⟩ := hcur j (by simp)
    exact absurd hwhy (not_writeRefused hf hc hrv)
  | @rejectOk j rest s ac cs s' ok cur _ _ _ _ hfj _ _ _ _ ih =>
    intro hf hac hnd hcur
    simp only [List.map_cons, List.nodup_cons, List.mem_map, not_exists, not_and] at hnd
    refine ih (by simp [applyWrite, hf]) hac hnd.2 (fun x hx => ?_)
    obtain ⟨c, hc, hrv⟩ := hcur x (List.mem_cons_of_mem _ hx)
    refine ⟨c, ?_, hrv⟩
    simp only [applyWrite, findJob_setJob]
    have hn : (rejectedJob s (rejMsg jc ac) j cur).name = j.name :=
      (findJob_some_name hfj : cur.name = j.name)
    rw [if_neg (by rw [hn]; exact fun he => hnd.1 x hx he.symm)]
    exact hc
  | rejectLost cur _ _ _ _ _ _ _ ha =>
    intro hf; rw [nextFault_of_nil hf] at ha; exact absurd ha (by decide)
  | @rejectNoop j rest s ac cs s' ok cur _ _ _ _ hfj _ _ _ _ _ ih =>
    intro hf hac hnd hcur
    simp only [List.map_cons, List.nodup_cons] at hnd
    exact ih (by simp [failWrite, hf]) hac hnd.2 (fun x hx => hcur x (List.mem_cons_of_mem _ hx))
  | rejectNoopLost cur _ _ _ _ _ _ _ ha =>
    intro hf; rw [nextFault_of_nil hf] at ha; exact absurd ha (by decide)
  | casFail _ hne => intro _ hac; exact absurd hac.symm hne
  | @startFail j rest s ac res _ _ _ hwhy =>
    intro hf hac hnd hcur
    obtain ⟨cur, hc, hrv⟩ := hcur j (by simp)
    exact absurd hwhy (not_writeRefused hf hc hrv)
  | @startOk j rest s ac cs s' ok cur _ _ hfj _ _ _ _ ih =>
    intro hf hac hnd hcur
    simp only [List.map_cons, List.nodup_cons, List.mem_map, not_exists, not_and] at hnd
    refine ih (by simp [applyWrite, hf]) (by simp [getCtr_setCtr]) hnd.2 (fun x hx => ?_)
    obtain ⟨c, hc, hrv⟩ := hcur x (List.mem_cons_of_mem _ hx)
    refine ⟨c, ?_, hrv⟩
    simp only [applyWrite, findJob_setJob]
    have hn : (startedJob s j cur).name = j.name := (findJob_some_name hfj : cur.name = j.name)
    rw [if_neg (by rw [hn]; exact fun he => hnd.1 x hx he.symm)]
    exact hc
  | startLost cur _ _ _ _ _ ha =>
    intro hf; rw [nextFault_of_nil hf] at ha; exact absurd ha (by decide)

theorem syncConfig_quiet (s : Sys) (name : String) (hf : s.faults = [])
    (hcache : s.jobCache = s.jobs) (hnd : (names s.jobCache).Nodup) :
    (syncConfig s name).2 = true := by
  cases hjc : findJC s.jcCache name with
  | none => rw [syncConfig_eq, hjc]
  | some jc =>
    obtain ⟨cs, hp⟩ := syncConfig_Pass hjc
    refine hp.quiet hf rfl (nodup_names_listQueued jc hnd) (fun j hj => ?_)
    have hm := (mem_listQueued.mp hj).1
    exact ⟨j, by rw [← hcache]; exact findJob_of_mem_nodup hnd hm, rfl⟩

/-! ### `syncIndependent` / `workIndependent` -/

def indPre (s : Sys) (q1 : WQ) : Sys := { s with indQ := q1, calls := [] }

def indPost (s1 : Sys) (k : String) (ok : Bool) : Sys :=
  { s1 with indQ := (if ok then s1.indQ.forget k else s1.indQ.addRateLimited k s1.clock).done k }

theorem workIndependent_idle {s : Sys} (hg : (s.indQ.advance s.clock).get = none) :
    workIndependent s = ({ s with indQ := s.indQ.advance s.clock, calls := [] }, "idle") := by
  unfold workIndependent
  simp only [hg]

theorem workIndependent_get {s : Sys} {k : String} {q1 : WQ}
    (hg : (s.indQ.advance s.clock).get = some (k, q1)) :
    workIndependent s = (indPost (syncIndependent (indPre s q1) (keyName k)).1 k
        (syncIndependent (indPre s q1) (keyName k)).2,
      if (syncIndependent (indPre s q1) (keyName k)).2 then "ok" else "err") := by
  unfold workIndependent
  simp only [hg]
  rfl

theorem syncIndependent_none {s : Sys} {name : String} (h : findJob s.jobCache name = none) :
    syncIndependent s name = (s, true) := by
  unfold syncIndependent; rw [h]

theorem syncIndependent_notQueued {s : Sys} {name : String} {j : JobV}
    (h : findJob s.jobCache name = some j) (hq : j.isQueued = false) :
    syncIndependent s name = (s, true) := by
  unfold syncIndependent; rw [h]; simp [hq]

theorem syncIndependent_later {s : Sys} {name : String} {j : JobV}
    (h : findJob s.jobCache name = some j) (hq : j.isQueued = true)
    (h1 : j.hasPolicy = true) (h2 : startAfterLater j s.clock = true) :
    syncIndependent s name =
      ({ s with indQ := s.indQ.addAfter ("ns/" ++ name) ((j.startAfter.getD 0) * 1000000000) s.clock },
        true) := by
  unfold syncIndependent; rw [h]; simp [hq, h1, h2]

theorem syncIndependent_due {s : Sys} {name : String} {j : JobV}
    (h : findJob s.jobCache name = some j) (hq : j.isQueued = true) (hd : due j s.clock) :
    syncIndependent s name = startJobWrite s j := by
  unfold syncIndependent; rw [h]
  unfold due at hd
  have : (j.hasPolicy && startAfterLater j s.clock) = false := by
    cases h1 : j.hasPolicy <;> cases h2 : startAfterLater j s.clock <;> simp_all
  simp [hq, this]

/-! ### draining the controller's notification queue -/

/-- run the queue controller's handler `n` times -/
def drainN : Nat → Sys → Sys
  | 0, s => s
  | n + 1, s => drainN n (notifyCtrl s)

/-- run the queue controller's handler on every pending notification -/
def drainCtrl (s : Sys) : Sys := drainN s.ctrlQ.length s

theorem notifyCtrl_cons {s : Sys} {n : Note} {rest : List Note} (h : s.ctrlQ = n :: rest) :
    notifyCtrl s = ctrlNotify { s with ctrlQ := rest } (noteJob n) := by
  unfold notifyCtrl; rw [h]

theorem ctrlNotify_frame (s : Sys) (j : JobV) :
    (ctrlNotify s j).ctrlQ = s.ctrlQ ∧ (ctrlNotify s j).jcCache = s.jcCache ∧
    (ctrlNotify s j).jobCache = s.jobCache ∧
    (∀ x, x ∈ s.cfgQ.dirty → x ∈ (ctrlNotify s j).cfgQ.dirty) ∧
    (∀ x, x ∈ s.indQ.dirty → x ∈ (ctrlNotify s j).indQ.dirty) := by
  unfold ctrlNotify
  split
  · exact ⟨rfl, rfl, rfl, fun _ h => h, fun _ h => h⟩
  · exact ⟨rfl, rfl, rfl, fun _ h => dirty_add_mono h, fun _ h => h⟩
  · exact ⟨rfl, rfl, rfl, fun _ h => h, fun _ h => dirty_add_mono h⟩

theorem ctrlNotify_wakes (s : Sys) (j : JobV) :
    (∀ jc, lookupOwner s.jcCache j = some (some jc) →
      ("ns/" ++ jc.name) ∈ (ctrlNotify s j).cfgQ.dirty) ∧
    (lookupOwner s.jcCache j = some none → ("ns/" ++ j.name) ∈ (ctrlNotify s j).indQ.dirty) := by
  unfold ctrlNotify
  constructor
  · intro jc h; rw [h]; exact dirty_add_self _ _
  · intro h; rw [h]; exact dirty_add_self _ _

theorem notifyCtrl_frame (s : Sys) :
    (notifyCtrl s).ctrlQ = s.ctrlQ.tail ∧ (notifyCtrl s).jcCache = s.jcCache ∧
    (notifyCtrl s).jobCache = s.jobCache ∧
    (∀ x, x ∈ s.cfgQ.dirty → x ∈ (notifyCtrl s).cfgQ.dirty) ∧
    (∀ x, x ∈ s.indQ.dirty → x ∈ (notifyCtrl s).indQ.dirty) := by
  cases h : s.ctrlQ with
  | nil =>
    have : notifyCtrl s = s := by unfold notifyCtrl; rw [h]
    rw [this, h]; exact ⟨rfl, rfl, rfl, fun _ h => h, fun _ h => h⟩
  | cons n rest =>
    rw [notifyCtrl_cons h]
    exact ctrlNotify_frame { s with ctrlQ := rest } (noteJob n)

theorem drainN_frame (m : Nat) (s : Sys) :
    (drainN m s).ctrlQ = s.ctrlQ.drop m ∧ (drainN m s).jcCache = s.jcCache ∧
    (drainN m s).jobCache = s.jobCache ∧
    (∀ x, x ∈ s.cfgQ.dirty → x ∈ (drainN m s).cfgQ.dirty) ∧
    (∀ x, x ∈ s.indQ.dirty → x ∈ (drainN m s).indQ.dirty) := by
  induction m generalizing s with
  | zero => exact ⟨by simp [drainN], rfl, rfl, fun _ h => h, fun _ h => h⟩
  | succ m ih =>
    obtain ⟨a1, a2, a3, a4, a5⟩ := notifyCtrl_frame s
    obtain ⟨b1, b2, b3, b4, b5⟩ := ih (notifyCtrl s)
    simp only [drainN]
    refine ⟨?_, b2.trans a2, b3.trans a3, fun x h => b4 x (a4 x h), fun x h => b5 x (a5 x h)⟩
    rw [b1, a1]; simp [List.drop_tail]

/-- draining leaves no pending notification -/
theorem drainCtrl_empty (s : Sys) : (drainCtrl s).ctrlQ = [] := by
  unfold drainCtrl; rw [(drainN_frame _ s).1]; simp

/-- every notification among the first `m` has marked its key dirty after `m` handler runs -/
theorem drainN_wakes (m : Nat) (s : Sys) (note : Note) (hn : note ∈ s.ctrlQ.take m) :
    (∀ jc, lookupOwner s.jcCache (noteJob note) = some (some jc) →
      ("ns/" ++ jc.name) ∈ (drainN m s).cfgQ.dirty) ∧
    (lookupOwner s.jcCache (noteJob note) = some none →
      ("ns/" ++ (noteJob note).name) ∈ (drainN m s).indQ.dirty) := by
  induction m generalizing s with
  | zero => simp at hn
  | succ m ih =>
    cases h : s.ctrlQ with
    | nil => rw [h] at hn; simp at hn
    | cons n rest =>
      rw [h, List.take_succ_cons] at hn
      simp only [drainN]
      obtain ⟨a1, a2, a3, a4, a5⟩ := notifyCtrl_frame s
      rcases List.mem_cons.mp hn with rfl | hn
      · obtain ⟨_, _, _, b4, b5⟩ := drainN_frame m (notifyCtrl s)
        rw [notifyCtrl_cons h] at b4 b5 ⊢
        obtain ⟨w1, w2⟩ := ctrlNotify_wakes { s with ctrlQ := rest } (noteJob note)
        exact ⟨fun jc hl => b4 _ (w1 jc hl), fun hl => b5 _ (w2 hl)⟩
      · have := ih (notifyCtrl s) (by rw [a1, h]; exact hn)
        rw [a2] at this
        exact this

theorem drainCtrl_wakes (s : Sys) (note : Note) (hn : note ∈ s.ctrlQ) :
    (∀ jc, lookupOwner s.jcCache (noteJob note) = some (some jc) →
      ("ns/" ++ jc.name) ∈ (drainCtrl s).cfgQ.dirty) ∧
    (lookupOwner s.jcCache (noteJob note) = some none →
      ("ns/" ++ (noteJob note).name) ∈ (drainCtrl s).indQ.dirty) := by
  unfold drainCtrl
  exact drainN_wakes _ s note (by simpa using hn)

/-! ### the link lemma in one piece -/

/-- everything known about a `passLoop`: its new calls `cs` form a `Run`, the final count is the
counter, the frame, and applied calls are visible in the authoritative state -/
theorem passLoop_Run (jc : JCV) (rjs : List JobV) (s : Sys) (ac : Int) :
    ∃ cs acf, (passLoop jc rjs s ac).1.calls = s.calls ++ cs ∧
      Run jc s.clock rjs ac cs (passLoop jc rjs s ac).2 acf ∧
      (ac = getCtr s.counter jc.uid → acf = getCtr (passLoop jc rjs s ac).1.counter jc.uid) ∧
      Frame s (passLoop jc rjs s ac).1 ∧
      (∀ c ∈ cs, c.res = "ok" → Written (passLoop jc rjs s ac).1 c) := by
  obtain ⟨cs, hp⟩ := passLoop_Pass jc rjs s ac
  obtain ⟨acf, hr, hc⟩ := hp.toRun
  exact ⟨cs, acf, hp.calls, hr, hc, hp.frame, hp.ok_written⟩

/-- the new calls of a `passLoop` are determined by the final log -/
theorem passLoop_Run_of_calls {jc : JCV} {rjs : List JobV} {s : Sys} {ac : Int} {cs : List Call}
    (h : (passLoop jc rjs s ac).1.calls = s.calls ++ cs) :
    ∃ acf, Run jc s.clock rjs ac cs (passLoop jc rjs s ac).2 acf ∧
      (ac = getCtr s.counter jc.uid → acf = getCtr (passLoop jc rjs s ac).1.counter jc.uid) ∧
      Frame s (passLoop jc rjs s ac).1 ∧
      (∀ c ∈ cs, c.res = "ok" → Written (passLoop jc rjs s ac).1 c) := by
  obtain ⟨cs', acf, h1, h2, h3, h4, h5⟩ := passLoop_Run jc rjs s ac
  rw [h1] at h
  have := List.append_cancel_left h
  subst this
  exact ⟨acf, h2, h3, h4, h5⟩

/-- with an accurate counter argument the CAS never fails: an aborted pass logged a call -/
theorem Pass.no_cas_fail {jc : JCV} {rjs : List JobV} {s : Sys} {ac : Int} {cs : List Call}
    {s' : Sys} {ok : Bool} (h : Pass jc rjs s ac cs s' ok) :
    ac = getCtr s.counter jc.uid → ok = false → cs ≠ [] := by
  induction h with
  | nil => intro _ h; cases h
  | defer _ _ _ ih => exact ih
  | wait _ _ _ _ _ ih => exact ih
  | rejectFail => intros; simp
  | rejectOk => intros; simp
  | rejectLost => intros; simp
  | rejectNoop => intros; simp
  | rejectNoopLost => intros; simp
  | casFail _ hne => intro hac; exact absurd hac.symm hne
  | startFail => intros; simp
  | startOk => intros; simp
  | startLost => intros; simp

/-! ### `canStartJob` for a Forbid Job over the limit -/

theorem canStartJob_forbid (s : Sys) (jc : JCV) (j : JobV) (ac : Int)
    (h1 : j.hasPolicy = true) (h2 : j.policy = 1) (h3 : ac + 1 > jc.maxConc)
    (h4 : startAfterLater j s.clock = false) :
    (∃ res, res ≠ "ok" ∧ writeRefused s j ∧
        canStartJob s jc j ac = (failWrite s "reject" j.name res, .error)) ∨
    (∃ cur, findJob s.jobs j.name = some cur ∧ cur.rv = j.rv ∧ ¬ faultBlocks s ∧
        rejectF (rejMsg jc ac) j cur ≠ cur ∧
        canStartJob s jc j ac = (applyWrite s "reject" j.name (rejectedJob s (rejMsg jc ac) j cur),
          if nextFault s = "applied-err" then .error else .skip)) ∨
    (∃ cur, findJob s.jobs j.name = some cur ∧ cur.rv = j.rv ∧ ¬ faultBlocks s ∧
        rejectF (rejMsg jc ac) j cur = cur ∧
        canStartJob s jc j ac = (failWrite s "reject" j.name "ok",
          if nextFault s = "applied-err" then .error else .skip)) := by
  rcases canStartJob_cases s jc j ac with ⟨h, heq⟩ | ⟨h, hl, heq⟩ | ⟨h, hl, hpol, hlim, heq⟩ |
      ⟨h, hl, hpol, hlim, heq⟩ | ⟨h, hl, hn, heq⟩
  · rw [h1] at h; cases h
  · rw [h4] at hl; cases hl
  · rw [heq]
    rcases rejectJobWrite_cases s j (jc.name, ac) with ⟨res, hres, hw, hwhy⟩ |
        ⟨cur, hf, hrv, hnb, hch, hw⟩ | ⟨cur, hf, hrv, hnb, hnoop, hw⟩
    · left; refine ⟨res, hres, hwhy, ?_⟩; rw [hw]; simp
    · right; left; refine ⟨cur, hf, hrv, hnb, hch, ?_⟩; rw [hw]
      by_cases ha : nextFault s = "applied-err" <;> simp [ha, rejectedJob, rejMsg]
    · right; right; refine ⟨cur, hf, hrv, hnb, hnoop, ?_⟩; rw [hw]
      by_cases ha : nextFault s = "applied-err" <;> simp [ha]
  · omega
  · exact absurd ⟨Or.inl h2, h3⟩ hn

/-! ### `workIndependent`, all cases -/

/-- state after `syncIndependent` deferred the Job -/
def indLater (s : Sys) (q1 : WQ) (k : String) (j : JobV) : Sys :=
  { indPre s q1 with indQ := q1.addAfter ("ns/" ++ keyName k) ((j.startAfter.getD 0) * 1000000000) s.clock }

theorem workIndependent_cases (s : Sys) :
    ((s.indQ.advance s.clock).get = none ∧
      workIndependent s = ({ s with indQ := s.indQ.advance s.clock, calls := [] }, "idle")) ∨
    ∃ k q1, (s.indQ.advance s.clock).get = some (k, q1) ∧
      (((findJob s.jobCache (keyName k) = none ∨
            ∃ j, findJob s.jobCache (keyName k) = some j ∧ j.isQueued = false) ∧
          workIndependent s = (indPost (indPre s q1) k true, "ok")) ∨
       (∃ j, findJob s.jobCache (keyName k) = some j ∧ j.isQueued = true ∧
          j.hasPolicy = true ∧ startAfterLater j s.clock = true ∧
          workIndependent s =
            (indPost (indLater s q1 k j) k true, "ok")) ∨
       (∃ j, findJob s.jobCache (keyName k) = some j ∧ j.isQueued = true ∧ due j s.clock ∧
          ((∃ res, res ≠ "ok" ∧ writeRefused s j ∧
              workIndependent s =
                (indPost (failWrite (indPre s q1) "start" j.name res) k false, "err")) ∨
           (∃ cur, findJob s.jobs j.name = some cur ∧ cur.rv = j.rv ∧ ¬ faultBlocks s ∧
              workIndependent s =
                (indPost (applyWrite (indPre s q1) "start" j.name (startedJob s j cur)) k
                    (decide (nextFault s ≠ "applied-err")),
                  if nextFault s ≠ "applied-err" then "ok" else "err"))))) := by
  cases hg : (s.indQ.advance s.clock).get with
  | none => left; exact ⟨rfl, workIndependent_idle hg⟩
  | some p =>
    obtain ⟨k, q1⟩ := p
    right; refine ⟨k, q1, rfl, ?_⟩
    rw [workIndependent_get hg]
    cases hj : findJob s.jobCache (keyName k) with
    | none =>
      left; refine ⟨Or.inl rfl, ?_⟩
      have hj' : findJob (indPre s q1).jobCache (keyName k) = none := hj
      rw [syncIndependent_none hj']; rfl
    | some j =>
      have hj' : findJob (indPre s q1).jobCache (keyName k) = some j := hj
      cases hq : j.isQueued with
      | false =>
        left; refine ⟨Or.inr ⟨j, rfl, hq⟩, ?_⟩
        rw [syncIndependent_notQueued hj' hq]; rfl
      | true =>
        right
        by_cases hd : due j s.clock
        · right; refine ⟨j, rfl, hq, hd, ?_⟩
          rw [syncIndependent_due hj' hq hd, startJobWrite_eq]
          rcases apiWriteJob_cases (indPre s q1) "start" j (startF (indPre s q1).clock j) with
            ⟨res, hres, hw, hwhy⟩ | ⟨cur, hf, hrv, hnb, hw⟩
          · left; refine ⟨res, hres, hwhy, ?_⟩; rw [hw]; rfl
          · right; refine ⟨cur, hf, hrv, hnb, ?_⟩; rw [hw]
            have : nextFault (indPre s q1) = nextFault s := rfl
            by_cases ha : nextFault s = "applied-err" <;> simp [ha, this] <;> rfl
        · left
          unfold due at hd
          have hd' : j.hasPolicy = true ∧ startAfterLater j s.clock = true := by
            cases h1 : j.hasPolicy <;> cases h2 : startAfterLater j s.clock <;> simp_all
          refine ⟨j, rfl, hq, hd'.1, hd'.2, ?_⟩
          rw [syncIndependent_later hj' hq hd'.1 hd'.2]; rfl

/-! ### `due` and `startAfter` -/

theorem due_startAfter {j : JobV} {clock : Int} (hd : due j clock)
    (hwf : j.hasPolicy = false → j.startAfter = none) :
    ∀ t, j.startAfter = some t → t * 1000000000 ≤ clock := by
  intro t ht
  cases hp : j.hasPolicy with
  | false => rw [hwf hp] at ht; cases ht
  | true =>
    unfold due at hd
    have : startAfterLater j clock = false := by
      cases h2 : startAfterLater j clock
      · rfl
      · exact absurd ⟨hp, h2⟩ hd
    unfold startAfterLater at this
    rw [ht] at this
    simp only [gt_iff_lt, decide_eq_false_iff_not, Int.not_lt] at this
    exact this

end Furiko.Queue
