/-
Plan-level lemmas, third part: task creation (`syncCreateTask`, `createLoop`,
`syncCreateTasks`): every create call is for a request of `computeMissingIndexesForCreation` on
the CACHED refs whose earliest time has come, nothing is created when `canCreateTask` is false or
the refreshed summary is complete, and deferred requests arm a timer.  Core Lean only.
-/
import FurikoModel.Proofs.JobCtlPlan

namespace Furiko.JobCtlPlan
open Furiko Furiko.JobCtl Furiko.WQ

/-- `b` is `a` except that the admission-error annotation may have been added -/
structure SpecMono (a b : Job) : Prop where
  template : b.template = a.template
  killTimestamp : b.killTimestamp = a.killTimestamp
  ttl : b.ttlSecondsAfterFinished = a.ttlSecondsAfterFinished
  startPolicy : b.startPolicy = a.startPolicy
  deletionTimestamp : b.deletionTimestamp = a.deletionTimestamp
  status : b.status = a.status
  adm : a.admissionError = true → b.admissionError = true

theorem SpecMono.refl (a : Job) : SpecMono a a := ⟨rfl, rfl, rfl, rfl, rfl, rfl, fun h => h⟩
theorem SpecMono.trans {a b c : Job} (h1 : SpecMono a b) (h2 : SpecMono b c) : SpecMono a c :=
  ⟨h2.template.trans h1.template, h2.killTimestamp.trans h1.killTimestamp, h2.ttl.trans h1.ttl,
   h2.startPolicy.trans h1.startPolicy, h2.deletionTimestamp.trans h1.deletionTimestamp,
   h2.status.trans h1.status, fun h => h2.adm (h1.adm h)⟩

/-- where a task appended by `syncCreateTask` comes from: the pod just created (call answered
`ok`), or — the call not having created anything — the pod CACHE entry of that name, controlled
by this Job (adoption) -/
def TaskOrigin (s s1 : Sys) (jo : JobObj) (c : Call) (t : Task) : Prop :=
  ∃ p : PodObj, podTask s.clock p = some t ∧ p.pod.name = c.name ∧ p.ownerUid = some jo.uid ∧
    ((c.out = "ok" ∧ s1.pods = s.pods ++ [p] ∧ findPod s.pods c.name = none) ∨
     (c.out ≠ "ok" ∧ s1.pods = s.pods ∧ findPod s.podCache c.name = some p))

/-- `syncCreateTask`: exactly one call, a pod create for `taskName jo.name idx.hash retry` -/
theorem syncCreateTask_ext (s : Sys) (jo : JobObj) (rj : Job) (tasks : List Task) (idx : PIndex) (retry : Int) :
    ∃ c, Ext s (syncCreateTask s jo rj tasks idx retry).1 [c] ∧
      c.verb = "create" ∧ c.res = "pods" ∧ c.name = taskName jo.name idx.hash retry ∧ c.force = false ∧
      (syncCreateTask s jo rj tasks idx retry).1.q = s.q ∧
      (c.out ≠ "ok" → (syncCreateTask s jo rj tasks idx retry).1.pods = s.pods) ∧
      (∀ rj' tasks', (syncCreateTask s jo rj tasks idx retry).2 = some (rj', tasks') →
        SpecMono rj rj' ∧
        (tasks' = tasks ∨ ∃ t, tasks' = tasks ++ [t] ∧
          TaskOrigin s (syncCreateTask s jo rj tasks idx retry).1 jo c t)) := by
  unfold syncCreateTask
  obtain ⟨c, hext, hv, hr, hn, hf, hq, hok, hokp, hnok, hex⟩ := apiCreatePod_ext s jo idx retry
  generalize apiCreatePod s jo idx retry = r at *
  obtain ⟨s1, res⟩ := r
  simp only at hext hq hok hokp hnok hex
  cases res with
  | ok p =>
    simp only
    refine ⟨c, hext, hv, hr, hn, hf, hq, hnok, ?_⟩
    intro rj' tasks' h
    have hcok := hok p rfl
    obtain ⟨hfind, p0, hpods, hpn, hou, _, _, _, _, _, _, huniq⟩ := hokp hcok
    have hp : p = p0 := huniq p rfl
    subst hp
    cases hpt : podTask s.clock p with
    | none => rw [hpt] at h; cases h
    | some t =>
      rw [hpt] at h
      simp only [Option.map_some, Option.some.injEq, Prod.mk.injEq] at h
      obtain ⟨rfl, rfl⟩ := h
      refine ⟨SpecMono.refl _, Or.inr ⟨t, rfl, p, hpt, by rw [hn, hpn], hou, Or.inl ⟨hcok, hpods, by rw [hn]; exact hfind⟩⟩⟩
  | err =>
    simp only
    refine ⟨c, hext, hv, hr, hn, hf, hq, hnok, ?_⟩
    intro rj' tasks' h; cases h
  | «exists» =>
    simp only
    have hcno : c.out ≠ "ok" := by
      rw [hex rfl]; decide
    have hpods := hnok hcno
    cases hfc : findPod s1.podCache (taskName jo.name idx.hash retry) with
    | none =>
      simp only
      refine ⟨c, hext, hv, hr, hn, hf, hq, hnok, ?_⟩
      intro rj' tasks' h; cases h
    | some p =>
      simp only
      have hfc' : findPod s.podCache c.name = some p := by rw [hn, ← hext.podCache]; exact hfc
      by_cases hown : p.ownerUid = some jo.uid
      · rw [if_pos hown]
        refine ⟨c, hext, hv, hr, hn, hf, hq, hnok, ?_⟩
        intro rj' tasks' h
        cases hpt : podTask s.clock p with
        | none => rw [hpt] at h; cases h
        | some t =>
          rw [hpt] at h
          simp only [Option.map_some, Option.some.injEq, Prod.mk.injEq] at h
          obtain ⟨rfl, rfl⟩ := h
          exact ⟨SpecMono.refl _, Or.inr ⟨t, rfl, p, hpt, (findPod_some hfc').2, hown, Or.inr ⟨hcno, hpods, hfc'⟩⟩⟩
      · rw [if_neg hown]
        refine ⟨c, hext, hv, hr, hn, hf, hq, hnok, ?_⟩
        intro rj' tasks' h
        simp only [Option.some.injEq, Prod.mk.injEq] at h
        obtain ⟨rfl, rfl⟩ := h
        exact ⟨⟨rfl, rfl, rfl, rfl, rfl, rfl, fun _ => rfl⟩, Or.inl rfl⟩

-- ---------------------------------------------------------------- createLoop

/-- the request is attempted by the creation loop at clock `clk`: its earliest time is Go's zero
time (unset) or not after the clock -/
def reqDueNow (clk : Int) (r : CreationRequest) : Prop := r.earliest = zeroTime ∨ ¬ (r.earliest > clk)

/-- the request is deferred: earliest time set and after the clock -/
def reqDeferred (clk : Int) (r : CreationRequest) : Prop := r.earliest ≠ zeroTime ∧ r.earliest > clk

theorem reqDue_or_deferred (clk : Int) (r : CreationRequest) : reqDueNow clk r ∨ reqDeferred clk r := by
  unfold reqDueNow reqDeferred
  by_cases h1 : r.earliest = zeroTime
  · exact Or.inl (Or.inl h1)
  · by_cases h2 : r.earliest > clk
    · exact Or.inr ⟨h1, h2⟩
    · exact Or.inl (Or.inr h2)

/-- `MinNonZero(request.Earliest, minEarliest)` -/
def minNonZero (r : CreationRequest) (minE : Option Time) : Option Time :=
  match (if r.earliest = zeroTime then none else some r.earliest : Option Time), minE with
  | none, m => m
  | some a, none => some a
  | some a, some b => some (if b < a then b else a)

theorem minNonZero_le_old (r : CreationRequest) (minE : Option Time) (m : Int) (h : minE = some m) :
    ∃ m' : Int, minNonZero r minE = some m' ∧ m' ≤ m := by
  subst h
  unfold minNonZero
  by_cases hz : r.earliest = zeroTime
  · simp only [hz, if_true]; exact ⟨m, rfl, Int.le_refl _⟩
  · simp only [hz, if_false]
    by_cases hlt : m < r.earliest
    · exact ⟨m, by simp [hlt], Int.le_refl _⟩
    · exact ⟨r.earliest, by simp [hlt], Int.not_lt.mp hlt⟩

theorem minNonZero_le_req (r : CreationRequest) (minE : Option Time) (hz : r.earliest ≠ zeroTime) :
    ∃ m' : Int, minNonZero r minE = some m' ∧ m' ≤ r.earliest := by
  unfold minNonZero
  simp only [hz, if_false]
  cases minE with
  | none => exact ⟨r.earliest, rfl, Int.le_refl _⟩
  | some b =>
    by_cases hlt : b < r.earliest
    · exact ⟨b, by simp [hlt], Int.le_of_lt hlt⟩
    · exact ⟨r.earliest, by simp [hlt], Int.le_refl _⟩

theorem createLoop_cons (jo : JobObj) (r : CreationRequest) (rest : List CreationRequest) (s : Sys) (rj : Job)
    (tasks : List Task) (minE : Option Time) :
    createLoop jo (r :: rest) s rj tasks minE =
      if r.earliest ≠ zeroTime ∧ r.earliest > s.clock then createLoop jo rest s rj tasks (minNonZero r minE)
      else
        match syncCreateTask s jo rj tasks r.index r.retryIndex with
        | (s1, none) => (s1, none)
        | (s1, some (rj1, tasks1)) => createLoop jo rest s1 rj1 tasks1 (minNonZero r minE) := by
  rw [createLoop.eq_def]
  simp only
  unfold minNonZero
  by_cases hz : r.earliest = zeroTime
  · simp only [hz, if_true]
    simp
    rfl
  · by_cases hgt : r.earliest > s.clock
    · simp [hz, hgt]
      rfl
    · simp [hz, hgt]
      rfl

/-- the created-or-adopted tasks of a pass: each comes from a create call of the pass -/
def TasksFrom (s s' : Sys) (jo : JobObj) (l : List Call) (tasks tasks' : List Task) : Prop :=
  ∃ extra, tasks' = tasks ++ extra ∧ ∀ t ∈ extra, ∃ c ∈ l, ∃ s0 s1, (∃ l0, Ext s s0 l0) ∧ (∃ l1, Ext s1 s' l1) ∧
    TaskOrigin s0 s1 jo c t

/-- `createLoop`: every call is a pod create for a request of the list whose earliest time has
come; if the loop does not fail, every such request got its call, and `minE` ends at or below the
earliest time of every deferred request. -/
theorem createLoop_ext (jo : JobObj) : ∀ (reqs : List CreationRequest) (s : Sys) (rj : Job) (tasks : List Task)
    (minE : Option Time),
    ∃ l, Ext s (createLoop jo reqs s rj tasks minE).1 l ∧ (createLoop jo reqs s rj tasks minE).1.q = s.q ∧
      (∀ c ∈ l, c.verb = "create" ∧ c.res = "pods" ∧ c.force = false ∧
        ∃ r ∈ reqs, c.name = taskName jo.name r.index.hash r.retryIndex ∧ reqDueNow s.clock r) ∧
      (∀ rj' tasks' minE', (createLoop jo reqs s rj tasks minE).2 = some (rj', tasks', minE') →
        SpecMono rj rj' ∧
        (∀ r ∈ reqs, reqDueNow s.clock r → ∃ c ∈ l, c.name = taskName jo.name r.index.hash r.retryIndex) ∧
        (∀ r ∈ reqs, r.earliest ≠ zeroTime → ∃ m : Int, minE' = some m ∧ m ≤ r.earliest) ∧
        (∀ m : Int, minE = some m → ∃ m' : Int, minE' = some m' ∧ m' ≤ m) ∧
        ((∀ r ∈ reqs, r.earliest = zeroTime) → minE' = minE) ∧
        TasksFrom s (createLoop jo reqs s rj tasks minE).1 jo l tasks tasks')
  | [], s, rj, tasks, minE => by
    refine ⟨[], Ext.refl s, rfl, by simp, ?_⟩
    intro rj' tasks' minE' h
    simp only [createLoop, Option.some.injEq, Prod.mk.injEq] at h
    obtain ⟨rfl, rfl, rfl⟩ := h
    exact ⟨SpecMono.refl _, by simp, by simp, fun m hm => ⟨m, hm, Int.le_refl _⟩, fun _ => rfl, [], by simp, by simp⟩
  | r :: rest, s, rj, tasks, minE => by
    rw [createLoop_cons]
    by_cases hdef : r.earliest ≠ zeroTime ∧ r.earliest > s.clock
    · rw [if_pos hdef]
      obtain ⟨l, hext, hq, hall, hres⟩ := createLoop_ext jo rest s rj tasks (minNonZero r minE)
      refine ⟨l, hext, hq, ?_, ?_⟩
      · intro c hc
        obtain ⟨h1, h2, h3, r', hr', h4⟩ := hall c hc
        exact ⟨h1, h2, h3, r', List.mem_cons_of_mem _ hr', h4⟩
      · intro rj' tasks' minE' h
        obtain ⟨hsm, hcov, hmin, hold, hz, htf⟩ := hres rj' tasks' minE' h
        refine ⟨hsm, ?_, ?_, ?_, ?_, htf⟩
        · intro r' hr' hdue
          rcases List.mem_cons.mp hr' with rfl | hr'
          · rcases hdue with h | h
            · exact absurd h hdef.1
            · exact absurd hdef.2 h
          · exact hcov r' hr' hdue
        · intro r' hr' hnz
          rcases List.mem_cons.mp hr' with rfl | hr'
          · obtain ⟨m1, hm1, hle1⟩ := minNonZero_le_req r' minE hnz
            obtain ⟨m2, hm2, hle2⟩ := hold m1 hm1
            exact ⟨m2, hm2, Int.le_trans hle2 hle1⟩
          · exact hmin r' hr' hnz
        · intro m hm
          obtain ⟨m1, hm1, hle1⟩ := minNonZero_le_old r minE m hm
          obtain ⟨m2, hm2, hle2⟩ := hold m1 hm1
          exact ⟨m2, hm2, Int.le_trans hle2 hle1⟩
        · intro hallz
          exact absurd (hallz r List.mem_cons_self) hdef.1
    · rw [if_neg hdef]
      have hdue : reqDueNow s.clock r := by
        rcases reqDue_or_deferred s.clock r with h | h
        · exact h
        · exact absurd h hdef
      obtain ⟨c, hext1, hv, hr, hn, hf, hq1, _, hres1⟩ := syncCreateTask_ext s jo rj tasks r.index r.retryIndex
      generalize syncCreateTask s jo rj tasks r.index r.retryIndex = res at *
      obtain ⟨s1, o⟩ := res
      simp only at hext1 hq1 hres1
      cases o with
      | none =>
        simp only
        refine ⟨[c], hext1, hq1, ?_, ?_⟩
        · intro c' hc'
          rw [List.mem_singleton.mp hc']
          exact ⟨hv, hr, hf, r, List.mem_cons_self, hn, hdue⟩
        · intro rj' tasks' minE' h; cases h
      | some pr =>
        obtain ⟨rj1, tasks1⟩ := pr
        simp only
        obtain ⟨hsm1, hto⟩ := hres1 rj1 tasks1 rfl
        obtain ⟨l, hext, hq, hall, hres⟩ := createLoop_ext jo rest s1 rj1 tasks1 (minNonZero r minE)
        refine ⟨[c] ++ l, hext1.trans hext, hq.trans hq1, ?_, ?_⟩
        · intro c' hc'
          rcases List.mem_append.mp hc' with h | h
          · rw [List.mem_singleton.mp h]
            exact ⟨hv, hr, hf, r, List.mem_cons_self, hn, hdue⟩
          · obtain ⟨h1, h2, h3, r', hr', h4, h5⟩ := hall c' h
            exact ⟨h1, h2, h3, r', List.mem_cons_of_mem _ hr', h4, by rw [← hext1.clock]; exact h5⟩
        · intro rj' tasks' minE' h
          obtain ⟨hsm, hcov, hmin, hold, hz, htf⟩ := hres rj' tasks' minE' h
          refine ⟨hsm1.trans hsm, ?_, ?_, ?_, ?_, ?_⟩
          · intro r' hr' hdue'
            rcases List.mem_cons.mp hr' with rfl | hr'
            · exact ⟨c, List.mem_append_left _ (List.mem_singleton.mpr rfl), hn⟩
            · obtain ⟨c', hc', hn'⟩ := hcov r' hr' (by rw [hext1.clock]; exact hdue')
              exact ⟨c', List.mem_append_right _ hc', hn'⟩
          · intro r' hr' hnz
            rcases List.mem_cons.mp hr' with rfl | hr'
            · obtain ⟨m1, hm1, hle1⟩ := minNonZero_le_req r' minE hnz
              obtain ⟨m2, hm2, hle2⟩ := hold m1 hm1
              exact ⟨m2, hm2, Int.le_trans hle2 hle1⟩
            · exact hmin r' hr' hnz
          · intro m hm
            obtain ⟨m1, hm1, hle1⟩ := minNonZero_le_old r minE m hm
            obtain ⟨m2, hm2, hle2⟩ := hold m1 hm1
            exact ⟨m2, hm2, Int.le_trans hle2 hle1⟩
          · intro hallz
            rw [hz (fun r' hr' => hallz r' (List.mem_cons_of_mem _ hr'))]
            unfold minNonZero
            simp [hallz r List.mem_cons_self]
          · obtain ⟨extra, hex, hor⟩ := htf
            have hlift : ∀ t ∈ extra, ∃ c' ∈ [c] ++ l, ∃ s0 s1', (∃ l0, Ext s s0 l0) ∧
                (∃ l1, Ext s1' (createLoop jo rest s1 rj1 tasks1 (minNonZero r minE)).1 l1) ∧
                TaskOrigin s0 s1' jo c' t := by
              intro t ht
              obtain ⟨c', hc', s0, s1', ⟨l0, h0⟩, h1, hto'⟩ := hor t ht
              exact ⟨c', List.mem_append_right _ hc', s0, s1', ⟨_, hext1.trans h0⟩, h1, hto'⟩
            rcases hto with rfl | ⟨t, rfl, hto⟩
            · exact ⟨extra, hex, hlift⟩
            · refine ⟨[t] ++ extra, by rw [hex, List.append_assoc], ?_⟩
              intro t' ht'
              rcases List.mem_append.mp ht' with h' | h'
              · rw [List.mem_singleton.mp h']
                exact ⟨c, List.mem_append_left _ (List.mem_singleton.mpr rfl), s, s1, ⟨[], Ext.refl s⟩, ⟨l, hext⟩, hto⟩
              · exact hlift t' h'

-- ---------------------------------------------------------------- adoption without creation

theorem mem_insertPodSorted (p x : PodObj) : ∀ l : List PodObj, x ∈ insertPodSorted p l ↔ x = p ∨ x ∈ l
  | [] => by simp [insertPodSorted]
  | y :: r => by
    unfold insertPodSorted
    split
    · simp
    · simp only [List.mem_cons, mem_insertPodSorted p x r]
      constructor
      · rintro (h | h | h)
        · exact Or.inr (Or.inl h)
        · exact Or.inl h
        · exact Or.inr (Or.inr h)
      · rintro (h | h | h)
        · exact Or.inr (Or.inl h)
        · exact Or.inl h
        · exact Or.inr (Or.inr h)

theorem mem_foldl_insertPodSorted (x : PodObj) : ∀ (l acc : List PodObj),
    x ∈ l.foldl (fun acc p => insertPodSorted p acc) acc ↔ x ∈ l ∨ x ∈ acc
  | [], acc => by simp
  | p :: rest, acc => by
    simp only [List.foldl_cons, mem_foldl_insertPodSorted x rest, mem_insertPodSorted, List.mem_cons]
    constructor
    · rintro (h | h | h)
      · exact Or.inl (Or.inr h)
      · exact Or.inl (Or.inl h)
      · exact Or.inr h
    · rintro ((h | h) | h)
      · exact Or.inr (Or.inl h)
      · exact Or.inl h
      · exact Or.inr (Or.inr h)

theorem mem_sortPods (x : PodObj) (l : List PodObj) : x ∈ sortPods l ↔ x ∈ l := by
  unfold sortPods
  rw [mem_foldl_insertPodSorted]
  simp

/-- `adoptUnrecordedTasks` only reads the pod CACHE: the tasks it adds are cached pods labelled
with and controlled by this Job's uid whose name is not yet in the list -/
theorem mem_adoptUnrecordedTasks (s : Sys) (jo : JobObj) (tasks : List Task) (t : Task) :
    t ∈ adoptUnrecordedTasks s jo tasks ↔
      t ∈ tasks ∨ ∃ p ∈ s.podCache, podTask s.clock p = some t ∧ p.jobLabel = some jo.uid ∧ p.ownerUid = some jo.uid ∧
        (∀ t0 ∈ tasks, t0.name ≠ p.pod.name) ∧ (∀ r ∈ jo.job.status.tasks, r.name ≠ p.pod.name) := by
  unfold adoptUnrecordedTasks
  simp only [List.mem_append, List.mem_filterMap, List.mem_filter, mem_sortPods, Bool.and_eq_true,
    decide_eq_true_eq, Bool.not_eq_true', List.any_eq_false]
  constructor
  · rintro (h | ⟨p, ⟨hp, ⟨⟨h1, h2⟩, h2'⟩, h3⟩, hpt⟩)
    · exact Or.inl h
    · exact Or.inr ⟨p, hp, hpt, h1, h3, fun t0 ht0 => by simpa using h2 t0 ht0,
        fun r hr => by simpa using h2' r hr⟩
  · rintro (h | ⟨p, hp, hpt, h1, h3, h2, h2'⟩)
    · exact Or.inl h
    · exact Or.inr ⟨p, ⟨hp, ⟨⟨h1, fun t0 ht0 => by simpa using h2 t0 ht0⟩,
        fun r hr => by simpa using h2' r hr⟩, h3⟩, hpt⟩

theorem podTask_name {now : Time} {p : PodObj} {t : Task} (h : podTask now p = some t) : t.name = p.pod.name := by
  unfold podTask Pod.task at h
  split at h
  · cases h
  · simp only [Option.some.injEq] at h; rw [← h]

theorem liveGetTask_name {s : Sys} {jo : JobObj} {n : String} {t : Task} (h : liveGetTask s jo n = some t) :
    t.name = n := by
  unfold liveGetTask at h
  split at h
  · rename_i p hp
    split at h
    · cases h
    · rw [podTask_name h, (findPod_some hp).2]
  · cases h

/-- a task found for a ref (cache, else live GET) carries the ref's name -/
theorem getTaskForRef_name {s : Sys} {jo : JobObj} {ref : TaskRef} {t : Task}
    (h : getTaskForRef s jo ref = some t) : t.name = ref.name := by
  unfold getTaskForRef at h
  split at h
  · rename_i p hp
    split at h
    · split at h
      · cases h
      · exact liveGetTask_name h
    · split at h
      · cases h
      · rename_i t' ht'
        split at h
        · cases h; rw [podTask_name ht', (findPod_some hp).2]
        · exact liveGetTask_name h
  · split at h
    · cases h
    · exact liveGetTask_name h

theorem tasksForRefs_name {s : Sys} {jo : JobObj} {refs : List TaskRef} {t : Task}
    (h : t ∈ tasksForRefs s jo refs) : ∃ r ∈ refs, t.name = r.name := by
  unfold tasksForRefs at h
  obtain ⟨r, hr, hg⟩ := List.mem_filterMap.mp h
  exact ⟨r, hr, getTaskForRef_name hg⟩

theorem getTaskForRefConfirmed_name {s : Sys} {jo : JobObj} {ref : TaskRef} {t : Task}
    (h : getTaskForRefConfirmed s jo ref = some t) : t.name = ref.name := by
  unfold getTaskForRefConfirmed at h
  split at h
  · rename_i t' ht'
    cases h; exact getTaskForRef_name ht'
  · exact liveGetTask_name h

theorem tasksForRefsConfirmed_name {s : Sys} {jo : JobObj} {refs : List TaskRef} {t : Task}
    (h : t ∈ tasksForRefsConfirmed s jo refs) : ∃ r ∈ refs, t.name = r.name := by
  unfold tasksForRefsConfirmed at h
  obtain ⟨r, hr, hg⟩ := List.mem_filterMap.mp h
  exact ⟨r, hr, getTaskForRefConfirmed_name hg⟩

/-- membership in `finalizerTasks`: a task of the status that could still be found (cache, else
live GET), or the task of a pod of the pod cache that is labelled with and controlled by the Job
and is neither found nor recorded -/
theorem mem_finalizerTasks (s : Sys) (jo : JobObj) (rj : Job) (t : Task) :
    t ∈ finalizerTasks s jo rj ↔
      t ∈ tasksForRefsConfirmed s jo rj.status.tasks ∨
      ∃ p ∈ s.podCache, podTask s.clock p = some t ∧ p.jobLabel = some jo.uid ∧ p.ownerUid = some jo.uid ∧
        (∀ t' ∈ tasksForRefsConfirmed s jo rj.status.tasks, t'.name ≠ p.pod.name) ∧
        (∀ r ∈ rj.status.tasks, r.name ≠ p.pod.name) := by
  unfold finalizerTasks
  exact mem_adoptUnrecordedTasks s _ _ t

-- ---------------------------------------------------------------- syncCreateTasks

/-- `b` has the spec / metadata of `a`, except that the admission-error annotation may have been
added (the status may differ) -/
structure SpecLe (a b : Job) : Prop where
  template : b.template = a.template
  killTimestamp : b.killTimestamp = a.killTimestamp
  ttl : b.ttlSecondsAfterFinished = a.ttlSecondsAfterFinished
  startPolicy : b.startPolicy = a.startPolicy
  deletionTimestamp : b.deletionTimestamp = a.deletionTimestamp
  adm : a.admissionError = true → b.admissionError = true

theorem SpecLe.refl (a : Job) : SpecLe a a := ⟨rfl, rfl, rfl, rfl, rfl, fun h => h⟩
theorem SpecLe.trans {a b c : Job} (h1 : SpecLe a b) (h2 : SpecLe b c) : SpecLe a c :=
  ⟨h2.template.trans h1.template, h2.killTimestamp.trans h1.killTimestamp, h2.ttl.trans h1.ttl,
   h2.startPolicy.trans h1.startPolicy, h2.deletionTimestamp.trans h1.deletionTimestamp, fun h => h2.adm (h1.adm h)⟩
theorem SpecMono.le {a b : Job} (h : SpecMono a b) : SpecLe a b :=
  ⟨h.template, h.killTimestamp, h.ttl, h.startPolicy, h.deletionTimestamp, h.adm⟩
theorem SameSpec.le {a b : Job} (h : SameSpec a b) : SpecLe a b :=
  ⟨h.template, h.killTimestamp, h.ttl, h.startPolicy, h.deletionTimestamp, fun h' => by rw [h.admissionError]; exact h'⟩

theorem dueAt_mono (s : Sys) {a b : Int} (h : a ≤ b) : dueAt s a ≤ dueAt s b := by
  unfold dueAt
  split <;> split <;> omega

/-- the refreshed completion summary `syncCreateTasks` checks before creating anything -/
def refreshedSummary (s : Sys) (rj : Job) (tasks : List Task) : Summary :=
  getParallelTaskSummary s.d rj (generateTaskRefs s.clock rj.status.tasks tasks)

/-- the earliest-deadline timer of `syncCreateTasks` -/
def armMin (s1 : Sys) (key : String) (minE : Option Time) : Sys :=
  match minE with
  | some t => enqueueAfter s1 key t
  | none => s1

theorem syncCreateTasks_eq (s : Sys) (jo : JobObj) (rj : Job) (tasks : List Task) :
    syncCreateTasks s jo rj tasks =
      if (!canCreateTask rj) = true then (s, some (rj, adoptUnrecordedTasks s jo tasks))
      else if (refreshedSummary s rj tasks).complete = true then (s, some (rj, adoptUnrecordedTasks s jo tasks))
      else
        match computeMissingIndexesForCreation s.d rj (rj.indexes s.d) with
        | none => (s, none)
        | some reqs =>
          match (createLoop jo reqs s rj tasks none).2 with
          | none => ((createLoop jo reqs s rj tasks none).1, none)
          | some (rj1, tasks1, minE) =>
            ((updateTaskRefStatus (armMin (createLoop jo reqs s rj tasks none).1 (jobKey jo) minE) (jobKey jo) rj1 tasks1).1,
             some ((updateTaskRefStatus (armMin (createLoop jo reqs s rj tasks none).1 (jobKey jo) minE) (jobKey jo) rj1 tasks1).2, tasks1)) := by
  unfold syncCreateTasks
  by_cases h1 : (!canCreateTask rj) = true
  · rw [if_pos h1, if_pos h1]
  · rw [if_neg h1, if_neg h1]
    simp only
    by_cases h2 : (refreshedSummary s rj tasks).complete = true
    · rw [if_pos h2]
      unfold refreshedSummary at h2
      rw [if_pos h2]
    · rw [if_neg h2]
      unfold refreshedSummary at h2
      rw [if_neg h2]
      cases computeMissingIndexesForCreation s.d rj (rj.indexes s.d) with
      | none => rfl
      | some reqs =>
        simp only
        generalize createLoop jo reqs s rj tasks none = res
        obtain ⟨s1, o⟩ := res
        cases o with
        | none => rfl
        | some tr =>
          obtain ⟨rj1, tasks1, minE⟩ := tr
          cases minE <;> rfl

theorem armMin_ext (s s1 : Sys) (l : List Call) (hext : Ext s s1 l) (key : String) (minE : Option Time)
    (reqs : List CreationRequest)
    (hmin : ∀ r ∈ reqs, r.earliest ≠ zeroTime → ∃ m : Int, minE = some m ∧ m ≤ r.earliest) :
    Ext s1 (armMin s1 key minE) [] ∧
      ∀ r ∈ reqs, r.earliest ≠ zeroTime → TimerBy (armMin s1 key minE).q key (dueAt s r.earliest) := by
  cases minE with
  | none =>
    refine ⟨Ext.refl s1, ?_⟩
    intro r hr hnz
    obtain ⟨m, hm, _⟩ := hmin r hr hnz
    cases hm
  | some t =>
    refine ⟨enqueueAfter_ext _ _ _, ?_⟩
    intro r hr hnz
    obtain ⟨m, hm, hle⟩ := hmin r hr hnz
    cases hm
    have := enqueueAfter_timer s1 key t
    rw [dueAt_of_ext hext] at this
    exact this.mono (dueAt_mono s hle)

/-- `syncCreateTasks`: creation is attempted only when `canCreateTask` holds and the refreshed
summary is not complete (in both other cases the state is untouched and the unrecorded tasks of
the pod cache are adopted into the list — fix 5671da6 and the repair of F23); then the calls are
pod creates for requests of
`computeMissingIndexesForCreation` on the CACHED refs (`rj.status.tasks`) whose earliest time has
come; requests with an earliest time arm a timer. -/
theorem syncCreateTasks_ext (s : Sys) (jo : JobObj) (rj : Job) (tasks : List Task) :
    ∃ l, Ext s (syncCreateTasks s jo rj tasks).1 l ∧
      (canCreateTask rj = false →
        syncCreateTasks s jo rj tasks = (s, some (rj, adoptUnrecordedTasks s jo tasks))) ∧
      (canCreateTask rj = true → (refreshedSummary s rj tasks).complete = true →
        syncCreateTasks s jo rj tasks = (s, some (rj, adoptUnrecordedTasks s jo tasks))) ∧
      (∀ c ∈ l, c.verb = "create" ∧ c.res = "pods" ∧ c.force = false ∧ canCreateTask rj = true ∧
        (refreshedSummary s rj tasks).complete = false ∧
        ∃ reqs, computeMissingIndexesForCreation s.d rj (rj.indexes s.d) = some reqs ∧
          ∃ r ∈ reqs, c.name = taskName jo.name r.index.hash r.retryIndex ∧ reqDueNow s.clock r) ∧
      (∀ rj' tasks', (syncCreateTasks s jo rj tasks).2 = some (rj', tasks') →
        SpecLe rj rj' ∧
        (canCreateTask rj = true → (refreshedSummary s rj tasks).complete = false →
          ∀ reqs, computeMissingIndexesForCreation s.d rj (rj.indexes s.d) = some reqs →
            (∀ r ∈ reqs, reqDueNow s.clock r → ∃ c ∈ l, c.name = taskName jo.name r.index.hash r.retryIndex) ∧
            (∀ r ∈ reqs, r.earliest ≠ zeroTime →
              TimerBy (syncCreateTasks s jo rj tasks).1.q (jobKey jo) (dueAt s r.earliest)) ∧
            ∃ s1 l1, Ext s s1 l ∧ Ext s1 (syncCreateTasks s jo rj tasks).1 l1 ∧ TasksFrom s s1 jo l tasks tasks')) := by
  rw [syncCreateTasks_eq]
  by_cases hcan : canCreateTask rj = true
  · have hc0 : ¬ (!canCreateTask rj) = true := by simp [hcan]
    have hnf : canCreateTask rj = false → False := fun h => by rw [hcan] at h; cases h
    rw [if_neg hc0]
    by_cases hcomp : (refreshedSummary s rj tasks).complete = true
    · rw [if_pos hcomp]
      refine ⟨[], Ext.refl s, fun h => (hnf h).elim, fun _ _ => rfl, by simp, ?_⟩
      intro rj' tasks' h
      simp only [Option.some.injEq, Prod.mk.injEq] at h
      obtain ⟨rfl, rfl⟩ := h
      exact ⟨SpecLe.refl _, fun _ h => by rw [hcomp] at h; cases h⟩
    · rw [if_neg hcomp]
      have hcomp' : (refreshedSummary s rj tasks).complete = false := by simpa using hcomp
      cases hreqs : computeMissingIndexesForCreation s.d rj (rj.indexes s.d) with
      | none =>
        refine ⟨[], Ext.refl s, fun h => (hnf h).elim, fun _ h => absurd h hcomp, by simp, ?_⟩
        intro rj' tasks' h; cases h
      | some reqs =>
        simp only
        obtain ⟨l, hext, hq, hall, hres⟩ := createLoop_ext jo reqs s rj tasks none
        have hcalls : ∀ c ∈ l, c.verb = "create" ∧ c.res = "pods" ∧ c.force = false ∧ canCreateTask rj = true ∧
            (refreshedSummary s rj tasks).complete = false ∧
            ∃ reqs', some reqs = some reqs' ∧
              ∃ r ∈ reqs', c.name = taskName jo.name r.index.hash r.retryIndex ∧ reqDueNow s.clock r := by
          intro c hc
          obtain ⟨h1, h2, h3, r, hr, h4, h5⟩ := hall c hc
          exact ⟨h1, h2, h3, hcan, hcomp', reqs, rfl, r, hr, h4, h5⟩
        generalize createLoop jo reqs s rj tasks none = res at *
        obtain ⟨s1, o⟩ := res
        simp only at hext hq hres
        cases o with
        | none =>
          refine ⟨l, hext, fun h => (hnf h).elim, fun _ h => absurd h hcomp, hcalls, ?_⟩
          intro rj' tasks' h; cases h
        | some tr =>
          obtain ⟨rj1, tasks1, minE⟩ := tr
          simp only
          obtain ⟨hsm, hcov, hmin, _, _, htf⟩ := hres rj1 tasks1 minE rfl
          obtain ⟨he2, ht2⟩ := armMin_ext s s1 l hext (jobKey jo) minE reqs hmin
          obtain ⟨he3, hss, _⟩ := updateTaskRefStatus_ext (armMin s1 (jobKey jo) minE) (jobKey jo) rj1 tasks1
          refine ⟨l, ((hext.trans he2).trans he3).cast (by simp), fun h => (hnf h).elim, fun _ h => absurd h hcomp,
            hcalls, ?_⟩
          intro rj' tasks' h
          simp only [Option.some.injEq, Prod.mk.injEq] at h
          obtain ⟨rfl, rfl⟩ := h
          refine ⟨hsm.le.trans hss.le, fun _ _ reqs' hreqs' => ?_⟩
          cases hreqs'
          exact ⟨hcov, fun r hr hnz => he3.timers _ _ (ht2 r hr hnz), s1, [], hext, (he2.trans he3).cast (by simp), htf⟩
  · have hcan' : canCreateTask rj = false := by simpa using hcan
    have hc1 : (!canCreateTask rj) = true := by simp [hcan']
    rw [if_pos hc1]
    refine ⟨[], Ext.refl s, fun _ => rfl, fun h => absurd h hcan, by simp, ?_⟩
    intro rj' tasks' h
    simp only [Option.some.injEq, Prod.mk.injEq] at h
    obtain ⟨rfl, rfl⟩ := h
    exact ⟨SpecLe.refl _, fun h => absurd h hcan⟩

/-- the task list after the creation step: the tasks it was given, plus tasks of pods controlled by
the Job (the pod a create call of the pass just made, or an adopted pod of the pod cache) -/
theorem syncCreateTasks_members (s : Sys) (jo : JobObj) (rj : Job) (tasks : List Task) (s1 : Sys) (rj1 : Job)
    (tasks1 : List Task) (h : syncCreateTasks s jo rj tasks = (s1, some (rj1, tasks1))) :
    ∀ t ∈ tasks1, t ∈ tasks ∨ ∃ p, podTask s.clock p = some t ∧ p.ownerUid = some jo.uid := by
  obtain ⟨l, _, hoff, hdone, _, hres⟩ := syncCreateTasks_ext s jo rj tasks
  have adopt : ∀ t ∈ adoptUnrecordedTasks s jo tasks, t ∈ tasks ∨ ∃ p, podTask s.clock p = some t ∧ p.ownerUid = some jo.uid := by
    intro t ht
    rcases (mem_adoptUnrecordedTasks s jo tasks t).mp ht with h' | ⟨p, _, hpt, _, ho, _⟩
    · exact Or.inl h'
    · exact Or.inr ⟨p, hpt, ho⟩
  by_cases hcan : canCreateTask rj = true
  · by_cases hcomp : (refreshedSummary s rj tasks).complete = true
    · rw [hdone hcan hcomp] at h
      simp only [Prod.mk.injEq, Option.some.injEq] at h
      obtain ⟨_, _, rfl⟩ := h
      exact adopt
    · have hcf : (refreshedSummary s rj tasks).complete = false := by simpa using hcomp
      cases hreqs : computeMissingIndexesForCreation s.d rj (rj.indexes s.d) with
      | none =>
        rw [syncCreateTasks_eq] at h
        simp [hcan, hcomp, hreqs] at h
      | some reqs =>
        obtain ⟨_, hx⟩ := hres rj1 tasks1 (by rw [h])
        obtain ⟨_, _, s1', l1, _, _, extra, hex, hor⟩ := hx hcan hcf reqs hreqs
        intro t ht
        rw [hex] at ht
        rcases List.mem_append.mp ht with h' | h'
        · exact Or.inl h'
        · obtain ⟨c, _, s0, s1'', ⟨_, h0⟩, _, p, hpt, _, ho, _⟩ := hor t h'
          exact Or.inr ⟨p, h0.clock ▸ hpt, ho⟩
  · have hcf : canCreateTask rj = false := by simpa using hcan
    rw [hoff hcf] at h
    simp only [Prod.mk.injEq, Option.some.injEq] at h
    obtain ⟨_, _, rfl⟩ := h
    exact adopt

end Furiko.JobCtlPlan
