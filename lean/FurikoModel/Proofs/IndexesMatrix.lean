import FurikoModel.Model.Indexes
/-!
Helper lemmas for C14, matrix part: the carry loop of `GenerateMatrixCombinations` enumerates the
mixed-radix tuples over the sorted keys in lexicographic order, exactly once each; hence the output is the
cartesian product `cartesian (cols m)`. Core Lean only.
-/
namespace Furiko.Indexes

/-- specification: the cartesian product of the columns, first column most significant
(nested loops, i.e. lexicographic order) -/
def cartesian : List (String × List String) → List Combination
  | [] => [[]]
  | kv :: rest => kv.2.flatMap fun v => (cartesian rest).map ((kv.1, v) :: ·)

/-- the columns of a matrix in the order the code uses: sorted keys with their value lists -/
def cols (m : Matrix) : List (String × List String) := (getKeys m).map fun k => (k, values m k)

abbrev len (m : Matrix) (k : String) : Nat := (values m k).length

/-- all digit tuples over the keys `ks`, lexicographic -/
def tuples (m : Matrix) : List String → List (List Nat)
  | [] => [[]]
  | k :: ks => (List.range (len m k)).flatMap fun i => (tuples m ks).map (i :: ·)

/-- the blocks of `tuples m (k :: ks)` whose first digit is in `[s, s+n)` -/
def blocks (m : Matrix) (ks : List String) (s n : Nat) : List (List Nat) :=
  (List.range' s n).flatMap fun i => (tuples m ks).map (i :: ·)

/-- the tuples from `t` (inclusive) to the end, lexicographic -/
def after (m : Matrix) : List String → List Nat → List (List Nat)
  | k :: ks, i :: t => (after m ks t).map (i :: ·) ++ blocks m ks (i + 1) (len m k - (i + 1))
  | _, _ => [[]]

def zeros (ks : List String) : List Nat := List.replicate ks.length 0

/-- digit tuple in range -/
def Valid (m : Matrix) : List String → List Nat → Prop
  | k :: ks, i :: t => i < len m k ∧ Valid m ks t
  | [], [] => True
  | _, _ => False

/-- `fixLoop` with an initial carry entering at the right end -/
def fixC (m : Matrix) (c0 : Nat) : List String → List Nat → List Nat × Nat
  | k :: ks, i :: is =>
    let r := fixC m c0 ks is
    let i' := i + r.2
    if i' ≥ (values m k).length then (0 :: r.1, 1) else (i' :: r.1, 0)
  | _, _ => ([], c0)

theorem fixLoop_eq_fixC (m : Matrix) (ks : List String) (t : List Nat) : fixLoop m ks t = fixC m 0 ks t := by
  induction ks generalizing t with
  | nil => simp [fixLoop, fixC]
  | cons k ks ih =>
    cases t with
    | nil => simp [fixLoop, fixC]
    | cons i t => simp [fixLoop, fixC, ih]

theorem fixC_nil_right (m : Matrix) (c : Nat) (ks : List String) : fixC m c ks [] = ([], c) := by
  cases ks <;> simp [fixC]

/-- `indexes[len-1]++` followed by the fix loop = the fix loop with carry-in 1 -/
theorem incrLast_fix (m : Matrix) : ∀ (ks : List String) (t : List Nat), ks ≠ [] → Valid m ks t →
    ∃ t', incrLast t = some t' ∧ fixLoop m ks t' = fixC m 1 ks t
  | [], _, h, _ => absurd rfl h
  | [k], [i], _, _ => ⟨[i + 1], rfl, by simp [fixLoop, fixC]⟩
  | [_], [], _, hv => by simp [Valid] at hv
  | [_], _ :: _ :: _, _, hv => by simp [Valid] at hv
  | _ :: _ :: _, [], _, hv => by simp [Valid] at hv
  | _ :: _ :: _, [_], _, hv => by simp [Valid] at hv
  | k :: k2 :: ks, i :: i2 :: t, _, hv => by
    obtain ⟨t'', h1, h2⟩ := incrLast_fix m (k2 :: ks) (i2 :: t) (by simp) hv.2
    refine ⟨i :: t'', ?_, ?_⟩
    · simp [incrLast, h1]
    · rw [fixLoop, fixC, h2]

theorem valid_len_pos {m : Matrix} : ∀ {ks : List String} {t : List Nat}, Valid m ks t → ∀ k ∈ ks, 0 < len m k
  | [], [], _, _, hk => by simp at hk
  | [], _ :: _, hv, _, _ => by simp [Valid] at hv
  | _ :: _, [], hv, _, _ => by simp [Valid] at hv
  | k :: ks, i :: t, hv, k', hk => by
    rcases List.mem_cons.1 hk with rfl | hk
    · exact Nat.lt_of_le_of_lt (Nat.zero_le _) hv.1
    · exact valid_len_pos hv.2 k' hk

theorem valid_zeros {m : Matrix} : ∀ {ks : List String}, (∀ k ∈ ks, 0 < len m k) → Valid m ks (zeros ks)
  | [], _ => by simp [zeros, Valid]
  | k :: ks, h => by
    have := valid_zeros (m := m) (ks := ks) (fun k hk => h k (List.mem_cons_of_mem _ hk))
    simpa [zeros, Valid, List.replicate_succ, h k (List.mem_cons_self ..)] using this

theorem valid_length {m : Matrix} : ∀ {ks : List String} {t : List Nat}, Valid m ks t → t.length = ks.length
  | [], [], _ => rfl
  | [], _ :: _, hv => by simp [Valid] at hv
  | _ :: _, [], hv => by simp [Valid] at hv
  | _ :: ks, _ :: t, hv => by simp [valid_length hv.2]

theorem after_zeros {m : Matrix} : ∀ {ks : List String}, (∀ k ∈ ks, 0 < len m k) →
    after m ks (zeros ks) = tuples m ks
  | [], _ => by simp [after, tuples]
  | k :: ks, h => by
    have ih := after_zeros (m := m) (ks := ks) (fun k hk => h k (List.mem_cons_of_mem _ hk))
    have hk : 0 < len m k := h k (List.mem_cons_self ..)
    have : zeros (k :: ks) = 0 :: zeros ks := by simp [zeros, List.replicate_succ]
    rw [this, after, ih, tuples, blocks, List.range_eq_range']
    obtain ⟨n, hn⟩ : ∃ n, len m k = n + 1 := ⟨len m k - 1, by omega⟩
    rw [hn, List.range'_succ]
    simp

/-- the step lemma: from a valid tuple `t`, the carry loop either moves to the lexicographic successor
(no carry out) or `t` was the last tuple (carry out, state wraps to zeros) -/
theorem next_tuple (m : Matrix) : ∀ (ks : List String) (t : List Nat), Valid m ks t →
    ((fixC m 1 ks t).2 = 0 ∧ Valid m ks (fixC m 1 ks t).1 ∧ after m ks t = t :: after m ks (fixC m 1 ks t).1) ∨
    ((fixC m 1 ks t).2 = 1 ∧ (fixC m 1 ks t).1 = zeros ks ∧ after m ks t = [t])
  | [], [], _ => by right; simp [fixC, zeros, after]
  | [], _ :: _, hv => by simp [Valid] at hv
  | _ :: _, [], hv => by simp [Valid] at hv
  | k :: ks, i :: t, hv => by
    have hi : i < (values m k).length := hv.1
    rcases next_tuple m ks t hv.2 with ⟨h0, hval, haft⟩ | ⟨h1, hz, haft⟩
    · left
      have hlt : ¬ (i ≥ (values m k).length) := by omega
      simp only [fixC, h0, Nat.add_zero, hlt, if_false]
      refine ⟨trivial, ⟨hi, hval⟩, ?_⟩
      simp [after, haft]
    · by_cases hlast : i + 1 ≥ (values m k).length
      · right
        simp only [fixC, h1, hlast, if_true]
        refine ⟨trivial, ?_, ?_⟩
        · simp [zeros, hz, List.replicate_succ]
        · have : len m k - (i + 1) = 0 := by simp only [len]; omega
          simp [after, haft, this, blocks]
      · left
        simp only [fixC, h1, hlast, if_false]
        have hpos : ∀ k ∈ ks, 0 < len m k := valid_len_pos hv.2
        refine ⟨trivial, ⟨by simp only [len]; omega, hz ▸ valid_zeros hpos⟩, ?_⟩
        obtain ⟨n, hn⟩ : ∃ n, len m k - (i + 1) = n + 1 := ⟨len m k - (i + 1) - 1, by simp only [len]; omega⟩
        have hn' : len m k - (i + 1 + 1) = n := by omega
        rw [hz]
        simp only [after, haft, after_zeros hpos, blocks, hn, hn', List.range'_succ]
        simp

theorem after_head (m : Matrix) (ks : List String) (t : List Nat) (hv : Valid m ks t) :
    ∃ rest, after m ks t = t :: rest := by
  rcases next_tuple m ks t hv with ⟨_, _, h⟩ | ⟨_, _, h⟩ <;> exact ⟨_, h⟩

/-- total version of `IndexMatrix` -/
def pickD (m : Matrix) : List String → List Nat → Combination
  | k :: ks, i :: is => (k, ((values m k)[i]?).getD "") :: pickD m ks is
  | _, _ => []

theorem indexMatrix_valid (m : Matrix) : ∀ (ks : List String) (t : List Nat), Valid m ks t →
    indexMatrix m ks t = some (pickD m ks t)
  | [], [], _ => by simp [indexMatrix, pickD]
  | [], _ :: _, hv => by simp [Valid] at hv
  | _ :: _, [], hv => by simp [Valid] at hv
  | k :: ks, i :: t, hv => by
    have hi : i < (values m k).length := hv.1
    simp [indexMatrix, pickD, indexMatrix_valid m ks t hv.2, List.getElem?_eq_getElem hi]

/-- the main loop emits the next `n` tuples in lexicographic order -/
theorem odometer_take (m : Matrix) (ks : List String) (hks : ks ≠ []) :
    ∀ (n : Nat) (idx t : List Nat), Valid m ks t → fixLoop m ks idx = (t, 0) → n ≤ (after m ks t).length →
      odometer m ks n idx = some (((after m ks t).take n).map (pickD m ks))
  | 0, _, _, _, _, _ => by simp [odometer]
  | n + 1, idx, t, hv, hfix, hn => by
    obtain ⟨t', hincr, hfix'⟩ := incrLast_fix m ks t hks hv
    have h1 : fixIndexes m ks idx = some t := by simp [fixIndexes, hfix]
    rcases next_tuple m ks t hv with ⟨h0, hval, haft⟩ | ⟨_, _, haft⟩
    · have hfix2 : fixLoop m ks t' = ((fixC m 1 ks t).1, 0) := by rw [hfix', ← h0]
      have hn' : n ≤ (after m ks (fixC m 1 ks t).1).length := by
        rw [haft] at hn; simpa using hn
      have ih := odometer_take m ks hks n t' _ hval hfix2 hn'
      simp [odometer, h1, indexMatrix_valid m ks t hv, hincr, ih, haft]
    · have : n = 0 := by rw [haft] at hn; simpa using hn
      subst this
      simp [odometer, h1, indexMatrix_valid m ks t hv, hincr, haft]

theorem fixLoop_zeros (m : Matrix) : ∀ (ks : List String), (∀ k ∈ ks, 0 < len m k) →
    fixLoop m ks (zeros ks) = (zeros ks, 0)
  | [], _ => by simp [zeros, fixLoop]
  | k :: ks, h => by
    have ih := fixLoop_zeros m ks (fun k hk => h k (List.mem_cons_of_mem _ hk))
    have hk : 0 < (values m k).length := h k (List.mem_cons_self ..)
    have hz : zeros (k :: ks) = 0 :: zeros ks := by simp [zeros, List.replicate_succ]
    have : ¬ (0 ≥ (values m k).length) := by omega
    rw [hz, fixLoop, ih]
    simp [this]

theorem flatMap_range_getD {α β : Type} (d : α) (g : α → List β) : ∀ (vs : List α),
    (List.range vs.length).flatMap (fun i => g ((vs[i]?).getD d)) = vs.flatMap g
  | [] => by simp
  | v :: vs => by
    have ih := flatMap_range_getD d g vs
    rw [List.length_cons, List.range_succ_eq_map]
    simp [List.flatMap_map, ih]

theorem tuples_pick (m : Matrix) : ∀ (ks : List String),
    (tuples m ks).map (pickD m ks) = cartesian (ks.map fun k => (k, values m k))
  | [] => by simp [tuples, pickD, cartesian]
  | k :: ks => by
    have ih := tuples_pick m ks
    simp only [tuples, List.map_cons, cartesian, List.map_flatMap, List.map_map, ← ih]
    rw [← flatMap_range_getD "" _ (values m k)]
    simp [Function.comp_def, pickD, len]

theorem sum_const_range (c : Nat) : ∀ n, ((List.range n).map (fun _ => c)).sum = n * c
  | 0 => by simp
  | n + 1 => by simp [List.range_succ, sum_const_range c n, Nat.succ_mul]

theorem tuples_length (m : Matrix) : ∀ (ks : List String),
    (tuples m ks).length = (ks.map (len m)).prod
  | [] => by simp [tuples]
  | k :: ks => by
    simp [tuples, List.length_flatMap, tuples_length m ks, sum_const_range]

/-- the odometer run for exactly `∏ |values|` steps from the all-zero state yields the cartesian product -/
theorem odometer_full (m : Matrix) (ks : List String) (hks : ks ≠ []) (hpos : ∀ k ∈ ks, 0 < len m k) :
    odometer m ks ((ks.map (len m)).prod) (List.replicate ks.length 0) =
      some (cartesian (ks.map fun k => (k, values m k))) := by
  have h := odometer_take m ks hks (tuples m ks).length (zeros ks) (zeros ks) (valid_zeros hpos)
    (fixLoop_zeros m ks hpos) (by rw [after_zeros hpos]; exact Nat.le_refl _)
  rw [after_zeros hpos, List.take_length, tuples_pick] at h
  rw [← tuples_length]
  exact h

/-! ### `NumCombinations` -/

theorem foldl_numComb_pos (m : Matrix) (hpos : ∀ kv ∈ m, 0 < kv.2.length) : ∀ (acc : Nat), 0 < acc →
    m.foldl (fun total kv => (if total = 0 then 1 else total) * kv.2.length) acc
      = acc * (m.map (·.2.length)).prod := by
  induction m with
  | nil => intro acc _; simp
  | cons kv rest ih =>
    intro acc hacc
    have h1 : 0 < kv.2.length := hpos kv (List.mem_cons_self ..)
    have hne : acc ≠ 0 := by omega
    simp only [List.foldl_cons, hne, if_false, List.map_cons, List.prod_cons]
    rw [ih (fun kv h => hpos kv (List.mem_cons_of_mem _ h)) _ (Nat.mul_pos hacc h1), Nat.mul_assoc]

/-- without empty value lists `NumCombinations` is the product of the lengths -/
theorem numCombinations_pos (m : Matrix) (hne : m ≠ []) (hpos : ∀ kv ∈ m, 0 < kv.2.length) :
    numCombinations m = (m.map (·.2.length)).prod := by
  cases m with
  | nil => exact absurd rfl hne
  | cons kv rest =>
    have h1 : 0 < kv.2.length := hpos kv (List.mem_cons_self ..)
    simp only [numCombinations, List.foldl_cons, if_true, Nat.one_mul, List.map_cons, List.prod_cons]
    exact foldl_numComb_pos rest (fun kv h => hpos kv (List.mem_cons_of_mem _ h)) _ h1

end Furiko.Indexes
