/-
Liveness of the job controller, part 34: FAIR ROUNDS UNDER FAULTS KEEP THE INVARIANT.
`roundF orc fs` is the fair round whose pass runs under the fault list `fs`
(`deliverAll ; sweep ; deliverAll ; jump ; setFaults fs ; work ; setFaults [] ; deliverAll`).  Whatever
`fs`: the invariant, "unfinished and armed, or final", and the agreement with the oracle are kept
(`roundF_keeps`, `roundF_done`); hence after ANY finite sequence of faulted rounds the fault-free rounds
converge, to the verdict of the oracle (`faulty_then_fair`).  Core Lean only.
-/
import FurikoModel.Proofs.JobCtlLive33

set_option linter.unusedSimpArgs false
set_option linter.unusedVariables false

namespace Furiko.JobCtl.Live
open Furiko Furiko.JobCtl Furiko.WQ Furiko.StatusLemmas Furiko.JobCtlPlan Furiko.Conv Furiko.ParallelLemmas

/-- the fair round whose pass runs under the fault list `fs` -/
def roundF (orc : String → Outcome) (fs : List String) (s : Sys) : Sys := ctlF fs (jump (envState orc s))

/-- one faulted round per fault list -/
def roundsF (orc : String → Outcome) : List (List String) → Sys → Sys
  | [], s => s
  | fs :: rest, s => roundsF orc rest (roundF orc fs s)

/-- the actions of a round under faults -/
def faultEnv (s : Sys) (a : Action) : Prop :=
  match a with
  | .setFaults _ => True
  | a => fairEnv s a

section
variable {ok : Sys → Action → Prop} {j0 jo : JobObj} {F0 : Int} {s : Sys}

theorem roundF_steps (hok : ∀ s a, fairEnv s a → ok s a) (hokF : ∀ s fs, ok s (.setFaults fs)) (orc : String → Outcome)
    (fs : List String) (s0 s : Sys) (h : Steps ok j0 s0 s) : Steps ok j0 s0 (roundF orc fs s) := by
  have hj : ∀ s, ok s .deliverJob := fun s => hok s _ trivial
  have hp : ∀ s, ok s .deliverPod := fun s => hok s _ trivial
  have hk : ∀ s p, ok s (.kubelet p) := fun s p => hok s _ trivial
  have ha : ∀ s d, ok s (.advance d) := fun s d => hok s _ trivial
  unfold roundF ctlF
  have h1 : Steps ok j0 s0 (jump (envState orc s)) := by
    unfold envState
    exact jump_steps ha s0 _ (deliverAll_steps hj hp s0 _ (sweep_steps hk orc s0 _ (deliverAll_steps hj hp s0 _ h)))
  have h2 : Steps ok j0 s0 (withFaults (jump (envState orc s)) fs) := .step (.setFaults fs) h1 (hokF _ _) trivial
  have h3 : Steps ok j0 s0 (work (withFaults (jump (envState orc s)) fs)).1 := .step .work h2 (hok _ _ trivial) trivial
  have h4 : Steps ok j0 s0 (dropFaults (work (withFaults (jump (envState orc s)) fs)).1) :=
    .step (.setFaults []) h3 (hokF _ _) trivial
  exact deliverAll_steps hj hp s0 _ h4

/-- **one fair round under any fault list on an unfinished Job** -/
theorem roundF_keeps (hok : ∀ s a, fairEnv s a → ok s a) (hokF : ∀ s fs, ok s (.setFaults fs))
    (orc : String → Outcome) (fs : List String) (h : Canon ok j0 jo F0 s) (hb : Busy jo s)
    (hT : (roundF orc fs s).clock < F0 + getTTLAfterFinished jo.job s.cfg) :
    ∃ jo', jo'.name = jo.name ∧ Canon ok j0 jo' F0 (roundF orc fs s) ∧
      (Busy jo' (roundF orc fs s) ∨ Done jo' (roundF orc fs s)) ∧
      getTTLAfterFinished jo'.job (roundF orc fs s).cfg = getTTLAfterFinished jo.job s.cfg ∧
      (Truth orc jo s → Truth orc jo' (roundF orc fs s)) := by
  obtain ⟨he, hfin, hpods, hclk0, hd0, hcfg0, _, hqg⟩ := env_stage hok orc h
  obtain ⟨hj, jpods, jq, jd, jcfg, jclk, jdue, _⟩ := jump_stage hok he
  have hps : PState ok j0 jo F0 (jump (envState orc s)) := ⟨hj, by rw [jpods]; exact hfin⟩
  have hdue : ∀ x ∈ s.q.delayed, x.2 ≤ (jump (envState orc s)).clock := by
    intro x hx
    exact jdue hb.unfinished x (by rw [hqg.delayed]; exact hx)
  have hready : Ready (jump (envState orc s)) := by
    refine ⟨by rw [jq, hqg.delayed]; exact hdue, ?_⟩
    rw [jq]
    rcases hb.armed with hq | hdl
    · left
      cases hqq : s.q.queue with
      | nil => exact absurd hqq hq
      | cons x r =>
        have := hqg.mono x (by rw [hqq]; exact List.mem_cons_self)
        intro e; rw [e] at this; cases this
    · right; rw [hqg.delayed]; exact hdl
  have hcfg : (jump (envState orc s)).cfg = s.cfg := jcfg.trans hcfg0
  -- the clock of the round is the clock after the jump
  obtain ⟨jo', hn, hcan, hres, hclk, httl, hcfgw, hout⟩ := ctl_faulted hok hokF hps hready hb.unfinished hb.shape
    (by
      rw [hcfg]
      have : (roundF orc fs s).clock = (jump (envState orc s)).clock := by
        show (deliverAll (dropFaults (work (withFaults (jump (envState orc s)) fs)).1)).clock = _
        rw [deliverAll_clock]
        show (work (withFaults (jump (envState orc s)) fs)).1.clock = _
        rw [work_clock]; rfl
      rw [← this]; exact hT)
    fs
  refine ⟨jo', hn, hcan, hres, ?_, ?_⟩
  · unfold getTTLAfterFinished
    have : (roundF orc fs s).cfg = s.cfg := hcfgw.trans hcfg
    rw [httl, this]
  · intro ht
    rcases hout with hrs | ⟨hjob, hw⟩
    · have hdw : (roundF orc fs s).d = (jump (envState orc s)).d := by
        rw [jd, hd0]
        exact steps_d (j0 := j0) (roundF_steps hok hokF orc fs s s (.refl s))
      exact truth_round orc hb ht hps (jpods.trans hpods) hcan hn hdw hrs
    · exact truth_unwritten orc ht (jpods.trans hpods) hjob _ _ hw

/-- **final states are fixpoints of the round under faults too**: the pass of a final state issues no API
call, so it consumes no fault -/
theorem roundF_done (hok : ∀ s a, fairEnv s a → ok s a) (hokF : ∀ s fs, ok s (.setFaults fs))
    (orc : String → Outcome) (fs : List String) (h : Canon ok j0 jo F0 s) (hd : Done jo s)
    (hT : s.clock < F0 + getTTLAfterFinished jo.job s.cfg) :
    ∃ jo', jo'.name = jo.name ∧ jo'.job = jo.job ∧ Canon ok j0 jo' F0 (roundF orc fs s) ∧ Done jo' (roundF orc fs s) ∧
      (roundF orc fs s).pods = s.pods ∧ (roundF orc fs s).clock = s.clock ∧ (roundF orc fs s).cfg = s.cfg := by
  obtain ⟨f, hf, _, _⟩ := hd.fin
  have hidle : deliverAll s = s := deliverAll_idle s h.fresh.jobEvs h.fresh.podEvs
  have henv : envState orc s = s := by unfold envState; rw [hidle, sweep_idle orc s hd.podsFin, hidle]
  have hjump : jump s = s := (jump_stage hok h).2.2.2.2.2.2.2 (by rw [hf]; rfl)
  have hround : roundF orc fs s = ctlF fs s := by unfold roundF; rw [henv, hjump]
  have hps : PState ok j0 jo F0 s := ⟨h, hd.podsFin⟩
  have hwfa := (Retry.advance_facts s.q s.clock h.wf).1
  have hsteps := ctlF_steps (j0 := j0) (e := s) hok hokF fs
  rw [hround]
  unfold ctlF
  -- the final facts for any state with the same Job value and pods
  have hdoneOf : ∀ (jo' : JobObj) (W : Sys), jo'.job = jo.job → W.pods = s.pods → W.d = s.d → Done jo' W := by
    intro jo' W hjob hpods hd'
    refine ⟨by rw [hjob]; exact hd.fin, by rw [hjob]; exact hd.allFin, by rw [hjob]; exact hd.complete,
      by rw [hpods]; exact hd.podsFin, ?_, ?_⟩
    · intro p hp; rw [hpods] at hp; unfold refNames; rw [hjob]; exact hd.recorded p hp
    · intro c
      have : foundTasks ({ W with clock := c } : Sys) jo' = foundTasks ({ s with clock := c } : Sys) jo := by
        have hl : (fun r : TaskRef => lookTask ({ W with clock := c } : Sys) r.name) =
            (fun r => lookTask ({ s with clock := c } : Sys) r.name) := by
          funext r; unfold lookTask
          show (findPod W.pods r.name).bind (podTask c) = (findPod s.pods r.name).bind (podTask c)
          rw [hpods]
        unfold foundTasks; rw [hjob, hl]
      rw [this, hd', hjob]
      exact hd.stable c
  cases hqq : (s.q.advance s.clock).queue with
  | nil =>
    have hg : ((withFaults s fs).q.advance (withFaults s fs).clock).get = none := by
      show (s.q.advance s.clock).get = none
      unfold WQ.get; rw [hqq]
    have hw : dropFaults (work (withFaults s fs)).1 = { s with q := s.q.advance s.clock, calls := [], delRun := none } := by
      rw [work_none _ hg]
      have hfa := h.fresh.faults
      unfold dropFaults withFaults
      cases s
      simp_all
    have hdl : deliverAll (dropFaults (work (withFaults s fs)).1) = dropFaults (work (withFaults s fs)).1 := by
      apply deliverAll_idle
      · rw [hw]; exact h.fresh.jobEvs
      · rw [hw]; exact h.fresh.podEvs
    have hreach := h.reach.steps hsteps
    rw [hdl, hw] at *
    refine ⟨jo, rfl, rfl, ⟨hreach, h.nodash, ⟨h.fresh.jobCache, h.fresh.job, h.fresh.podCache, h.fresh.jobEvs,
      h.fresh.podEvs, h.fresh.faults⟩, h.spec, h.npos, ⟨h.pods.owned, h.pods.sane, h.pods.nodel, h.pods.nodup⟩, hwfa,
      h.retries, h.unrec, h.lbClock, h.lbRefs, h.lbPods⟩, hdoneOf jo _ rfl rfl rfl, rfl, rfl, rfl⟩
  | cons k rest =>
    have hstab : recompute s.clock s.d jo.job (foundTasks s jo) = jo.job := hd.stable s.clock
    have htasksEq : generateTaskRefs s.clock jo.job.status.tasks (foundTasks s jo) = jo.job.status.tasks := by
      have := (recompute_sameSpec s.clock s.d jo.job (foundTasks s jo)).2.1
      rw [hstab] at this; exact this.symm
    have hcomp : (getParallelTaskSummary s.d jo.job
        (generateTaskRefs s.clock jo.job.status.tasks (foundTasks s jo))).complete = true := by
      rw [htasksEq]
      apply (simple_summary s.d jo.job _ h.spec h.allHash).2.2.mpr
      rcases hd.complete with hx | hx
      · exact Or.inl hx
      · right; rw [countP_terminal_of_allFin hd.allFin]; exact hx
    obtain ⟨a1, a2, a3, a4, a5, a6, a7, a8⟩ := after_found hps _ (gen_found hps)
    have hcreate : syncCreateTasks (spF s fs k rest) jo jo.job (foundTasks s jo) =
        (spF s fs k rest, some (jo.job, foundTasks s jo)) := by
      rw [syncCreateTasks_complete (spF s fs k rest) jo (foundTasks s jo) h.spec hcomp]
      rw [adopt_none (spF s fs k rest) jo (foundTasks s jo) (by
        intro p hp
        have : p ∈ s.pods := by
          have : p ∈ s.podCache := hp
          rw [h.fresh.podCache] at this; exact this
        exact hd.recorded p this)]
    obtain ⟨st, hst, hpo, _, _⟩ := pass_uniform_f hps fs k rest hqq _ _ [] jo.job (foundTasks s jo) (CreateOutF.refl _)
      (TimersOnly.refl _ _) hcreate (Or.inl rfl) hps.consistent.nodup
      (fun t ht => ⟨(hps.found_facts t ht).1, (hps.found_facts t ht).2.2⟩)
      (fun pt _ _ t ht => Or.inl (hps.found_facts t ht).2.1) a6 a5 hT (by simp)
    have hst' : st = jo.job.status := by
      rcases hst with e1 | e1
      · rw [e1, hstab]
      · exact e1
    obtain ⟨jo', hjob, hname, _, hcan, _, hclk, hpods, hd', hcfg⟩ := canon_after_gen hok hps _ hsteps jo.job.status []
      (hst' ▸ hpo.of_faults) rfl (Or.inl rfl) h.retries
      (by
        intro p hp
        rw [List.append_nil] at hp
        exact Or.inl (hd.recorded p hp))
      h.lbRefs
    have hjob' : jo'.job = jo.job := by rw [hjob]
    exact ⟨jo', hname, hjob', hcan, hdoneOf jo' _ hjob' (by rw [hpods, List.append_nil]) hd',
      by rw [hpods, List.append_nil], hclk, hcfg⟩

end

end Furiko.JobCtl.Live
