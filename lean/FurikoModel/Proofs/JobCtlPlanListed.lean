/-
Forward walk through `Reconciler.sync` for C09 (`created_stays_listed`, repair of F31): a `sync` that
returns without error has RECORDED every pod it created — every pod name that is on the server after
`sync` was there before, or is listed in the status of the Job `sync` returns.  (The converse direction —
where the recorded names come from — is `JobCtlInvNames`.)  Together with the write sequence of
`SyncOne` after the repair (`syncOne_writes`, below: a pass whose two writes are not hit by a fault and
that works on an up-to-date cached Job persists the metadata AND the status it computed) this gives the
pass-level form of "every task the Job ever created stays listed".  Core Lean only.
-/
import FurikoModel.Proofs.JobCtlPlanSync
import FurikoModel.Proofs.JobCtlInvWalk

set_option linter.unusedSimpArgs false
set_option linter.unusedVariables false

namespace Furiko.JobCtl
open Furiko Furiko.WQ Furiko.JobCtlPlan Furiko.StatusLemmas

/-- every pod name of `s'` was a pod name of `s` or is in `N` -/
def NamesFrom (s s' : Sys) (N : List String) : Prop :=
  ∀ n ∈ podNames s'.pods, n ∈ podNames s.pods ∨ n ∈ N

theorem NamesFrom.refl (s : Sys) (N : List String) : NamesFrom s s N := fun _ h => Or.inl h

theorem NamesFrom.of_pods {s s' : Sys} (h : s'.pods = s.pods) (N : List String) : NamesFrom s s' N := by
  intro n hn; rw [h] at hn; exact Or.inl hn

theorem NamesFrom.trans {a b c : Sys} {N M : List String} (h1 : NamesFrom a b N) (h2 : NamesFrom b c M)
    (hsub : ∀ n ∈ N, n ∈ M) : NamesFrom a c M := by
  intro n hn
  rcases h2 n hn with h | h
  · rcases h1 n h with h' | h'
    · exact Or.inl h'
    · exact Or.inr (hsub n h')
  · exact Or.inr h

/-- calls that are all deletes add no pod name -/
theorem namesFrom_of_deletes {s s' : Sys} {l : List Call} (he : Ext s s' l) (hd : ∀ c ∈ l, c.verb = "delete")
    (N : List String) : NamesFrom s s' N := by
  intro n hn
  obtain ⟨p, hp, rfl⟩ := List.mem_map.mp hn
  rcases he.pods p hp with ⟨p0, hp0, hn0⟩ | ⟨c, hc, hv, _⟩
  · exact Or.inl (List.mem_map.mpr ⟨p0, hp0, hn0⟩)
  · rw [hd c hc] at hv; exact absurd hv (by decide)

/-- the names under which a task list is recorded -/
def taskRefNames (tasks : List Task) : List String := tasks.map (·.ref.name)

/-- one creation: the task list only grows, and a pod that was created is in it -/
theorem syncCreateTask_listed (s : Sys) (jo : JobObj) (rj : Job) (tasks : List Task) (idx : PIndex) (retry : Int)
    (rj1 : Job) (tasks1 : List Task) (h : (syncCreateTask s jo rj tasks idx retry).2 = some (rj1, tasks1)) :
    (∀ t ∈ tasks, t ∈ tasks1) ∧ NamesFrom s (syncCreateTask s jo rj tasks idx retry).1 (taskRefNames tasks1) := by
  have hspec := apiCreatePod_spec s jo idx retry
  unfold syncCreateTask at h ⊢
  generalize apiCreatePod s jo idx retry = r at h hspec ⊢
  obtain ⟨s1, cr⟩ := r
  simp only at hspec
  cases cr with
  | ok p =>
    simp only at h ⊢
    cases hp : podTask s.clock p with
    | none => simp [hp] at h
    | some t =>
      simp only [hp, Option.map_some, Option.some.injEq, Prod.mk.injEq] at h
      obtain ⟨_, rfl⟩ := h
      refine ⟨fun t' ht' => List.mem_append_left _ ht', ?_⟩
      rcases hspec with ⟨_, hno⟩ | ⟨ha, hres⟩
      · exact absurd rfl (hno p)
      · have hpe : p = newPod jo idx retry (nowT s) := by
          rcases hres with hres | hres
          · cases hres; rfl
          · cases hres
        intro n hn
        rw [ha.pods] at hn
        unfold podNames at hn
        rw [List.map_append] at hn
        rcases List.mem_append.mp hn with hn | hn
        · exact Or.inl hn
        · simp only [List.map_cons, List.map_nil, List.mem_singleton] at hn
          right
          have hok := podTask_ok hp
          unfold taskRefNames
          rw [List.map_append]
          apply List.mem_append_right
          simp only [List.map_cons, List.map_nil, List.mem_singleton]
          rw [hok.1, hok.2, hn, hpe]
  | err => simp at h
  | «exists» =>
    have hpods : s1.pods = s.pods := by
      rcases hspec with ⟨hf, _⟩ | ⟨_, hres⟩
      · exact hf.pods
      · rcases hres with hres | hres <;> cases hres
    simp only at h ⊢
    cases hf : findPod s1.podCache (taskName jo.name idx.hash retry) with
    | none => simp [hf] at h
    | some p =>
      simp only [hf] at h ⊢
      by_cases ho : p.ownerUid = some jo.uid
      · simp only [ho, if_true] at h ⊢
        cases hp : podTask s.clock p with
        | none => simp [hp] at h
        | some t =>
          simp only [hp, Option.map_some, Option.some.injEq, Prod.mk.injEq] at h
          obtain ⟨_, rfl⟩ := h
          exact ⟨fun t' ht' => List.mem_append_left _ ht', NamesFrom.of_pods hpods _⟩
      · simp only [ho, if_false, Option.some.injEq, Prod.mk.injEq] at h ⊢
        obtain ⟨_, rfl⟩ := h
        exact ⟨fun t' ht' => ht', NamesFrom.of_pods hpods _⟩

theorem taskRefNames_mono {a b : List Task} (h : ∀ t ∈ a, t ∈ b) : ∀ n ∈ taskRefNames a, n ∈ taskRefNames b := by
  intro n hn
  obtain ⟨t, ht, rfl⟩ := List.mem_map.mp hn
  exact List.mem_map_of_mem (h t ht)

/-- the creation loop: the task list only grows, and every pod it created is in it -/
theorem createLoop_listed (jo : JobObj) : ∀ (reqs : List CreationRequest) (s : Sys) (rj : Job) (tasks : List Task)
    (minE : Option Time) (rj' : Job) (tasks' : List Task) (minE' : Option Time),
    (createLoop jo reqs s rj tasks minE).2 = some (rj', tasks', minE') →
    (∀ t ∈ tasks, t ∈ tasks') ∧ NamesFrom s (createLoop jo reqs s rj tasks minE).1 (taskRefNames tasks')
  | [], s, rj, tasks, minE, rj', tasks', minE', h => by
    rw [createLoop.eq_def] at h ⊢
    simp only [Option.some.injEq, Prod.mk.injEq] at h ⊢
    obtain ⟨_, rfl, _⟩ := h
    exact ⟨fun _ h => h, NamesFrom.refl _ _⟩
  | r :: rest, s, rj, tasks, minE, rj', tasks', minE', h => by
    rw [JobCtlPlan.createLoop_cons] at h ⊢
    split at h
    · rename_i hdef
      rw [if_pos hdef]
      exact createLoop_listed jo rest s rj tasks _ rj' tasks' minE' h
    · rename_i hdef
      rw [if_neg hdef]
      have h1 := syncCreateTask_listed s jo rj tasks r.index r.retryIndex
      generalize hc : syncCreateTask s jo rj tasks r.index r.retryIndex = c at h h1 ⊢
      obtain ⟨s1, o⟩ := c
      cases o with
      | none => simp at h
      | some pr =>
        obtain ⟨rj1, tasks1⟩ := pr
        simp only at h ⊢
        obtain ⟨hsub1, hn1⟩ := h1 rj1 tasks1 rfl
        obtain ⟨hsub2, hn2⟩ := createLoop_listed jo rest s1 rj1 tasks1 _ rj' tasks' minE' h
        exact ⟨fun t ht => hsub2 t (hsub1 t ht), hn1.trans hn2 (taskRefNames_mono hsub2)⟩

theorem armMin_pods (s : Sys) (key : String) (m : Option Time) : (armMin s key m).pods = s.pods := by
  unfold armMin; cases m <;> rfl

/-- the creation step: every pod it created is in the task list it hands on -/
theorem syncCreateTasks_listed (s : Sys) (jo : JobObj) (rj : Job) (tasks : List Task) (s1 : Sys) (rj1 : Job)
    (tasks1 : List Task) (h : syncCreateTasks s jo rj tasks = (s1, some (rj1, tasks1))) :
    NamesFrom s s1 (taskRefNames tasks1) := by
  rw [syncCreateTasks_eq] at h
  split at h
  · simp only [Prod.mk.injEq] at h; rw [← h.1]; exact NamesFrom.refl _ _
  · split at h
    · simp only [Prod.mk.injEq] at h; rw [← h.1]; exact NamesFrom.refl _ _
    · cases hreqs : computeMissingIndexesForCreation s.d rj (rj.indexes s.d) with
      | none => simp [hreqs] at h
      | some reqs =>
        simp only [hreqs] at h
        have hl := createLoop_listed jo reqs s rj tasks none
        generalize hc : createLoop jo reqs s rj tasks none = c at h hl
        obtain ⟨sL, o⟩ := c
        cases o with
        | none => simp at h
        | some tr =>
          obtain ⟨rjL, tasksL, minE⟩ := tr
          simp only [Prod.mk.injEq, Option.some.injEq] at h
          obtain ⟨hs1, _, rfl⟩ := h
          obtain ⟨_, hn⟩ := hl rjL tasksL minE rfl
          have hp : s1.pods = sL.pods := by
            rw [← hs1, (updateTaskRefStatus_ext _ _ _ _).2.2, armMin_pods]
          intro n hnm
          rw [hp] at hnm
          exact hn n hnm

/-- every task of the list is recorded by `updateTaskRefStatus` under its name -/
theorem updateTaskRefStatus_lists (s : Sys) (key : String) (rj : Job) (tasks : List Task) :
    ∀ n ∈ taskRefNames tasks, n ∈ refNames (updateTaskRefStatus s key rj tasks).2 := by
  intro n hn
  obtain ⟨t, ht, rfl⟩ := List.mem_map.mp hn
  unfold refNames
  rw [updateTaskRefStatus_tasks]
  have hm := (Furiko.Props.C11.generateTaskRefs_members s.clock rj.status.tasks tasks).2.1 t ht
  have := List.mem_map_of_mem (f := (·.name)) hm
  simp only [getTaskRef_name] at this
  exact this

/-- **`syncJobTasks` records what it creates**: if it returns without error, every pod name on the server
afterwards was there before or is listed in the status of the Job it returns -/
theorem syncJobTasks_listed (s : Sys) (jo : JobObj) (rj rjOut : Job) (h : (syncJobTasks s jo rj).2 = some rjOut) :
    NamesFrom s (syncJobTasks s jo rj).1 (refNames rjOut) := by
  obtain ⟨s1, rj1, tasks1, s2, rj2, s3, rj3, s4, rj4, s5, rj5, hc, hu, hp, hk, hf, heq, _⟩ :=
    syncJobTasks_success s jo rj rjOut h
  rw [heq] at h ⊢
  simp only [Option.some.injEq] at h
  subst h
  have n1 := syncCreateTasks_listed s jo rj (tasks0 s jo rj) s1 rj1 tasks1 hc
  have p2 : s2.pods = s1.pods := by
    have := (updateTaskRefStatus_ext s1 (jobKey jo) rj1 tasks1).2.2; rw [hu] at this; exact this
  obtain ⟨lp, ep, hdp, _⟩ := handlePendingTasks_ext s2 jo rj2 tasks1
  rw [hp] at ep
  obtain ⟨lk, ek, _, hdk, _⟩ := handleKillJob_ext s3 jo rj3 tasks1
  rw [hk] at ek
  obtain ⟨lf, ef, hdf, _⟩ := handleForceDelete_ext s4 jo rj4 tasks1
  rw [hf] at ef
  have p6 : (updateTaskRefStatus s5 (jobKey jo) rj5 tasks1).1.pods = s5.pods :=
    (updateTaskRefStatus_ext s5 (jobKey jo) rj5 tasks1).2.2
  have n25 : NamesFrom s2 s5 (taskRefNames tasks1) :=
    ((namesFrom_of_deletes ep (fun c hc => (hdp c hc).1) _).trans
      (namesFrom_of_deletes ek (fun c hc => (hdk c hc).1) _) (fun _ h => h)).trans
      (namesFrom_of_deletes ef (fun c hc => (hdf c hc).1) _) (fun _ h => h)
  intro n hn
  simp only at hn
  rw [p6] at hn
  rcases n25 n hn with h' | h'
  · rw [p2] at h'
    rcases n1 n h' with h'' | h''
    · exact Or.inl h''
    · exact Or.inr (updateTaskRefStatus_lists s5 (jobKey jo) rj5 tasks1 n h'')
  · exact Or.inr (updateTaskRefStatus_lists s5 (jobKey jo) rj5 tasks1 n h')

/-- **`sync` records what it creates**: if `Reconciler.sync` returns without error, every pod name on the
server afterwards was there before or is listed in the status of the Job it returns (the one `SyncOne`
then writes) -/
theorem sync_lists_created (s : Sys) (jo : JobObj) (hok : (sync s jo).2.2.2.1 = true) :
    NamesFrom s (sync s jo).1 (refNames (sync s jo).2.1) := by
  rw [sync_eq] at hok ⊢
  have hst : (syncTasksStage s jo).2 = none ∨ ∃ rj1, (syncTasksStage s jo).2 = some rj1 := by
    cases (syncTasksStage s jo).2 with
    | none => exact Or.inl rfl
    | some x => exact Or.inr ⟨x, rfl⟩
  rcases hst with hnone | ⟨rj1, hsome⟩
  · rw [hnone] at hok; simp at hok
  · have n1 : NamesFrom s (syncTasksStage s jo).1 (refNames rj1) := by
      unfold syncTasksStage at hsome ⊢
      split at hsome
      · rename_i hc; rw [if_pos hc]; exact syncJobTasks_listed s jo jo.job rj1 hsome
      · rename_i hc; rw [if_neg hc]; exact NamesFrom.refl _ _
    rw [hsome] at hok ⊢
    simp only at hok ⊢
    obtain ⟨_, _, htasks, hpods⟩ := syncJobStatus_ext (syncTasksStage s jo).1 (jobKey jo) rj1
    generalize hu : syncJobStatusFromTaskRefs (syncTasksStage s jo).1 (jobKey jo) rj1 = u at hok htasks hpods ⊢
    obtain ⟨s2, rj2⟩ := u
    simp only at hok htasks hpods ⊢
    have hnames2 : refNames rj2 = refNames rj1 := by unfold refNames; rw [htasks]
    obtain ⟨lt, et, _, hpt, _⟩ := handleTTL_ext s2 jo rj2
    generalize hr : handleTTL s2 jo rj2 = r at hok et hpt ⊢
    obtain ⟨s3, b⟩ := r
    cases b with
    | false => simp at hok
    | true =>
      simp only at hok hpt ⊢
      obtain ⟨lf, ef, hdf, _⟩ := handleFinalizer_ext s3 jo rj2 jo.finalizer
      have hle := (handleFinalizer_spec s3 jo s3 rj2 jo.finalizer).2
      generalize hfz : handleFinalizer s3 jo rj2 jo.finalizer = f at hok ef hle ⊢
      obtain ⟨s4, o4⟩ := f
      cases o4 with
      | none => simp at hok
      | some pr =>
        obtain ⟨rj3, fin⟩ := pr
        simp only at ef ⊢
        have hn3 : ∀ n ∈ refNames rj1, n ∈ refNames rj3 := by
          intro n hn; rw [← hnames2] at hn; exact (hle rj3 fin rfl).names n hn
        have n34 : NamesFrom s3 s4 (refNames rj3) := namesFrom_of_deletes ef (fun c hc => (hdf c hc).1) _
        intro n hn
        rcases n34 n hn with h' | h'
        · rw [hpt, hpods] at h'
          rcases n1 n h' with h'' | h''
          · exact Or.inl h''
          · exact Or.inr (hn3 n h'')
        · exact Or.inr h'

/-! ### the two writes of `SyncOne` when no fault hits them (repair of F31) -/

theorem nextFault_nofault (s : Sys) (hf : s.faults = []) :
    nextFault s = ("", { s with delRun := none }) := by
  obtain ⟨clock, rv, cfg, d, job, pods, jobEvs, podEvs, jobCache, podCache, q, faults, delRun, calls⟩ := s
  simp only at hf
  subst hf
  rfl

/-- a Job `Update` that no fault hits, submitted with the resourceVersion of the stored object `cur`: it
returns without error, and the stored object is then `cur` with the written metadata (possibly unchanged:
no-op) — or gone, when the write dropped the finalizer of a Job being deleted -/
theorem apiUpdateJob_nofault (s : Sys) (cached new cur : JobObj) (hf : s.faults = []) (hj : s.job = some cur)
    (hrv : cur.rv = cached.rv) :
    (apiUpdateJob s cached new).2 = true ∧ (apiUpdateJob s cached new).1.faults = [] ∧
    (((apiUpdateJob s cached new).1.job = none ∧ cur.job.deletionTimestamp.isSome = true ∧ new.finalizer = false) ∨
     ∃ r, (apiUpdateJob s cached new).1.job = some (specWrite cur new r)) := by
  unfold apiUpdateJob
  rw [nextFault_nofault s hf]
  simp only [isFailFault, hj, hrv, ne_eq, not_true_eq_false, if_false, log]
  have hdec : ((decide ("" = "err") || decide ("" = "timeout") || decide ("" = "conflict")) = true) = False := by
    simp
  simp only [hdec, if_false]
  split
  · rename_i hnoop
    refine ⟨by simp, hf, Or.inr ⟨cur.rv, ?_⟩⟩
    show some cur = some (specWrite cur new cur.rv)
    rw [← hnoop]; rfl
  · split
    · rename_i hgone
      simp only [Bool.and_eq_true, Bool.not_eq_true'] at hgone
      exact ⟨by simp, hf, Or.inl ⟨rfl, hgone.1, hgone.2⟩⟩
    · exact ⟨by simp, hf, Or.inr ⟨s.rv + 1, rfl⟩⟩

/-- a Job `UpdateStatus` that no fault hits, submitted with the resourceVersion of the stored object `cur`:
it returns without error and the stored object is then `cur` with the written status -/
theorem apiUpdateJobStatus_nofault_cur (s : Sys) (cached new cur : JobObj) (hf : s.faults = [])
    (hj : s.job = some cur) (hrv : cur.rv = cached.rv) :
    (apiUpdateJobStatus s cached new).2 = true ∧
    ∃ r, (apiUpdateJobStatus s cached new).1.job = some (statusWrite cur new r) := by
  unfold apiUpdateJobStatus
  rw [nextFault_nofault s hf]
  simp only [isFailFault, hj, hrv, ne_eq, not_true_eq_false, if_false, log]
  have hdec : ((decide ("" = "err") || decide ("" = "timeout") || decide ("" = "conflict")) = true) = False := by
    simp
  simp only [hdec, if_false]
  split
  · rename_i hnoop
    refine ⟨by simp, cur.rv, ?_⟩
    show some cur = some (statusWrite cur new cur.rv)
    rw [← hnoop]; rfl
  · exact ⟨by simp, s.rv + 1, rfl⟩

/-- **the write sequence of `SyncOne` after the repair of F31** (`ExecutionControl.UpdateJobAndStatus`):
a pass whose two writes are not hit by a fault, and whose cached Job is the stored one when it comes to
write, returns what `sync` returned and PERSISTS WHAT `sync` COMPUTED — the metadata (admission-error
annotation, finalizer) AND the status, also when both have changed: the status write is submitted on top
of the object `Update` returned, so it cannot conflict with the pass's own `Update`.  (Before the repair
the status write of such a pass was refused as a Conflict.)  The one exception is the pass that drops the
finalizer of a Job being deleted: the object is gone, there is no status left to write. -/
theorem syncOne_writes (sp : Sys) (jo : JobObj) (hc : sp.jobCache = some jo)
    (hnf : (sync sp jo).1.faults = []) (hcur : (sync sp jo).1.job = some jo) :
    ((syncOne sp).1.job = none ∧ jo.job.deletionTimestamp.isSome = true ∧ (sync sp jo).2.2.1 = false) ∨
    ((syncOne sp).2 = (sync sp jo).2.2.2.1 ∧
     ∃ j', (syncOne sp).1.job = some j' ∧ j'.job.status = (sync sp jo).2.1.status ∧
      j'.job.admissionError = (sync sp jo).2.1.admissionError ∧ j'.finalizer = (sync sp jo).2.2.1) := by
  unfold syncOne
  simp only [hc]
  generalize sync sp jo = r at hnf hcur ⊢
  obtain ⟨s1, newJob, newFin, syncOk, nullTime⟩ := r
  simp only at hnf hcur ⊢
  by_cases hsd : (newJob.admissionError ≠ jo.job.admissionError || newFin ≠ jo.finalizer) = true
  · -- metadata differ
    simp only [hsd, ↓reduceIte, statusBase]
    obtain ⟨hok1, hf2, hjob2⟩ := apiUpdateJob_nofault s1 jo { jo with job := newJob, finalizer := newFin } jo hnf hcur rfl
    generalize apiUpdateJob s1 jo { jo with job := newJob, finalizer := newFin } = w1 at hok1 hf2 hjob2 ⊢
    obtain ⟨s2, ok1⟩ := w1
    simp only at hok1 hf2 hjob2 ⊢
    subst hok1
    simp only [Bool.not_true, Bool.false_eq_true, ↓reduceIte]
    rcases hjob2 with ⟨hgone, hdel, hfin⟩ | ⟨r0, hj2⟩
    · -- the object is gone: whatever follows, it stays gone
      left
      refine ⟨?_, hdel, hfin⟩
      have hst : ∀ (c n : JobObj), (apiUpdateJobStatus s2 c n).1.job = none := by
        intro c n
        rcases apiUpdateJobStatus_spec s2 c n with h | ⟨cur, hcur', _, _⟩
        · rw [h.job]; exact hgone
        · rw [hgone] at hcur'; cases hcur'
      split
      · generalize hw : apiUpdateJobStatus s2 { jo with rv := updatedRv s2 jo } { jo with job := newJob } = w2
        have := hst { jo with rv := updatedRv s2 jo } { jo with job := newJob }
        rw [hw] at this
        obtain ⟨s3, ok2⟩ := w2
        cases ok2 <;> exact this
      · exact hgone
    · right
      have hurv : updatedRv s2 jo = r0 := by unfold updatedRv; rw [hj2]; rfl
      by_cases hd : (decide (newJob.status ≠ jo.job.status) || nullTime) = true
      · simp only [hd, ↓reduceIte]
        obtain ⟨hok2, r1, hj3⟩ := apiUpdateJobStatus_nofault_cur s2 { jo with rv := updatedRv s2 jo }
          { jo with job := newJob } _ hf2 hj2 (by rw [hurv]; rfl)
        generalize apiUpdateJobStatus s2 { jo with rv := updatedRv s2 jo } { jo with job := newJob } = w2 at hok2 hj3 ⊢
        obtain ⟨s3, ok2⟩ := w2
        simp only at hok2 hj3 ⊢
        subst hok2
        simp only [Bool.not_true, Bool.false_eq_true, ↓reduceIte]
        exact ⟨trivial, _, hj3, rfl, rfl, rfl⟩
      · simp only [hd, Bool.false_eq_true, ↓reduceIte, Bool.not_true]
        refine ⟨trivial, _, hj2, ?_, rfl, rfl⟩
        show jo.job.status = newJob.status
        have : ¬ (newJob.status ≠ jo.job.status) := by
          intro hne; apply hd; simp [hne]
        exact (Classical.not_not.mp this).symm
  · -- nothing to `Update`
    right
    have hadm : newJob.admissionError = jo.job.admissionError ∧ newFin = jo.finalizer := by
      constructor
      · apply Classical.byContradiction; intro hne; apply hsd; simp [hne]
      · apply Classical.byContradiction; intro hne; apply hsd; simp [hne]
    simp only [hsd, Bool.false_eq_true, ↓reduceIte, statusBase, Bool.not_true]
    by_cases hd : (decide (newJob.status ≠ jo.job.status) || nullTime) = true
    · simp only [hd, ↓reduceIte]
      obtain ⟨hok2, r1, hj3⟩ := apiUpdateJobStatus_nofault_cur s1 jo { jo with job := newJob } jo hnf hcur rfl
      generalize apiUpdateJobStatus s1 jo { jo with job := newJob } = w2 at hok2 hj3 ⊢
      obtain ⟨s3, ok2⟩ := w2
      simp only at hok2 hj3 ⊢
      subst hok2
      simp only [Bool.not_true, Bool.false_eq_true, ↓reduceIte]
      exact ⟨trivial, _, hj3, rfl, hadm.1.symm, hadm.2.symm⟩
    · simp only [hd, Bool.false_eq_true, ↓reduceIte, Bool.not_true]
      refine ⟨trivial, _, hcur, ?_, hadm.1.symm, hadm.2.symm⟩
      have : ¬ (newJob.status ≠ jo.job.status) := by
        intro hne; apply hd; simp [hne]
      exact (Classical.not_not.mp this).symm


end Furiko.JobCtl
