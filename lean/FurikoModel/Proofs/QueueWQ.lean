/-
Lemmas about the deterministic work queue (`Model/WorkQueue.lean`): which keys an operation can
introduce, what stays dirty, and what `AddAfter`/`AddRateLimited` guarantee about deadlines.
-/
import FurikoModel.Model.WorkQueue

set_option linter.unusedSimpArgs false
set_option linter.unusedVariables false

namespace Furiko.WQ

/-- every key the queue knows about -/
def WQ.keys (q : WQ) : List String :=
  q.queue ++ q.dirty ++ q.processing ++ q.delayed.map (·.1)

theorem mem_keys {q : WQ} {x : String} :
    x ∈ q.keys ↔ x ∈ q.queue ∨ x ∈ q.dirty ∨ x ∈ q.processing ∨ ∃ d, (x, d) ∈ q.delayed := by
  simp [WQ.keys, or_assoc]

theorem mem_keys_add {q : WQ} {k x : String} (h : x ∈ (q.add k).keys) : x ∈ q.keys ∨ x = k := by
  unfold WQ.add at h
  split at h
  · exact Or.inl h
  · split at h
    · simp only [mem_keys] at h ⊢
      simp only [List.mem_cons] at h
      rcases h with h | (h | h) | h | h <;> simp_all
    · simp only [mem_keys] at h ⊢
      simp only [List.mem_cons, List.mem_append, List.mem_singleton] at h
      rcases h with (h | h) | (h | h) | h | h <;> simp_all

theorem dirty_add_self (q : WQ) (k : String) : k ∈ (q.add k).dirty := by
  unfold WQ.add
  split
  · rename_i h; simpa using h
  · split <;> simp

theorem dirty_add_mono {q : WQ} {k x : String} (h : x ∈ q.dirty) : x ∈ (q.add k).dirty := by
  unfold WQ.add
  split
  · exact h
  · split <;> simp [h]

theorem get_some {q : WQ} {k : String} {q1 : WQ} (h : q.get = some (k, q1)) :
    ∃ rest, q.queue = k :: rest ∧
      q1 = { q with queue := rest, processing := k :: q.processing, dirty := q.dirty.erase k } := by
  unfold WQ.get at h
  split at h
  · simp at h
  · rename_i k' rest hq
    simp only [Option.some.injEq, Prod.mk.injEq] at h
    obtain ⟨rfl, rfl⟩ := h
    exact ⟨rest, hq, rfl⟩

theorem mem_keys_get {q : WQ} {k : String} {q1 : WQ} (h : q.get = some (k, q1)) :
    k ∈ q.keys ∧ ∀ x, x ∈ q1.keys → x ∈ q.keys := by
  obtain ⟨rest, hq, rfl⟩ := get_some h
  refine ⟨by simp [mem_keys, hq], ?_⟩
  intro x hx
  simp only [mem_keys] at hx ⊢
  simp only [List.mem_cons] at hx
  rcases hx with hx | hx | (hx | hx) | hx
  · simp [hq, hx]
  · exact Or.inr (Or.inl (List.mem_of_mem_erase hx))
  · simp [hq, hx]
  · simp [hx]
  · simp [hx]

theorem mem_keys_done {q : WQ} {k x : String} (h : x ∈ (q.done k).keys) : x ∈ q.keys ∨ x = k := by
  unfold WQ.done at h
  simp only at h
  split at h
  · simp only [mem_keys, List.mem_append, List.mem_singleton] at h ⊢
    rcases h with (h | h) | h | h | h
    · simp [h]
    · simp [h]
    · simp [h]
    · exact Or.inl (Or.inr (Or.inr (Or.inl (List.mem_of_mem_erase h))))
    · simp [h]
  · simp only [mem_keys] at h ⊢
    rcases h with h | h | h | h
    · simp [h]
    · simp [h]
    · exact Or.inl (Or.inr (Or.inr (Or.inl (List.mem_of_mem_erase h))))
    · simp [h]

theorem mem_setDelayed {d : List (String × Int)} {k : String} {t : Int} {p : String × Int}
    (h : p ∈ setDelayed d k t) : p ∈ d ∨ p.1 = k := by
  induction d with
  | nil => simp [setDelayed] at h; simp [h]
  | cons y rest ih =>
    obtain ⟨k', dl⟩ := y
    simp only [setDelayed] at h
    split at h
    · simp only [List.mem_cons] at h
      rcases h with h | h
      · right; simp [h]
      · left; simp [h]
    · simp only [List.mem_cons] at h
      rcases h with h | h
      · left; simp [h]
      · rcases ih h with h' | h'
        · left; simp [h']
        · right; exact h'

theorem mem_keys_addAfter {q : WQ} {k x : String} {t now : Int}
    (h : x ∈ (q.addAfter k t now).keys) : x ∈ q.keys ∨ x = k := by
  simp only [mem_keys, WQ.addAfter] at h ⊢
  rcases h with h | h | h | ⟨d, h⟩
  · simp [h]
  · simp [h]
  · simp [h]
  · rcases mem_setDelayed h with h' | h'
    · left; right; right; right; exact ⟨d, h'⟩
    · right; exact h'

theorem mem_keys_addRateLimited {q : WQ} {k x : String} {now : Int}
    (h : x ∈ (q.addRateLimited k now).keys) : x ∈ q.keys ∨ x = k := by
  simp only [mem_keys, WQ.addRateLimited] at h ⊢
  rcases h with h | h | h | ⟨d, h⟩
  · simp [h]
  · simp [h]
  · simp [h]
  · rcases mem_setDelayed h with h' | h'
    · left; right; right; right; exact ⟨d, h'⟩
    · right; exact h'

theorem keys_forget (q : WQ) (k : String) : (q.forget k).keys = q.keys := rfl

theorem mem_insertDue {x y : String × Int} {l : List (String × Int)} (h : y ∈ insertDue x l) :
    y = x ∨ y ∈ l := by
  induction l with
  | nil => simp [insertDue] at h; exact Or.inl h
  | cons z rest ih =>
    simp only [insertDue] at h
    split at h
    · simp only [List.mem_cons] at h ⊢; exact h
    · simp only [List.mem_cons] at h ⊢
      rcases h with h | h
      · exact Or.inr (Or.inl h)
      · rcases ih h with h' | h'
        · exact Or.inl h'
        · exact Or.inr (Or.inr h')

theorem mem_foldl_insertDue {l acc : List (String × Int)} {y : String × Int}
    (h : y ∈ l.foldl (fun acc x => insertDue x acc) acc) : y ∈ l ∨ y ∈ acc := by
  induction l generalizing acc with
  | nil => exact Or.inr h
  | cons x rest ih =>
    simp only [List.foldl_cons] at h
    rcases ih h with h' | h'
    · exact Or.inl (List.mem_cons_of_mem _ h')
    · rcases mem_insertDue h' with h'' | h''
      · exact Or.inl (by simp [h''])
      · exact Or.inr h''

theorem mem_keys_foldl_add {l : List (String × Int)} {q : WQ} {x : String}
    (h : x ∈ (l.foldl (fun acc y => acc.add y.1) q).keys) : x ∈ q.keys ∨ ∃ y ∈ l, y.1 = x := by
  induction l generalizing q with
  | nil => exact Or.inl h
  | cons y rest ih =>
    simp only [List.foldl_cons] at h
    rcases ih h with h' | ⟨z, hz, hzx⟩
    · rcases mem_keys_add h' with h'' | h''
      · exact Or.inl h''
      · exact Or.inr ⟨y, by simp, h''.symm⟩
    · exact Or.inr ⟨z, by simp [hz], hzx⟩

theorem mem_keys_advance {q : WQ} {now : Int} {x : String} (h : x ∈ (q.advance now).keys) :
    x ∈ q.keys := by
  unfold WQ.advance at h
  rcases mem_keys_foldl_add h with h' | ⟨y, hy, rfl⟩
  · simp only [mem_keys] at h' ⊢
    rcases h' with h' | h' | h' | ⟨d, h'⟩
    · simp [h']
    · simp [h']
    · simp [h']
    · right; right; right; exact ⟨d, (List.mem_filter.mp h').1⟩
  · rcases mem_foldl_insertDue hy with h' | h'
    · have := (List.mem_filter.mp h').1
      simp only [mem_keys]
      right; right; right; exact ⟨y.2, this⟩
    · simp at h'

/-! ### deadlines -/

/-- key `k` is scheduled no later than `b` -/
def HasDeadline (d : List (String × Int)) (k : String) (b : Int) : Prop :=
  ∃ d', (k, d') ∈ d ∧ d' ≤ b

theorem hasDeadline_setDelayed_self (d : List (String × Int)) (k : String) (t : Int) :
    HasDeadline (setDelayed d k t) k t := by
  induction d with
  | nil => exact ⟨t, by simp [setDelayed], Int.le_refl _⟩
  | cons y rest ih =>
    obtain ⟨k', dl⟩ := y
    simp only [setDelayed]
    split
    · refine ⟨if t < dl then t else dl, by simp, ?_⟩
      split <;> omega
    · obtain ⟨d', hd', hle⟩ := ih
      exact ⟨d', by simp [hd'], hle⟩

theorem hasDeadline_setDelayed_mono {d : List (String × Int)} {k : String} {b : Int}
    (h : HasDeadline d k b) (k2 : String) (t : Int) : HasDeadline (setDelayed d k2 t) k b := by
  induction d with
  | nil => obtain ⟨_, h, _⟩ := h; simp at h
  | cons y rest ih =>
    obtain ⟨k', dl⟩ := y
    obtain ⟨d', hd', hle⟩ := h
    simp only [setDelayed]
    simp only [List.mem_cons, Prod.mk.injEq] at hd'
    split
    · rename_i hk
      rcases hd' with ⟨rfl, rfl⟩ | hd'
      · refine ⟨if t < d' then t else d', by simp [hk], ?_⟩
        split <;> omega
      · exact ⟨d', by simp [hd'], hle⟩
    · rcases hd' with ⟨rfl, rfl⟩ | hd'
      · exact ⟨d', by simp, hle⟩
      · obtain ⟨d'', hd'', hle'⟩ := ih ⟨d', hd', hle⟩
        exact ⟨d'', by simp [hd''], hle'⟩

theorem hasDeadline_addAfter_self (q : WQ) (k : String) (t now : Int) :
    HasDeadline (q.addAfter k t now).delayed k (if t < now + 1000000000 then now + 1000000000 else t) :=
  hasDeadline_setDelayed_self _ _ _

theorem hasDeadline_addAfter_mono {q : WQ} {k : String} {b : Int} (h : HasDeadline q.delayed k b)
    (k2 : String) (t now : Int) : HasDeadline (q.addAfter k2 t now).delayed k b :=
  hasDeadline_setDelayed_mono h _ _

theorem two_pow_le_64 {e : Nat} (h : e ≤ 6) : (2 ^ e : Nat) ≤ 64 := by
  have : e = 0 ∨ e = 1 ∨ e = 2 ∨ e = 3 ∨ e = 4 ∨ e = 5 ∨ e = 6 := by omega
  rcases this with rfl | rfl | rfl | rfl | rfl | rfl | rfl <;> decide

/-- `AddRateLimited` schedules the key at most 320 ms (5 ms · 2⁶) ahead -/
theorem hasDeadline_addRateLimited_self (q : WQ) (k : String) (now : Int) :
    HasDeadline (q.addRateLimited k now).delayed k (now + 320000000) := by
  unfold WQ.addRateLimited
  simp only
  obtain ⟨d', hd', hle⟩ := hasDeadline_setDelayed_self q.delayed k
    (now + 5000000 * ((2 ^ (if numRequeues q.requeues k > 6 then 6 else numRequeues q.requeues k) : Nat) : Int))
  refine ⟨d', hd', Int.le_trans hle ?_⟩
  have h6 : (if numRequeues q.requeues k > 6 then 6 else numRequeues q.requeues k) ≤ 6 := by
    split <;> omega
  have := two_pow_le_64 h6
  omega

end Furiko.WQ
