/-
What `Reconciler.sync` does with the delete-dependents finalizer: it is kept unless the Job is being
deleted and none of `finalizerTasks` (the listed tasks that are found, the unrecorded tasks of the
pod cache) is left (`C13.finalizer_removed_only_when_gone`), in which
case the pass has issued no API call before the `Update`.  Core Lean only.
-/
import FurikoModel.Proofs.JobCtlInvWalk
import FurikoModel.Props.C13

set_option linter.unusedSimpArgs false
set_option linter.unusedVariables false

namespace Furiko.JobCtl
open Furiko Furiko.WQ

theorem tasksForRefs_frame {s s' : Sys} (hf : Frame s s') (jo : JobObj) (refs : List TaskRef) :
    tasksForRefsConfirmed s' jo refs = tasksForRefsConfirmed s jo refs := by
  unfold tasksForRefsConfirmed
  congr 1
  funext ref
  unfold getTaskForRefConfirmed getTaskForRef liveGetTask
  rw [hf.podCache, hf.pods, hf.clock]

theorem finalizerTasks_frame {s s' : Sys} (hf : Frame s s') (jo : JobObj) (rj : Job) :
    finalizerTasks s' jo rj = finalizerTasks s jo rj := by
  unfold finalizerTasks adoptUnrecordedTasks
  rw [tasksForRefs_frame hf, hf.podCache, hf.clock]

/-- `finalizerTasks` reads the Job only through the task list of its status -/
theorem finalizerTasks_congr (s : Sys) (jo : JobObj) {rj rj' : Job} (h : rj'.status.tasks = rj.status.tasks) :
    finalizerTasks s jo rj' = finalizerTasks s jo rj := by
  unfold finalizerTasks adoptUnrecordedTasks
  simp only [h]

theorem syncJobStatusFromTaskRefs_tasks (s : Sys) (key : String) (rj : Job) :
    (syncJobStatusFromTaskRefs s key rj).2.status.tasks = rj.status.tasks := by
  unfold syncJobStatusFromTaskRefs
  cases hu : updateJobStatusFromTaskRefs s.clock s.d rj with
  | none => rfl
  | some newRj =>
    have : newRj.status.tasks = rj.status.tasks := by
      unfold updateJobStatusFromTaskRefs updateJobStatusFromTaskRefsWith at hu
      cases ht : rj.template with
      | none => simp [ht] at hu
      | some t =>
        simp only [ht, Option.some.injEq] at hu
        subst hu
        simp [statusBeforePhase]
    simp only
    split
    · split
      · split <;> exact this
      · exact this
    · exact this

/-- the finalizer flag `sync` returns for a Job that is not being deleted is the cached one -/
theorem sync_fin_not_deleted (s : Sys) (jo : JobObj) (h : jo.job.deletionTimestamp = none) :
    (sync s jo).2.2.1 = jo.finalizer := by
  unfold sync
  (try simp only)
  have h1 := (show OutLe jo.job (if (isStarted jo.job && !isDeleted jo.job) = true then syncJobTasks s jo jo.job
      else (s, some jo.job)).2 from by
    split
    · rename_i hc
      simp only [Bool.and_eq_true, Bool.not_eq_true'] at hc
      exact (syncJobTasks_spec s jo s hc.1 hc.2 (CreatePhase.refl _)).2
    · intro _ hh; cases hh; exact JobLe.refl _)
  generalize (if (isStarted jo.job && !isDeleted jo.job) = true then syncJobTasks s jo jo.job
      else (s, some jo.job)) = r1 at h1 ⊢
  obtain ⟨s1, o1⟩ := r1
  cases o1 with
  | none => rfl
  | some rj1 =>
    (try simp only)
    have hle1 := h1 rj1 rfl
    have h2 := (syncJobStatusFromTaskRefs_spec s1 (jobKey jo) rj1).2
    generalize syncJobStatusFromTaskRefs s1 (jobKey jo) rj1 = r2 at h2 ⊢
    obtain ⟨s2, rj2⟩ := r2
    (try simp only)
    have hdel2 : rj2.deletionTimestamp = none := by rw [h2.del, hle1.del]; exact h
    generalize handleTTL s2 jo rj2 = r3
    obtain ⟨s3, ok3⟩ := r3
    cases ok3 with
    | false => rfl
    | true =>
      (try simp only)
      unfold handleFinalizer
      simp [hdel2]

/-- for a Job that is being deleted: the flag is kept, or it is dropped because no task was found;
in both "the result is `false`" cases the pass has only done bookkeeping so far -/
theorem sync_fin_deleted (s : Sys) (jo : JobObj) (h : jo.job.deletionTimestamp.isSome = true) :
    ((sync s jo).2.2.1 = jo.finalizer ∧ (jo.finalizer = false → Frame s (sync s jo).1)) ∨
    ((sync s jo).2.2.1 = false ∧ jo.finalizer = true ∧ finalizerTasks s jo jo.job = [] ∧
      Frame s (sync s jo).1) := by
  unfold sync
  have hd : isDeleted jo.job = true := h
  simp only [hd, Bool.not_true, Bool.and_false, Bool.false_eq_true, ↓reduceIte]
  have h2 := syncJobStatusFromTaskRefs_spec s (jobKey jo) jo.job
  have ht2 := syncJobStatusFromTaskRefs_tasks s (jobKey jo) jo.job
  generalize syncJobStatusFromTaskRefs s (jobKey jo) jo.job = r2 at h2 ht2 ⊢
  obtain ⟨s2, rj2⟩ := r2
  simp only at h2 ht2 ⊢
  have hdel2 : rj2.deletionTimestamp.isSome = true := by rw [h2.2.del]; exact h
  have httl : handleTTL s2 jo rj2 = (s2, true) := by
    unfold handleTTL
    have : isDeleted rj2 = true := hdel2
    simp [this]
  rw [httl]
  simp only
  cases hfin : jo.finalizer with
  | false =>
    left
    have : handleFinalizer s2 jo rj2 false = (s2, some (rj2, false)) := by
      unfold handleFinalizer
      have : ¬ rj2.deletionTimestamp.isNone = true := by
        cases hx : rj2.deletionTimestamp <;> simp_all
      simp [this]
    rw [this]
    exact ⟨rfl, fun _ => h2.1⟩
  | true =>
    cases hr : handleFinalizer s2 jo rj2 true with
    | mk s4 o4 =>
      cases o4 with
      | none => left; exact ⟨by simp, fun hx => by cases hx⟩
      | some v =>
        obtain ⟨rj3, fin⟩ := v
        simp only
        cases fin with
        | true => left; exact ⟨by simp, fun hx => by cases hx⟩
        | false =>
          right
          have hgone := Furiko.Props.C13.finalizer_removed_only_when_gone s2 jo rj2 s4 rj3 hr
          have hempty : finalizerTasks s jo jo.job = [] := by
            rw [← finalizerTasks_frame h2.1, ← finalizerTasks_congr s2 jo ht2]; exact hgone.2.2.2
          refine ⟨by simp, by simp, hempty, ?_⟩
          -- no task found: `handleFinalizer` only recomputes the status
          unfold handleFinalizer at hr
          have hn : ¬ rj2.deletionTimestamp.isNone = true := by
            cases hx : rj2.deletionTimestamp <;> simp_all
          simp only [hn, Bool.not_true, Bool.false_eq_true, ↓reduceIte, hgone.2.2.2, List.isEmpty_nil] at hr
          have h5 := (updateTaskRefStatus_spec s2 (jobKey jo) rj2 [] (by intro t ht; cases ht)).1
          generalize updateTaskRefStatus s2 (jobKey jo) rj2 [] = r5 at hr h5
          obtain ⟨s5, rj5⟩ := r5
          simp only [Prod.mk.injEq] at hr
          obtain ⟨rfl, _⟩ := hr
          exact h2.1.trans h5

/-- conversely: a pass on a Job that is being deleted, carries the finalizer and has no task left
drops the finalizer and does nothing else -/
theorem sync_deleted_no_tasks (s : Sys) (jo : JobObj) (h : jo.job.deletionTimestamp.isSome = true)
    (hfin : jo.finalizer = true) (hnone : finalizerTasks s jo jo.job = []) :
    (sync s jo).2.2.1 = false ∧ Frame s (sync s jo).1 := by
  unfold sync
  have hd : isDeleted jo.job = true := h
  simp only [hd, Bool.not_true, Bool.and_false, Bool.false_eq_true, ↓reduceIte]
  have h2 := syncJobStatusFromTaskRefs_spec s (jobKey jo) jo.job
  have ht2 := syncJobStatusFromTaskRefs_tasks s (jobKey jo) jo.job
  generalize syncJobStatusFromTaskRefs s (jobKey jo) jo.job = r2 at h2 ht2 ⊢
  obtain ⟨s2, rj2⟩ := r2
  simp only at h2 ht2 ⊢
  have hdel2 : rj2.deletionTimestamp.isSome = true := by rw [h2.2.del]; exact h
  have httl : handleTTL s2 jo rj2 = (s2, true) := by
    unfold handleTTL
    have : isDeleted rj2 = true := hdel2
    simp [this]
  rw [httl]
  simp only [hfin]
  have hempty : finalizerTasks s2 jo rj2 = [] := by
    rw [finalizerTasks_frame h2.1, finalizerTasks_congr s jo ht2]; exact hnone
  have hn : ¬ rj2.deletionTimestamp.isNone = true := by
    cases hx : rj2.deletionTimestamp <;> simp_all
  unfold handleFinalizer
  simp only [hn, Bool.not_true, Bool.false_eq_true, ↓reduceIte, hempty, List.isEmpty_nil]
  have h5 := (updateTaskRefStatus_spec s2 (jobKey jo) rj2 [] (by intro t ht; cases ht)).1
  generalize updateTaskRefStatus s2 (jobKey jo) rj2 [] = r5 at h5 ⊢
  obtain ⟨s5, rj5⟩ := r5
  exact ⟨by simp, h2.1.trans h5⟩

end Furiko.JobCtl
