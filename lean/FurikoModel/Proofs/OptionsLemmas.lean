/- Helper lemmas about `Model/Options.lean` used by `Props/C18.lean`. -/
import FurikoModel.Model.Options

namespace Furiko.OptionsLemmas
open Furiko.Options

/-! ### `strings.TrimSpace` -/

theorem trimRight_idem (s : Str) : trimRight (trimRight s) = trimRight s := by
  induction s with
  | nil => rfl
  | cons c cs ih =>
    cases h : trimRight cs with
    | nil =>
      have : trimRight (c :: cs) = if isSpace c = true then [] else [c] := by rw [trimRight, h]
      rw [this]
      by_cases hc : isSpace c = true
      · simp [hc, trimRight]
      · simp [hc, trimRight]
    | cons r rs =>
      have : trimRight (c :: cs) = c :: r :: rs := by rw [trimRight, h]
      rw [h] at ih
      rw [this, trimRight, ih]

/-- after trimming on the right, the head (if any) is still the old head -/
theorem trimRight_head (c : Char) (cs : Str) (hc : isSpace c = false) :
    ∃ r, trimRight (c :: cs) = c :: r := by
  simp only [trimRight]
  cases trimRight cs with
  | nil => exact ⟨[], by simp [hc]⟩
  | cons r rs => exact ⟨r :: rs, rfl⟩

theorem dropWhile_head_not (s : Str) : s.dropWhile isSpace = [] ∨
    ∃ c cs, s.dropWhile isSpace = c :: cs ∧ isSpace c = false := by
  induction s with
  | nil => exact Or.inl rfl
  | cons c cs ih =>
    by_cases hc : isSpace c = true
    · simpa [List.dropWhile, hc] using ih
    · exact Or.inr ⟨c, cs, by simp [List.dropWhile, hc], by simpa using hc⟩

theorem trimSpace_idem (s : Str) : trimSpace (trimSpace s) = trimSpace s := by
  unfold trimSpace
  cases dropWhile_head_not s with
  | inl h => rw [h]; rfl
  | inr h =>
    obtain ⟨c, cs, h, hc⟩ := h
    rw [h]
    obtain ⟨r, hr⟩ := trimRight_head c cs hc
    have : (trimRight (c :: cs)).dropWhile isSpace = trimRight (c :: cs) := by
      rw [hr]; simp [List.dropWhile, hc]
    rw [this, trimRight_idem]

/-! ### `strings.Join` -/

theorem join_ne_nil (sep : Str) (x : Str) (xs : List Str) (hx : x ≠ []) : join sep (x :: xs) ≠ [] := by
  cases xs with
  | nil => simpa [join] using hx
  | cons y ys =>
    simp only [join]
    intro h
    cases x with
    | nil => exact hx rfl
    | cons a as => simp at h

theorem containsString_iff (xs : List Str) (x : Str) : containsString xs x = true ↔ x ∈ xs := by
  simp [containsString]

/-! ### the multi loop -/

theorem multiCheck_none (cfg : MultiCfg) (v : List Str) (h : multiCheck cfg v = none) :
    ∀ x ∈ v, x ≠ [] ∧ (cfg.allowCustom = true ∨ x ∈ cfg.values) := by
  induction v with
  | nil => intro x hx; cases hx
  | cons a as ih =>
    simp only [multiCheck] at h
    split at h
    · cases h
    · next h1 =>
      split at h
      · cases h
      · next h2 =>
        intro x hx
        cases List.mem_cons.mp hx with
        | inl e =>
          subst e
          refine ⟨by simpa using h2, ?_⟩
          simp only [Bool.and_eq_true, Bool.not_eq_true', not_and, Bool.not_eq_false] at h1
          by_cases hc : cfg.allowCustom = true
          · exact Or.inl hc
          · right
            have := h1 (by simpa using hc)
            exact (containsString_iff _ _).mp this
        | inr hm => exact ih h x hm

theorem multiCheck_of_all (cfg : MultiCfg) (v : List Str)
    (h : ∀ x ∈ v, x ≠ [] ∧ x ∈ cfg.values) : multiCheck cfg v = none := by
  induction v with
  | nil => rfl
  | cons a as ih =>
    have ha := h a List.mem_cons_self
    have hc : containsString cfg.values a = true := (containsString_iff _ _).mpr ha.2
    have he : a.isEmpty = false := by
      cases a with
      | nil => exact absurd rfl ha.1
      | cons _ _ => rfl
    simp only [multiCheck, hc, he]
    simp
    exact ih (fun x hx => h x (List.mem_cons_of_mem _ hx))

/-! ### `EvaluateOptions` as a fold -/

def evalStep (D : DateOracle) (vals : List (Str × Value)) (acc : List (Str × Str) × List EvalErr) (o : Opt) :
    List (Str × Str) × List EvalErr :=
  let optionValue := (lookupS o.name vals).getD Value.null
  match evaluateOption D optionValue o with
  | .error e => (acc.1, acc.2 ++ [e])
  | .ok s => (mapInsert acc.1 (optionVariableName o) s, acc.2)

theorem evaluateOptions_eq (D : DateOracle) (vals : List (Str × Value)) (opts : List Opt) :
    evaluateOptions D vals (some opts) = opts.foldl (evalStep D vals) ([], []) := rfl

def keysOf (m : List (Str × Str)) : List Str := m.map Prod.fst

theorem mapInsert_fresh (m : List (Str × Str)) (k v : Str) (h : k ∉ keysOf m) :
    mapInsert m k v = m ++ [(k, v)] := by
  induction m with
  | nil => rfl
  | cons e m ih =>
    obtain ⟨k', v'⟩ := e
    simp only [keysOf, List.map_cons, List.mem_cons, not_or] at h
    have hne : ¬ k' = k := fun e => h.1 e.symm
    simp only [mapInsert, if_neg hne, List.cons_append]
    rw [ih h.2]

theorem lookupS_append_fresh {β : Type} (m : List (Str × β)) (k : Str) (v : β) (h : k ∉ m.map Prod.fst) :
    lookupS k (m ++ [(k, v)]) = some v := by
  induction m with
  | nil => simp [lookupS]
  | cons e m ih =>
    obtain ⟨k', v'⟩ := e
    simp only [List.map_cons, List.mem_cons, not_or] at h
    have hne : ¬ k' = k := fun e => h.1 e.symm
    simp only [List.cons_append, lookupS, if_neg hne]
    exact ih h.2

theorem lookupS_append_other {β : Type} (m : List (Str × β)) (k k' : Str) (v : β) (h : k' ≠ k) :
    lookupS k (m ++ [(k', v)]) = lookupS k m := by
  induction m with
  | nil => simp [lookupS, h]
  | cons e m ih =>
    obtain ⟨k2, v2⟩ := e
    simp only [List.cons_append, lookupS]
    split
    · rfl
    · exact ih

theorem optionVariableName_inj (a b : Opt) (h : optionVariableName a = optionVariableName b) :
    a.name = b.name := by
  unfold optionVariableName at h
  exact List.append_cancel_left h

/-- if the fold ends without errors, it started without errors, every option evaluated to a
value, and (for fresh, pairwise distinct names) the map grew by exactly one entry per option -/
theorem fold_ok (D : DateOracle) (vals : List (Str × Value)) (opts : List Opt)
    (m0 : List (Str × Str)) (e0 : List EvalErr) (m : List (Str × Str))
    (hnd : (opts.map (·.name)).Nodup)
    (hfresh : ∀ o ∈ opts, optionVariableName o ∉ keysOf m0)
    (h : opts.foldl (evalStep D vals) (m0, e0) = (m, [])) :
    e0 = [] ∧ keysOf m = keysOf m0 ++ opts.map optionVariableName ∧
    (∀ k, k ∉ opts.map optionVariableName → lookupS k m = lookupS k m0) ∧
    ∀ o ∈ opts, ∃ s, evaluateOption D ((lookupS o.name vals).getD Value.null) o = .ok s ∧
      lookupS (optionVariableName o) m = some s := by
  induction opts generalizing m0 e0 with
  | nil =>
    simp only [List.foldl_nil, Prod.mk.injEq] at h
    obtain ⟨rfl, rfl⟩ := h
    simp
  | cons o opts ih =>
    simp only [List.map_cons, List.nodup_cons] at hnd
    rw [List.foldl_cons] at h
    have hof : optionVariableName o ∉ keysOf m0 := hfresh o List.mem_cons_self
    cases hev : evaluateOption D ((lookupS o.name vals).getD Value.null) o with
    | error e =>
      have hstep : evalStep D vals (m0, e0) o = (m0, e0 ++ [e]) := by simp [evalStep, hev]
      rw [hstep] at h
      have := (ih m0 (e0 ++ [e]) hnd.2 (fun x hx => hfresh x (List.mem_cons_of_mem _ hx)) h).1
      simp at this
    | ok s =>
      have hstep : evalStep D vals (m0, e0) o = (m0 ++ [(optionVariableName o, s)], e0) := by
        simp [evalStep, hev, mapInsert_fresh m0 _ s hof]
      rw [hstep] at h
      have hfresh' : ∀ x ∈ opts, optionVariableName x ∉ keysOf (m0 ++ [(optionVariableName o, s)]) := by
        intro x hx hmem
        simp only [keysOf, List.map_append, List.map_cons, List.map_nil, List.mem_append,
          List.mem_singleton] at hmem
        cases hmem with
        | inl h1 => exact hfresh x (List.mem_cons_of_mem _ hx) h1
        | inr h2 =>
          have := optionVariableName_inj x o h2
          exact hnd.1 (List.mem_map.mpr ⟨x, hx, this⟩)
      obtain ⟨he, hkeys, hother, hall⟩ := ih _ e0 hnd.2 hfresh' h
      refine ⟨he, ?_, ?_, ?_⟩
      · rw [hkeys]; simp [keysOf]
      · intro k hk
        simp only [List.map_cons, List.mem_cons, not_or] at hk
        rw [hother k hk.2]
        exact lookupS_append_other m0 k _ s (fun e => hk.1 e.symm)
      · intro x hx
        cases List.mem_cons.mp hx with
        | inl e =>
          subst e
          refine ⟨s, hev, ?_⟩
          have hnot : optionVariableName x ∉ opts.map optionVariableName := by
            intro hmem
            obtain ⟨y, hy, hyx⟩ := List.mem_map.mp hmem
            exact hnd.1 (List.mem_map.mpr ⟨y, hy, optionVariableName_inj y x hyx⟩)
          rw [hother _ hnot]
          exact lookupS_append_fresh m0 _ s hof
        | inr hm => exact hall x hm

/-! ### helpers of the C18 evaluation theorems -/

theorem multi_finish_respects (o : Opt) (cfg : MultiCfg) (v : List Str) (s : Str)
    (h : evaluateMulti.finish o cfg v = .ok s) :
    ∃ vs, s = join cfg.delimiter vs ∧ (o.required = true → vs ≠ [] ∧ s ≠ []) ∧
      ∀ x ∈ vs, x ≠ [] ∧ (cfg.allowCustom = true ∨ x ∈ cfg.values) := by
  simp only [evaluateMulti.finish] at h
  generalize (if v.isEmpty = true then cfg.default else v) = vs at h
  split at h
  · cases h
  · next hreq =>
    split at h
    · cases h
    · next hmc =>
      cases h
      refine ⟨_, rfl, ?_, multiCheck_none cfg _ hmc⟩
      intro hr
      have hne : vs ≠ [] := by
        intro he
        apply hreq
        simp [he, hr]
      refine ⟨hne, ?_⟩
      cases vs with
      | nil => exact absurd rfl hne
      | cons x xs =>
        have := multiCheck_none cfg _ hmc x List.mem_cons_self
        exact join_ne_nil _ x xs this.1

theorem nodup_variableNames (opts : List Opt) (hnd : (opts.map (·.name)).Nodup) :
    (opts.map optionVariableName).Nodup := by
  induction opts with
  | nil => simp
  | cons o os ih =>
    simp only [List.map_cons, List.nodup_cons] at hnd ⊢
    refine ⟨?_, ih hnd.2⟩
    intro hm
    obtain ⟨y, hy, hyx⟩ := List.mem_map.mp hm
    exact hnd.1 (List.mem_map.mpr ⟨y, hy, optionVariableName_inj y o hyx⟩)

theorem formatValue_of_valid (cfg : BoolCfg) (b : Bool)
    (h : Facts.boolFormatsAll.contains cfg.format = true) : ∃ s, formatValue cfg b = some s := by
  have hm : cfg.format ∈ Facts.boolFormatsAll := by simpa using h
  simp only [Facts.boolFormatsAll, List.mem_cons, List.not_mem_nil, or_false] at hm
  apply Option.isSome_iff_exists.mp
  rcases hm with h1 | h1 | h1 | h1 <;>
    simp [formatValue, h1, Facts.boolFormatCustom, Facts.boolFormatStrings]

end Furiko.OptionsLemmas
