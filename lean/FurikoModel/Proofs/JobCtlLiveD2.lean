/-
Liveness of the job controller, delete part 2: the Job API calls of a pass with no fault pending
(`apiUpdateJobStatus_eq`, `apiUpdateJobStatus_absent_eq`, `apiUpdateJob_drop_eq`: dropping the finalizer of
a Job that is being deleted removes the object), `Reconciler.sync` on a Job being deleted (`sync_delete`)
and `SyncOne` (`syncOne_delete_keep`: pods left, every pod gracefully deleted, the Job stays;
`syncOne_delete_drop`: no pod left, the object is removed).  Core Lean only.
-/
import FurikoModel.Proofs.JobCtlLiveD1

set_option linter.unusedSimpArgs false
set_option linter.unusedVariables false

namespace Furiko.JobCtl.Live
open Furiko Furiko.JobCtl Furiko.WQ Furiko.StatusLemmas Furiko.JobCtlPlan

def noopK (s : Sys) (jo : JobObj) : Sys :=
  { s with calls := s.calls ++ [⟨"update", "jobs", jo.name, "ok", true, false⟩], delRun := none }

def absentK (s : Sys) (jo : JobObj) : Sys :=
  { s with calls := s.calls ++ [⟨"update", "jobs", jo.name, "notfound", true, false⟩], delRun := none }

def droppedObj (jo : JobObj) (newJob : Job) (rv : Nat) : JobObj :=
  { jo with job := { newJob with status := jo.job.status, deletionTimestamp := jo.job.deletionTimestamp },
            finalizer := false, rv := rv }

def droppedK (s : Sys) (jo : JobObj) (newJob : Job) : Sys :=
  { s with rv := s.rv + 1, job := none, jobEvs := s.jobEvs ++ [.delete (droppedObj jo newJob (s.rv + 1))],
           calls := s.calls ++ [⟨"update", "jobs", jo.name, "ok", false, false⟩], delRun := none }

theorem written_self (jo : JobObj) (newJob : Job) (h : newJob.status = jo.job.status) :
    written jo newJob jo.rv = jo := by
  unfold written
  rw [h]

theorem apiUpdateJobStatus_eq (s : Sys) (jo : JobObj) (newJob : Job) (h : NoFault s) (hj : s.job = some jo) :
    apiUpdateJobStatus s jo { jo with job := newJob } =
      (if newJob.status = jo.job.status then noopK s jo else afterStatusK s jo newJob, true) := by
  by_cases hd : newJob.status = jo.job.status
  · rw [if_pos hd]
    have hyes : ({ ({ jo with job := { jo.job with status := newJob.status }, rv := s.rv + 1 } : JobObj) with rv := jo.rv } = jo) :=
      written_self jo newJob hd
    unfold apiUpdateJobStatus nextFault popFault
    rw [h.1]
    simp only [isFailFault, hj, log, noopK]
    simp [hyes]
  · rw [if_neg hd]
    exact apiUpdateJobStatus_nofault s jo newJob h hj hd

theorem apiUpdateJobStatus_absent_eq (s : Sys) (jo new : JobObj) (h : NoFault s) (hj : s.job = none) :
    apiUpdateJobStatus s jo new = (absentK s jo, false) := by
  unfold apiUpdateJobStatus nextFault popFault
  rw [h.1]
  simp only [isFailFault, hj, log, absentK]
  simp

theorem apiUpdateJob_drop_eq (s : Sys) (jo : JobObj) (newJob : Job) (h : NoFault s) (hj : s.job = some jo)
    (hfz : jo.finalizer = true) (hdel : jo.job.deletionTimestamp.isSome = true) :
    apiUpdateJob s jo { jo with job := newJob, finalizer := false } = (droppedK s jo newJob, true) := by
  have hno : ¬ (droppedObj jo newJob jo.rv = jo) := by
    intro e
    have := congrArg (fun j => j.finalizer) e
    simp only [droppedObj] at this
    rw [hfz] at this
    cases this
  unfold apiUpdateJob nextFault popFault
  rw [h.1]
  simp only [isFailFault, hj, log, droppedK, droppedObj] at hno ⊢
  simp [hno, hdel]

/-- **`Reconciler.sync` on a Job that is being deleted and carries the finalizer** -/
theorem sync_delete (sp : Sys) (jo : JobObj) (hdel : jo.job.deletionTimestamp.isSome = true) (hfz : jo.finalizer = true)
    (hnf : NoFault sp) (hc : sp.podCache = sp.pods) (hp : KPods jo sp)
    (hnodel : ∀ p ∈ sp.pods, p.pod.deletionTimestamp = none) :
    ∃ s' rjF fz nt N, sync sp jo = (s', rjF, fz, true, nt) ∧ MarkedT (jobKey jo) sp s' N ∧
      (∀ n, n ∈ N ↔ ∃ p ∈ sp.pods, p.pod.name = n) ∧ (fz = true ↔ sp.pods ≠ []) ∧
      rjF.admissionError = jo.job.admissionError := by
  have hstage : syncTasksStage sp jo = (sp, some jo.job) := by
    unfold syncTasksStage
    have h2 : isDeleted jo.job = true := hdel
    simp [h2]
  have hu1 := syncJobStatus_fst sp (jobKey jo) jo.job
  have hu2 := syncJobStatus_snd' sp (jobKey jo) jo.job
  generalize hU : syncJobStatusFromTaskRefs sp (jobKey jo) jo.job = U at hu1 hu2
  obtain ⟨s2, rj2⟩ := U
  simp only at hu1 hu2
  have hs2 : SameSpec jo.job rj2 := by rw [hu2]; exact (statusOf_sameSpec sp.clock sp.d jo.job).1
  have hdel2 : rj2.deletionTimestamp.isSome = true := by rw [hs2.deletionTimestamp]; exact hdel
  have hst := hu1.static
  have hT : handleTTL s2 jo rj2 = (s2, true) := by
    unfold handleTTL
    have : isDeleted rj2 = true := hdel2
    simp [this]
  have hnf2 : NoFault s2 := ⟨by rw [hst.2.2.2.2.2.2.2.2.2.2.1]; exact hnf.1, by rw [hst.2.2.2.2.2.2.2.2.2.2.2.1]; exact hnf.2⟩
  have hc2 : s2.podCache = s2.pods := by rw [hst.2.2.2.2.1, hst.2.2.2.1]; exact hc
  have hp2 : KPods jo s2 := ⟨by rw [hst.2.2.2.1]; exact hp.owned, by rw [hst.2.2.2.1]; exact hp.sane, by rw [hst.2.2.2.1]; exact hp.nodup⟩
  obtain ⟨s', rj', fz, N, hF, hm, hN, hfzz, hs'⟩ := handleFinalizer_delete s2 jo rj2 hdel2 hnf2 hc2 hp2
    (by rw [hst.2.2.2.1]; exact hnodel)
  have hsy : ∃ nt, sync sp jo = (s', rj', fz, true, nt) := by
    rw [sync_eq]
    simp only [hstage, hU, hT, hfz, hF]
    exact ⟨_, rfl⟩
  obtain ⟨nt, hsy⟩ := hsy
  refine ⟨s', rj', fz, nt, N, hsy, ((MarkedT.of_timers hu1).trans hm).congr (fun n => by simp), ?_, ?_, ?_⟩
  · intro n; rw [hN, hst.2.2.2.1]
  · rw [hfzz, hst.2.2.2.1]
  · rw [hs'.admissionError, hs2.admissionError]

/-- `SyncOne` on a Job being deleted while pods are left: no spec update, the Job stays -/
theorem syncOne_delete_keep (sp : Sys) (jo : JobObj) (s' : Sys) (rjF : Job) (nt : Bool) (hc : sp.jobCache = some jo)
    (hfz : jo.finalizer = true)
    (hsync : sync sp jo = (s', rjF, true, true, nt)) (hadm : rjF.admissionError = jo.job.admissionError)
    (hnf : NoFault s') (hj : s'.job = some jo) :
    syncOne sp =
      (if (decide (rjF.status ≠ jo.job.status) || nt) = true then
          (if rjF.status = jo.job.status then noopK s' jo else afterStatusK s' jo rjF)
        else s', true) := by
  unfold syncOne
  simp only [hc, hsync, hadm, hfz, ne_eq, not_true_eq_false, decide_false, Bool.or_self, Bool.false_eq_true, ↓reduceIte,
    Bool.not_true, statusBase_false]
  by_cases hd : (decide (¬ rjF.status = jo.job.status) || nt) = true
  · have e : ({ name := jo.name, uid := jo.uid, job := rjF, finalizer := true, rv := jo.rv } : JobObj) = { jo with job := rjF } := by
      cases jo; simp only at hfz; subst hfz; rfl
    simp only [hd, ↓reduceIte, e, apiUpdateJobStatus_eq s' jo rjF hnf hj, Bool.not_true, Bool.false_eq_true]
  · simp only [hd, Bool.false_eq_true, ↓reduceIte, Bool.not_true]

/-- `SyncOne` on a Job being deleted when no pod is left: the finalizer is dropped, the object removed (a status
update that follows is answered NotFound: the pass then reports an error) -/
theorem syncOne_delete_drop (sp : Sys) (jo : JobObj) (s' : Sys) (rjF : Job) (nt : Bool) (hc : sp.jobCache = some jo)
    (hfz : jo.finalizer = true) (hdel : jo.job.deletionTimestamp.isSome = true)
    (hsync : sync sp jo = (s', rjF, false, true, nt)) (hnf : NoFault s') (hj : s'.job = some jo) :
    syncOne sp =
      if (decide (rjF.status ≠ jo.job.status) || nt) = true then (absentK (droppedK s' jo rjF) jo, false)
      else (droppedK s' jo rjF, true) := by
  have hnfd : NoFault (droppedK s' jo rjF) := ⟨hnf.1, fun f hf => by cases hf⟩
  unfold syncOne
  simp only [hc, hsync, hfz, apiUpdateJob_drop_eq s' jo rjF hnf hj hfz hdel]
  simp only [ne_eq, Bool.false_eq_true, not_false_eq_true, decide_true, Bool.or_true, ↓reduceIte, Bool.not_true]
  by_cases hd : (decide (¬ rjF.status = jo.job.status) || nt) = true
  · -- the status write carries the resourceVersion `Update` returned, and is answered NotFound all the same
    have hab : ∀ new, apiUpdateJobStatus (droppedK s' jo rjF) (statusBase (droppedK s' jo rjF) jo true) new =
        (absentK (droppedK s' jo rjF) jo, false) :=
      fun new => apiUpdateJobStatus_absent_eq (droppedK s' jo rjF) _ new hnfd rfl
    simp only [hd, ↓reduceIte, hab, Bool.not_false]
  · simp only [hd, Bool.false_eq_true, ↓reduceIte, Bool.not_true]

end Furiko.JobCtl.Live
