/-
Liveness of the job controller, part 14: the pass of a fair round, uniformly in what the creation stage
did (`pass_uniform`): from a `PState`, given the outcome `(s1, rjA, T1)` of `syncCreateTasks` — with
`rjA` the cached Job or its recomputed version —, the `work` step writes `recompute … jo.job T1` and
leaves a `PassOut` state; the refs it records are the recorded refs refreshed against the finished pods
plus, possibly, the ref of one task that was not recorded (`gen_found`, `gen_snoc`).  Core Lean only.
-/
import FurikoModel.Proofs.JobCtlLive13

set_option linter.unusedSimpArgs false
set_option linter.unusedVariables false

namespace Furiko.JobCtl.Live
open Furiko Furiko.JobCtl Furiko.WQ Furiko.StatusLemmas Furiko.JobCtlPlan Furiko.Conv Furiko.ParallelLemmas

theorem eq_of_sameSpec {a b : Job} (h : SameSpec a b) : b = { a with status := b.status } := by
  obtain ⟨h1, h2, h3, h4, h5, h6⟩ := h
  cases a; cases b
  simp_all

theorem findTask_append_ne (T : List Task) (t : Task) (n : String) (h : t.name ≠ n) :
    findTask (T ++ [t]) n = findTask T n := by
  unfold findTask
  rw [List.find?_append]
  cases List.find? (fun t => t.name == n) T with
  | some x => rfl
  | none =>
    have : (t.name == n) = false := by simpa using h
    simp [this]

/-- the condition of the recomputed Job of a simple Job, in terms of the generated refs -/
theorem recompute_condition (now : Time) (d : PIndex) (rj : Job) (T1 : List Task) (hsp : SimpleSpec rj)
    (hhash : AllHash d (generateTaskRefs now rj.status.tasks T1)) :
    (AllFin (generateTaskRefs now rj.status.tasks T1) ∧
        (AnySucc (generateTaskRefs now rj.status.tasks T1) ∨
          (((generateTaskRefs now rj.status.tasks T1).countP refTerminal : Nat) : Int) ≥ rj.maxAttempts) →
      ∃ f, (recompute now d rj T1).status.condition.finished = some f ∧
        f.finishTimestamp = latestFinished (generateTaskRefs now rj.status.tasks T1) ∧
        (AnySucc (generateTaskRefs now rj.status.tasks T1) → f.result = .success) ∧
        (¬ AnySucc (generateTaskRefs now rj.status.tasks T1) → f.result = .failed)) ∧
    (¬ (AllFin (generateTaskRefs now rj.status.tasks T1) ∧
        (AnySucc (generateTaskRefs now rj.status.tasks T1) ∨
          (((generateTaskRefs now rj.status.tasks T1).countP refTerminal : Nat) : Int) ≥ rj.maxAttempts)) →
      (recompute now d rj T1).status.condition.finished = none) := by
  have hX' : SimpleSpec (updateJobTaskRefs now rj T1) := hsp.congr (updateJobTaskRefs_sameSpec _ _ _) rfl
  have hcondEq : (recompute now d rj T1).status.condition = getCondition now d (updateJobTaskRefs now rj T1) := by
    unfold recompute
    rw [statusOf_simple now d _ hX']
  rw [hcondEq]
  exact simple_condition now d (updateJobTaskRefs now rj T1) hX' hhash

section
variable {ok : Sys → Action → Prop} {j0 jo : JobObj} {F0 : Int} {s : Sys}

/-- the refs generated from the tasks found: the recorded refs, each refreshed against its pod -/
theorem gen_found (h : PState ok j0 jo F0 s) :
    (generateTaskRefs s.clock jo.job.status.tasks (foundTasks s jo)).Perm (jo.job.status.tasks.map (refP s)) := by
  have := generate_consistent s jo.job.status.tasks (foundTasks s jo) h.canon.nodupNames h.consistent
  rw [show newTasks jo.job.status.tasks (foundTasks s jo) = [] from
    newTasks_found _ (lookTask s) (fun n t hl => lookTask_name hl)] at this
  simpa using this

/-- … and from the tasks found plus one task under a name that is not recorded -/
theorem gen_snoc (h : PState ok j0 jo F0 s) (t : Task) (hok : TaskOK t) (hn : t.name ∉ refNames jo.job) :
    (generateTaskRefs s.clock jo.job.status.tasks (foundTasks s jo ++ [t])).Perm
      (jo.job.status.tasks.map (refP s) ++ [getTaskRef none t]) := by
  have hc := h.consistent
  have hnT : t.name ∉ (foundTasks s jo).map (·.name) := by
    intro hm
    obtain ⟨t', ht', hn'⟩ := List.mem_map.mp hm
    obtain ⟨r, hr, hrt⟩ := List.mem_filterMap.mp ht'
    apply hn
    rw [← hn', lookTask_name hrt]
    exact List.mem_map.mpr ⟨r, hr, rfl⟩
  have hnd : ((foundTasks s jo ++ [t]).map (·.name)).Nodup := by
    rw [List.map_append, List.nodup_append]
    refine ⟨hc.nodup, by simp, ?_⟩
    intro a ha b hb
    simp only [List.map_cons, List.map_nil, List.mem_singleton] at hb
    subst hb
    intro e; subst e; exact hnT ha
  have hoks : ∀ t' ∈ foundTasks s jo ++ [t], TaskOK t' := by
    intro t' ht'
    rcases List.mem_append.mp ht' with h' | h'
    · exact hc.taskOK t' h'
    · simp only [List.mem_singleton] at h'; subst h'; exact hok
  have hp := generateTaskRefs_perm_canon s.clock jo.job.status.tasks (foundTasks s jo ++ [t]) h.canon.nodupNames hnd hoks
  unfold canonRefs at hp
  have h1 : jo.job.status.tasks.map (refresh s.clock (foundTasks s jo ++ [t])) = jo.job.status.tasks.map (refP s) := by
    apply List.map_congr_left
    intro r hr
    have : refresh s.clock (foundTasks s jo ++ [t]) r = refresh s.clock (foundTasks s jo) r := by
      unfold refresh
      rw [findTask_append_ne _ t r.name (fun e => hn (by rw [e]; exact List.mem_map.mpr ⟨r, hr, rfl⟩))]
    rw [this]
    exact hc.refresh_eq r hr
  have h2 : newTasks jo.job.status.tasks (foundTasks s jo ++ [t]) = [t] :=
    newTasks_snoc _ _ t (newTasks_found _ (lookTask s) (fun n t hl => lookTask_name hl)) hn
  rw [h1, h2] at hp
  simpa using hp

/-- **the pass of a fair round**, uniformly in the outcome of the creation stage -/
theorem pass_uniform (h : PState ok j0 jo F0 s) (k : String) (rest : List String)
    (hq : (s.q.advance s.clock).queue = k :: rest) (X s1 : Sys) (created : List PodObj) (rjA : Job) (T1 : List Task)
    (hX : CreateOut (passStart s (popQ (s.q.advance s.clock) k rest)) X created)
    (hs1 : TimersOnly (jobKey jo) X s1)
    (hcreate : syncCreateTasks (passStart s (popQ (s.q.advance s.clock) k rest)) jo jo.job (foundTasks s jo) =
      (s1, some (rjA, T1)))
    (hrjA : rjA = jo.job ∨ rjA = recompute s.clock s.d jo.job T1)
    (hT1nd : (T1.map (·.name)).Nodup) (hT1 : ∀ t ∈ T1, TaskGood t ∧ t.deletionTimestamp = none)
    (hquiet : ∀ pt, getPendingTimeout jo.job s.cfg = some pt → 0 < pt → ∀ t ∈ T1, PendQuiet s.clock pt t)
    (hhash : AllHash s.d (generateTaskRefs s.clock jo.job.status.tasks T1))
    (hlb : ∀ r ∈ generateTaskRefs s.clock jo.job.status.tasks T1, ∀ f, r.finishTimestamp = some f → F0 ≤ f)
    (hclockT : s.clock < F0 + getTTLAfterFinished jo.job s.cfg)
    (hps : (created.map PEv.upsert).foldl applyPEv s.pods = s.pods ++ created) :
    ∃ s', TimersOnly (jobKey jo) X s' ∧
      ((recompute s.clock s.d jo.job T1).status.condition.finished = none →
        (∀ t ∈ T1, t.ref.finishTimestamp.isSome = true ∨ t.ref.runningTimestamp.isSome = true) → s' = s1) ∧
      PassOut jo s (work s).1 (recompute s.clock s.d jo.job T1).status created ∧
      (work s).1.q.delayed = s'.q.delayed ∧ (work s).1.q.queue = rest ∧
      ((recompute s.clock s.d jo.job T1).status = jo.job.status → (work s).1.job = some jo ∧ (work s).1.rv = s'.rv ∧
        (work s).1.jobEvs = [] ∧ (work s).1.calls = s'.calls ∧ (work s).1.podEvs = created.map PEv.upsert) := by
  have hc := h.canon
  have hwf := (Retry.advance_facts s.q s.clock hc.wf).1
  -- static facts about `s1`
  have hstX := hs1.static
  have hclk1 : s1.clock = s.clock := by rw [hstX.1, hX.clock]; rfl
  have hd1 : s1.d = s.d := by rw [hstX.2.1, hX.d]; rfl
  have hcfg1 : s1.cfg = s.cfg := by rw [hstX.2.2.1, hX.cfg]; rfl
  -- idempotence of the ref generation
  have hoks : ∀ t ∈ T1, TaskOK t := fun t ht => (hT1 t ht).1.ok
  have hfinal : ∀ t ∈ T1, TaskFinal t := fun t ht => (hT1 t ht).1.final
  have hgen0 := generateTaskRefs_idem_same s.clock s.clock jo.job.status.tasks T1 hc.nodupNames hT1nd hoks hfinal
  have hR : recompute s.clock s.d (recompute s.clock s.d jo.job T1) T1 = recompute s.clock s.d jo.job T1 :=
    recompute_idem s.clock s.clock s.d jo.job T1 T1 hc.spec hgen0
  have hA : SimpleSpec rjA := by
    rcases hrjA with e | e
    · rw [e]; exact hc.spec
    · rw [e]; exact hc.spec.recompute _ _ _
  have hrjF : recompute s1.clock s1.d rjA T1 = recompute s.clock s.d jo.job T1 := by
    rw [hclk1, hd1]
    rcases hrjA with e | e
    · rw [e]
    · rw [e]; exact hR
  have hgenA : generateTaskRefs s1.clock (generateTaskRefs s1.clock rjA.status.tasks T1) T1 =
      generateTaskRefs s1.clock rjA.status.tasks T1 := by
    rw [hclk1]
    rcases hrjA with e | e
    · rw [e]; exact hgen0
    · rw [e, (recompute_sameSpec s.clock s.d jo.job T1).2.1]
      exact generateTaskRefs_idem_same s.clock s.clock _ T1
        (generateTaskRefs_names_nodup s.clock _ T1 hc.nodupNames hT1nd hoks) hT1nd hoks hfinal
  have hsameA : SameSpec jo.job rjA := by
    rcases hrjA with e | e
    · rw [e]; exact SameSpec.refl _
    · rw [e]; exact (recompute_sameSpec _ _ _ _).1
  -- the TTL has not elapsed
  have httl : ∀ fin, (recompute s1.clock s1.d rjA T1).status.condition.finished = some fin →
      fin.finishTimestamp.getD zeroTime + getTTLAfterFinished (recompute s1.clock s1.d rjA T1)
        (passStart s (popQ (s.q.advance s.clock) k rest)).cfg >
        (passStart s (popQ (s.q.advance s.clock) k rest)).clock := by
    rw [hrjF]
    intro fin hfin
    show fin.finishTimestamp.getD zeroTime + getTTLAfterFinished (recompute s.clock s.d jo.job T1) s.cfg > s.clock
    have hsp := hc.spec.recompute s.clock s.d T1
    have hsame := recompute_sameSpec s.clock s.d jo.job T1
    have httlEq : getTTLAfterFinished (recompute s.clock s.d jo.job T1) s.cfg = getTTLAfterFinished jo.job s.cfg := by
      unfold getTTLAfterFinished; rw [hsame.1.ttl]
    rw [httlEq]
    -- the stored condition is `getCondition` of the recomputed Job
    have hcondEq : (recompute s.clock s.d jo.job T1).status.condition =
        getCondition s.clock s.d (updateJobTaskRefs s.clock jo.job T1) := by
      unfold recompute
      rw [statusOf_simple s.clock s.d _ (hc.spec.congr (updateJobTaskRefs_sameSpec _ _ _) rfl)]
    rw [hcondEq] at hfin
    have hX' : SimpleSpec (updateJobTaskRefs s.clock jo.job T1) := hc.spec.congr (updateJobTaskRefs_sameSpec _ _ _) rfl
    have htasks : (updateJobTaskRefs s.clock jo.job T1).status.tasks = generateTaskRefs s.clock jo.job.status.tasks T1 := rfl
    obtain ⟨c1, c2⟩ := simple_condition s.clock s.d (updateJobTaskRefs s.clock jo.job T1) hX' (by rw [htasks]; exact hhash)
    by_cases hcomp : AllFin (updateJobTaskRefs s.clock jo.job T1).status.tasks ∧
        (AnySucc (updateJobTaskRefs s.clock jo.job T1).status.tasks ∨
          (((updateJobTaskRefs s.clock jo.job T1).status.tasks.countP refTerminal : Nat) : Int) ≥
            (updateJobTaskRefs s.clock jo.job T1).maxAttempts)
    · obtain ⟨f, hf, hft, _, _⟩ := c1 hcomp
      rw [hf] at hfin
      cases hfin
      -- some ref exists and is finished at or after `F0`
      have hne : ∃ r, r ∈ (updateJobTaskRefs s.clock jo.job T1).status.tasks := by
        rcases hcomp.2 with ⟨r, hr, _⟩ | hge
        · exact ⟨r, hr⟩
        · have hm : (updateJobTaskRefs s.clock jo.job T1).maxAttempts = jo.job.maxAttempts := rfl
          rw [hm] at hge
          have hpos := hc.npos
          cases hl : (updateJobTaskRefs s.clock jo.job T1).status.tasks with
          | nil => rw [hl] at hge; simp at hge; omega
          | cons r _ => exact ⟨r, List.mem_cons_self⟩
      obtain ⟨r, hr⟩ := hne
      have hrf := hcomp.1 r hr
      cases hrff : r.finishTimestamp with
      | none => rw [hrff] at hrf; cases hrf
      | some f0 =>
        obtain ⟨g, hg, hle⟩ := latestFinished_ge _ r hr f0 hrff
        rw [hft, hg]
        have := hlb r (by rw [← htasks]; exact hr) f0 hrff
        simp only [Option.getD_some]
        have h1 : F0 ≤ g := Int.le_trans this hle
        exact Int.lt_of_lt_of_le hclockT (Int.add_le_add_right h1 _)
    · rw [c2 hcomp] at hfin; cases hfin
  -- the pass
  have hcreate' : syncCreateTasks (passStart s (popQ (s.q.advance s.clock) k rest)) jo jo.job
      (tasksForRefs (passStart s (popQ (s.q.advance s.clock) k rest)) jo jo.job.status.tasks) = (s1, some (rjA, T1)) := by
    rw [h.tasks_eq]; exact hcreate
  obtain ⟨s', hsync, hto, hex⟩ := sync_simple (hT1fn := TasksFn.of_nodup hT1nd (fun t ht => (hT1 t ht).1.ok)) (passStart s (popQ (s.q.advance s.clock) k rest)) jo s1 rjA T1 hc.spec
    hcreate' hA (by rw [hcfg1]; rfl) (by rw [hclk1]; rfl)
    (by
      intro pt hpt hpos t ht
      rw [hclk1]
      apply hquiet pt _ hpos t ht
      rw [← getPendingTimeout_sameSpec hsameA, ← hcfg1]; exact hpt)
    (fun t ht => (hT1 t ht).2) hgenA httl
  rw [hrjF] at hsync hex
  have hspec := eq_of_sameSpec (recompute_sameSpec s.clock s.d jo.job T1).1
  obtain ⟨po, pd, pq, pn⟩ := work_out s jo k rest X s' (recompute s.clock s.d jo.job T1) created hc.fresh hwf hq hX
    (hs1.trans hto) hsync hspec hps
  exact ⟨s', hs1.trans hto, hex, po, pd, pq, pn⟩

end

end Furiko.JobCtl.Live
