/-
Multi-tick behaviour of one key, abstractly: the per-tick output/entry functions `tickOut`,
`tickEnt`, their fold `keyRun`, and the invariant `RunInv` relating the accumulated stream to the
match set.  Pure list/arithmetic reasoning; the connection to `work` is in CronRunWork.lean.
-/
import FurikoModel.Proofs.CronDue

namespace Furiko.Cron
open Furiko

/-- requests of one tick for a key with entry `ent` -/
def tickOut (nx : Int → Option Int) (nowS : Int) (c : Nat) (ent : Option Int) : List Int :=
  (rem nx nowS ent).take c

/-- entry after one tick -/
def tickEnt (nx : Int → Option Int) (nowS : Int) (ent : Option Int) : Option Int :=
  match ent with
  | none => none
  | some e => if e ≤ nowS then nx nowS else some e

/-- fold over the ticks' seconds: per-tick outputs and the final entry -/
def keyRun (nx : Int → Option Int) (c : Nat) : Option Int → List Int → List (List Int) × Option Int
  | ent, [] => ([], ent)
  | ent, nowS :: rest =>
    (tickOut nx nowS c ent :: (keyRun nx c (tickEnt nx nowS ent) rest).1,
     (keyRun nx c (tickEnt nx nowS ent) rest).2)

/-- the cap is not exceeded in any tick of the run -/
def NoCapHit (nx : Int → Option Int) (c : Nat) : Option Int → List Int → Prop
  | _, [] => True
  | ent, nowS :: rest =>
    (rem nx nowS ent).length ≤ c ∧ NoCapHit nx c (tickEnt nx nowS ent) rest

/-- Invariant between ticks.  `hz` is the second of the latest tick, `S` the stream so far. -/
structure RunInv (M : Int → Prop) (e0 hz : Int) (ent : Option Int) (S : List Int) : Prop where
  sorted : SortedStrict S
  sound : ∀ m ∈ S, e0 ≤ m ∧ m ≤ hz ∧ (m = e0 ∨ M m)
  phase : (hz < e0 ∧ ent = some e0) ∨ (e0 ≤ hz ∧ NextAt M hz ent)

/-- everything eligible up to `hz` is in the stream -/
def RunComplete (M : Int → Prop) (e0 hz : Int) (S : List Int) : Prop :=
  ∀ m, e0 ≤ m → m ≤ hz → (m = e0 ∨ M m) → m ∈ S

theorem tickOut_le {M : Int → Prop} {nx : Int → Option Int} (hsp : NextSpec M nx)
    (nowS : Int) (c : Nat) (ent : Option Int) : ∀ m ∈ tickOut nx nowS c ent, m ≤ nowS := by
  intro m hm
  have hm' := List.mem_of_mem_take hm
  cases ent with
  | none => simp [rem] at hm'
  | some e => exact ((dueList_spec hsp nowS e).2 m).1 hm' |>.2.1

theorem runInv_step {M : Int → Prop} {nx : Int → Option Int} (hsp : NextSpec M nx)
    {e0 hz : Int} {ent : Option Int} {S : List Int} (c : Nat) (nowS : Int)
    (hI : RunInv M e0 hz ent S) (hord : hz < e0 ∨ hz ≤ nowS) :
    RunInv M e0 nowS (tickEnt nx nowS ent) (S ++ tickOut nx nowS c ent) ∧
    (RunComplete M e0 hz S → (rem nx nowS ent).length ≤ c →
      RunComplete M e0 nowS (S ++ tickOut nx nowS c ent)) := by
  rcases hI.phase with ⟨hlt, hent⟩ | ⟨hge, hnext⟩
  · -- nothing has been due so far
    have hS : S = [] := by
      apply List.eq_nil_iff_forall_not_mem.2
      intro m hm
      have := hI.sound m hm
      omega
    subst hS; subst hent
    have hd := dueList_spec hsp nowS e0
    simp only [List.nil_append, tickOut, rem, tickEnt]
    by_cases hdue : e0 ≤ nowS
    · simp only [hdue, if_true]
      refine ⟨⟨List.Pairwise.sublist (List.take_sublist _ _) hd.1, fun m hm => ?_,
        Or.inr ⟨hdue, hsp nowS⟩⟩, fun _ hlen m h1 h2 h3 => ?_⟩
      · exact (hd.2 m).1 (List.mem_of_mem_take hm)
      · rw [List.take_of_length_le hlen]
        exact (hd.2 m).2 ⟨h1, h2, h3⟩
    · simp only [hdue, if_false]
      rw [dueList_of_gt nx (by omega)]
      simp only [List.take_nil]
      refine ⟨⟨List.Pairwise.nil, fun m hm => (by cases hm), Or.inl ⟨by omega, rfl⟩⟩,
        fun _ _ m h1 h2 _ => (by omega)⟩
  · have hle : hz ≤ nowS := by omega
    cases ent with
    | none =>
      have hnone := hnext.2 rfl
      simp only [tickOut, rem, tickEnt, List.take_nil, List.append_nil]
      refine ⟨⟨hI.sorted, fun m hm => ?_, Or.inr ⟨by omega, ?_⟩⟩, fun hc _ m h1 h2 h3 => ?_⟩
      · have := hI.sound m hm; exact ⟨this.1, by omega, this.2.2⟩
      · exact ⟨fun m hm => (by cases hm), fun _ u hu => (by have := hnone u hu; omega)⟩
      · by_cases hm : m ≤ hz
        · exact hc m h1 hm h3
        · rcases h3 with rfl | h3
          · omega
          · have := hnone m h3; omega
    | some e =>
      have he := hnext.1 e rfl
      simp only [tickOut, rem, tickEnt]
      by_cases hdue : e ≤ nowS
      · simp only [hdue, if_true]
        have hd := dueList_spec hsp nowS e
        refine ⟨⟨?_, fun m hm => ?_, Or.inr ⟨by omega, hsp nowS⟩⟩, fun hc hlen m h1 h2 h3 => ?_⟩
        · refine List.pairwise_append.2 ⟨hI.sorted,
            List.Pairwise.sublist (List.take_sublist _ _) hd.1, fun a ha b hb => ?_⟩
          have h1 := hI.sound a ha
          have h2 := (hd.2 b).1 (List.mem_of_mem_take hb)
          omega
        · rcases List.mem_append.1 hm with hm | hm
          · have := hI.sound m hm; exact ⟨this.1, by omega, this.2.2⟩
          · have h2 := (hd.2 m).1 (List.mem_of_mem_take hm)
            refine ⟨by omega, h2.2.1, Or.inr ?_⟩
            rcases h2.2.2 with rfl | h
            · exact he.2.1
            · exact h
        · rw [List.take_of_length_le hlen]
          by_cases hm : m ≤ hz
          · exact List.mem_append.2 (Or.inl (hc m h1 hm h3))
          · have hM : M m := by
              rcases h3 with rfl | h3
              · omega
              · exact h3
            have := he.2.2 m hM (by omega)
            exact List.mem_append.2 (Or.inr ((hd.2 m).2 ⟨this, h2, Or.inr hM⟩))
      · simp only [hdue, if_false]
        rw [dueList_of_gt nx (by omega)]
        simp only [List.take_nil, List.append_nil]
        refine ⟨⟨hI.sorted, fun m hm => ?_, Or.inr ⟨by omega, ?_⟩⟩, fun hc _ m h1 h2 h3 => ?_⟩
        · have := hI.sound m hm; exact ⟨this.1, by omega, this.2.2⟩
        · refine ⟨fun m hm => ?_, fun h => by cases h⟩
          cases hm
          exact ⟨by omega, he.2.1, fun u hu hsu => he.2.2 u hu (by omega)⟩
        · by_cases hm : m ≤ hz
          · exact hc m h1 hm h3
          · rcases h3 with rfl | h3
            · omega
            · have := he.2.2 m h3 (by omega); omega

/-- the run invariant over a whole sequence of non-decreasing ticks -/
theorem keyRun_inv {M : Int → Prop} {nx : Int → Option Int} (hsp : NextSpec M nx) (c : Nat)
    (e0 : Int) :
    ∀ (ss : List Int) (hz : Int) (ent : Option Int) (S : List Int),
      RunInv M e0 hz ent S → List.Pairwise (· ≤ ·) ss → (e0 ≤ hz → ∀ s ∈ ss, hz ≤ s) →
      RunInv M e0 (ss.getLast?.getD hz) (keyRun nx c ent ss).2
        (S ++ (keyRun nx c ent ss).1.flatten) ∧
      (RunComplete M e0 hz S → NoCapHit nx c ent ss →
        RunComplete M e0 (ss.getLast?.getD hz) (S ++ (keyRun nx c ent ss).1.flatten)) := by
  intro ss
  induction ss with
  | nil =>
    intro hz ent S hI _ _
    simp only [keyRun, List.flatten_nil, List.append_nil, List.getLast?_nil, Option.getD_none]
    exact ⟨hI, fun h _ => h⟩
  | cons s rest ih =>
    intro hz ent S hI hpw hchain
    have hpw' := List.pairwise_cons.1 hpw
    have hord : hz < e0 ∨ hz ≤ s := by
      by_cases h : e0 ≤ hz
      · exact Or.inr (hchain h s (by simp))
      · exact Or.inl (by omega)
    obtain ⟨hstep, hcomp⟩ := runInv_step hsp c s hI hord
    have := ih s (tickEnt nx s ent) (S ++ tickOut nx s c ent) hstep hpw'.2
      (fun _ s' hs' => hpw'.1 s' hs')
    have hlast : (s :: rest).getLast?.getD hz = rest.getLast?.getD s := by
      cases rest with
      | nil => rfl
      | cons a t =>
        simp only [List.getLast?_cons_cons]
        cases h : (a :: t).getLast? with
        | none => simp at h
        | some x => rfl
    simp only [keyRun, List.flatten_cons, hlast]
    rw [← List.append_assoc]
    refine ⟨this.1, fun hc hno => ?_⟩
    exact this.2 (hcomp hc hno.1) hno.2

/-- per tick: everything requested in tick `i` has arrived at tick `i` -/
theorem keyRun_arrived {M : Int → Prop} {nx : Int → Option Int} (hsp : NextSpec M nx) (c : Nat) :
    ∀ (ss : List Int) (ent : Option Int),
      ∀ p ∈ List.zip ss (keyRun nx c ent ss).1, ∀ m ∈ p.2, m ≤ p.1 := by
  intro ss
  induction ss with
  | nil => intro ent p hp; simp [keyRun] at hp
  | cons s rest ih =>
    intro ent p hp
    simp only [keyRun, List.zip_cons_cons, List.mem_cons] at hp
    rcases hp with rfl | hp
    · exact tickOut_le hsp s c ent
    · exact ih _ p hp

theorem keyRun_length (nx : Int → Option Int) (c : Nat) :
    ∀ (ss : List Int) (ent : Option Int), (keyRun nx c ent ss).1.length = ss.length := by
  intro ss
  induction ss with
  | nil => intro _; rfl
  | cons s rest ih => intro ent; simp [keyRun, ih]

theorem keyRun_none (nx : Int → Option Int) (c : Nat) :
    ∀ (ss : List Int), (keyRun nx c none ss).1.flatten = [] ∧ (keyRun nx c none ss).2 = none := by
  intro ss
  induction ss with
  | nil => exact ⟨rfl, rfl⟩
  | cons s rest ih =>
    simp only [keyRun, tickEnt, tickOut, rem, List.take_nil, List.flatten_cons, List.nil_append]
    exact ih

/-- observable sufficient condition: every tick requested fewer than `c` times -/
theorem noCapHit_of_lt (nx : Int → Option Int) (c : Nat) :
    ∀ (ss : List Int) (ent : Option Int), (∀ l ∈ (keyRun nx c ent ss).1, l.length < c) →
      NoCapHit nx c ent ss := by
  intro ss
  induction ss with
  | nil => intro _ _; trivial
  | cons s rest ih =>
    intro ent h
    simp only [keyRun, List.mem_cons] at h
    refine ⟨?_, ih _ (fun l hl => h l (Or.inr hl))⟩
    have := h _ (Or.inl rfl)
    simp only [tickOut, List.length_take] at this
    omega

theorem runInv_init (M : Int → Prop) (e0 : Int) : RunInv M e0 (e0 - 1) (some e0) [] :=
  ⟨List.Pairwise.nil, fun m hm => (by cases hm), Or.inl ⟨by omega, rfl⟩⟩

theorem runComplete_init (M : Int → Prop) (e0 : Int) : RunComplete M e0 (e0 - 1) [] := by
  intro m h1 h2 _; omega

end Furiko.Cron
