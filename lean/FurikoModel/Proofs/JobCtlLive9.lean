/-
Liveness of the job controller, part 9: the refs a pass computes in a fresh state, as a permutation of
"every recorded ref refreshed against the pod of its name" (`refP`) plus the refs of the tasks handed on
that were not recorded; consistency of a task list with the server (`Consistent`), which makes the
recomputed status a fixpoint of the next pass (`recompute_stable`).  Core Lean only.
-/
import FurikoModel.Proofs.JobCtlLive8

set_option linter.unusedSimpArgs false
set_option linter.unusedVariables false

namespace Furiko.JobCtl.Live
open Furiko Furiko.JobCtl Furiko.WQ Furiko.StatusLemmas Furiko.JobCtlPlan

/-- a recorded ref refreshed against the pod of its name on the server -/
def refP (s : Sys) (r : TaskRef) : TaskRef :=
  match lookTask s r.name with
  | some t => getTaskRef (some r) t
  | none => lostRef s.clock r

/-- a task list as a pass holds it: names pairwise distinct, every task is the one the server shows under
its name, and every recorded ref whose pod the server shows has its task listed -/
structure Consistent (s : Sys) (rs : List TaskRef) (T1 : List Task) : Prop where
  nodup : (T1.map (·.name)).Nodup
  look : ∀ t ∈ T1, lookTask s t.name = some t
  cover : ∀ r ∈ rs, (lookTask s r.name).isSome = true → r.name ∈ T1.map (·.name)

theorem Consistent.findTask_eq {s : Sys} {rs : List TaskRef} {T1 : List Task} (h : Consistent s rs T1) (n : String)
    (hn : n ∈ T1.map (·.name)) : findTask T1 n = lookTask s n := by
  obtain ⟨t, ht, rfl⟩ := List.mem_map.mp hn
  rw [findTask_of_mem h.nodup ht, h.look t ht]

theorem Consistent.refresh_eq {s : Sys} {rs : List TaskRef} {T1 : List Task} (h : Consistent s rs T1) (r : TaskRef)
    (hr : r ∈ rs) : refresh s.clock T1 r = refP s r := by
  unfold refresh refP
  by_cases hn : r.name ∈ T1.map (·.name)
  · rw [h.findTask_eq r.name hn]
    rfl
  · have h1 : findTask T1 r.name = none := by
      cases hf : findTask T1 r.name with
      | none => rfl
      | some t => exact absurd (List.mem_map.mpr ⟨t, (findTask_some hf).1, (findTask_some hf).2⟩) hn
    have h2 : lookTask s r.name = none := by
      cases hl : lookTask s r.name with
      | none => rfl
      | some t => exact absurd (h.cover r hr (by rw [hl]; rfl)) hn
    rw [h1, h2]

theorem Consistent.taskOK {s : Sys} {rs : List TaskRef} {T1 : List Task} (h : Consistent s rs T1) :
    ∀ t ∈ T1, TaskOK t := by
  intro t ht
  obtain ⟨p, _, hp⟩ := lookTask_some (h.look t ht)
  exact (podTask_ok hp).1

/-- the tasks found for the recorded refs are consistent with the server -/
theorem consistent_found (s : Sys) (rs : List TaskRef) (hnd : (rs.map (·.name)).Nodup) :
    Consistent s rs (rs.filterMap (fun r => lookTask s r.name)) := by
  have hsub := filterMap_names_sublist (fun r : TaskRef => lookTask s r.name) (·.name) (·.name)
    (fun x y h => lookTask_name h) rs
  refine ⟨hsub.nodup hnd, ?_, ?_⟩
  · intro t ht
    obtain ⟨r, _, hr⟩ := List.mem_filterMap.mp ht
    rw [lookTask_name hr]; exact hr
  · intro r hr hs
    cases hl : lookTask s r.name with
    | none => rw [hl] at hs; cases hs
    | some t =>
      exact List.mem_map.mpr ⟨t, List.mem_filterMap.mpr ⟨r, hr, hl⟩, lookTask_name hl⟩

/-- … and stay so when a task the server shows under a name that is not recorded is appended -/
theorem Consistent.snoc {s : Sys} {rs : List TaskRef} {T : List Task} (h : Consistent s rs T) (t : Task)
    (hl : lookTask s t.name = some t) (hn : t.name ∉ T.map (·.name)) : Consistent s rs (T ++ [t]) := by
  refine ⟨?_, ?_, ?_⟩
  · rw [List.map_append, List.nodup_append]
    refine ⟨h.nodup, by simp, ?_⟩
    intro a ha b hb
    simp only [List.map_cons, List.map_nil, List.mem_singleton] at hb
    subst hb
    intro e; subst e; exact hn ha
  · intro t' ht'
    rcases List.mem_append.mp ht' with h' | h'
    · exact h.look t' h'
    · simp only [List.mem_singleton] at h'; subst h'; exact hl
  · intro r hr hs
    rw [List.map_append]
    exact List.mem_append_left _ (h.cover r hr hs)

/-- the refs a pass generates from a consistent task list: the recorded refs refreshed against the server,
and the refs of the listed tasks that were not recorded -/
theorem generate_consistent (s : Sys) (rs : List TaskRef) (T1 : List Task) (hnd : (rs.map (·.name)).Nodup)
    (h : Consistent s rs T1) :
    (generateTaskRefs s.clock rs T1).Perm (rs.map (refP s) ++ (newTasks rs T1).map (getTaskRef none)) := by
  have hp := generateTaskRefs_perm_canon s.clock rs T1 hnd h.nodup h.taskOK
  unfold canonRefs at hp
  have : rs.map (refresh s.clock T1) = rs.map (refP s) := by
    apply List.map_congr_left
    intro r hr
    exact h.refresh_eq r hr
  rw [this] at hp
  exact hp

theorem newTasks_found (rs : List TaskRef) (look : String → Option Task) (hl : ∀ n t, look n = some t → t.name = n) :
    newTasks rs (rs.filterMap (fun r => look r.name)) = [] := by
  unfold newTasks
  apply List.filter_eq_nil_iff.mpr
  intro t ht
  obtain ⟨r, hr, hrt⟩ := List.mem_filterMap.mp ht
  simp only [Bool.not_eq_true', ← Bool.not_eq_true, Bool.not_not]
  rw [List.contains_iff_mem]
  exact fun hx => hx (List.mem_map.mpr ⟨r, hr, (hl _ _ hrt).symm⟩)

theorem newTasks_snoc (rs : List TaskRef) (T : List Task) (t : Task) (h0 : newTasks rs T = [])
    (hn : t.name ∉ rs.map (·.name)) : newTasks rs (T ++ [t]) = [t] := by
  unfold newTasks at *
  rw [List.filter_append, h0]
  simp only [List.nil_append]
  have : (!(rs.map (·.name)).contains t.name) = true := by
    simp only [Bool.not_eq_true', ← Bool.not_eq_true]
    rw [List.contains_iff_mem]; exact hn
  simp only [List.filter_cons, List.filter_nil, this, ↓reduceIte]

/-! ### the recomputed status is a fixpoint of the next pass -/

/-- **a pass that changes nothing on the server leaves a status the next pass computes again**: let the
status of `rj` be recomputed over a task list consistent with the server (`recompute now d rj T1`), every
task reporting a finish time with a final state.  In any state `s'` that shows the same tasks under the
recorded names (same pods), the task list found for the new refs reproduces the new refs, at any clock. -/
theorem generate_stable (s s' : Sys) (now : Time) (rs : List TaskRef) (T1 : List Task) (hnd : (rs.map (·.name)).Nodup)
    (h : Consistent s rs T1) (hfin : ∀ t ∈ T1, TaskFinal t)
    (hsame : ∀ n, OptSim (lookTask s n) (lookTask s' n)) :
    generateTaskRefs s'.clock (generateTaskRefs now rs T1)
      ((generateTaskRefs now rs T1).filterMap (fun r => lookTask s' r.name)) = generateTaskRefs now rs T1 := by
  have hok := h.taskOK
  have hG := generateTaskRefs_names_nodup now rs T1 hnd h.nodup hok
  have hc' := consistent_found s' (generateTaskRefs now rs T1) hG
  refine generateTaskRefs_idem_sim now s'.clock rs T1 _ hnd h.nodup hok hfin hc'.nodup hc'.taskOK ?_ ?_
  · intro t ht
    obtain ⟨r, hr, hrt⟩ := List.mem_filterMap.mp ht
    exact List.mem_map.mpr ⟨r, hr, (lookTask_name hrt).symm⟩
  · intro g hg
    rw [findTask_filterMap (lookTask s') (fun n t h => lookTask_name h) _ hG g.name]
    have hgn : g.name ∈ (generateTaskRefs now rs T1).map (·.name) := List.mem_map.mpr ⟨g, hg, rfl⟩
    rw [if_pos hgn]
    -- the name is a task's or a lost ref's
    have hnames := (generateTaskRefs_perm_canon now rs T1 hnd h.nodup hok).map (·.name)
    rw [canonRefs_names now rs T1 hok] at hnames
    have hgn' := hnames.mem_iff.mp hgn
    by_cases hin : g.name ∈ T1.map (·.name)
    · rw [h.findTask_eq g.name hin]; exact hsame g.name
    · have h1 : findTask T1 g.name = none := by
        cases hf : findTask T1 g.name with
        | none => rfl
        | some t => exact absurd (List.mem_map.mpr ⟨t, (findTask_some hf).1, (findTask_some hf).2⟩) hin
      rw [h1]
      rcases List.mem_append.mp hgn' with hx | hx
      · obtain ⟨r, hr, hrn⟩ := List.mem_map.mp hx
        cases hl : lookTask s g.name with
        | none =>
          have := hsame g.name
          rw [hl] at this
          cases hl' : lookTask s' g.name with
          | none => trivial
          | some t' => rw [hl'] at this; exact absurd this (by simp [OptSim])
        | some t =>
          exfalso
          apply hin
          rw [← hrn]
          exact h.cover r hr (by rw [hrn, hl]; rfl)
      · obtain ⟨t, ht, htn⟩ := List.mem_map.mp hx
        exact absurd (List.mem_map.mpr ⟨t, (List.mem_filter.mp ht).1, htn⟩) hin

end Furiko.JobCtl.Live
