/-
Liveness of the job controller, kill part 7: the invariant `KState` of the rounds of a Job whose kill
timestamp has passed, and ONE `work` STEP in such a state when no pod is being deleted yet (`work_kill`):
every unfinished pod gets the deletion timestamp, the recomputed status is on the server, the caches are
one delivery behind, and when every pod is finished the Job written is `Finished`/`Killed`.
Core Lean only.
-/
import FurikoModel.Proofs.JobCtlLiveK6

set_option linter.unusedSimpArgs false
set_option linter.unusedVariables false

namespace Furiko.JobCtl.Live
open Furiko Furiko.JobCtl Furiko.WQ Furiko.StatusLemmas Furiko.JobCtlPlan Furiko.Conv

/-- the state between two rounds of a Job being killed: caches and server agree, nothing undelivered, no
fault pending; the kill timestamp `kt` has passed; every pod is a readable task of the Job; `F0` is a lower
bound of every finish time and of `kt`, and the TTL after `F0` has not elapsed -/
structure KState (jo : JobObj) (kt : Time) (F0 : Int) (s : Sys) : Prop where
  fresh : Fresh jo s
  spec : KillSpec jo.job kt
  passed : kt ≤ s.clock
  pods : KPods jo s
  wf : Retry.WF s.q
  lbKill : F0 ≤ kt
  lbRefs : ∀ r ∈ jo.job.status.tasks, ∀ f, r.finishTimestamp = some f → F0 ≤ f
  lbPods : ∀ p ∈ s.pods, ∀ f, p.pod.finishTimestamp = some (some f) → F0 ≤ f
  ttl : s.clock < F0 + getTTLAfterFinished jo.job s.cfg

theorem markDts_fields (c : Time) (N : List String) (p : PodObj) :
    (markDts c N p).ownerUid = p.ownerUid ∧ (markDts c N p).ownerName = p.ownerName ∧
    (markDts c N p).jobLabel = p.jobLabel ∧ (markDts c N p).pod.name = p.pod.name ∧
    (markDts c N p).pod.isFinished = p.pod.isFinished ∧ (markDts c N p).pod.finishTimestamp = p.pod.finishTimestamp ∧
    (markDts c N p).pod.creationTimestamp = p.pod.creationTimestamp ∧ (NoPanic p → NoPanic (markDts c N p)) := by
  unfold markDts
  split
  · exact ⟨rfl, rfl, rfl, rfl, rfl, rfl, rfl, fun h => h⟩
  · exact ⟨rfl, rfl, rfl, rfl, rfl, rfl, rfl, fun h => h⟩

/-- **one `work` step on a Job whose kill timestamp has passed**, no pod being deleted yet -/
theorem work_kill {jo : JobObj} {kt : Time} {F0 : Int} {s : Sys} (h : KState jo kt F0 s)
    (hnodel : ∀ p ∈ s.pods, p.pod.deletionTimestamp = none) (k : String) (rest : List String)
    (hq : (s.q.advance s.clock).queue = k :: rest) :
    ∃ jo' N, (work s).1.job = some jo' ∧ jo'.name = jo.name ∧ jo'.uid = jo.uid ∧ KillSpec jo'.job kt ∧
      jo'.job.ttlSecondsAfterFinished = jo.job.ttlSecondsAfterFinished ∧ jo'.job.template = jo.job.template ∧
      (∀ r ∈ jo'.job.status.tasks, ∀ f, r.finishTimestamp = some f → F0 ≤ f) ∧
      JSync (work s).1 ∧ PSync (work s).1 ∧ (work s).1.podCache = s.pods ∧ (work s).1.pods = s.pods.map (markDts (nowT s) N) ∧
      (∀ n, n ∈ N ↔ ∃ p ∈ s.pods, p.pod.name = n ∧ p.pod.isFinished = false) ∧
      (work s).1.clock = s.clock ∧ (work s).1.d = s.d ∧ (work s).1.cfg = s.cfg ∧ (work s).1.faults = [] ∧
      Retry.WF (work s).1.q ∧
      (∀ e ∈ (work s).1.podEvs, ∃ p0 ∈ s.pods, ∃ p, e = PEv.upsert p ∧ p.ownerUid = p0.ownerUid ∧
        p.ownerName = p0.ownerName) ∧
      ((∀ p ∈ s.pods, p.pod.isFinished = true) →
        ∃ f, jo'.job.status.condition.finished = some f ∧ f.result = .killed) := by
  obtain ⟨a1, _, _, _, _, _, _⟩ := Retry.advance_facts s.q s.clock h.wf
  -- the state the pass starts in
  have hsp_cache : (passStart s (popQ (s.q.advance s.clock) k rest)).podCache =
      (passStart s (popQ (s.q.advance s.clock) k rest)).pods := h.fresh.podCache
  have hsp_pods : KPods jo (passStart s (popQ (s.q.advance s.clock) k rest)) := ⟨h.pods.owned, h.pods.sane, h.pods.nodup⟩
  have hnf : NoFault (passStart s (popQ (s.q.advance s.clock) k rest)) := ⟨h.fresh.faults, fun f hf => by cases hf⟩
  generalize hspdef : passStart s (popQ (s.q.advance s.clock) k rest) = sp at hsp_cache hsp_pods hnf
  have e_pods : sp.pods = s.pods := by rw [← hspdef]; rfl
  have e_clock : sp.clock = s.clock := by rw [← hspdef]; rfl
  have e_d : sp.d = s.d := by rw [← hspdef]; rfl
  have e_cfg : sp.cfg = s.cfg := by rw [← hspdef]; rfl
  have e_job : sp.job = some jo := by rw [← hspdef]; exact h.fresh.job
  have e_jc : sp.jobCache = some jo := by rw [← hspdef]; exact h.fresh.jobCache
  have e_jev : sp.jobEvs = [] := by rw [← hspdef]; exact h.fresh.jobEvs
  have e_pev : sp.podEvs = [] := by rw [← hspdef]; exact h.fresh.podEvs
  have e_pc : sp.podCache = s.pods := by rw [hsp_cache, e_pods]
  have e_q1 : sp.q.queue = rest := by rw [← hspdef]; rfl
  have e_q2 : sp.q.dirty = (s.q.advance s.clock).dirty.erase k := by rw [← hspdef]; rfl
  have e_q3 : sp.q.processing = k :: (s.q.advance s.clock).processing := by rw [← hspdef]; rfl
  have hdts : ∀ t ∈ killTasks sp jo, t.deletionTimestamp = none := by
    intro t ht
    obtain ⟨p, hp, _, _, hd, _⟩ := killTasks_facts hsp_cache hsp_pods ht
    rw [hd]; exact hnodel p (by rw [← e_pods]; exact hp)
  have hTlb : ∀ t ∈ killTasks sp jo, ∀ f, t.ref.finishTimestamp = some f → F0 ≤ f := by
    intro t ht f hf
    obtain ⟨p, hp, hpt, _⟩ := killTasks_facts hsp_cache hsp_pods ht
    exact podTask_finish_lb hpt (Int.le_trans h.lbKill (by rw [e_clock]; exact h.passed))
      (h.lbPods p (by rw [← e_pods]; exact hp)) f hf
  have hle : kt ≤ sp.clock := by rw [e_clock]; exact h.passed
  have hgenlb : ∀ r ∈ generateTaskRefs sp.clock jo.job.status.tasks (killTasks sp jo), ∀ f,
      r.finishTimestamp = some f → F0 ≤ f :=
    gen_lb F0 sp.clock _ _ h.lbRefs hTlb (Int.le_trans h.lbKill hle)
  have hrj5lb : ∀ rj5 : Job, rj5.status.tasks.map (·.finishTimestamp) =
      (generateTaskRefs sp.clock jo.job.status.tasks (killTasks sp jo)).map (·.finishTimestamp) →
      ∀ r ∈ rj5.status.tasks, ∀ f, r.finishTimestamp = some f → F0 ≤ f := by
    intro rj5 hm r hr f hf
    have : r.finishTimestamp ∈ rj5.status.tasks.map (·.finishTimestamp) := List.mem_map.mpr ⟨r, hr, rfl⟩
    rw [hm] at this
    obtain ⟨r', hr', e⟩ := List.mem_map.mp this
    exact hgenlb r' hr' f (by rw [e]; exact hf)
  obtain ⟨s', rj5, N, hsync, hm, hN, hk5, hs5, hfm⟩ := sync_kill (hfn := killTasks_fn hsp_cache hsp_pods) sp jo kt h.spec hle hnf hsp_pods.nodup hdts (by
    intro rj5 hk5 hs5 hfm fin hfin
    have hlb := recompute_fin_lb F0 sp.clock sp.d rj5 (killTasks sp jo) kt hk5 hle h.lbKill (hrj5lb rj5 hfm) hTlb fin hfin
    have httl := h.ttl
    rw [e_clock, e_cfg]
    have : F0 + getTTLAfterFinished jo.job s.cfg ≤ fin.finishTimestamp.getD zeroTime + getTTLAfterFinished jo.job s.cfg :=
      Int.add_le_add_right hlb _
    exact Int.lt_of_lt_of_le httl this)
  have hF : KillSpec (recompute sp.clock sp.d rj5 (killTasks sp jo)) kt := hk5.recompute _ _ _
  have hrc := recompute_sameSpec sp.clock sp.d rj5 (killTasks sp jo)
  have hsF : SameSpec jo.job (recompute sp.clock sp.d rj5 (killTasks sp jo)) := hs5.trans hrc.1
  have hnf' : NoFault s' := hm.nofault hnf
  have hj' : s'.job = some jo := hm.job.trans e_job
  have hone := syncOne_kill sp jo s' _ e_jc hsync hsF.admissionError hnf' hj'
  have hg := get_cons hq
  rw [work_some s k _ hg, hspdef, hone]
  simp only [if_true]
  -- the Job on the server afterwards
  generalize hrjF : recompute sp.clock sp.d rj5 (killTasks sp jo) = rjF at *
  have hps' : PSync s' := hm.psync (by unfold PSync; rw [e_pev, hsp_cache]; rfl)
  have hNp : ∀ n, n ∈ N ↔ ∃ p ∈ s.pods, p.pod.name = n ∧ p.pod.isFinished = false := by
    intro n
    rw [hN]
    constructor
    · rintro ⟨t, ht, hn, hf⟩
      obtain ⟨p, hp, _, hname, _, hfin⟩ := killTasks_facts hsp_cache hsp_pods ht
      exact ⟨p, by rw [← e_pods]; exact hp, by rw [← hname]; exact hn, by rw [← hfin]; exact hf⟩
    · rintro ⟨p, hp, hn, hf⟩
      obtain ⟨t, ht, hpt⟩ := killTasks_cover hsp_cache hsp_pods (p := p) (by rw [e_pods]; exact hp)
      obtain ⟨p', hp', hpt', hname, _, hfin⟩ := killTasks_facts hsp_cache hsp_pods ht
      have hfld := podTask_fields hpt
      refine ⟨t, ht, by rw [hfld.1]; exact hn, ?_⟩
      unfold isTaskFinished
      rw [hfld.2.2.2.2.2.2.2 hf]; rfl
  have hevs : ∀ e ∈ s'.podEvs, ∃ p0 ∈ s.pods, ∃ p, e = PEv.upsert p ∧ p.ownerUid = p0.ownerUid ∧
      p.ownerName = p0.ownerName := by
    intro e he
    rcases hm.evs e he with h0 | ⟨p0, hp0, p, e1, e2, e3⟩
    · rw [e_pev] at h0; cases h0
    · exact ⟨p0, by rw [← e_pods]; exact hp0, p, e1, e2, e3⟩
  have hnowT : nowT sp = nowT s := by unfold nowT nowSec; rw [e_clock]
  have hpods' : s'.pods = s.pods.map (markDts (nowT s) N) := by rw [hm.pods, e_pods, hnowT]
  have hqok := queue_after_ok (qs := s'.q) a1 hq (hm.queue.trans e_q1) (hm.dirty.trans e_q2) (hm.processing.trans e_q3)
  have hfinal : (∀ p ∈ s.pods, p.pod.isFinished = true) →
      ∃ f, rjF.status.condition.finished = some f ∧ f.result = .killed := by
    intro hall
    have hTfin : ∀ t ∈ killTasks sp jo, t.ref.finishTimestamp.isSome = true := by
      intro t ht
      obtain ⟨p, hp, _, _, _, hfin⟩ := killTasks_facts hsp_cache hsp_pods ht
      have := hall p (by rw [← e_pods]; exact hp)
      rw [← hfin] at this
      exact this
    obtain ⟨f, hf1, hf2, _⟩ := recompute_killed sp.clock sp.d rj5 (killTasks sp jo) kt hk5 hle
      (gen_allFin sp.clock rj5.status.tasks (killTasks sp jo) hTfin)
    rw [hrjF] at hf1
    exact ⟨f, hf1, hf2⟩
  have hlbF : ∀ r ∈ rjF.status.tasks, ∀ f, r.finishTimestamp = some f → F0 ≤ f := by
    rw [hrc.2.1]
    exact gen_lb F0 sp.clock _ _ (hrj5lb rj5 hfm) hTlb (Int.le_trans h.lbKill hle)
  by_cases hdiff : rjF.status = jo.job.status
  · -- nothing to write
    simp only [ne_eq, hdiff, not_true_eq_false, ↓reduceIte]
    have hjeq : jo.job = { jo.job with status := rjF.status } := by rw [hdiff]
    refine ⟨jo, N, hj', rfl, rfl, h.spec, rfl, rfl, h.lbRefs, ?_, hps', hm.podCache.trans e_pc, hpods', hNp, hm.clock.trans e_clock,
      hm.d.trans e_d, hm.cfg.trans e_cfg, hnf'.1, hqok.1, hevs, ?_⟩
    · unfold JSync
      show s'.jobEvs.foldl applyJEv s'.jobCache = s'.job
      rw [hm.jobEvs, e_jev, hm.jobCache, e_jc, hj']; rfl
    · intro hall
      obtain ⟨f, hf1, hf2⟩ := hfinal hall
      exact ⟨f, by rw [← hdiff]; exact hf1, hf2⟩
  · simp only [ne_eq, hdiff, not_false_eq_true, ↓reduceIte]
    refine ⟨written jo rjF (s'.rv + 1), N, rfl, rfl, rfl, ?_, rfl, rfl, hlbF, ?_, hps', hm.podCache.trans e_pc, hpods', hNp, hm.clock.trans e_clock,
      hm.d.trans e_d, hm.cfg.trans e_cfg, hnf'.1, hqok.1, hevs, hfinal⟩
    · exact ⟨h.spec.tmpl, h.spec.kill, h.spec.adm, h.spec.del, hF.started⟩
    · unfold JSync
      show (s'.jobEvs ++ [JEv.upsert (written jo rjF (s'.rv + 1))]).foldl applyJEv s'.jobCache = _
      rw [List.foldl_append]
      rfl

end Furiko.JobCtl.Live
