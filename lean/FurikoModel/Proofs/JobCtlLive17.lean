/-
Liveness of the job controller, part 17: the controller half of a fair round, case "the refreshed
summary is complete" (`case_complete`): the pass records the outcome of the last attempt, the Job is
`Finished` with the result the refs imply, and the state is final (`Done`).  Core Lean only.
-/
import FurikoModel.Proofs.JobCtlLive16

set_option linter.unusedSimpArgs false
set_option linter.unusedVariables false

namespace Furiko.JobCtl.Live
open Furiko Furiko.JobCtl Furiko.WQ Furiko.StatusLemmas Furiko.JobCtlPlan Furiko.Conv Furiko.ParallelLemmas

section
variable {ok : Sys → Action → Prop} {j0 jo : JobObj} {F0 : Int} {s : Sys}

/-- the state after a pass that left the Job finished over a task list consistent with the server and
created nothing is final -/
theorem done_after (h : PState ok j0 jo F0 s) (T1 : List Task) (hcons : Consistent s jo.job.status.tasks T1)
    (hT1 : ∀ t ∈ T1, TaskGood t) (w : Sys) (jo' : JobObj)
    (hjo' : jo'.job = recompute s.clock s.d jo.job T1) (hpods : w.pods = s.pods) (hd : w.d = s.d)
    (hhash : AllHash s.d (generateTaskRefs s.clock jo.job.status.tasks T1))
    (hfin : AllFin (generateTaskRefs s.clock jo.job.status.tasks T1))
    (hcomp : AnySucc (generateTaskRefs s.clock jo.job.status.tasks T1) ∨
      (((generateTaskRefs s.clock jo.job.status.tasks T1).countP refTerminal : Nat) : Int) ≥ jo.job.maxAttempts)
    (hrec : ∀ p ∈ s.pods, p.pod.name ∈ (generateTaskRefs s.clock jo.job.status.tasks T1).map (·.name)) :
    Done jo' w := by
  have hc := h.canon
  have htasks : jo'.job.status.tasks = generateTaskRefs s.clock jo.job.status.tasks T1 := by
    rw [hjo']; exact (recompute_sameSpec _ _ _ _).2.1
  have hmax : jo'.job.maxAttempts = jo.job.maxAttempts := by
    rw [hjo']; exact maxAttempts_of_template (recompute_sameSpec _ _ _ _).1.template
  obtain ⟨c1, _⟩ := recompute_condition s.clock s.d jo.job T1 hc.spec hhash
  obtain ⟨f, hf, _, hs1, hs2⟩ := c1 ⟨hfin, hcomp⟩
  refine ⟨⟨f, by rw [hjo']; exact hf, by rw [htasks]; exact hs1, by rw [htasks]; exact hs2⟩, by rw [htasks]; exact hfin,
    ?_, by rw [hpods]; exact h.podsFin, ?_, ?_⟩
  · rw [htasks, hmax]
    rcases hcomp with hx | hx
    · exact Or.inl hx
    · rw [countP_terminal_of_allFin hfin] at hx; exact Or.inr hx
  · intro p hp
    rw [hpods] at hp
    unfold refNames; rw [htasks]; exact hrec p hp
  · intro c
    have hlook : ∀ n, OptSim (lookTask s n) (lookTask ({ w with clock := c } : Sys) n) :=
      fun n => lookTask_sim (s := s) (s' := ({ w with clock := c } : Sys)) hpods n
    have hgen := generate_stable s ({ w with clock := c } : Sys) s.clock jo.job.status.tasks T1 hc.nodupNames hcons
      (fun t ht => (hT1 t ht).final) hlook
    have hfound : foundTasks ({ w with clock := c } : Sys) jo' =
        (generateTaskRefs s.clock jo.job.status.tasks T1).filterMap (fun r => lookTask ({ w with clock := c } : Sys) r.name) := by
      unfold foundTasks; rw [htasks]
    rw [hfound, hjo', hd]
    exact recompute_idem s.clock c s.d jo.job T1 _ hc.spec hgen

/-- **the summary is complete**: the pass leaves the Job finished; the state is final -/
theorem case_complete (hok : ∀ s a, fairEnv s a → ok s a) (h : PState ok j0 jo F0 s) (k : String) (rest : List String)
    (hq : (s.q.advance s.clock).queue = k :: rest) (hclockT : s.clock < F0 + getTTLAfterFinished jo.job s.cfg)
    (hcomp : (getParallelTaskSummary s.d jo.job
      (generateTaskRefs s.clock jo.job.status.tasks (foundTasks s jo))).complete = true) :
    ∃ jo', jo'.name = jo.name ∧ Canon ok j0 jo' F0 (deliverAll (work s).1) ∧ Done jo' (deliverAll (work s).1) ∧
      (deliverAll (work s).1).clock = s.clock ∧
      jo'.job.ttlSecondsAfterFinished = jo.job.ttlSecondsAfterFinished ∧ (deliverAll (work s).1).cfg = s.cfg ∧
      RefsStep s jo jo' (deliverAll (work s).1) := by
  have hc := h.canon
  obtain ⟨a1, a2, a3, a4, a5, a6, a7, a8⟩ := after_found h _ (gen_found h)
  obtain ⟨_, _, s3⟩ := simple_summary s.d jo.job _ hc.spec a6
  have hcomp' := s3.mp hcomp
  -- no unrecorded pod
  have hrec : ∀ p ∈ s.pods, p.pod.name ∈ refNames jo.job := by
    intro p hp
    rcases hc.unrec p hp with hx | ⟨_, hlt, hdead⟩
    · exact hx
    · exfalso
      obtain ⟨hd1, _⟩ := a7 hdead
      obtain ⟨b1, b2, _⟩ := allDead_facts hd1
      rcases hcomp' with hx | hx
      · exact b1 hx
      · rw [countP_terminal_of_allFin b2, a1] at hx; omega
  have hcreate : syncCreateTasks (passStart s (popQ (s.q.advance s.clock) k rest)) jo jo.job (foundTasks s jo) =
      (passStart s (popQ (s.q.advance s.clock) k rest), some (jo.job, foundTasks s jo)) := by
    rw [syncCreateTasks_complete (passStart s (popQ (s.q.advance s.clock) k rest)) jo (foundTasks s jo) hc.spec hcomp]
    rw [adopt_none (passStart s (popQ (s.q.advance s.clock) k rest)) jo (foundTasks s jo) (by
      intro p hp
      have : p ∈ s.pods := by
        have : p ∈ s.podCache := hp
        rw [hc.fresh.podCache] at this; exact this
      exact hrec p this)]
  obtain ⟨s', _, _, hpo, _, _⟩ := pass_uniform h k rest hq _ _ [] jo.job (foundTasks s jo) (CreateOut.refl _)
    (TimersOnly.refl _ _) hcreate (Or.inl rfl) h.consistent.nodup
    (fun t ht => ⟨(h.found_facts t ht).1, (h.found_facts t ht).2.2⟩)
    (fun pt _ _ t ht => Or.inl (h.found_facts t ht).2.1) a6 a5 hclockT (by simp)
  have hsame := recompute_sameSpec s.clock s.d jo.job (foundTasks s jo)
  obtain ⟨jo', hjob, hname, _, hcan, _, hclk, hpods, hd, hcfgw⟩ := canon_after hok h _ [] hpo hsame.2.2 (Or.inl rfl)
    (by rw [hsame.2.1]; exact a2)
    (by
      intro p hp
      rw [List.append_nil] at hp
      left
      rw [hsame.2.1]
      exact (a3 _).mpr (hrec p hp))
    (by rw [hsame.2.1]; exact a5)
  have hrs : RefsStep s jo jo' (deliverAll (work s).1) := by
    refine ⟨?_, Or.inl (by rw [hpods, List.append_nil])⟩
    intro g hg
    have : jo'.job.status.tasks = generateTaskRefs s.clock jo.job.status.tasks (foundTasks s jo) := by
      rw [hjob]; exact hsame.2.1
    rw [this] at hg
    exact Or.inl (found_mem h _ (gen_found h) g hg)
  refine ⟨jo', hname, hcan, ?_, hclk, by rw [hjob], hcfgw, hrs⟩
  have hjo' : jo'.job = recompute s.clock s.d jo.job (foundTasks s jo) := by
    rw [hjob]
    exact (eq_of_sameSpec hsame.1).symm
  exact done_after h (foundTasks s jo) h.consistent (fun t ht => (h.found_facts t ht).1) _ jo' hjo'
    (by rw [hpods, List.append_nil]) hd a6 a4 hcomp' (fun p hp => (a3 _).mpr (hrec p hp))

end

end Furiko.JobCtl.Live
