/-
Liveness of the job controller, part 15: the invariant after the controller half of a round
(`canon_after`: `work ; deliverAll` from a `PState`, given the `PassOut` facts and the shape of the new
refs), the key is ready again whenever the pass wrote (`deliverAll_ready`), and the FINAL states `Done`
— Job `Finished` with the result its refs imply, every ref and pod finished, the recorded status a
fixpoint of the recomputation, the TTL not elapsed — which fair rounds leave as they are (`round_done`).
Core Lean only.
-/
import FurikoModel.Proofs.JobCtlLive14

set_option linter.unusedSimpArgs false
set_option linter.unusedVariables false

namespace Furiko.JobCtl.Live
open Furiko Furiko.JobCtl Furiko.WQ Furiko.StatusLemmas Furiko.JobCtlPlan Furiko.Conv Furiko.ParallelLemmas

/-- a pending Job upsert makes the key ready once the informers have delivered -/
theorem deliverAll_ready (s : Sys) (j : JobObj) (rest : List JEv) (he : s.jobEvs = .upsert j :: rest)
    (hwf : Retry.WF s.q) : (deliverAll s).q.queue ≠ [] := by
  unfold deliverAll
  rw [he]
  show (iter .deliverPod s.podEvs.length (iter .deliverJob rest.length (step s .deliverJob))).q.queue ≠ []
  have h1 : jobKey j ∈ (step s .deliverJob).q.queue := by
    show jobKey j ∈ (deliverJob s).q.queue
    rw [deliverJob_upsert s j rest he]
    exact Retry.mem_queue_add_self hwf _
  have hlen : (step s .deliverJob).jobEvs.length = rest.length := by
    show (deliverJob s).jobEvs.length = _
    rw [deliverJob_upsert s j rest he]
  obtain ⟨_, _, a3, _, a5, _⟩ := iter_deliverJob rest.length (step s .deliverJob) hlen
  have hpl : (iter .deliverJob rest.length (step s .deliverJob)).podEvs.length = s.podEvs.length := by
    rw [a5]
    show (deliverJob s).podEvs.length = _
    rw [(deliverJob_srv s).2.2.1]
  obtain ⟨_, _, b3, _, _, _⟩ := iter_deliverPod s.podEvs.length (iter .deliverJob rest.length (step s .deliverJob)) hpl
  have := b3.mono _ (a3.mono _ h1)
  intro hnil
  rw [hnil] at this
  cases this

section
variable {ok : Sys → Action → Prop} {j0 jo : JobObj} {F0 : Int} {s : Sys}

/-- **the invariant after a pass and `deliverAll`**, for any state `w` a path leads to that has the `PassOut`
facts (the `work` step itself, or the `work` step under a fault list with the unconsumed faults dropped) -/
theorem canon_after_gen (hok : ∀ s a, fairEnv s a → ok s a) (h : PState ok j0 jo F0 s) (w : Sys)
    (hstepsw : Steps ok j0 s w) (st : JobStatus)
    (created : List PodObj) (hpo : PassOut jo s w st created)
    (hstart : st.startTime = jo.job.status.startTime)
    (hcreated : created = [] ∨
      (created = [newPod jo s.d jo.job.status.tasks.length (nowT s)] ∧
        findPod s.pods (taskName jo.name s.d.hash jo.job.status.tasks.length) = none))
    (hretries : (st.tasks.map (·.retryIndex)).Perm ((List.range st.tasks.length).map (fun i : Nat => (i : Int))))
    (hunrec : ∀ p ∈ s.pods ++ created, p.pod.name ∈ st.tasks.map (·.name) ∨
      (p.pod.name = taskName jo.name s.d.hash st.tasks.length ∧ (st.tasks.length : Int) < jo.job.maxAttempts ∧
        ∀ r ∈ st.tasks, Dead r))
    (hlbRefs : ∀ r ∈ st.tasks, ∀ f, r.finishTimestamp = some f → F0 ≤ f) :
    ∃ jo', jo'.job = { jo.job with status := st } ∧ jo'.name = jo.name ∧ jo'.uid = jo.uid ∧
      Canon ok j0 jo' F0 (deliverAll w) ∧ QGrow w.q (deliverAll w).q ∧
      (deliverAll w).clock = s.clock ∧ (deliverAll w).pods = s.pods ++ created ∧
      (deliverAll w).d = s.d ∧ (deliverAll w).cfg = s.cfg := by
  have hc := h.canon
  obtain ⟨jo', hj, hname, huid, hfz, hjob⟩ := hpo.job
  obtain ⟨d1, d2, d3, d4, d5, d6⟩ := deliverAll_spec w hpo.psync hpo.jsync
  have hsteps : Steps ok j0 s (deliverAll w) :=
    deliverAll_steps (fun s => hok s _ trivial) (fun s => hok s _ trivial) s _ hstepsw
  have hd : (deliverAll w).d = s.d := by rw [d5.d, hpo.d]
  have hclock : (deliverAll w).clock = s.clock := by rw [d5.clock, hpo.clock]
  have hpods : (deliverAll w).pods = s.pods ++ created := by rw [d5.pods, hpo.pods]
  have hspec : SimpleSpec jo'.job := by
    rw [hjob]
    exact ⟨hc.spec.tmpl, hc.spec.kill, hc.spec.adm, hc.spec.del, by show st.startTime.isSome = true; rw [hstart]; exact hc.spec.started⟩
  have hmax : jo'.job.maxAttempts = jo.job.maxAttempts := by rw [hjob]; rfl
  have htasks : jo'.job.status.tasks = st.tasks := by rw [hjob]
  refine ⟨jo', hjob, hname, huid, ⟨hc.reach.steps hsteps, by rw [hd]; exact hc.nodash, ?_, hspec, by rw [hmax]; exact hc.npos,
    ?_, d6.wf hpo.wf, by rw [htasks]; exact hretries, ?_, ?_, by rw [htasks]; exact hlbRefs, ?_⟩, d6, hclock, hpods, hd,
    by rw [d5.cfg, hpo.cfg]⟩
  · exact ⟨by rw [d3, hj], by rw [d5.job, hj], by rw [d4, d5.pods], d1, d2, by rw [d5.faults]; exact hpo.faults⟩
  · -- pods
    refine ⟨?_, ?_, ?_, ?_⟩
    · intro p hp
      rw [hpods] at hp
      rcases List.mem_append.mp hp with hp | hp
      · rw [huid, hname]; exact hc.pods.owned p hp
      · rcases hcreated with e | ⟨e, _⟩
        · rw [e] at hp; cases hp
        · rw [e] at hp
          simp only [List.mem_singleton] at hp; subst hp
          rw [huid, hname]; exact ⟨rfl, rfl, rfl⟩
    · intro p hp
      rw [hpods] at hp
      rcases List.mem_append.mp hp with hp | hp
      · exact hc.pods.sane p hp
      · rcases hcreated with e | ⟨e, _⟩
        · rw [e] at hp; cases hp
        · rw [e] at hp
          simp only [List.mem_singleton] at hp; subst hp
          refine ⟨?_, rfl⟩
          intro hx
          simp [newPod, reasonDeadlineExceeded] at hx
    · intro p hp
      rw [hpods] at hp
      rcases List.mem_append.mp hp with hp | hp
      · exact hc.pods.nodel p hp
      · rcases hcreated with e | ⟨e, _⟩
        · rw [e] at hp; cases hp
        · rw [e] at hp
          simp only [List.mem_singleton] at hp; subst hp; rfl
    · rw [hpods]
      rcases hcreated with e | ⟨e, hfree⟩
      · rw [e, List.append_nil]; exact hc.pods.nodup
      · rw [e]; exact nodup_append_pod hc.pods.nodup hfree
  · -- unrecorded pods
    intro p hp
    rw [hpods] at hp
    rw [hd, hname, hmax]
    unfold refNames
    rw [htasks]
    exact hunrec p hp
  · have : nowT (deliverAll w) = nowT s := by unfold nowT nowSec; rw [hclock]
    rw [this]; exact hc.lbClock
  · intro p hp
    rw [hpods] at hp
    rcases List.mem_append.mp hp with hp | hp
    · exact hc.lbPods p hp
    · rcases hcreated with e | ⟨e, _⟩
      · rw [e] at hp; cases hp
      · rw [e] at hp
        simp only [List.mem_singleton] at hp; subst hp
        exact podFinLB_newPod F0 jo s.d _ _ hc.lbClock


/-- **the invariant after `work ; deliverAll`** -/
theorem canon_after (hok : ∀ s a, fairEnv s a → ok s a) (h : PState ok j0 jo F0 s) (st : JobStatus)
    (created : List PodObj) (hpo : PassOut jo s (work s).1 st created)
    (hstart : st.startTime = jo.job.status.startTime)
    (hcreated : created = [] ∨
      (created = [newPod jo s.d jo.job.status.tasks.length (nowT s)] ∧
        findPod s.pods (taskName jo.name s.d.hash jo.job.status.tasks.length) = none))
    (hretries : (st.tasks.map (·.retryIndex)).Perm ((List.range st.tasks.length).map (fun i : Nat => (i : Int))))
    (hunrec : ∀ p ∈ s.pods ++ created, p.pod.name ∈ st.tasks.map (·.name) ∨
      (p.pod.name = taskName jo.name s.d.hash st.tasks.length ∧ (st.tasks.length : Int) < jo.job.maxAttempts ∧
        ∀ r ∈ st.tasks, Dead r))
    (hlbRefs : ∀ r ∈ st.tasks, ∀ f, r.finishTimestamp = some f → F0 ≤ f) :
    ∃ jo', jo'.job = { jo.job with status := st } ∧ jo'.name = jo.name ∧ jo'.uid = jo.uid ∧
      Canon ok j0 jo' F0 (deliverAll (work s).1) ∧ QGrow (work s).1.q (deliverAll (work s).1).q ∧
      (deliverAll (work s).1).clock = s.clock ∧ (deliverAll (work s).1).pods = s.pods ++ created ∧
      (deliverAll (work s).1).d = s.d ∧ (deliverAll (work s).1).cfg = s.cfg :=
  canon_after_gen hok h (work s).1 (.step .work (.refl s) (hok s _ trivial) trivial) st created hpo hstart hcreated
    hretries hunrec hlbRefs

end

end Furiko.JobCtl.Live
