/-
Third walk through `Reconciler.sync`, for the stability theorems: when (at the start of the pass)
every pod is the Job's, a finished cached pod implies a finished server pod (`hlin`), and a finished
recorded ref implies that its server pod is finished or gone (`hfin`), then the Job value `sync` computes
keeps `RS` on every ref, freezes every finished ref (`Froz`), and only finishes a ref whose server pod
is finished or gone.  Part 1: the pure bundle and the task lists.  Core Lean only.
-/
import FurikoModel.Proofs.JobCtlInvStabView

set_option linter.unusedSimpArgs false
set_option linter.unusedVariables false

namespace Furiko.JobCtl
open Furiko Furiko.WQ Furiko.StatusLemmas

/-- every pod of `P` with that name (there is at most one) is finished -/
def PodFinIn (P : List PodObj) (n : String) : Prop := ∀ p ∈ P, p.pod.name = n → p.pod.isFinished = true

theorem podTask_fin_iff {now : Time} {p : PodObj} {t : Task} (hc : p.pod.creationTimestamp.isSome = true)
    (h : podTask now p = some t) : t.ref.finishTimestamp.isSome = true ↔ p.pod.isFinished = true := by
  unfold podTask Pod.task at h
  cases hr : p.pod.taskRef now with
  | none => simp [hr] at h
  | some r =>
    simp only [hr, Option.some.injEq] at h
    subst h
    unfold Pod.taskRef at hr
    cases hf : p.pod.finishTimestamp with
    | none => simp [hf] at hr
    | some fin =>
      simp only [hf, Option.some.injEq] at hr
      subst hr
      simp only [Pod.recordedFinish_isSome]
      constructor
      · intro hfs
        unfold Pod.finishTimestamp at hf
        by_cases hpf : p.pod.isFinished = true
        · exact hpf
        · simp only [hpf, Bool.not_false, ↓reduceIte, Option.some.injEq] at hf
          subst hf; cases hfs
      · intro hpf
        unfold Pod.finishTimestamp at hf
        simp only [hpf, Bool.not_true, Bool.false_eq_true, ↓reduceIte] at hf
        split at hf
        · simp only [Option.some.injEq] at hf; subst hf; rfl
        · split at hf
          · split at hf
            · simp only [Option.some.injEq] at hf; subst hf; rfl
            · cases hf
          · split at hf
            · simp only [Option.some.injEq] at hf; subst hf; rfl
            · simp only [Option.some.injEq] at hf; subst hf; exact hc

/-- `GetTaskRef` can only panic on a finished pod -/
theorem podTask_none_finished {now : Time} {p : PodObj} (h : podTask now p = none) : p.pod.isFinished = true := by
  unfold podTask Pod.task at h
  cases hr : p.pod.taskRef now with
  | some r => simp [hr] at h
  | none =>
    unfold Pod.taskRef at hr
    cases hf : p.pod.finishTimestamp with
    | some fin => simp [hf] at hr
    | none =>
      unfold Pod.finishTimestamp at hf
      by_cases hpf : p.pod.isFinished = true
      · exact hpf
      · simp [hpf] at hf

/-- what the tasks of a pass report, relative to the server's pods `P` at its start -/
structure TasksSem (P : List PodObj) (N : List String) (T : List Task) : Prop where
  sem : ∀ t ∈ T, TaskSem t
  fin : ∀ t ∈ T, t.ref.finishTimestamp.isSome = true → PodFinIn P t.name
  /-- a task that reports a finish time has an old name (`N`: recorded before the pass, or in the pod cache) -/
  src : ∀ t ∈ T, t.ref.finishTimestamp.isSome = true → t.name ∈ N

/-- the recorded refs relative to the tasks `T` of the pass and the pods `P` at its start -/
structure RefsOK (P : List PodObj) (N : List String) (T : List Task) (R : List TaskRef) : Prop where
  rs : ∀ r ∈ R, RS r
  hyp : Hyp T R
  fin : ∀ r ∈ R, r.finishTimestamp.isSome = true → PodFinIn P r.name
  lost : ∀ r ∈ R, r.name ∉ T.map (·.name) → r.finishTimestamp.isSome = false → PodFinIn P r.name
  /-- a finished ref has an old name -/
  src : ∀ r ∈ R, r.finishTimestamp.isSome = true → r.name ∈ N
  dom : ∀ r ∈ R, r.name ∈ N ∨ r.name ∈ T.map (·.name)

/-- more tasks, none of them named like a recorded ref -/
theorem RefsOK.mono {P : List PodObj} {N : List String} {T T' : List Task} {R : List TaskRef} (h : RefsOK P N T R)
    (hsub : ∀ t ∈ T, t ∈ T') (hnew : ∀ t ∈ T', t ∈ T ∨ t.name ∉ R.map (·.name)) : RefsOK P N T' R := by
  refine ⟨h.rs, ?_, h.fin, ?_, h.src, ?_⟩
  · intro t ht ex hex hn hf
    rcases hnew t ht with h' | h'
    · exact h.hyp t h' ex hex hn hf
    · exact absurd (List.mem_map.mpr ⟨ex, hex, hn⟩) h'
  · intro r hr hn hf
    refine h.lost r hr ?_ hf
    intro hm
    obtain ⟨t, ht, htn⟩ := List.mem_map.mp hm
    exact hn (List.mem_map.mpr ⟨t, hsub t ht, htn⟩)
  · intro r hr
    rcases h.dom r hr with h' | h'
    · exact Or.inl h'
    · obtain ⟨t, ht, htn⟩ := List.mem_map.mp h'
      exact Or.inr (List.mem_map.mpr ⟨t, hsub t ht, htn⟩)

/-- result of one rewrite of the Job value in a pass -/
structure G3 (j0 : JobObj) (d : PIndex) (P : List PodObj) (N : List String) (T : List Task) (a b : Job) : Prop where
  good : Good j0 d b
  ok : RefsOK P N T b.status.tasks
  froz : Froz a.status.tasks b.status.tasks
  names : ∀ n ∈ refNames b, n ∈ refNames a ∨ n ∈ T.map (·.name)
  adm : b.admissionError = a.admissionError

theorem G3.refl {j0 : JobObj} {d : PIndex} {P : List PodObj} {N : List String} {T : List Task} {a : Job} (hg : Good j0 d a)
    (hok : RefsOK P N T a.status.tasks) : G3 j0 d P N T a a :=
  ⟨hg, hok, Froz.refl _, fun n h => Or.inl h, rfl⟩

theorem G3.trans {j0 : JobObj} {d : PIndex} {P : List PodObj} {N : List String} {T : List Task} {a b c : Job}
    (h1 : G3 j0 d P N T a b) (h2 : G3 j0 d P N T b c) : G3 j0 d P N T a c :=
  ⟨h2.good, h2.ok, h1.froz.trans h2.froz, fun n hn => by
    rcases h2.names n hn with h | h
    · exact h1.names n h
    · exact Or.inr h, h2.adm.trans h1.adm⟩

/-- same refs (the status recomputation) -/
theorem G3.of_tasks {j0 : JobObj} {d : PIndex} {P : List PodObj} {N : List String} {T : List Task} {a b : Job} (hg : Good j0 d a)
    (hok : RefsOK P N T a.status.tasks) (e : b.status.tasks = a.status.tasks)
    (ec : b.status.createdTasks = a.status.createdTasks) (ea : b.admissionError = a.admissionError) :
    G3 j0 d P N T a b :=
  ⟨(GK.of_tasks hg e ec).1, by rw [e]; exact hok, by rw [e]; exact Froz.refl _,
   fun n hn => Or.inl (by unfold refNames at hn ⊢; rw [e] at hn; exact hn), ea⟩

theorem updateJobTaskRefs_g3 {j0 : JobObj} {d : PIndex} {P : List PodObj} {N : List String} {T : List Task} (now : Time) (a : Job)
    (hg : Good j0 d a) (hok : RefsOK P N T a.status.tasks) (ht : TasksGood j0 d T) (hs : TasksSem P N T) :
    G3 j0 d P N T a (updateJobTaskRefs now a T) := by
  have htok : ∀ t ∈ T, TaskOK t := fun t h => (ht.ok t h).1
  have finOf : ∀ t ∈ T, (getTaskRef (lookupRef a.status.tasks t.name) t).finishTimestamp.isSome = true →
      t.ref.finishTimestamp.isSome = true := by
    intro t htm hf
    by_cases htf : t.ref.finishTimestamp.isSome = true
    · exact htf
    · exfalso
      cases hl : lookupRef a.status.tasks t.name with
      | none =>
        rw [hl, (getTaskRef_none_fields t).2.1] at hf
        exact htf hf
      | some ex =>
        rw [hl, (getTaskRef_some_unfinished ex t (by simpa using htf)).2.1] at hf
        exact htf (hok.hyp t htm ex (lookupRef_mem hl).1 (lookupRef_mem hl).2 hf)
  refine ⟨(updateJobTaskRefs_good now a T hg ht).1, ⟨?_, ?_, ?_, ?_, ?_, ?_⟩, ?_, ?_, rfl⟩
  · exact generateTaskRefs_rs now _ T hok.rs hs.sem hok.hyp
  · exact generateTaskRefs_hyp now _ T ht.nodup htok hok.hyp
  · intro r hr hf
    rcases mem_generateTaskRefs hr with ⟨t, htm, rfl⟩ | ⟨ex, hexm, hnot, rfl⟩
    · rw [getTaskRef_name, htok t htm]
      by_cases htf : t.ref.finishTimestamp.isSome = true
      · exact hs.fin t htm htf
      · exfalso
        cases hl : lookupRef a.status.tasks t.name with
        | none =>
          rw [hl, (getTaskRef_none_fields t).2.1] at hf
          exact htf hf
        | some ex =>
          rw [hl, (getTaskRef_some_unfinished ex t (by simpa using htf)).2.1] at hf
          exact htf (hok.hyp t htm ex (lookupRef_mem hl).1 (lookupRef_mem hl).2 hf)
    · rw [(lostRef_fields now ex).1]
      by_cases hexf : ex.finishTimestamp.isSome = true
      · exact hok.fin ex hexm hexf
      · exact hok.lost ex hexm hnot (by simpa using hexf)
  · intro r hr hn hf
    exfalso
    rcases mem_generateTaskRefs hr with ⟨t, htm, rfl⟩ | ⟨ex, hexm, hnot, rfl⟩
    · apply hn
      rw [getTaskRef_name, htok t htm]
      exact List.mem_map_of_mem htm
    · have := (Furiko.Props.C11.lostRef_retains now ex).2.2.2.1
      rw [this] at hf; cases hf
  · intro r hr hf
    rcases mem_generateTaskRefs hr with ⟨t, htm, rfl⟩ | ⟨ex, hexm, hnot, rfl⟩
    · rw [getTaskRef_name, htok t htm]
      exact hs.src t htm (finOf t htm hf)
    · rw [(lostRef_fields now ex).1]
      rcases hok.dom ex hexm with h | h
      · exact h
      · exact absurd h hnot
  · intro r hr
    rcases mem_generateTaskRefs hr with ⟨t, htm, rfl⟩ | ⟨ex, hexm, hnot, rfl⟩
    · right; rw [getTaskRef_name, htok t htm]; exact List.mem_map_of_mem htm
    · rw [(lostRef_fields now ex).1]
      rcases hok.dom ex hexm with h | h
      · exact Or.inl h
      · exact absurd h hnot
  · exact generateTaskRefs_froz now _ T hg.nodup hok.rs htok hok.hyp
  · intro n hn
    obtain ⟨r, hr, rfl⟩ := List.mem_map.mp hn
    rcases mem_generateTaskRefs hr with ⟨t, htm, rfl⟩ | ⟨ex, hexm, hnot, rfl⟩
    · right; rw [getTaskRef_name, htok t htm]; exact List.mem_map_of_mem htm
    · left; rw [(lostRef_fields now ex).1]; exact List.mem_map_of_mem hexm

theorem syncJobStatusFromTaskRefs_g3 {j0 : JobObj} {d : PIndex} {P : List PodObj} {N : List String} {T : List Task} (s : Sys)
    (key : String) (a : Job) (hg : Good j0 d a) (hok : RefsOK P N T a.status.tasks) :
    G3 j0 d P N T a (syncJobStatusFromTaskRefs s key a).2 := by
  unfold syncJobStatusFromTaskRefs
  cases hu : updateJobStatusFromTaskRefs s.clock s.d a with
  | none => exact G3.refl hg hok
  | some newRj =>
    have := updateJobStatusFromTaskRefs_tasks hu
    have hadm : newRj.admissionError = a.admissionError := by
      unfold updateJobStatusFromTaskRefs updateJobStatusFromTaskRefsWith at hu
      cases ht : a.template with
      | none => simp [ht] at hu
      | some t => simp only [ht, Option.some.injEq] at hu; subst hu; rfl
    have hres := G3.of_tasks (b := newRj) hg hok this.1 this.2 hadm
    simp only
    split
    · split
      · split <;> exact hres
      · exact hres
    · exact hres

theorem updateTaskRefStatus_g3 {j0 : JobObj} {d : PIndex} {P : List PodObj} {N : List String} {T : List Task} (s : Sys)
    (key : String) (a : Job) (hg : Good j0 d a) (hok : RefsOK P N T a.status.tasks) (ht : TasksGood j0 d T)
    (hs : TasksSem P N T) : G3 j0 d P N T a (updateTaskRefStatus s key a T).2 := by
  unfold updateTaskRefStatus
  have h1 := updateJobTaskRefs_g3 s.clock a hg hok ht hs
  exact h1.trans (syncJobStatusFromTaskRefs_g3 s key _ h1.good h1.ok)

/-- setting the deleted status of a ref to `x` keeps `RS` when `x` is final and agrees with the
recorded result of a finished ref -/
theorem RS.setDs {r : TaskRef} (h : RS r) (x : TaskStatus) (hx : isFinalTaskState x.state = true)
    (hres : r.finishTimestamp.isSome = true → (x.result = .succeeded ↔ r.status.result = .succeeded)) :
    RS { r with deletedStatus := some x } :=
  ⟨h.succFin, h.finFinal, fun hf y hy => by
      simp only [Option.some.injEq] at hy; subst hy; exact hres hf,
   fun _ _ => rfl, fun y hy => by simp only [Option.some.injEq] at hy; subst hy; exact hx⟩

/-- a rewrite that only touches the deleted status of refs, keeping `RS` -/
theorem mapDs_g3 {j0 : JobObj} {d : PIndex} {P : List PodObj} {N : List String} {T : List Task} (a : Job) (f : TaskRef → TaskRef)
    (hg : Good j0 d a) (hok : RefsOK P N T a.status.tasks)
    (hf : ∀ r, (f r).name = r.name ∧ (f r).parallelIndex = r.parallelIndex ∧ (f r).retryIndex = r.retryIndex ∧
      (f r).creationTimestamp = r.creationTimestamp ∧ (f r).finishTimestamp = r.finishTimestamp ∧
      (f r).status = r.status)
    (hrs : ∀ r ∈ a.status.tasks, RS (f r)) :
    G3 j0 d P N T a { a with status := { a.status with tasks := a.status.tasks.map f } } := by
  refine ⟨hg.map f (fun r => ⟨(hf r).1, (hf r).2.1, (hf r).2.2.1, (hf r).2.2.2.1⟩), ⟨?_, ?_, ?_, ?_, ?_, ?_⟩, ?_, ?_, rfl⟩
  · intro r hr
    obtain ⟨r0, hr0, rfl⟩ := List.mem_map.mp hr
    exact hrs r0 hr0
  · intro t ht r hr hn hfin
    obtain ⟨r0, hr0, rfl⟩ := List.mem_map.mp hr
    rw [(hf r0).1] at hn; rw [(hf r0).2.2.2.2.1] at hfin
    exact hok.hyp t ht r0 hr0 hn hfin
  · intro r hr hfin
    obtain ⟨r0, hr0, rfl⟩ := List.mem_map.mp hr
    rw [(hf r0).1]; rw [(hf r0).2.2.2.2.1] at hfin
    exact hok.fin r0 hr0 hfin
  · intro r hr hn hfin
    obtain ⟨r0, hr0, rfl⟩ := List.mem_map.mp hr
    rw [(hf r0).1] at hn ⊢; rw [(hf r0).2.2.2.2.1] at hfin
    exact hok.lost r0 hr0 hn hfin
  · intro r hr hfin
    obtain ⟨r0, hr0, rfl⟩ := List.mem_map.mp hr
    rw [(hf r0).1]; rw [(hf r0).2.2.2.2.1] at hfin
    exact hok.src r0 hr0 hfin
  · intro r hr
    obtain ⟨r0, hr0, rfl⟩ := List.mem_map.mp hr
    rw [(hf r0).1]
    exact hok.dom r0 hr0
  · exact Froz.of_map f (fun r => ⟨(hf r).1, (hf r).2.2.2.2.1, (hf r).2.2.2.2.2⟩)
  · intro n hn
    left
    unfold refNames at hn ⊢
    simp only [List.map_map] at hn
    obtain ⟨r0, hr0, rfl⟩ := List.mem_map.mp hn
    simp only [Function.comp, (hf r0).1]
    exact List.mem_map_of_mem hr0

/-- `markDeleted` with a "Killed" marker on refs whose task is unfinished (pending timeout, kill) -/
theorem markKilled_g3 {j0 : JobObj} {d : PIndex} {P : List PodObj} {N : List String} {T : List Task} (a : Job) (names : List String)
    (reason : String) (hg : Good j0 d a) (hok : RefsOK P N T a.status.tasks)
    (hnames : ∀ n, names.contains n = true → ∃ t ∈ T, t.name = n ∧ t.ref.finishTimestamp.isSome = false) :
    G3 j0 d P N T a (markDeleted a names (fun r =>
      { r with deletedStatus := some { state := .terminated, result := .killed, reason := reason } })) := by
  unfold markDeleted
  refine mapDs_g3 a _ hg hok ?_ ?_
  · intro r; split <;> exact ⟨rfl, rfl, rfl, rfl, rfl, rfl⟩
  · intro r hr
    split
    · rename_i hc
      obtain ⟨t, ht, htn, htf⟩ := hnames r.name hc
      have hunf : ¬ r.finishTimestamp.isSome = true := by
        intro hf
        have := hok.hyp t ht r hr htn.symm hf
        rw [htf] at this; cases this
      exact (hok.rs r hr).setDs _ (by simp [isFinalTaskState]) (fun hf => absurd hf hunf)
    · exact hok.rs r hr

/-- `markDeleted` with a "Killed" marker on recorded refs that are unfinished (pending timeout since the
repair of F32: the step judges a task by its RECORDED ref) -/
theorem markKilled_g3_refs {j0 : JobObj} {d : PIndex} {P : List PodObj} {N : List String} {T : List Task} (a : Job) (names : List String)
    (reason : String) (hg : Good j0 d a) (hok : RefsOK P N T a.status.tasks)
    (hnames : ∀ r ∈ a.status.tasks, names.contains r.name = true → r.finishTimestamp.isSome = false) :
    G3 j0 d P N T a (markDeleted a names (fun r =>
      { r with deletedStatus := some { state := .terminated, result := .killed, reason := reason } })) := by
  unfold markDeleted
  refine mapDs_g3 a _ hg hok ?_ ?_
  · intro r; split <;> exact ⟨rfl, rfl, rfl, rfl, rfl, rfl⟩
  · intro r hr
    split
    · rename_i hc
      have hunf : ¬ r.finishTimestamp.isSome = true := by
        intro hf
        have := hnames r hr hc
        rw [hf] at this; cases this
      exact (hok.rs r hr).setDs _ (by simp [isFinalTaskState]) (fun hf => absurd hf hunf)
    · exact hok.rs r hr

/-- `markDeleted` with the "ForceDeleted" marker (any ref) -/
theorem markForce_g3 {j0 : JobObj} {d : PIndex} {P : List PodObj} {N : List String} {T : List Task} (a : Job) (names : List String)
    (hg : Good j0 d a) (hok : RefsOK P N T a.status.tasks) :
    G3 j0 d P N T a (markDeleted a names (fun r =>
      { r with deletedStatus := some { (r.deletedStatus.getD
        { state := .terminated, result := .killed, reason := "" }) with reason := "ForceDeleted" } })) := by
  unfold markDeleted
  refine mapDs_g3 a _ hg hok ?_ ?_
  · intro r; split <;> exact ⟨rfl, rfl, rfl, rfl, rfl, rfl⟩
  · intro r hr
    have hrs := hok.rs r hr
    split
    · refine hrs.setDs _ ?_ ?_
      · cases hd : r.deletedStatus with
        | none => simp [isFinalTaskState]
        | some x => simpa using hrs.dsFinal x hd
      · intro hf
        cases hd : r.deletedStatus with
        | none =>
          simp only [Option.getD_none]
          constructor
          · intro h; cases h
          · intro hres
            have := hrs.dsSome hf hres
            rw [hd] at this; cases this
        | some x => simpa using hrs.dsIff hf x hd
    · exact hrs

/-- the finalizer's "JobDeleted" marker, set only where none is recorded -/
theorem deletedStatusIfNotSet_g3 {j0 : JobObj} {d : PIndex} {P : List PodObj} {N : List String} {T : List Task} (a : Job)
    (name : String) (hg : Good j0 d a) (hok : RefsOK P N T a.status.tasks) :
    G3 j0 d P N T a (updateTaskRefDeletedStatusIfNotSet a name
      { state := .terminated, result := .killed, reason := "JobDeleted" }) := by
  unfold updateTaskRefDeletedStatusIfNotSet
  refine mapDs_g3 a _ hg hok ?_ ?_
  · intro r; split <;> exact ⟨rfl, rfl, rfl, rfl, rfl, rfl⟩
  · intro r hr
    have hrs := hok.rs r hr
    split
    · rename_i hc
      simp only [Bool.and_eq_true, beq_iff_eq] at hc
      refine hrs.setDs _ (by simp [isFinalTaskState]) ?_
      intro hf
      constructor
      · intro h; cases h
      · intro hres
        have := hrs.dsSome hf hres
        have hn : r.deletedStatus = none := by cases hd : r.deletedStatus <;> simp_all
        rw [hn] at this; cases this
    · exact hrs

theorem foldl_deletedStatus_g3 {j0 : JobObj} {d : PIndex} {P : List PodObj} {N : List String} {T : List Task} (tasks : List Task) :
    ∀ (a : Job), Good j0 d a → RefsOK P N T a.status.tasks →
    G3 j0 d P N T a (tasks.foldl (fun acc t => updateTaskRefDeletedStatusIfNotSet acc t.name
      { state := .terminated, result := .killed, reason := "JobDeleted" }) a) := by
  induction tasks with
  | nil => intro a hg hok; exact G3.refl hg hok
  | cons t rest ih =>
    intro a hg hok
    have h1 := deletedStatusIfNotSet_g3 a t.name hg hok
    exact h1.trans (ih _ h1.good h1.ok)

end Furiko.JobCtl
