/-
Liveness of the job controller, delete part 5: the action filter of the runs of `Props/C13Live.lean`
(`deleteRunEnv`) and `dstate_after_delete`: the invariant of the fair rounds of a single-task Job under
arbitrary fault lists, followed by the user's delete of a Job that carries the finalizer, gives the
invariant `DState` of the delete rounds.  Core Lean only.
-/
import FurikoModel.Proofs.JobCtlLiveD4
import FurikoModel.Proofs.JobCtlLive36

set_option linter.unusedVariables false
set_option linter.unusedSimpArgs false

namespace Furiko.JobCtl.Live
open Furiko Furiko.JobCtl

/-- the actions of the runs of this file: those of the fair rounds under faults, the user's delete, and the
kubelet finishing the termination of a pod that carries a deletion timestamp -/
def deleteRunEnv (_ : Sys) (a : Action) : Prop :=
  match a with
  | .work | .deliverJob | .deliverPod | .advance _ | .kubelet _ | .setFaults _ | .userDelete | .podGone _ => True
  | _ => False

instance (s : Sys) (a : Action) : Decidable (deleteRunEnv s a) := by cases a <;> unfold deleteRunEnv <;> infer_instance

theorem fair_in_deleteRunEnv : ∀ s a, fairEnv s a → deleteRunEnv s a := fun _ a h => by cases a <;> first | exact h | trivial
theorem killEnv_in_deleteRunEnv : ∀ s a, killEnv s a → deleteRunEnv s a := fun _ a h => by cases a <;> first | exact h | trivial

/-- the state a single-task Job is in after any finite sequence of fair rounds under arbitrary fault lists, once
the user's delete of the Job (which carries the finalizer) has been delivered: a `DState` with the key ready -/
theorem dstate_after_delete (orc : String → Outcome) (clock : Int) (cfg : ExecConfig) (d : PIndex)
    (j0 : JobObj) (hwf : WF j0) (hspec : SimpleSpec j0.job) (hn : 1 ≤ j0.job.maxAttempts)
    (hunf : j0.job.status.condition.finished = none) (hdash : '-' ∉ d.hash.toList) (F0 : Int)
    (hF0 : F0 ≤ secs (clock / 1000000000)) (fss : List (List String))
    (hTF : ∀ pre suf, fss = pre ++ suf → pre ≠ [] →
      (roundsF orc pre (startState clock cfg d j0)).clock < F0 + getTTLAfterFinished j0.job cfg)
    (hfz : ∀ jo, (roundsF orc fss (startState clock cfg d j0)).job = some jo → jo.finalizer = true) :
    ∃ jo, jo.name = j0.name ∧ DState jo (deleteAt (roundsF orc fss (startState clock cfg d j0))) ∧
      (deleteAt (roundsF orc fss (startState clock cfg d j0))).q.queue ≠ [] := by
  obtain ⟨hcan, hbusy⟩ := init_canon fair_in_deleteRunEnv clock cfg d j0 hwf hspec hn hunf hdash F0 hF0
  have hsound : Sound deleteRunEnv j0 F0 orc (getTTLAfterFinished j0.job cfg) j0.name (startState clock cfg d j0) :=
    ⟨{ j0 with rv := 1 }, rfl, hcan, Or.inl hbusy, truth_start orc clock cfg d j0 hwf, rfl⟩
  obtain ⟨jo, hname, hcan', _, _, _⟩ := roundsF_keep fair_in_deleteRunEnv (fun _ _ => trivial) orc
    (getTTLAfterFinished j0.job cfg) j0.name fss _ hsound hTF
  obtain ⟨hds, hq, _⟩ := delete_stage hcan' (hfz jo hcan'.fresh.job)
  exact ⟨deletedObj jo _ _, hname, hds, hq⟩

end Furiko.JobCtl.Live
