/-
Basic lemmas about the data structures of `Model/Queue.lean`: counters, job lists, the store
handlers (`store_delta`, `recover_counts`), the API write, `startJob`, `canStartJob`, key names.
-/
import FurikoModel.Model.Queue

set_option linter.unusedSimpArgs false
set_option linter.unusedVariables false

namespace Furiko.Queue
open Furiko.WQ

/-! ### counters -/

theorem getCtr_setCtr (c : List (String × Int)) (k : String) (v : Int) (k' : String) :
    getCtr (setCtr c k v) k' = if k = k' then v else getCtr c k' := by
  induction c with
  | nil => simp [setCtr, getCtr]
  | cons p rest ih =>
    obtain ⟨k0, n⟩ := p
    simp only [setCtr]
    split
    · subst_vars; simp only [getCtr]; split <;> simp_all
    · simp only [getCtr, ih]; split <;> split <;> simp_all

theorem getCtr_addCtr (c : List (String × Int)) (k : String) (d : Int) (k' : String) :
    getCtr (addCtr c k d) k' = getCtr c k' + (if k = k' then d else 0) := by
  unfold addCtr
  rw [getCtr_setCtr]
  split <;> simp_all

/-! ### job lists -/

theorem findJob_some_name {l : List JobV} {n : String} {j : JobV} (h : findJob l n = some j) :
    j.name = n := by
  have := List.find?_some h
  simpa using this

theorem findJob_some_mem {l : List JobV} {n : String} {j : JobV} (h : findJob l n = some j) :
    j ∈ l := List.mem_of_find?_eq_some h

theorem findJob_none_iff {l : List JobV} {n : String} :
    findJob l n = none ↔ ∀ j ∈ l, j.name ≠ n := by
  simp [findJob, List.find?_eq_none]

theorem any_name_iff {l : List JobV} {n : String} :
    l.any (·.name = n) = true ↔ ∃ j ∈ l, j.name = n := by
  simp

theorem findJob_isSome_iff {l : List JobV} {n : String} :
    (findJob l n).isSome ↔ ∃ j ∈ l, j.name = n := by
  simp [findJob, List.find?_isSome]

/-- membership in `setJob` -/
theorem mem_setJob {l : List JobV} {j x : JobV} (h : x ∈ setJob l j) : x ∈ l ∨ x = j := by
  unfold setJob at h
  split at h
  · simp only [List.mem_map] at h
    obtain ⟨y, hy, rfl⟩ := h
    split <;> simp_all
  · simp at h; exact h

theorem mem_delJob {l : List JobV} {n : String} {x : JobV} (h : x ∈ delJob l n) : x ∈ l := by
  unfold delJob at h; exact (List.mem_filter.mp h).1

theorem findJob_cons (x : JobV) (l : List JobV) (n : String) :
    findJob (x :: l) n = if x.name = n then some x else findJob l n := by
  simp only [findJob, List.find?_cons]
  by_cases h : x.name = n <;> simp [h]

theorem findJob_setJob (l : List JobV) (j : JobV) (n : String) :
    findJob (setJob l j) n = if j.name = n then some j else findJob l n := by
  unfold setJob
  split
  · rename_i hany
    induction l with
    | nil => simp at hany
    | cons x rest ih =>
      simp only [List.map_cons, findJob_cons]
      by_cases hx : x.name = j.name
      · simp only [hx, if_true]
        by_cases hn : j.name = n
        · simp [hn]
        · simp only [hn, if_false]
          by_cases hr : rest.any (·.name = j.name) = true
          · have := ih hr; simp only [hn, if_false] at this; exact this
          · -- no further occurrence: map is identity on rest
            have : rest.map (fun x => if x.name = j.name then j else x) = rest := by
              simp only [List.any_eq_true, decide_eq_true_eq, not_exists, not_and] at hr
              conv => rhs; rw [← List.map_id rest]
              apply List.map_congr_left
              intro a ha; simp [hr a ha]
            rw [this]
      · simp only [hx, if_false]
        have hr : rest.any (·.name = j.name) = true := by
          simp only [List.any_cons, Bool.or_eq_true, decide_eq_true_eq] at hany
          rcases hany with h | h
          · exact absurd h hx
          · simpa using h
        have := ih hr
        by_cases hxn : x.name = n
        · have : ¬ j.name = n := fun h => hx (hxn.trans h.symm)
          simp [hxn, this]
        · simp only [hxn, if_false]; exact this
  · rename_i hany
    have hnone : ∀ y ∈ l, y.name ≠ j.name := by
      simpa using hany
    induction l with
    | nil => simp [findJob]
    | cons x rest ih =>
      simp only [List.cons_append, findJob_cons]
      have hx : x.name ≠ j.name := hnone x (by simp)
      have ih' := ih (by simpa using fun y hy => hnone y (by simp [hy])) (fun y hy => hnone y (by simp [hy]))
      by_cases hxn : x.name = n
      · have : ¬ j.name = n := fun h => hx (hxn.trans h.symm)
        simp [hxn, this]
      · simp only [hxn, if_false]; exact ih'

theorem findJob_delJob (l : List JobV) (m n : String) :
    findJob (delJob l m) n = if m = n then none else findJob l n := by
  induction l with
  | nil => simp [delJob, findJob]
  | cons x rest ih =>
    simp only [delJob, List.filter_cons] at ih ⊢
    by_cases hx : x.name = m
    · simp only [hx, ne_eq, not_true_eq_false, decide_false, Bool.false_eq_true, if_false, ih, findJob_cons]
      by_cases hmn : m = n <;> simp [hmn]
    · simp only [ne_eq, hx, not_false_eq_true, decide_true, if_true, findJob_cons, ih]
      by_cases hmn : m = n
      · subst hmn; simp [hx]
      · simp [hmn]


/-! ### `store_delta` -/

/-- effect of one update notification on the counter of `old.label` -/
def updDelta (old new : JobV) : Int :=
  if old.isActive && !new.isActive then -1
  else if !old.isActive && new.isActive && !(!old.isStarted && new.isStarted) then 1
  else 0

def delDelta (j : JobV) : Int := if j.isActive then -1 else 0

/-- the change a notification makes to the counter of key `k` -/
def noteDelta (n : Note) (k : String) : Int :=
  match n with
  | .add _ => 0
  | .update o n => if o.label = some k then updDelta o n else 0
  | .delete j => if j.label = some k then delDelta j else 0

/-- `updDelta` spelled out: −1 for active→inactive, 0 for unstarted→started, +1 for any other
inactive→active, 0 otherwise. -/
theorem updDelta_spec (old new : JobV) :
    updDelta old new =
      if old.isActive = true ∧ new.isActive = false then -1
      else if old.isStarted = false ∧ new.isStarted = true then 0
      else if old.isActive = false ∧ new.isActive = true then 1
      else 0 := by
  unfold updDelta JobV.isActive
  cases old.isStarted <;> cases new.isStarted <;> cases old.terminal <;> cases new.terminal <;> simp

theorem store_delta_update (c : List (String × Int)) (old new : JobV) (k : String) :
    getCtr (storeOnUpdate c old new) k
      = getCtr c k + (if old.label = some k then updDelta old new else 0) := by
  unfold storeOnUpdate updDelta
  cases hl : old.label with
  | none => simp
  | some key =>
    simp only [Option.some.injEq]
    split
    · rw [getCtr_addCtr]
    · split
      · rw [getCtr_addCtr]
      · simp

theorem store_delta_delete (c : List (String × Int)) (j : JobV) (k : String) :
    getCtr (storeOnDelete c j) k
      = getCtr c k + (if j.label = some k then delDelta j else 0) := by
  unfold storeOnDelete delDelta
  cases hl : j.label with
  | none => simp
  | some key =>
    simp only [Option.some.injEq]
    split
    · rw [getCtr_addCtr]
    · simp

/-- `store_delta`: every notification changes every counter by exactly `noteDelta` -/
theorem store_delta (c : List (String × Int)) (n : Note) (k : String) :
    getCtr (storeNotify c n) k = getCtr c k + noteDelta n k := by
  cases n with
  | add j => simp [storeNotify, noteDelta]
  | update o n => simp only [storeNotify, noteDelta]; exact store_delta_update c o n k
  | delete j => simp only [storeNotify, noteDelta]; exact store_delta_delete c j k

/-- keys other than `old.label` are untouched -/
theorem store_delta_other (c : List (String × Int)) (n : Note) (k : String)
    (h : match n with | .add _ => True | .update o _ => o.label ≠ some k | .delete j => j.label ≠ some k) :
    getCtr (storeNotify c n) k = getCtr c k := by
  rw [store_delta]
  cases n <;> simp_all [noteDelta]

def sumDelta (l : List Note) (k : String) : Int := (l.map (noteDelta · k)).sum

@[simp] theorem sumDelta_nil (k : String) : sumDelta [] k = 0 := rfl
@[simp] theorem sumDelta_cons (n : Note) (l : List Note) (k : String) :
    sumDelta (n :: l) k = noteDelta n k + sumDelta l k := by simp [sumDelta]
@[simp] theorem sumDelta_append (l1 l2 : List Note) (k : String) :
    sumDelta (l1 ++ l2) k = sumDelta l1 k + sumDelta l2 k := by simp [sumDelta]

theorem getCtr_foldl_storeNotify (l : List Note) (c : List (String × Int)) (k : String) :
    getCtr (l.foldl storeNotify c) k = getCtr c k + sumDelta l k := by
  induction l generalizing c with
  | nil => simp
  | cons n rest ih => simp only [List.foldl_cons, ih, store_delta, sumDelta_cons]; omega

/-! ### `recover_counts` -/

/-- number of active Jobs labelled `uid` in a list -/
def actCount (jobs : List JobV) (uid : String) : Nat :=
  (jobs.filter (fun j => j.label = some uid && j.isActive)).length

theorem trueActive_eq (s : Sys) (uid : String) : trueActive s uid = actCount s.jobs uid := rfl

/-- 0/1 indicator: `j` is active and labelled `uid` -/
def actInd (j : JobV) (uid : String) : Nat := if (j.label = some uid && j.isActive) = true then 1 else 0

theorem actCount_cons (j : JobV) (l : List JobV) (uid : String) :
    actCount (j :: l) uid = actInd j uid + actCount l uid := by
  unfold actCount actInd
  simp only [List.filter_cons]
  split <;> simp <;> omega

@[simp] theorem actCount_nil (uid : String) : actCount [] uid = 0 := rfl

theorem actCount_append (l1 l2 : List JobV) (uid : String) :
    actCount (l1 ++ l2) uid = actCount l1 uid + actCount l2 uid := by
  simp [actCount]

theorem recover_foldl (jobs : List JobV) (c : List (String × Int)) (uid : String) :
    getCtr (jobs.foldl (fun c j =>
      match j.label with
      | some key => if j.isActive then addCtr c key 1 else c
      | none => c) c) uid = getCtr c uid + actCount jobs uid := by
  induction jobs generalizing c with
  | nil => simp
  | cons j rest ih =>
    simp only [List.foldl_cons, ih, actCount_cons, actInd]
    cases hl : j.label with
    | none => simp
    | some key =>
      by_cases ha : j.isActive = true
      · simp only [ha, if_true, getCtr_addCtr, Option.some.injEq, Bool.and_true, decide_eq_true_eq]
        split <;> simp <;> omega
      · simp [ha]

/-- `recover_counts` -/
theorem recover_counts (jobs : List JobV) (uid : String) :
    getCtr (storeRecover jobs) uid = actCount jobs uid := by
  have h := recover_foldl jobs [] uid
  simp only [getCtr, Int.zero_add] at h
  exact h


/-! ### counting under `setJob` / `delJob` (names distinct) -/

def names (l : List JobV) : List String := l.map (·.name)

theorem map_replace_id {l : List JobV} {n : String} (j : JobV) (h : ∀ y ∈ l, y.name ≠ n) :
    l.map (fun x => if x.name = n then j else x) = l := by
  conv => rhs; rw [← List.map_id l]
  apply List.map_congr_left
  intro a ha; simp [h a ha]

theorem delJob_id {l : List JobV} {n : String} (h : ∀ y ∈ l, y.name ≠ n) : delJob l n = l := by
  unfold delJob
  apply List.filter_eq_self.mpr
  intro a ha; simp [h a ha]

theorem actCount_map_replace {l : List JobV} {cur j : JobV} (uid : String)
    (hnd : (names l).Nodup) (hcur : cur ∈ l) (hname : cur.name = j.name) :
    actCount (l.map (fun x => if x.name = j.name then j else x)) uid + actInd cur uid
      = actCount l uid + actInd j uid := by
  induction l with
  | nil => simp at hcur
  | cons x rest ih =>
    simp only [names, List.map_cons, List.nodup_cons, List.mem_map, not_exists, not_and] at hnd
    obtain ⟨hx, hrest⟩ := hnd
    simp only [List.map_cons, actCount_cons]
    rcases List.mem_cons.mp hcur with rfl | hmem
    · have hid : rest.map (fun x => if x.name = j.name then j else x) = rest :=
        map_replace_id j (fun y hy h => hx y hy (by rw [h, hname]))
      rw [hid]; simp only [hname, if_true]; omega
    · have hne : x.name ≠ j.name := fun h => hx cur hmem (by rw [hname, h])
      have := ih hrest hmem
      simp only [hne, if_false]; omega

theorem actCount_setJob {l : List JobV} {cur j : JobV} (uid : String)
    (hnd : (names l).Nodup) (hcur : findJob l j.name = some cur) :
    actCount (setJob l j) uid + actInd cur uid = actCount l uid + actInd j uid := by
  have hm := findJob_some_mem hcur
  have hn := findJob_some_name hcur
  have hany : l.any (·.name = j.name) = true := by
    simp only [List.any_eq_true, decide_eq_true_eq]; exact ⟨cur, hm, hn⟩
  unfold setJob
  rw [if_pos hany]
  exact actCount_map_replace uid hnd hm hn

theorem actCount_setJob_new {l : List JobV} {j : JobV} (uid : String)
    (hnone : findJob l j.name = none) :
    actCount (setJob l j) uid = actCount l uid + actInd j uid := by
  have hno := findJob_none_iff.mp hnone
  have hany : ¬ l.any (·.name = j.name) = true := by
    simp only [List.any_eq_true, decide_eq_true_eq, not_exists, not_and]; exact hno
  unfold setJob
  rw [if_neg hany, actCount_append, actCount_cons]; simp

theorem actCount_delJob {l : List JobV} {cur : JobV} {n : String} (uid : String)
    (hnd : (names l).Nodup) (hcur : findJob l n = some cur) :
    actCount (delJob l n) uid + actInd cur uid = actCount l uid := by
  have hm := findJob_some_mem hcur
  have hn := findJob_some_name hcur
  clear hcur
  induction l with
  | nil => simp at hm
  | cons x rest ih =>
    simp only [names, List.map_cons, List.nodup_cons, List.mem_map, not_exists, not_and] at hnd
    obtain ⟨hx, hrest⟩ := hnd
    rcases List.mem_cons.mp hm with rfl | hmem
    · have hid : delJob rest n = rest := delJob_id (fun y hy h => hx y hy (by rw [h, hn]))
      simp only [delJob, List.filter_cons, hn, ne_eq, not_true_eq_false, decide_false,
        Bool.false_eq_true, if_false, actCount_cons]
      simp only [delJob] at hid; rw [hid]; omega
    · have hne : x.name ≠ n := fun h => hx cur hmem (by rw [hn, h])
      have := ih hrest hmem
      simp only [delJob, List.filter_cons, ne_eq, hne, not_false_eq_true, decide_true, if_true,
        actCount_cons] at this ⊢
      omega

theorem names_setJob_present {l : List JobV} {j : JobV} (h : l.any (·.name = j.name) = true) :
    names (setJob l j) = names l := by
  unfold setJob names
  rw [if_pos h, List.map_map]
  apply List.map_congr_left
  intro a _; simp only [Function.comp]; split <;> simp_all

theorem nodup_names_setJob {l : List JobV} {j : JobV} (h : (names l).Nodup) :
    (names (setJob l j)).Nodup := by
  by_cases hany : l.any (·.name = j.name) = true
  · rw [names_setJob_present hany]; exact h
  · unfold setJob; rw [if_neg hany]
    simp only [names, List.map_append, List.map_cons, List.map_nil]
    simp only [List.any_eq_true, decide_eq_true_eq, not_exists, not_and] at hany
    apply List.nodup_append.mpr
    refine ⟨h, by simp, ?_⟩
    intro a ha b hb
    simp only [List.mem_map] at ha
    obtain ⟨y, hy, rfl⟩ := ha
    simp only [List.mem_singleton] at hb; subst hb
    exact hany y hy

theorem nodup_names_delJob {l : List JobV} {n : String} (h : (names l).Nodup) :
    (names (delJob l n)).Nodup := by
  unfold names delJob
  exact (List.filter_sublist.map _).nodup h


/-! ### the API write -/

/-- the fault the next controller write will meet (`""` = none) -/
def nextFault (s : Sys) : String := s.faults.headD ""

theorem popFault_eq (s : Sys) :
    popFault s = (nextFault s, { s with faults := s.faults.tail }) := by
  unfold popFault nextFault
  cases h : s.faults with
  | nil => cases s; simp_all
  | cons f rest => simp

/-- state after a failed write (the fault, if any, is consumed) -/
def failWrite (s : Sys) (verb name res : String) : Sys :=
  { s with faults := s.faults.tail, calls := s.calls ++ [⟨verb, name, res⟩] }

/-- state after an applied write -/
def applyWrite (s : Sys) (verb name : String) (nj : JobV) : Sys :=
  { s with faults := s.faults.tail, rv := s.rv + 1, jobs := setJob s.jobs nj,
           jobEvs := s.jobEvs ++ [.update nj], calls := s.calls ++ [⟨verb, name, "ok"⟩] }

/-- the next fault blocks the write -/
def faultBlocks (s : Sys) : Prop :=
  nextFault s = "err" ∨ nextFault s = "timeout" ∨ nextFault s = "conflict"

instance (s : Sys) : Decidable (faultBlocks s) := by unfold faultBlocks; infer_instance

theorem apiWriteJob_cases (s : Sys) (verb : String) (cached : JobV) (f : JobV → JobV) :
    (∃ res, res ≠ "ok" ∧ apiWriteJob s verb cached f = (failWrite s verb cached.name res, false) ∧
        (faultBlocks s ∨ findJob s.jobs cached.name = none ∨
          ∃ cur, findJob s.jobs cached.name = some cur ∧ cur.rv ≠ cached.rv)) ∨
    (∃ cur, findJob s.jobs cached.name = some cur ∧ cur.rv = cached.rv ∧ ¬ faultBlocks s ∧
        apiWriteJob s verb cached f =
          (applyWrite s verb cached.name { f cur with rv := s.rv + 1 },
            decide (nextFault s ≠ "applied-err"))) := by
  unfold apiWriteJob
  rw [popFault_eq]
  simp only [faultBlocks]
  by_cases h1 : nextFault s = "err" ∨ nextFault s = "timeout"
  · left; refine ⟨"err", by decide, ?_, ?_⟩
    · simp only [h1, if_true, failWrite]
    · rcases h1 with h | h
      · exact Or.inl (Or.inl h)
      · exact Or.inl (Or.inr (Or.inl h))
  · simp only [h1, if_false]
    by_cases h2 : nextFault s = "conflict"
    · left; refine ⟨"conflict", by decide, ?_, ?_⟩
      · simp only [h2, if_true, failWrite]
      · exact Or.inl (Or.inr (Or.inr h2))
    · simp only [h2, if_false]
      cases hf : findJob s.jobs cached.name with
      | none =>
        left; refine ⟨"notfound", by decide, ?_, ?_⟩
        · simp [failWrite]
        · simp
      | some cur =>
        by_cases hrv : cur.rv = cached.rv
        · right
          refine ⟨cur, rfl, hrv, ?_, ?_⟩
          · intro hb; rcases hb with h | h | h
            · exact h1 (Or.inl h)
            · exact h1 (Or.inr h)
            · exact h.elim
          · simp [hrv, applyWrite]
        · left; refine ⟨"conflict", by decide, ?_, ?_⟩
          · simp [hrv, failWrite]
          · right; right; exact ⟨cur, rfl, hrv⟩


def startF (clock : Int) (cached : JobV) : JobV → JobV := fun cur =>
  { cur with startTime := some (clock / 1000000000), terminal := cached.terminal }

theorem startJobWrite_eq (s : Sys) (j : JobV) :
    startJobWrite s j = apiWriteJob s "start" j (startF s.clock j) := rfl

/-- `rejectIsNoop` compares exactly the fields `rejectF` sets -/
theorem rejectIsNoop_some {s : Sys} {cached : JobV} {msg : String × Int} {cur : JobV}
    (hf : findJob s.jobs cached.name = some cur) :
    rejectIsNoop s cached msg = true ↔ (cur.rv = cached.rv ∧ rejectF msg cached cur = cur) := by
  unfold rejectIsNoop
  rw [hf]
  obtain ⟨n, l, on, ou, cr, hp, p, sa, st, t, ae, rv, am⟩ := cur
  simp only [rejectF, Bool.and_eq_true, decide_eq_true_eq, JobV.mk.injEq, true_and, and_true]
  constructor
  · rintro ⟨⟨⟨⟨⟨⟨⟨⟨h1, h2⟩, h3⟩, h4⟩, h5⟩, h6⟩, h7⟩, h8⟩, h9⟩
    exact ⟨h1, h4.symm, h5.symm, h6.symm, h7.symm, h8.symm, h9.symm, h2.symm, h3.symm⟩
  · rintro ⟨h1, h4, h5, h6, h7, h8, h9, h2, h3⟩
    exact ⟨⟨⟨⟨⟨⟨⟨⟨h1, h2.symm⟩, h3.symm⟩, h4.symm⟩, h5.symm⟩, h6.symm⟩, h7.symm⟩, h8.symm⟩, h9.symm⟩

theorem rejectIsNoop_none {s : Sys} {cached : JobV} {msg : String × Int}
    (hf : findJob s.jobs cached.name = none) : rejectIsNoop s cached msg = false := by
  unfold rejectIsNoop; rw [hf]

/-- case analysis of the reject write: refused; applied; or a no-op (the authoritative Job
already is what the write would make it: logged "ok", nothing else happens) -/
theorem rejectJobWrite_cases (s : Sys) (j : JobV) (m : String × Int) :
    (∃ res, res ≠ "ok" ∧ rejectJobWrite s j m = (failWrite s "reject" j.name res, false) ∧
        (faultBlocks s ∨ findJob s.jobs j.name = none ∨
          ∃ cur, findJob s.jobs j.name = some cur ∧ cur.rv ≠ j.rv)) ∨
    (∃ cur, findJob s.jobs j.name = some cur ∧ cur.rv = j.rv ∧ ¬ faultBlocks s ∧
        rejectF m j cur ≠ cur ∧
        rejectJobWrite s j m =
          (applyWrite s "reject" j.name { rejectF m j cur with rv := s.rv + 1 },
            decide (nextFault s ≠ "applied-err"))) ∨
    (∃ cur, findJob s.jobs j.name = some cur ∧ cur.rv = j.rv ∧ ¬ faultBlocks s ∧
        rejectF m j cur = cur ∧
        rejectJobWrite s j m =
          (failWrite s "reject" j.name "ok", decide (nextFault s ≠ "applied-err"))) := by
  unfold rejectJobWrite
  rw [popFault_eq]
  simp only
  by_cases hn : nextFault s ≠ "err" ∧ nextFault s ≠ "timeout" ∧ nextFault s ≠ "conflict" ∧
      rejectIsNoop s j m = true
  · rw [if_pos hn]
    obtain ⟨h1, h2, h3, h4⟩ := hn
    cases hf : findJob s.jobs j.name with
    | none => rw [rejectIsNoop_none hf] at h4; cases h4
    | some cur =>
      rw [rejectIsNoop_some hf] at h4
      right; right
      refine ⟨cur, rfl, h4.1, ?_, h4.2, rfl⟩
      intro hb; rcases hb with h | h | h
      · exact h1 h
      · exact h2 h
      · exact h3 h
  · rw [if_neg hn]
    rcases apiWriteJob_cases s "reject" j (rejectF m j) with ⟨res, hres, heq, hwhy⟩ |
        ⟨cur, hf, hrv, hnb, heq⟩
    · left; exact ⟨res, hres, heq, hwhy⟩
    · right; left
      refine ⟨cur, hf, hrv, hnb, fun he => hn ⟨?_, ?_, ?_, ?_⟩, heq⟩
      · exact fun h => hnb (Or.inl h)
      · exact fun h => hnb (Or.inr (Or.inl h))
      · exact fun h => hnb (Or.inr (Or.inr h))
      · exact (rejectIsNoop_some hf).mpr ⟨hrv, he⟩

/-- counter after CAS increment and rollback -/
def rollback (c : List (String × Int)) (uid : String) (old : Int) : List (String × Int) :=
  addCtr (setCtr c uid (old + 1)) uid (-1)

theorem getCtr_rollback {c : List (String × Int)} {uid : String} {old : Int}
    (h : getCtr c uid = old) (k : String) : getCtr (rollback c uid old) k = getCtr c k := by
  unfold rollback
  rw [getCtr_addCtr, getCtr_setCtr]
  split
  · subst_vars; omega
  · simp

/-- case analysis of `startJob` -/
theorem startJob_cases (s : Sys) (jc : JCV) (j : JobV) (old : Int) :
    (getCtr s.counter jc.uid ≠ old ∧ startJob s jc j old = (s, false)) ∨
    (getCtr s.counter jc.uid = old ∧ ∃ res, res ≠ "ok" ∧
        startJob s jc j old =
          ({ failWrite s "start" j.name res with counter := rollback s.counter jc.uid old }, false)) ∨
    (getCtr s.counter jc.uid = old ∧ ∃ cur, findJob s.jobs j.name = some cur ∧ cur.rv = j.rv ∧
        ¬ faultBlocks s ∧
        ((nextFault s ≠ "applied-err" ∧ startJob s jc j old =
            ({ applyWrite s "start" j.name { startF s.clock j cur with rv := s.rv + 1 } with
                counter := setCtr s.counter jc.uid (old + 1) }, true)) ∨
         (nextFault s = "applied-err" ∧ startJob s jc j old =
            ({ applyWrite s "start" j.name { startF s.clock j cur with rv := s.rv + 1 } with
                counter := rollback s.counter jc.uid old }, false)))) := by
  unfold startJob
  by_cases hcas : getCtr s.counter jc.uid = old
  · right
    simp only [hcas, ne_eq, not_true_eq_false, if_false]
    rw [startJobWrite_eq]
    rcases apiWriteJob_cases { s with counter := setCtr s.counter jc.uid (old + 1) } "start" j
        (startF s.clock j) with ⟨res, hres, heq, _⟩ | ⟨cur, hf, hrv, hnb, heq⟩
    · left
      refine ⟨trivial, res, hres, ?_⟩
      rw [heq]; simp [failWrite, rollback]
    · right
      refine ⟨trivial, cur, hf, hrv, hnb, ?_⟩
      rw [heq]
      by_cases ha : nextFault s = "applied-err"
      · right; refine ⟨ha, ?_⟩
        have ha' : nextFault { s with counter := setCtr s.counter jc.uid (old + 1) } = "applied-err" := ha
        simp [ha', applyWrite, rollback]
      · left; refine ⟨ha, ?_⟩
        have ha' : ¬ nextFault { s with counter := setCtr s.counter jc.uid (old + 1) } = "applied-err" := ha
        simp [ha', applyWrite]
  · left; simp [hcas]

/-- `startJob_counter`: success ⇒ the counter was `oldCount` and is `oldCount + 1`; failure ⇒
every counter is unchanged overall; CAS failure ⇒ the state is untouched (no API call); other
keys are never touched. -/
theorem startJob_counter (s : Sys) (jc : JCV) (j : JobV) (old : Int) :
    ((startJob s jc j old).2 = true →
        getCtr s.counter jc.uid = old ∧ getCtr (startJob s jc j old).1.counter jc.uid = old + 1) ∧
    ((startJob s jc j old).2 = false →
        ∀ k, getCtr (startJob s jc j old).1.counter k = getCtr s.counter k) ∧
    (getCtr s.counter jc.uid ≠ old → startJob s jc j old = (s, false)) ∧
    (∀ k, k ≠ jc.uid → getCtr (startJob s jc j old).1.counter k = getCtr s.counter k) := by
  rcases startJob_cases s jc j old with ⟨hne, heq⟩ | ⟨hcas, res, _, heq⟩ |
      ⟨hcas, cur, _, _, _, ⟨_, heq⟩ | ⟨_, heq⟩⟩
  all_goals rw [heq]
  · simp [hne]
  · refine ⟨by simp, fun _ k => ?_, fun h => absurd hcas h, fun k _ => ?_⟩ <;>
      simp [failWrite, getCtr_rollback hcas]
  · refine ⟨fun _ => ⟨hcas, ?_⟩, by simp, fun h => absurd hcas h, fun k hk => ?_⟩
    · simp [applyWrite, getCtr_setCtr]
    · simp [applyWrite, getCtr_setCtr, Ne.symm hk]
  · refine ⟨by simp, fun _ k => ?_, fun h => absurd hcas h, fun k _ => ?_⟩ <;>
      simp [applyWrite, getCtr_rollback hcas]


/-! ### `canStartJob` -/

/-- over the limit for the given count -/
def overLimit (jc : JCV) (ac : Int) : Prop := ac + 1 > jc.maxConc
instance (jc : JCV) (ac : Int) : Decidable (overLimit jc ac) := by unfold overLimit; infer_instance

/-- the Job is due: it has no start policy, or its `startAfter` is not later than the clock -/
def due (j : JobV) (clock : Int) : Prop := ¬ (j.hasPolicy = true ∧ startAfterLater j clock = true)
instance (j : JobV) (clock : Int) : Decidable (due j clock) := by unfold due; infer_instance

/-- the verdict of `canStartJob` is `start` -/
def startVerdict (jc : JCV) (clock : Int) (j : JobV) (ac : Int) : Prop :=
  due j clock ∧ ¬ (j.hasPolicy = true ∧ (j.policy = 1 ∨ j.policy = 2) ∧ overLimit jc ac)

theorem canStartJob_cases (s : Sys) (jc : JCV) (j : JobV) (ac : Int) :
    (j.hasPolicy = false ∧ canStartJob s jc j ac = (s, .start)) ∨
    (j.hasPolicy = true ∧ startAfterLater j s.clock = true ∧
      canStartJob s jc j ac =
        ({ s with cfgQ := s.cfgQ.addAfter ("ns/" ++ jc.name) ((j.startAfter.getD 0) * 1000000000) s.clock },
          .skip)) ∨
    (j.hasPolicy = true ∧ startAfterLater j s.clock = false ∧ j.policy = 1 ∧ overLimit jc ac ∧
      canStartJob s jc j ac =
        ((rejectJobWrite s j (jc.name, ac)).1,
          if (rejectJobWrite s j (jc.name, ac)).2 then .skip else .error)) ∨
    (j.hasPolicy = true ∧ startAfterLater j s.clock = false ∧ j.policy = 2 ∧ overLimit jc ac ∧
      canStartJob s jc j ac = (s, .skip)) ∨
    (j.hasPolicy = true ∧ startAfterLater j s.clock = false ∧
      ¬ ((j.policy = 1 ∨ j.policy = 2) ∧ overLimit jc ac) ∧ canStartJob s jc j ac = (s, .start)) := by
  unfold canStartJob overLimit
  cases hp : j.hasPolicy with
  | false => left; simp
  | true =>
    right
    cases hl : startAfterLater j s.clock with
    | true => left; simp
    | false =>
      right
      by_cases h1 : j.policy = 1
      · by_cases hlim : ac + 1 > jc.maxConc
        · left; simp [h1, hlim]
        · right; right; simp [h1, hlim]
      · by_cases h2 : j.policy = 2
        · by_cases hlim : ac + 1 > jc.maxConc
          · right; left; simp [h2, hlim]
          · right; right; simp [h2, hlim]
        · right; right; simp [h1, h2]

theorem canStartJob_start_iff (s : Sys) (jc : JCV) (j : JobV) (ac : Int) :
    (canStartJob s jc j ac).2 = .start ↔ startVerdict jc s.clock j ac := by
  unfold startVerdict due
  rcases canStartJob_cases s jc j ac with ⟨h, heq⟩ | ⟨h, hl, heq⟩ | ⟨h, hl, hpol, hlim, heq⟩ |
      ⟨h, hl, hpol, hlim, heq⟩ | ⟨h, hl, hn, heq⟩
  · simp [heq, h]
  · simp [heq, h, hl]
  · rw [heq]; simp only [h, hl, hpol, hlim]; split <;> simp
  · simp [heq, h, hl, hpol, hlim]
  · simp [heq, h, hl, hn]

/-! ### key names -/

theorem keyName_ns (n : String) : keyName ("ns/" ++ n) = n := by
  unfold keyName
  apply String.toList_inj.mp
  simp

end Furiko.Queue
