/-
Liveness of the job controller, part 20: the controller half of a fair round, case "not complete, the
creation request of the next attempt is due and its task name is free" (`case_create`): the pod of the
next attempt is created and recorded by the same pass.  Core Lean only.
-/
import FurikoModel.Proofs.JobCtlLive19

set_option linter.unusedSimpArgs false
set_option linter.unusedVariables false

namespace Furiko.JobCtl.Live
open Furiko Furiko.JobCtl Furiko.WQ Furiko.StatusLemmas Furiko.JobCtlPlan Furiko.Conv Furiko.ParallelLemmas

theorem nowT_gt (s : Sys) : s.clock < nowT s + 1000000000 := by
  unfold nowT nowSec secs nsPerSec
  omega

/-- a positive pending timeout is at least one second -/
theorem pendingTimeout_ge (rj : Job) (cfg : ExecConfig) (pt : Int) (h : getPendingTimeout rj cfg = some pt)
    (hpos : 0 < pt) : 1000000000 ≤ pt := by
  unfold getPendingTimeout at h
  cases ht : rj.template with
  | none => rw [ht] at h; cases h
  | some t =>
    rw [ht] at h
    simp only [Option.some.injEq] at h
    subst h
    unfold secs nsPerSec at *
    omega

theorem applyPEv_fresh (pods : List PodObj) (p : PodObj) (h : findPod pods p.pod.name = none) :
    ([p].map PEv.upsert).foldl applyPEv pods = pods ++ [p] := by
  simp only [List.map_cons, List.map_nil, List.foldl_cons, List.foldl_nil, applyPEv]
  unfold setPod
  have : ¬ pods.any (·.pod.name = p.pod.name) = true := by
    intro ha
    obtain ⟨x, hx, hn⟩ := List.any_eq_true.mp ha
    exact findPod_none h x hx (by simpa using hn)
  rw [if_neg this]

theorem findPod_append_fresh (pods : List PodObj) (p : PodObj) (h : findPod pods p.pod.name = none) :
    findPod (pods ++ [p]) p.pod.name = some p := by
  unfold findPod at *
  rw [List.find?_append, h]
  simp

section
variable {ok : Sys → Action → Prop} {j0 jo : JobObj} {F0 : Int} {s : Sys}

/-- **not complete, the request is due, the name is free**: the next attempt is created and recorded -/
theorem case_create (hok : ∀ s a, fairEnv s a → ok s a) (h : PState ok j0 jo F0 s) (k : String) (rest : List String)
    (hq : (s.q.advance s.clock).queue = k :: rest)
    (hclockT : s.clock < F0 + getTTLAfterFinished jo.job s.cfg)
    (hshape : ∀ r ∈ jo.job.status.tasks, Dead r ∨ LiveRef r)
    (hc' : (getParallelTaskSummary s.d jo.job
      (generateTaskRefs s.clock jo.job.status.tasks (foundTasks s jo))).complete = false)
    (hf : jo.job.status.tasks.any refActiveOrSuccessful = false)
    (hdue : DueReq s.clock (theReq s.d jo.job).earliest)
    (hfree : findPod s.pods (taskName jo.name s.d.hash jo.job.status.tasks.length) = none) :
    ∃ jo', jo'.name = jo.name ∧ Canon ok j0 jo' F0 (deliverAll (work s).1) ∧ Busy jo' (deliverAll (work s).1) ∧
      mu jo' (deliverAll (work s).1) < muP jo s ∧ (deliverAll (work s).1).clock = s.clock ∧
      jo'.job.ttlSecondsAfterFinished = jo.job.ttlSecondsAfterFinished ∧ (deliverAll (work s).1).cfg = s.cfg ∧
      RefsStep s jo jo' (deliverAll (work s).1) := by
  have hc := h.canon
  obtain ⟨hdeadL, hlt, hnfin⟩ := notcomplete_facts h hshape hc'
  have hdead := allDead_of_notfound hshape hf
  have hm' : (theReq s.d jo.job).retryIndex = (jo.job.status.tasks.length : Int) := hc.nextRetry
  have hlt' : nextRetryIndex s.d jo.job.status.tasks s.d.hash < jo.job.maxAttempts := by rw [hc.nextRetry]; exact hlt
  -- the new task
  let nt : Task := newTask jo s.d jo.job.status.tasks.length (nowT s)
  have hntname : nt.name = taskName jo.name s.d.hash jo.job.status.tasks.length := rfl
  have hntfresh : nt.name ∉ refNames jo.job := hc.freshName
  have hntgood : TaskGood nt := ⟨rfl, (fun hx => by cases hx), (fun hx => by cases hx), rfl⟩
  have hfree' : findPod (passStart s (popQ (s.q.advance s.clock) k rest)).pods
      (taskName jo.name (passStart s (popQ (s.q.advance s.clock) k rest)).d.hash
        (theReq (passStart s (popQ (s.q.advance s.clock) k rest)).d jo.job).retryIndex) = none := by
    show findPod s.pods (taskName jo.name s.d.hash (theReq s.d jo.job).retryIndex) = none
    rw [hm']; exact hfree
  have hcr := syncCreateTasks_create (passStart s (popQ (s.q.advance s.clock) k rest)) jo (foundTasks s jo) hc.spec
    ⟨hc.fresh.faults, rfl⟩ hc' hf hlt' hdue hfree'
  have hcr' : syncCreateTasks (passStart s (popQ (s.q.advance s.clock) k rest)) jo jo.job (foundTasks s jo) =
      ((updateTaskRefStatus (armEarliest (afterCreate (passStart s (popQ (s.q.advance s.clock) k rest)) jo
          jo.job.status.tasks.length) (jobKey jo) (theReq s.d jo.job).earliest) (jobKey jo) jo.job
          (foundTasks s jo ++ [nt])).1,
        some (recompute s.clock s.d jo.job (foundTasks s jo ++ [nt]), foundTasks s jo ++ [nt])) := by
    rw [hcr, updateTaskRefStatus_snd]
    have e1 : (theReq (passStart s (popQ (s.q.advance s.clock) k rest)).d jo.job).retryIndex =
        (jo.job.status.tasks.length : Int) := hm'
    rw [e1]
    have e2 := (armEarliest_timersOnly (afterCreate (passStart s (popQ (s.q.advance s.clock) k rest)) jo
        jo.job.status.tasks.length) (jobKey jo)
        (theReq (passStart s (popQ (s.q.advance s.clock) k rest)).d jo.job).earliest).static
    rw [e2.1, e2.2.1]
    rfl
  -- the refs the pass generates
  have hntT : nt.name ∉ (foundTasks s jo).map (·.name) := by
    intro hm
    obtain ⟨t', ht', hn'⟩ := List.mem_map.mp hm
    obtain ⟨r, hr, hrt⟩ := List.mem_filterMap.mp ht'
    apply hntfresh
    rw [← hn', lookTask_name hrt]
    exact List.mem_map.mpr ⟨r, hr, rfl⟩
  have hperm := gen_snoc h nt hntgood.ok hntfresh
  have hxlive : LiveRef (getTaskRef none nt) := new_getTaskRef_unfinished hntgood rfl
  obtain ⟨b1, b2, b3, b4, b5, b6, b7⟩ := after_snoc h _ (getTaskRef none nt) hperm
    (by rw [(getTaskRef_fields none nt).2.2.1]; rfl)
    (by unfold TaskRef.hash TaskRef.index; rw [(getTaskRef_fields none nt).2.1]; rfl)
    (by intro f hf'; rw [hxlive.unfin] at hf'; cases hf')
  have hT1nd : ((foundTasks s jo ++ [nt]).map (·.name)).Nodup := by
    rw [List.map_append, List.nodup_append]
    refine ⟨h.consistent.nodup, by simp, ?_⟩
    intro a ha b hb
    simp only [List.map_cons, List.map_nil, List.mem_singleton] at hb
    subst hb
    intro e; subst e; exact hntT ha
  have hps : ([newPod jo s.d jo.job.status.tasks.length (nowT s)].map PEv.upsert).foldl applyPEv s.pods =
      s.pods ++ [newPod jo s.d jo.job.status.tasks.length (nowT s)] := applyPEv_fresh _ _ hfree
  obtain ⟨s', _, _, hpo, _, _⟩ := pass_uniform h k rest hq _ _ [newPod jo s.d jo.job.status.tasks.length (nowT s)] _
    (foundTasks s jo ++ [nt]) (createOut_create _ jo _)
    ((armEarliest_timersOnly _ (jobKey jo) _).trans (updateTaskRefStatus_fst _ (jobKey jo) jo.job _))
    hcr' (Or.inr rfl) hT1nd
    (by
      intro t ht
      rcases List.mem_append.mp ht with ht | ht
      · exact ⟨(h.found_facts t ht).1, (h.found_facts t ht).2.2⟩
      · simp only [List.mem_singleton] at ht; subst ht; exact ⟨hntgood, rfl⟩)
    (by
      intro pt hpt hpos t ht
      rcases List.mem_append.mp ht with ht | ht
      · exact Or.inl (h.found_facts t ht).2.1
      · simp only [List.mem_singleton] at ht; subst ht
        right; right; left
        have h1 := pendingTimeout_ge _ _ _ hpt hpos
        have h2 := nowT_gt s
        show (some (nowT s)).getD zeroTime + pt > s.clock
        simp only [Option.getD_some]
        exact Int.lt_of_lt_of_le h2 (Int.add_le_add_left h1 _))
    b5 b4 hclockT hps
  have hsame := recompute_sameSpec s.clock s.d jo.job (foundTasks s jo ++ [nt])
  have hxname : (getTaskRef none nt).name = taskName jo.name s.d.hash jo.job.status.tasks.length :=
    (getTaskRef_fields none nt).1
  obtain ⟨jo', hjob, hname, _, hcan, hqg, hclk, hpods, hd, hcfgw⟩ := canon_after hok h _
    [newPod jo s.d jo.job.status.tasks.length (nowT s)] hpo hsame.2.2 (Or.inr ⟨rfl, hfree⟩)
    (by rw [hsame.2.1]; exact b2)
    (by
      intro p hp
      rw [hsame.2.1]
      left
      rcases List.mem_append.mp hp with hp | hp
      · rcases hc.unrec p hp with hx | ⟨hn, _, _⟩
        · exact (b3 _).mpr (Or.inl hx)
        · exact absurd hn (findPod_none hfree p hp)
      · simp only [List.mem_singleton] at hp; subst hp
        exact (b3 _).mpr (Or.inr hxname.symm))
    (by rw [hsame.2.1]; exact b4)
  have htasks : jo'.job.status.tasks = generateTaskRefs s.clock jo.job.status.tasks (foundTasks s jo ++ [nt]) := by
    rw [hjob]; exact hsame.2.1
  have hmax : jo'.job.maxAttempts = jo.job.maxAttempts := by rw [hjob]; rfl
  have hne : (recompute s.clock s.d jo.job (foundTasks s jo ++ [nt])).status ≠ jo.job.status := by
    intro e
    have : (generateTaskRefs s.clock jo.job.status.tasks (foundTasks s jo ++ [nt])).length = jo.job.status.tasks.length := by
      rw [← hsame.2.1, e]
    omega
  obtain ⟨j, restE, hev⟩ := hpo.wrote hne
  have hnotAllFin : ¬ AllFin (generateTaskRefs s.clock jo.job.status.tasks (foundTasks s jo ++ [nt])) := by
    intro hx
    have := hx _ b7
    rw [hxlive.unfin] at this; cases this
  have hrs : RefsStep s jo jo' (deliverAll (work s).1) := by
    refine ⟨?_, Or.inr hpods⟩
    intro g hg
    rw [htasks] at hg
    rcases b6 g hg with hx | rfl
    · exact Or.inl hx
    · refine Or.inr ⟨nt, rfl, ?_, hntname, hdead⟩
      unfold lookTask
      rw [hpods, hntname]
      have := findPod_append_fresh s.pods (newPod jo s.d jo.job.status.tasks.length (nowT s)) hfree
      rw [show (newPod jo s.d jo.job.status.tasks.length (nowT s)).pod.name =
        taskName jo.name s.d.hash jo.job.status.tasks.length from rfl] at this
      rw [this]
      exact podTask_newPod jo s.d _ (nowT s)
  refine ⟨jo', hname, hcan, ⟨?_, ?_, Or.inl (deliverAll_ready _ j restE hev hpo.wf)⟩, ?_, hclk, by rw [hjob], hcfgw, hrs⟩
  · rw [hjob]
    exact (recompute_condition s.clock s.d jo.job _ hc.spec b5).2 (fun hx => hnotAllFin hx.1)
  · intro r hr
    rw [htasks] at hr
    rcases b6 r hr with ⟨r0, hr0, rfl⟩ | rfl
    · exact Or.inl ((h.refP_facts hr0).2.2.2.2.1 (hdead r0 hr0)).1
    · exact Or.inr hxlive
  · unfold mu
    have hall' : jo'.job.status.tasks.all (fun r => r.finishTimestamp.isSome) = false := by
      cases hx : jo'.job.status.tasks.all (fun r => r.finishTimestamp.isSome) with
      | false => rfl
      | true =>
        exfalso
        apply hnotAllFin
        rw [← htasks]
        exact List.all_eq_true.mp hx
    rw [hall', htasks, b1, hmax]
    unfold muP
    have hall : jo.job.status.tasks.all (fun r => r.finishTimestamp.isSome) = true :=
      all_fin_of_allFin (fun r hr => (hdead r hr).fin)
    rw [hall]
    simp only [Bool.false_eq_true, ↓reduceIte]
    split <;> omega

end

end Furiko.JobCtl.Live
