/-
Liveness of the job controller, part 32: a pass that wrote nothing keeps the invariant (`unwritten`) and
the agreement with the oracle (`truth_unwritten`); the key stays armed after any pass that wrote or failed
or armed a timer (`harmed_of`).  Core Lean only.
-/
import FurikoModel.Proofs.JobCtlLive31

set_option linter.unusedSimpArgs false
set_option linter.unusedVariables false

namespace Furiko.JobCtl.Live
open Furiko Furiko.JobCtl Furiko.WQ Furiko.StatusLemmas Furiko.JobCtlPlan Furiko.Conv Furiko.ParallelLemmas

/-- the key will be worked on again: the pass wrote the status (its watch event re-queues the key) or left
a timer -/
theorem harmed_of {jo : JobObj} {s w : Sys} {st : JobStatus} {created : List PodObj} (hpo : PassOut jo s w st created)
    (hx : st ≠ jo.job.status ∨ w.q.delayed ≠ []) : (deliverAll w).q.queue ≠ [] ∨ (deliverAll w).q.delayed ≠ [] := by
  rcases hx with hne | hdl
  · obtain ⟨j, rest, hev⟩ := hpo.wrote hne
    exact Or.inl (deliverAll_ready w j rest hev hpo.wf)
  · have := (deliverAll_spec w hpo.psync hpo.jsync).2.2.2.2.2
    exact Or.inr (by rw [this.delayed]; exact hdl)

theorem job_eta (j : Job) : ({ j with status := j.status } : Job) = j := by cases j; rfl

section
variable {ok : Sys → Action → Prop} {j0 jo : JobObj} {F0 : Int} {s : Sys}

/-- **a pass that wrote nothing** (it failed before or at its status update; the pod of the next attempt may
have been created): the invariant is kept with the same recorded status, the Job stays unfinished -/
theorem unwritten (hok : ∀ s a, fairEnv s a → ok s a) (h : PState ok j0 jo F0 s) (w : Sys) (hstepsw : Steps ok j0 s w)
    (hunf : jo.job.status.condition.finished = none) (hshape : ∀ r ∈ jo.job.status.tasks, Dead r ∨ LiveRef r)
    (created : List PodObj) (hpo : PassOut jo s w jo.job.status created)
    (hcreated : created = [] ∨
      (created = [newPod jo s.d jo.job.status.tasks.length (nowT s)] ∧
        findPod s.pods (taskName jo.name s.d.hash jo.job.status.tasks.length) = none ∧
        (jo.job.status.tasks.length : Int) < jo.job.maxAttempts ∧ ∀ r ∈ jo.job.status.tasks, Dead r))
    (harmed : (deliverAll w).q.queue ≠ [] ∨ (deliverAll w).q.delayed ≠ []) :
    ∃ jo', jo'.name = jo.name ∧ jo'.job = jo.job ∧ Canon ok j0 jo' F0 (deliverAll w) ∧ Busy jo' (deliverAll w) ∧
      (deliverAll w).clock = s.clock ∧ (deliverAll w).cfg = s.cfg ∧ (deliverAll w).pods = s.pods ++ created := by
  have hc := h.canon
  obtain ⟨jo', hjob, hname, _, hcan, _, hclk, hpods, hd, hcfgw⟩ := canon_after_gen hok h w hstepsw jo.job.status created hpo rfl
    (by
      rcases hcreated with e | ⟨e, hfree, _⟩
      · exact Or.inl e
      · exact Or.inr ⟨e, hfree⟩)
    hc.retries
    (by
      intro p hp
      rcases List.mem_append.mp hp with hp | hp
      · exact hc.unrec p hp
      · rcases hcreated with e | ⟨e, _, hlt, hdead⟩
        · rw [e] at hp; cases hp
        · rw [e] at hp
          simp only [List.mem_singleton] at hp; subst hp
          exact Or.inr ⟨rfl, hlt, hdead⟩)
    hc.lbRefs
  have hjob' : jo'.job = jo.job := by rw [hjob]
  refine ⟨jo', hname, hjob', hcan, ⟨by rw [hjob']; exact hunf, by rw [hjob']; exact hshape, harmed⟩, hclk, hcfgw, hpods⟩

/-- … and the agreement with the oracle -/
theorem truth_unwritten (orc : String → Outcome) {s0 e w : Sys} {jo' : JobObj} (ht : Truth orc jo s0)
    (hpods : e.pods = s0.pods.map (sweepPod orc)) (hjob : jo'.job = jo.job) (m : Int) (c : Time)
    (hw : w.pods = e.pods ∨ w.pods = e.pods ++ [newPod jo e.d m c]) : Truth orc jo' w := by
  have hpodsE : ∀ p ∈ e.pods, p.pod.isOOMKilled = false ∧ (p.pod.phase = .succeeded ↔ orc p.pod.name = .succeed) := by
    intro p hp
    rw [hpods] at hp
    obtain ⟨p0, hp0, rfl⟩ := List.mem_map.mp hp
    exact sweepPod_truth orc p0 (ht.pods p0 hp0).1 (ht.pods p0 hp0).2
  have hsub : ∀ p ∈ e.pods, p ∈ w.pods := by
    intro p hp
    rcases hw with e1 | e1
    · rw [e1]; exact hp
    · rw [e1]; exact List.mem_append_left _ hp
  refine ⟨?_, ?_, by rw [hjob]; exact ht.failed, by rw [hjob]; exact ht.succ, by rw [hjob]; exact ht.live⟩
  · intro p hp
    rcases hw with e1 | e1
    · rw [e1] at hp; exact ⟨(hpodsE p hp).1, fun _ => (hpodsE p hp).2⟩
    · rw [e1] at hp
      rcases List.mem_append.mp hp with hp | hp
      · exact ⟨(hpodsE p hp).1, fun _ => (hpodsE p hp).2⟩
      · simp only [List.mem_singleton] at hp; subst hp
        exact ⟨rfl, fun hx => by cases hx⟩
  · intro r hr
    rw [hjob] at hr
    obtain ⟨p0, hp0, hn0⟩ := List.mem_map.mp (ht.noLoss r hr)
    have hpe' : sweepPod orc p0 ∈ e.pods := by rw [hpods]; exact List.mem_map_of_mem hp0
    exact List.mem_map.mpr ⟨_, hsub _ hpe', by rw [sweepPod_name]; exact hn0⟩

end

end Furiko.JobCtl.Live
