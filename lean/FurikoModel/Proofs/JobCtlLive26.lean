/-
Liveness of the job controller, part 26: the verdict in a final state that agrees with the oracle
(`verdict`), and the assembled convergence theorem for a simple Job from its creation
(`fresh_job_converges`).  Core Lean only.
-/
import FurikoModel.Proofs.JobCtlLive25
import FurikoModel.Proofs.JobCtlInvContigStep

set_option linter.unusedSimpArgs false
set_option linter.unusedVariables false

namespace Furiko.JobCtl.Live
open Furiko Furiko.JobCtl Furiko.WQ Furiko.StatusLemmas Furiko.JobCtlPlan Furiko.Conv Furiko.ParallelLemmas

section
variable {ok : Sys → Action → Prop} {j0 jo : JobObj} {F0 : Int} {s : Sys}

/-- every retry number below the number of refs is recorded, under the task name of that attempt -/
theorem Canon.refAt (h : Canon ok j0 jo F0 s) (i : Nat) (hi : i < jo.job.status.tasks.length) :
    ∃ r ∈ jo.job.status.tasks, r.retryIndex = i ∧ r.name = taskName jo.name s.d.hash i := by
  have : (i : Int) ∈ (List.range jo.job.status.tasks.length).map (fun i : Nat => (i : Int)) :=
    List.mem_map.mpr ⟨i, List.mem_range.mpr hi, rfl⟩
  obtain ⟨r, hr, hri⟩ := List.mem_map.mp (h.retries.mem_iff.mpr this)
  exact ⟨r, hr, hri, by rw [(h.refOK hr).2.1, hri]⟩

theorem Canon.retry_lt (h : Canon ok j0 jo F0 s) {r : TaskRef} (hr : r ∈ jo.job.status.tasks) :
    0 ≤ r.retryIndex ∧ r.retryIndex < jo.job.status.tasks.length ∧ r.retryIndex < jo.job.maxAttempts := by
  have := h.retries.mem_iff.mp (List.mem_map_of_mem (f := (·.retryIndex)) hr)
  obtain ⟨i, hi, hie⟩ := List.mem_map.mp this
  have hlt := List.mem_range.mp hi
  have hc := ((inv4_of_reach h.reach h.wf2).contig jo (Or.inl h.fresh.job) r hr).2.1
  rw [maxAttempts_of_template h.ver.template.symm] at hc
  refine ⟨by rw [← hie]; exact Int.natCast_nonneg i, by rw [← hie]; omega, hc⟩

/-- **the verdict**: in a final state that agrees with the oracle, the Job is `Success` with the last recorded
attempt the first one the oracle lets succeed, or `Failed` with `maxAttempts` attempts the oracle fails -/
theorem verdict (orc : String → Outcome) (h : Canon ok j0 jo F0 s) (hd : Done jo s) (ht : Truth orc jo s) :
    ∃ f, jo.job.status.condition.finished = some f ∧
      ((f.result = .success ∧ 1 ≤ jo.job.status.tasks.length ∧
          orc (taskName jo.name s.d.hash ((jo.job.status.tasks.length - 1 : Nat) : Int)) = .succeed ∧
          ∀ i : Nat, i + 1 < jo.job.status.tasks.length → orc (taskName jo.name s.d.hash (i : Int)) = .fail) ∨
       (f.result = .failed ∧ (jo.job.status.tasks.length : Int) = jo.job.maxAttempts ∧
          ∀ i : Nat, i < jo.job.status.tasks.length → orc (taskName jo.name s.d.hash (i : Int)) = .fail)) := by
  obtain ⟨f, hf, hs1, hs2⟩ := hd.fin
  refine ⟨f, hf, ?_⟩
  by_cases hany : AnySucc jo.job.status.tasks
  · left
    obtain ⟨g, hg, hgs⟩ := hany
    have hgf := hd.allFin g hg
    obtain ⟨horc, hmax⟩ := ht.succ g hg hgf hgs
    obtain ⟨g0, glt, _⟩ := h.retry_lt hg
    have hpos : 1 ≤ jo.job.status.tasks.length := by omega
    -- the successful ref carries the last retry number
    obtain ⟨rl, hrl, hrli, _⟩ := h.refAt (jo.job.status.tasks.length - 1) (by omega)
    have hlast : g.retryIndex = ((jo.job.status.tasks.length - 1 : Nat) : Int) := by
      have := hmax rl hrl
      rw [hrli] at this
      omega
    refine ⟨hs1 ⟨g, hg, hgs⟩, hpos, ?_, ?_⟩
    · rw [← hlast, ← (h.refOK hg).2.1]; exact horc
    · intro i hi
      obtain ⟨r, hr, hri, hrn⟩ := h.refAt i (by omega)
      rw [← hrn]
      apply ht.failed r hr (hd.allFin r hr)
      intro hrs
      have := (ht.succ r hr (hd.allFin r hr) hrs).2 rl hrl
      rw [hrli, hri] at this
      omega
  · right
    have hge : (jo.job.status.tasks.length : Int) ≥ jo.job.maxAttempts := by
      rcases hd.complete with hx | hx
      · exact absurd hx hany
      · exact hx
    have hpos : 1 ≤ jo.job.status.tasks.length := by have := h.npos; omega
    obtain ⟨rl, hrl, hrli, _⟩ := h.refAt (jo.job.status.tasks.length - 1) (by omega)
    have hlt := (h.retry_lt hrl).2.2
    rw [hrli] at hlt
    refine ⟨hs2 hany, by omega, ?_⟩
    intro i hi
    obtain ⟨r, hr, _, hrn⟩ := h.refAt i hi
    rw [← hrn]
    exact ht.failed r hr (hd.allFin r hr) (fun hrs => hany ⟨r, hr, hrs⟩)

end

/-- `truth_round` in the form `rounds_converge_with` wants -/
theorem truth_preserved {ok : Sys → Action → Prop} {j0 : JobObj} {F0 : Int} (hok : ∀ s a, fairEnv s a → ok s a)
    (orc : String → Outcome) (jo jo' : JobObj) (s : Sys) (h : Canon ok j0 jo F0 s) (hb : Busy jo s)
    (ht : Truth orc jo s) (hn : jo'.name = jo.name) (hcw : Canon ok j0 jo' F0 (round orc s))
    (hrs : RefsStep (jump (envState orc s)) jo jo' (round orc s))
    (hpods : (jump (envState orc s)).pods = s.pods.map (sweepPod orc)) (hd : (jump (envState orc s)).d = s.d)
    (hps : PState ok j0 jo F0 (jump (envState orc s))) : Truth orc jo' (round orc s) := by
  have hdw : (round orc s).d = (jump (envState orc s)).d := by
    rw [hd]
    exact steps_d (j0 := j0) (round_steps hok orc s s (.refl s))
  exact truth_round orc hb ht hps hpods hcw hn hdw hrs

/-- no pod, no ref: the state agrees with every oracle -/
theorem truth_start (orc : String → Outcome) (clock : Int) (cfg : ExecConfig) (d : PIndex) (j0 : JobObj) (hwf : WF j0) :
    Truth orc { j0 with rv := 1 } (startState clock cfg d j0) := by
  rw [startState_eq]
  refine ⟨(fun p hp => by cases hp), ?_, ?_, ?_, ?_⟩
  all_goals
    intro r hr
    have : r ∈ j0.job.status.tasks := hr
    rw [hwf.noTasks] at this
    cases this

end Furiko.JobCtl.Live
