/-
One controller pass (`work`) decomposed into micro-steps: bookkeeping that does not touch the API
objects (`Frame`), and the API calls it issues, each labelled with what is known about its
arguments.  Proved once by walking through `Reconciler.sync`; every history invariant is then
shown to be preserved by each kind of micro-step.  Core Lean only.
-/
import FurikoModel.Proofs.JobCtlInvPure

set_option linter.unusedSimpArgs false
set_option linter.unusedVariables false

namespace Furiko.JobCtl
open Furiko Furiko.WQ

/-- the parts of the state a pass never changes -/
structure Static (s s' : Sys) : Prop where
  clock : s'.clock = s.clock
  cfg : s'.cfg = s.cfg
  d : s'.d = s.d
  jobCache : s'.jobCache = s.jobCache
  podCache : s'.podCache = s.podCache

/-- only queue / call log / fault oracle bookkeeping differs -/
structure Frame (s s' : Sys) : Prop extends Static s s' where
  job : s'.job = s.job
  pods : s'.pods = s.pods
  rv : s'.rv = s.rv
  jobEvs : s'.jobEvs = s.jobEvs
  podEvs : s'.podEvs = s.podEvs

theorem Static.refl (s : Sys) : Static s s := ⟨rfl, rfl, rfl, rfl, rfl⟩
theorem Static.trans {a b c : Sys} (h1 : Static a b) (h2 : Static b c) : Static a c :=
  ⟨h2.clock.trans h1.clock, h2.cfg.trans h1.cfg, h2.d.trans h1.d, h2.jobCache.trans h1.jobCache,
   h2.podCache.trans h1.podCache⟩
theorem Frame.refl (s : Sys) : Frame s s := ⟨Static.refl s, rfl, rfl, rfl, rfl, rfl⟩
theorem Frame.trans {a b c : Sys} (h1 : Frame a b) (h2 : Frame b c) : Frame a c :=
  ⟨h1.toStatic.trans h2.toStatic, h2.job.trans h1.job, h2.pods.trans h1.pods, h2.rv.trans h1.rv,
   h2.jobEvs.trans h1.jobEvs, h2.podEvs.trans h1.podEvs⟩

/-- `s` is a state of the creation phase of the pass that started in `sp`: so far the pass has only
created pods (none deleted, the Job object untouched, every new pod event is about a pod that exists) -/
structure CreatePhase (sp s : Sys) : Prop where
  sup : ∀ n ∈ podNames sp.pods, n ∈ podNames s.pods
  job : s.job = sp.job
  evs : ∀ n ∈ podEvNames s.podEvs, n ∈ podEvNames sp.podEvs ∨ n ∈ podNames s.pods

theorem CreatePhase.refl (s : Sys) : CreatePhase s s := ⟨fun _ h => h, rfl, fun _ h => Or.inl h⟩

/-- A pod create for `(idx, retry)` is only issued for a request computed by
`ComputeMissingIndexesForCreation` from the CACHED Job, which is started, not being deleted, and
allowed to create tasks. -/
def CreateReq (d : PIndex) (jo : JobObj) (idx : PIndex) (retry : Int) : Prop :=
  isStarted jo.job = true ∧ isDeleted jo.job = false ∧ canCreateTask jo.job = true ∧
  ∃ reqs e, computeMissingIndexesForCreation d jo.job (jo.job.indexes d) = some reqs ∧
    ({ index := idx, retryIndex := retry, earliest := e } : CreationRequest) ∈ reqs

/-- one micro-step of a pass that works on the cached Job `jo` and started in state `sp`
(the Job value and finalizer flag it writes are the ones `sync sp jo` computed) -/
inductive Micro (jo : JobObj) (sp : Sys) : Sys → Sys → Prop
  | frame {s s' : Sys} : Frame s s' → Micro jo sp s s'
  | create (s : Sys) (idx : PIndex) (retry : Int) : CreateReq s.d jo idx retry →
      CreatePhase sp s →
      Micro jo sp s (apiCreatePod s jo idx retry).1
  | delPod (s : Sys) (name : String) (force : Bool) : Micro jo sp s (apiDeletePod s name force).1
  | delJob (s : Sys) : Micro jo sp s (apiDeleteJob s jo).1
  | updJob (s : Sys) (hs : s = (sync sp jo).1) :
      Micro jo sp s (apiUpdateJob s jo { jo with job := (sync sp jo).2.1, finalizer := (sync sp jo).2.2.1 }).1
  | updStatus (s : Sys) :
      Micro jo sp s (apiUpdateJobStatus s jo { jo with job := (sync sp jo).2.1 }).1
  /-- the status write of `UpdateJobAndStatus` after a metadata write that succeeded: it is submitted
  with the resourceVersion of the object `Update` returned -/
  | updStatusOn (s s1 : Sys) (hs1 : s1 = (sync sp jo).1)
      (hs : s = (apiUpdateJob s1 jo { jo with job := (sync sp jo).2.1, finalizer := (sync sp jo).2.2.1 }).1)
      (hok : (apiUpdateJob s1 jo { jo with job := (sync sp jo).2.1, finalizer := (sync sp jo).2.2.1 }).2 = true) :
      Micro jo sp s
        (apiUpdateJobStatus s { jo with rv := updatedRv s jo } { jo with job := (sync sp jo).2.1 }).1

inductive Micros (jo : JobObj) (sp : Sys) : Sys → Sys → Prop
  | refl (s : Sys) : Micros jo sp s s
  | tail {s s' s'' : Sys} : Micros jo sp s s' → Micro jo sp s' s'' → Micros jo sp s s''

theorem Micros.single {jo : JobObj} {sp s s' : Sys} (h : Micro jo sp s s') : Micros jo sp s s' := .tail (.refl s) h
theorem Micros.frame {jo : JobObj} {sp s s' : Sys} (h : Frame s s') : Micros jo sp s s' := .single (.frame h)
theorem Micros.trans {jo : JobObj} {sp a b c : Sys} (h1 : Micros jo sp a b) (h2 : Micros jo sp b c) :
    Micros jo sp a c := by
  induction h2 with
  | refl => exact h1
  | tail _ hm ih => exact .tail ih hm

/-! ### bookkeeping is a frame -/

theorem popFault_frame (s : Sys) : Frame s (popFault s).2 := by
  unfold popFault
  cases s.faults <;> exact ⟨⟨rfl, rfl, rfl, rfl, rfl⟩, rfl, rfl, rfl, rfl, rfl⟩

theorem nextFault_frame (s : Sys) : Frame s (nextFault s).2 := by
  unfold nextFault
  have := popFault_frame s
  generalize popFault s = r at this
  obtain ⟨f, s1⟩ := r
  exact ⟨⟨this.clock, this.cfg, this.d, this.jobCache, this.podCache⟩, this.job, this.pods, this.rv,
    this.jobEvs, this.podEvs⟩

theorem log_frame (s : Sys) (c : Call) : Frame s (log s c) :=
  ⟨⟨rfl, rfl, rfl, rfl, rfl⟩, rfl, rfl, rfl, rfl, rfl⟩

theorem enqueueAfter_frame (s : Sys) (k : String) (t : Int) : Frame s (enqueueAfter s k t) :=
  ⟨⟨rfl, rfl, rfl, rfl, rfl⟩, rfl, rfl, rfl, rfl, rfl⟩

/-! ### effects of API calls on the authoritative objects -/

/-- the Job object is replaced by the new version `nj` (fresh resourceVersion, one watch event) -/
structure JobWrite (s s' : Sys) (nj : JobObj) : Prop where
  static : Static s s'
  pods : s'.pods = s.pods
  podEvs : s'.podEvs = s.podEvs
  rv : s'.rv = s.rv + 1
  nrv : nj.rv = s.rv + 1
  job : s'.job = some nj
  jobEvs : s'.jobEvs = s.jobEvs ++ [.upsert nj]

/-- the Job object is removed (one delete event) -/
structure JobGone (s s' : Sys) : Prop where
  static : Static s s'
  pods : s'.pods = s.pods
  podEvs : s'.podEvs = s.podEvs
  rv : s.rv ≤ s'.rv
  job : s'.job = none
  jobEvs : ∃ x, s'.jobEvs = s.jobEvs ++ [.delete x]

/-- a pod `p` with a fresh name is added -/
structure PodAdd (s s' : Sys) (p : PodObj) : Prop where
  static : Static s s'
  job : s'.job = s.job
  jobEvs : s'.jobEvs = s.jobEvs
  rv : s'.rv = s.rv + 1
  fresh : findPod s.pods p.pod.name = none
  pods : s'.pods = s.pods ++ [p]
  podEvs : s'.podEvs = s.podEvs ++ [.upsert p]

/-- the pod `old` is replaced by `p` (same name) -/
structure PodSet (s s' : Sys) (old p : PodObj) : Prop where
  static : Static s s'
  job : s'.job = s.job
  jobEvs : s'.jobEvs = s.jobEvs
  rv : s'.rv = s.rv + 1
  found : findPod s.pods p.pod.name = some old
  pods : s'.pods = setPod s.pods p
  podEvs : s'.podEvs = s.podEvs ++ [.upsert p]

/-- the pod `p` is removed -/
structure PodDel (s s' : Sys) (p : PodObj) : Prop where
  static : Static s s'
  job : s'.job = s.job
  jobEvs : s'.jobEvs = s.jobEvs
  rv : s'.rv = s.rv
  found : findPod s.pods p.pod.name = some p
  pods : s'.pods = delPod s.pods p.pod.name
  podEvs : s'.podEvs = s.podEvs ++ [.delete p]

/-- the pod object `PodTaskClient.CreateIndex` builds -/
def newPod (jo : JobObj) (idx : PIndex) (retry : Int) (t : Time) : PodObj :=
  { pod := { name := taskName jo.name idx.hash retry, creationTimestamp := some t, retryIndex := some retry,
             parallelIndex := some idx },
    ownerUid := some jo.uid, ownerName := some jo.name, jobLabel := some jo.uid }

/-- closes a `Frame s X` goal when `hf : Frame s s0` and the fields of `X` reduce to those of `s0` -/
macro "frame_of " hf:ident : tactic =>
  `(tactic| exact ⟨⟨($hf).clock, ($hf).cfg, ($hf).d, ($hf).jobCache, ($hf).podCache⟩, ($hf).job, ($hf).pods,
      ($hf).rv, ($hf).jobEvs, ($hf).podEvs⟩)
macro "static_of " hf:ident : tactic =>
  `(tactic| exact ⟨($hf).clock, ($hf).cfg, ($hf).d, ($hf).jobCache, ($hf).podCache⟩)

theorem nowT_frame {s s' : Sys} (h : Static s s') : nowT s' = nowT s := by
  unfold nowT nowSec; rw [h.clock]

theorem apiCreatePod_spec (s : Sys) (jo : JobObj) (idx : PIndex) (retry : Int) :
    (Frame s (apiCreatePod s jo idx retry).1 ∧ ∀ p, (apiCreatePod s jo idx retry).2 ≠ .ok p) ∨
    (PodAdd s (apiCreatePod s jo idx retry).1 (newPod jo idx retry (nowT s)) ∧
      ((apiCreatePod s jo idx retry).2 = .ok (newPod jo idx retry (nowT s)) ∨
       (apiCreatePod s jo idx retry).2 = .err)) := by
  unfold apiCreatePod
  have hf := nextFault_frame s
  generalize nextFault s = r at hf
  obtain ⟨f, s0⟩ := r
  simp only at hf ⊢
  by_cases h1 : isFailFault f = true
  · rw [if_pos h1]
    exact Or.inl ⟨by frame_of hf, by intro p; simp⟩
  · rw [if_neg h1]
    by_cases h2 : (findPod s0.pods (taskName jo.name idx.hash retry)).isSome = true
    · rw [if_pos h2]
      exact Or.inl ⟨by frame_of hf, by intro p; simp⟩
    · rw [if_neg h2]
      right
      have hnow : nowT s0 = nowT s := nowT_frame hf.toStatic
      have hnone : findPod s.pods (taskName jo.name idx.hash retry) = none := by
        rw [← hf.pods]; cases h : findPod s0.pods (taskName jo.name idx.hash retry) <;> simp_all
      refine ⟨⟨by static_of hf, hf.job, hf.jobEvs, ?_, hnone, ?_, ?_⟩, ?_⟩
      · show s0.rv + 1 = s.rv + 1; rw [hf.rv]
      · show s0.pods ++ _ = s.pods ++ _; rw [hf.pods, hnow]; rfl
      · show s0.podEvs ++ _ = s.podEvs ++ _; rw [hf.podEvs, hnow]; rfl
      · by_cases h3 : f = "applied-err"
        · right; simp [h3]
        · left; simp only [if_neg h3, hnow]; rfl

/-- `apiDeletePod` once the fault of the batch is chosen -/
def delBody (f : String) (s : Sys) (name : String) (force : Bool) : Sys × Bool :=
  if isFailFault f then (log s ⟨"delete", "pods", name, faultOut f, false, force⟩, false)
  else
    match findPod s.pods name with
    | none => (log s ⟨"delete", "pods", name, "notfound", false, force⟩, true)
    | some p =>
      let s := log s ⟨"delete", "pods", name, "ok", false, force⟩
      if force then
        ({ s with pods := delPod s.pods name, podEvs := s.podEvs ++ [.delete p] }, f ≠ "applied-err")
      else if p.pod.deletionTimestamp.isSome then (s, f ≠ "applied-err")
      else
        let p' := { p with pod := { p.pod with deletionTimestamp := some (nowT s) } }
        ({ s with rv := s.rv + 1, pods := setPod s.pods p', podEvs := s.podEvs ++ [.upsert p'] }, f ≠ "applied-err")

theorem apiDeletePod_eq (s : Sys) (name : String) (force : Bool) :
    apiDeletePod s name force =
      match s.delRun with
      | some f => delBody f s name force
      | none => delBody (popFault s).1 { (popFault s).2 with delRun := some (popFault s).1 } name force := by
  unfold apiDeletePod delBody
  cases s.delRun <;> rfl

theorem delBody_spec (s s0 : Sys) (hf : Frame s s0) (f : String) (name : String) (force : Bool) :
    Frame s (delBody f s0 name force).1 ∨
    (∃ p, force = true ∧ PodDel s (delBody f s0 name force).1 p ∧ p.pod.name = name) ∨
    (∃ p, force = false ∧ p.pod.deletionTimestamp = none ∧ p.pod.name = name ∧
      PodSet s (delBody f s0 name force).1 p
        { p with pod := { p.pod with deletionTimestamp := some (nowT s) } }) := by
  unfold delBody
  by_cases h1 : isFailFault f = true
  · rw [if_pos h1]; exact Or.inl (by frame_of hf)
  · rw [if_neg h1]
    cases hp : findPod s0.pods name with
    | none => simp only; exact Or.inl (by frame_of hf)
    | some p =>
      simp only
      have hps : findPod s.pods name = some p := by rw [← hf.pods]; exact hp
      have hn := (findPod_some hps).2
      by_cases hfo : force = true
      · rw [if_pos hfo]
        refine Or.inr (Or.inl ⟨p, hfo, ⟨by static_of hf, hf.job, hf.jobEvs, hf.rv, by rw [hn]; exact hps, ?_, ?_⟩, hn⟩)
        · show delPod s0.pods name = _; rw [hf.pods, hn]
        · show s0.podEvs ++ _ = _; rw [hf.podEvs]
      · rw [if_neg hfo]
        by_cases hd : p.pod.deletionTimestamp.isSome = true
        · rw [if_pos hd]; exact Or.inl (by frame_of hf)
        · rw [if_neg hd]
          refine Or.inr (Or.inr ⟨p, by simpa using hfo, by cases h : p.pod.deletionTimestamp <;> simp_all, hn,
            ⟨by static_of hf, hf.job, hf.jobEvs, ?_, by simpa [hn] using hps, ?_, ?_⟩⟩)
          · show s0.rv + 1 = _; rw [hf.rv]
          · show setPod s0.pods _ = _; rw [hf.pods]; simp only [log, nowT, nowSec, hf.clock]
          · show s0.podEvs ++ _ = _; rw [hf.podEvs]; simp only [log, nowT, nowSec, hf.clock]

/-- a pod delete: nothing, removal (force), or the deletion timestamp is set (graceful) -/
theorem apiDeletePod_spec (s : Sys) (name : String) (force : Bool) :
    Frame s (apiDeletePod s name force).1 ∨
    (∃ p, force = true ∧ PodDel s (apiDeletePod s name force).1 p ∧ p.pod.name = name) ∨
    (∃ p, force = false ∧ p.pod.deletionTimestamp = none ∧ p.pod.name = name ∧
      PodSet s (apiDeletePod s name force).1 p
        { p with pod := { p.pod with deletionTimestamp := some (nowT s) } }) := by
  rw [apiDeletePod_eq]
  cases s.delRun with
  | some f => exact delBody_spec s s (Frame.refl s) f name force
  | none =>
    simp only
    refine delBody_spec s _ ?_ _ name force
    have := popFault_frame s
    frame_of this

/-- `DeleteJob`: nothing, or the deletion timestamp is set (finalizer present), or the object is removed -/
theorem apiDeleteJob_spec (s : Sys) (jo : JobObj) :
    Frame s (apiDeleteJob s jo).1 ∨
    (∃ cur, s.job = some cur ∧ cur.finalizer = true ∧ cur.job.deletionTimestamp = none ∧
      JobWrite s (apiDeleteJob s jo).1
        { cur with job := { cur.job with deletionTimestamp := some (nowT s) }, rv := s.rv + 1 }) ∨
    (∃ cur, s.job = some cur ∧ cur.finalizer = false ∧ JobGone s (apiDeleteJob s jo).1) := by
  unfold apiDeleteJob
  have hf := nextFault_frame s
  generalize nextFault s = r at hf
  obtain ⟨f, s0⟩ := r
  simp only at hf ⊢
  by_cases h1 : isFailFault f = true
  · rw [if_pos h1]; exact Or.inl (by frame_of hf)
  · rw [if_neg h1]
    cases hj : s0.job with
    | none => simp only; exact Or.inl (by frame_of hf)
    | some cur =>
      simp only
      have hjs : s.job = some cur := by rw [← hf.job]; exact hj
      have hnow : nowT s0 = nowT s := nowT_frame hf.toStatic
      by_cases hfin : cur.finalizer = true
      · rw [if_pos hfin]
        by_cases hd : cur.job.deletionTimestamp.isSome = true
        · rw [if_pos hd]; exact Or.inl (by frame_of hf)
        · rw [if_neg hd]
          refine Or.inr (Or.inl ⟨cur, hjs, hfin, by cases h : cur.job.deletionTimestamp <;> simp_all,
            ⟨by static_of hf, hf.pods, hf.podEvs, ?_, rfl, ?_, ?_⟩⟩)
          · show s0.rv + 1 = _; rw [hf.rv]
          · show some _ = some _; simp only [log, nowT, nowSec, hf.clock, hf.rv]
          · show s0.jobEvs ++ _ = _; rw [hf.jobEvs]; simp only [log, nowT, nowSec, hf.clock, hf.rv]
      · rw [if_neg hfin]
        refine Or.inr (Or.inr ⟨cur, hjs, by simpa using hfin,
          ⟨by static_of hf, hf.pods, hf.podEvs, ?_, rfl, ?_⟩⟩)
        · show s.rv ≤ s0.rv; rw [hf.rv]; exact Nat.le_refl _
        · rw [← hf.jobEvs]; exact ⟨_, rfl⟩

/-- the version a Job `Update` writes over `cur` -/
def specWrite (cur : JobObj) (new : JobObj) (rv : Nat) : JobObj :=
  { cur with
    job := { new.job with status := cur.job.status, deletionTimestamp := cur.job.deletionTimestamp },
    finalizer := new.finalizer, rv := rv }

/-- the version a Job `UpdateStatus` writes over `cur` -/
def statusWrite (cur : JobObj) (new : JobObj) (rv : Nat) : JobObj :=
  { cur with job := { cur.job with status := new.job.status }, rv := rv }

/-- the object an `Update` of the pass produced is brought to the computed Job by the status write
that follows it: it carries the computed metadata and the status of the cached Job -/
theorem JobLe.of_specWrite {jo : JobObj} {newJob : Job} {fin : Bool} (h : JobLe jo.job newJob) (r : Nat) :
    JobLe (specWrite jo { jo with job := newJob, finalizer := fin } r).job newJob :=
  ⟨rfl, rfl, rfl, rfl, h.del, id, h.startTime, h.names⟩

theorem apiUpdateJob_spec (s : Sys) (cached new : JobObj) :
    Frame s (apiUpdateJob s cached new).1 ∨
    (∃ cur, s.job = some cur ∧ cur.rv = cached.rv ∧
      ((JobWrite s (apiUpdateJob s cached new).1 (specWrite cur new (s.rv + 1)) ∧
          ¬ ((specWrite cur new (s.rv + 1)).job.deletionTimestamp.isSome = true ∧
             (specWrite cur new (s.rv + 1)).finalizer = false)) ∨
       (JobGone s (apiUpdateJob s cached new).1 ∧ cur.job.deletionTimestamp.isSome = true ∧
          new.finalizer = false))) := by
  unfold apiUpdateJob
  have hf := nextFault_frame s
  generalize nextFault s = r at hf
  obtain ⟨f, s0⟩ := r
  simp only at hf ⊢
  by_cases h1 : isFailFault f = true
  · rw [if_pos h1]; exact Or.inl (by frame_of hf)
  · rw [if_neg h1]
    cases hj : s0.job with
    | none => simp only; exact Or.inl (by frame_of hf)
    | some cur =>
      simp only
      have hjs : s.job = some cur := by rw [← hf.job]; exact hj
      by_cases hrv : cur.rv ≠ cached.rv
      · rw [if_pos hrv]; exact Or.inl (by frame_of hf)
      · rw [if_neg hrv]
        have hrv' : cur.rv = cached.rv := by simpa using hrv
        split
        · exact Or.inl (by frame_of hf)
        · split
          · rename_i hgone
            simp only [Bool.and_eq_true, Bool.not_eq_true'] at hgone
            refine Or.inr ⟨cur, hjs, hrv', Or.inr ⟨⟨by static_of hf, hf.pods, hf.podEvs, ?_, rfl, ?_⟩, hgone.1, hgone.2⟩⟩
            · show s.rv ≤ s0.rv + 1; rw [hf.rv]; exact Nat.le_succ _
            · rw [← hf.jobEvs]; exact ⟨_, rfl⟩
          · rename_i hgone
            refine Or.inr ⟨cur, hjs, hrv', Or.inl ⟨⟨by static_of hf, hf.pods, hf.podEvs, ?_, rfl, ?_, ?_⟩, ?_⟩⟩
            · show s0.rv + 1 = _; rw [hf.rv]
            · show some _ = some _; simp only [log, hf.rv, specWrite]
            · show s0.jobEvs ++ _ = _; rw [hf.jobEvs]; simp only [log, hf.rv, specWrite]
            · simpa [specWrite, log] using hgone

theorem apiUpdateJobStatus_spec (s : Sys) (cached new : JobObj) :
    Frame s (apiUpdateJobStatus s cached new).1 ∨
    (∃ cur, s.job = some cur ∧ cur.rv = cached.rv ∧
      JobWrite s (apiUpdateJobStatus s cached new).1 (statusWrite cur new (s.rv + 1))) := by
  unfold apiUpdateJobStatus
  have hf := nextFault_frame s
  generalize nextFault s = r at hf
  obtain ⟨f, s0⟩ := r
  simp only at hf ⊢
  by_cases h1 : isFailFault f = true
  · rw [if_pos h1]; exact Or.inl (by frame_of hf)
  · rw [if_neg h1]
    cases hj : s0.job with
    | none => simp only; exact Or.inl (by frame_of hf)
    | some cur =>
      simp only
      have hjs : s.job = some cur := by rw [← hf.job]; exact hj
      by_cases hrv : cur.rv ≠ cached.rv
      · rw [if_pos hrv]; exact Or.inl (by frame_of hf)
      · rw [if_neg hrv]
        have hrv' : cur.rv = cached.rv := by simpa using hrv
        split
        · exact Or.inl (by frame_of hf)
        · refine Or.inr ⟨cur, hjs, hrv', ⟨by static_of hf, hf.pods, hf.podEvs, ?_, rfl, ?_, ?_⟩⟩
          · show s0.rv + 1 = _; rw [hf.rv]
          · show some _ = some _; simp only [log, hf.rv, statusWrite]
          · show s0.jobEvs ++ _ = _; rw [hf.jobEvs]; simp only [log, hf.rv, statusWrite]

/-- the cached Job IS the stored one whenever their resourceVersions agree (in the state `s1` the
metadata write of the pass is issued in; follows from `Base.rvId`) -/
def CachedIsCur (jo : JobObj) (s1 : Sys) : Prop := ∀ c, s1.job = some c → c.rv = jo.rv → c = jo

/-- After a Job `Update` that returned without error (and the cached Job being the stored one if their
resourceVersions agree): the stored object, if it is still there, is the cached Job with the written
metadata, and the resourceVersion `Update` returned (`updatedRv`) is its own. -/
theorem apiUpdateJob_ok_cur {s1 : Sys} {jo new : JobObj} (hid : CachedIsCur jo s1)
    (hok : (apiUpdateJob s1 jo new).2 = true) :
    ∀ c, (apiUpdateJob s1 jo new).1.job = some c →
      c = specWrite jo new c.rv ∧ updatedRv (apiUpdateJob s1 jo new).1 jo = c.rv ∧ s1.job = some jo := by
  intro c hc
  have hu : updatedRv (apiUpdateJob s1 jo new).1 jo = c.rv := by unfold updatedRv; rw [hc]
  suffices h : c = specWrite jo new c.rv ∧ s1.job = some jo from ⟨h.1, hu, h.2⟩
  clear hu
  revert hok hc
  unfold apiUpdateJob
  have hf := nextFault_frame s1
  generalize nextFault s1 = r at hf
  obtain ⟨f, s0⟩ := r
  simp only at hf ⊢
  by_cases h1 : isFailFault f = true
  · rw [if_pos h1]; intro hok; cases hok
  · rw [if_neg h1]
    cases hj : s0.job with
    | none => simp only; intro hok; cases hok
    | some cur =>
      simp only
      have hjs : s1.job = some cur := by rw [← hf.job]; exact hj
      by_cases hrv : cur.rv ≠ jo.rv
      · rw [if_pos hrv]; intro hok; cases hok
      · rw [if_neg hrv]
        have hrv' : cur.rv = jo.rv := by simpa using hrv
        have hcur : cur = jo := hid cur hjs hrv'
        subst hcur
        split
        · rename_i hnoop
          intro _ hc
          simp only [log] at hc
          rw [hj] at hc
          cases hc
          refine ⟨?_, hjs⟩
          simp only [specWrite]
          exact hnoop.symm
        · split
          · intro _ hc; simp only [log] at hc; cases hc
          · intro _ hc
            simp only [log, Option.some.injEq] at hc
            subst hc
            refine ⟨?_, hjs⟩
            simp only [specWrite]

theorem apiCreatePod_createPhase {sp s : Sys} (hcp : CreatePhase sp s) (jo : JobObj) (idx : PIndex) (retry : Int) :
    CreatePhase sp (apiCreatePod s jo idx retry).1 := by
  rcases apiCreatePod_spec s jo idx retry with h | h
  · exact ⟨by rw [h.1.pods]; exact hcp.sup, h.1.job.trans hcp.job, by rw [h.1.podEvs, h.1.pods]; exact hcp.evs⟩
  · refine ⟨?_, h.1.job.trans hcp.job, ?_⟩
    · intro n hn
      rw [h.1.pods]; unfold podNames; rw [List.map_append]
      exact List.mem_append_left _ (hcp.sup n hn)
    · intro n hn
      rw [h.1.podEvs] at hn
      unfold podEvNames at hn
      rw [List.map_append] at hn
      rw [h.1.pods]
      rcases List.mem_append.mp hn with hn | hn
      · rcases hcp.evs n hn with h' | h'
        · exact Or.inl h'
        · right; unfold podNames; rw [List.map_append]; exact List.mem_append_left _ h'
      · simp only [List.map_cons, List.map_nil, List.mem_singleton] at hn
        right; unfold podNames; rw [List.map_append, hn]
        exact List.mem_append_right _ (by simp)

theorem JobWrite.toStatic {s s' : Sys} {nj : JobObj} (h : JobWrite s s' nj) : Static s s' := h.static

theorem Micro.static {jo : JobObj} {sp s s' : Sys} (h : Micro jo sp s s') : Static s s' := by
  cases h with
  | frame hf => exact hf.toStatic
  | create idx retry _ _ =>
    rcases apiCreatePod_spec s jo idx retry with h | h
    · exact h.1.toStatic
    · exact h.1.static
  | delPod name force =>
    rcases apiDeletePod_spec s name force with h | ⟨p, _, h, _⟩ | ⟨p, _, _, _, h⟩
    · exact h.toStatic
    · exact h.static
    · exact h.static
  | delJob =>
    rcases apiDeleteJob_spec s jo with h | ⟨c, _, _, _, h⟩ | ⟨c, _, _, h⟩
    · exact h.toStatic
    · exact h.static
    · exact h.static
  | updJob _ =>
    rcases apiUpdateJob_spec s jo { jo with job := (sync sp jo).2.1, finalizer := (sync sp jo).2.2.1 } with
      h | ⟨c, _, _, h | h⟩
    · exact h.toStatic
    · exact h.1.static
    · exact h.1.static
  | updStatus =>
    rcases apiUpdateJobStatus_spec s jo { jo with job := (sync sp jo).2.1 } with h | ⟨c, _, _, h⟩
    · exact h.toStatic
    · exact h.static
  | updStatusOn s1 _ _ _ =>
    rcases apiUpdateJobStatus_spec s { jo with rv := updatedRv s jo } { jo with job := (sync sp jo).2.1 } with
      h | ⟨c, _, _, h⟩
    · exact h.toStatic
    · exact h.static

theorem Micros.static {jo : JobObj} {sp s s' : Sys} (h : Micros jo sp s s') : Static s s' := by
  induction h with
  | refl => exact Static.refl _
  | tail _ hm ih => exact ih.trans hm.static

end Furiko.JobCtl
