/-
Liveness of the job controller, part 33: THE CONTROLLER HALF OF A ROUND UNDER ANY FAULT LIST
(`ctl_faulted`): from a `PState` with a ready key, whatever strings the adversary puts into the fault list
before the pass, the invariant holds after `setFaults fs ; work ; setFaults [] ; deliverAll`: the Job is
final, or still unfinished with the key armed; the server carries either exactly what the pass without
faults writes (`RefsStep`) or the status it had (a pod of the next attempt possibly created but not
recorded).  Core Lean only.
-/
import FurikoModel.Proofs.JobCtlLive32

set_option linter.unusedSimpArgs false
set_option linter.unusedVariables false

namespace Furiko.JobCtl.Live
open Furiko Furiko.JobCtl Furiko.WQ Furiko.StatusLemmas Furiko.JobCtlPlan Furiko.Conv Furiko.ParallelLemmas

/-- the controller half of a round under the fault list `fs` -/
def ctlF (fs : List String) (e : Sys) : Sys := deliverAll (dropFaults (work (withFaults e fs)).1)

theorem PassOut.of_faults {jo : JobObj} {e w : Sys} {fs : List String} {st : JobStatus} {created : List PodObj}
    (h : PassOut jo (withFaults e fs) w st created) : PassOut jo e w st created :=
  ⟨h.job, h.jsync, h.psync, h.pods, h.clock, h.d, h.cfg, h.faults, h.wf, h.wrote⟩

section
variable {ok : Sys → Action → Prop} {j0 jo : JobObj} {F0 : Int} {e : Sys}

theorem ctlF_steps (hok : ∀ s a, fairEnv s a → ok s a) (hokF : ∀ s fs, ok s (.setFaults fs)) (fs : List String) :
    Steps ok j0 e (dropFaults (work (withFaults e fs)).1) := by
  have h1 : Steps ok j0 e (withFaults e fs) := .step (.setFaults fs) (.refl e) (hokF _ _) trivial
  have h2 : Steps ok j0 e (work (withFaults e fs)).1 := .step .work h1 (hok _ _ trivial) trivial
  exact .step (.setFaults []) h2 (hokF _ _) trivial

/-- what `ctl_faulted` says about the server: exactly the fault-free pass's writes, or nothing written -/
def FaultOutcome (e : Sys) (jo jo' : JobObj) (W : Sys) : Prop :=
  RefsStep e jo jo' W ∨
  (jo'.job = jo.job ∧ (W.pods = e.pods ∨ W.pods = e.pods ++ [newPod jo e.d jo.job.status.tasks.length (nowT e)]))

/-- **the controller half of a round under any fault list** -/
theorem ctl_faulted (hok : ∀ s a, fairEnv s a → ok s a) (hokF : ∀ s fs, ok s (.setFaults fs))
    (h : PState ok j0 jo F0 e) (hr : Ready e) (hunf : jo.job.status.condition.finished = none)
    (hshape : ∀ r ∈ jo.job.status.tasks, Dead r ∨ LiveRef r)
    (hclockT : e.clock < F0 + getTTLAfterFinished jo.job e.cfg) (fs : List String) :
    ∃ jo', jo'.name = jo.name ∧ Canon ok j0 jo' F0 (ctlF fs e) ∧ (Busy jo' (ctlF fs e) ∨ Done jo' (ctlF fs e)) ∧
      (ctlF fs e).clock = e.clock ∧ jo'.job.ttlSecondsAfterFinished = jo.job.ttlSecondsAfterFinished ∧
      (ctlF fs e).cfg = e.cfg ∧ FaultOutcome e jo jo' (ctlF fs e) := by
  have hc := h.canon
  obtain ⟨hwf, hdel0, k, rest, hq⟩ := h.ready hr
  have hsteps := ctlF_steps (j0 := j0) (e := e) hok hokF fs
  have hq' : ((withFaults e fs).q.advance (withFaults e fs).clock).queue = k :: rest := hq
  obtain ⟨a1, a2, a3, a4, a5, a6, a7, a8⟩ := after_found h _ (gen_found h)
  -- the two ways a branch ends
  have finishU : ∀ (created : List PodObj),
      PassOut jo e (dropFaults (work (withFaults e fs)).1) jo.job.status created →
      (created = [] ∨ (created = [newPod jo e.d jo.job.status.tasks.length (nowT e)] ∧
        findPod e.pods (taskName jo.name e.d.hash jo.job.status.tasks.length) = none ∧
        (jo.job.status.tasks.length : Int) < jo.job.maxAttempts ∧ ∀ r ∈ jo.job.status.tasks, Dead r)) →
      (dropFaults (work (withFaults e fs)).1).q.delayed ≠ [] →
      ∃ jo', jo'.name = jo.name ∧ Canon ok j0 jo' F0 (ctlF fs e) ∧ (Busy jo' (ctlF fs e) ∨ Done jo' (ctlF fs e)) ∧
        (ctlF fs e).clock = e.clock ∧ jo'.job.ttlSecondsAfterFinished = jo.job.ttlSecondsAfterFinished ∧
        (ctlF fs e).cfg = e.cfg ∧ FaultOutcome e jo jo' (ctlF fs e) := by
    intro created hpo hcr hdl
    obtain ⟨jo', hn, hj, hcan, hbusy, hclk, hcfg, hpods⟩ := unwritten hok h _ hsteps hunf hshape created hpo hcr
      (harmed_of hpo (Or.inr hdl))
    refine ⟨jo', hn, hcan, Or.inl hbusy, hclk, by rw [hj], hcfg, Or.inr ⟨hj, ?_⟩⟩
    rcases hcr with e1 | ⟨e1, _⟩
    · left; show (deliverAll _).pods = _; rw [hpods, e1, List.append_nil]
    · right; show (deliverAll _).pods = _; rw [hpods, e1]
  by_cases hcomp : (getParallelTaskSummary e.d jo.job
      (generateTaskRefs e.clock jo.job.status.tasks (foundTasks e jo))).complete = true
  · -- complete: nothing to create
    obtain ⟨_, _, s3⟩ := simple_summary e.d jo.job _ hc.spec a6
    have hcomp' := s3.mp hcomp
    have hrec : ∀ p ∈ e.pods, p.pod.name ∈ refNames jo.job := by
      intro p hp
      rcases hc.unrec p hp with hx | ⟨_, hlt, hdead⟩
      · exact hx
      · exfalso
        obtain ⟨hd1, _⟩ := a7 hdead
        obtain ⟨b1, b2, _⟩ := allDead_facts hd1
        rcases hcomp' with hx | hx
        · exact b1 hx
        · rw [countP_terminal_of_allFin b2, a1] at hx; omega
    have hcreate : syncCreateTasks (spF e fs k rest) jo jo.job (foundTasks e jo) =
        (spF e fs k rest, some (jo.job, foundTasks e jo)) := by
      rw [syncCreateTasks_complete (spF e fs k rest) jo (foundTasks e jo) hc.spec hcomp]
      rw [adopt_none (spF e fs k rest) jo (foundTasks e jo) (by
        intro p hp
        have : p ∈ e.pods := by
          have : p ∈ e.podCache := hp
          rw [hc.fresh.podCache] at this; exact this
        exact hrec p this)]
    obtain ⟨st, hst, hpo, hne, _⟩ := pass_uniform_f h fs k rest hq' _ _ [] jo.job (foundTasks e jo) (CreateOutF.refl _)
      (TimersOnly.refl _ _) hcreate (Or.inl rfl) h.consistent.nodup
      (fun t ht => ⟨(h.found_facts t ht).1, (h.found_facts t ht).2.2⟩)
      (fun pt _ _ t ht => Or.inl (h.found_facts t ht).2.1) a6 a5 hclockT (by simp)
    by_cases hw : st = (recompute e.clock e.d jo.job (foundTasks e jo)).status
    · obtain ⟨jo', hn, hcan, hdone, hclk, httl, hcfg, hrs⟩ := core_complete hok h _ hsteps hcomp (hw ▸ hpo.of_faults)
      exact ⟨jo', hn, hcan, Or.inr hdone, hclk, httl, hcfg, Or.inl hrs⟩
    · have hst' : st = jo.job.status := by
        rcases hst with e1 | e1
        · exact absurd e1 hw
        · exact e1
      exact finishU [] (hst' ▸ hpo.of_faults) (Or.inl rfl) (hne hw)
  · have hc' : (getParallelTaskSummary e.d jo.job
        (generateTaskRefs e.clock jo.job.status.tasks (foundTasks e jo))).complete = false := by simpa using hcomp
    obtain ⟨hdeadL, hlt, hnfin⟩ := notcomplete_facts h hshape hc'
    by_cases hfound : jo.job.status.tasks.any refActiveOrSuccessful = true
    · -- a live attempt is recorded: refresh only
      obtain ⟨r0, hr0, hact⟩ := List.any_eq_true.mp hfound
      have hlive : LiveRef r0 := by
        rcases hshape r0 hr0 with hd | hl
        · rw [hd.not_activeOrSuccessful] at hact; cases hact
        · exact hl
      have hcreate : syncCreateTasks (spF e fs k rest) jo jo.job (foundTasks e jo) =
          ((updateTaskRefStatus (spF e fs k rest) (jobKey jo) jo.job (foundTasks e jo)).1,
            some (recompute e.clock e.d jo.job (foundTasks e jo), foundTasks e jo)) := by
        rw [syncCreateTasks_noreq (spF e fs k rest) jo (foundTasks e jo) hc.spec hc' (Or.inl hfound),
          updateTaskRefStatus_snd]
        rfl
      obtain ⟨st, hst, hpo, hne, _⟩ := pass_uniform_f h fs k rest hq' _ _ [] _ (foundTasks e jo) (CreateOutF.refl _)
        (updateTaskRefStatus_fst _ (jobKey jo) jo.job (foundTasks e jo)) hcreate (Or.inr rfl) h.consistent.nodup
        (fun t ht => ⟨(h.found_facts t ht).1, (h.found_facts t ht).2.2⟩)
        (fun pt _ _ t ht => Or.inl (h.found_facts t ht).2.1) a6 a5 hclockT (by simp)
      have hsame := recompute_sameSpec e.clock e.d jo.job (foundTasks e jo)
      have hdiff : (recompute e.clock e.d jo.job (foundTasks e jo)).status ≠ jo.job.status := by
        intro e1
        have : generateTaskRefs e.clock jo.job.status.tasks (foundTasks e jo) = jo.job.status.tasks := by
          rw [← hsame.2.1, e1]
        have := a4 r0 (by rw [this]; exact hr0)
        rw [hlive.unfin] at this; cases this
      by_cases hw : st = (recompute e.clock e.d jo.job (foundTasks e jo)).status
      · have hpo' : PassOut jo e (dropFaults (work (withFaults e fs)).1)
            (recompute e.clock e.d jo.job (foundTasks e jo)).status [] := hw ▸ hpo.of_faults
        obtain ⟨jo', hn, hcan, hbusy, hclk, httl, hcfg, hrs⟩ := core_refreshed hok h _ hsteps hshape hc' hpo'
          (harmed_of hpo' (Or.inl hdiff))
        exact ⟨jo', hn, hcan, Or.inl hbusy, hclk, httl, hcfg, Or.inl hrs⟩
      · have hst' : st = jo.job.status := by
          rcases hst with e1 | e1
          · exact absurd e1 hw
          · exact e1
        exact finishU [] (hst' ▸ hpo.of_faults) (Or.inl rfl) (hne hw)
    · have hf : jo.job.status.tasks.any refActiveOrSuccessful = false := by simpa using hfound
      have hdead := allDead_of_notfound hshape hf
      have hlt' : nextRetryIndex e.d jo.job.status.tasks e.d.hash < jo.job.maxAttempts := by rw [hc.nextRetry]; exact hlt
      have hm' : (theReq e.d jo.job).retryIndex = (jo.job.status.tasks.length : Int) := hc.nextRetry
      by_cases hduereq : DueReq e.clock (theReq e.d jo.job).earliest
      · cases htk : findPod e.pods (taskName jo.name e.d.hash jo.job.status.tasks.length) with
        | none =>
          -- the next attempt is to be created
          have hfreeF : findPod (spF e fs k rest).pods (taskName jo.name (spF e fs k rest).d.hash
              (theReq (spF e fs k rest).d jo.job).retryIndex) = none := by
            show findPod e.pods (taskName jo.name e.d.hash (theReq e.d jo.job).retryIndex) = none
            rw [hm']; exact htk
          have hunwrittenCreated : ∀ X, CreateOutF (spF e fs k rest) X [newPod jo e.d jo.job.status.tasks.length (nowT e)] →
              syncCreateTasks (spF e fs k rest) jo jo.job (foundTasks e jo) = (X, none) → _ := fun X hX hcreate =>
            finishU [newPod jo e.d jo.job.status.tasks.length (nowT e)]
              (pass_failed_f h fs k rest hq' X _ hX hcreate (applyPEv_fresh _ _ htk)).1.of_faults
              (Or.inr ⟨rfl, htk, hlt, hdead⟩)
              (pass_failed_f h fs k rest hq' X _ hX hcreate (applyPEv_fresh _ _ htk)).2
          have hcreatedEq : createdF (spF e fs k rest) jo (spF e fs k rest).d (theReq (spF e fs k rest).d jo.job).retryIndex =
              createdF (spF e fs k rest) jo e.d jo.job.status.tasks.length := by
            show createdF (spF e fs k rest) jo e.d (theReq e.d jo.job).retryIndex = _
            rw [hm']
          rcases apiCreatePod_cases (spF e fs k rest) jo (spF e fs k rest).d
              (theReq (spF e fs k rest).d jo.job).retryIndex hfreeF with ⟨c, hcr⟩ | hcr | hcr
          · -- not applied
            have hcreate := syncCreateTasks_failed (spF e fs k rest) _ jo (foundTasks e jo) hc.spec hc' hf hlt' hduereq hcr
            obtain ⟨hpo, hdl⟩ := pass_failed_f h fs k rest hq' _ [] (createOutF_notApplied _ c) hcreate (by simp)
            exact finishU [] hpo.of_faults (Or.inl rfl) hdl
          · -- applied, reported failed: the pod exists, unrecorded
            have hcreate := syncCreateTasks_failed (spF e fs k rest) _ jo (foundTasks e jo) hc.spec hc' hf hlt' hduereq hcr
            rw [hcreatedEq] at hcreate
            exact hunwrittenCreated _ (createOutF_created _ jo e.d _) hcreate
          · -- applied and reported: the pass goes on to record it
            have hcr' : apiCreatePod (spF e fs k rest) jo (spF e fs k rest).d (theReq (spF e fs k rest).d jo.job).retryIndex =
                (createdF (spF e fs k rest) jo e.d jo.job.status.tasks.length,
                  .ok (newPod jo (spF e fs k rest).d (theReq (spF e fs k rest).d jo.job).retryIndex (nowT (spF e fs k rest)))) := by
              rw [← hcreatedEq]; exact hcr
            have hcs := syncCreateTasks_created (spF e fs k rest) _ jo (foundTasks e jo) hc.spec hc' hf hlt' hduereq hcr'
            let nt : Task := newTask jo e.d jo.job.status.tasks.length (nowT e)
            have hcs' : syncCreateTasks (spF e fs k rest) jo jo.job (foundTasks e jo) =
                ((updateTaskRefStatus (armEarliest (createdF (spF e fs k rest) jo e.d jo.job.status.tasks.length) (jobKey jo)
                    (theReq e.d jo.job).earliest) (jobKey jo) jo.job (foundTasks e jo ++ [nt])).1,
                  some (recompute e.clock e.d jo.job (foundTasks e jo ++ [nt]), foundTasks e jo ++ [nt])) := by
              rw [hcs, updateTaskRefStatus_snd]
              have e1 : (theReq (spF e fs k rest).d jo.job).retryIndex = (jo.job.status.tasks.length : Int) := hm'
              rw [e1]
              have e2 := (armEarliest_timersOnly (createdF (spF e fs k rest) jo e.d jo.job.status.tasks.length) (jobKey jo)
                (theReq (spF e fs k rest).d jo.job).earliest).static
              rw [e2.1, e2.2.1]
              rfl
            have hntname : nt.name = taskName jo.name e.d.hash jo.job.status.tasks.length := rfl
            have hntfresh : nt.name ∉ refNames jo.job := hc.freshName
            have hntgood : TaskGood nt := ⟨rfl, (fun hx => by cases hx), (fun hx => by cases hx), rfl⟩
            have hntT : nt.name ∉ (foundTasks e jo).map (·.name) := by
              intro hm
              obtain ⟨t', ht', hn'⟩ := List.mem_map.mp hm
              obtain ⟨r, hr', hrt⟩ := List.mem_filterMap.mp ht'
              apply hntfresh
              rw [← hn', lookTask_name hrt]
              exact List.mem_map.mpr ⟨r, hr', rfl⟩
            have hperm := gen_snoc h nt hntgood.ok hntfresh
            have hxlive : LiveRef (getTaskRef none nt) := new_getTaskRef_unfinished hntgood rfl
            obtain ⟨b1, b2, b3, b4, b5, b6, b7⟩ := after_snoc h _ (getTaskRef none nt) hperm
              (by rw [(getTaskRef_fields none nt).2.2.1]; rfl)
              (by unfold TaskRef.hash TaskRef.index; rw [(getTaskRef_fields none nt).2.1]; rfl)
              (by intro f hf'; rw [hxlive.unfin] at hf'; cases hf')
            have hT1nd : ((foundTasks e jo ++ [nt]).map (·.name)).Nodup := by
              rw [List.map_append, List.nodup_append]
              refine ⟨h.consistent.nodup, by simp, ?_⟩
              intro a ha b hb
              simp only [List.map_cons, List.map_nil, List.mem_singleton] at hb
              subst hb
              intro e1; subst e1; exact hntT ha
            obtain ⟨st, hst, hpo, hne, _⟩ := pass_uniform_f h fs k rest hq' _ _
              [newPod jo e.d jo.job.status.tasks.length (nowT e)] _ (foundTasks e jo ++ [nt])
              (createOutF_created _ jo e.d _)
              ((armEarliest_timersOnly _ (jobKey jo) _).trans (updateTaskRefStatus_fst _ (jobKey jo) jo.job _))
              hcs' (Or.inr rfl) hT1nd
              (by
                intro t ht
                rcases List.mem_append.mp ht with ht | ht
                · exact ⟨(h.found_facts t ht).1, (h.found_facts t ht).2.2⟩
                · simp only [List.mem_singleton] at ht; subst ht; exact ⟨hntgood, rfl⟩)
              (by
                intro pt hpt hpos t ht
                rcases List.mem_append.mp ht with ht | ht
                · exact Or.inl (h.found_facts t ht).2.1
                · simp only [List.mem_singleton] at ht; subst ht
                  right; right; left
                  have h1 := pendingTimeout_ge _ _ _ hpt hpos
                  have h2 := nowT_gt e
                  show (some (nowT e)).getD zeroTime + pt > e.clock
                  simp only [Option.getD_some]
                  exact Int.lt_of_lt_of_le h2 (Int.add_le_add_left h1 _))
              b5 b4 hclockT (applyPEv_fresh _ _ htk)
            have hsame := recompute_sameSpec e.clock e.d jo.job (foundTasks e jo ++ [nt])
            have hdiff : (recompute e.clock e.d jo.job (foundTasks e jo ++ [nt])).status ≠ jo.job.status := by
              intro e1
              have : (generateTaskRefs e.clock jo.job.status.tasks (foundTasks e jo ++ [nt])).length =
                  jo.job.status.tasks.length := by rw [← hsame.2.1, e1]
              omega
            by_cases hw : st = (recompute e.clock e.d jo.job (foundTasks e jo ++ [nt])).status
            · have hpo' : PassOut jo e (dropFaults (work (withFaults e fs)).1)
                  (recompute e.clock e.d jo.job (foundTasks e jo ++ [nt])).status
                  [newPod jo e.d jo.job.status.tasks.length (nowT e)] := hw ▸ hpo.of_faults
              obtain ⟨jo', hn, hcan, hbusy, hclk, httl, hcfg, hrs⟩ := core_created hok h _ hsteps hshape hc' hf htk hpo'
                (harmed_of hpo' (Or.inl hdiff))
              exact ⟨jo', hn, hcan, Or.inl hbusy, hclk, httl, hcfg, Or.inl hrs⟩
            · have hst' : st = jo.job.status := by
                rcases hst with e1 | e1
                · exact absurd e1 hw
                · exact e1
              exact finishU _ (hst' ▸ hpo.of_faults) (Or.inr ⟨rfl, htk, hlt, hdead⟩) (hne hw)
        | some p =>
          -- the name is taken by an unrecorded task of the Job
          have hpm := findPod_some htk
          obtain ⟨t, ht⟩ := podTask_of_noPanic (hc.pods.sane p hpm.1).1
          have hlook : lookTask e (taskName jo.name e.d.hash jo.job.status.tasks.length) = some t := by
            unfold lookTask; rw [htk]; exact ht
          obtain ⟨tg, tfin, tdel, tlb, _⟩ := h.task_facts hlook
          have htname : t.name = taskName jo.name e.d.hash jo.job.status.tasks.length := lookTask_name hlook
          have htfresh : t.name ∉ refNames jo.job := by rw [htname]; exact hc.freshName
          have htakenF : findPod (spF e fs k rest).pods (taskName jo.name (spF e fs k rest).d.hash
              (theReq (spF e fs k rest).d jo.job).retryIndex) = some p := by
            show findPod e.pods (taskName jo.name e.d.hash (theReq e.d jo.job).retryIndex) = some p
            rw [hm']; exact htk
          rcases apiCreatePod_taken_cases (spF e fs k rest) jo (spF e fs k rest).d
              (theReq (spF e fs k rest).d jo.job).retryIndex p htakenF with ⟨c, hcr⟩ | ⟨c, hcr⟩
          · have hcreate := syncCreateTasks_failed (spF e fs k rest) _ jo (foundTasks e jo) hc.spec hc' hf hlt' hduereq hcr
            obtain ⟨hpo, hdl⟩ := pass_failed_f h fs k rest hq' _ [] (createOutF_notApplied _ c) hcreate (by simp)
            exact finishU [] hpo.of_faults (Or.inl rfl) hdl
          · have hfind : findPod (notApplied (spF e fs k rest) c).podCache
                (taskName jo.name (spF e fs k rest).d.hash (theReq (spF e fs k rest).d jo.job).retryIndex) = some p := by
              show findPod e.podCache (taskName jo.name e.d.hash (theReq e.d jo.job).retryIndex) = some p
              rw [hc.fresh.podCache, hm']; exact htk
            have hcs := syncCreateTasks_existing (spF e fs k rest) _ jo (foundTasks e jo) hc.spec hc' hf hlt' hduereq p t hcr
              hfind (hc.pods.owned p hpm.1).1 ht
            have hcs' : syncCreateTasks (spF e fs k rest) jo jo.job (foundTasks e jo) =
                ((updateTaskRefStatus (armEarliest (notApplied (spF e fs k rest) c) (jobKey jo)
                    (theReq e.d jo.job).earliest) (jobKey jo) jo.job (foundTasks e jo ++ [t])).1,
                  some (recompute e.clock e.d jo.job (foundTasks e jo ++ [t]), foundTasks e jo ++ [t])) := by
              rw [hcs, updateTaskRefStatus_snd]
              have e2 := (armEarliest_timersOnly (notApplied (spF e fs k rest) c) (jobKey jo)
                (theReq (spF e fs k rest).d jo.job).earliest).static
              rw [e2.1, e2.2.1]
              rfl
            have htT : t.name ∉ (foundTasks e jo).map (·.name) := by
              intro hm
              obtain ⟨t', ht', hn'⟩ := List.mem_map.mp hm
              obtain ⟨r, hr', hrt⟩ := List.mem_filterMap.mp ht'
              apply htfresh
              rw [← hn', lookTask_name hrt]
              exact List.mem_map.mpr ⟨r, hr', rfl⟩
            have hperm := gen_snoc h t tg.ok htfresh
            have hxr : (getTaskRef none t).retryIndex = (jo.job.status.tasks.length : Int) := by
              rw [(getTaskRef_fields none t).2.2.1, (podTask_index ht).2]
              obtain ⟨retry, hn, _, hri⟩ := hc.podName hpm.1
              rw [hri]
              rw [hpm.2] at hn
              exact ((taskName_inj hc.nodash hc.nodash hn).2).symm
            have hxh : (getTaskRef none t).hash e.d = e.d.hash := by
              unfold TaskRef.hash TaskRef.index
              rw [(getTaskRef_fields none t).2.1, (podTask_index ht).1]
              obtain ⟨_, _, hpi, _⟩ := hc.podName hpm.1
              rw [hpi]; rfl
            obtain ⟨b1, b2, b3, b4, b5, b6, b7⟩ := after_snoc h _ (getTaskRef none t) hperm hxr hxh
              (by intro f hf'; rw [(getTaskRef_none_fields t).2.1] at hf'; exact tlb f hf')
            have hT1nd : ((foundTasks e jo ++ [t]).map (·.name)).Nodup := by
              rw [List.map_append, List.nodup_append]
              refine ⟨h.consistent.nodup, by simp, ?_⟩
              intro a ha b hb
              simp only [List.map_cons, List.map_nil, List.mem_singleton] at hb
              subst hb
              intro e1; subst e1; exact htT ha
            obtain ⟨st, hst, hpo, hne, _⟩ := pass_uniform_f h fs k rest hq' _ _ [] _ (foundTasks e jo ++ [t])
              (createOutF_notApplied _ c)
              ((armEarliest_timersOnly _ (jobKey jo) _).trans (updateTaskRefStatus_fst _ (jobKey jo) jo.job _))
              hcs' (Or.inr rfl) hT1nd
              (by
                intro t' ht'
                rcases List.mem_append.mp ht' with ht' | ht'
                · exact ⟨(h.found_facts t' ht').1, (h.found_facts t' ht').2.2⟩
                · simp only [List.mem_singleton] at ht'; subst ht'; exact ⟨tg, tdel⟩)
              (by
                intro pt _ _ t' ht'
                rcases List.mem_append.mp ht' with ht' | ht'
                · exact Or.inl (h.found_facts t' ht').2.1
                · simp only [List.mem_singleton] at ht'; subst ht'; exact Or.inl tfin)
              b5 b4 hclockT (by simp)
            have hsame := recompute_sameSpec e.clock e.d jo.job (foundTasks e jo ++ [t])
            have hdiff : (recompute e.clock e.d jo.job (foundTasks e jo ++ [t])).status ≠ jo.job.status := by
              intro e1
              have : (generateTaskRefs e.clock jo.job.status.tasks (foundTasks e jo ++ [t])).length =
                  jo.job.status.tasks.length := by rw [← hsame.2.1, e1]
              omega
            by_cases hw : st = (recompute e.clock e.d jo.job (foundTasks e jo ++ [t])).status
            · have hpo' : PassOut jo e (dropFaults (work (withFaults e fs)).1)
                  (recompute e.clock e.d jo.job (foundTasks e jo ++ [t])).status [] := hw ▸ hpo.of_faults
              obtain ⟨jo', hn, hcan, hres, hclk, httl, hcfg, hrs⟩ := core_adopted hok h _ hsteps hshape hc' hf p t htk ht hpo'
                (harmed_of hpo' (Or.inl hdiff))
              exact ⟨jo', hn, hcan, hres, hclk, httl, hcfg, Or.inl hrs⟩
            · have hst' : st = jo.job.status := by
                rcases hst with e1 | e1
                · exact absurd e1 hw
                · exact e1
              exact finishU [] (hst' ▸ hpo.of_faults) (Or.inl rfl) (hne hw)
      · -- the request is not due: the retry timer is armed
        have hcreate : syncCreateTasks (spF e fs k rest) jo jo.job (foundTasks e jo) =
            ((updateTaskRefStatus (enqueueAfter (spF e fs k rest) (jobKey jo) (theReq e.d jo.job).earliest) (jobKey jo)
                jo.job (foundTasks e jo)).1,
              some (recompute e.clock e.d jo.job (foundTasks e jo), foundTasks e jo)) := by
          rw [syncCreateTasks_notdue (spF e fs k rest) jo (foundTasks e jo) hc.spec hc' hf hlt' hduereq, updateTaskRefStatus_snd]
          rfl
        obtain ⟨st, hst, hpo, hne, htm⟩ := pass_uniform_f h fs k rest hq' _ _ [] _ (foundTasks e jo) (CreateOutF.refl _)
          ((enqueueAfter_timersOnly _ (jobKey jo) _).trans (updateTaskRefStatus_fst _ (jobKey jo) jo.job (foundTasks e jo)))
          hcreate (Or.inr rfl) h.consistent.nodup
          (fun t ht => ⟨(h.found_facts t ht).1, (h.found_facts t ht).2.2⟩)
          (fun pt _ _ t ht => Or.inl (h.found_facts t ht).2.1) a6 a5 hclockT (by simp)
        -- the timer survives
        have hdl : (dropFaults (work (withFaults e fs)).1).q.delayed ≠ [] := by
          apply htm
          have hto := updateTaskRefStatus_fst (enqueueAfter (spF e fs k rest) (jobKey jo) (theReq e.d jo.job).earliest)
            (jobKey jo) jo.job (foundTasks e jo)
          obtain ⟨qq, hs'eq, _, _, _, _, _, tq6⟩ := hto
          obtain ⟨dl, hm, _⟩ := setDelayed_self (spF e fs k rest).q.delayed (jobKey jo)
            (if (theReq e.d jo.job).earliest < (spF e fs k rest).clock + 1000000000 then (spF e fs k rest).clock + 1000000000
             else (theReq e.d jo.job).earliest)
          obtain ⟨x', hx', _⟩ := tq6 (jobKey jo, dl) hm
          rw [hs'eq]
          intro hnil
          rw [hnil] at hx'; cases hx'
        by_cases hw : st = (recompute e.clock e.d jo.job (foundTasks e jo)).status
        · have hpo' : PassOut jo e (dropFaults (work (withFaults e fs)).1)
              (recompute e.clock e.d jo.job (foundTasks e jo)).status [] := hw ▸ hpo.of_faults
          obtain ⟨jo', hn, hcan, hbusy, hclk, httl, hcfg, hrs⟩ := core_refreshed hok h _ hsteps hshape hc' hpo'
            (harmed_of hpo' (Or.inr hdl))
          exact ⟨jo', hn, hcan, Or.inl hbusy, hclk, httl, hcfg, Or.inl hrs⟩
        · have hst' : st = jo.job.status := by
            rcases hst with e1 | e1
            · exact absurd e1 hw
            · exact e1
          exact finishU [] (hst' ▸ hpo.of_faults) (Or.inl rfl) (hne hw)

end

end Furiko.JobCtl.Live
