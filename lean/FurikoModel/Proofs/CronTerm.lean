/-
Termination of the pop loop (every Pop uses the tick's `now`): a potential that strictly decreases with every
pop.  `keyPot` of a key is the number of pops it can still cause (its number of due times for a
well-formed key, 1 for a due key that will be dropped).
-/
import FurikoModel.Proofs.CronKey

namespace Furiko.Cron
open Furiko

/-- names stored in the heap array -/
def heapKeys (pq : Heap.PQ) : List String := pq.queue.toList.map (fun it => it.name)

/-- (extra heap fact, proved here from the definitions of `Heap.Inv` and `Heap.search`)
every key with an entry is the name of an array element -/
theorem heap_extra_keys_cover {pq : Heap.PQ} (h : Heap.Inv pq) {k : String} {p : Int}
    (hk : Heap.search pq k = some p) : k ∈ heapKeys pq := by
  unfold Heap.search Heap.PQ.search at hk
  cases hn : pq.names k with
  | none => simp [hn] at hk
  | some idx =>
    obtain ⟨hlt, hname⟩ := h.1.2 k idx hn
    unfold heapKeys
    refine List.mem_map.2 ⟨pq.queue[idx], ?_, hname⟩
    exact Array.mem_toList_iff.2 (Array.getElem_mem hlt)

/-- number of pops key `k` can still cause in this tick, given its entry -/
def keyPot (lister : List (String × JC)) (nowS : Int) (k : String) (ent : Option Int) : Nat :=
  match ent with
  | none => 0
  | some t =>
    match lookup lister k with
    | some jc =>
      if jc.sched.enabled && !jc.sched.parseErr then (dueList jc.nextAfter nowS t).length
      else if t ≤ nowS then 1 else 0
    | none => if t ≤ nowS then 1 else 0

def totalPot (lister : List (String × JC)) (nowS : Int) (ks : List String) (heap : Heap.PQ) :
    Nat :=
  (ks.map (fun k => keyPot lister nowS k (Heap.search heap k))).sum

theorem sum_map_lt {α : Type} (f g : α → Nat) :
    ∀ (ks : List α), (∀ k ∈ ks, f k ≤ g k) → (∃ k ∈ ks, f k < g k) →
      (ks.map f).sum < (ks.map g).sum := by
  intro ks
  induction ks with
  | nil => intro _ h; obtain ⟨k, hk, _⟩ := h; cases hk
  | cons a t ih =>
    intro hle hlt
    simp only [List.map_cons, List.sum_cons]
    have hle' : (t.map f).sum ≤ (t.map g).sum := by
      clear ih hlt
      induction t with
      | nil => simp
      | cons b t iht =>
        simp only [List.map_cons, List.sum_cons]
        have h1 := hle b (by simp)
        have h2 := iht (fun k hk => hle k (by
          rcases List.mem_cons.1 hk with rfl | hk
          · simp
          · simp [hk]))
        omega
    obtain ⟨k, hk, hklt⟩ := hlt
    rcases List.mem_cons.1 hk with rfl | hk
    · omega
    · have := ih (fun k hk => hle k (List.mem_cons_of_mem _ hk)) ⟨k, hk, hklt⟩
      have := hle a (by simp)
      omega

/-- the popped key's potential strictly decreases -/
theorem keyPot_kstep_lt {lister : List (String × JC)} (hL : ListerOK lister) (nowS cap : Int)
    (k : String) (ts : Int) (hts : ts ≤ nowS) (s : KState) :
    keyPot lister nowS k (kstep (lookup lister k) nowS cap ts s).ent
      < keyPot lister nowS k (some ts) := by
  unfold kstep
  cases hlk : lookup lister k with
  | none => simp [keyPot, hlk, hts]
  | some jc =>
    have hsp := JC.nextAfter_spec (lookup_ok hL hlk).2
    by_cases hact : (jc.sched.enabled && !jc.sched.parseErr) = true
    · have hbe : ∀ x, bumpEnt jc x = jc.nextAfter x := fun x => by simp [bumpEnt, hact]
      have hpot : ∀ ent, keyPot lister nowS k ent = (rem jc.nextAfter nowS ent).length := by
        intro ent
        cases ent with
        | none => rfl
        | some t => simp [keyPot, hlk, hact, rem]
      simp only [hpot, hbe]
      have hcur : rem jc.nextAfter nowS (some ts) = ts :: rem jc.nextAfter nowS (jc.nextAfter ts) :=
        dueList_of_le hsp hts
      rw [hcur]
      by_cases hcap : (s.cnt : Int) ≥ cap
      · simp only [hcap, if_true]
        rw [rem_eq_nil_of_gt _ _ _ (fun t ht => ((hsp nowS).1 t ht).1)]
        simp
      · simp only [hcap, if_false]
        simp
    · have hbe : ∀ x, bumpEnt jc x = none := fun x => by simp [bumpEnt, hact]
      have : keyPot lister nowS k (some ts) = 1 := by simp [keyPot, hlk, hact, hts]
      rw [this]
      by_cases hcap : (s.cnt : Int) ≥ cap
      · simp [hcap, hbe, keyPot]
      · simp [hcap, hbe, keyPot]

/-- the pop loop exits by itself as soon as the fuel exceeds the potential -/
theorem workLoop_terminates {lister : List (String × JC)} {now : Int} {cap : Int}
    (hL : ListerOK lister) (ks : List String) :
    ∀ (fuel : Nat) (heap : Heap.PQ) (counts : List (String × Nat))
      (acc : List (String × Int)),
      Heap.Inv heap → (∀ k p, Heap.search heap k = some p → k ∈ ks) →
      totalPot lister (floorSec now) ks heap < fuel →
      (workLoop lister now cap fuel heap counts acc).2.2 = true := by
  intro fuel
  induction fuel with
  | zero => intro _ _ _ _ _ h; omega
  | succ fuel ih =>
    intro heap counts acc hInv hcov hpot
    unfold workLoop
    cases hpop : schedPop heap now with
    | none => rfl
    | some r =>
      obtain ⟨h1, key, ts⟩ := r
      obtain ⟨hsk, hts, _, hInv1, hs1⟩ := schedPop_some hInv hpop
      have hpopped : Heap.search h1 key = none := by rw [hs1]; simp
      have hts' : ts ≤ floorSec now := (le_floorSec_iff _ _).2 hts
      have hv := syncOne_view hInv1 hL now key ts counts cap hpopped
        (view heap counts acc.reverse key) rfl acc.reverse rfl
      have hent : ∀ k, Heap.search (syncOne h1 lister now key ts counts cap).1 k
          = if k = key then (kstep (lookup lister key) (floorSec now) cap ts
              (view heap counts acc.reverse key)).ent
            else Heap.search heap k := by
        intro k
        have := congrArg KState.ent (hv.2 k)
        by_cases hk : k = key
        · simpa [view, hk] using this
        · simpa [view, hk, hs1] using this
      simp only []
      apply ih
      · exact hv.1
      · intro k p hk
        rw [hent k] at hk
        by_cases hkk : k = key
        · subst hkk; exact hcov k ts hsk
        · rw [if_neg hkk] at hk; exact hcov k p hk
      · have hlt : totalPot lister (floorSec now) ks (syncOne h1 lister now key ts counts cap).1
            < totalPot lister (floorSec now) ks heap := by
          unfold totalPot
          apply sum_map_lt
          · intro k _
            rw [hent k]
            by_cases hkk : k = key
            · subst hkk
              rw [if_pos rfl, hsk]
              exact Nat.le_of_lt (keyPot_kstep_lt hL _ cap k ts hts' _)
            · rw [if_neg hkk]; exact Nat.le_refl _
          · refine ⟨key, hcov key ts hsk, ?_⟩
            rw [hent key, if_pos rfl, hsk]
            exact keyPot_kstep_lt hL _ cap key ts hts' _
        omega

end Furiko.Cron
