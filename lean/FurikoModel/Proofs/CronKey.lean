/-
Per-key invariants of the pop loop and the per-key tick theorem (`work_key_stream_lemma`).
-/
import FurikoModel.Proofs.CronTick
import FurikoModel.Proofs.CronDue

namespace Furiko.Cron
open Furiko

theorem take_drop_step {α : Type} : ∀ (L : List α) (n : Nat) (t : α) (b : List α),
    L.drop n = t :: b → L.take (n + 1) = L.take n ++ [t] ∧ L.drop (n + 1) = b ∧ n < L.length := by
  intro L
  induction L with
  | nil => intro n t b h; simp at h
  | cons a L ih =>
    intro n t b h
    cases n with
    | zero =>
      simp only [List.drop_zero, List.cons.injEq] at h
      obtain ⟨rfl, rfl⟩ := h
      simp
    | succ n =>
      simp only [List.drop_succ_cons] at h
      have := ih n t b h
      simp only [List.take_succ_cons, List.drop_succ_cons, List.length_cons, List.cons_append]
      exact ⟨by rw [this.1], this.2.1, by omega⟩

/-- Invariant of a well-formed key during a tick.  `L` is the full due list of the key's
initial entry `e0`; either the key is still walking through `L` (first disjunct), or the cap
was hit and the key has been re-based to `nx nowS` (second disjunct). -/
def OKInv (nx : Int → Option Int) (nowS : Int) (c : Nat) (e0 : Int) (s : KState) : Prop :=
  (s.cnt ≤ c ∧ s.cnt ≤ (dueList nx nowS e0).length ∧ s.out = (dueList nx nowS e0).take s.cnt ∧
     (dueList nx nowS e0).drop s.cnt = rem nx nowS s.ent ∧
     s.ent = (match s.out.getLast? with | none => some e0 | some lf => nx lf))
  ∨ (s.cnt = c ∧ s.out = (dueList nx nowS e0).take c ∧ c < (dueList nx nowS e0).length ∧
     s.ent = nx nowS)

theorem OKInv_init (nx : Int → Option Int) (nowS : Int) (c : Nat) (e0 : Int) :
    OKInv nx nowS c e0 ⟨some e0, 0, []⟩ := by
  left
  simp [rem]

theorem OKInv_step {M : Int → Prop} {nx : Int → Option Int} (h : NextSpec M nx)
    {nowS : Int} {c : Nat} {e0 : Int} {s : KState} {ts : Int} (cap : Int) (hc : c = cap.toNat)
    (hI : OKInv nx nowS c e0 s) (he : s.ent = some ts) (hts : ts ≤ nowS) :
    OKInv nx nowS c e0
      (if (s.cnt : Int) ≥ cap then ⟨nx nowS, s.cnt, s.out⟩
       else ⟨nx ts, s.cnt + 1, s.out ++ [ts]⟩) := by
  rcases hI with ⟨h1, h2, h3, h4, _⟩ | ⟨_, _, _, h4⟩
  · rw [he] at h4
    simp only [rem] at h4
    rw [dueList_of_le h hts] at h4
    obtain ⟨ht, hd, hlt⟩ := take_drop_step _ _ _ _ h4
    by_cases hcap : (s.cnt : Int) ≥ cap
    · simp only [hcap, if_true]
      right
      have : s.cnt = c := by omega
      refine ⟨this, by rw [← this]; exact h3, by omega, rfl⟩
    · simp only [hcap, if_false]
      left
      show s.cnt + 1 ≤ c ∧ s.cnt + 1 ≤ (dueList nx nowS e0).length ∧
        s.out ++ [ts] = (dueList nx nowS e0).take (s.cnt + 1) ∧
        (dueList nx nowS e0).drop (s.cnt + 1) = rem nx nowS (nx ts) ∧
        nx ts = (match (s.out ++ [ts]).getLast? with | none => some e0 | some lf => nx lf)
      refine ⟨by omega, by omega, ?_, hd, by simp⟩
      rw [ht, h3]
  · exfalso
    rw [he] at h4
    have := ((h nowS).1 ts h4.symm).1
    omega

theorem OKInv_final {nx : Int → Option Int} {nowS : Int} {c : Nat} {e0 : Int} {s : KState}
    (hI : OKInv nx nowS c e0 s) (hgt : ∀ t, s.ent = some t → nowS < t) :
    s.out = (dueList nx nowS e0).take c ∧
    ((dueList nx nowS e0).length ≤ c →
      s.ent = (match (dueList nx nowS e0).getLast? with | none => some e0 | some lf => nx lf)) ∧
    (c < (dueList nx nowS e0).length → s.ent = nx nowS) := by
  rcases hI with ⟨h1, h2, h3, h4, h5⟩ | ⟨h1, h2, h3, h4⟩
  · rw [rem_eq_nil_of_gt nx nowS s.ent hgt] at h4
    have hlen : (dueList nx nowS e0).length ≤ s.cnt := List.drop_eq_nil_iff.1 h4
    have hout : s.out = dueList nx nowS e0 := by rw [h3]; exact List.take_of_length_le hlen
    refine ⟨?_, fun _ => ?_, fun hlt => by omega⟩
    · rw [hout]; exact (List.take_of_length_le (by omega)).symm
    · rw [← hout]; exact h5
  · exact ⟨h2, fun hle => by omega, fun _ => h4⟩

/-! ### the per-key tick theorem -/

theorem work_eq (w : Worker) (now : Int) (cap : Int) (flushLimit fuel : Nat)
    (hchan : w.chan = []) :
    work w now cap flushLimit fuel =
      ({ w with heap := (workLoop w.lister now cap fuel w.heap [] []).1, chan := [] },
       (workLoop w.lister now cap fuel w.heap [] []).2.1,
       (workLoop w.lister now cap fuel w.heap [] []).2.2) := by
  unfold work
  rw [hchan, refresh_nil]

/-- generic: per-key invariants over a whole tick with an empty channel -/
theorem work_keywise {w : Worker} {now : Int} {cap : Int} (flushLimit fuel : Nat)
    (hInv : Heap.Inv w.heap) (hL : ListerOK w.lister) (hchan : w.chan = [])
    (P : String → KState → Prop)
    (hP : ∀ k s ts, P k s → s.ent = some ts → ts ≤ floorSec now →
      P k (kstep (lookup w.lister k) (floorSec now) cap ts s))
    (h0 : ∀ k, P k ⟨Heap.search w.heap k, 0, []⟩) :
    Heap.Inv (work w now cap flushLimit fuel).1.heap ∧
    (work w now cap flushLimit fuel).1.lister = w.lister ∧
    (work w now cap flushLimit fuel).1.chan = [] ∧
    (∃ counts', ∀ k, P k (view (work w now cap flushLimit fuel).1.heap counts'
        (work w now cap flushLimit fuel).2.1 k)) ∧
    ((work w now cap flushLimit fuel).2.2 = true →
      ∀ k p, Heap.search (work w now cap flushLimit fuel).1.heap k = some p →
        floorSec now < p) := by
  rw [work_eq w now cap flushLimit fuel hchan]
  have := workLoop_keywise hL P hP fuel w.heap [] [] hInv (by
    intro k; simpa [view, getCount, outk] using h0 k)
  exact ⟨this.1, rfl, rfl, this.2.1, this.2.2⟩

/-- A key whose lister entry is enabled and parses. -/
def JC.Active (jc : JC) : Prop := jc.sched.enabled = true ∧ jc.sched.parseErr = false

theorem bumpEnt_active {jc : JC} (h : jc.Active) (s : Int) : bumpEnt jc s = jc.nextAfter s := by
  simp [bumpEnt, h.1, h.2]

/-- The per-key tick theorem in terms of `dueList`. -/
theorem work_key_stream_lemma {w : Worker} {now : Int} {cap : Int} (flushLimit fuel : Nat)
    (hInv : Heap.Inv w.heap) (hL : ListerOK w.lister) (hchan : w.chan = [])
    (hdone : (work w now cap flushLimit fuel).2.2 = true)
    {k : String} {jc : JC} (hlk : lookup w.lister k = some jc) (hact : jc.Active)
    {e : Int} (he : Heap.search w.heap k = some e) :
    outk (work w now cap flushLimit fuel).2.1 k
      = (dueList jc.nextAfter (floorSec now) e).take cap.toNat ∧
    ((dueList jc.nextAfter (floorSec now) e).length ≤ cap.toNat →
      Heap.search (work w now cap flushLimit fuel).1.heap k
        = (match (dueList jc.nextAfter (floorSec now) e).getLast? with
           | none => some e
           | some lf => jc.nextAfter lf)) ∧
    (cap.toNat < (dueList jc.nextAfter (floorSec now) e).length →
      Heap.search (work w now cap flushLimit fuel).1.heap k
        = jc.nextAfter (floorSec now)) := by
  have hsp := JC.nextAfter_spec (lookup_ok hL hlk).2
  have := work_keywise (w := w) (now := now) (cap := cap) flushLimit fuel hInv hL hchan
    (fun k' s => k' = k → OKInv jc.nextAfter (floorSec now) cap.toNat e s)
    (by
      intro k' s ts hP hent hts hk'
      subst hk'
      have hI := hP rfl
      have := OKInv_step hsp cap rfl hI hent hts
      simp only [kstep, hlk, bumpEnt_active hact]
      by_cases hcap : (s.cnt : Int) ≥ cap
      · simpa [hcap] using this
      · simpa [hcap] using this)
    (by
      intro k' hk'
      subst hk'
      rw [he]; exact OKInv_init _ _ _ _)
  obtain ⟨_, _, _, ⟨counts', hP⟩, hgt⟩ := this
  have hfin := OKInv_final (hP k rfl) (fun t ht => hgt hdone k t ht)
  exact hfin

/-- after a tick in which something was due for the key, the key's new entry is the answer of
`Next` at `nowS` — whether or not the cap was hit -/
theorem nextAfter_last_eq_now {jc : JC} (hs : jc.SortedOK) (nowS e lf : Int)
    (hl : (dueList jc.nextAfter nowS e).getLast? = some lf) :
    jc.nextAfter lf = jc.nextAfter nowS := by
  have hsp := JC.nextAfter_spec hs
  obtain ⟨_, h2, _, h4⟩ := dueList_getLast_max hsp nowS e lf hl
  refine NextAt.unique (M := jc.M') (s := nowS) ?_ (hsp nowS)
  have a := hsp lf
  refine ⟨fun m hm => ?_, fun hn u hu => ?_⟩
  · have b := a.1 m hm
    exact ⟨h4 m b.2.1 b.1, b.2.1, fun u hu hsu => b.2.2 u hu (by omega)⟩
  · have := a.2 hn u hu; omega

/-- entry after a tick in which the key's entry had arrived: `Next(now)` -/
theorem work_key_entry_due {w : Worker} {now : Int} {cap : Int} (flushLimit fuel : Nat)
    (hInv : Heap.Inv w.heap) (hL : ListerOK w.lister) (hchan : w.chan = [])
    (hdone : (work w now cap flushLimit fuel).2.2 = true)
    {k : String} {jc : JC} (hlk : lookup w.lister k = some jc) (hact : jc.Active)
    {e : Int} (he : Heap.search w.heap k = some e) (hdue : e ≤ floorSec now) :
    Heap.search (work w now cap flushLimit fuel).1.heap k
      = jc.nextAfter (floorSec now) := by
  have hs := (lookup_ok hL hlk).2
  have hsp := JC.nextAfter_spec hs
  obtain ⟨_, h2, h3⟩ := work_key_stream_lemma flushLimit fuel hInv hL hchan hdone hlk hact he
  by_cases hle : (dueList jc.nextAfter (floorSec now) e).length ≤ cap.toNat
  · rw [h2 hle]
    cases hl : (dueList jc.nextAfter (floorSec now) e).getLast? with
    | none =>
      have := List.getLast?_eq_none_iff.1 hl
      rw [dueList_of_le hsp hdue] at this; cases this
    | some lf => exact nextAfter_last_eq_now hs _ _ _ hl
  · exact h3 (by omega)

/-- entry after a tick in which the key's entry had not arrived: unchanged -/
theorem work_key_entry_not_due {w : Worker} {now : Int} {cap : Int} (flushLimit fuel : Nat)
    (hInv : Heap.Inv w.heap) (hL : ListerOK w.lister) (hchan : w.chan = [])
    (hdone : (work w now cap flushLimit fuel).2.2 = true)
    {k : String} {jc : JC} (hlk : lookup w.lister k = some jc) (hact : jc.Active)
    {e : Int} (he : Heap.search w.heap k = some e) (hdue : floorSec now < e) :
    Heap.search (work w now cap flushLimit fuel).1.heap k = some e := by
  obtain ⟨_, h2, _⟩ := work_key_stream_lemma flushLimit fuel hInv hL hchan hdone hlk hact he
  have hnil := dueList_of_gt jc.nextAfter hdue
  rw [hnil] at h2
  exact h2 (Nat.zero_le _)

theorem work_inv {w : Worker} {now : Int} {cap : Int} (flushLimit fuel : Nat)
    (hInv : Heap.Inv w.heap) (hL : ListerOK w.lister) (hchan : w.chan = []) :
    Heap.Inv (work w now cap flushLimit fuel).1.heap ∧
    (work w now cap flushLimit fuel).1.lister = w.lister ∧
    (work w now cap flushLimit fuel).1.chan = [] := by
  have := work_keywise (w := w) (now := now) (cap := cap) flushLimit fuel hInv hL hchan
    (fun _ _ => True) (fun _ _ _ _ _ _ => trivial) (fun _ => trivial)
  exact ⟨this.1, this.2.1, this.2.2.1⟩

/-! ### other kinds of keys -/

/-- key not in the heap: nothing fired, still not in the heap -/
theorem work_key_absent {w : Worker} {now : Int} {cap : Int} (flushLimit fuel : Nat)
    (hInv : Heap.Inv w.heap) (hL : ListerOK w.lister) (hchan : w.chan = [])
    {k : String} (he : Heap.search w.heap k = none) :
    outk (work w now cap flushLimit fuel).2.1 k = [] ∧
    Heap.search (work w now cap flushLimit fuel).1.heap k = none := by
  have := work_keywise (w := w) (now := now) (cap := cap) flushLimit fuel hInv hL hchan
    (fun k' s => k' = k → s.ent = none ∧ s.out = [])
    (by
      intro k' s ts hP hent _ hk'
      have := (hP hk').1
      rw [this] at hent; cases hent)
    (by intro k' hk'; subst hk'; exact ⟨he, rfl⟩)
  obtain ⟨_, _, _, ⟨counts', hP⟩, _⟩ := this
  have := hP k rfl
  exact ⟨this.2, this.1⟩

/-- key in the heap without a lister entry: dropped unfired once it has arrived -/
theorem work_key_missing {w : Worker} {now : Int} {cap : Int} (flushLimit fuel : Nat)
    (hInv : Heap.Inv w.heap) (hL : ListerOK w.lister) (hchan : w.chan = [])
    (hdone : (work w now cap flushLimit fuel).2.2 = true)
    {k : String} (hlk : lookup w.lister k = none) {e : Int}
    (he : Heap.search w.heap k = some e) :
    outk (work w now cap flushLimit fuel).2.1 k = [] ∧
    Heap.search (work w now cap flushLimit fuel).1.heap k
      = if e ≤ floorSec now then none else some e := by
  have := work_keywise (w := w) (now := now) (cap := cap) flushLimit fuel hInv hL hchan
    (fun k' s => k' = k → s.out = [] ∧ (s.ent = some e ∨ (s.ent = none ∧ e ≤ floorSec now)))
    (by
      intro k' s ts hP hent hts hk'
      subst hk'
      have hI := hP rfl
      have hk : kstep (lookup w.lister k') (floorSec now) cap ts s = ⟨none, s.cnt, s.out⟩ := by
        rw [hlk]; rfl
      rw [hk]
      refine ⟨hI.1, Or.inr ⟨rfl, ?_⟩⟩
      rcases hI.2 with h | h
      · rw [h] at hent; cases hent; exact hts
      · exact h.2)
    (by intro k' hk'; subst hk'; exact ⟨rfl, Or.inl he⟩)
  obtain ⟨_, _, _, ⟨counts', hP⟩, hgt⟩ := this
  have hI := hP k rfl
  refine ⟨hI.1, ?_⟩
  rcases hI.2 with h | h
  · have := hgt hdone k e h
    simp only [view] at h
    rw [h, if_neg (by omega)]
  · simp only [view] at h
    rw [h.1, if_pos h.2]

/-- key whose lister entry is disabled or does not parse: the model still requests the popped
time once (cap permitting) and drops the key. -/
theorem work_key_inactive {w : Worker} {now : Int} {cap : Int} (flushLimit fuel : Nat)
    (hInv : Heap.Inv w.heap) (hL : ListerOK w.lister) (hchan : w.chan = [])
    (hdone : (work w now cap flushLimit fuel).2.2 = true)
    {k : String} {jc : JC} (hlk : lookup w.lister k = some jc) (hact : ¬ jc.Active) {e : Int}
    (he : Heap.search w.heap k = some e) :
    outk (work w now cap flushLimit fuel).2.1 k
      = (if e ≤ floorSec now ∧ 0 < cap then [e] else []) ∧
    Heap.search (work w now cap flushLimit fuel).1.heap k
      = if e ≤ floorSec now then none else some e := by
  have hbe : ∀ s, bumpEnt jc s = none := by
    intro s
    unfold bumpEnt
    unfold JC.Active at hact
    cases h1 : jc.sched.enabled <;> cases h2 : jc.sched.parseErr <;> simp_all
  have := work_keywise (w := w) (now := now) (cap := cap) flushLimit fuel hInv hL hchan
    (fun k' s => k' = k → (s.ent = some e ∧ s.out = [] ∧ s.cnt = 0) ∨
      (s.ent = none ∧ e ≤ floorSec now ∧ s.out = if 0 < cap then [e] else []))
    (by
      intro k' s ts hP hent hts hk'
      subst hk'
      rcases hP rfl with ⟨h1, h2, h3⟩ | ⟨h1, _, _⟩
      · rw [h1] at hent; cases hent
        right
        simp only [kstep, hlk, hbe, h3, h2]
        by_cases hcap : 0 < cap
        · have : ¬ cap ≤ 0 := by omega
          simp [this, hcap, hts]
        · have : cap ≤ 0 := by omega
          simp [this, hcap, hts]
      · rw [h1] at hent; cases hent)
    (by intro k' hk'; subst hk'; exact Or.inl ⟨he, rfl, rfl⟩)
  obtain ⟨_, _, _, ⟨counts', hP⟩, hgt⟩ := this
  rcases hP k rfl with ⟨h1, h2, _⟩ | ⟨h1, h2, h3⟩
  · have := hgt hdone k e h1
    simp only [view] at h1 h2
    rw [h1, h2, if_neg (by omega), if_neg (by omega)]
    exact ⟨rfl, rfl⟩
  · simp only [view] at h1 h3
    rw [h1, h3, if_pos h2]
    simp [h2]

/-- any key whose entry has not arrived: nothing fired, entry unchanged (any lister, any fuel) -/
theorem work_key_not_due {w : Worker} {now : Int} {cap : Int} (flushLimit fuel : Nat)
    (hInv : Heap.Inv w.heap) (hL : ListerOK w.lister) (hchan : w.chan = [])
    {k : String} {e : Int} (he : Heap.search w.heap k = some e) (hnd : floorSec now < e) :
    outk (work w now cap flushLimit fuel).2.1 k = [] ∧
    Heap.search (work w now cap flushLimit fuel).1.heap k = some e := by
  have := work_keywise (w := w) (now := now) (cap := cap) flushLimit fuel hInv hL hchan
    (fun k' s => k' = k → s.ent = some e ∧ s.out = [])
    (by
      intro k' s ts hP hent hts hk'
      have := (hP hk').1
      rw [this] at hent; cases hent; omega)
    (by intro k' hk'; subst hk'; exact ⟨he, rfl⟩)
  obtain ⟨_, _, _, ⟨counts', hP⟩, _⟩ := this
  have := hP k rfl
  exact ⟨this.2, this.1⟩

/-- a key without lister entry never fires (any heap state, any fuel) -/
theorem work_key_missing_silent {w : Worker} {now : Int} {cap : Int} (flushLimit fuel : Nat)
    (hInv : Heap.Inv w.heap) (hL : ListerOK w.lister) (hchan : w.chan = [])
    {k : String} (hlk : lookup w.lister k = none) :
    outk (work w now cap flushLimit fuel).2.1 k = [] := by
  have := work_keywise (w := w) (now := now) (cap := cap) flushLimit fuel hInv hL hchan
    (fun k' s => k' = k → s.out = [])
    (by
      intro k' s ts hP _ _ hk'
      subst hk'
      rw [hlk]; exact hP rfl)
    (by intro k' _; rfl)
  obtain ⟨_, _, _, ⟨counts', hP⟩, _⟩ := this
  exact hP k rfl

/-! ### facts about every key (no activity assumption) -/

/-- nothing is requested before its time has arrived -/
theorem work_out_arrived {w : Worker} {now : Int} {cap : Int} (flushLimit fuel : Nat)
    (hInv : Heap.Inv w.heap) (hL : ListerOK w.lister) (hchan : w.chan = []) (k : String) :
    ∀ t ∈ outk (work w now cap flushLimit fuel).2.1 k, t ≤ floorSec now := by
  have := work_keywise (w := w) (now := now) (cap := cap) flushLimit fuel hInv hL hchan
    (fun _ s => ∀ t ∈ s.out, t ≤ floorSec now)
    (by
      intro k' s ts hP _ hts
      unfold kstep
      cases lookup w.lister k' with
      | none => exact hP
      | some jc =>
        by_cases hcap : (s.cnt : Int) ≥ cap
        · simpa [hcap] using hP
        · simp only [hcap, if_false]
          intro t ht
          rcases List.mem_append.1 ht with h | h
          · exact hP t h
          · simp at h; omega)
    (by intro k' t ht; cases ht)
  obtain ⟨_, _, _, ⟨counts', hP⟩, _⟩ := this
  exact hP k

/-- at most `cap` requests per key and tick -/
theorem work_out_le_cap {w : Worker} {now : Int} {cap : Int} (flushLimit fuel : Nat)
    (hInv : Heap.Inv w.heap) (hL : ListerOK w.lister) (hchan : w.chan = []) (k : String) :
    (outk (work w now cap flushLimit fuel).2.1 k).length ≤ cap.toNat := by
  have := work_keywise (w := w) (now := now) (cap := cap) flushLimit fuel hInv hL hchan
    (fun _ s => s.out.length = s.cnt ∧ s.cnt ≤ cap.toNat)
    (by
      intro k' s ts hP _ _
      unfold kstep
      cases lookup w.lister k' with
      | none => exact hP
      | some jc =>
        by_cases hcap : (s.cnt : Int) ≥ cap
        · simpa [hcap] using hP
        · simp only [hcap, if_false, List.length_append, List.length_singleton]
          omega)
    (by intro k'; exact ⟨rfl, Nat.zero_le _⟩)
  obtain ⟨_, _, _, ⟨counts', hP⟩, _⟩ := this
  have := hP k
  simp only [view] at this
  omega

theorem mem_outk {l : List (String × Int)} {k : String} {t : Int} :
    t ∈ outk l k ↔ (k, t) ∈ l := by
  unfold outk
  simp only [List.mem_map, List.mem_filter, decide_eq_true_eq]
  constructor
  · rintro ⟨⟨k', t'⟩, ⟨hm, hk⟩, ht⟩
    simp only at hk ht
    subst hk; subst ht; exact hm
  · intro h
    exact ⟨(k, t), ⟨h, rfl⟩, rfl⟩

end Furiko.Cron
