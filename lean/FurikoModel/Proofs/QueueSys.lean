/-
System-level facts about the per-config pass in states satisfying the invariant: every write
logged "ok" hit the authoritative version that equals the cached one; the counter stays exact
when it was exact; names not in the pass are untouched.
-/
import FurikoModel.Proofs.QueueCor
import FurikoModel.Proofs.QueueReach

set_option linter.unusedSimpArgs false
set_option linter.unusedVariables false

namespace Furiko.Queue
open Furiko.WQ

/-- the counter equals the true number of active Jobs for every uid -/
def Exact (s : Sys) : Prop := ∀ uid, getCtr s.counter uid = actCount s.jobs uid

/-- what `syncConfig` guarantees about the list it iterates over -/
def QueuedIn (s : Sys) (jc : JCV) (rjs : List JobV) : Prop :=
  ∀ j ∈ rjs, j ∈ s.jobCache ∧ j.label = some jc.uid ∧ j.isQueued = true

/-- what an "ok" call did to the authoritative Job -/
def CallEffect (clock : Int) (c : Call) (j a : JobV) : Prop :=
  sameSpec j a ∧ a.terminal = false ∧
  ((c.verb = "start" ∧ due j clock ∧ a.startTime = some (clock / 1000000000) ∧ a.admErr = j.admErr) ∨
   (c.verb = "reject" ∧ j.hasPolicy = true ∧ j.policy = 1 ∧ due j clock ∧ a.admErr = true ∧
      a.startTime = none))

theorem Inv_applyReject {s : Sys} (h : Inv s) {j cur : JobV} (m : String × Int) (hj : j ∈ s.jobCache)
    (hq : j.isQueued = true) (hf : findJob s.jobs j.name = some cur) (hrv : cur.rv = j.rv) :
    cur = j ∧ Inv (applyWrite s "reject" j.name (rejectedJob s m j cur)) := by
  have hcj : cur = j := h.cached_eq_cur hj hf hrv
  subst hcj
  refine ⟨rfl, ?_⟩
  obtain ⟨hst, hterm⟩ := (isQueued_iff cur).mp hq
  refine Inv_update (cur := cur) (nj := { rejectF m cur cur with rv := s.rv + 1 }) h hf ?_ rfl
    (fun hx => hx) rfl rfl rfl rfl rfl rfl ?_ rfl (fun f hf => List.mem_of_mem_tail hf)
  · simp [sameSpec, rejectF]
  · intro uid
    have : bonus cur { rejectF m cur cur with rv := s.rv + 1 } = 0 := by
      simp only [bonus, rejectF, JobV.isActive, JobV.isStarted] at hst ⊢
      simp [hst]
    simp [this, applyWrite]

theorem Inv_applyStart {s : Sys} (h : Inv s) {jc : JCV} {j cur : JobV} {ac : Int}
    (hj : j ∈ s.jobCache) (hq : j.isQueued = true) (hl : j.label = some jc.uid)
    (hf : findJob s.jobs j.name = some cur) (hrv : cur.rv = j.rv)
    (hcas : getCtr s.counter jc.uid = ac) :
    cur = j ∧ Inv { applyWrite s "start" j.name (startedJob s j cur) with
                      counter := setCtr s.counter jc.uid (ac + 1) } := by
  have hcj : cur = j := h.cached_eq_cur hj hf hrv
  subst hcj
  refine ⟨rfl, ?_⟩
  obtain ⟨hst, hterm⟩ := (isQueued_iff cur).mp hq
  refine Inv_update (cur := cur) (nj := { startF s.clock cur cur with rv := s.rv + 1 }) h hf ?_ rfl
    (fun hx => hx) rfl rfl rfl rfl rfl rfl ?_ rfl (fun f hf => List.mem_of_mem_tail hf)
  · simp [sameSpec, startF]
  · intro uid
    have : bonus cur { startF s.clock cur cur with rv := s.rv + 1 } = 1 := by
      simp only [bonus, startF, JobV.isActive, JobV.isStarted] at hst ⊢
      simp [hst, hterm]
    simp only [this, hl, Option.some.injEq, getCtr_setCtr]
    split
    · subst_vars; rfl
    · simp

theorem Exact_applyReject {s : Sys} (h : Inv s) (he : Exact s) {j : JobV} (m : String × Int)
    (hf : findJob s.jobs j.name = some j) :
    Exact (applyWrite s "reject" j.name (rejectedJob s m j j)) := by
  intro uid
  have h1 := actCount_setJob (j := rejectedJob s m j j) uid h.jobsNodup hf
  have h2 : actInd (rejectedJob s m j j) uid = actInd j uid := rfl
  have := he uid
  simp only [applyWrite]
  omega

theorem Exact_applyStart {s : Sys} (h : Inv s) (he : Exact s) {jc : JCV} {j : JobV} {ac : Int}
    (hq : j.isQueued = true) (hl : j.label = some jc.uid)
    (hf : findJob s.jobs j.name = some j) (hcas : getCtr s.counter jc.uid = ac) :
    Exact { applyWrite s "start" j.name (startedJob s j j) with
              counter := setCtr s.counter jc.uid (ac + 1) } := by
  intro uid
  obtain ⟨hst, hterm⟩ := (isQueued_iff j).mp hq
  have h1 := actCount_setJob (j := startedJob s j j) uid h.jobsNodup hf
  have h2 : actInd j uid = 0 := by
    simp only [actInd, JobV.isActive, hst]; simp
  have h3 : actInd (startedJob s j j) uid = if jc.uid = uid then 1 else 0 := by
    simp only [actInd, startedJob, startF, JobV.isActive, JobV.isStarted, hl, hterm]
    by_cases hu : jc.uid = uid <;> simp [hu]
  have h4 := he uid
  have h5 := he jc.uid
  simp only [applyWrite, getCtr_setCtr]
  split
  · subst_vars; simp only [if_true] at h3; omega
  · rename_i hne; simp only [hne, if_false] at h3; omega

/-- the master lemma -/
theorem Pass.sys {jc : JCV} {rjs : List JobV} {s : Sys} {ac : Int} {cs : List Call} {s' : Sys}
    {ok : Bool} (h : Pass jc rjs s ac cs s' ok) (hinv : Inv s) (hq : QueuedIn s jc rjs)
    (hnd : (names rjs).Nodup) :
    Inv s' ∧ (Exact s → Exact s') ∧
    (∀ n, n ∉ names rjs → findJob s'.jobs n = findJob s.jobs n) ∧
    (∀ c ∈ cs, c.res = "ok" → ∃ j ∈ rjs, j.name = c.job ∧ findJob s.jobs j.name = some j ∧
        ∃ a, findJob s'.jobs j.name = some a ∧ CallEffect s.clock c j a) := by
  induction h with
  | nil s ac => exact ⟨hinv, id, fun _ _ => rfl, by simp⟩
  | @defer j rest s ac cs s' ok hp hl hpass ih =>
    have hinv1 : Inv (deferState s jc j) :=
      Inv_congr hinv (Nat.le_refl _) rfl rfl rfl rfl (fun _ hn => hn) (fun _ => rfl)
        (hinv.ind_of_sub (fun k hk => hk)) (fun f hf => Or.inl hf)
    have hnd' : (names rest).Nodup := (List.nodup_cons.mp hnd).2
    obtain ⟨i1, i2, i3, i4⟩ := ih hinv1 (fun x hx => hq x (by simp [hx])) hnd'
    refine ⟨i1, i2, fun n hn => i3 n (fun hm => hn (by simp [names] at hm ⊢; exact Or.inr hm)), ?_⟩
    intro c hc hok
    obtain ⟨x, hx, r⟩ := i4 c hc hok
    exact ⟨x, by simp [hx], r⟩
  | @wait j rest s ac cs s' ok hp hl hpol hlim hpass ih =>
    have hnd' : (names rest).Nodup := (List.nodup_cons.mp hnd).2
    obtain ⟨i1, i2, i3, i4⟩ := ih hinv (fun x hx => hq x (by simp [hx])) hnd'
    refine ⟨i1, i2, fun n hn => i3 n (fun hm => hn (by simp [names] at hm ⊢; exact Or.inr hm)), ?_⟩
    intro c hc hok
    obtain ⟨x, hx, r⟩ := i4 c hc hok
    exact ⟨x, by simp [hx], r⟩
  | @rejectFail j rest s ac res hp hl hpol hlim hres hwhy =>
    refine ⟨Inv_failWrite hinv "reject" j.name res s.counter (fun _ => rfl), fun he => he,
      fun _ _ => rfl, ?_⟩
    intro c hc hok; simp only [List.mem_singleton] at hc; subst hc; exact absurd hok hres
  | @rejectOk j rest s ac cs s' ok cur hp hl hpol hlim hf hrv hnb hna hpass ih =>
    obtain ⟨hjc, hjl, hjq⟩ := hq j (by simp)
    obtain ⟨hcj, hinv1⟩ := Inv_applyReject hinv (rejMsg jc ac) hjc hjq hf hrv
    subst hcj
    obtain ⟨hst, hterm⟩ := (isQueued_iff cur).mp hjq
    have hnd' : (names rest).Nodup := (List.nodup_cons.mp hnd).2
    have hnotin : cur.name ∉ names rest := (List.nodup_cons.mp hnd).1
    obtain ⟨i1, i2, i3, i4⟩ := ih hinv1 (fun x hx => hq x (by simp [hx])) hnd'
    have hframe : ∀ n, n ≠ cur.name →
        findJob (applyWrite s "reject" cur.name (rejectedJob s (rejMsg jc ac) cur cur)).jobs n =
          findJob s.jobs n := by
      intro n hn
      simp only [applyWrite, findJob_setJob]
      rw [if_neg]; exact fun hx => hn hx.symm
    refine ⟨i1, fun he => i2 (Exact_applyReject hinv he _ hf), ?_, ?_⟩
    · intro n hn
      have hn1 : n ≠ cur.name := fun hx => hn (by simp [names, hx])
      have hn2 : n ∉ names rest := fun hm => hn (by simp [names] at hm ⊢; exact Or.inr hm)
      rw [i3 n hn2, hframe n hn1]
    · intro c hc hok
      rcases List.mem_cons.mp hc with rfl | hc
      · refine ⟨cur, by simp, rfl, hf, ?_⟩
        have : findJob s'.jobs cur.name = some (rejectedJob s (rejMsg jc ac) cur cur) := by
          rw [i3 cur.name hnotin]
          simp only [applyWrite, findJob_setJob]
          rw [if_pos]; rfl
        refine ⟨_, this, ?_, ?_, Or.inr ⟨rfl, hp, hpol, ?_, rfl, ?_⟩⟩
        · simp [sameSpec, rejectedJob, rejectF]
        · exact hterm
        · exact fun hx => by simp [hl] at hx
        · simp only [rejectedJob, rejectF]
          simpa [JobV.isStarted] using hst
      · obtain ⟨x, hx, hxn, hxf, a, ha, hce⟩ := i4 c hc hok
        have hxne : x.name ≠ cur.name := fun he => hnotin (by
          simp only [names, List.mem_map]; exact ⟨x, hx, he⟩)
        exact ⟨x, by simp [hx], hxn, by rw [← hframe x.name hxne]; exact hxf, a, ha, hce⟩
  | @rejectLost j rest s ac cur hp hl hpol hlim hf hrv hnb hna =>
    exact absurd hna hinv.nextFault_ne_applied
  | @rejectNoop j rest s ac cs s' ok cur hp hl hpol hlim hf hrv hnb hna hnoop hpass ih =>
    obtain ⟨hjc, hjl, hjq⟩ := hq j (by simp)
    have hcj : cur = j := hinv.cached_eq_cur hjc hf hrv
    subst hcj
    have hinv1 : Inv (failWrite s "reject" cur.name "ok") :=
      Inv_failWrite hinv "reject" cur.name "ok" s.counter (fun _ => rfl)
    obtain ⟨hst, hterm⟩ := (isQueued_iff cur).mp hjq
    have hnd' : (names rest).Nodup := (List.nodup_cons.mp hnd).2
    have hnotin : cur.name ∉ names rest := (List.nodup_cons.mp hnd).1
    obtain ⟨i1, i2, i3, i4⟩ := ih hinv1 (fun x hx => hq x (by simp [hx])) hnd'
    refine ⟨i1, fun he => i2 he, ?_, ?_⟩
    · intro n hn
      have hn2 : n ∉ names rest := fun hm => hn (by simp [names] at hm ⊢; exact Or.inr hm)
      rw [i3 n hn2]; rfl
    · intro c hc hok
      rcases List.mem_cons.mp hc with rfl | hc
      · refine ⟨cur, by simp, rfl, hf, ?_⟩
        have : findJob s'.jobs cur.name = some cur := by
          rw [i3 cur.name hnotin]; exact hf
        refine ⟨_, this, ?_, hterm, Or.inr ⟨rfl, hp, hpol, ?_, rejectF_fix_admErr hnoop, ?_⟩⟩
        · simp [sameSpec]
        · exact fun hx => by simp [hl] at hx
        · simpa [JobV.isStarted] using hst
      · obtain ⟨x, hx, hxn, hxf, a, ha, hce⟩ := i4 c hc hok
        exact ⟨x, by simp [hx], hxn, hxf, a, ha, hce⟩
  | @rejectNoopLost j rest s ac cur hp hl hpol hlim hf hrv hnb hna hnoop =>
    exact absurd hna hinv.nextFault_ne_applied
  | @casFail j rest s ac hv hne =>
    exact ⟨hinv, id, fun _ _ => rfl, by simp⟩
  | @startFail j rest s ac res hv hcas hres hwhy =>
    refine ⟨Inv_failWrite hinv "start" j.name res _ (getCtr_rollback hcas), ?_, fun _ _ => rfl, ?_⟩
    · intro he uid
      have := he uid
      simp only [failWrite, getCtr_rollback hcas]
      exact this
    · intro c hc hok; simp only [List.mem_singleton] at hc; subst hc; exact absurd hok hres
  | @startOk j rest s ac cs s' ok cur hv hcas hf hrv hnb hna hpass ih =>
    obtain ⟨hjc, hjl, hjq⟩ := hq j (by simp)
    obtain ⟨hcj, hinv1⟩ := Inv_applyStart hinv hjc hjq hjl hf hrv hcas
    subst hcj
    obtain ⟨hst, hterm⟩ := (isQueued_iff cur).mp hjq
    have hnd' : (names rest).Nodup := (List.nodup_cons.mp hnd).2
    have hnotin : cur.name ∉ names rest := (List.nodup_cons.mp hnd).1
    obtain ⟨i1, i2, i3, i4⟩ := ih hinv1 (fun x hx => hq x (by simp [hx])) hnd'
    have hframe : ∀ n, n ≠ cur.name →
        findJob (applyWrite s "start" cur.name (startedJob s cur cur)).jobs n = findJob s.jobs n := by
      intro n hn
      simp only [applyWrite, findJob_setJob]
      rw [if_neg]; exact fun hx => hn hx.symm
    refine ⟨i1, fun he => i2 (Exact_applyStart hinv he hjq hjl hf hcas), ?_, ?_⟩
    · intro n hn
      have hn1 : n ≠ cur.name := fun hx => hn (by simp [names, hx])
      have hn2 : n ∉ names rest := fun hm => hn (by simp [names] at hm ⊢; exact Or.inr hm)
      rw [i3 n hn2]; exact hframe n hn1
    · intro c hc hok
      rcases List.mem_cons.mp hc with rfl | hc
      · refine ⟨cur, by simp, rfl, hf, ?_⟩
        have : findJob s'.jobs cur.name = some (startedJob s cur cur) := by
          rw [i3 cur.name hnotin]
          simp only [applyWrite, findJob_setJob]
          rw [if_pos]; rfl
        refine ⟨_, this, ?_, ?_, Or.inl ⟨rfl, hv.1, rfl, rfl⟩⟩
        · simp [sameSpec, startedJob, startF]
        · exact hterm
      · obtain ⟨x, hx, hxn, hxf, a, ha, hce⟩ := i4 c hc hok
        have hxne : x.name ≠ cur.name := fun he => hnotin (by
          simp only [names, List.mem_map]; exact ⟨x, hx, he⟩)
        refine ⟨x, by simp [hx], hxn, ?_, a, ha, hce⟩
        have := hframe x.name hxne
        simp only [applyWrite] at this hxf
        rw [← this]; exact hxf
  | @startLost j rest s ac cur hv hcas hf hrv hnb hna =>
    exact absurd hna hinv.nextFault_ne_applied


/-! ### the worker step on states satisfying the invariant -/

theorem Inv_cfgPre {s : Sys} (h : Inv s) (q1 : WQ) : Inv (cfgPre s q1) :=
  Inv_congr h (Nat.le_refl _) rfl rfl rfl rfl (fun _ hn => hn) (fun _ => rfl)
    (h.ind_of_sub (fun k hk => hk)) (fun f hf => Or.inl hf)

theorem queuedIn_listQueued (s : Sys) (jc : JCV) : QueuedIn s jc (listQueued s.jobCache jc) :=
  fun j hj => listQueued_mem_props hj

/-- every call of a per-config worker step that was logged "ok" hit the authoritative Job, which
was identical to the cached queued version; its effect is in the final authoritative state -/
theorem Inv.workConfig_ok_calls {s : Sys} (h : Inv s) :
    ∀ c ∈ (workConfig s).1.calls, c.res = "ok" →
      ∃ j, findJob s.jobs c.job = some j ∧ j ∈ s.jobCache ∧ j.isQueued = true ∧
        ∃ a, findJob (workConfig s).1.jobs c.job = some a ∧ CallEffect s.clock c j a := by
  intro c hc hok
  rcases workConfig_cases s with ⟨h0, _⟩ | ⟨k, q1, jc, hg, hjc⟩
  · rw [h0] at hc; simp at hc
  · obtain ⟨s1, ok, hp, hw⟩ := workConfig_Pass hg hjc
    rw [hw] at hc ⊢
    have hq : QueuedIn (cfgPre s q1) jc (listQueued s.jobCache jc) := queuedIn_listQueued s jc
    obtain ⟨_, _, _, h4⟩ := hp.sys (Inv_cfgPre h q1) hq (nodup_names_listQueued jc h.cacheNodup)
    obtain ⟨j, hj, hn, hf, a, ha, hce⟩ := h4 c hc hok
    obtain ⟨hjc', _, hjq⟩ := hq j hj
    rw [hn] at hf ha
    exact ⟨j, hf, hjc', hjq, a, ha, hce⟩

/-- the same for the independent worker -/
theorem Inv.workIndependent_ok_calls {s : Sys} (h : Inv s) :
    ∀ c ∈ (workIndependent s).1.calls, c.res = "ok" →
      ∃ j, findJob s.jobs c.job = some j ∧ j ∈ s.jobCache ∧ j.isQueued = true ∧ j.label = none ∧
        c.verb = "start" ∧ due j s.clock ∧
        ∃ a, findJob (workIndependent s).1.jobs c.job = some a ∧ sameSpec j a ∧
          a.terminal = false ∧ a.startTime = some (s.clock / 1000000000) := by
  intro c hc hok
  rcases workIndependent_cases s with ⟨_, hw⟩ | ⟨k, q1, hg, ⟨_, hw⟩ | ⟨j, _, _, _, _, hw⟩ |
      ⟨j, hj, hq, hd, ⟨res, hres, _, hw⟩ | ⟨cur, hcur, hrv, _, hw⟩⟩⟩
  · rw [hw] at hc; simp at hc
  · rw [hw] at hc; simp [indPost, indPre] at hc
  · rw [hw] at hc; simp [indPost, indLater, indPre] at hc
  · rw [hw] at hc
    simp only [indPost, failWrite, indPre, List.nil_append, List.mem_singleton] at hc
    subst hc; exact absurd hok hres
  · rw [hw] at hc ⊢
    simp only [indPost, applyWrite, indPre, List.nil_append, List.mem_singleton] at hc
    subst hc
    have hjc : j ∈ s.jobCache := findJob_some_mem hj
    have hcj : cur = j := h.cached_eq_cur hjc hcur hrv
    subst hcj
    obtain ⟨hkq, _⟩ := mem_keys_get hg
    have hlab : cur.label = none :=
      h.ind k (mem_keys_advance hkq) cur (Or.inr (Or.inl hjc)) (findJob_some_name hj)
    obtain ⟨_, hterm⟩ := (isQueued_iff cur).mp hq
    refine ⟨cur, hcur, hjc, hq, hlab, rfl, hd, startedJob s cur cur, ?_, ?_, hterm, rfl⟩
    · simp only [indPost, applyWrite, indPre, findJob_setJob]
      rw [if_pos]; rfl
    · simp [sameSpec, startedJob, startF]

/-- a quiet reachable state: nothing undelivered, nothing pending for the store, no faults -/
structure Quiet (s : Sys) : Prop where
  evs : s.jobEvs = []
  storeQ : s.storeQ = []
  faults : s.faults = []

theorem Inv.cache_eq_jobs {s : Sys} (h : Inv s) (hev : s.jobEvs = []) : s.jobCache = s.jobs := by
  have := h.pipe; rw [hev] at this; exact this

theorem Inv.exact_of_quiet {s : Sys} (h : Inv s) (hq : Quiet s) : Exact s :=
  fun uid => h.quiescent_exact hq.evs hq.storeQ uid

/-- in a quiet state satisfying the invariant a per-config worker step succeeds and keeps the
counter exact -/
theorem Inv.quiet_workConfig {s : Sys} (h : Inv s) (hq : Quiet s) {k : String} {q1 : WQ} {jc : JCV}
    (hg : (s.cfgQ.advance s.clock).get = some (k, q1))
    (hjc : findJC s.jcCache (keyName k) = some jc) :
    (workConfig s).2 = "ok" ∧ Exact (workConfig s).1 ∧
    syncConfig (cfgPre s q1) (keyName k) = ((syncConfig (cfgPre s q1) (keyName k)).1, true) ∧
    (workConfig s).1.jobs = (syncConfig (cfgPre s q1) (keyName k)).1.jobs ∧
    (workConfig s).1.counter = (syncConfig (cfgPre s q1) (keyName k)).1.counter ∧
    (workConfig s).1.calls = (syncConfig (cfgPre s q1) (keyName k)).1.calls := by
  have hok : (syncConfig (cfgPre s q1) (keyName k)).2 = true :=
    syncConfig_quiet (cfgPre s q1) (keyName k) hq.faults (h.cache_eq_jobs hq.evs) h.cacheNodup
  have hjc' : findJC (cfgPre s q1).jcCache (keyName k) = some jc := hjc
  obtain ⟨cs, hp⟩ := syncConfig_Pass hjc'
  have hqi : QueuedIn (cfgPre s q1) jc (listQueued (cfgPre s q1).jobCache jc) :=
    queuedIn_listQueued (cfgPre s q1) jc
  obtain ⟨_, h2, _, _⟩ := hp.sys (Inv_cfgPre h q1) hqi
    (nodup_names_listQueued jc (Inv_cfgPre h q1).cacheNodup)
  have hex : Exact (syncConfig (cfgPre s q1) (keyName k)).1 := h2 (h.exact_of_quiet hq)
  rw [workConfig_get hg, hok]
  exact ⟨rfl, hex, Prod.ext rfl hok, rfl, rfl, rfl⟩


/-! ### reachable-state statements used by Props/C06 and Props/C07 -/

theorem isQueued_of {a : JobV} (h1 : a.startTime = none) (h2 : a.terminal = false) :
    a.isQueued = true := by
  simp [JobV.isQueued, JobV.isStarted, h1, h2]

theorem Inv.due_startAfter {s : Sys} (h : Inv s) {j : JobV} (hj : j ∈ s.jobCache) {clock : Int}
    (hd : due j clock) : ∀ t, j.startAfter = some t → t * 1000000000 ≤ clock :=
  Furiko.Queue.due_startAfter hd (h.verWf j (Or.inr (Or.inl hj))).2

/-- every start logged "ok" by the per-config worker -/
theorem Reachable.start_ok_sound {s : Sys} (h : Reachable s) (n : String)
    (hc : ⟨"start", n, "ok"⟩ ∈ (workConfig s).1.calls) :
    ∃ j, findJob s.jobs n = some j ∧ j.isQueued = true ∧ due j s.clock ∧
      (∀ t, j.startAfter = some t → t * 1000000000 ≤ s.clock) ∧
      ∃ a, findJob (workConfig s).1.jobs n = some a ∧ sameSpec j a ∧
        a.startTime = some (s.clock / 1000000000) ∧ a.terminal = false := by
  obtain ⟨j, hf, hjc, hjq, a, ha, hspec, hterm, hce⟩ := h.inv.workConfig_ok_calls _ hc rfl
  rcases hce with ⟨_, hd, hst, _⟩ | ⟨hv, _⟩
  · exact ⟨j, hf, hjq, hd, h.inv.due_startAfter hjc hd, a, ha, hspec, hst, hterm⟩
  · exact absurd (show "start" = "reject" from hv) (by decide)

/-- every start logged "ok" by the independent worker -/
theorem Reachable.start_ok_sound_independent {s : Sys} (h : Reachable s) (n r : String)
    (hc : ⟨r, n, "ok"⟩ ∈ (workIndependent s).1.calls) :
    r = "start" ∧
    ∃ j, findJob s.jobs n = some j ∧ j.isQueued = true ∧ j.label = none ∧ due j s.clock ∧
      (∀ t, j.startAfter = some t → t * 1000000000 ≤ s.clock) ∧
      ∃ a, findJob (workIndependent s).1.jobs n = some a ∧ sameSpec j a ∧
        a.startTime = some (s.clock / 1000000000) ∧ a.terminal = false := by
  obtain ⟨j, hf, hjc, hjq, hlab, hv, hd, a, ha, hspec, hterm, hst⟩ :=
    h.inv.workIndependent_ok_calls _ hc rfl
  exact ⟨hv, j, hf, hjq, hlab, hd, h.inv.due_startAfter hjc hd, a, ha, hspec, hst, hterm⟩

/-- every reject logged "ok" -/
theorem Reachable.reject_ok_sound {s : Sys} (h : Reachable s) (n : String)
    (hc : ⟨"reject", n, "ok"⟩ ∈ (workConfig s).1.calls) :
    ∃ j, findJob s.jobs n = some j ∧ j.isQueued = true ∧ j.hasPolicy = true ∧ j.policy = 1 ∧
      due j s.clock ∧
      ∃ a, findJob (workConfig s).1.jobs n = some a ∧ sameSpec j a ∧ a.admErr = true ∧
        a.isQueued = true := by
  obtain ⟨j, hf, hjc, hjq, a, ha, hspec, hterm, hce⟩ := h.inv.workConfig_ok_calls _ hc rfl
  rcases hce with ⟨hv, _⟩ | ⟨_, hp, hpol, hd, hadm, hst⟩
  · exact absurd (show "reject" = "start" from hv) (by decide)
  · exact ⟨j, hf, hjq, hp, hpol, hd, a, ha, hspec, hadm, isQueued_of hst hterm⟩

/-- a Job that is authoritatively started or terminal is never started (again) -/
theorem Reachable.not_queued_never_started {s : Sys} (h : Reachable s) {n : String} {cur : JobV}
    (hcur : findJob s.jobs n = some cur) (hnq : cur.isQueued = false) :
    ⟨"start", n, "ok"⟩ ∉ (workConfig s).1.calls ∧
    ⟨"start", n, "ok"⟩ ∉ (workIndependent s).1.calls := by
  constructor
  · intro hc
    obtain ⟨j, hf, hjq, _⟩ := h.start_ok_sound n hc
    rw [hcur] at hf; cases hf; rw [hnq] at hjq; cases hjq
  · intro hc
    obtain ⟨_, j, hf, hjq, _⟩ := h.start_ok_sound_independent n "start" hc
    rw [hcur] at hf; cases hf; rw [hnq] at hjq; cases hjq

end Furiko.Queue
