/-
Liveness of the job controller, part 35: ANY FINITE PATTERN OF FAULTS, THEN CONVERGENCE.
`roundsF_keep`: after any finite sequence of fair rounds whose passes run under arbitrary fault lists, the
invariant, "unfinished and armed, or final" and the agreement with the oracle still hold;
`faulty_then_fair`: from there at most `3·maxAttempts + 3` fault-free rounds reach a final state, and the
verdict is the oracle's — the same as without any fault.  Core Lean only.
-/
import FurikoModel.Proofs.JobCtlLive34

set_option linter.unusedSimpArgs false
set_option linter.unusedVariables false

namespace Furiko.JobCtl.Live
open Furiko Furiko.JobCtl Furiko.WQ Furiko.StatusLemmas Furiko.JobCtlPlan Furiko.Conv Furiko.ParallelLemmas

section
variable {ok : Sys → Action → Prop} {j0 : JobObj} {F0 : Int}

/-- the invariant of runs under faults: the round invariant, the Job unfinished and its key armed or the
state final (with the TTL not elapsed), the state agreeing with the oracle -/
def Sound (ok : Sys → Action → Prop) (j0 : JobObj) (F0 : Int) (orc : String → Outcome) (T : Int) (name : String)
    (s : Sys) : Prop :=
  ∃ jo, jo.name = name ∧ Canon ok j0 jo F0 s ∧ (Busy jo s ∨ (Done jo s ∧ s.clock < F0 + T)) ∧ Truth orc jo s ∧
    getTTLAfterFinished jo.job s.cfg = T

theorem roundsF_steps (hok : ∀ s a, fairEnv s a → ok s a) (hokF : ∀ s fs, ok s (.setFaults fs)) (orc : String → Outcome) :
    ∀ (fss : List (List String)) (s0 s : Sys), Steps ok j0 s0 s → Steps ok j0 s0 (roundsF orc fss s)
  | [], _, _, h => h
  | fs :: rest, s0, s, h => roundsF_steps hok hokF orc rest s0 _ (roundF_steps hok hokF orc fs s0 s h)

/-- **any finite sequence of faulted rounds keeps the invariant** -/
theorem roundsF_keep (hok : ∀ s a, fairEnv s a → ok s a) (hokF : ∀ s fs, ok s (.setFaults fs)) (orc : String → Outcome)
    (T : Int) (name : String) : ∀ (fss : List (List String)) (s : Sys), Sound ok j0 F0 orc T name s →
      (∀ pre suf, fss = pre ++ suf → pre ≠ [] → (roundsF orc pre s).clock < F0 + T) →
      Sound ok j0 F0 orc T name (roundsF orc fss s)
  | [], s, h, _ => h
  | fs :: rest, s, ⟨jo, hn, hcan, hstate, htruth, httl⟩, hT => by
    have hT1 : (roundF orc fs s).clock < F0 + T := hT [fs] rest rfl (by simp)
    have hrest : ∀ pre suf, rest = pre ++ suf → pre ≠ [] → (roundsF orc pre (roundF orc fs s)).clock < F0 + T := by
      intro pre suf e hne
      exact hT (fs :: pre) suf (by rw [e]; rfl) (by simp)
    apply roundsF_keep hok hokF orc T name rest (roundF orc fs s) _ hrest
    rcases hstate with hb | ⟨hd, hclk⟩
    · obtain ⟨jo', hn', hcan', hres, httl', htr⟩ := roundF_keeps hok hokF orc fs hcan hb (by rw [httl]; exact hT1)
      refine ⟨jo', hn'.trans hn, hcan', ?_, htr htruth, httl'.trans httl⟩
      rcases hres with hb' | hd'
      · exact Or.inl hb'
      · exact Or.inr ⟨hd', hT1⟩
    · obtain ⟨jo', hn', hjob, hcan', hd', hpods, hclk', hcfg⟩ := roundF_done hok hokF orc fs hcan hd (by rw [httl]; exact hclk)
      refine ⟨jo', hn'.trans hn, hcan', Or.inr ⟨hd', by rw [hclk']; exact hclk⟩, ?_, ?_⟩
      · -- the Job value and the pods are unchanged
        refine ⟨by rw [hpods]; exact htruth.pods, by rw [hjob, hpods]; exact htruth.noLoss, by rw [hjob]; exact htruth.failed,
          by rw [hjob]; exact htruth.succ, by rw [hjob]; exact htruth.live⟩
      · unfold getTTLAfterFinished at httl ⊢
        rw [hjob, hcfg]; exact httl

/-- **any finite pattern of faults, then convergence to the oracle's verdict** -/
theorem faulty_then_fair (hok : ∀ s a, fairEnv s a → ok s a) (hokF : ∀ s fs, ok s (.setFaults fs)) (orc : String → Outcome)
    (T : Int) (name : String) (fss : List (List String)) (s : Sys) (h : Sound ok j0 F0 orc T name s)
    (hTF : ∀ pre suf, fss = pre ++ suf → pre ≠ [] → (roundsF orc pre s).clock < F0 + T)
    (hT : ∀ k, k < 3 * j0.job.maxAttempts.toNat + 3 → (roundN orc (k + 1) (roundsF orc fss s)).clock < F0 + T) :
    ∃ k, k ≤ 3 * j0.job.maxAttempts.toNat + 3 ∧ Steps ok j0 s (roundN orc k (roundsF orc fss s)) ∧
      ∃ jo', jo'.name = name ∧ Canon ok j0 jo' F0 (roundN orc k (roundsF orc fss s)) ∧
        Done jo' (roundN orc k (roundsF orc fss s)) ∧ Truth orc jo' (roundN orc k (roundsF orc fss s)) := by
  obtain ⟨jo, hn, hcan, hstate, htruth, httl⟩ := roundsF_keep hok hokF orc T name fss s h hTF
  have hstepsF := roundsF_steps (j0 := j0) hok hokF orc fss s s (.refl s)
  rcases hstate with hb | ⟨hd, _⟩
  · have hmax : jo.job.maxAttempts = j0.job.maxAttempts := maxAttempts_of_template hcan.ver.template
    have hmu : mu jo (roundsF orc fss s) ≤ 3 * j0.job.maxAttempts.toNat + 3 := by rw [← hmax]; exact mu_le jo _
    obtain ⟨k, hk, _, jo', hn', hcan', hdone, htr, _⟩ := rounds_converge_with hok orc (Truth orc)
      (fun jo jo' s h hb ht hn hcw hrs hpods hd hps => truth_preserved hok orc jo jo' s h hb ht hn hcw hrs hpods hd hps)
      (3 * j0.job.maxAttempts.toNat + 3) jo _ hcan hb htruth hmu (by rw [httl]; exact hT)
    exact ⟨k, Nat.le_trans hk hmu, roundN_steps hok orc k s _ hstepsF, jo', hn'.trans hn, hcan', hdone, htr⟩
  · exact ⟨0, Nat.zero_le _, hstepsF, jo, hn, hcan, hd, htruth⟩

end

end Furiko.JobCtl.Live
