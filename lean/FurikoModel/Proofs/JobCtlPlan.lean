/-
Plan-level lemmas about `Model/JobCtl.lean`: which API calls each API operation and each handler
of the job controller's reconcile pass appends to `Sys.calls`, and which parts of the state a
pass never changes (clock, configuration, caches), for ALL states.  Core Lean only.

Vocabulary
* `newCalls s s'`      the calls `s'` has logged beyond those of `s`;
* `Ext s s' l`         `s'` is `s` after controller actions that logged exactly `l`: the clock,
                       the configuration, the default index and both caches are untouched, timers
                       are only added or moved earlier, and every pod of `s'` is a pod of `s` (by
                       name) or was created by a successful create call of `l`;
* `TimerBy q k t`      the work queue holds a deferred add of key `k` at a deadline `≤ t`;
* `dueAt s t`          the deadline `AddAfter` really uses for the absolute time `t` (1 s floor).
-/
import FurikoModel.Model.JobCtl

namespace Furiko.JobCtlPlan
open Furiko Furiko.JobCtl Furiko.WQ

/-- the calls logged by `s'` beyond those already logged by `s` -/
def newCalls (s s' : Sys) : List Call := s'.calls.drop s.calls.length

/-- a deferred add of `k` is pending at a deadline not later than `t` -/
def TimerBy (q : WQ) (k : String) (t : Int) : Prop := ∃ dl, (k, dl) ∈ q.delayed ∧ dl ≤ t

/-- the absolute deadline `enqueueAfter` arms for the time `t` (never sooner than 1 s from now) -/
def dueAt (s : Sys) (t : Int) : Int := if t < s.clock + 1000000000 then s.clock + 1000000000 else t

/-- every pod of `s'` is (by name) a pod of `s`, or was created by a successful create of `l` -/
def PodsFrom (s s' : Sys) (l : List Call) : Prop :=
  ∀ p ∈ s'.pods, (∃ p0 ∈ s.pods, p0.pod.name = p.pod.name) ∨
    (∃ c ∈ l, c.verb = "create" ∧ c.res = "pods" ∧ c.out = "ok" ∧ c.name = p.pod.name)

structure Ext (s s' : Sys) (l : List Call) : Prop where
  calls : s'.calls = s.calls ++ l
  clock : s'.clock = s.clock
  cfg : s'.cfg = s.cfg
  d : s'.d = s.d
  podCache : s'.podCache = s.podCache
  jobCache : s'.jobCache = s.jobCache
  timers : ∀ k t, TimerBy s.q k t → TimerBy s'.q k t
  pods : PodsFrom s s' l

theorem Ext.refl (s : Sys) : Ext s s [] :=
  ⟨by simp, rfl, rfl, rfl, rfl, rfl, fun _ _ h => h, fun p hp => Or.inl ⟨p, hp, rfl⟩⟩

theorem Ext.trans {s s1 s2 : Sys} {l1 l2 : List Call} (h1 : Ext s s1 l1) (h2 : Ext s1 s2 l2) :
    Ext s s2 (l1 ++ l2) := by
  refine ⟨by rw [h2.calls, h1.calls, List.append_assoc], h2.clock.trans h1.clock, h2.cfg.trans h1.cfg,
    h2.d.trans h1.d, h2.podCache.trans h1.podCache, h2.jobCache.trans h1.jobCache,
    fun k t h => h2.timers k t (h1.timers k t h), ?_⟩
  intro p hp
  rcases h2.pods p hp with ⟨p1, hp1, hn⟩ | ⟨c, hc, h⟩
  · rcases h1.pods p1 hp1 with ⟨p0, hp0, hn0⟩ | ⟨c, hc, h⟩
    · exact Or.inl ⟨p0, hp0, hn0.trans hn⟩
    · exact Or.inr ⟨c, List.mem_append_left _ hc, h.1, h.2.1, h.2.2.1, h.2.2.2.trans hn⟩
  · exact Or.inr ⟨c, List.mem_append_right _ hc, h⟩

theorem Ext.newCalls {s s' : Sys} {l : List Call} (h : Ext s s' l) : newCalls s s' = l := by
  unfold JobCtlPlan.newCalls
  rw [h.calls, List.drop_left]

theorem Ext.cast {s s' : Sys} {l l' : List Call} (h : Ext s s' l) (e : l = l') : Ext s s' l' := e ▸ h

/-- no successful create among the logged calls: the pass created no pod -/
theorem Ext.no_new_pods {s s' : Sys} {l : List Call} (h : Ext s s' l)
    (hn : ∀ c ∈ l, ¬ (c.verb = "create" ∧ c.out = "ok")) :
    ∀ p ∈ s'.pods, ∃ p0 ∈ s.pods, p0.pod.name = p.pod.name := by
  intro p hp
  rcases h.pods p hp with h0 | ⟨c, hc, hv, _, ho, _⟩
  · exact h0
  · exact absurd ⟨hv, ho⟩ (hn c hc)

/-- an `Ext` step built from field equalities (queue and pods unchanged) -/
theorem Ext.of_eq {s s' : Sys} {l : List Call} (hc : s'.calls = s.calls ++ l) (h1 : s'.clock = s.clock)
    (h2 : s'.cfg = s.cfg) (h3 : s'.d = s.d) (h4 : s'.podCache = s.podCache) (h5 : s'.jobCache = s.jobCache)
    (h6 : s'.q = s.q) (h7 : s'.pods = s.pods) : Ext s s' l :=
  ⟨hc, h1, h2, h3, h4, h5, fun _ _ h => h6 ▸ h, fun p hp => Or.inl ⟨p, h7 ▸ hp, rfl⟩⟩

-- ---------------------------------------------------------------- timers

theorem setDelayed_self (d : List (String × Int)) (k : String) (t : Int) :
    ∃ dl, (k, dl) ∈ setDelayed d k t ∧ dl ≤ t := by
  induction d with
  | nil => exact ⟨t, by simp [setDelayed], Int.le_refl _⟩
  | cons x rest ih =>
    obtain ⟨k', dl⟩ := x
    unfold setDelayed
    by_cases hk : k' = k
    · simp only [hk, if_true]
      by_cases hlt : t < dl
      · exact ⟨t, by simp [hlt], Int.le_refl _⟩
      · exact ⟨dl, by simp [hlt], by omega⟩
    · simp only [hk, if_false]
      obtain ⟨dl', hm, hle⟩ := ih
      exact ⟨dl', List.mem_cons_of_mem _ hm, hle⟩

theorem setDelayed_mono (d : List (String × Int)) (k : String) (t : Int) (k' : String) (dl : Int)
    (h : (k', dl) ∈ d) : ∃ dl', (k', dl') ∈ setDelayed d k t ∧ dl' ≤ dl := by
  induction d with
  | nil => cases h
  | cons x rest ih =>
    obtain ⟨k0, dl0⟩ := x
    unfold setDelayed
    by_cases hk : k0 = k
    · simp only [hk, if_true]
      rcases List.mem_cons.mp h with he | hr
      · obtain ⟨rfl, rfl⟩ := Prod.mk.inj he
        by_cases hlt : t < dl
        · exact ⟨t, by simp [hlt, hk], by omega⟩
        · exact ⟨dl, by simp [hlt, hk], Int.le_refl _⟩
      · exact ⟨dl, List.mem_cons_of_mem _ hr, Int.le_refl _⟩
    · simp only [hk, if_false]
      rcases List.mem_cons.mp h with he | hr
      · exact ⟨dl, by simp [he], Int.le_refl _⟩
      · obtain ⟨dl', hm, hle⟩ := ih hr
        exact ⟨dl', List.mem_cons_of_mem _ hm, hle⟩

theorem TimerBy.mono {q : WQ} {k : String} {t t' : Int} (h : TimerBy q k t) (hle : t ≤ t') : TimerBy q k t' := by
  obtain ⟨dl, hm, hd⟩ := h
  exact ⟨dl, hm, by omega⟩

theorem enqueueAfter_ext (s : Sys) (key : String) (t : Int) : Ext s (enqueueAfter s key t) [] := by
  refine ⟨by simp [enqueueAfter], rfl, rfl, rfl, rfl, rfl, ?_, fun p hp => Or.inl ⟨p, hp, rfl⟩⟩
  rintro k t' ⟨dl, hm, hle⟩
  obtain ⟨dl', hm', hle'⟩ := setDelayed_mono s.q.delayed key
    (if t < s.clock + 1000000000 then s.clock + 1000000000 else t) k dl hm
  exact ⟨dl', by simpa [enqueueAfter, WQ.addAfter] using hm', by omega⟩

/-- `enqueueAfter` arms a deferred add of the key at `dueAt s t` (or keeps an earlier one) -/
theorem enqueueAfter_timer (s : Sys) (key : String) (t : Int) :
    TimerBy (enqueueAfter s key t).q key (dueAt s t) := by
  obtain ⟨dl, hm, hle⟩ := setDelayed_self s.q.delayed key (dueAt s t)
  exact ⟨dl, by simpa [enqueueAfter, WQ.addAfter, dueAt] using hm, hle⟩

theorem dueAt_of_ext {s s' : Sys} {l : List Call} (h : Ext s s' l) (t : Int) : dueAt s' t = dueAt s t := by
  unfold dueAt; rw [h.clock]

-- ---------------------------------------------------------------- faults

theorem nextFault_eq (s : Sys) : ∃ fs, (nextFault s).2 = { s with faults := fs, delRun := none } := by
  unfold nextFault popFault
  cases h : s.faults with
  | nil => exact ⟨[], by simp [h]⟩
  | cons f rest => exact ⟨rest, rfl⟩

/-- no injected fault is pending (neither queued nor held by a running delete batch) -/
def NoFault (s : Sys) : Prop := s.faults = [] ∧ ∀ f, s.delRun = some f → f = ""

theorem nextFault_noFault (s : Sys) (h : NoFault s) : (nextFault s).1 = "" ∧ NoFault (nextFault s).2 := by
  unfold nextFault popFault NoFault
  rw [h.1]
  exact ⟨rfl, h.1, by intro f hf; cases hf⟩

-- ---------------------------------------------------------------- pod lists

theorem mem_setPod_name (l : List PodObj) (p x : PodObj) (h : x ∈ setPod l p) :
    x = p ∨ x ∈ l := by
  unfold setPod at h
  split at h
  · obtain ⟨y, hy, he⟩ := List.mem_map.mp h
    by_cases hn : y.pod.name = p.pod.name
    · left; simpa [hn] using he.symm
    · right; simp only [hn, if_false] at he; exact he ▸ hy
  · rcases List.mem_append.mp h with h | h
    · exact Or.inr h
    · exact Or.inl (by simpa using h)

theorem mem_delPod (l : List PodObj) (n : String) (x : PodObj) (h : x ∈ delPod l n) : x ∈ l :=
  (List.mem_filter.mp h).1

theorem findPod_some {l : List PodObj} {n : String} {p : PodObj} (h : findPod l n = some p) :
    p ∈ l ∧ p.pod.name = n := by
  unfold findPod at h
  exact ⟨List.mem_of_find?_eq_some h, by simpa using List.find?_some h⟩

-- ---------------------------------------------------------------- API operations

/-- what a pod create logs and returns -/
theorem apiCreatePod_ext (s : Sys) (jo : JobObj) (idx : PIndex) (retry : Int) :
    ∃ c, Ext s (apiCreatePod s jo idx retry).1 [c] ∧
      c.verb = "create" ∧ c.res = "pods" ∧ c.name = taskName jo.name idx.hash retry ∧ c.force = false ∧
      (apiCreatePod s jo idx retry).1.q = s.q ∧
      (∀ p, (apiCreatePod s jo idx retry).2 = .ok p → c.out = "ok") ∧
      (c.out = "ok" →
        findPod s.pods (taskName jo.name idx.hash retry) = none ∧
        ∃ p : PodObj, (apiCreatePod s jo idx retry).1.pods = s.pods ++ [p] ∧
          p.pod.name = taskName jo.name idx.hash retry ∧ p.ownerUid = some jo.uid ∧
          p.ownerName = some jo.name ∧ p.jobLabel = some jo.uid ∧
          p.pod.retryIndex = some retry ∧ p.pod.parallelIndex = some idx ∧
          p.pod.creationTimestamp = some (nowT s) ∧ p.pod.deletionTimestamp = none ∧
          (∀ q, (apiCreatePod s jo idx retry).2 = .ok q → q = p)) ∧
      (c.out ≠ "ok" → (apiCreatePod s jo idx retry).1.pods = s.pods) ∧
      ((apiCreatePod s jo idx retry).2 = .exists → c.out = "exists") := by
  unfold apiCreatePod
  obtain ⟨fs, hfs⟩ := nextFault_eq s
  generalize nextFault s = r at hfs
  obtain ⟨f, s0⟩ := r
  simp only at hfs
  subst hfs
  simp only
  by_cases h1 : isFailFault f = true
  · simp only [h1, if_true]
    refine ⟨_, Ext.of_eq rfl rfl rfl rfl rfl rfl rfl rfl, rfl, rfl, rfl, rfl, rfl, ?_, ?_, fun _ => rfl,
      fun h => by cases h⟩
    · intro p hp; cases hp
    · intro ho
      simp only [faultOut] at ho
      split at ho <;> simp at ho
  · simp only [h1, Bool.false_eq_true, if_false]
    by_cases h2 : (findPod s.pods (taskName jo.name idx.hash retry)).isSome = true
    · simp only [h2, if_true]
      refine ⟨_, Ext.of_eq rfl rfl rfl rfl rfl rfl rfl rfl, rfl, rfl, rfl, rfl, rfl, ?_, ?_, fun _ => rfl,
        fun _ => rfl⟩
      · intro p hp; cases hp
      · intro ho; simp at ho
    · simp only [h2, Bool.false_eq_true, if_false]
      refine ⟨_, ⟨rfl, rfl, rfl, rfl, rfl, rfl, fun _ _ h => h, ?_⟩, rfl, rfl, rfl, rfl, rfl, fun _ _ => rfl, ?_, ?_, ?_⟩
      · intro p hp
        rcases List.mem_append.mp hp with h | h
        · exact Or.inl ⟨p, h, rfl⟩
        · refine Or.inr ⟨_, List.mem_singleton.mpr rfl, rfl, rfl, rfl, ?_⟩
          rw [List.mem_singleton.mp h]
      · intro _
        refine ⟨by simpa using h2, _, rfl, rfl, rfl, rfl, rfl, rfl, rfl, rfl, rfl, ?_⟩
        intro q hq
        split at hq
        · cases hq
        · cases hq; rfl
      · intro ho; exact absurd rfl ho
      · intro h
        split at h <;> cases h

/-- the body of `apiDeletePod` once the fault `f` of the batch is known -/
def delBody (f : String) (s : Sys) (name : String) (force : Bool) : Sys × Bool :=
  if isFailFault f then (log s ⟨"delete", "pods", name, faultOut f, false, force⟩, false)
  else
    match findPod s.pods name with
    | none => (log s ⟨"delete", "pods", name, "notfound", false, force⟩, true)
    | some p =>
      let s := log s ⟨"delete", "pods", name, "ok", false, force⟩
      if force then
        ({ s with pods := delPod s.pods name, podEvs := s.podEvs ++ [.delete p] }, f ≠ "applied-err")
      else if p.pod.deletionTimestamp.isSome then (s, f ≠ "applied-err")
      else
        let p' := { p with pod := { p.pod with deletionTimestamp := some (nowT s) } }
        ({ s with rv := s.rv + 1, pods := setPod s.pods p', podEvs := s.podEvs ++ [.upsert p'] }, f ≠ "applied-err")

/-- the fault a pod delete of a batch sees, and the state it leaves behind -/
theorem apiDeletePod_eq (s : Sys) (name : String) (force : Bool) :
    ∃ f fs dr, apiDeletePod s name force = delBody f { s with faults := fs, delRun := dr } name force ∧
      (NoFault s → f = "" ∧ fs = [] ∧ ∀ g, dr = some g → g = "") := by
  unfold apiDeletePod popFault
  cases hd : s.delRun with
  | some f =>
    refine ⟨f, s.faults, s.delRun, rfl, ?_⟩
    intro hn
    exact ⟨hn.2 f hd, hn.1, fun g hg => hn.2 g hg⟩
  | none =>
    cases hf : s.faults with
    | nil =>
      refine ⟨"", [], some "", by simp only [hf]; rfl, ?_⟩
      intro _
      exact ⟨rfl, rfl, fun g hg => by cases hg; rfl⟩
    | cons f rest =>
      refine ⟨f, rest, some f, rfl, ?_⟩
      intro hn
      rw [hn.1] at hf; cases hf

/-- what a pod delete logs; it never creates a pod and never touches the queue -/
theorem apiDeletePod_ext (s : Sys) (name : String) (force : Bool) :
    ∃ c, Ext s (apiDeletePod s name force).1 [c] ∧
      c.verb = "delete" ∧ c.res = "pods" ∧ c.name = name ∧ c.force = force ∧
      (apiDeletePod s name force).1.q = s.q ∧
      (NoFault s → (apiDeletePod s name force).2 = true ∧ NoFault (apiDeletePod s name force).1 ∧
        (c.out = "ok" ∨ c.out = "notfound")) := by
  obtain ⟨f, fs, dr, he, hnf⟩ := apiDeletePod_eq s name force
  rw [he]
  unfold delBody
  simp only
  by_cases h1 : isFailFault f = true
  · simp only [h1, if_true]
    refine ⟨_, Ext.of_eq rfl rfl rfl rfl rfl rfl rfl rfl, rfl, rfl, rfl, rfl, rfl, ?_⟩
    intro hn
    rw [(hnf hn).1] at h1
    simp [isFailFault] at h1
  · simp only [h1, Bool.false_eq_true, if_false]
    cases hp : findPod s.pods name with
    | none =>
      simp only
      refine ⟨_, Ext.of_eq rfl rfl rfl rfl rfl rfl rfl rfl, rfl, rfl, rfl, rfl, rfl, ?_⟩
      intro hn
      exact ⟨trivial, ⟨(hnf hn).2.1, (hnf hn).2.2⟩, Or.inr rfl⟩
    | some p =>
      simp only
      have hnm := findPod_some hp
      by_cases hforce : force = true
      · simp only [hforce, if_true]
        refine ⟨_, ⟨rfl, rfl, rfl, rfl, rfl, rfl, fun _ _ h => h, ?_⟩, rfl, rfl, rfl, rfl, rfl, ?_⟩
        · intro x hx
          exact Or.inl ⟨x, mem_delPod _ _ _ hx, rfl⟩
        · intro hn
          refine ⟨?_, ⟨(hnf hn).2.1, (hnf hn).2.2⟩, Or.inl rfl⟩
          rw [(hnf hn).1]; simp
      · simp only [hforce, Bool.false_eq_true, if_false]
        by_cases hdts : p.pod.deletionTimestamp.isSome = true
        · simp only [hdts, if_true]
          refine ⟨_, Ext.of_eq rfl rfl rfl rfl rfl rfl rfl rfl, rfl, rfl, rfl, ?_, rfl, ?_⟩
          · simp
          · intro hn
            refine ⟨?_, ⟨(hnf hn).2.1, (hnf hn).2.2⟩, Or.inl rfl⟩
            rw [(hnf hn).1]; simp
        · simp only [hdts, Bool.false_eq_true, if_false]
          refine ⟨_, ⟨rfl, rfl, rfl, rfl, rfl, rfl, fun _ _ h => h, ?_⟩, rfl, rfl, rfl, ?_, rfl, ?_⟩
          · intro x hx
            rcases mem_setPod_name _ _ _ hx with h | h
            · exact Or.inl ⟨p, hnm.1, by rw [h]⟩
            · exact Or.inl ⟨x, h, rfl⟩
          · simp
          · intro hn
            refine ⟨?_, ⟨(hnf hn).2.1, (hnf hn).2.2⟩, Or.inl rfl⟩
            rw [(hnf hn).1]; simp

-- ---------------------------------------------------------------- deleteTasks

theorem mem_ins (n x : String) : ∀ l : List String, x ∈ deleteTasks.ins n l ↔ x = n ∨ x ∈ l
  | [] => by simp [deleteTasks.ins]
  | y :: r => by
    unfold deleteTasks.ins
    split
    · simp
    · simp only [List.mem_cons, mem_ins n x r]
      constructor
      · rintro (h | h | h)
        · exact Or.inr (Or.inl h)
        · exact Or.inl h
        · exact Or.inr (Or.inr h)
      · rintro (h | h | h)
        · exact Or.inr (Or.inl h)
        · exact Or.inl h
        · exact Or.inr (Or.inr h)

theorem mem_foldl_ins (x : String) : ∀ (names acc : List String),
    x ∈ names.foldl (fun acc n => deleteTasks.ins n acc) acc ↔ x ∈ names ∨ x ∈ acc
  | [], acc => by simp
  | n :: rest, acc => by
    simp only [List.foldl_cons, mem_foldl_ins x rest, mem_ins, List.mem_cons]
    constructor
    · rintro (h | h | h)
      · exact Or.inl (Or.inr h)
      · exact Or.inl (Or.inl h)
      · exact Or.inr h
    · rintro ((h | h) | h)
      · exact Or.inr (Or.inl h)
      · exact Or.inl h
      · exact Or.inr (Or.inr h)

/-- the fold of `deleteTasks` over the sorted names: one delete call per name, in order -/
theorem delFold_ext (force : Bool) (g : Sys × Bool → String → Sys × Bool)
    (hg : ∀ acc n, g acc n = ((apiDeletePod acc.1 n force).1, acc.2 && (apiDeletePod acc.1 n force).2)) :
    ∀ (names : List String) (s : Sys) (b : Bool),
      ∃ l, Ext s (names.foldl g (s, b)).1 l ∧ l.map (·.name) = names ∧
        (∀ c ∈ l, c.verb = "delete" ∧ c.res = "pods" ∧ c.force = force) ∧
        (names.foldl g (s, b)).1.q = s.q ∧
        (NoFault s → (names.foldl g (s, b)).2 = b ∧ NoFault (names.foldl g (s, b)).1 ∧
          ∀ c ∈ l, c.out = "ok" ∨ c.out = "notfound")
  | [], s, b => ⟨[], Ext.refl s, rfl, by simp, rfl, fun h => ⟨rfl, h, by simp⟩⟩
  | n :: rest, s, b => by
    obtain ⟨c, hext, hv, hr, hn, hf, hq, hnf⟩ := apiDeletePod_ext s n force
    obtain ⟨l, hext2, hnames, hall, hq2, hnf2⟩ :=
      delFold_ext force g hg rest (apiDeletePod s n force).1 (b && (apiDeletePod s n force).2)
    simp only [List.foldl_cons, hg]
    refine ⟨[c] ++ l, hext.trans hext2, by simp [hn, hnames], ?_, by rw [hq2, hq], ?_⟩
    · intro c' hc'
      rcases List.mem_append.mp hc' with h | h
      · rw [List.mem_singleton.mp h]; exact ⟨hv, hr, hf⟩
      · exact hall c' h
    · intro hno
      obtain ⟨hok, hno1, hout⟩ := hnf hno
      obtain ⟨hb, hno2, hout2⟩ := hnf2 hno1
      refine ⟨by rw [hb, hok]; simp, hno2, ?_⟩
      intro c' hc'
      rcases List.mem_append.mp hc' with h | h
      · rw [List.mem_singleton.mp h]; exact hout
      · exact hout2 c' h

/-- `deleteTasks` wants a delete for this task: always when forcing; otherwise unless its deletion
timestamp is already set and earlier than the clock -/
def DelWanted (s : Sys) (force : Bool) (t : Task) : Prop :=
  force = true ∨ ∀ ts, t.deletionTimestamp = some ts → ¬ ts < s.clock

/-- `deleteTasks`: exactly one pod delete per wanted task (by name), nothing else; no timer -/
theorem deleteTasks_ext (s : Sys) (tasks : List Task) (force : Bool) :
    ∃ l, Ext s (deleteTasks s tasks force).1 l ∧
      (∀ c ∈ l, c.verb = "delete" ∧ c.res = "pods" ∧ c.force = force ∧
        ∃ t ∈ tasks, t.name = c.name ∧ DelWanted s force t) ∧
      (∀ t ∈ tasks, DelWanted s force t → ∃ c ∈ l, c.name = t.name) ∧
      (deleteTasks s tasks force).1.q = s.q ∧
      (NoFault s → (deleteTasks s tasks force).2 = true ∧ NoFault (deleteTasks s tasks force).1 ∧
        ∀ c ∈ l, c.out = "ok" ∨ c.out = "notfound") := by
  unfold deleteTasks
  simp only
  have hfilter : ∀ t : Task, (force || !(match t.deletionTimestamp with
      | some ts => decide (ts < s.clock) | none => false)) = true ↔ DelWanted s force t := by
    intro t
    unfold DelWanted
    cases t.deletionTimestamp <;> cases force <;> simp
  obtain ⟨l, hext, hnames, hall, hq, hnf⟩ := delFold_ext force _ (fun acc n => rfl)
    (List.foldl (fun acc n => deleteTasks.ins n acc) []
      (List.map (fun x => x.name) (List.filter (fun t => force || !(match t.deletionTimestamp with
        | some ts => decide (ts < s.clock) | none => false)) tasks))) s true
  have hmem : ∀ n, n ∈ l.map (·.name) ↔ ∃ t ∈ tasks, t.name = n ∧ DelWanted s force t := by
    intro n
    rw [hnames, mem_foldl_ins]
    simp only [List.mem_map, List.mem_filter, List.not_mem_nil, or_false]
    constructor
    · rintro ⟨t, ⟨ht, hw⟩, rfl⟩
      exact ⟨t, ht, rfl, (hfilter t).mp hw⟩
    · rintro ⟨t, ht, rfl, hw⟩
      exact ⟨t, ⟨ht, (hfilter t).mpr hw⟩, rfl⟩
  refine ⟨l, hext, ?_, ?_, hq, hnf⟩
  · intro c hc
    obtain ⟨hv, hr, hf⟩ := hall c hc
    exact ⟨hv, hr, hf, (hmem c.name).mp (List.mem_map.mpr ⟨c, hc, rfl⟩)⟩
  · intro t ht hw
    obtain ⟨c, hc, hn⟩ := List.mem_map.mp ((hmem t.name).mpr ⟨t, ht, rfl, hw⟩)
    exact ⟨c, hc, hn⟩

-- ---------------------------------------------------------------- Job writes

theorem apiDeleteJob_ext (s : Sys) (cached : JobObj) :
    ∃ c, Ext s (apiDeleteJob s cached).1 [c] ∧ c.verb = "delete" ∧ c.res = "jobs" ∧ c.name = cached.name ∧
      (apiDeleteJob s cached).1.q = s.q ∧ (apiDeleteJob s cached).1.pods = s.pods := by
  unfold apiDeleteJob
  obtain ⟨fs, hfs⟩ := nextFault_eq s
  generalize nextFault s = r at hfs
  obtain ⟨f, s0⟩ := r
  simp only at hfs
  subst hfs
  simp only
  split
  · exact ⟨_, Ext.of_eq rfl rfl rfl rfl rfl rfl rfl rfl, rfl, rfl, rfl, rfl, rfl⟩
  · split
    · exact ⟨_, Ext.of_eq rfl rfl rfl rfl rfl rfl rfl rfl, rfl, rfl, rfl, rfl, rfl⟩
    · split
      · split
        · exact ⟨_, Ext.of_eq rfl rfl rfl rfl rfl rfl rfl rfl, rfl, rfl, rfl, rfl, rfl⟩
        · exact ⟨_, Ext.of_eq rfl rfl rfl rfl rfl rfl rfl rfl, rfl, rfl, rfl, rfl, rfl⟩
      · exact ⟨_, Ext.of_eq rfl rfl rfl rfl rfl rfl rfl rfl, rfl, rfl, rfl, rfl, rfl⟩

theorem apiUpdateJob_ext (s : Sys) (cached new : JobObj) :
    ∃ c, Ext s (apiUpdateJob s cached new).1 [c] ∧ c.verb = "update" ∧ c.res = "jobs" ∧ c.name = cached.name ∧
      c.sub = false ∧ (apiUpdateJob s cached new).1.q = s.q ∧ (apiUpdateJob s cached new).1.pods = s.pods := by
  unfold apiUpdateJob
  obtain ⟨fs, hfs⟩ := nextFault_eq s
  generalize nextFault s = r at hfs
  obtain ⟨f, s0⟩ := r
  simp only at hfs
  subst hfs
  simp only
  split
  · exact ⟨_, Ext.of_eq rfl rfl rfl rfl rfl rfl rfl rfl, rfl, rfl, rfl, rfl, rfl, rfl⟩
  · split
    · exact ⟨_, Ext.of_eq rfl rfl rfl rfl rfl rfl rfl rfl, rfl, rfl, rfl, rfl, rfl, rfl⟩
    · split
      · exact ⟨_, Ext.of_eq rfl rfl rfl rfl rfl rfl rfl rfl, rfl, rfl, rfl, rfl, rfl, rfl⟩
      · split
        · exact ⟨_, Ext.of_eq rfl rfl rfl rfl rfl rfl rfl rfl, rfl, rfl, rfl, rfl, rfl, rfl⟩
        · split
          · exact ⟨_, Ext.of_eq rfl rfl rfl rfl rfl rfl rfl rfl, rfl, rfl, rfl, rfl, rfl, rfl⟩
          · exact ⟨_, Ext.of_eq rfl rfl rfl rfl rfl rfl rfl rfl, rfl, rfl, rfl, rfl, rfl, rfl⟩

theorem apiUpdateJobStatus_ext (s : Sys) (cached new : JobObj) :
    ∃ c, Ext s (apiUpdateJobStatus s cached new).1 [c] ∧ c.verb = "update" ∧ c.res = "jobs" ∧
      c.name = cached.name ∧ c.sub = true ∧
      (apiUpdateJobStatus s cached new).1.q = s.q ∧ (apiUpdateJobStatus s cached new).1.pods = s.pods := by
  unfold apiUpdateJobStatus
  obtain ⟨fs, hfs⟩ := nextFault_eq s
  generalize nextFault s = r at hfs
  obtain ⟨f, s0⟩ := r
  simp only at hfs
  subst hfs
  simp only
  split
  · exact ⟨_, Ext.of_eq rfl rfl rfl rfl rfl rfl rfl rfl, rfl, rfl, rfl, rfl, rfl, rfl⟩
  · split
    · exact ⟨_, Ext.of_eq rfl rfl rfl rfl rfl rfl rfl rfl, rfl, rfl, rfl, rfl, rfl, rfl⟩
    · split
      · exact ⟨_, Ext.of_eq rfl rfl rfl rfl rfl rfl rfl rfl, rfl, rfl, rfl, rfl, rfl, rfl⟩
      · split
        · exact ⟨_, Ext.of_eq rfl rfl rfl rfl rfl rfl rfl rfl, rfl, rfl, rfl, rfl, rfl, rfl⟩
        · exact ⟨_, Ext.of_eq rfl rfl rfl rfl rfl rfl rfl rfl, rfl, rfl, rfl, rfl, rfl, rfl⟩

-- ---------------------------------------------------------------- status recomputation

/-- two Job values with the same spec / metadata as far as the controller reads them -/
structure SameSpec (a b : Job) : Prop where
  template : b.template = a.template
  killTimestamp : b.killTimestamp = a.killTimestamp
  ttl : b.ttlSecondsAfterFinished = a.ttlSecondsAfterFinished
  startPolicy : b.startPolicy = a.startPolicy
  admissionError : b.admissionError = a.admissionError
  deletionTimestamp : b.deletionTimestamp = a.deletionTimestamp

theorem SameSpec.refl (a : Job) : SameSpec a a := ⟨rfl, rfl, rfl, rfl, rfl, rfl⟩
theorem SameSpec.trans {a b c : Job} (h1 : SameSpec a b) (h2 : SameSpec b c) : SameSpec a c :=
  ⟨h2.template.trans h1.template, h2.killTimestamp.trans h1.killTimestamp, h2.ttl.trans h1.ttl,
   h2.startPolicy.trans h1.startPolicy, h2.admissionError.trans h1.admissionError,
   h2.deletionTimestamp.trans h1.deletionTimestamp⟩

theorem updateJobTaskRefs_sameSpec (now : Time) (rj : Job) (tasks : List Task) :
    SameSpec rj (updateJobTaskRefs now rj tasks) := ⟨rfl, rfl, rfl, rfl, rfl, rfl⟩

theorem markDeleted_sameSpec (rj : Job) (names : List String) (f : TaskRef → TaskRef) :
    SameSpec rj (markDeleted rj names f) := ⟨rfl, rfl, rfl, rfl, rfl, rfl⟩

theorem markDeleted_parallelStatus (rj : Job) (names : List String) (f : TaskRef → TaskRef) :
    (markDeleted rj names f).status.parallelStatus = rj.status.parallelStatus := rfl

theorem updateStatus_some (now : Time) (d : PIndex) (rj nj : Job)
    (h : updateJobStatusFromTaskRefs now d rj = some nj) :
    SameSpec rj nj ∧ nj.status.tasks = rj.status.tasks := by
  unfold updateJobStatusFromTaskRefs updateJobStatusFromTaskRefsWith at h
  cases ht : rj.template with
  | none => rw [ht] at h; cases h
  | some t =>
    rw [ht] at h
    simp only [Option.some.injEq] at h
    subst h
    exact ⟨⟨ht.symm, rfl, rfl, rfl, rfl, rfl⟩, rfl⟩

/-- `syncJobStatusFromTaskRefs` issues no API call; it only recomputes the status and may arm
the TTL timer -/
theorem syncJobStatus_ext (s : Sys) (key : String) (rj : Job) :
    Ext s (syncJobStatusFromTaskRefs s key rj).1 [] ∧ SameSpec rj (syncJobStatusFromTaskRefs s key rj).2 ∧
      (syncJobStatusFromTaskRefs s key rj).2.status.tasks = rj.status.tasks ∧
      (syncJobStatusFromTaskRefs s key rj).1.pods = s.pods := by
  unfold syncJobStatusFromTaskRefs
  cases hu : updateJobStatusFromTaskRefs s.clock s.d rj with
  | none => exact ⟨Ext.refl s, SameSpec.refl rj, rfl, rfl⟩
  | some nj =>
    obtain ⟨hs, ht⟩ := updateStatus_some _ _ _ _ hu
    simp only
    split
    · split
      · split
        · exact ⟨enqueueAfter_ext _ _ _, hs, ht, rfl⟩
        · exact ⟨Ext.refl s, hs, ht, rfl⟩
      · exact ⟨Ext.refl s, hs, ht, rfl⟩
    · exact ⟨Ext.refl s, hs, ht, rfl⟩

/-- the exact condition under which `syncJobStatusFromTaskRefs` arms the TTL timer: the recomputed
status is finished, the Job is not being deleted, and the JOB-LEVEL `ttlSecondsAfterFinished`
is set -/
theorem syncJobStatus_armed (s : Sys) (key : String) (rj nj : Job) (fin : CondFinished) (ttl : Int)
    (hu : updateJobStatusFromTaskRefs s.clock s.d rj = some nj)
    (hf : nj.status.condition.finished = some fin) (hd : isDeleted nj = false)
    (ht : rj.ttlSecondsAfterFinished = some ttl) :
    syncJobStatusFromTaskRefs s key rj =
      (enqueueAfter s key (fin.finishTimestamp.getD zeroTime + secs ttl), nj) := by
  have hs := (updateStatus_some _ _ _ _ hu).1
  unfold syncJobStatusFromTaskRefs
  simp [hu, hf, hd, hs.ttl, ht]

/-- … and in every other case the system state is returned untouched (no timer) -/
theorem syncJobStatus_unarmed (s : Sys) (key : String) (rj : Job)
    (h : rj.ttlSecondsAfterFinished = none ∨ isDeleted rj = true ∨
      ∀ nj, updateJobStatusFromTaskRefs s.clock s.d rj = some nj → nj.status.condition.finished = none) :
    (syncJobStatusFromTaskRefs s key rj).1 = s := by
  unfold syncJobStatusFromTaskRefs
  cases hu : updateJobStatusFromTaskRefs s.clock s.d rj with
  | none => rfl
  | some nj =>
    have hs := (updateStatus_some _ _ _ _ hu).1
    simp only
    cases hf : nj.status.condition.finished with
    | none => rfl
    | some fin =>
      simp only
      rcases h with h | h | h
      · split
        · simp [hs.ttl, h]
        · rfl
      · have : isDeleted nj = true := by unfold isDeleted at *; rw [hs.deletionTimestamp]; exact h
        simp [this]
      · rw [h nj hu] at hf; cases hf

theorem updateTaskRefStatus_ext (s : Sys) (key : String) (rj : Job) (tasks : List Task) :
    Ext s (updateTaskRefStatus s key rj tasks).1 [] ∧ SameSpec rj (updateTaskRefStatus s key rj tasks).2 ∧
      (updateTaskRefStatus s key rj tasks).1.pods = s.pods := by
  unfold updateTaskRefStatus
  obtain ⟨h1, h2, _, h4⟩ := syncJobStatus_ext s key (updateJobTaskRefs s.clock rj tasks)
  exact ⟨h1, (updateJobTaskRefs_sameSpec _ _ _).trans h2, h4⟩

end Furiko.JobCtlPlan
