/-
Liveness of the job controller, force-delete part 3: `handleForceDeleteKillingTasks` when every listed task
that is being deleted is past the force-delete timeout (`handleForce_fire`: all of them are force-deleted),
and `syncJobTasks` on a killed Job whose unfinished tasks are all being deleted and past that timeout
(`syncJobTasks_force`): their pods are removed from the server, nothing else is deleted.  Core Lean only.
-/
import FurikoModel.Proofs.JobCtlLiveF2

set_option linter.unusedSimpArgs false
set_option linter.unusedVariables false

namespace Furiko.JobCtl.Live
open Furiko Furiko.JobCtl Furiko.WQ Furiko.StatusLemmas Furiko.JobCtlPlan Furiko.Conv

/-- the task is not being deleted, or it is and the force-delete timeout `F` has elapsed at `clk` -/
def ForceDue (clk F : Int) (t : Task) : Prop :=
  t.deletionTimestamp = none ∨ ∃ D, t.deletionTimestamp = some D ∧ D + F ≤ clk

theorem forceFold_due (F : Int) (f : Sys × List Task → Task → Sys × List Task)
    (hnone : ∀ acc t, t.deletionTimestamp = none → f acc t = acc)
    (hsome : ∀ acc t D, t.deletionTimestamp = some D → D + F ≤ acc.1.clock → f acc t = (acc.1, acc.2 ++ [t])) :
    ∀ (tasks : List Task) (s : Sys) (acc : List Task), (∀ t ∈ tasks, ForceDue s.clock F t) →
    tasks.foldl f (s, acc) = (s, acc ++ tasks.filter (fun t => t.deletionTimestamp.isSome))
  | [], s, acc, _ => by simp
  | t :: rest, s, acc, h => by
    simp only [List.foldl_cons]
    rcases h t List.mem_cons_self with hn | ⟨D, hD, hle⟩
    · rw [hnone (s, acc) t hn]
      rw [forceFold_due F f hnone hsome rest s acc (fun t' ht' => h t' (List.mem_cons_of_mem _ ht'))]
      simp [List.filter_cons, hn]
    · rw [hsome (s, acc) t D hD hle]
      rw [forceFold_due F f hnone hsome rest s (acc ++ [t]) (fun t' ht' => h t' (List.mem_cons_of_mem _ ht'))]
      simp [List.filter_cons, hD]

/-- a lower bound of all finish times is kept by marking refs -/
theorem markDeleted_lb (F0 : Int) (rj : Job) (names : List String) (f : TaskRef → TaskRef)
    (hf : ∀ r, (f r).finishTimestamp = r.finishTimestamp)
    (h : ∀ r ∈ rj.status.tasks, ∀ x, r.finishTimestamp = some x → F0 ≤ x) :
    ∀ r ∈ (markDeleted rj names f).status.tasks, ∀ x, r.finishTimestamp = some x → F0 ≤ x := by
  intro r hr x hx
  have hm := markDeleted_names rj names f hf
  have : r.finishTimestamp ∈ (markDeleted rj names f).status.tasks.map (·.finishTimestamp) := List.mem_map.mpr ⟨r, hr, rfl⟩
  rw [hm] at this
  obtain ⟨r', hr', e⟩ := List.mem_map.mp this
  exact h r' hr' x (by rw [e]; exact hx)

/-- **`handleForceDeleteKillingTasks`, every task that is being deleted past the timeout**: all of them are
force-deleted -/
theorem handleForce_fire (s : Sys) (jo : JobObj) (rj : Job) (tasks : List Task)
    (hF : 0 < getForceDeleteTimeout s.cfg)
    (hforb : (rj.template.map (·.forbidTaskForceDeletion)).getD false = false)
    (hT : ∀ t ∈ tasks, ForceDue s.clock (getForceDeleteTimeout s.cfg) t) (hnf : NoFault s) :
    ∃ s' rj' M, handleForceDelete s jo rj tasks = (s', some rj') ∧ Removed s s' M ∧
      (∀ n, n ∈ M ↔ ∃ t ∈ tasks, t.name = n ∧ t.deletionTimestamp.isSome = true) ∧ SameSpec rj rj' ∧
      rj'.status.startTime = rj.status.startTime ∧
      (∀ F0 : Int, (∀ r ∈ rj.status.tasks, ∀ x, r.finishTimestamp = some x → F0 ≤ x) →
        (∀ t ∈ tasks, ∀ x, t.ref.finishTimestamp = some x → F0 ≤ x) → F0 ≤ s.clock →
        ∀ r ∈ rj'.status.tasks, ∀ x, r.finishTimestamp = some x → F0 ≤ x) := by
  unfold handleForceDelete
  have h0 : ¬ (getForceDeleteTimeout s.cfg ≤ 0) := Int.not_le.mpr hF
  simp only [h0, ↓reduceIte, hforb, Bool.false_eq_true]
  rw [forceFold_due (getForceDeleteTimeout s.cfg) _ (fun acc t h => by simp only [h])
    (fun acc t D h hle => by
      have hnot : ¬ (D + getForceDeleteTimeout s.cfg > acc.1.clock) := fun hgt => absurd hle (Int.not_le.mpr hgt)
      simp only [h, hnot, decide_false, Bool.not_false, ↓reduceIte]) tasks s [] hT]
  simp only [List.nil_append]
  by_cases hempty : (tasks.filter (fun t => t.deletionTimestamp.isSome)).isEmpty = true
  · simp only [hempty, ↓reduceIte]
    refine ⟨s, rj, [], rfl, Removed.refl s hnf, ?_, SameSpec.refl rj, rfl, fun F0 h _ _ => h⟩
    intro n
    constructor
    · intro h; cases h
    · rintro ⟨t, ht, _, hd⟩
      have : t ∈ tasks.filter (fun t => t.deletionTimestamp.isSome) := List.mem_filter.mpr ⟨ht, hd⟩
      rw [List.isEmpty_iff.mp hempty] at this; cases this
  · simp only [hempty, Bool.false_eq_true, ↓reduceIte]
    obtain ⟨hok, hrm⟩ := deleteTasks_force s (tasks.filter (fun t => t.deletionTimestamp.isSome)) hnf
    generalize hD : deleteTasks s (tasks.filter (fun t => t.deletionTimestamp.isSome)) true = Dl at hok hrm
    obtain ⟨s2, ok⟩ := Dl
    simp only at hok hrm
    subst hok
    simp only [↓reduceIte]
    refine ⟨s2, _, _, rfl, hrm, ?_, (markDeleted_sameSpec _ _ _).trans (updateJobTaskRefs_sameSpec _ _ _), rfl, ?_⟩
    · intro n
      simp only [List.mem_map, List.mem_filter]
      constructor
      · rintro ⟨t, ⟨ht, hd⟩, rfl⟩; exact ⟨t, ht, rfl, hd⟩
      · rintro ⟨t, ht, rfl, hd⟩; exact ⟨t, ⟨ht, hd⟩, rfl⟩
    · intro F0 hrefs htasks hclk
      exact gen_lb F0 s.clock _ tasks (markDeleted_lb F0 rj _ _ (fun r => rfl) hrefs) htasks hclk

/-- `handleKillJob` when every unfinished listed task is already being deleted: nothing -/
theorem handleKill_nothing (s : Sys) (jo : JobObj) (rj : Job) (tasks : List Task) (kt : Time)
    (hk : rj.killTimestamp = some kt) (hle : kt ≤ s.clock)
    (h : ∀ t ∈ tasks, isTaskFinished t = true ∨ t.deletionTimestamp.isSome = true) :
    handleKillJob s jo rj tasks = (s, some rj) := by
  have hshould : shouldKillJob s.clock rj = true := by
    unfold shouldKillJob; rw [hk, passed_true hle]; rfl
  unfold handleKillJob
  simp only [hshould, Bool.not_true, Bool.false_eq_true, ↓reduceIte]
  have : tasks.filter (fun t => !isTaskFinished t && t.deletionTimestamp.isNone) = [] := by
    apply List.filter_eq_nil_iff.mpr
    intro t ht
    rcases h t ht with hf | hd
    · simp [hf]
    · cases hx : t.deletionTimestamp with
      | none => rw [hx] at hd; cases hd
      | some _ => simp
  simp [this]

/-- **`syncJobTasks` on a killed Job whose unfinished tasks are all being deleted and past the force-delete
timeout**: exactly the pods of the tasks being deleted are removed -/
theorem syncJobTasks_force (sp : Sys) (jo : JobObj) (kt : Time) (hspec : KillSpec jo.job kt) (hle : kt ≤ sp.clock)
    (hnf : NoFault sp) (hF : 0 < getForceDeleteTimeout sp.cfg)
    (hforb : (jo.job.template.map (·.forbidTaskForceDeletion)).getD false = false)
    (hT : ∀ t ∈ killTasks sp jo, (isTaskFinished t = true ∧ t.deletionTimestamp = none) ∨
      (isTaskFinished t = false ∧ ∃ D, t.deletionTimestamp = some D ∧ D + getForceDeleteTimeout sp.cfg ≤ sp.clock))
    (hfn : TasksFn (killTasks sp jo)) :
    ∃ s6 rj5 M, syncJobTasks sp jo jo.job = (s6, some (recompute sp.clock sp.d rj5 (killTasks sp jo))) ∧
      Frame sp s6 ∧ s6.pods = sp.pods.filter (keepPod M) ∧
      (∀ e ∈ s6.podEvs, e ∈ sp.podEvs ∨ ∃ p0 ∈ sp.pods, e = PEv.delete p0) ∧
      (∀ n, n ∈ M ↔ ∃ t ∈ killTasks sp jo, t.name = n ∧ isTaskFinished t = false) ∧
      KillSpec rj5 kt ∧ SameSpec jo.job rj5 ∧
      (∀ F0 : Int, (∀ r ∈ jo.job.status.tasks, ∀ x, r.finishTimestamp = some x → F0 ≤ x) →
        (∀ t ∈ killTasks sp jo, ∀ x, t.ref.finishTimestamp = some x → F0 ≤ x) → F0 ≤ sp.clock →
        ∀ r ∈ rj5.status.tasks, ∀ x, r.finishTimestamp = some x → F0 ≤ x) := by
  have hcreate : syncCreateTasks sp jo jo.job (tasksForRefs sp jo jo.job.status.tasks) =
      (sp, some (jo.job, killTasks sp jo)) :=
    syncCreateTasks_kill sp jo jo.job (tasksForRefs sp jo jo.job.status.tasks) kt hspec.kill
  -- first refresh
  have hU2 := updateTaskRefStatus_snd sp (jobKey jo) jo.job (killTasks sp jo)
  have hU1 := updateTaskRefStatus_fst sp (jobKey jo) jo.job (killTasks sp jo)
  generalize hU : updateTaskRefStatus sp (jobKey jo) jo.job (killTasks sp jo) = U at hU1 hU2
  obtain ⟨s2, rj2⟩ := U
  simp only at hU1 hU2
  subst hU2
  have hst2 := hU1.static
  have hrc := recompute_sameSpec sp.clock sp.d jo.job (killTasks sp jo)
  have hk2 : KillSpec (recompute sp.clock sp.d jo.job (killTasks sp jo)) kt := hspec.recompute _ _ _
  -- pending tasks: nothing to delete
  obtain ⟨s3, hP, hP1, _⟩ := handlePending_quiet s2 jo (recompute sp.clock sp.d jo.job (killTasks sp jo)) (killTasks sp jo)
    hfn sp.clock jo.job.status.tasks (recompute_sameSpec sp.clock sp.d jo.job (killTasks sp jo)).2.1 (by
    intro pt _ _ t ht
    rcases hT t ht with ⟨hf, _⟩ | ⟨_, D, hD, _⟩
    · exact Or.inl hf
    · exact Or.inr (Or.inr (Or.inr (by rw [hD]; rfl))))
  have hst3 := hP1.static
  have hclk3 : s3.clock = sp.clock := hst3.1.trans hst2.1
  -- kill: nothing left to delete gracefully
  have hK := handleKill_nothing s3 jo (recompute sp.clock sp.d jo.job (killTasks sp jo)) (killTasks sp jo) kt hk2.kill
    (by rw [hclk3]; exact hle) (by
      intro t ht
      rcases hT t ht with ⟨hf, _⟩ | ⟨_, D, hD, _⟩
      · exact Or.inl hf
      · exact Or.inr (by rw [hD]; rfl))
  -- force delete
  have hcfg3 : s3.cfg = sp.cfg := hst3.2.2.1.trans hst2.2.2.1
  have hnf3 : NoFault s3 := ⟨by rw [hst3.2.2.2.2.2.2.2.2.2.2.1, hst2.2.2.2.2.2.2.2.2.2.2.1]; exact hnf.1,
    by rw [hst3.2.2.2.2.2.2.2.2.2.2.2.1, hst2.2.2.2.2.2.2.2.2.2.2.2.1]; exact hnf.2⟩
  obtain ⟨s5, rj5, M, hFo, hrm, hM, hs5, hst5, hlb5⟩ := handleForce_fire s3 jo (recompute sp.clock sp.d jo.job (killTasks sp jo))
    (killTasks sp jo) (by rw [hcfg3]; exact hF) (by rw [hrc.1.template]; exact hforb) (by
      intro t ht
      rw [hclk3, hcfg3]
      rcases hT t ht with ⟨_, hn⟩ | ⟨_, D, hD, hle'⟩
      · exact Or.inl hn
      · exact Or.inr ⟨D, hD, hle'⟩) hnf3
  have hk5 : KillSpec rj5 kt := hk2.congr hs5 hst5
  -- second refresh
  have hV2 := updateTaskRefStatus_snd s5 (jobKey jo) rj5 (killTasks sp jo)
  have hV1 := updateTaskRefStatus_fst s5 (jobKey jo) rj5 (killTasks sp jo)
  generalize hV : updateTaskRefStatus s5 (jobKey jo) rj5 (killTasks sp jo) = V at hV1 hV2
  obtain ⟨s6, rj6⟩ := V
  simp only at hV1 hV2
  subst hV2
  have hst6 := hV1.static
  have hclk5 : s5.clock = sp.clock := hrm.clock.trans hclk3
  have hd5 : s5.d = sp.d := hrm.d.trans (hst3.2.1.trans hst2.2.1)
  rw [hclk5, hd5] at hV
  have hpods3 : s3.pods = sp.pods := hst3.2.2.2.1.trans hst2.2.2.2.1
  have hpev3 : s3.podEvs = sp.podEvs := hst3.2.2.2.2.2.2.2.2.1.trans hst2.2.2.2.2.2.2.2.2.1
  refine ⟨s6, rj5, M, ?_, ?_, ?_, ?_, ?_, hk5, hrc.1.trans hs5, ?_⟩
  · unfold syncJobTasks
    simp only [hcreate, hU, hP, hK, hFo, hV]
  · exact (((Frame.of_timers hU1).trans (Frame.of_timers hP1)).trans (Frame.of_removed hrm)).trans (Frame.of_timers hV1)
  · rw [hst6.2.2.2.1, hrm.pods, hpods3]
  · intro e he
    rw [hst6.2.2.2.2.2.2.2.2.1] at he
    rcases hrm.evs e he with h | ⟨p0, hp0, e1⟩
    · exact Or.inl (by rw [← hpev3]; exact h)
    · exact Or.inr ⟨p0, by rw [← hpods3]; exact hp0, e1⟩
  · intro n
    rw [hM]
    constructor
    · rintro ⟨t, ht, hn, hd⟩
      rcases hT t ht with ⟨_, hnone⟩ | ⟨hf, _⟩
      · rw [hnone] at hd; cases hd
      · exact ⟨t, ht, hn, hf⟩
    · rintro ⟨t, ht, hn, hf⟩
      rcases hT t ht with ⟨hfin, _⟩ | ⟨_, D, hD, _⟩
      · rw [hfin] at hf; cases hf
      · exact ⟨t, ht, hn, by rw [hD]; rfl⟩
  · intro F0 hrefs htasks hclk
    apply hlb5 F0 ?_ htasks (by rw [hclk3]; exact hclk)
    rw [hrc.2.1]
    exact gen_lb F0 sp.clock _ _ hrefs htasks hclk

end Furiko.JobCtl.Live
