/-
Lemmas about the retry loop (`Model/Retry.lean`): what one `work` step guarantees for the key it
processed, and the run-level argument (measure, invariant, clock bound) behind
`Props/C20.retry_until_success`.
-/
import FurikoModel.Model.Retry
import FurikoModel.Proofs.QueueWQ

set_option linter.unusedSimpArgs false
set_option linter.unusedVariables false

namespace Furiko.Retry
open Furiko.WQ

/-! ### association lists -/

theorem mem_keys_setDelayed_self (d : List (String × Int)) (k : String) (t : Int) :
    k ∈ (setDelayed d k t).map (·.1) := by
  induction d with
  | nil => simp [setDelayed]
  | cons y rest ih =>
    obtain ⟨k', dl⟩ := y
    simp only [setDelayed]
    split
    · simp
    · simp only [List.map_cons, List.mem_cons]
      exact Or.inr ih

theorem mem_keys_setDelayed_mono {d : List (String × Int)} {k x : String} {t : Int}
    (h : x ∈ d.map (·.1)) : x ∈ (setDelayed d k t).map (·.1) := by
  induction d with
  | nil => simp at h
  | cons y rest ih =>
    obtain ⟨k', dl⟩ := y
    simp only [setDelayed]
    simp only [List.map_cons, List.mem_cons] at h
    split
    · rename_i hk
      simp only [List.map_cons, List.mem_cons]
      rcases h with h | h
      · left; rw [h, hk]
      · right; exact h
    · simp only [List.map_cons, List.mem_cons]
      rcases h with h | h
      · left; exact h
      · right; exact ih h

theorem mem_keys_of_setDelayed {d : List (String × Int)} {k x : String} {t : Int}
    (h : x ∈ (setDelayed d k t).map (·.1)) : x ∈ d.map (·.1) ∨ x = k := by
  obtain ⟨p, hp, rfl⟩ := List.mem_map.mp h
  rcases mem_setDelayed hp with h' | h'
  · exact Or.inl (List.mem_map.mpr ⟨p, h', rfl⟩)
  · exact Or.inr h'

theorem length_setDelayed_le (d : List (String × Int)) (k : String) (t : Int) :
    (setDelayed d k t).length ≤ d.length + 1 := by
  induction d with
  | nil => simp [setDelayed]
  | cons y rest ih =>
    obtain ⟨k', dl⟩ := y
    simp only [setDelayed]
    split
    · simp
    · simp only [List.length_cons]; omega

theorem setDelayed_bound {d : List (String × Int)} {k : String} {t U : Int}
    (hd : ∀ p ∈ d, p.2 ≤ U) (ht : t ≤ U) : ∀ p ∈ setDelayed d k t, p.2 ≤ U := by
  induction d with
  | nil => intro p hp; simp [setDelayed] at hp; rw [hp]; exact ht
  | cons y rest ih =>
    obtain ⟨k', dl⟩ := y
    intro p hp
    simp only [setDelayed] at hp
    have hy : dl ≤ U := hd (k', dl) (by simp)
    have hrest : ∀ p ∈ rest, p.2 ≤ U := fun p hp => hd p (List.mem_cons_of_mem _ hp)
    split at hp
    · simp only [List.mem_cons] at hp
      rcases hp with hp | hp
      · rw [hp]; simp only; split <;> omega
      · exact hrest p hp
    · simp only [List.mem_cons] at hp
      rcases hp with hp | hp
      · rw [hp]; exact hy
      · exact ih hrest p hp

theorem numRequeues_filter_ne (r : List (String × Nat)) (k : String) :
    numRequeues (r.filter (·.1 ≠ k)) k = 0 := by
  induction r with
  | nil => rfl
  | cons y rest ih =>
    obtain ⟨k', n⟩ := y
    by_cases hk : k' = k
    · simpa [List.filter, hk] using ih
    · simpa [List.filter, hk, numRequeues] using ih

theorem numRequeues_setRequeues_self (r : List (String × Nat)) (k : String) (n : Nat) :
    numRequeues (setRequeues r k n) k = n := by
  induction r with
  | nil => simp [setRequeues, numRequeues]
  | cons y rest ih =>
    obtain ⟨k', m⟩ := y
    by_cases hk : k' = k
    · simp [setRequeues, numRequeues, hk]
    · simp [setRequeues, numRequeues, hk, ih]

/-! ### frame facts of the queue operations -/

@[simp] theorem add_requeues (q : WQ) (k : String) : (q.add k).requeues = q.requeues := by
  unfold WQ.add
  split
  · rfl
  · simp only; split <;> rfl
@[simp] theorem add_delayed (q : WQ) (k : String) : (q.add k).delayed = q.delayed := by
  unfold WQ.add
  split
  · rfl
  · simp only; split <;> rfl
@[simp] theorem add_processing (q : WQ) (k : String) : (q.add k).processing = q.processing := by
  unfold WQ.add
  split
  · rfl
  · simp only; split <;> rfl
@[simp] theorem done_requeues (q : WQ) (k : String) : (q.done k).requeues = q.requeues := by
  unfold WQ.done; simp only; split <;> rfl
@[simp] theorem done_delayed (q : WQ) (k : String) : (q.done k).delayed = q.delayed := by
  unfold WQ.done; simp only; split <;> rfl

theorem applyOps_requeues (q : WQ) (now : Int) (ops : List QOp) :
    (applyOps q now ops).requeues = q.requeues := by
  induction ops generalizing q with
  | nil => rfl
  | cons o rest ih =>
    simp only [applyOps, List.foldl_cons] at ih ⊢
    rw [ih]
    cases o <;> simp [applyOp, WQ.addAfter]

theorem applyOps_delayedKeys_mono {q : WQ} {now : Int} {ops : List QOp} {x : String}
    (h : x ∈ delayedKeys q) : x ∈ delayedKeys (applyOps q now ops) := by
  induction ops generalizing q with
  | nil => exact h
  | cons o rest ih =>
    simp only [applyOps, List.foldl_cons] at ih ⊢
    apply ih
    cases o with
    | add k => simpa [applyOp, delayedKeys] using h
    | addAfter k t => exact mem_keys_setDelayed_mono h

/-! ### one `work` step -/

/-- the shape of `work` on a non-empty ready list -/
theorem work_cons {q : WQ} {k : String} {rest : List String} (hq : q.queue = k :: rest)
    (mr now : Int) (r : SyncResult) :
    work q mr now r =
      let q1 : WQ := { q with queue := rest, processing := k :: q.processing, dirty := q.dirty.erase k }
      let res := syncItem q1 mr now k r
      (if res.2 then res.1.forget k else res.1).done k := by
  unfold work WQ.get
  rw [hq]

theorem work_nil {q : WQ} (hq : q.queue = []) (mr now : Int) (r : SyncResult) : work q mr now r = q := by
  unfold work WQ.get
  rw [hq]

/-- **never dropped**: a failed sync of a splittable key under an unlimited retry budget leaves the
key with a deadline, and its requeue counter is one more than before -/
theorem work_fail_delayed {q : WQ} {k : String} {rest : List String} (hq : q.queue = k :: rest)
    (mr now : Int) (r : SyncResult) (hs : splitOk k = true) (hf : r.ok = false) (hmr : mr ≤ 0) :
    k ∈ delayedKeys (work q mr now r) ∧
    numRequeues (work q mr now r).requeues k = numRequeues q.requeues k + 1 := by
  rw [work_cons hq]
  simp only [syncItem, hs, hf, Bool.not_true, Bool.false_eq_true, if_false, hmr, true_or, if_true]
  constructor
  · simp only [delayedKeys, done_delayed, WQ.addRateLimited]
    exact mem_keys_setDelayed_self _ _ _
  · simp only [done_requeues, WQ.addRateLimited, numRequeues_setRequeues_self, applyOps_requeues]

/-- a successful sync resets the requeue counter of the key (`Forget`) -/
theorem work_ok_forgets {q : WQ} {k : String} {rest : List String} (hq : q.queue = k :: rest)
    (mr now : Int) (r : SyncResult) (hs : splitOk k = true) (hok : r.ok = true) :
    numRequeues (work q mr now r).requeues k = 0 := by
  rw [work_cons hq]
  simp only [syncItem, hs, hok, Bool.not_true, Bool.false_eq_true, if_false, if_true]
  simp only [done_requeues, WQ.forget]
  exact numRequeues_filter_ne _ _

/-- with a positive budget the key is re-queued exactly while the counter is below the budget -/
theorem work_fail_bounded {q : WQ} {k : String} {rest : List String} (hq : q.queue = k :: rest)
    (mr now : Int) (r : SyncResult) (hs : splitOk k = true) (hf : r.ok = false) (hmr : 0 < mr)
    (hd : r.during = []) :
    (work q mr now r).delayed =
      if (numRequeues q.requeues k : Int) < mr then (q.addRateLimited k now).delayed else q.delayed := by
  rw [work_cons hq]
  simp only [syncItem, hs, hf, hd, applyOps, List.foldl_nil, Bool.not_true, Bool.false_eq_true, if_false]
  have h0 : ¬ mr ≤ 0 := by omega
  simp only [h0, false_or]
  split <;> simp [WQ.addRateLimited]

/-- a key that cannot be split is neither retried nor forgotten: `work` only removes it from the
ready list -/
theorem work_unsplittable {q : WQ} {k : String} {rest : List String} (hq : q.queue = k :: rest)
    (mr now : Int) (r : SyncResult) (hs : splitOk k = false) :
    (work q mr now r).delayed = q.delayed ∧ (work q mr now r).requeues = q.requeues := by
  rw [work_cons hq]
  simp [syncItem, hs]

/-! ### well-formed queues between two `work` steps -/

/-- nothing in flight, no duplicate in the dirty set, every dirty key is in the ready list -/
structure WF (q : WQ) : Prop where
  idle  : q.processing = []
  nodup : q.dirty.Nodup
  dirty : ∀ k ∈ q.dirty, k ∈ q.queue

theorem WF_empty : WF {} := ⟨rfl, List.nodup_nil, by intro k hk; cases hk⟩

theorem contains_iff {l : List String} {k : String} : l.contains k = true ↔ k ∈ l := by simp

theorem WF.add {q : WQ} (h : WF q) (k : String) : WF (q.add k) := by
  unfold WQ.add
  split
  · exact h
  · rename_i hd
    have hk : k ∉ q.dirty := fun hm => hd (contains_iff.mpr hm)
    have hp : ¬ q.processing.contains k = true := by rw [h.idle]; simp
    simp only [hp, if_false]
    refine ⟨h.idle, List.nodup_cons.mpr ⟨hk, h.nodup⟩, ?_⟩
    intro x hx
    have hx' : x = k ∨ x ∈ q.dirty := by simpa using hx
    show x ∈ q.queue ++ [k]
    simp only [List.mem_append, List.mem_singleton]
    rcases hx' with rfl | hx'
    · exact Or.inr rfl
    · exact Or.inl (h.dirty x hx')

theorem mem_queue_add_self {q : WQ} (h : WF q) (k : String) : k ∈ (q.add k).queue := by
  unfold WQ.add
  split
  · rename_i hd; exact h.dirty k (contains_iff.mp hd)
  · have hp : k ∉ q.processing := by rw [h.idle]; simp
    simp [hp]

theorem mem_queue_add_mono {q : WQ} {k x : String} (hx : x ∈ q.queue) : x ∈ (q.add k).queue := by
  unfold WQ.add
  split
  · exact hx
  · simp only; split <;> simp [hx]

theorem length_queue_add_le (q : WQ) (k : String) : (q.add k).queue.length ≤ q.queue.length + 1 := by
  unfold WQ.add
  split
  · omega
  · simp only; split <;> simp

theorem mem_queue_of_add {q : WQ} {k x : String} (hx : x ∈ (q.add k).queue) : x ∈ q.queue ∨ x = k := by
  unfold WQ.add at hx
  split at hx
  · exact Or.inl hx
  · simp only at hx
    split at hx
    · exact Or.inl hx
    · simpa using hx

/-- folding `add` over a list of due entries -/
theorem foldl_add_facts (l : List (String × Int)) (q : WQ) (h : WF q) :
    let q' := l.foldl (fun acc x => acc.add x.1) q
    WF q' ∧ q'.delayed = q.delayed ∧ q'.requeues = q.requeues ∧
    q'.queue.length ≤ q.queue.length + l.length ∧
    (∀ x ∈ q.queue, x ∈ q'.queue) ∧ (∀ p ∈ l, p.1 ∈ q'.queue) ∧
    (∀ x ∈ q'.queue, x ∈ q.queue ∨ ∃ p ∈ l, p.1 = x) := by
  induction l generalizing q with
  | nil => simp [h]
  | cons y rest ih =>
    simp only [List.foldl_cons]
    obtain ⟨h1, h2, h3, h4, h5, h6, h7⟩ := ih (q.add y.1) (h.add y.1)
    refine ⟨h1, by rw [h2, add_delayed], by rw [h3, add_requeues], ?_, ?_, ?_, ?_⟩
    · have := length_queue_add_le q y.1
      simp only [List.length_cons]; omega
    · intro x hx; exact h5 x (mem_queue_add_mono hx)
    · intro p hp
      simp only [List.mem_cons] at hp
      rcases hp with rfl | hp
      · exact h5 _ (mem_queue_add_self h _)
      · exact h6 p hp
    · intro x hx
      rcases h7 x hx with hx' | ⟨p, hp, rfl⟩
      · rcases mem_queue_of_add hx' with hx'' | rfl
        · exact Or.inl hx''
        · exact Or.inr ⟨y, by simp, rfl⟩
      · exact Or.inr ⟨p, List.mem_cons_of_mem _ hp, rfl⟩

theorem length_insertDue (x : String × Int) (l : List (String × Int)) :
    (insertDue x l).length = l.length + 1 := by
  induction l with
  | nil => rfl
  | cons y rest ih =>
    simp only [insertDue]
    split
    · simp
    · simp [ih]

theorem mem_insertDue_iff {x y : String × Int} {l : List (String × Int)} :
    y ∈ insertDue x l ↔ y = x ∨ y ∈ l := by
  induction l with
  | nil => simp [insertDue]
  | cons z rest ih =>
    simp only [insertDue]
    split
    · simp
    · simp only [List.mem_cons, ih]
      constructor
      · rintro (h | h | h) <;> simp [h]
      · rintro (h | h | h) <;> simp [h]

theorem foldl_insertDue_facts (l acc : List (String × Int)) :
    (l.foldl (fun acc x => insertDue x acc) acc).length = acc.length + l.length ∧
    ∀ y, y ∈ l.foldl (fun acc x => insertDue x acc) acc ↔ y ∈ acc ∨ y ∈ l := by
  induction l generalizing acc with
  | nil => simp
  | cons z rest ih =>
    simp only [List.foldl_cons]
    obtain ⟨h1, h2⟩ := ih (insertDue z acc)
    refine ⟨by rw [h1, length_insertDue]; simp only [List.length_cons]; omega, ?_⟩
    intro y
    rw [h2, mem_insertDue_iff]
    simp only [List.mem_cons]
    constructor
    · rintro ((h | h) | h) <;> simp [h]
    · rintro (h | h | h) <;> simp [h]

/-- `advance` on an idle queue: due entries move to the ready list, the others keep their deadline -/
theorem advance_facts (q : WQ) (now : Int) (h : WF q) :
    let q' := q.advance now
    WF q' ∧ q'.requeues = q.requeues ∧
    q'.delayed = q.delayed.filter (fun x => ¬ x.2 ≤ now) ∧
    q'.queue.length ≤ q.queue.length + (q.delayed.filter (·.2 ≤ now)).length ∧
    (∀ x ∈ q.queue, x ∈ q'.queue) ∧
    (∀ p ∈ q.delayed, p.2 ≤ now → p.1 ∈ q'.queue) ∧
    (∀ x ∈ q'.queue, x ∈ q.queue ∨ x ∈ delayedKeys q) := by
  simp only [WQ.advance]
  obtain ⟨hl, hm⟩ := foldl_insertDue_facts (q.delayed.filter (·.2 ≤ now)) []
  have hwf1 : WF { q with delayed := q.delayed.filter (fun x => ¬ x.2 ≤ now) } := ⟨h.idle, h.nodup, h.dirty⟩
  obtain ⟨h1, h2, h3, h4, h5, h6, h7⟩ := foldl_add_facts
    ((q.delayed.filter (·.2 ≤ now)).foldl (fun acc x => insertDue x acc) []) _ hwf1
  refine ⟨h1, h3, h2, ?_, h5, ?_, ?_⟩
  · rw [hl] at h4; simpa using h4
  · intro p hp hdue
    apply h6 p
    rw [hm]
    exact Or.inr (List.mem_filter.mpr ⟨hp, by simpa using hdue⟩)
  · intro x hx
    rcases h7 x hx with hx' | ⟨p, hp, rfl⟩
    · exact Or.inl hx'
    · rw [hm] at hp
      rcases hp with hp | hp
      · cases hp
      · exact Or.inr (List.mem_map.mpr ⟨p, (List.mem_filter.mp hp).1, rfl⟩)

theorem minDeadline_none {d : List (String × Int)} (h : minDeadline d = none) : d = [] := by
  cases d with
  | nil => rfl
  | cons y rest =>
    obtain ⟨k, dl⟩ := y
    simp only [minDeadline] at h
    split at h <;> cases h

theorem minDeadline_mem {d : List (String × Int)} {m : Int} (h : minDeadline d = some m) :
    ∃ k, (k, m) ∈ d := by
  induction d generalizing m with
  | nil => simp [minDeadline] at h
  | cons y rest ih =>
    obtain ⟨k, dl⟩ := y
    simp only [minDeadline] at h
    split at h
    · simp only [Option.some.injEq] at h; exact ⟨k, by simp [h]⟩
    · rename_i m' hm'
      simp only [Option.some.injEq] at h
      split at h
      · exact ⟨k, by simp [h]⟩
      · obtain ⟨k', hk'⟩ := ih hm'
        exact ⟨k', by rw [← h]; exact List.mem_cons_of_mem _ hk'⟩

theorem done_clean {q : WQ} {k : String} (hp : q.processing = [k]) (hd : k ∉ q.dirty) :
    q.done k = { q with processing := [] } := by
  unfold WQ.done
  have h1 : q.processing.erase k = [] := by rw [hp]; simp
  have h2 : ¬ (q.dirty.contains k = true) := fun hc => hd (contains_iff.mp hc)
  simp only [h1, h2, if_false, Bool.false_eq_true]

theorem backoff_le (now : Int) (n : Nat) :
    now + 5000000 * ((2 ^ (if n > 6 then 6 else n) : Nat) : Int) ≤ now + 320000000 := by
  have he : (if n > 6 then 6 else n) ≤ 6 := by split <;> omega
  have h64 : ((2 ^ (if n > 6 then 6 else n) : Nat) : Int) ≤ 64 := by exact_mod_cast two_pow_le_64 he
  omega

theorem setDelayed_new {d : List (String × Int)} {k : String} {t T : Int} (hT : t ≤ T) :
    ∀ p ∈ setDelayed d k t, p ∈ d ∨ p.2 ≤ T := by
  induction d with
  | nil => intro p hp; simp [setDelayed] at hp; right; rw [hp]; exact hT
  | cons y rest ih =>
    obtain ⟨k', dl⟩ := y
    intro p hp
    simp only [setDelayed] at hp
    split at hp
    · rename_i hk'
      simp only [List.mem_cons] at hp
      rcases hp with hp | hp
      · rw [hp]; simp only
        split
        · right; exact hT
        · left; rw [hk']; simp
      · left; exact List.mem_cons_of_mem _ hp
    · simp only [List.mem_cons] at hp
      rcases hp with hp | hp
      · left; rw [hp]; simp
      · rcases ih p hp with h' | h'
        · left; exact List.mem_cons_of_mem _ h'
        · right; exact h'

/-- the shape of `work` between two steps, for a scripted sync without queue operations of its own -/
theorem work_facts {q : WQ} {k : String} {rest : List String} (h : WF q) (hq : q.queue = k :: rest)
    (mr now : Int) (ok : Bool) :
    let q' := work q mr now { ok := ok }
    WF q' ∧ q'.queue = rest ∧
    ((ok = true ∨ splitOk k = false) → q'.delayed = q.delayed) ∧
    q'.delayed.length ≤ q.delayed.length + 1 ∧
    (∀ x ∈ delayedKeys q, x ∈ delayedKeys q') ∧
    (∀ x ∈ delayedKeys q', x ∈ delayedKeys q ∨ x = k) ∧
    (∀ p ∈ q'.delayed, p ∈ q.delayed ∨ p.2 ≤ now + 320000000) := by
  have hke : k ∉ q.dirty.erase k := fun hm => ((List.Nodup.mem_erase_iff h.nodup).mp hm).1 rfl
  have hdirty : ∀ x ∈ q.dirty.erase k, x ∈ rest := by
    intro x hx
    have hx' := (List.Nodup.mem_erase_iff h.nodup).mp hx
    have := h.dirty x hx'.2
    rw [hq] at this
    simp only [List.mem_cons] at this
    rcases this with rfl | this
    · exact absurd rfl hx'.1
    · exact this
  have hnd : (q.dirty.erase k).Nodup := h.nodup.erase k
  have hproc : k :: q.processing = [k] := by rw [h.idle]
  rw [work_cons hq]
  simp only [syncItem, applyOps, List.foldl_nil]
  by_cases hs : splitOk k = true
  · simp only [hs, Bool.not_true, Bool.false_eq_true, if_false]
    cases ok with
    | true =>
      simp only [if_true]
      rw [done_clean (by simpa [WQ.forget] using hproc) (by simpa [WQ.forget] using hke)]
      exact ⟨⟨rfl, hnd, hdirty⟩, rfl, fun _ => rfl, by simp [WQ.forget], fun x hx => hx, fun x hx => Or.inl hx, fun p hp => Or.inl hp⟩
    | false =>
      simp only [Bool.false_eq_true, if_false]
      by_cases hc : mr ≤ 0 ∨ (numRequeues q.requeues k : Int) < mr
      · simp only [hc, if_true]
        rw [done_clean (by simpa [WQ.addRateLimited] using hproc) (by simpa [WQ.addRateLimited] using hke)]
        refine ⟨⟨rfl, hnd, hdirty⟩, rfl, ?_, length_setDelayed_le _ _ _, ?_, ?_, ?_⟩
        · rintro (h' | h')
          · cases h'
          · cases h'
        · intro x hx; exact mem_keys_setDelayed_mono hx
        · intro x hx; exact mem_keys_of_setDelayed hx
        · exact setDelayed_new (backoff_le now _)
      · simp only [hc, if_false]
        rw [done_clean hproc hke]
        exact ⟨⟨rfl, hnd, hdirty⟩, rfl, fun _ => rfl, by simp, fun x hx => hx, fun x hx => Or.inl hx, fun p hp => Or.inl hp⟩
  · have hs' : splitOk k = false := by simpa using hs
    simp only [hs', Bool.not_false, if_true, Bool.false_eq_true, if_false]
    rw [done_clean hproc hke]
    exact ⟨⟨rfl, hnd, hdirty⟩, rfl, fun _ => rfl, by simp, fun x hx => hx, fun x hx => Or.inl hx, fun p hp => Or.inl hp⟩

/-! ### runs of the retry loop -/

def falses (o : List Bool) : Nat := (o.filter (fun b => !b)).length

@[simp] theorem falses_nil : falses [] = 0 := rfl
@[simp] theorem falses_true (o : List Bool) : falses (true :: o) = falses o := by simp [falses]
@[simp] theorem falses_false (o : List Bool) : falses (false :: o) = falses o + 1 := by simp [falses]

/-- termination measure: two units per outstanding fault and per delayed key, one per ready key -/
def Run.measure (s : Run) : Nat := 2 * falses s.oracle + s.q.queue.length + 2 * s.q.delayed.length

def Run.quiet (s : Run) : Prop := s.q.queue = [] ∧ s.q.delayed = []

/-- `k` is known to the run: ready, delayed, or already synced successfully -/
def Run.pending (s : Run) (k : String) : Prop := k ∈ s.q.queue ∨ k ∈ delayedKeys s.q ∨ k ∈ s.synced

structure RunOK (s : Run) : Prop where
  wf     : WF s.q
  splitQ : ∀ k ∈ s.q.queue, splitOk k = true
  splitD : ∀ k ∈ delayedKeys s.q, splitOk k = true

theorem length_filter_not {α : Type} (p : α → Bool) (l : List α) :
    (l.filter p).length + (l.filter (fun x => !p x)).length = l.length := by
  induction l with
  | nil => rfl
  | cons y rest ih =>
    cases h : p y <;> simp [List.filter, h] <;> omega

theorem length_filter_split (l : List (String × Int)) (now : Int) :
    (l.filter (fun x => decide (x.2 ≤ now))).length + (l.filter (fun x => decide (¬ x.2 ≤ now))).length = l.length := by
  have h := length_filter_not (fun x : String × Int => decide (x.2 ≤ now)) l
  have e : (fun x : String × Int => decide (¬ x.2 ≤ now)) = (fun x => !decide (x.2 ≤ now)) := by
    funext x
    by_cases hx : x.2 ≤ now <;> simp [hx]
  rw [e]; exact h

theorem step_quiet (mr : Int) (s : Run) (h : s.quiet) : s.step mr = s := by
  unfold Run.step
  rw [h.1, h.2]
  rfl

theorem step_cons (mr : Int) (s : Run) {k : String} {rest : List String} (hq : s.q.queue = k :: rest) :
    s.step mr = { s with q := work s.q mr s.now { ok := s.oracle.headD true }, oracle := s.oracle.tail,
                         synced := if s.oracle.headD true && splitOk k then k :: s.synced else s.synced } := by
  unfold Run.step
  rw [hq]

theorem step_nil (mr : Int) (s : Run) (hq : s.q.queue = []) {d : Int} (hd : minDeadline s.q.delayed = some d) :
    s.step mr = { s with now := if s.now < d then d else s.now,
                         q := s.q.advance (if s.now < d then d else s.now) } := by
  unfold Run.step
  rw [hq, hd]

theorem falses_tail_le (o : List Bool) : falses o.tail ≤ falses o := by
  cases o with
  | nil => simp
  | cons b o' => cases b <;> simp

/-- one step of a run that is not quiet: the invariant is kept, the measure drops, no key is lost -/
theorem step_facts (mr : Int) (hmr : mr ≤ 0) (s : Run) (h : RunOK s) (hnq : ¬ s.quiet) :
    RunOK (s.step mr) ∧ (s.step mr).measure + 1 ≤ s.measure ∧
    (∀ k, s.pending k → (s.step mr).pending k) := by
  cases hq : s.q.queue with
  | cons k rest =>
    rw [step_cons mr s hq]
    obtain ⟨hwf, hqueue, hsame, hlen, hmono, hnew, _⟩ := work_facts h.wf hq mr s.now (s.oracle.headD true)
    have hks : splitOk k = true := h.splitQ k (by rw [hq]; simp)
    refine ⟨⟨hwf, ?_, ?_⟩, ?_, ?_⟩
    · intro x hx
      simp only at hx
      rw [hqueue] at hx
      exact h.splitQ x (by rw [hq]; exact List.mem_cons_of_mem _ hx)
    · intro x hx
      rcases hnew x hx with hx' | rfl
      · exact h.splitD x hx'
      · exact hks
    · simp only [Run.measure, hqueue]
      rw [hq]
      simp only [List.length_cons]
      cases ho : s.oracle with
      | nil =>
        have hd := hsame (Or.inl (by rw [ho]; rfl))
        rw [ho] at hd
        simp only [List.headD_nil, List.tail_nil, falses_nil] at hd ⊢
        rw [hd]; omega
      | cons b o' =>
        cases b with
        | true =>
          have hd := hsame (Or.inl (by rw [ho]; rfl))
          rw [ho] at hd
          simp only [List.headD_cons, List.tail_cons, falses_true] at hd ⊢
          rw [hd]; omega
        | false =>
          rw [ho] at hlen
          simp only [List.headD_cons, List.tail_cons, falses_false] at hlen ⊢
          omega
    · intro x hx
      simp only [Run.pending]
      rw [hqueue]
      rcases hx with hx | hx | hx
      · rw [hq] at hx
        simp only [List.mem_cons] at hx
        rcases hx with rfl | hx
        · cases hok : s.oracle.headD true with
          | true => right; right; simp [hks]
          | false =>
            right; left
            rw [← hok]
            have := (work_fail_delayed hq mr s.now { ok := s.oracle.headD true } hks (by simpa using hok) hmr).1
            simpa using this
        · exact Or.inl hx
      · exact Or.inr (Or.inl (hmono x hx))
      · right; right
        split
        · exact List.mem_cons_of_mem _ hx
        · exact hx
  | nil =>
    have hdne : s.q.delayed ≠ [] := fun hd => hnq ⟨hq, hd⟩
    cases hm : minDeadline s.q.delayed with
    | none => exact absurd (minDeadline_none hm) hdne
    | some d =>
      rw [step_nil mr s hq hm]
      obtain ⟨kd, hkd⟩ := minDeadline_mem hm
      generalize hnow : (if s.now < d then d else s.now) = now'
      have hdn : d ≤ now' := by rw [← hnow]; split <;> omega
      obtain ⟨hwf, _, hdel, hlen, _, hdue, hsrc⟩ := advance_facts s.q now' h.wf
      have hsplit := length_filter_split s.q.delayed now'
      have hdue1 : 1 ≤ (s.q.delayed.filter (fun x => decide (x.2 ≤ now'))).length := by
        have : (kd, d) ∈ s.q.delayed.filter (fun x => decide (x.2 ≤ now')) :=
          List.mem_filter.mpr ⟨hkd, by simpa using hdn⟩
        exact List.length_pos_of_mem this
      refine ⟨⟨hwf, ?_, ?_⟩, ?_, ?_⟩
      · intro x hx
        rcases hsrc x hx with hx' | hx'
        · exact h.splitQ x hx'
        · exact h.splitD x hx'
      · intro x hx
        simp only [delayedKeys] at hx
        rw [hdel] at hx
        obtain ⟨p, hp, rfl⟩ := List.mem_map.mp hx
        exact h.splitD p.1 (List.mem_map.mpr ⟨p, (List.mem_filter.mp hp).1, rfl⟩)
      · simp only [Run.measure]
        rw [hdel]
        rw [hq] at hlen
        simp only [List.length_nil, Nat.zero_add] at hlen
        omega
      · intro x hx
        simp only [Run.pending]
        rcases hx with hx | hx | hx
        · rw [hq] at hx; cases hx
        · obtain ⟨p, hp, rfl⟩ := List.mem_map.mp hx
          by_cases hpd : p.2 ≤ now'
          · exact Or.inl (hdue p hp hpd)
          · right; left
            simp only [delayedKeys]
            rw [hdel]
            exact List.mem_map.mpr ⟨p, List.mem_filter.mpr ⟨hp, by simpa using hpd⟩, rfl⟩
        · exact Or.inr (Or.inr hx)

theorem drain_quiet (mr : Int) (n : Nat) (s : Run) (h : s.quiet) : Run.drain mr n s = s := by
  induction n with
  | zero => rfl
  | succ n ih => simp only [Run.drain]; rw [step_quiet mr s h]; exact ih

theorem quiet_of_measure_zero {s : Run} (h : s.measure = 0) : s.quiet := by
  simp only [Run.measure] at h
  exact ⟨List.eq_nil_of_length_eq_zero (by omega), List.eq_nil_of_length_eq_zero (by omega)⟩

theorem pending_quiet {s : Run} (h : s.quiet) {k : String} (hk : s.pending k) : k ∈ s.synced := by
  rcases hk with hk | hk | hk
  · rw [h.1] at hk; cases hk
  · simp only [delayedKeys] at hk; rw [h.2] at hk; cases hk
  · exact hk

/-- **fuel suffices**: `measure` steps drain the queue, and every key that was ready, delayed or
already synced at the beginning has been synced successfully at the end -/
theorem fuel_suffices' (mr : Int) (hmr : mr ≤ 0) : ∀ (n : Nat) (s : Run), RunOK s → s.measure ≤ n →
    (Run.drain mr n s).quiet ∧ ∀ k, s.pending k → k ∈ (Run.drain mr n s).synced := by
  intro n
  induction n with
  | zero =>
    intro s _ hm
    have hq := quiet_of_measure_zero (Nat.le_zero.mp hm)
    exact ⟨hq, fun k hk => pending_quiet hq hk⟩
  | succ n ih =>
    intro s hok hm
    by_cases hq : s.quiet
    · rw [drain_quiet mr _ s hq]
      exact ⟨hq, fun k hk => pending_quiet hq hk⟩
    · obtain ⟨hok', hdec, hpend⟩ := step_facts mr hmr s hok hq
      obtain ⟨h1, h2⟩ := ih (s.step mr) hok' (by omega)
      exact ⟨h1, fun k hk => h2 k (hpend k hk)⟩

/-! ### clock bound: one maximal back-off (320 ms) per fault -/

def Bnd (s : Run) (U : Int) : Prop := s.now ≤ U ∧ ∀ p ∈ s.q.delayed, p.2 ≤ U

theorem step_wf (mr : Int) (s : Run) (h : WF s.q) : WF (s.step mr).q := by
  cases hq : s.q.queue with
  | cons k rest => rw [step_cons mr s hq]; exact (work_facts h hq mr s.now _).1
  | nil =>
    cases hm : minDeadline s.q.delayed with
    | none =>
      have : s.step mr = s := by unfold Run.step; rw [hq, hm]
      rw [this]; exact h
    | some d => rw [step_nil mr s hq hm]; exact (advance_facts s.q _ h).1

theorem step_bnd (mr : Int) (s : Run) (h : WF s.q) (U : Int) (hb : Bnd s U) :
    Bnd (s.step mr) (U + 320000000 * ((falses s.oracle : Int) - falses (s.step mr).oracle)) := by
  cases hq : s.q.queue with
  | cons k rest =>
    rw [step_cons mr s hq]
    obtain ⟨_, _, hsame, _, _, _, hnew⟩ := work_facts h hq mr s.now (s.oracle.headD true)
    cases ho : s.oracle with
    | nil =>
      have hd := hsame (Or.inl (by rw [ho]; rfl))
      rw [ho] at hd
      simp only [List.headD_nil, List.tail_nil, falses_nil] at hd ⊢
      refine ⟨by simpa using hb.1, ?_⟩
      intro p hp; simp only at hp; rw [hd] at hp; simpa using hb.2 p hp
    | cons b o' =>
      cases b with
      | true =>
        have hd := hsame (Or.inl (by rw [ho]; rfl))
        rw [ho] at hd
        simp only [List.headD_cons, List.tail_cons, falses_true] at hd ⊢
        refine ⟨by simpa using hb.1, ?_⟩
        intro p hp; simp only at hp; rw [hd] at hp; simpa using hb.2 p hp
      | false =>
        rw [ho] at hnew
        simp only [List.headD_cons, List.tail_cons, falses_false] at hnew ⊢
        have h1 := hb.1
        refine ⟨by simp only; push_cast; omega, ?_⟩
        intro p hp
        simp only at hp
        rcases hnew p hp with hp' | hp'
        · have := hb.2 p hp'; push_cast; omega
        · push_cast; omega
  | nil =>
    cases hm : minDeadline s.q.delayed with
    | none =>
      have : s.step mr = s := by unfold Run.step; rw [hq, hm]
      rw [this]; simpa using hb
    | some d =>
      rw [step_nil mr s hq hm]
      obtain ⟨kd, hkd⟩ := minDeadline_mem hm
      have hdU : d ≤ U := hb.2 (kd, d) hkd
      obtain ⟨_, _, hdel, _⟩ := advance_facts s.q (if s.now < d then d else s.now) h
      refine ⟨?_, ?_⟩
      · simp only [Int.sub_self, Int.mul_zero, Int.add_zero]
        have := hb.1
        split <;> omega
      · intro p hp
        simp only at hp
        rw [hdel] at hp
        simpa using hb.2 p (List.mem_filter.mp hp).1

theorem drain_bnd (mr : Int) : ∀ (n : Nat) (s : Run) (U : Int), WF s.q → Bnd s U →
    Bnd (Run.drain mr n s) (U + 320000000 * (falses s.oracle : Int)) := by
  intro n
  induction n with
  | zero =>
    intro s U _ hb
    refine ⟨?_, fun p hp => ?_⟩
    · have := hb.1; simp only [Run.drain]; omega
    · have := hb.2 p hp; omega
  | succ n ih =>
    intro s U hwf hb
    have hb' := step_bnd mr s hwf U hb
    have := ih (s.step mr) _ (step_wf mr s hwf) hb'
    simp only [Run.drain]
    have hle : falses (s.step mr).oracle ≤ falses s.oracle := by
      cases hq : s.q.queue with
      | cons k rest => rw [step_cons mr s hq]; exact falses_tail_le _
      | nil =>
        cases hm : minDeadline s.q.delayed with
        | none =>
          have : s.step mr = s := by unfold Run.step; rw [hq, hm]
          rw [this]; exact Nat.le_refl _
        | some d => rw [step_nil mr s hq hm]; exact Nat.le_refl _
    have heq : U + 320000000 * ((falses s.oracle : Int) - falses (s.step mr).oracle) + 320000000 * (falses (s.step mr).oracle : Int)
        = U + 320000000 * (falses s.oracle : Int) := by omega
    rw [heq] at this
    exact this

end Furiko.Retry
