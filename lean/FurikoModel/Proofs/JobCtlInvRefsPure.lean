/-
Pure lemmas behind the "recorded refs stay well-formed" invariant of the job controller:
task names are injective in (hash, retry) when hashes contain no `-`; `GenerateTaskRefs` keeps names
pairwise distinct, keeps every ref well-named, and never clears a recorded timestamp.
Core Lean only.
-/
import FurikoModel.Proofs.JobCtlInvJob
import FurikoModel.Proofs.StrLemmas

set_option linter.unusedSimpArgs false
set_option linter.unusedVariables false

namespace Furiko.JobCtl
open Furiko Furiko.WQ Furiko.StatusLemmas Furiko.ParallelLemmas

/-! ### task names -/

theorem int_repr_toList (r : Int) : (toString r).toList = Str.showInt r := by
  show (Int.repr r).toList = Str.showInt r
  cases r with
  | ofNat m =>
    show (Nat.repr m).toList = _
    rw [Nat.repr_eq_ofList_toDigits, String.toList_ofList]
    unfold Str.showInt Str.natDigits
    have : ¬ ((Int.ofNat m) < 0) := Int.not_lt.mpr (Int.natCast_nonneg m)
    rw [if_neg this]
    rfl
  | negSucc m =>
    show ("-" ++ (Nat.repr (m + 1))).toList = _
    rw [String.toList_append, Nat.repr_eq_ofList_toDigits]
    simp only [String.toList_ofList]
    unfold Str.showInt Str.natDigits
    have : (Int.negSucc m) < 0 := Int.negSucc_lt_zero m
    rw [if_pos this]
    rfl

theorem taskName_toList (n h : String) (r : Int) :
    (taskName n h r).toList = n.toList ++ ('-' :: (h.toList ++ ('-' :: Str.showInt r))) := by
  show (toString n ++ "-" ++ toString h ++ "-" ++ toString r).toList = _
  rw [String.toList_append, String.toList_append, String.toList_append, String.toList_append, int_repr_toList]
  show (n.toList ++ ['-'] ++ h.toList ++ ['-']) ++ Str.showInt r = _
  simp [List.append_assoc]

theorem append_cons_inj {α : Type} {c : α} : ∀ {a b x y : List α}, c ∉ a → c ∉ b →
    a ++ c :: x = b ++ c :: y → a = b ∧ x = y := by
  intro a
  induction a with
  | nil =>
    intro b x y _ hb e
    cases b with
    | nil => simp only [List.nil_append, List.cons.injEq, true_and] at e; exact ⟨rfl, e⟩
    | cons b0 bs =>
      simp only [List.nil_append, List.cons_append, List.cons.injEq] at e
      exact absurd (e.1 ▸ List.mem_cons_self) hb
  | cons a0 as ih =>
    intro b x y ha hb e
    cases b with
    | nil =>
      simp only [List.nil_append, List.cons_append, List.cons.injEq] at e
      exact absurd (e.1 ▸ List.mem_cons_self) ha
    | cons b0 bs =>
      simp only [List.cons_append, List.cons.injEq] at e
      have := ih (fun h => ha (List.mem_cons_of_mem _ h)) (fun h => hb (List.mem_cons_of_mem _ h)) e.2
      exact ⟨by rw [e.1, this.1], this.2⟩

/-- `(hash, retry) ↦ task name` is injective when the hashes contain no `-` -/
theorem taskName_inj {n h h' : String} {r r' : Int} (hh : '-' ∉ h.toList) (hh' : '-' ∉ h'.toList)
    (e : taskName n h r = taskName n h' r') : h = h' ∧ r = r' := by
  have e1 := congrArg String.toList e
  rw [taskName_toList, taskName_toList] at e1
  have e2 := List.append_cancel_left e1
  simp only [List.cons.injEq, true_and] at e2
  have := append_cons_inj hh hh' e2
  exact ⟨String.toList_inj.mp this.1, Str.showInt_injective this.2⟩

/-! ### sorting is a permutation -/

theorem insertRef_perm (x : TaskRef) : ∀ (l : List TaskRef), (insertRef x l).Perm (x :: l)
  | [] => List.Perm.refl _
  | y :: ys => by
    unfold insertRef
    split
    · exact List.Perm.refl _
    · exact ((insertRef_perm x ys).cons y).trans (List.Perm.swap x y ys)

theorem foldl_insertRef_perm : ∀ (l acc : List TaskRef),
    (l.foldl (fun acc x => insertRef x acc) acc).Perm (l ++ acc)
  | [], acc => List.Perm.refl _
  | x :: rest, acc => by
    simp only [List.foldl_cons, List.cons_append]
    refine (foldl_insertRef_perm rest (insertRef x acc)).trans ?_
    exact ((insertRef_perm x acc).append_left rest).trans List.perm_middle

theorem sortTaskRefs_perm (l : List TaskRef) : (sortTaskRefs l).Perm l := by
  unfold sortTaskRefs
  simpa using foldl_insertRef_perm l []

/-! ### well-named refs and tasks -/

/-- the ref carries one of the Job's indexes and is named after it and its retry number -/
def RefOK (j0 : JobObj) (d : PIndex) (r : TaskRef) : Prop :=
  (∃ idx ∈ j0.job.indexes d, r.parallelIndex = some idx ∧ r.name = taskName j0.name idx.hash r.retryIndex) ∧
  r.creationTimestamp.isSome = true

/-- index hashes can be told apart and are usable in names -/
structure WF2 (j0 : JobObj) (d : PIndex) : Prop where
  noCollision : NoCollision (j0.job.indexes d)
  noDash : ∀ i ∈ j0.job.indexes d, '-' ∉ i.hash.toList

/-- a working Job value whose recorded refs are fine -/
structure Good (j0 : JobObj) (d : PIndex) (rj : Job) : Prop where
  nodup : (refNames rj).Nodup
  refs : ∀ r ∈ rj.status.tasks, RefOK j0 d r
  created : rj.status.createdTasks = rj.status.tasks.length

/-- a task list whose names are pairwise distinct and well-formed -/
structure TasksGood (j0 : JobObj) (d : PIndex) (tasks : List Task) : Prop where
  nodup : (tasks.map (·.name)).Nodup
  ok : ∀ t ∈ tasks, TaskOK t ∧ RefOK j0 d t.ref

/-- `r` is what became of `ex`: same name, no recorded timestamp cleared -/
def RefKeep (ex r : TaskRef) : Prop :=
  r.name = ex.name ∧ (ex.creationTimestamp.isSome = true → r.creationTimestamp.isSome = true) ∧
  (ex.runningTimestamp.isSome = true → r.runningTimestamp.isSome = true) ∧
  (ex.finishTimestamp.isSome = true → r.finishTimestamp.isSome = true)

def RefsKeep (a b : List TaskRef) : Prop := ∀ ex ∈ a, ∃ r ∈ b, RefKeep ex r

theorem RefsKeep.refl (a : List TaskRef) : RefsKeep a a := fun ex h => ⟨ex, h, rfl, id, id, id⟩

theorem RefsKeep.trans {a b c : List TaskRef} (h1 : RefsKeep a b) (h2 : RefsKeep b c) : RefsKeep a c := by
  intro ex hex
  obtain ⟨r, hr, k1⟩ := h1 ex hex
  obtain ⟨r', hr', k2⟩ := h2 r hr
  exact ⟨r', hr', k2.1.trans k1.1, fun h => k2.2.1 (k1.2.1 h), fun h => k2.2.2.1 (k1.2.2.1 h),
    fun h => k2.2.2.2 (k1.2.2.2 h)⟩

theorem RefsKeep.of_map {a : List TaskRef} (f : TaskRef → TaskRef) (hf : ∀ r, RefKeep r (f r)) :
    RefsKeep a (a.map f) := fun ex h => ⟨f ex, List.mem_map_of_mem h, hf ex⟩

/-- two well-named refs with the same name have the same index hash and retry number -/
theorem RefOK.same_name {j0 : JobObj} {d : PIndex} (hwf : WF2 j0 d) {r r' : TaskRef} (h : RefOK j0 d r)
    (h' : RefOK j0 d r') (e : r.name = r'.name) : r.hash d = r'.hash d ∧ r.retryIndex = r'.retryIndex := by
  obtain ⟨⟨i, hi, hp, hn⟩, _⟩ := h
  obtain ⟨⟨i', hi', hp', hn'⟩, _⟩ := h'
  rw [hn, hn'] at e
  have := taskName_inj (hwf.noDash i hi) (hwf.noDash i' hi') e
  unfold TaskRef.hash TaskRef.index
  rw [hp, hp']
  exact ⟨this.1, this.2⟩

/-- a name built from the next retry number of an index is not among the recorded names -/
theorem fresh_name {j0 : JobObj} {d : PIndex} (hwf : WF2 j0 d) {refs : List TaskRef}
    (hrefs : ∀ r ∈ refs, RefOK j0 d r) {idx : PIndex} (hidx : idx ∈ j0.job.indexes d) :
    taskName j0.name idx.hash (nextRetryIndex d refs idx.hash) ∉ refs.map (·.name) := by
  intro hmem
  obtain ⟨r, hr, hn⟩ := List.mem_map.mp hmem
  obtain ⟨⟨i, hi, hp, hn'⟩, _⟩ := hrefs r hr
  rw [hn'] at hn
  have := taskName_inj (hwf.noDash i hi) (hwf.noDash idx hidx) hn
  have hh : r.hash d = idx.hash := by
    unfold TaskRef.hash TaskRef.index; rw [hp]; exact this.1
  have hin : r ∈ tasksOfHash d refs idx.hash := (mem_tasksOfHash d refs idx.hash r).mpr ⟨hr, hh⟩
  have hge := (foldl_maxSucc_ge ((tasksOfHash d refs idx.hash).map (·.retryIndex)) 0).2 r.retryIndex
    (List.mem_map_of_mem hin)
  rw [nextRetryIndex_eq_maxSucc] at this
  unfold maxSucc at this
  omega

/-! ### `GenerateTaskRefs` on good inputs -/

theorem getTaskRef_fields (e : Option TaskRef) (t : Task) :
    (getTaskRef e t).name = t.ref.name ∧ (getTaskRef e t).parallelIndex = t.ref.parallelIndex ∧
    (getTaskRef e t).retryIndex = t.ref.retryIndex ∧
    (getTaskRef e t).creationTimestamp = t.ref.creationTimestamp := by
  unfold getTaskRef
  cases e with
  | none => simp only; split <;> exact ⟨rfl, rfl, rfl, rfl⟩
  | some ex =>
    simp only
    repeat' split
    all_goals exact ⟨rfl, rfl, rfl, rfl⟩

theorem getTaskRef_refOK {j0 : JobObj} {d : PIndex} (e : Option TaskRef) (t : Task) (h : RefOK j0 d t.ref) :
    RefOK j0 d (getTaskRef e t) := by
  obtain ⟨h1, h2, h3, h4⟩ := getTaskRef_fields e t
  obtain ⟨⟨i, hi, hp, hn⟩, hc⟩ := h
  exact ⟨⟨i, hi, h2.trans hp, by rw [h1, h3]; exact hn⟩, by rw [h4]; exact hc⟩

theorem lostRef_fields (now : Time) (ex : TaskRef) :
    (lostRef now ex).name = ex.name ∧ (lostRef now ex).parallelIndex = ex.parallelIndex ∧
    (lostRef now ex).retryIndex = ex.retryIndex ∧ (lostRef now ex).creationTimestamp = ex.creationTimestamp := by
  unfold lostRef
  cases ex.finishTimestamp <;> cases ex.deletedStatus <;> exact ⟨rfl, rfl, rfl, rfl⟩

theorem lostRef_refOK {j0 : JobObj} {d : PIndex} (now : Time) (ex : TaskRef) (h : RefOK j0 d ex) :
    RefOK j0 d (lostRef now ex) := by
  obtain ⟨h1, h2, h3, h4⟩ := lostRef_fields now ex
  obtain ⟨⟨i, hi, hp, hn⟩, hc⟩ := h
  exact ⟨⟨i, hi, h2.trans hp, by rw [h1, h3]; exact hn⟩, by rw [h4]; exact hc⟩

theorem mem_generateTaskRefs {now : Time} {existing : List TaskRef} {tasks : List Task} {r : TaskRef}
    (h : r ∈ generateTaskRefs now existing tasks) :
    (∃ t ∈ tasks, r = getTaskRef (lookupRef existing t.name) t) ∨
    (∃ ex ∈ existing, ex.name ∉ tasks.map (·.name) ∧ r = lostRef now ex) := by
  unfold generateTaskRefs at h
  rw [mem_sortTaskRefs] at h
  rcases List.mem_append.mp h with h | h
  · obtain ⟨t, ht, rfl⟩ := List.mem_map.mp h
    exact Or.inl ⟨t, ht, rfl⟩
  · obtain ⟨ex, hex, rfl⟩ := List.mem_map.mp h
    have := List.mem_filter.mp hex
    refine Or.inr ⟨ex, this.1, ?_, rfl⟩
    have h2 := this.2
    simp only [Bool.not_eq_true', ← Bool.not_eq_true] at h2
    rw [List.contains_iff_mem] at h2
    exact h2

theorem generateTaskRefs_names_nodup (now : Time) (existing : List TaskRef) (tasks : List Task)
    (hex : (existing.map (·.name)).Nodup) (hts : (tasks.map (·.name)).Nodup) (hok : ∀ t ∈ tasks, TaskOK t) :
    ((generateTaskRefs now existing tasks).map (·.name)).Nodup := by
  unfold generateTaskRefs
  simp only
  have hperm := (sortTaskRefs_perm (tasks.map (fun t => getTaskRef (lookupRef existing t.name) t) ++
      (existing.filter (fun ex => !(tasks.map (·.name)).contains ex.name)).map (lostRef now))).map (·.name)
  rw [hperm.nodup_iff, List.map_append, List.nodup_append]
  have h1 : (tasks.map (fun t => getTaskRef (lookupRef existing t.name) t)).map (·.name) = tasks.map (·.name) := by
    rw [List.map_map]
    apply List.map_congr_left
    intro t ht
    simp only [Function.comp]
    rw [getTaskRef_name, hok t ht]
  have h2 : ((existing.filter (fun ex => !(tasks.map (·.name)).contains ex.name)).map (lostRef now)).map (·.name) =
      (existing.filter (fun ex => !(tasks.map (·.name)).contains ex.name)).map (·.name) := by
    rw [List.map_map]
    apply List.map_congr_left
    intro ex _
    exact (lostRef_fields now ex).1
  rw [h1, h2]
  refine ⟨hts, (List.filter_sublist.map _).nodup hex, ?_⟩
  intro a ha b hb e
  subst e
  obtain ⟨ex, hexm, rfl⟩ := List.mem_map.mp hb
  have := (List.mem_filter.mp hexm).2
  simp only [Bool.not_eq_true', ← Bool.not_eq_true] at this
  rw [List.contains_iff_mem] at this
  exact this ha

theorem generateTaskRefs_keep (now : Time) (existing : List TaskRef) (tasks : List Task)
    (hex : (existing.map (·.name)).Nodup) (hok : ∀ t ∈ tasks, TaskOK t)
    (hct : ∀ t ∈ tasks, t.ref.creationTimestamp.isSome = true) :
    RefsKeep existing (generateTaskRefs now existing tasks) := by
  intro ex hexm
  have hm := Furiko.Props.C11.generateTaskRefs_members now existing tasks
  by_cases hin : ex.name ∈ tasks.map (·.name)
  · obtain ⟨t, ht, htn⟩ := List.mem_map.mp hin
    refine ⟨getTaskRef (lookupRef existing t.name) t, hm.2.1 t ht, ?_, ?_, ?_⟩
    · rw [getTaskRef_name, hok t ht, htn]
    · intro _; rw [(getTaskRef_fields _ t).2.2.2]; exact hct t ht
    · rw [htn, lookupRef_of_nodup existing hex ex hexm]
      have := Furiko.Props.C11.getTaskRef_retains ex t
      exact ⟨this.2.2.1, this.2.2.2⟩
  · refine ⟨lostRef now ex, hm.1 ex hexm hin, ?_⟩
    have := Furiko.Props.C11.lostRef_retains now ex
    refine ⟨this.1, ?_, ?_, fun _ => this.2.2.2.1⟩
    · rw [(lostRef_fields now ex).2.2.2]; exact id
    · rw [this.2.1]; exact id

theorem updateJobTaskRefs_good {j0 : JobObj} {d : PIndex} (now : Time) (rj : Job) (tasks : List Task)
    (hg : Good j0 d rj) (ht : TasksGood j0 d tasks) :
    Good j0 d (updateJobTaskRefs now rj tasks) ∧
    RefsKeep rj.status.tasks (updateJobTaskRefs now rj tasks).status.tasks := by
  refine ⟨⟨?_, ?_, rfl⟩, ?_⟩
  · exact generateTaskRefs_names_nodup now _ _ hg.nodup ht.nodup (fun t h => (ht.ok t h).1)
  · intro r hr
    rcases mem_generateTaskRefs hr with ⟨t, htm, rfl⟩ | ⟨ex, hexm, _, rfl⟩
    · exact getTaskRef_refOK _ t (ht.ok t htm).2
    · exact lostRef_refOK now ex (hg.refs ex hexm)
  · exact generateTaskRefs_keep now _ _ hg.nodup (fun t h => (ht.ok t h).1) (fun t h => (ht.ok t h).2.2)

/-- a transformation that rewrites refs in place, keeping name, index, retry number and timestamps -/
theorem Good.map {j0 : JobObj} {d : PIndex} {rj : Job} (hg : Good j0 d rj) (f : TaskRef → TaskRef)
    (hf : ∀ r, (f r).name = r.name ∧ (f r).parallelIndex = r.parallelIndex ∧ (f r).retryIndex = r.retryIndex ∧
      (f r).creationTimestamp = r.creationTimestamp) :
    Good j0 d { rj with status := { rj.status with tasks := rj.status.tasks.map f } } := by
  refine ⟨?_, ?_, ?_⟩
  · have : refNames { rj with status := { rj.status with tasks := rj.status.tasks.map f } } = refNames rj := by
      unfold refNames
      simp only [List.map_map]
      apply List.map_congr_left
      intro r _
      exact (hf r).1
    rw [this]; exact hg.nodup
  · intro r hr
    obtain ⟨r0, hr0, rfl⟩ := List.mem_map.mp hr
    obtain ⟨⟨i, hi, hp, hn⟩, hc⟩ := hg.refs r0 hr0
    obtain ⟨h1, h2, h3, h4⟩ := hf r0
    exact ⟨⟨i, hi, h2.trans hp, by rw [h1, h3]; exact hn⟩, by rw [h4]; exact hc⟩
  · show rj.status.createdTasks = ((rj.status.tasks.map f).length : Int)
    rw [List.length_map]; exact hg.created

/-! ### tasks found through the recorded refs -/

theorem filterMap_names_sublist {α β : Type} (f : α → Option β) (g : β → String) (h : α → String)
    (hfg : ∀ x y, f x = some y → g y = h x) : ∀ (l : List α), ((l.filterMap f).map g).Sublist (l.map h)
  | [] => List.Sublist.slnil
  | x :: rest => by
    rw [List.filterMap_cons]
    cases hx : f x with
    | none => simp only [List.map_cons]; exact (filterMap_names_sublist f g h hfg rest).cons _
    | some y =>
      simp only [List.map_cons]
      rw [hfg x y hx]
      exact (filterMap_names_sublist f g h hfg rest).cons_cons _

end Furiko.JobCtl
